(* C06 (unit c06_own) - proofs about the ownership model of Ownership.v. *)
From Coq Require Import List NArith ZArith Bool Lia Permutation.
Require Import Base Generated Ownership.
Import ListNotations.
Local Open Scope N_scope.

(* ------------------------------------------------------------------------------------------------ *)
(* Lists, views, heaps                                                                                *)

Lemma strz_idem : forall l, strz (strz l) = strz l.
Proof.
  induction l as [|x t IH]; cbn [strz]; [reflexivity|].
  destruct (Z.eqb x 0) eqn:E; cbn [strz]; [reflexivity|]. rewrite E, IH. reflexivity.
Qed.

Lemma look_idem : forall v l, look v (look v l) = look v l.
Proof.
  destruct v; intro l; cbn [look]; try reflexivity.
  - rewrite firstn_firstn, Nat.min_id. reflexivity.
  - apply strz_idem.
Qed.

Lemma load_store_same : forall h a l, a <> 0 -> load (store h a l) a = l.
Proof.
  intros h a l Ha. unfold load, store. apply N.eqb_neq in Ha. rewrite Ha, N.eqb_refl. reflexivity.
Qed.
Lemma load_store_other : forall h a b l, a <> b -> load (store h b l) a = load h a.
Proof.
  intros h a b l Hab. unfold load, store. destruct (a =? 0); [reflexivity|].
  apply N.eqb_neq in Hab. rewrite Hab. reflexivity.
Qed.

Lemma in_nz : forall a x, In x (nz a) <-> x = a /\ a <> 0.
Proof.
  intros a x. unfold nz. destruct (a =? 0) eqn:E.
  - apply N.eqb_eq in E. cbn. split; [tauto|]. intros [_ H]. contradiction.
  - apply N.eqb_neq in E. cbn. split; [intros [H|[]]; subst; auto | intros [H _]; auto].
Qed.
Lemma nz_nonzero : forall a, a <> 0 -> nz a = [a].
Proof. intros a H. unfold nz. apply N.eqb_neq in H. rewrite H. reflexivity. Qed.
Lemma NoDup_nz : forall a, NoDup (nz a).
Proof. intro a. unfold nz. destruct (a =? 0); constructor; [intros []|constructor]. Qed.

Lemma mem_In : forall a l, mem a l = true <-> In a l.
Proof.
  induction l as [|x t IH]; cbn [mem In]; [split; [discriminate|tauto]|].
  destruct (x =? a) eqn:E.
  - apply N.eqb_eq in E. split; auto.
  - apply N.eqb_neq in E. rewrite IH. split; [auto|intros [H|H]; [contradiction|exact H]].
Qed.

Lemma freed_app : forall l1 l2, freed (l1 ++ l2) = freed l1 ++ freed l2.
Proof.
  induction l1 as [|e t IH]; intro l2; [reflexivity|].
  destruct e; cbn [freed app]; rewrite ?IH; reflexivity.
Qed.
Lemma freed_in_target : forall l a, In a (freed l) -> exists e, In e l /\ wr_target e = a.
Proof.
  induction l as [|e t IH]; intros a H; [destruct H|].
  destruct e; cbn [freed] in H; try (destruct (IH _ H) as [e' [H1 H2]]; exists e'; split; [right; exact H1|exact H2]).
  destruct H as [H|H].
  - subst. exists (EFree a). split; [left; reflexivity|reflexivity].
  - destruct (IH _ H) as [e' [H1 H2]]. exists e'. split; [right; exact H1|exact H2].
Qed.

(* ------------------------------------------------------------------------------------------------ *)
(* Induction over ownership trees                                                                     *)

Section OtreeInd.
  Variable P : otree -> Prop.
  Hypothesis HBuf : forall a k cap m kids, Forall P kids -> P (Buf a k cap m kids).
  Hypothesis HGrp : forall m kids, Forall P kids -> P (Grp m kids).
  Hypothesis HExt : forall a, P (Ext a).
  Hypothesis HRaw : forall t, P t -> P (Raw t).
  Fixpoint otree_ind' (t : otree) : P t :=
    match t with
    | Buf a k cap m kids =>
        HBuf a k cap m kids ((fix go (l : list otree) : Forall P l :=
                                match l with [] => Forall_nil P | x :: r => Forall_cons x (otree_ind' x) (go r) end) kids)
    | Grp m kids =>
        HGrp m kids ((fix go (l : list otree) : Forall P l :=
                        match l with [] => Forall_nil P | x :: r => Forall_cons x (otree_ind' x) (go r) end) kids)
    | Ext a => HExt a
    | Raw t' => HRaw t' (otree_ind' t')
    end.
End OtreeInd.

Lemma map_ext_Forall : forall {A B} (f g : A -> B) l, Forall (fun x => f x = g x) l -> map f l = map g l.
Proof. induction 1; cbn; congruence. Qed.

(* the value an object denotes depends only on the contents of the buffers it owns *)
Lemma erase_ext : forall h1 h2 t,
  (forall a, In a (addrs t) -> load h1 a = load h2 a) -> erase h1 t = erase h2 t.
Proof.
  intros h1 h2 t. induction t as [a k cap m kids IH|m kids IH|a|t IH] using otree_ind'; intro H; cbn [erase].
  - f_equal.
    + destruct (N.eq_dec a 0) as [->|Ha]; [reflexivity|].
      rewrite (H a); [reflexivity|]. cbn [addrs]. apply in_or_app. left. rewrite nz_nonzero by exact Ha. left. reflexivity.
    + apply map_ext_Forall. rewrite Forall_forall in *. intros x Hx. apply IH; [exact Hx|].
      intros b Hb. apply H. cbn [addrs]. apply in_or_app. right. apply in_flat_map. exists x. auto.
  - f_equal. apply map_ext_Forall. rewrite Forall_forall in *. intros x Hx. apply IH; [exact Hx|].
    intros b Hb. apply H. cbn [addrs]. apply in_flat_map. exists x. auto.
  - reflexivity.
  - f_equal. f_equal. apply IH. exact H.
Qed.

(* FRAME, tree level: a store outside the owned buffers is invisible *)
Lemma erase_store_frame : forall h t a l, ~ In a (addrs t) -> erase (store h a l) t = erase h t.
Proof.
  intros h t a l H. apply erase_ext. intros b Hb. apply load_store_other. intro E. subst. contradiction.
Qed.

Lemma apply_event_other : forall w h e a, wr_target e <> a -> load (apply_event w h e) a = load h a.
Proof.
  intros w h e a H. destruct e; cbn [apply_event wr_target] in *; try (apply load_store_other; congruence).
  reflexivity.
Qed.
Lemma replay_other : forall w l h a, Forall (fun e => wr_target e <> a) l -> load (replay w l h) a = load h a.
Proof.
  intros w l. induction l as [|e t IH]; intros h a H; [reflexivity|].
  inversion H; subst. cbn [replay fold_left]. change (load (replay w t (apply_event w h e)) a = load h a).
  rewrite IH by assumption. apply apply_event_other. assumption.
Qed.
Lemma replay_app : forall w l1 l2 h, replay w (l1 ++ l2) h = replay w l2 (replay w l1 h).
Proof. intros. unfold replay. apply fold_left_app. Qed.

Lemma erase_replay_frame : forall w l h t,
  (forall e, In e l -> ~ In (wr_target e) (addrs t)) -> erase (replay w l h) t = erase h t.
Proof.
  intros w l h t H. apply erase_ext. intros a Ha. apply replay_other.
  rewrite Forall_forall. intros e He E. apply (H e He). rewrite E. exact Ha.
Qed.

(* ------------------------------------------------------------------------------------------------ *)
(* Running the monad                                                                                  *)

Definition in_rng (lo hi x : N) : Prop := lo <= x < hi.

Lemma bind_ok : forall {A B} (m : M A) (f : A -> M B) s b s',
  bind m f s = Ok (b, s') -> exists a s1, m s = Ok (a, s1) /\ f a s1 = Ok (b, s').
Proof.
  intros A B m f s b s' H. unfold bind in H. destruct (m s) as [[a s1]| | | | |]; try discriminate.
  exists a, s1. auto.
Qed.
Lemma ret_ok : forall {A} (a b : A) s s', ret a s = Ok (b, s') -> a = b /\ s = s'.
Proof. intros A a b s s' H. unfold ret in H. inversion H. auto. Qed.

Ltac mrun H :=
  repeat match type of H with
         | bind _ _ _ = Ok _ =>
             let a := fresh "x" in let s1 := fresh "s" in let H1 := fresh "R" in
             apply bind_ok in H; destruct H as [a [s1 [H1 H]]]
         | ret _ _ = Ok _ => apply ret_ok in H; destruct H as [? ?]; subst
         end.

Ltac mrun_all :=
  repeat match goal with
         | H : bind _ _ _ = Ok _ |- _ =>
             let a := fresh "x" in let s1 := fresh "s" in let H1 := fresh "R" in
             apply bind_ok in H; destruct H as [a [s1 [H1 H]]]
         | H : ret _ _ = Ok _ |- _ => apply ret_ok in H; destruct H as [? ?]; subst
         end.

(* what a run did: the allocator only moves forward, the log grows by `new`, every event of `new` targets an
   address allocated by this very run, the addresses `res` (owned by the result) were all allocated by this
   run, none of them twice, none of them freed again *)
Definition gfacts (s s' : st) (new : list event) (res : list addr) : Prop :=
  nxt s <= nxt s' /\ evs s' = evs s ++ new /\
  Forall (fun e => in_rng (nxt s) (nxt s') (wr_target e)) new /\
  Forall (in_rng (nxt s) (nxt s')) res /\ NoDup res /\
  Forall (fun x => ~ In x (freed new)) res.

Lemma Forall_rng_widen : forall lo hi lo' hi' l,
  lo' <= lo -> hi <= hi' -> Forall (in_rng lo hi) l -> Forall (in_rng lo' hi') l.
Proof. intros. eapply Forall_impl; [|eassumption]. unfold in_rng. intros; lia. Qed.
Lemma Forall_tgt_widen : forall lo hi lo' hi' (l : list event),
  lo' <= lo -> hi <= hi' -> Forall (fun e => in_rng lo hi (wr_target e)) l ->
  Forall (fun e => in_rng lo' hi' (wr_target e)) l.
Proof. intros. eapply Forall_impl; [|eassumption]. unfold in_rng. intros; lia. Qed.

Lemma NoDup_app_rng : forall a b c (l1 l2 : list addr),
  NoDup l1 -> NoDup l2 -> Forall (in_rng a b) l1 -> Forall (in_rng b c) l2 -> NoDup (l1 ++ l2).
Proof.
  intros a b c l1. induction l1 as [|x t IH]; intros l2 N1 N2 F1 F2; [exact N2|].
  inversion N1; subst. inversion F1; subst. cbn. constructor.
  - intro H. apply in_app_or in H. destruct H as [H|H]; [contradiction|].
    rewrite Forall_forall in F2. specialize (F2 _ H). unfold in_rng in *. lia.
  - apply IH; assumption.
Qed.

Lemma freed_rng : forall lo hi new x,
  Forall (fun e => in_rng lo hi (wr_target e)) new -> In x (freed new) -> in_rng lo hi x.
Proof.
  intros lo hi new x F H. destruct (freed_in_target _ _ H) as [e [He Ht]].
  rewrite Forall_forall in F. specialize (F _ He). rewrite Ht in F. exact F.
Qed.

Lemma gfacts_nil : forall s, gfacts s s [] [].
Proof.
  intro s. unfold gfacts. repeat split; try constructor; try lia. rewrite app_nil_r. reflexivity.
Qed.

Lemma gfacts_trans : forall s s1 s2 n1 n2 r1 r2,
  gfacts s s1 n1 r1 -> gfacts s1 s2 n2 r2 -> gfacts s s2 (n1 ++ n2) (r1 ++ r2).
Proof.
  intros s s1 s2 n1 n2 r1 r2 (L1 & E1 & T1 & R1 & N1 & F1) (L2 & E2 & T2 & R2 & N2 & F2).
  unfold gfacts. repeat split.
  - lia.
  - rewrite E2, E1, app_assoc. reflexivity.
  - apply Forall_app. split; [eapply Forall_tgt_widen; [| |exact T1]; lia | eapply Forall_tgt_widen; [| |exact T2]; lia].
  - apply Forall_app. split; [eapply Forall_rng_widen; [| |exact R1]; lia | eapply Forall_rng_widen; [| |exact R2]; lia].
  - eapply NoDup_app_rng; eassumption.
  - apply Forall_app. split; rewrite Forall_forall; intros x Hx; rewrite freed_app; intro H; apply in_app_or in H.
    + destruct H as [H|H].
      * rewrite Forall_forall in F1. exact (F1 _ Hx H).
      * pose proof (freed_rng _ _ _ _ T2 H) as Q. rewrite Forall_forall in R1. specialize (R1 _ Hx).
        unfold in_rng in *. lia.
    + destruct H as [H|H].
      * pose proof (freed_rng _ _ _ _ T1 H) as Q. rewrite Forall_forall in R2. specialize (R2 _ Hx).
        unfold in_rng in *. lia.
      * rewrite Forall_forall in F2. exact (F2 _ Hx H).
Qed.

(* the result may own fewer addresses, in another order *)
Lemma gfacts_sub : forall s s' new r r',
  gfacts s s' new r -> NoDup r' -> incl r' r -> gfacts s s' new r'.
Proof.
  intros s s' new r r' (L & E & T & R & N & F) N' I. unfold gfacts. repeat split; try assumption.
  - rewrite Forall_forall in *. intros x Hx. apply R. apply I. exact Hx.
  - rewrite Forall_forall in *. intros x Hx. apply F. apply I. exact Hx.
Qed.
Lemma gfacts_perm : forall s s' new r r',
  gfacts s s' new r -> Permutation r r' -> gfacts s s' new r'.
Proof.
  intros s s' new r r' G P. eapply gfacts_sub; [exact G| |].
  - destruct G as (_ & _ & _ & _ & N & _). eapply Permutation_NoDup; eassumption.
  - intros x Hx. eapply Permutation_in; [apply Permutation_sym; exact P|exact Hx].
Qed.

Definition gen {A} (m : M A) (own : A -> list addr) : Prop :=
  forall s a s', m s = Ok (a, s') -> exists new, gfacts s s' new (own a).

(* events of a pure copy: allocations and copies only *)
Definition pure_ev (e : event) : Prop := match e with EAlloc _ => True | ECopy _ _ _ => True | _ => False end.
Definition pure {A} (m : M A) : Prop :=
  forall s a s', m s = Ok (a, s') -> exists new, evs s' = evs s ++ new /\ Forall pure_ev new.

Lemma gen_ret : forall {A} (a : A) own, own a = [] -> gen (ret a) own.
Proof.
  intros A a own H s b s' R. apply ret_ok in R. destruct R; subst. exists []. rewrite H. apply gfacts_nil.
Qed.

Lemma alloc_facts : forall s a s', alloc s = Ok (a, s') -> gfacts s s' [EAlloc a] (nz a) /\ a = nxt s.
Proof.
  intros s a s' H. unfold alloc in H. inversion H; subst. clear H. split; [|reflexivity].
  unfold gfacts. cbn [nxt evs]. repeat split; try lia; try reflexivity.
  - constructor; [|constructor]. cbn. unfold in_rng. lia.
  - rewrite Forall_forall. intros x Hx. apply in_nz in Hx. destruct Hx; subst. unfold in_rng. lia.
  - apply NoDup_nz.
  - rewrite Forall_forall. intros x _ [].
Qed.
Lemma emit_facts : forall e s u s', emit e s = Ok (u, s') -> nxt s' = nxt s /\ evs s' = evs s ++ [e].
Proof. intros e s u s' H. unfold emit in H. inversion H; subst. cbn. auto. Qed.

Lemma alloc_copy_facts : forall src v s a s',
  alloc_copy src v s = Ok (a, s') -> gfacts s s' [EAlloc a; ECopy a src v] (nz a) /\ a = nxt s.
Proof.
  intros src v s a s' H. unfold alloc_copy in H. mrun H.
  apply alloc_facts in R. destruct R as [G Ea]. apply emit_facts in R0. destruct R0 as [En Ee].
  split; [|exact Ea].
  destruct G as (L & E & T & R & N & F). unfold gfacts. rewrite En. repeat split; try assumption.
  - rewrite Ee, E, <- app_assoc. reflexivity.
  - inversion T; subst. constructor; [assumption|]. constructor; [|constructor]. cbn [wr_target]. assumption.
Qed.

Lemma gen_mapM : forall {A B} (f : A -> M B) (own : B -> list addr) l,
  Forall (fun x => gen (f x) own) l -> gen (mapM f l) (flat_map own).
Proof.
  intros A B f own l. induction l as [|x r IH]; intro H.
  - apply gen_ret. reflexivity.
  - inversion H; subst. intros s a s' R. cbn [mapM] in R. mrun R.
    destruct (H2 _ _ _ R0) as [n1 G1]. destruct (IH H3 _ _ _ R1) as [n2 G2].
    exists (n1 ++ n2). cbn [flat_map]. eapply gfacts_trans; eassumption.
Qed.

Lemma pure_mapM : forall {A B} (f : A -> M B) l, Forall (fun x => pure (f x)) l -> pure (mapM f l).
Proof.
  intros A B f l. induction l as [|x r IH]; intro H; intros s a s' R.
  - apply ret_ok in R. destruct R; subst. exists []. rewrite app_nil_r. auto.
  - inversion H; subst. cbn [mapM] in R. mrun R.
    destruct (H2 _ _ _ R0) as [n1 [E1 P1]]. destruct (IH H3 _ _ _ R1) as [n2 [E2 P2]].
    exists (n1 ++ n2). split; [rewrite E2, E1, app_assoc; reflexivity|apply Forall_app; auto].
Qed.

(* ------------------------------------------------------------------------------------------------ *)
(* The generic deep copy                                                                              *)

Lemma tcopy_kids_facts : forall kids,
  Forall (fun t => gen (tcopy t) addrs_nr) kids ->
  forall a v s x s1 kids' s2,
    alloc_copy a v s = Ok (x, s1) -> mapM tcopy kids s1 = Ok (kids', s2) ->
    exists new, gfacts s s2 new (nz x ++ flat_map addrs_nr kids').
Proof.
  intros kids IH a v s x s1 kids' s2 R1 R2.
  apply alloc_copy_facts in R1. destruct R1 as [G1 _].
  destruct (gen_mapM _ _ _ IH _ _ _ R2) as [n2 G2].
  eexists. eapply gfacts_trans; eassumption.
Qed.

Theorem tcopy_gen : forall t, gen (tcopy t) addrs_nr.
Proof.
  induction t as [a k cap m kids IH|m kids IH|a|t IH] using otree_ind'; intros s t' s' R; cbn [tcopy] in R.
  - destruct k as [n|n| | | |n].
    + destruct n as [|n].
      * mrun R. destruct (gen_mapM _ _ _ IH _ _ _ R0) as [n2 G2]. exists n2. cbn [addrs_nr nz]. exact G2.
      * destruct (a =? 0); [discriminate|]. mrun R. cbn [addrs_nr]. eapply tcopy_kids_facts; eassumption.
    + mrun R. cbn [addrs_nr]. eapply tcopy_kids_facts; eassumption.
    + destruct (a =? 0); [discriminate|]. mrun R. cbn [addrs_nr]. eapply tcopy_kids_facts; eassumption.
    + destruct (a =? 0).
      * mrun R. destruct (gen_mapM _ _ _ IH _ _ _ R0) as [n2 G2]. exists n2. cbn [addrs_nr nz]. exact G2.
      * mrun R. cbn [addrs_nr]. eapply tcopy_kids_facts; eassumption.
    + mrun R. cbn [addrs_nr]. eapply tcopy_kids_facts; eassumption.
    + mrun R. apply alloc_facts in R0. destruct R0 as [G1 _].
      destruct (gen_mapM _ _ _ IH _ _ _ R1) as [n2 G2].
      eexists. cbn [addrs_nr]. eapply gfacts_trans; eassumption.
  - mrun R. destruct (gen_mapM _ _ _ IH _ _ _ R0) as [n2 G2]. exists n2. cbn [addrs_nr]. exact G2.
  - apply ret_ok in R. destruct R; subst. exists []. apply gfacts_nil.
  - apply ret_ok in R. destruct R; subst. exists []. apply gfacts_nil.
Qed.

(* a pure copy emits allocations and copies only *)
Lemma pure_ret : forall {A} (a : A), pure (ret a).
Proof. intros A a s b s' R. apply ret_ok in R. destruct R; subst. exists []. rewrite app_nil_r. auto. Qed.
Lemma pure_alloc : pure alloc.
Proof.
  intros s a s' R. unfold alloc in R. inversion R; subst. cbn. eexists. split; [reflexivity|].
  constructor; [exact I|constructor].
Qed.
Lemma pure_alloc_copy : forall a v, pure (alloc_copy a v).
Proof.
  intros a v s x s' R. apply alloc_copy_facts in R. destruct R as [(_ & E & _) _].
  eexists. split; [exact E|]. repeat constructor.
Qed.
Lemma pure_bind : forall {A B} (m : M A) (f : A -> M B), pure m -> (forall a, pure (f a)) -> pure (bind m f).
Proof.
  intros A B m f Pm Pf s b s' R. mrun R.
  destruct (Pm _ _ _ R0) as [n1 [E1 P1]]. destruct (Pf _ _ _ _ R) as [n2 [E2 P2]].
  exists (n1 ++ n2). split; [rewrite E2, E1, app_assoc; reflexivity|apply Forall_app; auto].
Qed.
Lemma pure_crash : forall {A}, pure (@crash A).
Proof. intros A s a s' R. discriminate. Qed.

Ltac pure_tac :=
  repeat first [ apply pure_ret | apply pure_alloc | apply pure_alloc_copy | apply pure_crash
               | apply pure_bind; [|intro] | progress cbn beta ].

Theorem tcopy_pure : forall t, pure (tcopy t).
Proof.
  induction t as [a k cap m kids IH|m kids IH|a|t IH] using otree_ind'; cbn [tcopy].
  - pose proof (pure_mapM tcopy kids IH) as PK.
    destruct k as [n|n| | | |n]; try destruct n; try destruct (a =? 0);
      repeat first [ apply pure_crash | exact PK | apply pure_ret | apply pure_alloc | apply pure_alloc_copy
                   | apply pure_bind; [|intro] ].
  - apply pure_bind; [apply pure_mapM; exact IH|intro; apply pure_ret].
  - apply pure_ret.
  - apply pure_ret.
Qed.

(* addresses below a Raw pointer are owned too; the others are what a deep copy renews *)
Lemma addrs_split : forall t x, In x (addrs t) <-> In x (addrs_nr t) \/ In x (raws t).
Proof.
  induction t as [a k cap m kids IH|m kids IH|a|t IH] using otree_ind'; intro x; cbn [addrs addrs_nr raws].
  - rewrite !in_app_iff, !in_flat_map. rewrite Forall_forall in IH. split.
    + intros [H|[y [Hy Hx]]]; [auto|]. apply IH in Hx; [|exact Hy]. destruct Hx; [left; right|right]; exists y; auto.
    + intros [[H|[y [Hy Hx]]]|[y [Hy Hx]]]; [auto| |]; right; exists y; split; auto; apply IH; auto.
  - rewrite !in_flat_map. rewrite Forall_forall in IH. split.
    + intros [y [Hy Hx]]. apply IH in Hx; [|exact Hy]. destruct Hx; [left|right]; exists y; auto.
    + intros [[y [Hy Hx]]|[y [Hy Hx]]]; exists y; split; auto; apply IH; auto.
  - cbn [In]. tauto.
  - cbn [In]. tauto.
Qed.
Lemma addrs_no_raw : forall t, no_raw t = true -> addrs t = addrs_nr t.
Proof.
  induction t as [a k cap m kids IH|m kids IH|a|t IH] using otree_ind'; intro H; cbn [addrs addrs_nr no_raw] in *.
  - f_equal. rewrite forallb_forall in H. rewrite Forall_forall in IH.
    induction kids as [|y r IHr]; [reflexivity|]. cbn [flat_map]. f_equal.
    + apply IH; [left; reflexivity|apply H; left; reflexivity].
    + apply IHr; intros; [apply IH|apply H]; try right; assumption.
  - rewrite forallb_forall in H. rewrite Forall_forall in IH.
    induction kids as [|y r IHr]; [reflexivity|]. cbn [flat_map]. f_equal.
    + apply IH; [left; reflexivity|apply H; left; reflexivity].
    + apply IHr; intros; [apply IH|apply H]; try right; assumption.
  - reflexivity.
  - discriminate.
Qed.

Lemma mapM_Forall2 : forall {A B} (f : A -> M B) (P : A -> B -> Prop) l,
  Forall (fun x => forall s y s', f x s = Ok (y, s') -> P x y) l ->
  forall s l' s', mapM f l s = Ok (l', s') -> Forall2 P l l'.
Proof.
  intros A B f P l. induction l as [|x r IH]; intros H s l' s' R.
  - apply ret_ok in R. destruct R; subst. constructor.
  - inversion H; subst. cbn [mapM] in R. mrun R. constructor; [eapply H2; eassumption|eapply IH; eassumption].
Qed.

Lemma flat_map_Forall2 : forall {A B} (f : A -> list B) (g : A -> list B) l l',
  Forall2 (fun x y => g y = f x) l l' -> flat_map g l' = flat_map f l.
Proof. induction 1; cbn; congruence. Qed.
Lemma forallb_Forall2 : forall {A} (f : A -> bool) l l',
  Forall2 (fun x y => f y = f x) l l' -> forallb f l' = forallb f l.
Proof. induction 1; cbn; congruence. Qed.

(* what a deep copy does NOT renew: exactly the buffers below Raw pointers *)
Theorem tcopy_raws : forall t s t' s', tcopy t s = Ok (t', s') -> raws t' = raws t /\ no_raw t' = no_raw t.
Proof.
  induction t as [a k cap m kids IH|m kids IH|a|t IH] using otree_ind'; intros s t' s' R; cbn [tcopy] in R.
  - assert (K : forall s1 kids' s2, mapM tcopy kids s1 = Ok (kids', s2) ->
                flat_map raws kids' = flat_map raws kids /\ forallb no_raw kids' = forallb no_raw kids).
    { intros s1 kids' s2 RK. split.
      - apply flat_map_Forall2. eapply mapM_Forall2; [|exact RK].
        eapply Forall_impl; [|exact IH]. intros z Hz q1 y q2 Q. apply (Hz _ _ _ Q).
      - apply forallb_Forall2. eapply mapM_Forall2; [|exact RK].
        eapply Forall_impl; [|exact IH]. intros z Hz q1 y q2 Q. apply (Hz _ _ _ Q). }
    destruct k as [n|n| | | |n]; try destruct n; try destruct (a =? 0); try discriminate; mrun R;
      cbn [raws no_raw]; eapply K; eassumption.
  - mrun R. cbn [raws no_raw]. split.
    + apply flat_map_Forall2. eapply mapM_Forall2; [|exact R0].
      eapply Forall_impl; [|exact IH]. intros z Hz q1 y q2 Q. apply (Hz _ _ _ Q).
    + apply forallb_Forall2. eapply mapM_Forall2; [|exact R0].
      eapply Forall_impl; [|exact IH]. intros z Hz q1 y q2 Q. apply (Hz _ _ _ Q).
  - apply ret_ok in R. destruct R; subst. auto.
  - apply ret_ok in R. destruct R; subst. auto.
Qed.

Lemma tcopy_bound : forall t s t' s',
  tcopy t s = Ok (t', s') -> Forall (fun x => x < nxt s) (addrs t) -> Forall (fun x => x < nxt s') (addrs t').
Proof.
  intros t s t' s' R H. destruct (tcopy_gen t _ _ _ R) as [new (L & _ & _ & Rg & _)].
  destruct (tcopy_raws _ _ _ _ R) as [Er _].
  rewrite Forall_forall in *. intros x Hx. apply addrs_split in Hx. destruct Hx as [Hx|Hx].
  - specialize (Rg _ Hx). unfold in_rng in Rg. lia.
  - rewrite Er in Hx. assert (In x (addrs t)) by (apply addrs_split; right; exact Hx).
    specialize (H _ H0). lia.
Qed.

Lemma mapM_bound : forall kids s kids' s',
  mapM tcopy kids s = Ok (kids', s') -> Forall (fun x => x < nxt s) (flat_map addrs kids) ->
  nxt s <= nxt s' /\ Forall (fun x => x < nxt s') (flat_map addrs kids').
Proof.
  induction kids as [|y r IH]; intros s kids' s' R H.
  - apply ret_ok in R. destruct R; subst. split; [lia|constructor].
  - cbn [mapM] in R. mrun R. cbn [flat_map] in *. apply Forall_app in H. destruct H as [H1 H2].
    pose proof (tcopy_bound _ _ _ _ R0 H1) as B1.
    destruct (tcopy_gen y _ _ _ R0) as [n1 (L1 & _)].
    assert (H2' : Forall (fun x => x < nxt s0) (flat_map addrs r)).
    { eapply Forall_impl; [|exact H2]. cbn. intros; lia. }
    destruct (IH _ _ _ R1 H2') as [L2 B2]. split; [lia|].
    apply Forall_app. split; [|exact B2]. eapply Forall_impl; [|exact B1]. cbn. intros; lia.
Qed.

(* SHAPE + contents: in the heap after the copy the copy denotes what the source denoted before (and still
   denotes, see tcopy_source_unchanged) *)
Definition erase_spec (t : otree) : Prop :=
  forall s t' s', tcopy t s = Ok (t', s') -> 0 < nxt s -> Forall (fun x => x < nxt s) (addrs t) ->
  forall new, evs s' = evs s ++ new -> forall w h, erase (replay w new h) t' = erase h t.

Lemma events_fresh_frame : forall lo hi (new : list event) t,
  Forall (fun e => in_rng lo hi (wr_target e)) new ->
  (Forall (fun x => x < lo) (addrs t) \/ Forall (fun x => hi <= x) (addrs t)) ->
  forall e, In e new -> ~ In (wr_target e) (addrs t).
Proof.
  intros lo hi new t F H e He Hin. rewrite Forall_forall in F. specialize (F _ He). unfold in_rng in F.
  destruct H as [H|H]; rewrite Forall_forall in H; specialize (H _ Hin); lia.
Qed.

Lemma tcopy_gen_all : forall l, Forall (fun t => gen (tcopy t) addrs_nr) l.
Proof. intro l. rewrite Forall_forall. intros t _. apply tcopy_gen. Qed.

Lemma erase_kids : forall kids, Forall erase_spec kids ->
  forall s kids' s', mapM tcopy kids s = Ok (kids', s') -> 0 < nxt s ->
  Forall (fun x => x < nxt s) (flat_map addrs kids) ->
  forall new, evs s' = evs s ++ new -> forall w h, map (erase (replay w new h)) kids' = map (erase h) kids.
Proof.
  induction kids as [|y r IH]; intros HS s kids' s' R Hpos Hb new E w h.
  - apply ret_ok in R. destruct R; subst. reflexivity.
  - inversion HS; subst. cbn [mapM] in R. mrun R. cbn [flat_map] in Hb. apply Forall_app in Hb. destruct Hb as [Hb1 Hb2].
    destruct (tcopy_gen y _ _ _ R0) as [n1 (L1 & E1 & T1 & _)].
    assert (Hb2' : Forall (fun x => x < nxt s0) (flat_map addrs r)).
    { eapply Forall_impl; [|exact Hb2]. cbn. intros; lia. }
    destruct (gen_mapM tcopy addrs_nr r (tcopy_gen_all r) _ _ _ R1) as [n2 (L2 & E2 & T2 & _)].
    assert (new = n1 ++ n2).
    { rewrite E2, E1, <- app_assoc in E. apply app_inv_head in E. auto. }
    subst new. cbn [map]. rewrite replay_app. f_equal.
    + (* the later events do not touch the first copy *)
      rewrite erase_replay_frame.
      * apply (H1 _ _ _ R0 Hpos Hb1 n1 E1).
      * apply (events_fresh_frame (nxt s0) (nxt s') n2); [exact T2|]. left. apply (tcopy_bound _ _ _ _ R0 Hb1).
    + rewrite (IH H2 _ _ _ R1 ltac:(lia) Hb2' n2 E2 w (replay w n1 h)).
      apply map_ext_Forall. rewrite Forall_forall. intros z Hz. apply erase_replay_frame.
      apply (events_fresh_frame (nxt s) (nxt s0) n1); [exact T1|]. left.
      rewrite Forall_forall in *. intros q Hq. apply Hb2. apply in_flat_map. exists z. auto.
Qed.

Lemma erase_buf_copy : forall a k cap cap' m kids, Forall erase_spec kids ->
  forall s x s1 kids' s2,
    alloc_copy a (view_of k) s = Ok (x, s1) -> mapM tcopy kids s1 = Ok (kids', s2) -> 0 < nxt s ->
    Forall (fun y => y < nxt s) (addrs (Buf a k cap m kids)) ->
    forall new, evs s2 = evs s ++ new ->
    forall w h, erase (replay w new h) (Buf x k cap' m kids') = erase h (Buf a k cap m kids).
Proof.
  intros a k cap cap' m kids HS s x s1 kids' s2 R1 R2 Hpos Hb new E w h.
  apply alloc_copy_facts in R1. destruct R1 as [(L1 & E1 & T1 & _) Ex].
  destruct (gen_mapM tcopy addrs_nr kids (tcopy_gen_all kids) _ _ _ R2) as [n2 (L2 & E2 & T2 & _)].
  assert (new = [EAlloc x; ECopy x a (view_of k)] ++ n2).
  { rewrite E2, E1, <- app_assoc in E. apply app_inv_head in E. auto. }
  subst new. cbn [addrs] in Hb. apply Forall_app in Hb. destruct Hb as [Hba Hbk].
  assert (Hbk' : Forall (fun y => y < nxt s1) (flat_map addrs kids)).
  { eapply Forall_impl; [|exact Hbk]. cbn. intros; lia. }
  assert (Hx : x <> 0) by lia.
  assert (Hx1 : x < nxt s1).
  { inversion T1 as [|e0 l0 Q0 Q1]; subst. cbn [wr_target] in Q0. unfold in_rng in Q0. lia. }
  assert (Hax : a <> x).
  { destruct (N.eq_dec a 0) as [->|Ha]; [lia|]. rewrite nz_nonzero in Hba by exact Ha. inversion Hba; subst. lia. }
  rewrite replay_app. cbn [erase]. f_equal.
  - rewrite replay_other.
    + cbn [replay fold_left apply_event]. rewrite load_store_same by exact Hx.
      rewrite load_store_other by exact Hax. apply look_idem.
    + eapply Forall_impl; [|exact T2]. cbn. unfold in_rng. intros e He. lia.
  - rewrite (erase_kids kids HS _ _ _ R2 ltac:(lia) Hbk' n2 E2 w).
    apply map_ext_Forall. rewrite Forall_forall. intros z Hz. apply erase_replay_frame.
    intros e He. cbn [In] in He. rewrite Forall_forall in Hbk.
    assert (forall q, In q (addrs z) -> q < nxt s).
    { intros q Hq. apply Hbk. apply in_flat_map. exists z. auto. }
    intro Hin. specialize (H _ Hin). destruct He as [<-|[<-|[]]]; cbn [wr_target] in H; lia.
Qed.

Theorem tcopy_erase : forall t, erase_spec t.
Proof.
  induction t as [a k cap m kids IH|m kids IH|a|t IH] using otree_ind'; intros s t' s' R Hpos Hb new E w h;
    cbn [tcopy] in R.
  - destruct k as [n|n| | | |n].
    + destruct n as [|n].
      * mrun R. cbn [addrs] in Hb. apply Forall_app in Hb. destruct Hb as [_ Hbk].
        cbn [erase view_of look firstn load]. rewrite (erase_kids kids IH _ _ _ R0 Hpos Hbk new E w h).
        destruct (0 =? 0); reflexivity.
      * destruct (a =? 0); [discriminate|]. mrun R.
        exact (erase_buf_copy a (KData (S n)) cap _ m kids IH _ _ _ _ _ R0 R1 Hpos Hb new E w h).
    + mrun R. exact (erase_buf_copy a (KBytes n) cap _ m kids IH _ _ _ _ _ R0 R1 Hpos Hb new E w h).
    + destruct (a =? 0); [discriminate|]. mrun R.
      exact (erase_buf_copy a KStr cap _ m kids IH _ _ _ _ _ R0 R1 Hpos Hb new E w h).
    + destruct (a =? 0) eqn:Ea.
      * mrun R. apply N.eqb_eq in Ea. subst a. cbn [addrs] in Hb. apply Forall_app in Hb. destruct Hb as [_ Hbk].
        cbn [erase]. rewrite (erase_kids kids IH _ _ _ R0 Hpos Hbk new E w h). reflexivity.
      * mrun R. exact (erase_buf_copy a KStrOpt cap _ m kids IH _ _ _ _ _ R0 R1 Hpos Hb new E w h).
    + mrun R. exact (erase_buf_copy a KNode cap _ m kids IH _ _ _ _ _ R0 R1 Hpos Hb new E w h).
    + (* KPtrs: the items buffer holds pointers only *)
      mrun R. apply alloc_facts in R0. destruct R0 as [(L1 & E1 & T1 & _) Ex].
      destruct (gen_mapM tcopy addrs_nr kids (tcopy_gen_all kids) _ _ _ R1) as [n2 (L2 & E2 & T2 & _)].
      assert (new = [EAlloc x] ++ n2).
      { rewrite E2, E1, <- app_assoc in E. apply app_inv_head in E. auto. }
      subst new. cbn [addrs] in Hb. apply Forall_app in Hb. destruct Hb as [_ Hbk].
      assert (Hbk' : Forall (fun y => y < nxt s0) (flat_map addrs kids)).
      { eapply Forall_impl; [|exact Hbk]. cbn. intros; lia. }
      rewrite replay_app. cbn [erase view_of look]. f_equal.
      rewrite (erase_kids kids IH _ _ _ R1 ltac:(lia) Hbk' n2 E2 w).
      apply map_ext_Forall. rewrite Forall_forall. intros z Hz. apply erase_replay_frame.
      intros e He. cbn [In] in He. rewrite Forall_forall in Hbk.
      intro Hin. assert (wr_target e < nxt s) by (apply Hbk; apply in_flat_map; exists z; auto).
      destruct He as [<-|[]]. cbn [wr_target] in H. lia.
  - mrun R. cbn [addrs] in Hb. cbn [erase]. rewrite (erase_kids kids IH _ _ _ R0 Hpos Hb new E w h). reflexivity.
  - apply ret_ok in R. destruct R; subst. rewrite <- (app_nil_r (evs s')) in E at 1. apply app_inv_head in E. subst.
    reflexivity.
  - apply ret_ok in R. destruct R; subst. rewrite <- (app_nil_r (evs s')) in E at 1. apply app_inv_head in E. subst.
    reflexivity.
Qed.

(* the source of a pure copy is untouched *)
Theorem tcopy_source_unchanged : forall t s t' s' u,
  tcopy t s = Ok (t', s') -> Forall (fun x => x < nxt s) (addrs u) ->
  forall new, evs s' = evs s ++ new -> forall w h, erase (replay w new h) u = erase h u.
Proof.
  intros t s t' s' u R Hb new E w h. destruct (tcopy_gen t _ _ _ R) as [n (_ & E' & T & _)].
  assert (new = n) by (rewrite E' in E; apply app_inv_head in E; auto). subst n.
  apply erase_replay_frame. apply (events_fresh_frame (nxt s) (nxt s') new); [exact T|left; exact Hb].
Qed.

(* ------------------------------------------------------------------------------------------------ *)
(* The transcribed copy functions ARE the generic deep copy of their trees                            *)

Lemma bind_intro : forall {A B} (m : M A) (f : A -> M B) s a s1 r,
  m s = Ok (a, s1) -> f a s1 = r -> bind m f s = r.
Proof. intros A B m f s a s1 r H1 H2. unfold bind. rewrite H1. exact H2. Qed.

Ltac mgoal :=
  unfold bind, ret in *;
  repeat (match goal with H : ?m ?s = Ok _ |- context [?m ?s] => rewrite H; cbn iota beta end);
  try reflexivity.

Definition commutes {A} (f : A -> M A) (tr : A -> otree) : Prop :=
  forall x s y s', f x s = Ok (y, s') -> tcopy (tr x) s = Ok (tr y, s').

Lemma mapM_commute : forall {A} (f : A -> M A) (tr : A -> otree), commutes f tr ->
  forall l s l' s', mapM f l s = Ok (l', s') -> mapM tcopy (map tr l) s = Ok (map tr l', s').
Proof.
  intros A f tr C. induction l as [|x r IH]; intros s l' s' R.
  - apply ret_ok in R. destruct R; subst. reflexivity.
  - cbn [mapM] in R. mrun R. cbn [map mapM]. apply C in R0. apply IH in R1. mgoal.
Qed.

Definition inert (t : otree) : Prop := forall s, tcopy t s = Ok (t, s).
Lemma mapM_inert : forall l, Forall inert l -> forall s, mapM tcopy l s = Ok (l, s).
Proof.
  induction 1 as [|x r Hx Hr IH]; intro s; [reflexivity|]. cbn [mapM]. eapply bind_intro; [apply Hx|].
  eapply bind_intro; [apply IH|]. reflexivity.
Qed.
Lemma inert_ext : forall a, inert (Ext a).
Proof. intros a s. reflexivity. Qed.
Lemma inert_exts : forall l, Forall inert (map Ext l).
Proof. intro l. rewrite Forall_forall. intros t Ht. apply in_map_iff in Ht. destruct Ht as [a [<- _]]. apply inert_ext. Qed.
Lemma inert_grp : forall m kids, Forall inert kids -> inert (Grp m kids).
Proof. intros m kids H s. cbn [tcopy]. eapply bind_intro; [apply mapM_inert; exact H|]. reflexivity. Qed.
Lemma inert_raw : forall t, inert (Raw t).
Proof. intros t s. reflexivity. Qed.
Lemma inert_sp : forall sp, inert (sp_tree sp).
Proof.
  intros [ty|c|ext]; cbn [sp_tree]; apply inert_grp.
  - constructor.
  - constructor; [apply inert_raw|constructor].
  - apply inert_exts.
Qed.
Lemma inert_sps : forall l, Forall inert (map sp_tree l).
Proof. intro l. rewrite Forall_forall. intros t Ht. apply in_map_iff in Ht. destruct Ht as [a [<- _]]. apply inert_sp. Qed.

Lemma mapM_length_eq : forall {A B} (f : A -> M B) l s l' s', mapM f l s = Ok (l', s') -> length l' = length l.
Proof.
  intros A B f. induction l as [|x r IH]; intros s l' s' R.
  - apply ret_ok in R. destruct R; subst. reflexivity.
  - cbn [mapM] in R. mrun R. cbn [length]. f_equal. eapply IH. eassumption.
Qed.

Lemma array_commute : forall kids, Forall inert kids ->
  forall a s a' s', array_copy_from a s = Ok (a', s') -> tcopy (arr_tree kids a) s = Ok (arr_tree kids a', s').
Proof.
  intros kids HI a s a' s' R. unfold array_copy_from in R. unfold arr_tree. cbn [tcopy].
  destruct (N.to_nat (a_cnt a)) as [|n] eqn:En.
  - apply ret_ok in R. destruct R; subst. cbn [a_items a_cnt a_cap].
    assert (a_cnt a = 0) by lia. rewrite H. cbn [N.to_nat].
    eapply bind_intro; [apply mapM_inert; exact HI|]. reflexivity.
  - destruct (a_items a =? 0); [discriminate|]. mrun R. cbn [a_items a_cnt a_cap]. rewrite En.
    eapply bind_intro; [eassumption|]. eapply bind_intro; [apply mapM_inert; exact HI|].
    rewrite <- En, N2Nat.id. reflexivity.
Qed.

Lemma string_commute : commutes copy_string str_tree.
Proof.
  intros a s a' s' R. unfold copy_string in R. unfold str_tree. cbn [tcopy]. destruct (a =? 0); [discriminate|].
  mgoal.
Qed.

Lemma repetition_commute : commutes repetition_copy_from rep_tree.
Proof.
  intros r s r' s' R. destruct r; cbn [repetition_copy_from] in R;
    try (apply ret_ok in R; destruct R; subst; reflexivity);
    mrun R; apply (array_commute [] (Forall_nil _)) in R0; cbn [rep_tree tcopy mapM]; mgoal.
Qed.

Lemma pvalue_commute : commutes pvalue_copy pvalue_tree.
Proof.
  intros v s v' s' R. destruct v as [n ty|n c b]; cbn [pvalue_copy] in R; mrun R; cbn [pvalue_tree tcopy mapM]; mgoal.
Qed.

Lemma property_commute : commutes property_copy property_tree.
Proof.
  intros p s p' s' R. unfold property_copy in R. mrun R. unfold property_tree. cbn [tcopy p_node p_name p_values].
  apply string_commute in R1. apply (mapM_commute _ _ pvalue_commute) in R2.
  cbn [mapM]. mgoal.
Qed.

Lemma props_commute : commutes properties_copy props_tree.
Proof.
  intros l s l' s' R. unfold properties_copy in R. apply (mapM_commute _ _ property_commute) in R.
  unfold props_tree. cbn [tcopy]. mgoal.
Qed.

Lemma tcopy_node : forall a cap m kids,
  tcopy (Buf a KNode cap m kids) = (a' <- alloc_copy a VAll ;; kids' <- mapM tcopy kids ;; ret (Buf a' KNode cap m kids')).
Proof. reflexivity. Qed.
Lemma tcopy_ptrs : forall a n cap m kids,
  tcopy (Buf a (KPtrs n) cap m kids) = (a' <- alloc ;; kids' <- mapM tcopy kids ;; ret (Buf a' (KPtrs n) cap m kids')).
Proof. reflexivity. Qed.
Lemma tcopy_grp : forall m kids, tcopy (Grp m kids) = (kids' <- mapM tcopy kids ;; ret (Grp m kids')).
Proof. reflexivity. Qed.
Lemma mapM_cons : forall {A B} (f : A -> M B) x r, mapM f (x :: r) = (y <- f x ;; r' <- mapM f r ;; ret (y :: r')).
Proof. reflexivity. Qed.
Lemma mapM_nil : forall {A B} (f : A -> M B), mapM f [] = ret [].
Proof. reflexivity. Qed.

Lemma alloc_copy_intro : forall s x s0 src v u s1,
  alloc s = Ok (x, s0) -> emit (ECopy x src v) s0 = Ok (u, s1) -> alloc_copy src v s = Ok (x, s1).
Proof. intros s x s0 src v u s1 H1 H2. unfold alloc_copy, bind, ret. rewrite H1, H2. reflexivity. Qed.

Ltac self_copy :=
  match goal with
  | H1 : alloc ?s = Ok (?x, ?s0), H2 : emit (ECopy ?x ?src ?v) ?s0 = Ok (_, ?s1) |- _ =>
      pose proof (alloc_copy_intro _ _ _ _ _ _ _ H1 H2); clear H1 H2
  end.

Ltac commute_hyps :=
  repeat match goal with
         | H : array_copy_from _ _ = Ok _ |- _ => apply (array_commute [] (Forall_nil _)) in H
         | H : repetition_copy_from _ _ = Ok _ |- _ => apply repetition_commute in H
         | H : properties_copy _ _ = Ok _ |- _ => apply props_commute in H
         | H : copy_string _ _ = Ok _ |- _ => apply string_commute in H
         end.

Theorem polygon_commute : commutes polygon_new_copy polygon_tree.
Proof.
  intros p s p' s' R. unfold polygon_new_copy, polygon_copy_from, polygon_copy_fields in R. mrun_all.
  commute_hyps.
  unfold polygon_tree. cbn [pg_self pg_tag pg_points pg_rep pg_props fst snd].
  rewrite tcopy_node, !mapM_cons, mapM_nil. self_copy. mgoal.
Qed.

Lemma fe_commute : commutes fe_copy fe_tree.
Proof.
  intros e s e' s' R. unfold fe_copy in R. mrun_all. commute_hyps.
  unfold fe_tree. cbn [fe_tag fe_hwo fe_ext]. rewrite tcopy_grp, mapM_cons.
  pose proof (mapM_inert _ (inert_exts (fe_ext e))) as HI. mgoal. rewrite HI. reflexivity.
Qed.

Lemma raith_commute : forall a s a' s', raith_name_copy a s = Ok (a', s') ->
  tcopy (Buf a KStrOpt None [] []) s = Ok (Buf a' KStrOpt None [] [], s').
Proof.
  intros a s a' s' R. unfold raith_name_copy in R. cbn [tcopy]. destruct (a =? 0).
  - apply ret_ok in R. destruct R; subst. reflexivity.
  - cbn [mapM]. mgoal.
Qed.

Theorem flexpath_commute : commutes flexpath_new_copy flexpath_tree.
Proof.
  intros p s p' s' R. unfold flexpath_new_copy, flexpath_copy_from in R. mrun_all.
  commute_hyps.
  match goal with H : raith_name_copy _ _ = Ok _ |- _ => apply raith_commute in H end.
  match goal with H : mapM fe_copy _ _ = Ok _ |- _ =>
    pose proof (mapM_length_eq _ _ _ _ _ H) as Hl; apply (mapM_commute _ _ fe_commute) in H end.
  unfold flexpath_tree. cbn [fp_self fp_spine fp_props fp_rep fp_raith_name fp_elems fp_els].
  rewrite tcopy_node, !mapM_cons, mapM_nil, tcopy_node. self_copy. rewrite Hl. mgoal.
Qed.

Lemma re_commute : commutes re_copy re_tree.
Proof.
  intros e s e' s' R. unfold re_copy in R. mrun_all.
  apply (array_commute _ (inert_exts (re_wext e))) in R0. apply (array_commute _ (inert_exts (re_oext e))) in R1.
  unfold re_tree. cbn [re_tag re_width re_wext re_offset re_oext re_ext]. rewrite tcopy_grp, !mapM_cons.
  pose proof (mapM_inert _ (inert_exts (re_ext e))) as HI. mgoal. rewrite HI. reflexivity.
Qed.

Theorem robustpath_commute : commutes robustpath_new_copy robustpath_tree.
Proof.
  intros p s p' s' R. unfold robustpath_new_copy, robustpath_copy_from in R. mrun_all.
  match goal with H : array_copy_from (rp_subs _) _ = Ok _ |- _ =>
    apply (array_commute _ (inert_sps (rp_subpaths p))) in H end.
  commute_hyps.
  match goal with H : mapM re_copy _ _ = Ok _ |- _ =>
    pose proof (mapM_length_eq _ _ _ _ _ H) as Hl; apply (mapM_commute _ _ re_commute) in H end.
  unfold robustpath_tree. cbn [rp_self rp_props rp_rep rp_subs rp_subpaths rp_elems rp_els].
  rewrite tcopy_node, !mapM_cons, mapM_nil, tcopy_node. self_copy. rewrite Hl. mgoal.
Qed.

Theorem label_commute : commutes label_new_copy label_tree.
Proof.
  intros p s p' s' R. unfold label_new_copy, label_copy_from in R. mrun_all. commute_hyps.
  unfold label_tree. cbn [lb_self lb_tag lb_text lb_rep lb_props].
  rewrite tcopy_node, !mapM_cons, mapM_nil. self_copy. mgoal.
Qed.

Lemma rtarget_commute : commutes rtarget_copy rt_tree.
Proof.
  intros t s t' s' R. destruct t as [c|c|n]; cbn [rtarget_copy] in R.
  - apply ret_ok in R. destruct R; subst. reflexivity.
  - apply ret_ok in R. destruct R; subst. reflexivity.
  - mrun_all. commute_hyps. cbn [rt_tree]. rewrite tcopy_grp, mapM_cons, mapM_nil. mgoal.
Qed.

Theorem reference_commute : commutes reference_new_copy reference_tree.
Proof.
  intros p s p' s' R. unfold reference_new_copy, reference_copy_from in R. mrun_all. commute_hyps.
  match goal with H : rtarget_copy _ _ = Ok _ |- _ => apply rtarget_commute in H end.
  unfold reference_tree. cbn [rf_self rf_target rf_rep rf_props].
  rewrite tcopy_node, !mapM_cons, mapM_nil. self_copy. mgoal.
Qed.

Lemma ptrs_commute : forall {E} (nc : E -> M E) (tr : E -> otree), commutes nc tr ->
  forall a l s r s', ptrs_deep_copy nc a l s = Ok (r, s') ->
    tcopy (ptrs_tree (map tr l) a) s = Ok (ptrs_tree (map tr (snd r)) (fst r), s').
Proof.
  intros E nc tr C a l s r s' R. unfold ptrs_deep_copy in R. mrun_all.
  match goal with H : mapM nc _ _ = Ok _ |- _ => apply (mapM_commute _ _ C) in H end.
  unfold ptrs_tree. cbn [fst snd a_items a_cnt a_cap]. rewrite tcopy_ptrs. mgoal.
Qed.

Definition with_name (c : cell) (n : addr) : cell :=
  mkCell (c_self c) n (c_props c) (c_polys c) (c_polygons c) (c_refs c) (c_references c) (c_flex c) (c_flexpaths c)
         (c_robust c) (c_robustpaths c) (c_labs c) (c_labels c) (c_owner c).

(* Cell::copy_from(cell, new_name, true) = deep copy of the cell with the name replaced *)
Theorem cell_deep_commute : forall c nm s c' s',
  cell_new_copy c nm true s = Ok (c', s') ->
  tcopy (cell_tree (with_name c (if nm =? 0 then c_name c else nm))) s = Ok (cell_tree c', s').
Proof.
  intros c nm s c' s' R. unfold cell_new_copy, cell_copy_from in R. mrun_all. commute_hyps.
  repeat match goal with
         | H : ptrs_deep_copy polygon_new_copy _ _ _ = Ok _ |- _ => apply (ptrs_commute _ _ polygon_commute) in H
         | H : ptrs_deep_copy reference_new_copy _ _ _ = Ok _ |- _ => apply (ptrs_commute _ _ reference_commute) in H
         | H : ptrs_deep_copy flexpath_new_copy _ _ _ = Ok _ |- _ => apply (ptrs_commute _ _ flexpath_commute) in H
         | H : ptrs_deep_copy robustpath_new_copy _ _ _ = Ok _ |- _ => apply (ptrs_commute _ _ robustpath_commute) in H
         | H : ptrs_deep_copy label_new_copy _ _ _ = Ok _ |- _ => apply (ptrs_commute _ _ label_commute) in H
         end.
  unfold cell_tree, with_name.
  cbn [c_self c_name c_props c_polys c_polygons c_refs c_references c_flex c_flexpaths c_robust c_robustpaths c_labs c_labels].
  rewrite tcopy_node, !mapM_cons, mapM_nil. self_copy. mgoal.
Qed.

Lemma with_name_same : forall c, with_name c (c_name c) = c.
Proof. destruct c; reflexivity. Qed.

Lemma cell_commute : commutes (fun c => cell_new_copy c 0 true) cell_tree.
Proof.
  intros c s c' s' R. apply cell_deep_commute in R. cbn [N.eqb] in R. rewrite with_name_same in R. exact R.
Qed.

Definition without_props (l : library) : library :=
  mkLib (l_self l) (l_name l) (l_cells l) (l_cellobjs l) (l_raw l) (l_rawcells l) [] (l_owner l).

(* Library::copy_from(library, true) = deep copy of the library WITHOUT its properties: they are not copied *)
Theorem library_deep_commute : forall l s l' s',
  library_new_copy l true s = Ok (l', s') -> tcopy (library_tree (without_props l)) s = Ok (library_tree l', s').
Proof.
  intros l s l' s' R. unfold library_new_copy, library_copy_from in R. mrun_all.
  match goal with H : array_copy_from (l_raw _) _ = Ok _ |- _ =>
    apply (array_commute _ (inert_exts (l_rawcells l))) in H end.
  commute_hyps.
  match goal with H : ptrs_deep_copy _ _ _ _ = Ok _ |- _ => apply (ptrs_commute _ _ cell_commute) in H end.
  unfold library_tree, without_props. cbn [l_self l_name l_cells l_cellobjs l_raw l_rawcells l_props props_tree map].
  rewrite tcopy_node, !mapM_cons, mapM_nil. self_copy. mgoal.
Qed.

(* ------------------------------------------------------------------------------------------------ *)
(* Deep copies: FRESHNESS, SHAPE, FRAME                                                               *)

Section DeepCopy.
  Context {A : Type} (f : A -> M A) (tr : A -> otree) (C : commutes f tr).

  (* (a) FRESHNESS: every buffer owned by the copy (other than what hangs below a Raw pointer of the source)
     was allocated by the call: its address is not below the allocator state before the call, so it is not
     owned by the source nor by any other object that existed; no buffer is owned twice inside the copy; the
     call only allocates and copies *)
  Theorem deep_copy_fresh : forall x s y s', f x s = Ok (y, s') ->
    exists new, gfacts s s' new (addrs_nr (tr y)) /\ Forall pure_ev new /\
                raws (tr y) = raws (tr x) /\ no_raw (tr y) = no_raw (tr x).
  Proof.
    intros x s y s' R. apply C in R. destruct (tcopy_gen _ _ _ _ R) as [new G].
    destruct (tcopy_pure _ _ _ _ R) as [new' [E' P']]. destruct (tcopy_raws _ _ _ _ R) as [Hr Hn].
    exists new. repeat split; try apply G; try assumption.
    destruct G as (_ & E & _). rewrite E in E'. apply app_inv_head in E'. subst. exact P'.
  Qed.

  Corollary deep_copy_owned_fresh : forall x s y s', f x s = Ok (y, s') -> no_raw (tr x) = true ->
    Forall (in_rng (nxt s) (nxt s')) (addrs (tr y)) /\ NoDup (addrs (tr y)).
  Proof.
    intros x s y s' R H. destruct (deep_copy_fresh _ _ _ _ R) as [new ((_ & _ & _ & Rg & N & _) & _ & _ & Hn)].
    rewrite addrs_no_raw by congruence. auto.
  Qed.

  (* (b) SHAPE: in the heap after the call the copy denotes exactly what the source denoted before the call,
     field by field, contents included (capacities and `owner` are not part of the denotation), and the
     source - like every older object - still denotes the same *)
  Theorem deep_copy_shape : forall x s y s', f x s = Ok (y, s') -> 0 < nxt s ->
    Forall (fun a => a < nxt s) (addrs (tr x)) ->
    exists new, evs s' = evs s ++ new /\
      forall w h, erase (replay w new h) (tr y) = erase h (tr x) /\
                  forall u, Forall (fun a => a < nxt s) (addrs u) -> erase (replay w new h) u = erase h u.
  Proof.
    intros x s y s' R Hpos Hb. apply C in R. destruct (tcopy_gen _ _ _ _ R) as [new G].
    exists new. destruct G as (_ & E & _). split; [exact E|]. intros w h. split.
    - apply (tcopy_erase _ _ _ _ R Hpos Hb new E).
    - intros u Hu. apply (tcopy_source_unchanged _ _ _ _ u R Hu new E).
  Qed.

  (* (c) FRAME = independence: a store through any buffer of the copy leaves the denotation of the source (and
     of every older object) unchanged, and a store through any buffer of an older object leaves the copy
     unchanged *)
  Theorem deep_copy_independent : forall x s y s', f x s = Ok (y, s') -> no_raw (tr x) = true ->
    forall u, Forall (fun a => a < nxt s) (addrs u) ->
    (forall a l h, In a (addrs (tr y)) -> erase (store h a l) u = erase h u) /\
    (forall a l h, In a (addrs u) -> erase (store h a l) (tr y) = erase h (tr y)).
  Proof.
    intros x s y s' R H u Hu. destruct (deep_copy_owned_fresh _ _ _ _ R H) as [Rg _].
    rewrite Forall_forall in *. split; intros a l h Ha; apply erase_store_frame; intro Hin.
    - specialize (Rg _ Ha). specialize (Hu _ Hin). unfold in_rng in Rg. lia.
    - specialize (Rg _ Hin). specialize (Hu _ Ha). unfold in_rng in Rg. lia.
  Qed.

  (* what a copy shares with its source when the source has Raw pointers: exactly the buffers below them *)
  Theorem deep_copy_shared : forall x s y s', f x s = Ok (y, s') -> Forall (fun a => a < nxt s) (addrs (tr x)) ->
    forall a, (In a (addrs (tr y)) /\ In a (addrs (tr x))) <-> In a (raws (tr x)).
  Proof.
    intros x s y s' R Hb a. destruct (deep_copy_fresh _ _ _ _ R) as [new ((_ & _ & _ & Rg & _) & _ & Hr & _)].
    rewrite Forall_forall in *. split.
    - intros [Hy Hx]. apply addrs_split in Hy. destruct Hy as [Hy|Hy]; [|rewrite <- Hr; exact Hy].
      specialize (Rg _ Hy). specialize (Hb _ Hx). unfold in_rng in Rg. lia.
    - intro H. split; apply addrs_split; right; [rewrite Hr|]; exact H.
  Qed.
End DeepCopy.

(* ------------------------------------------------------------------------------------------------ *)
(* In-place writes and frees                                                                          *)

Lemma writes_facts : forall l s u s', writes l s = Ok (u, s') ->
  nxt s' = nxt s /\ evs s' = evs s ++ map EWrite (flat_map nz l).
Proof.
  induction l as [|a r IH]; intros s u s' R; unfold writes in R; cbn [iterM] in R.
  - apply ret_ok in R. destruct R; subst. rewrite app_nil_r. auto.
  - mrun R. fold (writes r) in R. apply IH in R. destruct R as [N2 E2]. cbn [flat_map].
    unfold nz at 1. destruct (a =? 0).
    + apply ret_ok in R0. destruct R0; subst. auto.
    + apply emit_facts in R0. destruct R0 as [N1 E1]. split; [lia|]. rewrite E2, E1, <- app_assoc. reflexivity.
Qed.

Lemma mfree_facts : forall a s u s', mfree a s = Ok (u, s') ->
  nxt s' = nxt s /\ evs s' = evs s ++ map EFree (nz a).
Proof.
  intros a s u s' R. unfold mfree in R. unfold nz. destruct (a =? 0).
  - inversion R; subst. rewrite app_nil_r. auto.
  - destruct (mem a (freed (evs s))); [discriminate|]. inversion R; subst. auto.
Qed.
Lemma frees_facts : forall l s u s', frees l s = Ok (u, s') ->
  nxt s' = nxt s /\ evs s' = evs s ++ map EFree (flat_map nz l).
Proof.
  induction l as [|a r IH]; intros s u s' R; unfold frees in R; cbn [iterM] in R.
  - apply ret_ok in R. destruct R; subst. rewrite app_nil_r. auto.
  - mrun R. fold (frees r) in R. apply IH in R. destruct R as [N2 E2]. apply mfree_facts in R0. destruct R0 as [N1 E1].
    cbn [flat_map]. split; [lia|]. rewrite E2, E1, <- app_assoc, map_app. reflexivity.
Qed.

Lemma freed_writes : forall l, freed (map EWrite l) = [].
Proof. induction l; cbn; auto. Qed.
Lemma freed_frees : forall l, freed (map EFree l) = l.
Proof. induction l; cbn; congruence. Qed.
Lemma freed_pure : forall l, Forall pure_ev l -> freed l = [].
Proof. induction 1 as [|e t He Ht IH]; [reflexivity|]. destruct e; cbn in *; try contradiction; exact IH. Qed.

Lemma rep_frees_addrs : forall r, flat_map nz (rep_frees r) = addrs (rep_tree r).
Proof.
  destruct r; cbn [rep_frees rep_tree addrs flat_map arr_tree]; rewrite ?app_nil_r; reflexivity.
Qed.

Lemma NoDup_app_r : forall {A} (l1 l2 : list A), NoDup (l1 ++ l2) -> NoDup l2.
Proof. induction l1 as [|x t IH]; intros l2 H; [exact H|]. inversion H; subst. apply IH. assumption. Qed.
Lemma NoDup_app_l : forall {A} (l1 l2 : list A), NoDup (l1 ++ l2) -> NoDup l1.
Proof.
  induction l1 as [|x t IH]; intros l2 H; [constructor|]. inversion H; subst. constructor.
  - intro Hx. apply H2. apply in_or_app. left. exact Hx.
  - eapply IH. eassumption.
Qed.

(* extending a run: later events may write to / free what the run owns so far (r0) or touch what they
   allocate themselves; what they free (fr) leaves the owned set, what they allocate and keep (rnew) joins *)
Lemma gfacts_extend : forall s0 s s1 new0 new1 r0 fr r0' rnew,
  gfacts s0 s new0 r0 -> nxt s <= nxt s1 -> evs s1 = evs s ++ new1 ->
  Forall (fun e => in_rng (nxt s) (nxt s1) (wr_target e) \/ In (wr_target e) r0) new1 ->
  (forall x, In x (freed new1) -> In x fr) ->
  Permutation r0 (fr ++ r0') ->
  Forall (in_rng (nxt s) (nxt s1)) rnew -> NoDup rnew ->
  gfacts s0 s1 (new0 ++ new1) (r0' ++ rnew).
Proof.
  intros s0 s s1 new0 new1 r0 fr r0' rnew (L & E & T & R & N & F) L1 E1 T1 Hfr P Rn Nn.
  assert (I0 : incl r0' r0).
  { intros x Hx. eapply Permutation_in; [apply Permutation_sym; exact P|]. apply in_or_app. right. exact Hx. }
  assert (Nf : NoDup (fr ++ r0')) by (eapply Permutation_NoDup; eassumption).
  unfold gfacts. repeat split.
  - lia.
  - rewrite E1, E, app_assoc. reflexivity.
  - apply Forall_app. split; [eapply Forall_tgt_widen; [| |exact T]; lia|].
    rewrite Forall_forall in *. intros e He. destruct (T1 _ He) as [H|H].
    + unfold in_rng in *. lia.
    + specialize (R _ H). unfold in_rng in *. lia.
  - apply Forall_app. split.
    + rewrite Forall_forall in *. intros x Hx. specialize (R _ (I0 _ Hx)). unfold in_rng in *. lia.
    + eapply Forall_rng_widen; [| |exact Rn]; lia.
  - apply (NoDup_app_rng (nxt s0) (nxt s) (nxt s1)); try assumption.
    + apply NoDup_app_r in Nf. exact Nf.
    + rewrite Forall_forall in *. intros x Hx. apply R. apply I0. exact Hx.
  - apply Forall_app. split; rewrite Forall_forall; intros x Hx; rewrite freed_app; intro H; apply in_app_or in H.
    + destruct H as [H|H].
      * rewrite Forall_forall in F. exact (F _ (I0 _ Hx) H).
      * apply Hfr in H. clear - Nf H Hx. induction fr as [|y t IH]; [destruct H|].
        cbn in Nf. inversion Nf as [|y' t' Q1 Q2]; subst. destruct H as [->|H]; [|auto]. apply Q1. apply in_or_app. right. exact Hx.
    + rewrite Forall_forall in Rn. specialize (Rn _ Hx). destruct H as [H|H].
      * pose proof (freed_rng _ _ _ _ T H) as Q. unfold in_rng in *. lia.
      * apply Hfr in H. assert (In x r0).
        { eapply Permutation_in; [apply Permutation_sym; exact P|]. apply in_or_app. left. exact H. }
        rewrite Forall_forall in R. specialize (R _ H0). unfold in_rng in *. lia.
Qed.

(* permutations of concatenations, by counting *)
Ltac perm :=
  apply (Permutation_count_occ N.eq_dec); let x := fresh "x" in intro x;
  repeat match goal with
         | H : Permutation _ _ |- _ =>
             pose proof (proj1 (Permutation_count_occ N.eq_dec _ _) H x); clear H
         end;
  rewrite ?count_occ_app in *; cbn [count_occ] in *; unfold addr in *; lia.

(* ------------------------------------------------------------------------------------------------ *)
(* apply_repetition and the collectors, for any element kind                                          *)

Definition eaddrs {E} (K : ekind E) (e : E) : list addr := addrs (ek_tree K e).
Definition good {E} (K : ekind E) (e : E) : Prop := no_raw (ek_tree K e) = true.

Record kind_ok {E} (K : ekind E) : Prop := mkKO {
  ko_commute : commutes (ek_new_copy K) (ek_tree K);
  ko_clear : forall e, Permutation (eaddrs K e) (addrs (rep_tree (ek_rep K e)) ++ eaddrs K (ek_clear_rep K e));
  ko_clear_good : forall e, good K e -> good K (ek_clear_rep K e);
  ko_twr : forall e a, In a (ek_translate_wr K e) -> a = 0 \/ In a (eaddrs K e);
  ko_fwr : forall e a, In a (ek_transform_wr K e) -> a = 0 \/ In a (eaddrs K e) }.

Section Kind.
  Context {E : Type} (K : ekind E) (KO : kind_ok K).

  (* x = allocate_clear; x->copy_from(src); x->translate / transform *)
  Definition copy_write (wr : E -> list addr) (e : E) : M E :=
    c <- ek_new_copy K e ;; writes (wr c) ;;; ret c.

  Lemma copy_write_facts : forall wr, (forall e a, In a (wr e) -> a = 0 \/ In a (eaddrs K e)) ->
    forall e s c s', copy_write wr e s = Ok (c, s') -> good K e ->
    exists new, gfacts s s' new (eaddrs K c) /\ freed new = [] /\ good K c.
  Proof.
    intros wr Hwr e s c s' R Hg. unfold copy_write in R. mrun R.
    destruct (deep_copy_fresh _ _ (ko_commute K KO) _ _ _ _ R0) as [n1 (G1 & P1 & _ & Hn)].
    assert (Hgc : good K c) by (unfold good in *; congruence).
    apply writes_facts in R1. destruct R1 as [N1 E1].
    assert (Ea : eaddrs K c = addrs_nr (ek_tree K c)) by (apply addrs_no_raw; exact Hgc).
    exists (n1 ++ map EWrite (flat_map nz (wr c))). split; [|split; [|exact Hgc]].
    - rewrite <- (app_nil_r (eaddrs K c)).
      eapply (gfacts_extend s s0 s' n1 _ (eaddrs K c) [] (eaddrs K c) []).
      + rewrite Ea. exact G1.
      + lia.
      + exact E1.
      + rewrite Forall_forall. intros ev Hev. apply in_map_iff in Hev. destruct Hev as [a [<- Ha]].
        apply in_flat_map in Ha. destruct Ha as [b [Hb Ha]]. apply in_nz in Ha. destruct Ha as [-> Hz].
        right. cbn [wr_target]. destruct (Hwr _ _ Hb); [contradiction|assumption].
      + rewrite freed_writes. intros y [].
      + apply Permutation_refl.
      + constructor.
      + constructor.
    - rewrite freed_app, freed_writes, (freed_pure _ P1). reflexivity.
  Qed.

  Lemma repeat_copy_write_facts : forall wr, (forall e a, In a (wr e) -> a = 0 \/ In a (eaddrs K e)) ->
    forall e, good K e -> forall n s cs s', repeatM n (copy_write wr e) s = Ok (cs, s') ->
    exists new, gfacts s s' new (flat_map (eaddrs K) cs) /\ freed new = [] /\ Forall (good K) cs.
  Proof.
    intros wr Hwr e Hg. induction n as [|n IH]; intros s cs s' R; cbn [repeatM] in R.
    - apply ret_ok in R. destruct R; subst. exists []. split; [apply gfacts_nil|auto].
    - mrun R. destruct (copy_write_facts wr Hwr _ _ _ _ R0 Hg) as [n1 (G1 & F1 & Hg1)].
      destruct (IH _ _ _ R1) as [n2 (G2 & F2 & Hg2)].
      exists (n1 ++ n2). cbn [flat_map]. split; [eapply gfacts_trans; eassumption|].
      split; [rewrite freed_app, F1, F2; reflexivity|constructor; assumption].
  Qed.

  (* X::apply_repetition: the receiver loses its repetition buffer (freed), every other buffer of it stays;
     the copies are new objects *)
  Lemma apply_repetition_facts : forall e s e' cs s',
    apply_repetition K e s = Ok ((e', cs), s') -> good K e ->
    exists newc,
      nxt s <= nxt s' /\
      evs s' = evs s ++ map EFree (addrs (rep_tree (ek_rep K e))) ++ newc /\
      Forall (fun ev => in_rng (nxt s) (nxt s') (wr_target ev)) newc /\ freed newc = [] /\
      Forall (in_rng (nxt s) (nxt s')) (flat_map (eaddrs K) cs) /\ NoDup (flat_map (eaddrs K) cs) /\
      Permutation (eaddrs K e) (addrs (rep_tree (ek_rep K e)) ++ eaddrs K e') /\
      good K e' /\ Forall (good K) cs.
  Proof.
    intros e s e' cs s' R Hg. unfold apply_repetition in R.
    assert (Body : forall r, ek_rep K e = r ->
      (frees (rep_frees r) ;;;
       copies <- repeatM (N.to_nat (rep_count r - 1))
                         (c <- ek_new_copy K (ek_clear_rep K e) ;; writes (ek_translate_wr K c) ;;; ret c) ;;
       ret (ek_clear_rep K e, copies)) s = Ok ((e', cs), s') ->
      exists newc,
        nxt s <= nxt s' /\
        evs s' = evs s ++ map EFree (addrs (rep_tree (ek_rep K e))) ++ newc /\
        Forall (fun ev => in_rng (nxt s) (nxt s') (wr_target ev)) newc /\ freed newc = [] /\
        Forall (in_rng (nxt s) (nxt s')) (flat_map (eaddrs K) cs) /\ NoDup (flat_map (eaddrs K) cs) /\
        Permutation (eaddrs K e) (addrs (rep_tree (ek_rep K e)) ++ eaddrs K e') /\
        good K e' /\ Forall (good K) cs).
    { intros r Hr B. mrun B. injection H as He Hc. subst e' cs.
      apply frees_facts in R0. destruct R0 as [N0 E0]. rewrite rep_frees_addrs in E0.
      destruct (repeat_copy_write_facts _ (ko_twr K KO) _ (ko_clear_good K KO _ Hg) _ _ _ _ R1)
        as [n (G & F & Hgs)].
      destruct G as (L & E1 & T & Rg & N & _). exists n. rewrite N0 in *.
      repeat split; try assumption.
      - rewrite E1, E0, <- app_assoc. reflexivity.
      - apply (ko_clear K KO).
      - apply (ko_clear_good K KO). exact Hg. }
    destruct (ek_rep K e) eqn:Hr; try (apply (Body _ eq_refl R)).
    apply ret_ok in R. destruct R as [H Hs]. injection H as He Hc. subst e' cs s'. exists [].
    cbn [rep_tree addrs flat_map map app]. rewrite app_nil_r.
    repeat split; try lia; try reflexivity; try (constructor; fail); try exact Hg.
  Qed.

  (* the loop over result[start..finish) *)
  Lemma apply_all_facts : forall l s0 s new0 acc fs cs s',
    gfacts s0 s new0 (acc ++ flat_map (eaddrs K) l) -> Forall (good K) l ->
    apply_all K l s = Ok ((fs, cs), s') ->
    exists new, gfacts s0 s' (new0 ++ new) (acc ++ flat_map (eaddrs K) fs ++ flat_map (eaddrs K) cs) /\
                Forall (good K) fs /\ Forall (good K) cs.
  Proof.
    induction l as [|e r IH]; intros s0 s new0 acc fs cs s' G Hg R; cbn [apply_all] in R.
    - apply ret_ok in R. destruct R as [H ->]. inversion H; subst. exists [].
      cbn [flat_map] in *. rewrite ?app_nil_r in *. auto.
    - mrun R. destruct x as [e' ce]. destruct x0 as [fr cr]. inversion H; subst fs cs. clear H. cbn [fst snd].
      inversion Hg; subst.
      destruct (apply_repetition_facts _ _ _ _ _ R0 H1) as [nc (L & Ev & T & Fz & Rg & N & P & Hge & Hgc)].
      cbn [flat_map] in G.
      assert (G1 : gfacts s0 s1 (new0 ++ map EFree (addrs (rep_tree (ek_rep K e))) ++ nc)
                          ((acc ++ eaddrs K e' ++ flat_map (eaddrs K) ce) ++ flat_map (eaddrs K) r)).
      { eapply gfacts_perm.
        - eapply (gfacts_extend s0 s s1 new0 _ _ (addrs (rep_tree (ek_rep K e)))
                                (acc ++ eaddrs K e' ++ flat_map (eaddrs K) r) (flat_map (eaddrs K) ce)).
          + exact G.
          + exact L.
          + exact Ev.
          + apply Forall_app. split.
            * rewrite Forall_forall. intros ev Hev. apply in_map_iff in Hev. destruct Hev as [a [<- Ha]].
              right. cbn [wr_target]. apply in_or_app. right. apply in_or_app. left.
              eapply Permutation_in; [apply Permutation_sym; exact P|]. apply in_or_app. left. exact Ha.
            * eapply Forall_impl; [|exact T]. cbn. intros; left; assumption.
          + intros y Hy. rewrite freed_app, freed_frees, Fz, app_nil_r in Hy. exact Hy.
          + clear - P. perm.
          + exact Rg.
          + exact N.
        - perm. }
      destruct (IH _ _ _ _ _ _ _ G1 H2 R1) as [n2 (G2 & Hgf & Hgcs)].
      exists ((map EFree (addrs (rep_tree (ek_rep K e))) ++ nc) ++ n2). split; [|split].
      + cbn [flat_map]. rewrite app_assoc. eapply gfacts_perm; [exact G2|]. rewrite flat_map_app. perm.
      + constructor; assumption.
      + apply Forall_app. auto.
  Qed.

  (* the loop of Reference::get_X over one element of the child's result *)
  Lemma ref_expand_one_facts : forall n src s l s',
    ref_expand_one K n src s = Ok (l, s') -> good K src ->
    exists new cps,
      nxt s <= nxt s' /\ evs s' = evs s ++ new /\
      Forall (fun ev => in_rng (nxt s) (nxt s') (wr_target ev) \/ In (wr_target ev) (eaddrs K src)) new /\
      freed new = [] /\
      Forall (in_rng (nxt s) (nxt s')) (flat_map (eaddrs K) cps) /\ NoDup (flat_map (eaddrs K) cps) /\
      (l = match n with O => [] | S _ => cps ++ [src] end) /\ Forall (good K) cps.
  Proof.
    intros n src s l s' R Hg. unfold ref_expand_one in R. mrun R.
    destruct (repeat_copy_write_facts _ (ko_fwr K KO) _ Hg _ _ _ _ R0) as [n1 (G & F & Hgs)].
    destruct G as (L & E1 & T & Rg & N & _).
    destruct n as [|n].
    - apply ret_ok in R. destruct R; subst. exists n1, x. repeat split; try assumption.
      eapply Forall_impl; [|exact T]. cbn. intros; left; assumption.
    - mrun R. apply writes_facts in R1. destruct R1 as [N1 E2].
      exists (n1 ++ map EWrite (flat_map nz (ek_transform_wr K src))), x. rewrite N1. repeat split; try assumption.
      + rewrite E2, E1, <- app_assoc. reflexivity.
      + apply Forall_app. split.
        * eapply Forall_impl; [|exact T]. cbn. intros; left; assumption.
        * rewrite Forall_forall. intros ev Hev. apply in_map_iff in Hev. destruct Hev as [a [<- Ha]].
          apply in_flat_map in Ha. destruct Ha as [b [Hb Ha]]. apply in_nz in Ha. destruct Ha as [-> Hz].
          right. cbn [wr_target]. destruct (ko_fwr K KO _ _ Hb); [contradiction|assumption].
      + rewrite freed_app, freed_writes, F. reflexivity.
  Qed.

  Lemma ref_expand_all_facts : forall n child s0 s new0 acc ls s',
    gfacts s0 s new0 (acc ++ flat_map (eaddrs K) child) -> Forall (good K) child ->
    mapM (ref_expand_one K n) child s = Ok (ls, s') ->
    exists new, gfacts s0 s' (new0 ++ new) (acc ++ flat_map (eaddrs K) (concat ls)) /\
                Forall (good K) (concat ls).
  Proof.
    intros n. induction child as [|src r IH]; intros s0 s new0 acc ls s' G Hg R; cbn [mapM] in R.
    - apply ret_ok in R. destruct R; subst. exists []. rewrite app_nil_r. cbn [concat flat_map] in *. auto.
    - mrun R. inversion Hg; subst.
      destruct (ref_expand_one_facts _ _ _ _ _ R0 H1) as [n1 [cps (L & Ev & T & Fz & Rg & N & El & Hgc)]].
      cbn [flat_map] in G.
      assert (G1 : gfacts s0 s1 (new0 ++ n1)
                          ((acc ++ flat_map (eaddrs K) x) ++ flat_map (eaddrs K) r)).
      { destruct n as [|n]; subst x.
        - (* count 0: nothing appended, src is dropped *)
          cbn [flat_map]. rewrite app_nil_r.
          eapply gfacts_sub.
          + eapply (gfacts_extend s0 s s1 new0 n1 _ [] _ []).
            * exact G.
            * exact L.
            * exact Ev.
            * eapply Forall_impl; [|exact T]. cbn. intros ev [H|H]; [left; exact H|right].
              apply in_or_app. right. apply in_or_app. left. exact H.
            * rewrite Fz. intros y [].
            * apply Permutation_refl.
            * constructor.
            * constructor.
          + destruct G as (_ & _ & _ & _ & Nd & _).
            clear - Nd. apply (Permutation_NoDup (l' := eaddrs K src ++ acc ++ flat_map (eaddrs K) r)) in Nd.
            2: { perm. } apply NoDup_app_r in Nd. exact Nd.
          + rewrite app_nil_r. intros y Hy. apply in_app_or in Hy. apply in_or_app.
            destruct Hy; [left; assumption|right; apply in_or_app; right; assumption].
        - eapply gfacts_perm.
          + eapply (gfacts_extend s0 s s1 new0 n1 _ [] _ (flat_map (eaddrs K) cps)).
            * exact G.
            * exact L.
            * exact Ev.
            * eapply Forall_impl; [|exact T]. cbn. intros ev [H|H]; [left; exact H|right].
              apply in_or_app. right. apply in_or_app. left. exact H.
            * rewrite Fz. intros y [].
            * apply Permutation_refl.
            * exact Rg.
            * exact N.
          + rewrite flat_map_app. cbn [flat_map]. rewrite app_nil_r. perm. }
      destruct (IH _ _ _ _ _ _ G1 H2 R1) as [n2 (G2 & Hg2)].
      exists (n1 ++ n2). split.
      + cbn [concat]. rewrite flat_map_app. rewrite app_assoc. rewrite (app_assoc acc). exact G2.
      + cbn [concat]. apply Forall_app. split; [|exact Hg2].
        destruct n; subst x; [constructor|]. apply Forall_app. split; [exact Hgc|constructor; [exact H1|constructor]].
  Qed.
End Kind.

Lemma find_cell_in : forall env a c, find_cell env a = Some c -> In c env.
Proof.
  induction env as [|x r IH]; intros a c H; [discriminate|]. cbn [find_cell] in H.
  destruct (c_self x =? a); [inversion H; left; reflexivity|right; eapply IH; eassumption].
Qed.

Section Collect.
  Context {E : Type} (K : ekind E) (KO : kind_ok K) (extra : option N -> cell -> M (list E)) (env : list cell).

  Definition genq (m : M (list E)) : Prop :=
    forall s l s', m s = Ok (l, s') ->
      exists new, gfacts s s' new (flat_map (eaddrs K) l) /\ Forall (good K) l.

  Hypothesis own_ok : forall flt c, In c env -> genq (ek_own K flt c).
  Hypothesis extra_ok : forall flt c, In c env -> genq (extra flt c).

  Lemma genq_mapM_concat : forall {X} (f : X -> M (list E)) xs,
    (forall x, In x xs -> genq (f x)) ->
    forall s ls s', mapM f xs s = Ok (ls, s') ->
      exists new, gfacts s s' new (flat_map (eaddrs K) (concat ls)) /\ Forall (good K) (concat ls).
  Proof.
    intros X f. induction xs as [|x r IH]; intros H s ls s' R; cbn [mapM] in R.
    - apply ret_ok in R. destruct R; subst. exists []. split; [apply gfacts_nil|constructor].
    - mrun R. destruct (H x (or_introl eq_refl) _ _ _ R0) as [n1 [G1 Q1]].
      destruct (IH (fun y Hy => H y (or_intror Hy)) _ _ _ R1) as [n2 [G2 Q2]].
      exists (n1 ++ n2). cbn [concat]. rewrite flat_map_app. split; [eapply gfacts_trans; eassumption|].
      apply Forall_app. auto.
  Qed.

  Lemma ref_get_facts : forall (rec : Z -> cell -> M (list E)) depth r,
    (forall d c, In c env -> genq (rec d c)) -> genq (ref_get K rec env depth r).
  Proof.
    intros rec depth r Hrec s l s' R. unfold ref_get in R. destruct (rf_target r) as [a|a|a].
    - destruct (find_cell env a) as [c|] eqn:Hf; [|discriminate]. apply find_cell_in in Hf. mrun R.
      destruct (Hrec _ _ Hf _ _ _ R0) as [n1 [G1 Q1]].
      rewrite <- (app_nil_l (flat_map (eaddrs K) x)) in G1.
      destruct (ref_expand_all_facts K KO _ _ _ _ _ _ _ _ G1 Q1 R1) as [n2 [G2 Q2]].
      exists (n1 ++ n2). auto.
    - apply ret_ok in R. destruct R; subst. exists []. split; [apply gfacts_nil|constructor].
    - apply ret_ok in R. destruct R; subst. exists []. split; [apply gfacts_nil|constructor].
  Qed.

  (* Cell::get_X: every buffer of every returned element was allocated by the call (hence the result is
     disjoint from the cells it was collected from and from every other object), no buffer occurs twice in
     the result, none was freed again, and the call wrote to and freed only buffers it allocated itself *)
  Theorem cell_get_facts : forall fuel ar depth flt c, In c env -> genq (cell_get K extra fuel env ar depth flt c).
  Proof.
    induction fuel as [|fuel IH]; intros ar depth flt c Hc s l s' R; cbn [cell_get] in R; [discriminate|].
    mrun R.
    destruct (own_ok flt c Hc _ _ _ R0) as [n1 [G1 Q1]].
    destruct (extra_ok flt c Hc _ _ _ R1) as [n2 [G2 Q2]].
    assert (G12 : gfacts s s1 (n1 ++ n2) (flat_map (eaddrs K) (x ++ x0))).
    { rewrite flat_map_app. eapply gfacts_trans; eassumption. }
    assert (Q12 : Forall (good K) (x ++ x0)) by (apply Forall_app; auto).
    assert (B : exists nb, gfacts s s2 nb (flat_map (eaddrs K) x1) /\ Forall (good K) x1).
    { destruct ar.
      - mrun R2. destruct x2 as [fs cs]. cbn [fst snd].
        rewrite <- (app_nil_l (flat_map (eaddrs K) (x ++ x0))) in G12.
        destruct (apply_all_facts K KO _ _ _ _ _ _ _ _ G12 Q12 R3) as [n3 (G3 & Qf & Qc)].
        eexists. split; [rewrite flat_map_app; exact G3|apply Forall_app; auto].
      - apply ret_ok in R2. destruct R2; subst. eexists. split; eassumption. }
    destruct B as [nb [Gb Qb]].
    destruct (depth =? 0)%Z.
    - apply ret_ok in R. destruct R; subst. eexists. split; eassumption.
    - mrun R.
      destruct (genq_mapM_concat _ _ (fun r _ => ref_get_facts _ (next_depth depth) r
                                       (fun d c' Hc' => IH ar d flt c' Hc')) _ _ _ R3) as [n4 [G4 Q4]].
      exists (nb ++ n4). rewrite flat_map_app. split; [eapply gfacts_trans; eassumption|apply Forall_app; auto].
  Qed.
End Collect.

(* ------------------------------------------------------------------------------------------------ *)
(* Where Raw pointers can occur: only in the subpath array of a RobustPath                            *)

Lemma nr_exts : forall l, forallb no_raw (map Ext l) = true.
Proof. induction l; cbn; auto. Qed.
Lemma nr_arr : forall kids a, no_raw (arr_tree kids a) = forallb no_raw kids.
Proof. reflexivity. Qed.
Lemma nr_rep : forall r, no_raw (rep_tree r) = true.
Proof. destruct r; reflexivity. Qed.
Lemma nr_pvalue : forall v, no_raw (pvalue_tree v) = true.
Proof. destruct v; reflexivity. Qed.
Lemma forallb_map_true : forall {A} (f : A -> otree) l, (forall x, no_raw (f x) = true) -> forallb no_raw (map f l) = true.
Proof. intros A f l H. induction l; cbn; [reflexivity|]. rewrite H, IHl. reflexivity. Qed.
Lemma nr_property : forall p, no_raw (property_tree p) = true.
Proof. intro p. unfold property_tree. cbn [no_raw forallb str_tree]. apply forallb_map_true. apply nr_pvalue. Qed.
Lemma nr_props : forall l, no_raw (props_tree l) = true.
Proof. intro l. unfold props_tree. cbn [no_raw]. apply forallb_map_true. apply nr_property. Qed.
Lemma nr_polygon : forall p, no_raw (polygon_tree p) = true.
Proof. intro p. unfold polygon_tree. cbn [no_raw forallb]. rewrite nr_arr, nr_rep, nr_props. reflexivity. Qed.
Lemma nr_label : forall p, no_raw (label_tree p) = true.
Proof. intro p. unfold label_tree. cbn [no_raw forallb str_tree]. rewrite nr_rep, nr_props. reflexivity. Qed.
Lemma nr_reference : forall p, no_raw (reference_tree p) = true.
Proof.
  intro p. unfold reference_tree. cbn [no_raw forallb]. rewrite nr_rep, nr_props.
  destruct (rf_target p); reflexivity.
Qed.
Lemma nr_fe : forall e, no_raw (fe_tree e) = true.
Proof. intro e. unfold fe_tree. cbn [no_raw forallb]. rewrite nr_arr, nr_exts. reflexivity. Qed.
Lemma nr_flexpath : forall p, no_raw (flexpath_tree p) = true.
Proof.
  intro p. unfold flexpath_tree. cbn [no_raw forallb]. rewrite nr_arr, nr_rep, nr_props.
  rewrite (forallb_map_true fe_tree _ nr_fe). reflexivity.
Qed.
Lemma nr_re : forall e, no_raw (re_tree e) = true.
Proof. intro e. unfold re_tree. cbn [no_raw forallb]. rewrite !nr_arr, !nr_exts. reflexivity. Qed.

Definition ctrl_free (r : robustpath) : bool :=
  forallb (fun sp => match sp with SPBezier _ => false | _ => true end) (rp_subpaths r).
Lemma nr_sps : forall l, forallb no_raw (map sp_tree l) =
                         forallb (fun sp => match sp with SPBezier _ => false | _ => true end) l.
Proof.
  induction l as [|sp r IH]; [reflexivity|]. cbn [map forallb]. rewrite IH. f_equal.
  destruct sp; cbn [sp_tree no_raw forallb]; rewrite ?nr_exts; reflexivity.
Qed.
Lemma nr_robustpath : forall r, no_raw (robustpath_tree r) = ctrl_free r.
Proof.
  intro r. unfold robustpath_tree, ctrl_free. cbn [no_raw forallb]. rewrite nr_rep, nr_props, nr_arr, nr_sps.
  rewrite (forallb_map_true re_tree _ nr_re). rewrite !andb_true_r. reflexivity.
Qed.

Definition cell_ctrl_free (c : cell) : bool := forallb ctrl_free (c_robustpaths c).
Lemma forallb_map_eq : forall {A} (f : A -> otree) (g : A -> bool) l,
  (forall x, no_raw (f x) = g x) -> forallb no_raw (map f l) = forallb g l.
Proof. intros A f g l H. induction l; cbn; [reflexivity|]. rewrite H, IHl. reflexivity. Qed.
Lemma nr_cell : forall c, no_raw (cell_tree c) = cell_ctrl_free c.
Proof.
  intro c. unfold cell_tree, cell_ctrl_free, ptrs_tree. cbn [no_raw forallb str_tree]. rewrite nr_props.
  rewrite (forallb_map_true polygon_tree _ nr_polygon), (forallb_map_true reference_tree _ nr_reference),
    (forallb_map_true flexpath_tree _ nr_flexpath), (forallb_map_true label_tree _ nr_label),
    (forallb_map_eq robustpath_tree ctrl_free _ nr_robustpath).
  rewrite !andb_true_r. reflexivity.
Qed.
Definition lib_ctrl_free (l : library) : bool := forallb cell_ctrl_free (l_cellobjs l).
Lemma nr_library : forall l, no_raw (library_tree l) = lib_ctrl_free l.
Proof.
  intro l. unfold library_tree, lib_ctrl_free, ptrs_tree. cbn [no_raw forallb str_tree]. rewrite nr_props, nr_arr, nr_exts.
  rewrite (forallb_map_eq cell_tree cell_ctrl_free _ nr_cell). rewrite !andb_true_r. reflexivity.
Qed.

(* ------------------------------------------------------------------------------------------------ *)
(* The four element kinds (and references, for apply_repetition)                                      *)

Lemma in_single : forall (a b : addr) rest, In a [b] -> a = 0 \/ In a (nz b ++ rest).
Proof.
  intros a b rest [->|[]]. destruct (N.eq_dec a 0); [left; assumption|right]. apply in_or_app. left.
  rewrite nz_nonzero by assumption. left. reflexivity.
Qed.

Lemma polygon_kind_ok : kind_ok polygon_kind.
Proof.
  constructor.
  - exact polygon_commute.
  - intro p. unfold eaddrs. cbn [ek_tree ek_rep ek_clear_rep polygon_kind]. unfold polygon_tree.
    cbn [addrs flat_map pg_self pg_tag pg_points pg_rep pg_props rep_tree]. perm.
  - intros p _. apply nr_polygon.
  - intros p a H. unfold eaddrs. cbn [ek_translate_wr ek_tree polygon_kind] in *. unfold polygon_tree, arr_tree.
    cbn [addrs flat_map]. destruct H as [<-|[]]. destruct (N.eq_dec (a_items (pg_points p)) 0); [left; assumption|right].
    apply in_or_app. right. apply in_or_app. left. apply in_or_app. left. rewrite nz_nonzero by assumption. left. reflexivity.
  - intros p a H. unfold eaddrs. cbn [ek_transform_wr ek_tree polygon_kind] in *. unfold polygon_tree, arr_tree.
    cbn [addrs flat_map]. destruct H as [<-|[]]. destruct (N.eq_dec (a_items (pg_points p)) 0); [left; assumption|right].
    apply in_or_app. right. apply in_or_app. left. apply in_or_app. left. rewrite nz_nonzero by assumption. left. reflexivity.
Qed.

Lemma label_kind_ok : kind_ok label_kind.
Proof.
  constructor.
  - exact label_commute.
  - intro p. unfold eaddrs. cbn [ek_tree ek_rep ek_clear_rep label_kind]. unfold label_tree.
    cbn [addrs flat_map lb_self lb_tag lb_text lb_rep lb_props rep_tree]. perm.
  - intros p _. apply nr_label.
  - intros p a H. unfold eaddrs. cbn [ek_translate_wr ek_tree label_kind] in *. unfold label_tree.
    cbn [addrs]. apply in_single. exact H.
  - intros p a H. unfold eaddrs. cbn [ek_transform_wr ek_tree label_kind] in *. unfold label_tree.
    cbn [addrs]. apply in_single. exact H.
Qed.

Lemma reference_kind_ok : kind_ok reference_kind.
Proof.
  constructor.
  - exact reference_commute.
  - intro p. unfold eaddrs. cbn [ek_tree ek_rep ek_clear_rep reference_kind]. unfold reference_tree.
    cbn [addrs flat_map rf_self rf_target rf_rep rf_props rep_tree]. perm.
  - intros p _. apply nr_reference.
  - intros p a H. unfold eaddrs. cbn [ek_translate_wr ek_tree reference_kind] in *. unfold reference_tree.
    cbn [addrs]. apply in_single. exact H.
  - intros p a H. unfold eaddrs. cbn [ek_transform_wr ek_tree reference_kind] in *. unfold reference_tree.
    cbn [addrs]. apply in_single. exact H.
Qed.

Lemma robustpath_kind_ok : kind_ok robustpath_kind.
Proof.
  constructor.
  - exact robustpath_commute.
  - intro p. unfold eaddrs. cbn [ek_tree ek_rep ek_clear_rep robustpath_kind]. unfold robustpath_tree.
    cbn [addrs flat_map rp_self rp_props rp_rep rp_subs rp_subpaths rp_elems rp_els rep_tree]. perm.
  - intros p H. unfold good in *. cbn [ek_tree ek_clear_rep robustpath_kind] in *.
    rewrite nr_robustpath in *. exact H.
  - intros p a H. unfold eaddrs. cbn [ek_translate_wr ek_tree robustpath_kind] in *. unfold robustpath_tree.
    cbn [addrs]. apply in_single. exact H.
  - intros p a H. unfold eaddrs. cbn [ek_transform_wr ek_tree robustpath_kind] in *. unfold robustpath_tree.
    cbn [addrs]. apply in_single. exact H.
Qed.

Lemma flexpath_kind_ok : kind_ok flexpath_kind.
Proof.
  constructor.
  - exact flexpath_commute.
  - intro p. unfold eaddrs. cbn [ek_tree ek_rep ek_clear_rep flexpath_kind]. unfold flexpath_tree.
    cbn [addrs flat_map fp_self fp_spine fp_props fp_rep fp_raith_name fp_elems fp_els rep_tree]. perm.
  - intros p _. apply nr_flexpath.
  - intros p a H. unfold eaddrs. cbn [ek_translate_wr ek_tree flexpath_kind] in *. unfold flexpath_tree, arr_tree.
    cbn [addrs flat_map]. destruct H as [<-|[]]. destruct (N.eq_dec (a_items (fp_spine p)) 0); [left; assumption|right].
    apply in_or_app. right. apply in_or_app. left. apply in_or_app. left. rewrite nz_nonzero by assumption. left. reflexivity.
  - intros p a H. unfold eaddrs. cbn [ek_transform_wr ek_tree flexpath_kind] in *.
    destruct (N.eq_dec a 0) as [Ha|Ha]; [left; exact Ha|right].
    unfold flexpath_tree, arr_tree. cbn [addrs flat_map]. rewrite !in_app_iff.
    destruct H as [<-|[<-|H]].
    + right. left. left. rewrite nz_nonzero by assumption. left. reflexivity.
    + right. right. right. right. right. left. left. rewrite nz_nonzero by assumption. left. reflexivity.
    + right. right. right. right. right. left. right. apply in_map_iff in H. destruct H as [e [<- He]].
      apply in_flat_map. exists (fe_tree e). split; [apply in_map; exact He|].
      unfold fe_tree. cbn [addrs flat_map]. apply in_or_app. left. apply in_or_app. left.
      rewrite nz_nonzero by assumption. left. reflexivity.
Qed.

Lemma flat_map_map : forall {A B C} (f : B -> list C) (g : A -> B) l,
  flat_map f (map g l) = flat_map (fun x => f (g x)) l.
Proof. induction l; cbn; congruence. Qed.

Lemma step_gen : forall {A} (f : A -> M A) tr, commutes f tr ->
  forall x s y s', f x s = Ok (y, s') -> no_raw (tr y) = true -> exists new, gfacts s s' new (addrs (tr y)).
Proof.
  intros A f tr C x s y s' R H. apply C in R. destruct (tcopy_gen _ _ _ _ R) as [new G]. exists new.
  rewrite addrs_no_raw by exact H. exact G.
Qed.

Lemma copy_facts : forall {E} (K : ekind E), kind_ok K ->
  forall e s c s', ek_new_copy K e s = Ok (c, s') -> good K e ->
    exists new, gfacts s s' new (eaddrs K c) /\ good K c.
Proof.
  intros E K KO e s c s' R Hg.
  destruct (deep_copy_fresh _ _ (ko_commute K KO) _ _ _ _ R) as [new (G & _ & _ & Hn)].
  assert (Hc : good K c) by (unfold good in *; congruence).
  exists new. split; [|exact Hc]. unfold eaddrs. rewrite addrs_no_raw by exact Hc. exact G.
Qed.

Lemma new_copies_genq : forall {E} (K : ekind E), kind_ok K ->
  forall l, Forall (good K) l -> genq K (mapM (ek_new_copy K) l).
Proof.
  intros E K KO. induction l as [|e r IH]; intros Hg s l' s' R; cbn [mapM] in R.
  - apply ret_ok in R. destruct R; subst. exists []. split; [apply gfacts_nil|constructor].
  - inversion Hg; subst. mrun R. destruct (copy_facts K KO _ _ _ _ R0 H1) as [n1 [G1 Q1]].
    destruct (IH H2 _ _ _ R1) as [n2 [G2 Q2]]. exists (n1 ++ n2). cbn [flat_map].
    split; [eapply gfacts_trans; eassumption|constructor; assumption].
Qed.

Lemma Forall_filter : forall {A} (P : A -> Prop) f l, Forall P l -> Forall P (filter f l).
Proof. intros A P f l H. rewrite Forall_forall in *. intros x Hx. apply filter_In in Hx. apply H. tauto. Qed.

Lemma array_gen : forall a s a' s', array_copy_from a s = Ok (a', s') ->
  exists new, gfacts s s' new (addrs (arr_tree [] a')).
Proof. intros. eapply (step_gen array_copy_from (arr_tree [])); [exact (array_commute [] (Forall_nil _))|eassumption|reflexivity]. Qed.
Lemma rep_gen : forall a s a' s', repetition_copy_from a s = Ok (a', s') ->
  exists new, gfacts s s' new (addrs (rep_tree a')).
Proof. intros. eapply (step_gen _ _ repetition_commute); [eassumption|apply nr_rep]. Qed.
Lemma props_gen : forall a s a' s', properties_copy a s = Ok (a', s') ->
  exists new, gfacts s s' new (addrs (props_tree a')).
Proof. intros. eapply (step_gen _ _ props_commute); [eassumption|apply nr_props]. Qed.
Lemma raith_gen : forall a s a' s', raith_name_copy a s = Ok (a', s') ->
  exists new, gfacts s s' new (nz a').
Proof.
  intros a s a' s' R. apply raith_commute in R. destruct (tcopy_gen _ _ _ _ R) as [new G]. exists new.
  cbn [addrs_nr flat_map] in G. rewrite app_nil_r in G. exact G.
Qed.
Lemma fes_gen : forall l s l' s', mapM fe_copy l s = Ok (l', s') ->
  exists new, gfacts s s' new (flat_map (fun e => addrs (fe_tree e)) l').
Proof.
  intros l s l' s' R. eapply (gen_mapM fe_copy (fun e => addrs (fe_tree e))); [|exact R].
  rewrite Forall_forall. intros e _ s0 y s0' R0. eapply (step_gen _ _ fe_commute); [eassumption|apply nr_fe].
Qed.
Lemma res_gen : forall l s l' s', mapM re_copy l s = Ok (l', s') ->
  exists new, gfacts s s' new (flat_map (fun e => addrs (re_tree e)) l').
Proof.
  intros l s l' s' R. eapply (gen_mapM re_copy (fun e => addrs (re_tree e))); [|exact R].
  rewrite Forall_forall. intros e _ s0 y s0' R0. eapply (step_gen _ _ re_commute); [eassumption|apply nr_re].
Qed.

Ltac chain_facts :=
  repeat match goal with
         | G1 : gfacts ?s ?s1 _ _, G2 : gfacts ?s1 ?s2 _ _ |- _ =>
             pose proof (gfacts_trans _ _ _ _ _ _ _ G1 G2); clear G1 G2
         end.

(* first branch of Cell::get_flexpaths: a filtered path is a new object too *)
Lemma flexpath_filter_genq : forall t src, genq flexpath_kind (flexpath_filter_copy t src).
Proof.
  intros t src s l s' R. unfold flexpath_filter_copy in R.
  destruct (filter (fun e => fe_tag e =? t) (fp_els src)) as [|m0 mr].
  - apply ret_ok in R. destruct R; subst. exists []. split; [apply gfacts_nil|constructor].
  - mrun R. apply alloc_copy_facts in R0. destruct R0 as [G0 _].
    apply array_gen in R1. destruct R1 as [n1 G1]. apply props_gen in R2. destruct R2 as [n2 G2].
    apply rep_gen in R3. destruct R3 as [n3 G3]. apply raith_gen in R4. destruct R4 as [n4 G4].
    apply alloc_facts in R5. destruct R5 as [G5 _]. apply fes_gen in R6. destruct R6 as [n6 G6].
    chain_facts. eexists. split; [|constructor; [apply nr_flexpath|constructor]].
    eapply gfacts_perm; [eassumption|].
    unfold eaddrs. cbn [flat_map ek_tree flexpath_kind]. unfold flexpath_tree.
    cbn [addrs flat_map fp_self fp_spine fp_props fp_rep fp_raith_name fp_elems fp_els].
    rewrite flat_map_map. perm.
Qed.

Lemma subs_gen : forall kids a s a' s', Forall inert kids -> array_copy_from a s = Ok (a', s') ->
  exists new, gfacts s s' new (addrs_nr (arr_tree kids a')).
Proof.
  intros kids a s a' s' HI R. apply (array_commute kids HI) in R. destruct (tcopy_gen _ _ _ _ R) as [new G].
  exists new. exact G.
Qed.

Lemma robustpath_filter_genq : forall t src, ctrl_free src = true -> genq robustpath_kind (robustpath_filter_copy t src).
Proof.
  intros t src Hcf s l s' R. unfold robustpath_filter_copy in R.
  destruct (filter (fun e => re_tag e =? t) (rp_els src)) as [|m0 mr].
  - apply ret_ok in R. destruct R; subst. exists []. split; [apply gfacts_nil|constructor].
  - mrun R. apply alloc_copy_facts in R0. destruct R0 as [G0 _].
    apply props_gen in R1. destruct R1 as [n1 G1]. apply rep_gen in R2. destruct R2 as [n2 G2].
    apply (subs_gen (map sp_tree (rp_subpaths src)) _ _ _ _ (inert_sps _)) in R3. destruct R3 as [n3 G3].
    apply alloc_facts in R4. destruct R4 as [G4 _]. apply res_gen in R5. destruct R5 as [n5 G5].
    chain_facts.
    assert (Hg : good robustpath_kind (mkRobust x x0 x1 x2 (rp_subpaths src) x3 x4 0)).
    { unfold good. cbn [ek_tree robustpath_kind]. rewrite nr_robustpath. exact Hcf. }
    eexists. split; [|constructor; [exact Hg|constructor]].
    eapply gfacts_perm; [eassumption|].
    unfold eaddrs. cbn [flat_map ek_tree robustpath_kind]. unfold good in Hg. cbn [ek_tree robustpath_kind] in Hg.
    rewrite (addrs_no_raw _ Hg). unfold robustpath_tree.
    cbn [addrs_nr flat_map rp_self rp_props rp_rep rp_subs rp_subpaths rp_elems rp_els].
    rewrite <- !(addrs_no_raw (props_tree _)) by apply nr_props.
    rewrite <- !(addrs_no_raw (rep_tree _)) by apply nr_rep.
    rewrite flat_map_map.
    assert (Hre : flat_map (fun e => addrs_nr (re_tree e)) x4 = flat_map (fun e => addrs (re_tree e)) x4).
    { clear. induction x4 as [|e r IH]; [reflexivity|]. cbn [flat_map]. rewrite IH, (addrs_no_raw _ (nr_re e)). reflexivity. }
    rewrite Hre. perm.
Qed.

(* the outline polygons of get_polygons(include_paths) *)
Lemma outline_genq : forall tag rep props s p s',
  outline_polygon tag rep props s = Ok (p, s') -> exists new, gfacts s s' new (addrs (polygon_tree p)).
Proof.
  intros tag rep props s p s' R. unfold outline_polygon in R. mrun R.
  apply alloc_facts in R0. destruct R0 as [G0 _]. apply alloc_facts in R1. destruct R1 as [G1 _].
  apply rep_gen in R2. destruct R2 as [n2 G2]. apply props_gen in R3. destruct R3 as [n3 G3].
  chain_facts. eexists. eapply gfacts_perm; [eassumption|].
  unfold polygon_tree, arr_tree. cbn [addrs flat_map pg_self pg_points pg_rep pg_props a_items]. perm.
Qed.

Lemma outlines_genq : forall {X} (tagof : X -> N) rep props (l : list X),
  genq polygon_kind (mapM (fun e => outline_polygon (tagof e) rep props) l).
Proof.
  intros X tagof rep props. induction l as [|e r IH]; intros s l' s' R; cbn [mapM] in R.
  - apply ret_ok in R. destruct R; subst. exists []. split; [apply gfacts_nil|constructor].
  - mrun R. destruct (outline_genq _ _ _ _ _ _ R0) as [n1 G1]. destruct (IH _ _ _ R1) as [n2 [G2 Q2]].
    exists (n1 ++ n2). cbn [flat_map]. split; [eapply gfacts_trans; eassumption|].
    constructor; [apply nr_polygon|exact Q2].
Qed.

Lemma path_outlines_genq : forall flt c, genq polygon_kind (path_outlines flt c).
Proof.
  intros flt c s l s' R. unfold path_outlines in R. mrun R.
  assert (HF : forall f, genq polygon_kind (flexpath_to_polygons flt f)).
  { intros f s2 l2 s2' R2. unfold flexpath_to_polygons in R2. destruct (a_cnt (fp_spine f) <? 2).
    - apply ret_ok in R2. destruct R2; subst. exists []. split; [apply gfacts_nil|constructor].
    - eapply outlines_genq. exact R2. }
  assert (HR : forall f, genq polygon_kind (robustpath_to_polygons flt f)).
  { intros f s2 l2 s2' R2. unfold robustpath_to_polygons in R2. destruct (a_cnt (rp_subs f) =? 0).
    - apply ret_ok in R2. destruct R2; subst. exists []. split; [apply gfacts_nil|constructor].
    - eapply outlines_genq. exact R2. }
  destruct (genq_mapM_concat polygon_kind _ _ (fun f _ => HF f) _ _ _ R0) as [n1 [G1 Q1]].
  destruct (genq_mapM_concat polygon_kind _ _ (fun f _ => HR f) _ _ _ R1) as [n2 [G2 Q2]].
  exists (n1 ++ n2). rewrite flat_map_app. split; [eapply gfacts_trans; eassumption|apply Forall_app; auto].
Qed.

Lemma no_extra_genq : forall {E} (K : ekind E) flt c, genq K (@no_extra E flt c).
Proof.
  intros E K flt c s l s' R. apply ret_ok in R. destruct R; subst. exists []. split; [apply gfacts_nil|constructor].
Qed.

Lemma all_good : forall {E} (K : ekind E) (l : list E), (forall e, good K e) -> Forall (good K) l.
Proof. intros. rewrite Forall_forall. auto. Qed.

(* ------------------------------------------------------------------------------------------------ *)
(* The four collectors                                                                                *)

Theorem get_polygons_fresh : forall fuel env ar ip depth flt c, In c env ->
  genq polygon_kind (get_polygons fuel env ar ip depth flt c).
Proof.
  intros fuel env ar ip depth flt c Hc. unfold get_polygons. apply (cell_get_facts _ polygon_kind_ok); try exact Hc.
  - intros f c0 _. cbn [ek_own polygon_kind]. apply (new_copies_genq _ polygon_kind_ok).
    apply all_good. intro e. apply nr_polygon.
  - intros f c0 _. destruct ip; [apply path_outlines_genq|apply no_extra_genq].
Qed.

Theorem get_labels_fresh : forall fuel env ar depth flt c, In c env ->
  genq label_kind (get_labels fuel env ar depth flt c).
Proof.
  intros fuel env ar depth flt c Hc. unfold get_labels. apply (cell_get_facts _ label_kind_ok); try exact Hc.
  - intros f c0 _. cbn [ek_own label_kind]. apply (new_copies_genq _ label_kind_ok).
    apply all_good. intro e. apply nr_label.
  - intros f c0 _. apply no_extra_genq.
Qed.

Lemma concat_genq : forall {E X} (K : ekind E) (f : X -> M (list E)) xs,
  (forall x, In x xs -> genq K (f x)) -> genq K (ls <- mapM f xs ;; ret (concat ls)).
Proof.
  intros E X K f xs H s l s' R. mrun R. eapply genq_mapM_concat; eassumption.
Qed.

Theorem get_flexpaths_fresh : forall fuel env ar depth flt c, In c env ->
  genq flexpath_kind (get_flexpaths fuel env ar depth flt c).
Proof.
  intros fuel env ar depth flt c Hc. unfold get_flexpaths. apply (cell_get_facts _ flexpath_kind_ok); try exact Hc.
  - intros f c0 _. cbn [ek_own flexpath_kind]. destruct f as [t|].
    + apply concat_genq. intros x _. apply flexpath_filter_genq.
    + apply (new_copies_genq _ flexpath_kind_ok). apply all_good. intro e. apply nr_flexpath.
  - intros f c0 _. apply no_extra_genq.
Qed.

Lemma ctrl_free_all : forall c, cell_ctrl_free c = true -> Forall (good robustpath_kind) (c_robustpaths c).
Proof.
  intros c H. unfold cell_ctrl_free in H. rewrite forallb_forall in H. rewrite Forall_forall. intros r Hr.
  unfold good. cbn [ek_tree robustpath_kind]. rewrite nr_robustpath. apply H. exact Hr.
Qed.

(* for robust paths the statement needs: no general Bezier section anywhere in the cells that are read *)
Theorem get_robustpaths_fresh : forall fuel env ar depth flt c, In c env ->
  (forall c', In c' env -> cell_ctrl_free c' = true) ->
  genq robustpath_kind (get_robustpaths fuel env ar depth flt c).
Proof.
  intros fuel env ar depth flt c Hc Hcf. unfold get_robustpaths.
  apply (cell_get_facts _ robustpath_kind_ok); try exact Hc.
  - intros f c0 Hc0. cbn [ek_own robustpath_kind]. pose proof (ctrl_free_all _ (Hcf _ Hc0)) as HG. destruct f as [t|].
    + apply concat_genq. intros x Hx. apply robustpath_filter_genq.
      rewrite Forall_forall in HG. specialize (HG _ Hx). unfold good in HG. cbn [ek_tree robustpath_kind] in HG.
      rewrite nr_robustpath in HG. exact HG.
    + apply (new_copies_genq _ robustpath_kind_ok). exact HG.
  - intros f c0 _. apply no_extra_genq.
Qed.

(* ------------------------------------------------------------------------------------------------ *)
(* clear() / free_all(): what is freed is exactly what is owned - except below Raw pointers           *)

Lemma perm_flat_map : forall {A} (f g : A -> list addr) l,
  (forall x, Permutation (f x) (g x)) -> Permutation (flat_map f l) (flat_map g l).
Proof. intros A f g l H. induction l; cbn; [constructor|]. apply Permutation_app; auto. Qed.
Lemma flat_map_nz_flat_map : forall {A} (h : A -> list addr) l,
  flat_map nz (flat_map h l) = flat_map (fun x => flat_map nz (h x)) l.
Proof. induction l; cbn; [reflexivity|]. rewrite flat_map_app. congruence. Qed.

Lemma pvalue_frees_perm : forall v, Permutation (addrs (pvalue_tree v)) (flat_map nz (pvalue_frees v)).
Proof. destruct v; cbn [pvalue_tree pvalue_frees addrs flat_map]; perm. Qed.
Lemma property_frees_perm : forall p, Permutation (addrs (property_tree p)) (flat_map nz (property_frees p)).
Proof.
  intro p. unfold property_tree, property_frees. cbn [addrs flat_map str_tree].
  rewrite flat_map_map, flat_map_app, flat_map_nz_flat_map. cbn [flat_map].
  pose proof (perm_flat_map _ _ (p_values p) pvalue_frees_perm) as H. perm.
Qed.
Lemma props_frees_perm : forall l, Permutation (addrs (props_tree l)) (flat_map nz (props_frees l)).
Proof.
  intro l. unfold props_tree, props_frees. cbn [addrs]. rewrite flat_map_map, flat_map_nz_flat_map.
  apply perm_flat_map. apply property_frees_perm.
Qed.

Lemma polygon_frees_perm : forall p,
  Permutation (addrs (polygon_tree p)) (flat_map nz (polygon_frees p ++ [pg_self p])).
Proof.
  intro p. unfold polygon_tree, polygon_frees, arr_tree. cbn [addrs flat_map]. rewrite !flat_map_app. cbn [flat_map].
  rewrite rep_frees_addrs. pose proof (props_frees_perm (pg_props p)) as H. perm.
Qed.
Lemma label_frees_perm : forall p,
  Permutation (addrs (label_tree p)) (flat_map nz (label_frees p ++ [lb_self p])).
Proof.
  intro p. unfold label_tree, label_frees, str_tree. cbn [addrs flat_map]. rewrite !flat_map_app. cbn [flat_map].
  rewrite rep_frees_addrs. pose proof (props_frees_perm (lb_props p)) as H. perm.
Qed.
Lemma reference_frees_perm : forall p,
  Permutation (addrs (reference_tree p)) (flat_map nz (reference_frees p ++ [rf_self p])).
Proof.
  intro p. unfold reference_tree, reference_frees. cbn [addrs flat_map]. rewrite !flat_map_app. cbn [flat_map].
  rewrite rep_frees_addrs. pose proof (props_frees_perm (rf_props p)) as H.
  destruct (rf_target p); cbn [rt_tree addrs flat_map str_tree]; perm.
Qed.
Lemma flexpath_frees_perm : forall p,
  Permutation (addrs (flexpath_tree p)) (flat_map nz (flexpath_frees p ++ [fp_self p])).
Proof.
  intro p. unfold flexpath_tree, flexpath_frees, arr_tree. cbn [addrs flat_map]. rewrite !flat_map_app. cbn [flat_map].
  rewrite rep_frees_addrs. pose proof (props_frees_perm (fp_props p)) as H.
  assert (He : Permutation (flat_map addrs (map fe_tree (fp_els p)))
                           (flat_map nz (map (fun e => a_items (fe_hwo e)) (fp_els p)))).
  { rewrite !flat_map_map. apply perm_flat_map. intro e. unfold fe_tree, arr_tree. cbn [addrs flat_map].
    rewrite flat_map_map. cbn [addrs]. assert (flat_map (fun _ : addr => @nil addr) (fe_ext e) = []) as ->.
    { induction (fe_ext e); cbn; auto. } perm. }
  perm.
Qed.
(* RobustPath::clear frees everything the path owns EXCEPT the control-point arrays of its general Bezier
   sections: those buffers are never freed by the library (a leak, not a double free) *)
Lemma robustpath_frees_perm : forall p,
  Permutation (addrs_nr (robustpath_tree p)) (flat_map nz (robustpath_frees p ++ [rp_self p])).
Proof.
  intro p. unfold robustpath_tree, robustpath_frees, arr_tree. cbn [addrs_nr flat_map]. rewrite !flat_map_app. cbn [flat_map].
  rewrite <- !(addrs_no_raw (props_tree _)) by apply nr_props.
  rewrite <- !(addrs_no_raw (rep_tree _)) by apply nr_rep.
  rewrite rep_frees_addrs. pose proof (props_frees_perm (rp_props p)) as H.
  assert (Hs : flat_map addrs_nr (map sp_tree (rp_subpaths p)) = []).
  { induction (rp_subpaths p) as [|sp r IH]; [reflexivity|]. cbn [map flat_map]. rewrite IH, app_nil_r.
    destruct sp; cbn [sp_tree addrs_nr flat_map]; try reflexivity.
    induction ext; cbn; auto. }
  rewrite Hs.
  assert (He : Permutation (flat_map addrs_nr (map re_tree (rp_els p)))
                           (flat_map nz (flat_map (fun e => [a_items (re_width e); a_items (re_offset e)]) (rp_els p)))).
  { rewrite flat_map_map, flat_map_nz_flat_map. apply perm_flat_map. intro e. unfold re_tree, arr_tree.
    cbn [addrs_nr flat_map]. rewrite !flat_map_map. cbn [addrs_nr].
    assert (Hz : forall l : list addr, flat_map (fun _ : addr => @nil addr) l = []) by (induction l; cbn; auto).
    rewrite !Hz. perm. }
  perm.
Qed.

Lemma ptrs_frees_perm : forall {X} (tr : X -> otree) (fr : X -> list addr) l,
  (forall x, Permutation (addrs_nr (tr x)) (flat_map nz (fr x))) ->
  Permutation (flat_map addrs_nr (map tr l)) (flat_map nz (flat_map fr l)).
Proof. intros X tr fr l H. rewrite flat_map_map, flat_map_nz_flat_map. apply perm_flat_map. exact H. Qed.

Lemma nr_perm : forall t l, no_raw t = true -> Permutation (addrs t) l -> Permutation (addrs_nr t) l.
Proof. intros t l H P. rewrite <- addrs_no_raw by exact H. exact P. Qed.

Lemma cell_free_all_perm : forall c,
  Permutation (addrs_nr (cell_tree c)) (flat_map nz (cell_free_all_frees c ++ [c_self c])).
Proof.
  intro c. unfold cell_tree, cell_free_all_frees, cell_clear_frees, ptrs_tree, str_tree. cbn [addrs_nr flat_map].
  rewrite !flat_map_app. cbn [flat_map].
  rewrite <- !(addrs_no_raw (props_tree _)) by apply nr_props.
  pose proof (props_frees_perm (c_props c)) as Hp.
  pose proof (ptrs_frees_perm polygon_tree (fun p => polygon_frees p ++ [pg_self p]) (c_polygons c)
                (fun p => nr_perm _ _ (nr_polygon p) (polygon_frees_perm p))) as H1.
  pose proof (ptrs_frees_perm reference_tree (fun p => reference_frees p ++ [rf_self p]) (c_references c)
                (fun p => nr_perm _ _ (nr_reference p) (reference_frees_perm p))) as H2.
  pose proof (ptrs_frees_perm flexpath_tree (fun p => flexpath_frees p ++ [fp_self p]) (c_flexpaths c)
                (fun p => nr_perm _ _ (nr_flexpath p) (flexpath_frees_perm p))) as H3.
  pose proof (ptrs_frees_perm robustpath_tree (fun p => robustpath_frees p ++ [rp_self p]) (c_robustpaths c)
                robustpath_frees_perm) as H4.
  pose proof (ptrs_frees_perm label_tree (fun p => label_frees p ++ [lb_self p]) (c_labels c)
                (fun p => nr_perm _ _ (nr_label p) (label_frees_perm p))) as H5.
  perm.
Qed.

Lemma library_free_all_perm : forall l,
  Permutation (addrs_nr (library_tree l)) (flat_map nz (library_free_all_frees l ++ [l_self l])).
Proof.
  intro l. unfold library_tree, library_free_all_frees, library_clear_frees, ptrs_tree, arr_tree, str_tree.
  cbn [addrs_nr flat_map]. rewrite !flat_map_app. cbn [flat_map].
  rewrite <- !(addrs_no_raw (props_tree _)) by apply nr_props.
  pose proof (props_frees_perm (l_props l)) as Hp.
  pose proof (ptrs_frees_perm cell_tree (fun c => cell_free_all_frees c ++ [c_self c]) (l_cellobjs l)
                cell_free_all_perm) as H1.
  assert (Hz : flat_map addrs_nr (map Ext (l_rawcells l)) = []) by (induction (l_rawcells l); cbn; auto).
  rewrite Hz. perm.
Qed.

(* Cell::clear() / Library::clear(): the cell's / library's own buffers; the elements / cells are not freed *)
Definition cell_elems_addrs (c : cell) : list addr :=
  flat_map addrs (map polygon_tree (c_polygons c)) ++ flat_map addrs (map reference_tree (c_references c)) ++
  flat_map addrs (map flexpath_tree (c_flexpaths c)) ++ flat_map addrs (map robustpath_tree (c_robustpaths c)) ++
  flat_map addrs (map label_tree (c_labels c)).
Lemma cell_clear_perm : forall c,
  Permutation (addrs (cell_tree c)) (flat_map nz (cell_clear_frees c ++ [c_self c]) ++ cell_elems_addrs c).
Proof.
  intro c. unfold cell_tree, cell_clear_frees, cell_elems_addrs, ptrs_tree, str_tree. cbn [addrs flat_map].
  rewrite !flat_map_app. cbn [flat_map]. pose proof (props_frees_perm (c_props c)) as Hp. perm.
Qed.
Lemma library_clear_perm : forall l,
  Permutation (addrs (library_tree l))
              (flat_map nz (library_clear_frees l ++ [l_self l]) ++ flat_map addrs (map cell_tree (l_cellobjs l))).
Proof.
  intro l. unfold library_tree, library_clear_frees, ptrs_tree, arr_tree, str_tree. cbn [addrs flat_map].
  rewrite !flat_map_app. cbn [flat_map]. pose proof (props_frees_perm (l_props l)) as Hp.
  assert (Hz : flat_map addrs (map Ext (l_rawcells l)) = []) by (induction (l_rawcells l); cbn; auto).
  rewrite Hz. perm.
Qed.

(* ------------------------------------------------------------------------------------------------ *)
(* (d) wf_heap over operation sequences                                                               *)

Definition st0 : st := mkSt 0 [].

(* no buffer is owned twice among the live objects, every owned buffer was allocated (its address is below the
   allocator state) and not freed since; the allocator never returns NULL *)
Definition wf (s : state) : Prop :=
  0 < nxt (mst s) /\ gfacts st0 (mst s) (evs (mst s)) (flat_map owned (pool s)).

Definition pool_ok (p : list obj) : Prop := Forall (fun o => no_raw (obj_tree o) = true) p.

Definition deep_op (o : op) : Prop :=
  match o with
  | OpCellCopy _ _ false => False
  | OpLibCopy _ false => False
  | _ => True
  end.

Lemma wf_add : forall s m' new objs,
  wf s -> gfacts (mst s) m' new (flat_map owned objs) -> wf (mkState (pool s ++ objs) m').
Proof.
  intros s m' new objs [Hpos G] G1. split; cbn [mst pool].
  - destruct G1 as (L & _). lia.
  - pose proof (gfacts_trans _ _ _ _ _ _ _ G G1) as G2. rewrite flat_map_app.
    destruct G1 as (_ & E & _). rewrite E. exact G2.
Qed.

Lemma nth_set_split : forall i (p : list obj) o, nth i p OGone = o -> (i < length p)%nat ->
  exists p1 p2, p = p1 ++ o :: p2 /\ forall y, set_nth i y p = p1 ++ y :: p2.
Proof.
  induction i as [|i IH]; intros p o H L; destruct p as [|x r]; cbn [length] in L; try lia.
  - cbn in H. subst. exists [], r. split; [reflexivity|intro y; reflexivity].
  - cbn [nth] in H. destruct (IH r o H ltac:(lia)) as [p1 [p2 [E F]]]. exists (x :: p1), p2. split.
    + cbn. rewrite E. reflexivity.
    + intro y. cbn [set_nth]. rewrite F. reflexivity.
Qed.
Lemma set_nth_out : forall i (p : list obj) y, ~ (i < length p)%nat -> set_nth i y p = p.
Proof.
  induction i as [|i IH]; intros p y H; destruct p as [|x r]; cbn [length set_nth] in *; try reflexivity; try lia.
  rewrite IH by lia. reflexivity.
Qed.

Lemma NoDup_drop_mid : forall (A K B : list addr), NoDup (A ++ K ++ B) -> NoDup (A ++ B).
Proof.
  intros A K B H. apply (Permutation_NoDup (l' := K ++ A ++ B)) in H; [|perm]. apply NoDup_app_r in H. exact H.
Qed.

(* an operation that replaces object o by o' (which keeps `keep` of o's buffers, the others - fr - are freed)
   and appends new objects *)
Lemma wf_replace : forall s p1 o p2 m' new1 fr keep o' objs,
  wf s -> pool s = p1 ++ o :: p2 ->
  nxt (mst s) <= nxt m' -> evs m' = evs (mst s) ++ new1 ->
  Forall (fun e => in_rng (nxt (mst s)) (nxt m') (wr_target e) \/ In (wr_target e) (owned o)) new1 ->
  (forall x, In x (freed new1) -> In x fr) ->
  Permutation (owned o) (fr ++ keep) ->
  incl (owned o') keep -> NoDup (owned o') ->
  Forall (in_rng (nxt (mst s)) (nxt m')) (flat_map owned objs) -> NoDup (flat_map owned objs) ->
  wf (mkState (p1 ++ o' :: p2 ++ objs) m').
Proof.
  intros s p1 o p2 m' new1 fr keep o' objs [Hpos G] Ep L E T Hfr P I N' Rn Nn. split; cbn [mst pool]; [lia|].
  rewrite Ep in G. rewrite flat_map_app in G. cbn [flat_map] in G.
  rewrite E.
  assert (G1 : gfacts st0 m' (evs (mst s) ++ new1)
                      ((flat_map owned p1 ++ keep ++ flat_map owned p2) ++ flat_map owned objs)).
  { eapply (gfacts_extend st0 (mst s) m' _ new1 _ fr).
    - exact G.
    - exact L.
    - exact E.
    - eapply Forall_impl; [|exact T]. cbn. intros e [H|H]; [left; exact H|right].
      apply in_or_app. right. apply in_or_app. left. exact H.
    - exact Hfr.
    - clear - P. perm.
    - exact Rn.
    - exact Nn. }
  eapply gfacts_sub; [exact G1| |].
  - destruct G1 as (_ & _ & _ & Rg & Nd & _).
    rewrite flat_map_app. cbn [flat_map]. rewrite flat_map_app.
    (* A ++ o' ++ B ++ N is duplicate-free because A ++ keep ++ B ++ N is and o' sits inside keep *)
    assert (Hperm : Permutation ((flat_map owned p1 ++ keep ++ flat_map owned p2) ++ flat_map owned objs)
                                (keep ++ flat_map owned p1 ++ flat_map owned p2 ++ flat_map owned objs)) by perm.
    pose proof (Permutation_NoDup Hperm Nd) as Nd2.
    assert (Nd3 : NoDup (owned o' ++ flat_map owned p1 ++ flat_map owned p2 ++ flat_map owned objs)).
    { clear - Nd2 I N'. revert I N'. generalize (owned o'). intros l I Nl.
      induction l as [|x t IH]; [apply NoDup_app_r in Nd2; exact Nd2|].
      inversion Nl; subst. cbn. constructor.
      - intro H. apply in_app_or in H. destruct H as [H|H]; [contradiction|].
        assert (Hk : In x keep) by (apply I; left; reflexivity).
        clear - Nd2 Hk H. induction keep as [|y k IHk]; [destruct Hk|]. cbn in Nd2. inversion Nd2; subst.
        destruct Hk as [->|Hk]; [apply H2; apply in_or_app; right; exact H|auto].
      - apply IH; [intros y Hy; apply I; right; exact Hy|assumption]. }
    eapply Permutation_NoDup; [|exact Nd3]. perm.
  - rewrite flat_map_app. cbn [flat_map]. rewrite flat_map_app. intros x Hx.
    rewrite !in_app_iff in *. destruct Hx as [Hx|[Hx|[Hx|Hx]]]; auto.
Qed.

Lemma wf_nxt_events : forall s, wf s ->
  Forall (fun a => a < nxt (mst s)) (flat_map owned (pool s)).
Proof.
  intros s [_ (_ & _ & _ & R & _)]. eapply Forall_impl; [|exact R]. cbn. unfold in_rng. intros; lia.
Qed.

Lemma tcopy_obj_facts : forall t s t' s', tcopy t s = Ok (t', s') -> no_raw t = true ->
  (exists new, gfacts s s' new (addrs t')) /\ no_raw t' = true.
Proof.
  intros t s t' s' R H. destruct (tcopy_gen _ _ _ _ R) as [new G]. destruct (tcopy_raws _ _ _ _ R) as [_ Hn].
  assert (H' : no_raw t' = true) by congruence. split; [|exact H'].
  exists new. rewrite addrs_no_raw by exact H'. exact G.
Qed.

Lemma pool_ok_app : forall p q, pool_ok p -> pool_ok q -> pool_ok (p ++ q).
Proof. intros. apply Forall_app. auto. Qed.
Lemma pool_ok_nth : forall p i, pool_ok p -> no_raw (obj_tree (nth i p OGone)) = true.
Proof.
  intros p i H. destruct (Nat.lt_ge_cases i (length p)) as [L|L].
  - unfold pool_ok in H. rewrite Forall_forall in H. apply H. apply nth_In. exact L.
  - rewrite nth_overflow by exact L. reflexivity.
Qed.
Lemma nth_in_or_gone : forall (p : list obj) i, nth i p OGone = OGone \/ In (nth i p OGone) p.
Proof.
  intros p i. destruct (Nat.lt_ge_cases i (length p)) as [L|L]; [right; apply nth_In; exact L|left; apply nth_overflow; exact L].
Qed.

Lemma env_in : forall p c, In (OCell c) p -> In c (env_of p).
Proof. intros p c H. unfold env_of. apply in_flat_map. exists (OCell c). split; [exact H|left; reflexivity]. Qed.
Lemma env_ctrl_free : forall p, pool_ok p -> forall c, In c (env_of p) -> cell_ctrl_free c = true.
Proof.
  intros p H c Hc. unfold env_of in Hc. apply in_flat_map in Hc. destruct Hc as [o [Ho Hc]].
  unfold pool_ok in H. rewrite Forall_forall in H. specialize (H _ Ho). destruct o; cbn [cells_of] in Hc; try destruct Hc.
  - subst. cbn [obj_tree] in H. rewrite nr_cell in H. exact H.
  - contradiction.
  - cbn [obj_tree] in H. rewrite nr_library in H. unfold lib_ctrl_free in H. rewrite forallb_forall in H. apply H. exact Hc.
Qed.

Lemma wf_add_tree : forall s t t' m' o,
  wf s -> tcopy t (mst s) = Ok (t', m') -> no_raw t = true -> obj_tree o = t' ->
  wf (mkState (pool s ++ [o]) m') /\ pool_ok [o].
Proof.
  intros s t t' m' o W R H Eo. destruct (tcopy_obj_facts _ _ _ _ R H) as [[new G] Hn]. split.
  - eapply wf_add; [exact W|]. cbn [flat_map]. rewrite app_nil_r. unfold owned. rewrite Eo. exact G.
  - constructor; [rewrite Eo; exact Hn|constructor].
Qed.

Lemma wf_add_list : forall {E} (K : ekind E) (inj : E -> obj), (forall e, obj_tree (inj e) = ek_tree K e) ->
  forall s l m', wf s ->
  (exists new, gfacts (mst s) m' new (flat_map (eaddrs K) l) /\ Forall (good K) l) ->
  wf (mkState (pool s ++ map inj l) m') /\ pool_ok (map inj l).
Proof.
  intros E K inj Hinj s l m' W [new [G Q]]. split.
  - eapply wf_add; [exact W|]. rewrite flat_map_map.
    assert (Hf : flat_map (fun x => owned (inj x)) l = flat_map (eaddrs K) l).
    { clear - Hinj. induction l as [|e r IH]; [reflexivity|]. cbn [flat_map]. rewrite IH. unfold owned, eaddrs.
      rewrite Hinj. reflexivity. }
    rewrite Hf. exact G.
  - unfold pool_ok. rewrite Forall_forall in *. intros o Ho. apply in_map_iff in Ho. destruct Ho as [e [<- He]].
    rewrite Hinj. apply Q. exact He.
Qed.

Lemma wf_owned_nodup : forall s p1 o p2, wf s -> pool s = p1 ++ o :: p2 -> NoDup (owned o).
Proof.
  intros s p1 o p2 [_ (_ & _ & _ & _ & N & _)] E. rewrite E in N. rewrite flat_map_app in N. cbn [flat_map] in N.
  apply NoDup_app_r in N. apply NoDup_app_l in N. exact N.
Qed.

Lemma apply_rep_wf : forall {E} (K : ekind E) (inj : E -> obj), kind_ok K ->
  (forall e, obj_tree (inj e) = ek_tree K e) ->
  forall s i e e' cs m', wf s -> pool_ok (pool s) -> nth i (pool s) OGone = inj e -> inj e <> OGone ->
  apply_repetition K e (mst s) = Ok ((e', cs), m') ->
  wf (mkState (set_nth i (inj e') (pool s) ++ map inj cs) m') /\
  pool_ok (set_nth i (inj e') (pool s) ++ map inj cs).
Proof.
  intros E K inj KO Hinj s i e e' cs m' W PO Hn Hne R.
  assert (Li : (i < length (pool s))%nat).
  { destruct (Nat.lt_ge_cases i (length (pool s))) as [L|L]; [exact L|]. rewrite nth_overflow in Hn by exact L.
    symmetry in Hn. contradiction. }
  destruct (nth_set_split _ _ _ Hn Li) as [p1 [p2 [Ep Es]]].
  assert (Hg : good K e).
  { unfold good. rewrite <- Hinj, <- Hn. apply pool_ok_nth. exact PO. }
  destruct (apply_repetition_facts K KO _ _ _ _ _ R Hg) as [nc (L & Ev & T & Fz & Rg & N & P & Hge & Hgc)].
  assert (Hown : forall x, owned (inj x) = eaddrs K x) by (intro x; unfold owned, eaddrs; rewrite Hinj; reflexivity).
  assert (Hf : flat_map owned (map inj cs) = flat_map (eaddrs K) cs).
  { rewrite flat_map_map. clear - Hown. induction cs as [|c r IH]; [reflexivity|]. cbn [flat_map]. rewrite IH, Hown. reflexivity. }
  split.
  - rewrite Es, <- app_assoc. cbn [app].
    eapply (wf_replace s p1 (inj e) p2 m' _ (addrs (rep_tree (ek_rep K e))) (eaddrs K e') (inj e') (map inj cs)).
    + exact W.
    + exact Ep.
    + exact L.
    + exact Ev.
    + apply Forall_app. split.
      * rewrite Forall_forall. intros ev Hev. apply in_map_iff in Hev. destruct Hev as [a [<- Ha]]. right.
        cbn [wr_target]. rewrite Hown. eapply Permutation_in; [apply Permutation_sym; exact P|]. apply in_or_app. left. exact Ha.
      * eapply Forall_impl; [|exact T]. cbn. intros; left; assumption.
    + intros x Hx. rewrite freed_app, freed_frees, Fz, app_nil_r in Hx. exact Hx.
    + rewrite Hown. exact P.
    + rewrite Hown. intros x Hx. exact Hx.
    + rewrite Hown. pose proof (wf_owned_nodup _ _ _ _ W Ep) as Nd. rewrite Hown in Nd.
      apply (Permutation_NoDup P) in Nd. apply NoDup_app_r in Nd. exact Nd.
    + rewrite Hf. exact Rg.
    + rewrite Hf. exact N.
  - rewrite Es. apply pool_ok_app.
    + unfold pool_ok in *. rewrite Ep in PO. apply Forall_app in PO. destruct PO as [P1 P2]. inversion P2; subst.
      apply Forall_app. split; [exact P1|]. constructor; [rewrite Hinj; exact Hge|assumption].
    + unfold pool_ok. rewrite Forall_forall in *. intros o Ho. apply in_map_iff in Ho. destruct Ho as [c [<- Hc]].
      rewrite Hinj. apply Hgc. exact Hc.
Qed.

Lemma free_wf : forall s i l keep m' u, wf s -> pool_ok (pool s) ->
  frees l (mst s) = Ok (u, m') -> Permutation (owned (nth i (pool s) OGone)) (flat_map nz l ++ keep) ->
  wf (mkState (set_nth i OGone (pool s)) m') /\ pool_ok (set_nth i OGone (pool s)).
Proof.
  intros s i l keep m' u W PO R P. apply frees_facts in R. destruct R as [Nx Ev].
  destruct (Nat.lt_ge_cases i (length (pool s))) as [Li|Li].
  - destruct (nth_set_split _ _ _ eq_refl Li) as [p1 [p2 [Ep Es]]]. rewrite Es. split.
    + rewrite <- (app_nil_r p2).
      eapply (wf_replace s p1 _ p2 m' _ (flat_map nz l) keep OGone []).
      * exact W.
      * exact Ep.
      * lia.
      * exact Ev.
      * rewrite Forall_forall. intros ev Hev. apply in_map_iff in Hev. destruct Hev as [a [<- Ha]]. right.
        cbn [wr_target]. eapply Permutation_in; [apply Permutation_sym; exact P|]. apply in_or_app. left. exact Ha.
      * intros x Hx. rewrite freed_frees in Hx. exact Hx.
      * exact P.
      * intros x [].
      * constructor.
      * constructor.
      * constructor.
    + unfold pool_ok in *. rewrite Ep in PO. apply Forall_app in PO. destruct PO as [P1 P2]. inversion P2; subst.
      apply Forall_app. split; [exact P1|]. constructor; [reflexivity|assumption].
  - rewrite set_nth_out by lia. rewrite nth_overflow in P by exact Li. cbn [owned obj_tree addrs flat_map] in P.
    assert (Hl : flat_map nz l = []).
    { apply Permutation_nil in P. apply app_eq_nil in P. tauto. }
    rewrite Hl in Ev. cbn [map] in Ev. rewrite app_nil_r in Ev. split; [|exact PO].
    destruct W as [Hpos G]. split; cbn [mst pool]; [lia|]. rewrite Ev.
    destruct G as (L & E & T & Rg & N & F). unfold gfacts. rewrite Nx. repeat split; assumption.
Qed.

Lemma free_obj_perm : forall o, no_raw (obj_tree o) = true ->
  exists l, free_obj o = frees l /\ Permutation (owned o) (flat_map nz l ++ []).
Proof.
  intros o H. destruct o; cbn [free_obj]; [| | | | | | |exists []; split; [reflexivity|constructor]];
    eexists; (split; [reflexivity|]); rewrite app_nil_r; unfold owned; cbn [obj_tree] in *.
  - apply polygon_frees_perm.
  - apply flexpath_frees_perm.
  - rewrite addrs_no_raw by exact H. apply robustpath_frees_perm.
  - apply label_frees_perm.
  - apply reference_frees_perm.
  - rewrite addrs_no_raw by exact H. apply cell_free_all_perm.
  - rewrite addrs_no_raw by exact H. apply library_free_all_perm.
Qed.
Lemma clear_obj_perm : forall o, no_raw (obj_tree o) = true ->
  exists l keep, clear_obj o = frees l /\ Permutation (owned o) (flat_map nz l ++ keep).
Proof.
  intros o H. destruct o; try (destruct (free_obj_perm _ H) as [fl [E P]]; exists fl, []; split; [exact E|exact P]).
  - cbn [clear_obj]. eexists. eexists. split; [reflexivity|]. unfold owned. cbn [obj_tree]. apply cell_clear_perm.
  - cbn [clear_obj]. eexists. eexists. split; [reflexivity|]. unfold owned. cbn [obj_tree]. apply library_clear_perm.
Qed.

Lemma with_name_ctrl : forall c n, cell_ctrl_free (with_name c n) = cell_ctrl_free c.
Proof. reflexivity. Qed.

(* (d): every operation of the deep class preserves wf_heap (and the absence of Raw pointers) *)
Theorem step_wf : forall o s s', wf s -> pool_ok (pool s) -> deep_op o -> step o s = Ok s' ->
  wf s' /\ pool_ok (pool s').
Proof.
  intros o s s' W PO D R. unfold step in R.
  destruct (step_m o (pool s) (mst s)) as [[p m]| | | | |] eqn:Rm; try discriminate. inversion R; subst s'.
  cbn [pool mst].
  destruct o as [i|i nm deep|i deep|what i ar ip depth flt|i|i|i]; cbn [step_m] in Rm.
  - (* OpCopy *)
    pose proof (pool_ok_nth _ i PO) as Hnr.
    destruct (nth i (pool s) OGone) as [x|x|x|x|x|x|x|] eqn:Hn; try discriminate; mrun Rm; cbn [obj_tree] in Hnr.
    + apply polygon_commute in R0. destruct (wf_add_tree s _ _ _ (OPoly x0) W R0 Hnr eq_refl) as [W' P'].
      split; [exact W'|apply pool_ok_app; assumption].
    + apply flexpath_commute in R0. destruct (wf_add_tree s _ _ _ (OFlex x0) W R0 Hnr eq_refl) as [W' P'].
      split; [exact W'|apply pool_ok_app; assumption].
    + apply robustpath_commute in R0. destruct (wf_add_tree s _ _ _ (ORobust x0) W R0 Hnr eq_refl) as [W' P'].
      split; [exact W'|apply pool_ok_app; assumption].
    + apply label_commute in R0. destruct (wf_add_tree s _ _ _ (OLabel x0) W R0 Hnr eq_refl) as [W' P'].
      split; [exact W'|apply pool_ok_app; assumption].
    + apply reference_commute in R0. destruct (wf_add_tree s _ _ _ (ORef x0) W R0 Hnr eq_refl) as [W' P'].
      split; [exact W'|apply pool_ok_app; assumption].
    + apply cell_commute in R0. destruct (wf_add_tree s _ _ _ (OCell x0) W R0 Hnr eq_refl) as [W' P'].
      split; [exact W'|apply pool_ok_app; assumption].
    + apply library_deep_commute in R0.
      assert (Hnr' : no_raw (library_tree (without_props x)) = true) by (rewrite nr_library in *; exact Hnr).
      destruct (wf_add_tree s _ _ _ (OLib x0) W R0 Hnr' eq_refl) as [W' P'].
      split; [exact W'|apply pool_ok_app; assumption].
  - (* OpCellCopy, deep *)
    destruct deep; [|destruct D].
    pose proof (pool_ok_nth _ i PO) as Hnr.
    destruct (nth i (pool s) OGone) as [x|x|x|x|x|x|x|] eqn:Hn; try discriminate; mrun Rm; cbn [obj_tree] in Hnr.
    apply cell_deep_commute in R0.
    assert (Hnr' : no_raw (cell_tree (with_name x (if nm =? 0 then c_name x else nm))) = true).
    { rewrite nr_cell in *. rewrite with_name_ctrl. exact Hnr. }
    destruct (wf_add_tree s _ _ _ (OCell x0) W R0 Hnr' eq_refl) as [W' P'].
    split; [exact W'|apply pool_ok_app; assumption].
  - (* OpLibCopy, deep *)
    destruct deep; [|destruct D].
    pose proof (pool_ok_nth _ i PO) as Hnr.
    destruct (nth i (pool s) OGone) as [x|x|x|x|x|x|x|] eqn:Hn; try discriminate; mrun Rm; cbn [obj_tree] in Hnr.
    apply library_deep_commute in R0.
    assert (Hnr' : no_raw (library_tree (without_props x)) = true) by (rewrite nr_library in *; exact Hnr).
    destruct (wf_add_tree s _ _ _ (OLib x0) W R0 Hnr' eq_refl) as [W' P'].
    split; [exact W'|apply pool_ok_app; assumption].
  - (* OpGet *)
    destruct (nth i (pool s) OGone) as [x|x|x|x|x|c|x|] eqn:Hn; try discriminate.
    assert (Hc : In c (env_of (pool s))).
    { apply env_in. destruct (nth_in_or_gone (pool s) i) as [H|H]; rewrite Hn in H; [discriminate|exact H]. }
    destruct (what =? 0); [|destruct (what =? 1); [|destruct (what =? 2)]]; mrun Rm.
    + destruct (wf_add_list polygon_kind OPoly (fun _ => eq_refl) s x m W
                  (get_polygons_fresh _ _ _ _ _ _ _ Hc _ _ _ R0)) as [W' P'].
      split; [exact W'|apply pool_ok_app; assumption].
    + destruct (wf_add_list flexpath_kind OFlex (fun _ => eq_refl) s x m W
                  (get_flexpaths_fresh _ _ _ _ _ _ Hc _ _ _ R0)) as [W' P'].
      split; [exact W'|apply pool_ok_app; assumption].
    + destruct (wf_add_list robustpath_kind ORobust (fun _ => eq_refl) s x m W
                  (get_robustpaths_fresh _ _ _ _ _ _ Hc (env_ctrl_free _ PO) _ _ _ R0)) as [W' P'].
      split; [exact W'|apply pool_ok_app; assumption].
    + destruct (wf_add_list label_kind OLabel (fun _ => eq_refl) s x m W
                  (get_labels_fresh _ _ _ _ _ _ Hc _ _ _ R0)) as [W' P'].
      split; [exact W'|apply pool_ok_app; assumption].
  - (* OpApplyRep *)
    destruct (nth i (pool s) OGone) as [x|x|x|x|x|x|x|] eqn:Hn; try discriminate; mrun Rm; destruct x0 as [e' cs];
      cbn [fst snd].
    + apply (apply_rep_wf polygon_kind OPoly polygon_kind_ok (fun _ => eq_refl) s i x e' cs m W PO Hn); [discriminate|exact R0].
    + apply (apply_rep_wf flexpath_kind OFlex flexpath_kind_ok (fun _ => eq_refl) s i x e' cs m W PO Hn); [discriminate|exact R0].
    + apply (apply_rep_wf robustpath_kind ORobust robustpath_kind_ok (fun _ => eq_refl) s i x e' cs m W PO Hn); [discriminate|exact R0].
    + apply (apply_rep_wf label_kind OLabel label_kind_ok (fun _ => eq_refl) s i x e' cs m W PO Hn); [discriminate|exact R0].
    + apply (apply_rep_wf reference_kind ORef reference_kind_ok (fun _ => eq_refl) s i x e' cs m W PO Hn); [discriminate|exact R0].
  - (* OpFree *)
    mrun Rm. destruct (free_obj_perm _ (pool_ok_nth _ i PO)) as [l [El P]]. rewrite El in R0.
    apply (free_wf s i l [] m x W PO R0 P).
  - (* OpClear *)
    mrun Rm. destruct (clear_obj_perm _ (pool_ok_nth _ i PO)) as [l [keep [El P]]]. rewrite El in R0.
    apply (free_wf s i l keep m x W PO R0 P).
Qed.

Theorem run_wf : forall ops s s', wf s -> pool_ok (pool s) -> Forall deep_op ops -> run ops s = Ok s' ->
  wf s' /\ pool_ok (pool s').
Proof.
  induction ops as [|o r IH]; intros s s' W PO D R; cbn [run] in R.
  - inversion R; subst. auto.
  - inversion D; subst. destruct (step o s) as [s1| | | | |] eqn:Hs; try discriminate.
    destruct (step_wf _ _ _ W PO H1 Hs) as [W1 P1]. exact (IH _ _ W1 P1 H2 R).
Qed.

(* what wf says, spelled out *)
Theorem wf_no_double_owner : forall s, wf s ->
  NoDup (flat_map owned (pool s)) /\
  Forall (fun a => 0 <= a < nxt (mst s)) (flat_map owned (pool s)) /\
  Forall (fun a => ~ In a (freed (evs (mst s)))) (flat_map owned (pool s)).
Proof.
  intros s [_ (_ & _ & _ & R & N & F)]. split; [exact N|]. split; [|exact F].
  eapply Forall_impl; [|exact R]. cbn. unfold in_rng. intros; lia.
Qed.

(* ------------------------------------------------------------------------------------------------ *)
(* Non-owning pointers are copied by value: the copy designates the same cells / raw cells / user data *)

Fixpoint exts (t : otree) : list addr :=
  match t with
  | Buf _ _ _ _ k => flat_map exts k
  | Grp _ k => flat_map exts k
  | Ext a => [a]
  | Raw t' => exts t'
  end.

Theorem tcopy_exts : forall t s t' s', tcopy t s = Ok (t', s') -> exts t' = exts t.
Proof.
  induction t as [a k cap m kids IH|m kids IH|a|t IH] using otree_ind'; intros s t' s' R; cbn [tcopy] in R.
  - assert (K : forall s1 kids' s2, mapM tcopy kids s1 = Ok (kids', s2) -> flat_map exts kids' = flat_map exts kids).
    { intros s1 kids' s2 RK. apply flat_map_Forall2. eapply mapM_Forall2; [|exact RK].
      eapply Forall_impl; [|exact IH]. intros z Hz q1 y q2 Q. apply (Hz _ _ _ Q). }
    destruct k as [n|n| | | |n]; try destruct n; try destruct (a =? 0); try discriminate; mrun R;
      cbn [exts]; eapply K; eassumption.
  - mrun R. cbn [exts]. apply flat_map_Forall2. eapply mapM_Forall2; [|exact R0].
    eapply Forall_impl; [|exact IH]. intros z Hz q1 y q2 Q. apply (Hz _ _ _ Q).
  - apply ret_ok in R. destruct R; subst. reflexivity.
  - apply ret_ok in R. destruct R; subst. reflexivity.
Qed.

(* Library::copy_from(deep): the references of the copied cells designate the SAME cells as those of the
   source - cells of the source library (recorded for C16 as Library::copy_from:deep-copy-shares-targets);
   the raw cells are the same objects; the properties of the library are not copied *)
Theorem library_deep_copy_targets : forall l s l' s', library_new_copy l true s = Ok (l', s') ->
  exts (library_tree l') = exts (library_tree (without_props l)) /\ l_rawcells l' = l_rawcells l /\ l_props l' = [].
Proof.
  intros l s l' s' R. split; [apply library_deep_commute in R; eapply tcopy_exts; exact R|].
  unfold library_new_copy, library_copy_from in R. mrun_all. auto.
Qed.

Theorem cell_deep_copy_targets : forall c nm s c' s', cell_new_copy c nm true s = Ok (c', s') ->
  exts (cell_tree c') = exts (cell_tree (with_name c (if nm =? 0 then c_name c else nm))).
Proof. intros c nm s c' s' R. apply cell_deep_commute in R. eapply tcopy_exts. exact R. Qed.

(* ------------------------------------------------------------------------------------------------ *)
(* Shallow copies: what is new and what is shared, by design                                          *)

Lemma string_gen : forall a s a' s', copy_string a s = Ok (a', s') -> exists new, gfacts s s' new (nz a').
Proof.
  intros a s a' s' R. apply string_commute in R. destruct (tcopy_gen _ _ _ _ R) as [new G]. exists new.
  unfold str_tree in G. cbn [addrs_nr flat_map] in G. rewrite app_nil_r in G. exact G.
Qed.
Lemma array_gen_nz : forall a s a' s', array_copy_from a s = Ok (a', s') -> exists new, gfacts s s' new (nz (a_items a')).
Proof.
  intros a s a' s' R. destruct (array_gen _ _ _ _ R) as [new G]. exists new. unfold arr_tree in G.
  cbn [addrs flat_map] in G. rewrite app_nil_r in G. exact G.
Qed.

Definition cell_own_addrs (c : cell) : list addr :=
  nz (c_self c) ++ nz (c_name c) ++ addrs (props_tree (c_props c)) ++ nz (a_items (c_polys c)) ++
  nz (a_items (c_refs c)) ++ nz (a_items (c_flex c)) ++ nz (a_items (c_robust c)) ++ nz (a_items (c_labs c)).

Lemma cell_owned_perm : forall c, Permutation (owned (OCell c)) (cell_own_addrs c ++ cell_elems_addrs c).
Proof.
  intro c. unfold owned, cell_own_addrs, cell_elems_addrs. cbn [obj_tree]. unfold cell_tree, ptrs_tree, str_tree.
  cbn [addrs flat_map]. perm.
Qed.

(* Cell::copy_from(cell, new_name, deep_copy = false): the cell struct, its name, its properties and its five
   pointer arrays are new; the elements are the SAME objects as those of the source *)
Theorem cell_shallow_copy : forall c nm s c' s', cell_new_copy c nm false s = Ok (c', s') ->
  (exists new, gfacts s s' new (cell_own_addrs c')) /\
  c_polygons c' = c_polygons c /\ c_references c' = c_references c /\ c_flexpaths c' = c_flexpaths c /\
  c_robustpaths c' = c_robustpaths c /\ c_labels c' = c_labels c /\
  cell_elems_addrs c' = cell_elems_addrs c.
Proof.
  intros c nm s c' s' R. unfold cell_new_copy, cell_copy_from in R. mrun_all. self_copy.
  repeat split; try reflexivity.
  match goal with H : alloc_copy _ _ _ = Ok _ |- _ => apply alloc_copy_facts in H; destruct H as [G0 _] end.
  match goal with H : copy_string _ _ = Ok _ |- _ => apply string_gen in H; destruct H as [n1 G1] end.
  match goal with H : properties_copy _ _ = Ok _ |- _ => apply props_gen in H; destruct H as [n2 G2] end.
  repeat match goal with H : array_copy_from _ _ = Ok _ |- _ =>
           let n := fresh "n" in let G := fresh "G" in apply array_gen_nz in H; destruct H as [n G] end.
  chain_facts. eexists. eapply gfacts_perm; [eassumption|].
  unfold cell_own_addrs.
  cbn [c_self c_name c_props c_polys c_refs c_flex c_robust c_labs]. perm.
Qed.

(* the buffers a shallow copy and its source both own: exactly those of the elements *)
Theorem cell_shallow_shared : forall c nm s c' s', cell_new_copy c nm false s = Ok (c', s') ->
  Forall (fun a => a < nxt s) (owned (OCell c)) ->
  forall a, (In a (owned (OCell c')) /\ In a (owned (OCell c))) <-> In a (cell_elems_addrs c).
Proof.
  intros c nm s c' s' R Hb a. destruct (cell_shallow_copy _ _ _ _ _ R) as ([new G] & _ & _ & _ & _ & _ & He).
  pose proof (cell_owned_perm c) as P. pose proof (cell_owned_perm c') as P'. rewrite He in P'.
  destruct G as (_ & _ & _ & Rg & _). rewrite Forall_forall in *. split.
  - intros [H' H]. apply (Permutation_in _ P') in H'. apply in_app_or in H'. destruct H' as [H'|H']; [|exact H'].
    specialize (Rg _ H'). specialize (Hb _ H). unfold in_rng in Rg. lia.
  - intro H. split.
    + apply (Permutation_in _ (Permutation_sym P')). apply in_or_app. right. exact H.
    + apply (Permutation_in _ (Permutation_sym P)). apply in_or_app. right. exact H.
Qed.

Definition lib_own_addrs (l : library) : list addr :=
  nz (l_self l) ++ nz (l_name l) ++ nz (a_items (l_cells l)) ++ nz (a_items (l_raw l)).

(* Library::copy_from(library, deep_copy = false): the library struct, its name and its two pointer arrays
   are new; the cells and raw cells are the SAME objects; the properties are not copied *)
Theorem library_shallow_copy : forall l s l' s', library_new_copy l false s = Ok (l', s') ->
  (exists new, gfacts s s' new (lib_own_addrs l')) /\
  l_cellobjs l' = l_cellobjs l /\ l_rawcells l' = l_rawcells l /\ l_props l' = [].
Proof.
  intros l s l' s' R. unfold library_new_copy, library_copy_from in R. mrun_all. self_copy.
  repeat split; try reflexivity.
  match goal with H : alloc_copy _ _ _ = Ok _ |- _ => apply alloc_copy_facts in H; destruct H as [G0 _] end.
  match goal with H : copy_string _ _ = Ok _ |- _ => apply string_gen in H; destruct H as [n1 G1] end.
  repeat match goal with H : array_copy_from _ _ = Ok _ |- _ =>
           let n := fresh "n" in let G := fresh "G" in apply array_gen_nz in H; destruct H as [n G] end.
  chain_facts. eexists. eapply gfacts_perm; [eassumption|].
  unfold lib_own_addrs. cbn [l_self l_name l_cells l_raw fst snd]. perm.
Qed.

(* ------------------------------------------------------------------------------------------------ *)
(* A decision procedure for wf (used by the examples and the refutations)                              *)

Fixpoint nodupb (l : list addr) : bool :=
  match l with [] => true | x :: t => negb (mem x t) && nodupb t end.
Lemma nodupb_iff : forall l, nodupb l = true <-> NoDup l.
Proof.
  induction l as [|x t IH]; cbn [nodupb]; [split; [constructor|reflexivity]|].
  rewrite andb_true_iff, negb_true_iff, IH. split.
  - intros [H1 H2]. constructor; [|exact H2]. intro H. apply mem_In in H. congruence.
  - intro H. inversion H; subst. split; [|assumption]. destruct (mem x t) eqn:E; [|reflexivity].
    apply mem_In in E. contradiction.
Qed.

Definition wfb (s : state) : bool :=
  let own := flat_map owned (pool s) in
  let m := mst s in
  (0 <? nxt m) && forallb (fun e => wr_target e <? nxt m) (evs m) && forallb (fun a => a <? nxt m) own &&
  nodupb own && forallb (fun a => negb (mem a (freed (evs m)))) own.

Lemma wfb_iff : forall s, wfb s = true <-> wf s.
Proof.
  intro s. unfold wfb, wf, gfacts, st0. cbn [nxt evs app].
  rewrite !andb_true_iff, !forallb_forall, nodupb_iff, N.ltb_lt. split.
  - intros [[[[H1 H2] H3] H4] H5]. repeat split; try assumption; try lia.
    + rewrite Forall_forall. intros e He. specialize (H2 _ He). apply N.ltb_lt in H2. unfold in_rng. lia.
    + rewrite Forall_forall. intros a Ha. specialize (H3 _ Ha). apply N.ltb_lt in H3. unfold in_rng. lia.
    + rewrite Forall_forall. intros a Ha. specialize (H5 _ Ha). apply negb_true_iff in H5. intro Hin.
      apply mem_In in Hin. congruence.
  - intros [H1 (_ & _ & H2 & H3 & H4 & H5)]. rewrite Forall_forall in *. repeat split; try assumption.
    + intros e He. specialize (H2 _ He). apply N.ltb_lt. unfold in_rng in H2. lia.
    + intros a Ha. specialize (H3 _ Ha). apply N.ltb_lt. unfold in_rng in H3. lia.
    + intros a Ha. apply negb_true_iff. destruct (mem a (freed (evs (mst s)))) eqn:E; [|reflexivity].
      apply mem_In in E. exfalso. exact (H5 _ Ha E).
Qed.

Definition pool_okb (p : list obj) : bool := forallb (fun o => no_raw (obj_tree o)) p.
Lemma pool_okb_iff : forall p, pool_okb p = true <-> pool_ok p.
Proof. intro p. unfold pool_okb, pool_ok. rewrite forallb_forall, Forall_forall. tauto. Qed.

(* ------------------------------------------------------------------------------------------------ *)
(* Examples: the hypotheses are satisfiable on non-trivial inputs                                     *)

(* a polygon with 4 vertices (capacity 8), an explicit repetition of 2 offsets, two properties: one with an
   integer and a string value, one with a real value *)
Definition ex_props (b : addr) : list property :=
  [mkProp b (b + 1) [PVScalar (b + 2) 1; PVString (b + 3) 5 (b + 4)];
   mkProp (b + 5) (b + 6) [PVScalar (b + 7) 2]].
Definition ex_polygon : polygon :=
  mkPolygon 1 0x20005 (mkArr 8 4 2) (RExplicit (mkArr 2 2 3)) (ex_props 4) 0.
(* a two-element FlexPath, a RobustPath without general Bezier sections (one Parametric section and a
   Parametric width entry with user data 90 / 91), a label, a reference by cell pointer and one by name *)
Definition ex_flexpath : flexpath :=
  mkFlex 20 (mkArr 4 3 21) (ex_props 22) (RRect 2 3) 30 31
         [mkFE 0x10001 (mkArr 3 3 32) []; mkFE 0x10002 (mkArr 3 3 33) [92]] 0.
Definition ex_robustpath : robustpath :=
  mkRobust 40 [] (RExplicitX (mkArr 1 1 41)) (mkArr 4 2 42) [SPPlain 0; SPParam [90]] 43
           [mkRE 0x10001 (mkArr 2 2 44) [91] (mkArr 2 2 45) [] []] 0.
Definition ex_label : label := mkLabel 50 0x30000 51 (RRegular 2 2) [] 0.
Definition ex_child : cell :=
  mkCell 60 61 [] (mkArr 4 1 62) [mkPolygon 63 0x20005 (mkArr 4 4 64) (RRect 2 1) [] 0]
         arr0 [] arr0 [] arr0 [] arr0 [] 0.
Definition ex_cell : cell :=
  mkCell 70 71 (ex_props 72)
         (mkArr 4 1 80) [ex_polygon]
         (mkArr 4 2 81) [mkRef 82 (RTCell 60) (RExplicit (mkArr 1 1 83)) [] 0; mkRef 84 (RTName 85) RNone [] 0]
         (mkArr 4 1 86) [ex_flexpath]
         (mkArr 4 1 87) [ex_robustpath]
         (mkArr 4 1 88) [ex_label] 0.
Definition ex_state : state := mkState [OCell ex_child; OCell ex_cell] (mkSt 100 []).

Example ex_state_wf : wf ex_state /\ pool_ok (pool ex_state).
Proof. split; [apply wfb_iff|apply pool_okb_iff]; vm_compute; reflexivity. Qed.

Definition ex_ops : list op :=
  [OpCopy 1; OpCellCopy 1 0 true; OpGet 0 1 true true (-1)%Z None; OpGet 1 1 true false 1%Z (Some 0x10002);
   OpGet 2 2 false false 0%Z None; OpGet 3 1 true false (-1)%Z None; OpApplyRep 4; OpFree 2; OpClear 3].

Example ex_run : exists s', run ex_ops ex_state = Ok s' /\ Forall deep_op ex_ops /\ (length (pool s') > 20)%nat.
Proof.
  destruct (run ex_ops ex_state) as [s'| | | | |] eqn:E; vm_compute in E; try discriminate.
  exists s'. split; [reflexivity|]. split; [repeat constructor|]. inversion E. subst s'. vm_compute. lia.
Qed.

Example ex_run_wf : forall s', run ex_ops ex_state = Ok s' -> wf s'.
Proof.
  intros s' R. destruct ex_state_wf as [W P]. refine (proj1 (run_wf _ _ _ W P _ R)). repeat constructor.
Qed.

Example ex_polygon_copy :
  exists y s', polygon_new_copy ex_polygon (mkSt 100 []) = Ok (y, s') /\ nxt s' = 111 /\
               Forall (fun a => a < 100) (addrs (polygon_tree ex_polygon)) /\ no_raw (polygon_tree ex_polygon) = true.
Proof.
  destruct (polygon_new_copy ex_polygon (mkSt 100 [])) as [[y s']| | | | |] eqn:E; vm_compute in E; try discriminate.
  exists y, s'. split; [reflexivity|]. inversion E; subst. split; [reflexivity|]. split; [|reflexivity].
  vm_compute. repeat constructor.
Qed.

(* ------------------------------------------------------------------------------------------------ *)
(* What the faithful model REFUTES                                                                    *)

(* a RobustPath with one general Bezier section (RobustPath::bezier): ctrl array at address 3 *)
Definition bz_robustpath : robustpath :=
  mkRobust 1 [] RNone (mkArr 4 1 2) [SPBezier (mkArr 4 4 3)] 4 [mkRE 0x10001 (mkArr 4 1 5) [] (mkArr 4 1 6) [] []] 0.

(* (a) refuted for RobustPath::copy_from: the copy owns a buffer of its source *)
Theorem robustpath_copy_fresh_refuted_lemma :
  exists p s y s', robustpath_new_copy p s = Ok (y, s') /\ Forall (fun a => a < nxt s) (owned (ORobust p)) /\
    exists a, In a (owned (ORobust y)) /\ In a (owned (ORobust p)).
Proof.
  exists bz_robustpath, (mkSt 10 []).
  destruct (robustpath_new_copy bz_robustpath (mkSt 10 [])) as [[y s']| | | | |] eqn:E; vm_compute in E; try discriminate.
  exists y, s'. split; [reflexivity|]. split; [vm_compute; repeat constructor|].
  inversion E; subst. exists 3. split; vm_compute; tauto.
Qed.

(* (c) refuted: a store through a buffer of the copy changes what the source denotes *)
Theorem robustpath_copy_independent_refuted_lemma :
  exists p s y s' a l h, robustpath_new_copy p s = Ok (y, s') /\ In a (owned (ORobust y)) /\
    erase (store h a l) (robustpath_tree p) <> erase h (robustpath_tree p).
Proof.
  exists bz_robustpath, (mkSt 10 []).
  destruct (robustpath_new_copy bz_robustpath (mkSt 10 [])) as [[y s']| | | | |] eqn:E; vm_compute in E; try discriminate.
  exists y, s', 3, [7%Z], (fun _ => []). split; [reflexivity|]. inversion E; subst. split; [vm_compute; tauto|].
  vm_compute. discriminate.
Qed.

(* (d) refuted without the restriction: copying such a path breaks wf_heap *)
Theorem wf_preserved_refuted_lemma :
  exists s o s', wf s /\ deep_op o /\ step o s = Ok s' /\ ~ wf s'.
Proof.
  exists (mkState [ORobust bz_robustpath] (mkSt 10 [])), (OpCopy 0).
  destruct (step (OpCopy 0) (mkState [ORobust bz_robustpath] (mkSt 10 []))) as [s'| | | | |] eqn:E; vm_compute in E;
    try discriminate.
  exists s'. split; [apply wfb_iff; vm_compute; reflexivity|]. split; [exact I|]. split; [reflexivity|].
  inversion E; subst. intro W. apply wfb_iff in W. vm_compute in W. discriminate.
Qed.

(* RobustPath::clear never frees the control points: after clear + free the buffer is still allocated and no
   object owns it (a leak) *)
Theorem robustpath_clear_leaks_lemma :
  exists p, ~ incl (owned (ORobust p)) (flat_map nz (robustpath_frees p ++ [rp_self p])).
Proof. exists bz_robustpath. intro H. specialize (H 3). vm_compute in H. intuition discriminate. Qed.

(* a shallow copy shares owners by design: wf_heap does not survive it *)
Theorem shallow_copy_shares_owner_lemma :
  exists s s', wf s /\ step (OpCellCopy 1 0 false) s = Ok s' /\ ~ wf s'.
Proof.
  exists ex_state.
  destruct (step (OpCellCopy 1 0 false) ex_state) as [s'| | | | |] eqn:E; vm_compute in E; try discriminate.
  exists s'. split; [apply ex_state_wf|]. split; [reflexivity|]. inversion E; subst. intro W. apply wfb_iff in W.
  vm_compute in W. discriminate.
Qed.

(* what a run that owns `r` afterwards means for an older object u: the run did not change what u denotes, and
   a store through any buffer of r cannot change it either (nor a store through u's buffers what r holds) *)
Theorem gfacts_frame : forall s s' new r u, gfacts s s' new r -> Forall (fun a => a < nxt s) (addrs u) ->
  (forall w h, erase (replay w new h) u = erase h u) /\
  (forall a l h, In a r -> erase (store h a l) u = erase h u) /\
  (forall a, In a r -> ~ In a (addrs u)).
Proof.
  intros s s' new r u (L & E & T & R & N & F) Hu. split; [|split].
  - intros w h. apply erase_replay_frame. apply (events_fresh_frame (nxt s) (nxt s') new); [exact T|left; exact Hu].
  - intros a l h Ha. apply erase_store_frame. intro Hin. rewrite Forall_forall in *.
    specialize (R _ Ha). specialize (Hu _ Hin). unfold in_rng in R. lia.
  - intros a Ha Hin. rewrite Forall_forall in *. specialize (R _ Ha). specialize (Hu _ Hin). unfold in_rng in R. lia.
Qed.

(* ------------------------------------------------------------------------------------------------ *)
(* Main results under their final names                                                               *)

Definition array_is_deep_copy_lemma : commutes array_copy_from (arr_tree []) := array_commute [] (Forall_nil _).
Definition string_is_deep_copy_lemma := string_commute.
Definition repetition_is_deep_copy_lemma := repetition_commute.
Definition properties_is_deep_copy_lemma := props_commute.
Definition polygon_is_deep_copy_lemma := polygon_commute.
Definition flexpath_is_deep_copy_lemma := flexpath_commute.
Definition robustpath_is_deep_copy_lemma := robustpath_commute.
Definition label_is_deep_copy_lemma := label_commute.
Definition reference_is_deep_copy_lemma := reference_commute.
Definition cell_is_deep_copy_lemma := cell_deep_commute.
Definition library_is_deep_copy_lemma := library_deep_commute.

Definition deep_copy_fresh_lemma := @deep_copy_fresh.
Definition deep_copy_owned_fresh_lemma := @deep_copy_owned_fresh.
Definition deep_copy_shape_lemma := @deep_copy_shape.
Definition deep_copy_independent_lemma := @deep_copy_independent.
Definition deep_copy_shared_lemma := @deep_copy_shared.
Definition deep_copy_keeps_pointers_lemma := tcopy_exts.
Definition frame_store_lemma := erase_store_frame.
Definition run_frame_lemma := gfacts_frame.

(* the statements instantiated for Polygon::copy_from (C11: "one translated, otherwise identical copy") *)
Theorem polygon_copy_lemma : forall p s y s', polygon_new_copy p s = Ok (y, s') -> 0 < nxt s ->
  Forall (fun a => a < nxt s) (owned (OPoly p)) ->
  (Forall (in_rng (nxt s) (nxt s')) (owned (OPoly y)) /\ NoDup (owned (OPoly y))) /\
  (exists new, evs s' = evs s ++ new /\ Forall pure_ev new /\
     forall w h, erase (replay w new h) (polygon_tree y) = erase h (polygon_tree p) /\
                 erase (replay w new h) (polygon_tree p) = erase h (polygon_tree p)) /\
  (forall a l h, In a (owned (OPoly y)) -> erase (store h a l) (polygon_tree p) = erase h (polygon_tree p)) /\
  (forall a l h, In a (owned (OPoly p)) -> erase (store h a l) (polygon_tree y) = erase h (polygon_tree y)) /\
  pg_tag y = pg_tag p /\ a_cap (pg_points y) = a_cnt (pg_points y) /\ a_cnt (pg_points y) = a_cnt (pg_points p).
Proof.
  intros p s y s' R Hpos Hb. unfold owned in *. cbn [obj_tree] in *.
  split; [apply (deep_copy_owned_fresh _ _ polygon_commute _ _ _ _ R (nr_polygon p))|].
  split.
  - destruct (deep_copy_fresh _ _ polygon_commute _ _ _ _ R) as [new ((_ & E & _) & P & _)].
    destruct (deep_copy_shape _ _ polygon_commute _ _ _ _ R Hpos Hb) as [new' [E' H]].
    assert (new' = new) by (rewrite E in E'; apply app_inv_head in E'; auto). subst new'.
    exists new. split; [exact E|]. split; [exact P|]. intros w h. destruct (H w h) as [H1 H2]. split; [exact H1|].
    apply H2. exact Hb.
  - destruct (deep_copy_independent _ _ polygon_commute _ _ _ _ R (nr_polygon p) _ Hb) as [H1 H2].
    split; [exact H1|]. split; [exact H2|].
    unfold polygon_new_copy, polygon_copy_from, polygon_copy_fields in R. mrun_all. cbn [pg_tag pg_points fst snd].
    split; [reflexivity|].
    match goal with H : array_copy_from _ _ = Ok _ |- _ => unfold array_copy_from in H end.
    destruct (N.to_nat (a_cnt (pg_points p))) eqn:En.
    + match goal with H : ret _ _ = Ok _ |- _ => apply ret_ok in H; destruct H; subst end. cbn. split; [reflexivity|lia].
    + destruct (a_items (pg_points p) =? 0); [discriminate|]. mrun_all. cbn. auto.
Qed.

Definition apply_repetition_lemma := @apply_repetition_facts.
Definition polygon_kind_ok_lemma := polygon_kind_ok.
Definition flexpath_kind_ok_lemma := flexpath_kind_ok.
Definition robustpath_kind_ok_lemma := robustpath_kind_ok.
Definition label_kind_ok_lemma := label_kind_ok.
Definition reference_kind_ok_lemma := reference_kind_ok.

(* the four collectors, spelled out: every buffer of every returned element was allocated by the call (gfacts: in
   [nxt s, nxt s'), no buffer twice, none freed again; every write and free of the call targets such a buffer) *)
Theorem get_polygons_fresh_lemma : forall fuel env ar ip depth flt c, In c env ->
  forall s l s', get_polygons fuel env ar ip depth flt c s = Ok (l, s') ->
  exists new, gfacts s s' new (flat_map (fun p => owned (OPoly p)) l).
Proof.
  intros fuel env ar ip depth flt c Hc s l s' R.
  destruct (get_polygons_fresh fuel env ar ip depth flt c Hc _ _ _ R) as [new [G _]]. exists new. exact G.
Qed.
Theorem get_flexpaths_fresh_lemma : forall fuel env ar depth flt c, In c env ->
  forall s l s', get_flexpaths fuel env ar depth flt c s = Ok (l, s') ->
  exists new, gfacts s s' new (flat_map (fun p => owned (OFlex p)) l).
Proof.
  intros fuel env ar depth flt c Hc s l s' R.
  destruct (get_flexpaths_fresh fuel env ar depth flt c Hc _ _ _ R) as [new [G _]]. exists new. exact G.
Qed.
Theorem get_robustpaths_fresh_lemma : forall fuel env ar depth flt c, In c env ->
  (forall c', In c' env -> cell_ctrl_free c' = true) ->
  forall s l s', get_robustpaths fuel env ar depth flt c s = Ok (l, s') ->
  exists new, gfacts s s' new (flat_map (fun p => owned (ORobust p)) l).
Proof.
  intros fuel env ar depth flt c Hc Hcf s l s' R.
  destruct (get_robustpaths_fresh fuel env ar depth flt c Hc Hcf _ _ _ R) as [new [G _]]. exists new. exact G.
Qed.
Theorem get_labels_fresh_lemma : forall fuel env ar depth flt c, In c env ->
  forall s l s', get_labels fuel env ar depth flt c s = Ok (l, s') ->
  exists new, gfacts s s' new (flat_map (fun p => owned (OLabel p)) l).
Proof.
  intros fuel env ar depth flt c Hc s l s' R.
  destruct (get_labels_fresh fuel env ar depth flt c Hc _ _ _ R) as [new [G _]]. exists new. exact G.
Qed.

Definition step_wf_lemma := step_wf.
Definition run_wf_lemma := run_wf.
Definition wf_no_double_owner_lemma := wf_no_double_owner.
Definition wf_decidable_lemma := wfb_iff.

Definition cell_shallow_copy_lemma := cell_shallow_copy.
Definition cell_shallow_shared_lemma := cell_shallow_shared.
Definition library_shallow_copy_lemma := library_shallow_copy.
Definition library_deep_copy_targets_lemma := library_deep_copy_targets.
Definition cell_deep_copy_targets_lemma := cell_deep_copy_targets.

Definition polygon_clear_frees_lemma := polygon_frees_perm.
Definition flexpath_clear_frees_lemma := flexpath_frees_perm.
Definition robustpath_clear_frees_lemma := robustpath_frees_perm.
Definition label_clear_frees_lemma := label_frees_perm.
Definition reference_clear_frees_lemma := reference_frees_perm.
Definition cell_free_all_frees_lemma := cell_free_all_perm.
Definition library_free_all_frees_lemma := library_free_all_perm.
Definition cell_clear_frees_lemma := cell_clear_perm.
Definition library_clear_frees_lemma := library_clear_perm.
