(* C20 (part): the property lists of src/property.cpp answer set/get/remove exactly like an
   ordered multimap -- except remove_property(name, all_occurences = true) on a non-empty list all
   of whose entries are named `name`, where the function of the tree dereferences NULL.
   Main results (all for ALL inputs):
     remove_property_all_crash_refuted, remove_property_crash_iff_lemma,
     remove_property_fixed_lemma, remove_property_agrees_lemma, remove_property_never_hangs_lemma,
     get_property_lemma, set_property_lemma, get_gds_property_lemma, set_gds_property_lemma,
     remove_gds_property_lemma, properties_copy_lemma, properties_clear_lemma,
     proplist_refines_multimap_lemma, run_model_fixed_lemma, run_model_crash_iff_lemma,
     crash_reached_iff_lemma. *)
Require Import Base PropList.
Local Open Scope N_scope.

(* ------------------------------------------------------------------ names *)
Lemma bytes_eqb_eq a : forall b, bytes_eqb a b = true <-> a = b.
Proof.
  induction a as [|x a IH]; intros [|y b]; cbn [bytes_eqb]; try (split; [discriminate|discriminate]).
  - split; reflexivity.
  - rewrite andb_true_iff, N.eqb_eq, IH. split.
    + intros [-> ->]. reflexivity.
    + intros [= -> ->]. split; reflexivity.
Qed.

Lemma name_eqb_eq a b : name_eqb a b = true <-> a = b.
Proof. apply bytes_eqb_eq. Qed.

Lemma name_eqb_refl a : name_eqb a a = true.
Proof. apply name_eqb_eq. reflexivity. Qed.

(* ------------------------------------------------------------------ is_gds_property *)
Lemma is_gds_property_shape p :
  is_gds_property p = true <->
  name_eqb (fst p) gds_name = true /\ exists u s rest, snd p = VUInt u :: VStr s :: rest.
Proof.
  destruct p as [nm vs]. unfold is_gds_property. cbn [fst snd].
  destruct (name_eqb nm gds_name); cbn [negb].
  - destruct vs as [|[u|z|r|b] [|[u2|z2|r2|b2] rest]]; cbn [negb];
      (split; [try discriminate|intros [_ (u' & s' & rest' & H)]; try discriminate H]).
    + intros _. split; [reflexivity|]. exists u, b2, rest. reflexivity.
    + reflexivity.
  - split; [discriminate|]. intros [H _]. discriminate H.
Qed.

(* the model's test and the specification's predicate are the same function *)
Lemma gds_attr_is_spec p a : gds_attr_is p a = is_gds_attr a p.
Proof.
  destruct p as [nm vs]. unfold gds_attr_is, is_gds_property, is_gds_attr. cbn [fst snd].
  destruct (name_eqb nm gds_name); cbn [negb andb];
    destruct vs as [|[u|z|r|b] [|[u2|z2|r2|b2] rest]]; cbn [negb andb]; reflexivity.
Qed.

Lemma is_gds_attr_shape a e :
  is_gds_attr a e = true -> exists u s rest, snd e = VUInt u :: VStr s :: rest.
Proof.
  destruct e as [nm vs]. unfold is_gds_attr.
  destruct vs as [|[u|z|r|b] [|[u2|z2|r2|b2] rest]]; try discriminate.
  intros _. exists u, b2, rest. reflexivity.
Qed.

(* ------------------------------------------------------------------ copy / clear *)
Lemma property_values_copy_loop_ok values : forall result,
  property_values_copy_loop values result = result ++ values.
Proof.
  induction values as [|v tl IH]; intros result; cbn [property_values_copy_loop].
  - rewrite app_nil_r. reflexivity.
  - rewrite IH, <- app_assoc. destruct v; reflexivity.
Qed.

Lemma property_values_copy_lemma values : property_values_copy values = values.
Proof. unfold property_values_copy. rewrite property_values_copy_loop_ok. reflexivity. Qed.

Lemma properties_copy_loop_ok l : forall result, properties_copy_loop l result = result ++ l.
Proof.
  induction l as [|[nm vs] tl IH]; intros result; cbn [properties_copy_loop].
  - rewrite app_nil_r. reflexivity.
  - rewrite IH, <- app_assoc, property_values_copy_lemma. reflexivity.
Qed.

Lemma properties_copy_lemma l : properties_copy l = l.
Proof. unfold properties_copy. rewrite properties_copy_loop_ok. reflexivity. Qed.

Lemma properties_clear_lemma l : properties_clear l = [].
Proof. induction l as [|p tl IH]; cbn [properties_clear]; [reflexivity|exact IH]. Qed.

(* ------------------------------------------------------------------ get / set *)
Lemma get_property_lemma l n : get_property l n = spec_get l n.
Proof.
  unfold spec_get. induction l as [|p tl IH]; cbn [get_property find]; [reflexivity|].
  unfold has_name at 1. destruct (name_eqb (fst p) n); cbn [negb option_map]; [reflexivity|exact IH].
Qed.

Lemma add_to_first_ok l n v :
  add_to_first l n v =
  if existsb (has_name n) l
  then Some (update_first (has_name n) (fun e => (fst e, v :: snd e)) l) else None.
Proof.
  induction l as [|p tl IH]; cbn [add_to_first existsb update_first]; [reflexivity|].
  unfold has_name at 1 3. destruct (name_eqb (fst p) n); cbn [negb orb]; [reflexivity|].
  rewrite IH. destruct (existsb (has_name n) tl); reflexivity.
Qed.

Lemma set_property_lemma l n v create_new : set_property l n v create_new = spec_set l n v create_new.
Proof.
  unfold set_property, spec_set. destruct create_new; cbn [negb orb]; [reflexivity|].
  rewrite add_to_first_ok. destruct (existsb (has_name n) l); reflexivity.
Qed.

Lemma get_gds_property_lemma l a : get_gds_property l a = Ok (spec_get_gds l a).
Proof.
  unfold spec_get_gds. induction l as [|p tl IH]; cbn [get_gds_property find]; [reflexivity|].
  rewrite gds_attr_is_spec. destruct (is_gds_attr a p) eqn:E; cbn [negb option_map]; [|exact IH].
  destruct (is_gds_attr_shape _ _ E) as (u & s & rest & ->). reflexivity.
Qed.

Lemma set_gds_loop_ok l a bytes :
  set_gds_loop l a bytes =
  Ok (if existsb (is_gds_attr a) l
      then Some (update_first (is_gds_attr a)
                   (fun e => (fst e, match snd e with
                                     | u :: _ :: rest => u :: VStr bytes :: rest
                                     | vs => vs
                                     end)) l)
      else None).
Proof.
  induction l as [|p tl IH]; cbn [set_gds_loop existsb update_first]; [reflexivity|].
  rewrite gds_attr_is_spec. destruct (is_gds_attr a p) eqn:E; cbn [orb].
  - destruct (is_gds_attr_shape _ _ E) as (u & s & rest & ->). reflexivity.
  - rewrite IH. destruct (existsb (is_gds_attr a) tl); reflexivity.
Qed.

Lemma set_gds_property_lemma l a str : set_gds_property l a str = Ok (spec_set_gds l a str).
Proof.
  unfold set_gds_property, spec_set_gds. rewrite set_gds_loop_ok.
  destruct (existsb (is_gds_attr a) l); reflexivity.
Qed.

(* ------------------------------------------------------------------ the scanning loops *)
Fixpoint gscan (f : entry -> bool) (after done : plist) : plist * plist :=
  match after with
  | [] => (done, [])
  | q :: tl => if f q then (done, after) else gscan f tl (done ++ [q])
  end.

Lemma rp_scan_gscan after n : forall done, rp_scan after n done = gscan (has_name n) after done.
Proof.
  induction after as [|q tl IH]; intros done; cbn [rp_scan gscan]; [reflexivity|].
  unfold has_name at 1. destruct (name_eqb (fst q) n); cbn [negb]; [reflexivity|apply IH].
Qed.

Lemma rg_scan_gscan after a : forall done, rg_scan after a done = gscan (is_gds_attr a) after done.
Proof.
  induction after as [|q tl IH]; intros done; cbn [rg_scan gscan]; [reflexivity|].
  rewrite gds_attr_is_spec. destruct (is_gds_attr a q); cbn [negb]; [reflexivity|apply IH].
Qed.

Definition none_sat (f : entry -> bool) (l : plist) : Prop := forall e, In e l -> f e = false.

Lemma gscan_spec f after : forall done,
  exists sk r, gscan f after done = (done ++ sk, r) /\ after = sk ++ r /\ none_sat f sk /\
               match r with [] => True | q :: _ => f q = true end.
Proof.
  induction after as [|q tl IH]; intros done; cbn [gscan].
  - exists [], []. rewrite app_nil_r. repeat split. intros e [].
  - destruct (f q) eqn:E.
    + exists [], (q :: tl). rewrite app_nil_r. repeat split; [intros e []|exact E].
    + destruct (IH (done ++ [q])) as (sk & r & Hg & Ha & Hsk & Hr).
      exists (q :: sk), r. rewrite Hg, <- app_assoc. cbn [app]. repeat split.
      * rewrite Ha. reflexivity.
      * intros e [<-|He]; [exact E|apply Hsk; exact He].
      * exact Hr.
Qed.

Lemma none_sat_cons f q sk : none_sat f (q :: sk) -> f q = false /\ none_sat f sk.
Proof. intros H. split; [apply H; left; reflexivity|intros e He; apply H; right; exact He]. Qed.

Lemma filter_neg_skip f sk r : none_sat f sk ->
  filter (fun e => negb (f e)) (sk ++ r) = sk ++ filter (fun e => negb (f e)) r.
Proof.
  induction sk as [|q sk IH]; intros H; cbn [app filter]; [reflexivity|].
  destruct (none_sat_cons _ _ _ H) as [Hq Hs]. rewrite Hq. cbn [negb]. rewrite IH by exact Hs. reflexivity.
Qed.

Lemma filter_pos_skip f sk r : none_sat f sk -> filter f (sk ++ r) = filter f r.
Proof.
  induction sk as [|q sk IH]; intros H; cbn [app filter]; [reflexivity|].
  destruct (none_sat_cons _ _ _ H) as [Hq Hs]. rewrite Hq. apply IH. exact Hs.
Qed.

Lemma remove_first_skip f sk r : none_sat f sk -> remove_first f (sk ++ r) = sk ++ remove_first f r.
Proof.
  induction sk as [|q sk IH]; intros H; cbn [app remove_first]; [reflexivity|].
  destruct (none_sat_cons _ _ _ H) as [Hq Hs]. rewrite Hq, IH by exact Hs. reflexivity.
Qed.

Lemma existsb_skip f sk r : none_sat f sk -> existsb f (sk ++ r) = existsb f r.
Proof.
  induction sk as [|q sk IH]; intros H; cbn [app existsb]; [reflexivity|].
  destruct (none_sat_cons _ _ _ H) as [Hq Hs]. rewrite Hq. cbn [orb]. apply IH. exact Hs.
Qed.

(* ------------------------------------------------------------------ remove_gds_property *)
Lemma remove_gds_property_lemma l a : remove_gds_property l a = spec_remove_gds l a.
Proof.
  unfold spec_remove_gds. destruct l as [|p next]; cbn [remove_gds_property remove_first existsb]; [reflexivity|].
  rewrite gds_attr_is_spec. destruct (is_gds_attr a p) eqn:E; cbn [orb]; [reflexivity|].
  rewrite rg_scan_gscan.
  destruct (gscan_spec (is_gds_attr a) next [p]) as (sk & r & Hg & Ha & Hsk & Hr).
  rewrite Hg, Ha, remove_first_skip, existsb_skip by exact Hsk.
  destruct r as [|q rest]; cbn [remove_first existsb app].
  - rewrite app_nil_r. reflexivity.
  - rewrite Hr. reflexivity.
Qed.

(* ------------------------------------------------------------------ remove_property: loop L2 *)
Section Remove.
Variable n : name.
Let f := has_name n.

Lemma rp_second_all : forall fuel done after removed, (length after < fuel)%nat ->
  rp_second fuel done after n true removed =
  Ok (done ++ filter (fun e => negb (f e)) after, removed + N.of_nat (length (filter f after))).
Proof.
  induction fuel as [|fu IH]; intros done after removed Hl; [inversion Hl|].
  cbn [rp_second]. rewrite rp_scan_gscan. fold f.
  destruct (gscan_spec f after done) as (sk & r & Hg & Ha & Hsk & Hr).
  rewrite Hg, Ha, filter_neg_skip, filter_pos_skip by exact Hsk.
  destruct r as [|q rest]; cbn [negb filter].
  - rewrite app_nil_r. cbn [length N.of_nat]. rewrite N.add_0_r. reflexivity.
  - rewrite Hr. cbn [negb length].
    rewrite IH.
    + rewrite <- app_assoc, Nat2N.inj_succ. f_equal. f_equal. lia.
    + subst after. rewrite app_length in Hl. cbn [length] in Hl. lia.
Qed.

Lemma rp_second_one : forall fuel done after removed, fuel <> O ->
  rp_second fuel done after n false removed =
  Ok (done ++ remove_first f after, removed + if existsb f after then 1 else 0).
Proof.
  intros [|fu] done after removed Hf; [contradiction|].
  cbn [rp_second]. rewrite rp_scan_gscan. fold f.
  destruct (gscan_spec f after done) as (sk & r & Hg & Ha & Hsk & Hr).
  rewrite Hg, Ha, remove_first_skip, existsb_skip by exact Hsk.
  destruct r as [|q rest]; cbn [negb remove_first existsb].
  - rewrite app_nil_r, N.add_0_r. reflexivity.
  - rewrite Hr. cbn [orb]. rewrite <- app_assoc. reflexivity.
Qed.

Lemma forallb_filter_neg l : forallb f l = true -> filter (fun e => negb (f e)) l = [].
Proof.
  induction l as [|p tl IH]; cbn [forallb filter]; [reflexivity|].
  intros H. apply andb_true_iff in H. destruct H as [Hp Ht]. rewrite Hp. cbn [negb]. apply IH. exact Ht.
Qed.

Lemma forallb_filter_pos l : forallb f l = true -> filter f l = l.
Proof.
  induction l as [|p tl IH]; cbn [forallb filter]; [reflexivity|].
  intros H. apply andb_true_iff in H. destruct H as [Hp Ht]. rewrite Hp, IH by exact Ht. reflexivity.
Qed.

(* ------------------------------------------------------------------ remove_property: loop L1 *)
Lemma rp_first_all fixed : forall l fuel removed, (length l < fuel)%nat -> l <> [] ->
  rp_first fixed fuel l n true removed =
  if forallb f l
  then (if fixed then Ok ([], removed + N.of_nat (length l)) else Crash)
  else Ok (filter (fun e => negb (f e)) l, removed + N.of_nat (length (filter f l))).
Proof.
  induction l as [|p next IH]; intros fuel removed Hl Hne; [contradiction|].
  destruct fuel as [|fu]; [inversion Hl|]. cbn [length] in Hl.
  cbn [rp_first forallb filter]. change (f p) with (name_eqb (fst p) n).
  destruct (name_eqb (fst p) n) eqn:E; cbn [negb andb].
  - destruct next as [|p2 nx].
    + cbn [forallb length N.of_nat]. destruct fixed; cbn [andb].
      * reflexivity.
      * destruct fu as [|fu']; [cbn [length] in Hl; lia|]. reflexivity.
    + rewrite andb_false_r. rewrite IH; [|lia|discriminate].
      destruct (forallb f (p2 :: nx)).
      * destruct fixed; [|reflexivity]. cbn [length]. rewrite !Nat2N.inj_succ. f_equal. f_equal. lia.
      * cbn [length]. rewrite !Nat2N.inj_succ. f_equal. f_equal. lia.
  - unfold rp_second_entry. rewrite rp_second_all by lia. reflexivity.
Qed.

End Remove.

(* ------------------------------------------------------------------ remove_property: the whole function *)
Theorem remove_property_gen_char fixed l n all :
  remove_property_gen fixed l n all =
  if negb fixed && all && all_match l n then Crash else Ok (spec_remove l n all).
Proof.
  unfold remove_property_gen, spec_remove, all_match.
  destruct l as [|p next].
  - rewrite !andb_false_r. destruct all; reflexivity.
  - destruct all.
    + rewrite rp_first_all; [|lia|discriminate].
      destruct (forallb (has_name n) (p :: next)) eqn:E.
      * destruct fixed; cbn [negb andb]; [|reflexivity].
        rewrite forallb_filter_neg, forallb_filter_pos by exact E. reflexivity.
      * rewrite !andb_false_r. reflexivity.
    + rewrite andb_false_r. cbn [andb rp_first length]. cbn [remove_first existsb].
      change (has_name n p) with (name_eqb (fst p) n).
      destruct (name_eqb (fst p) n); cbn [negb orb]; [reflexivity|].
      unfold rp_second_entry. rewrite rp_second_one by discriminate. reflexivity.
Qed.

Lemma all_match_iff l n :
  all_match l n = true <-> l <> [] /\ forall e, In e l -> name_eqb (fst e) n = true.
Proof.
  unfold all_match. destruct l as [|p tl].
  - split; [discriminate|]. intros [H _]. contradiction.
  - rewrite forallb_forall. unfold has_name. split.
    + intros H. split; [discriminate|exact H].
    + intros [_ H]. exact H.
Qed.

(* the defect, with its witness: remove_property(p, "a", true) on the single property "a" *)
Theorem remove_property_all_crash_refuted : exists l n, remove_property l n true = Crash.
Proof. exists [([97], [VUInt 1])], [97]. vm_compute. reflexivity. Qed.

(* exactly when the function of the tree dereferences NULL *)
Theorem remove_property_crash_iff_lemma : forall l n all,
  remove_property l n all = Crash <->
  (all = true /\ l <> [] /\ forall e, In e l -> name_eqb (fst e) n = true).
Proof.
  intros l n all. unfold remove_property. rewrite remove_property_gen_char. cbn [negb andb].
  rewrite <- all_match_iff. destruct all; cbn [andb].
  - destruct (all_match l n); split; try reflexivity; try discriminate.
    + intros _. split; reflexivity.
    + intros [_ H]. discriminate H.
  - split; [discriminate|]. intros [H _]. discriminate H.
Qed.

Theorem remove_property_never_hangs_lemma : forall fixed l n all,
  remove_property_gen fixed l n all <> Hang.
Proof.
  intros fixed l n all. rewrite remove_property_gen_char.
  destruct (negb fixed && all && all_match l n); discriminate.
Qed.

(* positive specification of the repaired function *)
Theorem remove_property_fixed_lemma : forall l n all,
  remove_property_fixed l n all = Ok (spec_remove l n all).
Proof. intros l n all. unfold remove_property_fixed. rewrite remove_property_gen_char. reflexivity. Qed.

(* whenever the function of the tree does not crash it agrees with the specification *)
Theorem remove_property_agrees_lemma : forall l n all,
  remove_property l n all <> Crash -> remove_property l n all = Ok (spec_remove l n all).
Proof.
  intros l n all. unfold remove_property. rewrite remove_property_gen_char.
  destruct (negb false && all && all_match l n); [intros H; contradiction H; reflexivity|reflexivity].
Qed.

Corollary remove_property_first_only_lemma : forall l n,
  remove_property l n false = Ok (spec_remove l n false).
Proof.
  intros l n. apply remove_property_agrees_lemma. intros H.
  apply remove_property_crash_iff_lemma in H. destruct H as [H _]. discriminate H.
Qed.

(* ------------------------------------------------------------------ histories *)
Definition crash_op (o : op) (l : plist) : bool :=
  match o with ORemove n true => all_match l n | _ => false end.

Lemma step_model_char fixed o l :
  step_model fixed o l = if negb fixed && crash_op o l then Crash else Ok (step_spec o l).
Proof.
  destruct o as [n v cn|a s|n|a|n all|a| |]; cbn [step_model step_spec crash_op];
    rewrite ?andb_false_r.
  - rewrite set_property_lemma. reflexivity.
  - rewrite set_gds_property_lemma. reflexivity.
  - rewrite get_property_lemma. reflexivity.
  - rewrite get_gds_property_lemma. reflexivity.
  - rewrite remove_property_gen_char. destruct all.
    + rewrite andb_true_r. destruct (negb fixed && all_match l n); reflexivity.
    + rewrite !andb_false_r. reflexivity.
  - rewrite remove_gds_property_lemma. reflexivity.
  - rewrite properties_copy_lemma. reflexivity.
  - rewrite properties_clear_lemma. reflexivity.
Qed.

Theorem run_model_char fixed ops : forall l,
  run_model fixed ops l = if negb fixed && crash_reached ops l then Crash else Ok (run_spec ops l).
Proof.
  induction ops as [|o tl IH]; intros l; cbn [run_model run_spec crash_reached].
  - rewrite andb_false_r. reflexivity.
  - rewrite step_model_char. fold (crash_op o l).
    destruct fixed; cbn [negb andb] in *.
    + cbn [obind]. rewrite IH. reflexivity.
    + destruct (crash_op o l); cbn [orb obind]; [reflexivity|].
      rewrite IH. destruct (crash_reached tl (fst (step_spec o l))); reflexivity.
Qed.

(* any sequence of operations on the model equals the same sequence on the ordered multimap,
   provided Crash is not reached *)
Theorem proplist_refines_multimap_lemma : forall ops l r,
  run_model false ops l = Ok r -> r = run_spec ops l.
Proof.
  intros ops l r. rewrite run_model_char. cbn [negb andb].
  destruct (crash_reached ops l); [discriminate|]. intros [= <-]. reflexivity.
Qed.

Theorem run_model_fixed_lemma : forall ops l, run_model true ops l = Ok (run_spec ops l).
Proof. intros ops l. rewrite run_model_char. reflexivity. Qed.

Theorem run_model_crash_iff_lemma : forall ops l,
  (run_model false ops l = Crash <-> crash_reached ops l = true) /\
  (run_model false ops l = Ok (run_spec ops l) <-> crash_reached ops l = false).
Proof.
  intros ops l. rewrite run_model_char. cbn [negb andb].
  destruct (crash_reached ops l); repeat split; try reflexivity; discriminate.
Qed.

Theorem run_model_total_lemma : forall fixed ops l,
  run_model fixed ops l = Crash \/ run_model fixed ops l = Ok (run_spec ops l).
Proof.
  intros fixed ops l. rewrite run_model_char.
  destruct (negb fixed && crash_reached ops l); [left|right]; reflexivity.
Qed.

(* crash_reached in words: the history has a prefix after which the (specification) state is
   non-empty with every name equal to n, followed by remove_property(n, true); and no earlier such
   point (so this is the first one) *)
Theorem crash_reached_iff_lemma : forall ops l,
  crash_reached ops l = true <->
  exists pre n post,
    ops = pre ++ ORemove n true :: post /\
    crash_reached pre l = false /\
    fst (run_spec pre l) <> [] /\
    forall e, In e (fst (run_spec pre l)) -> name_eqb (fst e) n = true.
Proof.
  intros ops. induction ops as [|o tl IH]; intros l.
  - cbn [crash_reached]. split; [discriminate|].
    intros (pre & n & post & H & _). destruct pre; discriminate H.
  - cbn [crash_reached]. fold (crash_op o l). split.
    + destruct (crash_op o l) eqn:Ec; cbn [orb].
      * intros _. destruct o as [n v cn|a s|n|a|n all|a| |]; try discriminate Ec.
        destruct all; [|discriminate Ec]. cbn [crash_op] in Ec.
        apply all_match_iff in Ec. exists [], n, tl. cbn [app run_spec fst crash_reached].
        split; [reflexivity|]. split; [reflexivity|exact Ec].
      * intros H. apply IH in H. destruct H as (pre & n & post & -> & Hc & Hs).
        exists (o :: pre), n, post. split; [reflexivity|].
        cbn [crash_reached run_spec fst]. fold (crash_op o l). rewrite Ec, Hc.
        split; [reflexivity|exact Hs].
    + intros (pre & n & post & Ho & Hc & Hs). destruct pre as [|o' pre].
      * cbn [app] in Ho. injection Ho as Ho1 Ho2. subst o tl. cbn [run_spec fst] in Hs.
        apply all_match_iff in Hs. cbn [crash_op]. rewrite Hs. reflexivity.
      * cbn [app] in Ho. injection Ho as Ho1 Ho2. subst o' tl.
        cbn [crash_reached] in Hc. fold (crash_op o l) in Hc.
        apply orb_false_iff in Hc. destruct Hc as [Hc1 Hc2]. rewrite Hc1. cbn [orb].
        apply IH. exists pre, n, post. split; [reflexivity|]. split; [exact Hc2|].
        cbn [run_spec fst] in Hs. exact Hs.
Qed.

(* ------------------------------------------------------------------ the specification is what it says *)
(* first / last / only / middle entry, in terms of a split of the list *)
Lemma spec_remove_first_split pre e post n :
  (forall x, In x pre -> name_eqb (fst x) n = false) -> name_eqb (fst e) n = true ->
  spec_remove (pre ++ e :: post) n false = (pre ++ post, 1).
Proof.
  intros Hpre He. unfold spec_remove.
  rewrite remove_first_skip, existsb_skip by exact Hpre.
  cbn [remove_first existsb]. change (has_name n e) with (name_eqb (fst e) n). rewrite He. reflexivity.
Qed.

Lemma spec_remove_absent l n all :
  (forall x, In x l -> name_eqb (fst x) n = false) -> spec_remove l n all = (l, 0).
Proof.
  intros H. unfold spec_remove.
  rewrite <- (app_nil_r l), filter_neg_skip, filter_pos_skip, remove_first_skip, existsb_skip by exact H.
  destruct all; reflexivity.
Qed.

Lemma spec_get_split pre e post n :
  (forall x, In x pre -> name_eqb (fst x) n = false) -> name_eqb (fst e) n = true ->
  spec_get (pre ++ e :: post) n = Some (snd e).
Proof.
  intros Hpre He. unfold spec_get. induction pre as [|q pre IH]; cbn [app find].
  - change (has_name n e) with (name_eqb (fst e) n). rewrite He. reflexivity.
  - change (has_name n q) with (name_eqb (fst q) n). rewrite (Hpre q) by (left; reflexivity).
    apply IH. intros x Hx. apply Hpre. right. exact Hx.
Qed.

(* the hypotheses of the crash characterisation are satisfiable, and so are those of the
   refinement theorem (a history on which the tree's function does not crash) *)
Example crash_hypotheses_satisfiable :
  let l := [([97], [VUInt 1]); ([97], [VStr [120]])] in
  (true = true /\ l <> [] /\ forall e, In e l -> name_eqb (fst e) [97] = true) /\
  run_model false [OSet [97] (VUInt 1) true; OSet [98] (VInt (-2)) true; ORemove [97] true; OGet [98]] []
  = Ok ([([98], [VInt (-2)])], [RCount 1; RGet (Some [VInt (-2)])]).
Proof.
  split.
  - split; [reflexivity|]. split; [discriminate|].
    intros e [<-|[<-|[]]]; reflexivity.
  - vm_compute. reflexivity.
Qed.

Print Assumptions remove_property_all_crash_refuted.
Print Assumptions remove_property_crash_iff_lemma.
Print Assumptions remove_property_never_hangs_lemma.
Print Assumptions remove_property_fixed_lemma.
Print Assumptions remove_property_agrees_lemma.
Print Assumptions get_property_lemma.
Print Assumptions set_property_lemma.
Print Assumptions get_gds_property_lemma.
Print Assumptions set_gds_property_lemma.
Print Assumptions remove_gds_property_lemma.
Print Assumptions properties_copy_lemma.
Print Assumptions properties_clear_lemma.
Print Assumptions proplist_refines_multimap_lemma.
Print Assumptions run_model_fixed_lemma.
Print Assumptions run_model_crash_iff_lemma.
Print Assumptions crash_reached_iff_lemma.
