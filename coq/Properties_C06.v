(* C06 - Flattening and hierarchy queries preserve the layout geometry.
   Theorem-only file: every proof is `exact <lemma>`; Print Assumptions under each.
   Model: Hierarchy.v (generic in the payload and its two actions), element maps from Affine.v. *)
From Coq Require Import QArith List ZArith NArith Permutation.
Require Import Affine AffineProofs Hierarchy HierarchyProofs.
Import ListNotations.

Section C06.
Variable payload : Type.
Variable apply : placement -> payload -> payload.
Variable shift : Vec2 -> payload -> payload.

(* depth argument >= 0: exactly that many levels of references *)
Theorem c06_depth_exact : forall (ev : env payload) ar flt d fuel c,
  (d < fuel)%nat ->
  cell_get payload apply shift fuel ev ar (Z.of_nat d) flt c = Some (cell_get_d payload apply shift d ev ar flt c).
Proof. exact (cell_get_depth_lemma payload apply shift). Qed.

(* depth argument < 0: to the bottom of an acyclic environment *)
Theorem c06_depth_unlimited : forall (ev : env payload) ar flt n fuel c depth,
  (depth < 0)%Z -> height_le payload ev n c -> (n < fuel)%nat ->
  cell_get payload apply shift fuel ev ar depth flt c = Some (cell_get_d payload apply shift n ev ar flt c).
Proof. exact (cell_get_unlimited_lemma payload apply shift). Qed.

(* repetitions applied: the result is the denotation cut at the depth, as a multiset *)
Theorem c06_depth_cut : forall (ev : env payload) d c,
  Permutation (map (@shape_of payload) (cell_get_d payload apply shift d ev true None c))
              (denote_d payload apply shift d ev c).
Proof. exact (depth_cut_lemma payload apply shift). Qed.

Theorem c06_get_applied_is_denote : forall (ev : env payload) n fuel c depth,
  (depth < 0)%Z -> height_le payload ev n c -> (n < fuel)%nat ->
  exists l, cell_get payload apply shift fuel ev true depth None c = Some l /\
            Forall (no_rep payload) l /\
            Permutation (map (@shape_of payload) l) (denote_d payload apply shift n ev c).
Proof. exact (get_applied_is_denote_lemma payload apply shift). Qed.

(* tag filter = filtering the unfiltered result *)
Theorem c06_filter_is_filter : forall (ev : env payload) ar t d c,
  cell_get_d payload apply shift d ev ar (Some t) c =
  filter (@tag_match payload (Some t)) (cell_get_d payload apply shift d ev ar None c).
Proof. exact (filter_is_filter_lemma payload apply shift). Qed.

(* flatten (repetitions applied) preserves the denotation and leaves no cell reference *)
Theorem c06_flatten_preserves_denote : forall (ev : env payload) n m c,
  height_le payload ev (S n) c ->
  Permutation (denote_d payload apply shift m ev (flatten_d payload apply shift n ev true c))
              (denote_d payload apply shift (S n) ev c).
Proof. exact (flatten_preserves_denote_lemma payload apply shift). Qed.

Theorem c06_flatten_no_cell_refs : forall (ev : env payload) n ar c,
  Forall (fun r => is_cell_ref payload ev r = false) (c_refs (flatten_d payload apply shift n ev ar c)).
Proof. exact (flatten_no_cell_refs_lemma payload apply shift). Qed.

Theorem c06_flatten_fuel : forall (ev : env payload) n fuel ar c,
  height_le payload ev (S n) c -> (n < fuel)%nat ->
  flatten_fuel payload apply shift fuel ev ar c = Some (flatten_d payload apply shift n ev ar c).
Proof. exact (flatten_fuel_lemma payload apply shift). Qed.
End C06.
Print Assumptions c06_depth_exact.
Print Assumptions c06_depth_unlimited.
Print Assumptions c06_depth_cut.
Print Assumptions c06_get_applied_is_denote.
Print Assumptions c06_filter_is_filter.
Print Assumptions c06_flatten_preserves_denote.
Print Assumptions c06_flatten_no_cell_refs.
Print Assumptions c06_flatten_fuel.

(* two levels of references = the product of the two matrices, one shape per pair of offsets *)
Theorem c06_compose_by_hand : forall P1 rep1 P2 rep2 pts tag,
  let leaf := Cell [El pts tag None] [] in
  let mid := Cell [] [Ref 2%N P2 rep2] in
  let top := Cell [] [Ref 1%N P1 rep1] in
  let ev := [(0%N, top); (1%N, mid); (2%N, leaf)] in
  Forall2 (pshape_is tag pts)
          (denote_d polygon poly_apply poly_shift 2 ev top)
          (flat_map (fun T1 => map (fun T2 => aff_compose (placement_map T1) (placement_map T2))
                                   (ref_placements (Ref 2%N P2 rep2)))
                    (ref_placements (Ref 1%N P1 rep1))).
Proof. exact compose_by_hand_lemma. Qed.
Print Assumptions c06_compose_by_hand.

(* repetitions left attached: REFUTED (finding F8), for the query and for flatten *)
Theorem c06_get_unapplied_refuted :
  exists (ev : env polygon) c n l s,
    height_le polygon ev n c /\
    cell_get polygon poly_apply poly_shift (S n) ev false (-1) None c = Some l /\
    In s (denote_d polygon poly_apply poly_shift n ev c) /\
    forall s', In s' (expand polygon poly_shift l) -> ~ shape_eq s s'.
Proof. exact get_unapplied_refuted. Qed.
Print Assumptions c06_get_unapplied_refuted.

Theorem c06_flatten_unapplied_refuted :
  exists (ev : env polygon) c n s,
    height_le polygon ev (S n) c /\
    In s (denote_d polygon poly_apply poly_shift (S n) ev c) /\
    forall s', In s' (denote_d polygon poly_apply poly_shift 0 ev (flatten_d polygon poly_apply poly_shift n ev false c)) ->
               ~ shape_eq s s'.
Proof. exact flatten_unapplied_refuted. Qed.
Print Assumptions c06_flatten_unapplied_refuted.
