(* Model of the OASIS point-list codec of src/oasis.cpp:
     oasis_write_point_list(OasisStream&, Array<IntVec2>&, bool closed)
     oasis_read_point_list(OasisStream&, double scaling, bool closed, Array<Vec2>&)   (scaling = 1)
   Coordinates are in Z (the C++ has int64 on the writer side and doubles on the reader side; the
   theorems state the range in which both are exact).  Definitions only. *)
Require Import Base OasisInt.
Local Open Scope Z_scope.

Notation pt := (Z * Z)%type (only parsing).

(* `points[i] -= previous` : successive differences, the first point is the reference *)
Fixpoint deltas_from (prev : pt) (l : list pt) : list pt :=
  match l with
  | [] => []
  | p :: t => (fst p - fst prev, snd p - snd prev) :: deltas_from p t
  end.

(* v.x == v.y || v.x == -v.y *)
Definition is_diag (x y : Z) : bool := (x =? y) || (x =? - y).

(* ---- type selection: one iteration of `switch (list_type)` in the loop over the deltas.
   State = (list_type, prev_delta_is_horizontal); list_type uses the enum values
   ManhattanHorizontalFirst=0 ManhattanVerticalFirst=1 Manhattan=2 Octangular=3 General=4 Relative=5 *)
Definition sel_step (st : N * bool) (v : pt) : N * bool :=
  let '(ty, ph) := st in
  let '(x, y) := v in
  match ty with
  | 5%N => (* initial state *)
      if y =? 0 then (0%N, true)
      else if x =? 0 then (1%N, false)
      else if is_diag x y then (3%N, ph)
      else (4%N, ph)
  | 0%N | 1%N =>
      if y =? 0 then (if ph then (2%N, ph) else (ty, true))
      else if x =? 0 then (if negb ph then (2%N, ph) else (ty, false))
      else if is_diag x y then (3%N, ph)
      else (4%N, ph)
  | 2%N =>
      if negb (y =? 0) && negb (x =? 0) then (if is_diag x y then (3%N, ph) else (4%N, ph))
      else st
  | 3%N =>
      if negb (y =? 0) && negb (x =? 0) && negb (x =? y) && negb (x =? - y) then (4%N, ph) else st
  | _ => st
  end.

(* `if (closed) switch (list_type)` on last_delta = points[0] - points[count-1] *)
Definition sel_close (st : N * bool) (last_delta : pt) : N * bool :=
  let '(ty, ph) := st in
  let '(x, y) := last_delta in
  match ty with
  | 0%N | 1%N =>
      if y =? 0 then (if ph then (2%N, ph) else st)
      else if x =? 0 then (if negb ph then (2%N, ph) else st)
      else if is_diag x y then (3%N, ph)
      else (4%N, ph)
  | 2%N =>
      if negb (y =? 0) && negb (x =? 0) then (if is_diag x y then (3%N, ph) else (4%N, ph))
      else st
  | 3%N =>
      if negb (y =? 0) && negb (x =? 0) && negb (x =? y) && negb (x =? - y) then (4%N, ph) else st
  | _ => st
  end.

(* `count = points.count - 1`, then for implicit Manhattan closed lists `--count`, and the
   "count < 2 or odd => Manhattan with all deltas" fall back.  Result: final type and count. *)
Definition sel_count (closed : bool) (ty : N) (ndeltas : nat) : N * nat :=
  if ((ty =? 0) || (ty =? 1))%N && closed then
    let c := Nat.pred ndeltas in
    if (c <? 2)%nat || Nat.odd c then (2%N, ndeltas) else (ty, c)
  else (ty, ndeltas).

(* emission loops.  `oasis_write_1delta(out, prev_delta_is_horizontal ? delta->y : delta->x)` *)
Fixpoint emit_alt (prev_h : bool) (ds : list pt) : list N :=
  match ds with
  | [] => []
  | d :: t => enc_int (if prev_h then snd d else fst d) ++ emit_alt (negb prev_h) t
  end.
Definition emit_2 (ds : list pt) : list N := flat_map (fun d => enc_2delta (fst d) (snd d)) ds.
Definition emit_3 (ds : list pt) : list N := flat_map (fun d => enc_3delta (fst d) (snd d)) ds.
Definition emit_g (ds : list pt) : list N := flat_map (fun d => enc_gdelta (fst d) (snd d)) ds.

Definition closing_delta (p0 : pt) (tl : list pt) : pt :=
  let pl := last tl p0 in (fst p0 - fst pl, snd p0 - snd pl).

Definition sel_type (closed : bool) (p0 : pt) (tl : list pt) : N * nat :=
  let ds := deltas_from p0 tl in
  let st := fold_left sel_step ds (5%N, false) in
  let st := if closed then sel_close st (closing_delta p0 tl) else st in
  sel_count closed (fst st) (length ds).

(* the writer: `if (points.count < 1) return;` writes nothing for the empty array *)
Definition enc_point_list (closed : bool) (pts : list pt) : list N :=
  match pts with
  | [] => []
  | p0 :: tl =>
      let ds := deltas_from p0 tl in
      let '(ty, count) := sel_type closed p0 tl in
      let body := firstn count ds in
      match ty with
      | 0%N => 0%N :: enc_uint (N.of_nat count) ++ emit_alt false body
      | 1%N => 1%N :: enc_uint (N.of_nat count) ++ emit_alt true body
      | 2%N => 2%N :: enc_uint (N.of_nat count) ++ emit_2 body
      | 3%N => 3%N :: enc_uint (N.of_nat count) ++ emit_3 body
      | _ => 4%N :: enc_uint (N.of_nat count) ++ emit_g body
      end
  end.

(* ---- the reader.  The loops run `num` times; every delta consumes at least one byte, so
   [fuel] = number of bytes left bounds the iterations that can succeed (at fuel 0 the next read
   is a short read).  *)
Fixpoint dec_alt (fuel : nat) (num : N) (horizontal : bool) (ref : pt) (bs : list N)
  : outcome (list pt * bool * pt * list N) :=
  if (num =? 0)%N then Ok ([], horizontal, ref, bs)
  else match fuel with
  | O => ErrEof
  | S f =>
      obind (dec_int bs) (fun '(d, rest) =>
        let cur := if horizontal then (fst ref + d, snd ref) else (fst ref, snd ref + d) in
        obind (dec_alt f (num - 1)%N (negb horizontal) cur rest) (fun '(pts, h, r, rest') =>
          Ok (cur :: pts, h, r, rest')))
  end.

(* types 2, 3, 4: `*cur++ = Vec2{scaling * x, scaling * y} + *ref++` *)
Fixpoint dec_deltas (rd : list N -> outcome (Z * Z * list N)) (fuel : nat) (num : N) (ref : pt)
  (bs : list N) : outcome (list pt * list N) :=
  if (num =? 0)%N then Ok ([], bs)
  else match fuel with
  | O => ErrEof
  | S f =>
      obind (rd bs) (fun '(x, y, rest) =>
        let cur := (x + fst ref, y + snd ref) in
        obind (dec_deltas rd f (num - 1)%N cur rest) (fun '(pts, rest') => Ok (cur :: pts, rest')))
  end.

(* type 5: `delta += {x, y}; *cur++ = delta + *ref++` *)
Fixpoint dec_relative (fuel : nat) (num : N) (delta ref : pt) (bs : list N)
  : outcome (list pt * list N) :=
  if (num =? 0)%N then Ok ([], bs)
  else match fuel with
  | O => ErrEof
  | S f =>
      obind (dec_gdelta bs) (fun '(x, y, rest) =>
        let delta' := (fst delta + x, snd delta + y) in
        let cur := (fst delta' + fst ref, snd delta' + snd ref) in
        obind (dec_relative f (num - 1)%N delta' cur rest) (fun '(pts, rest') => Ok (cur :: pts, rest')))
  end.

(* [ref] is the last point already in `result`.  Returns the points appended to `result`. *)
Definition dec_point_list (closed : bool) (ref : pt) (bs : list N) : outcome (list pt * list N) :=
  match bs with
  | [] => ErrEof
  | ty :: bs1 =>
      obind (dec_uint bs1) (fun '(num, bs2) =>
        let fuel := length bs2 in
        match ty with
        | 0%N | 1%N =>
            obind (dec_alt fuel num (ty =? 0)%N ref bs2) (fun '(pts, horizontal, r, rest) =>
              if closed then
                Ok (pts ++ [if horizontal then (fst ref, snd r) else (fst r, snd ref)], rest)
              else Ok (pts, rest))
        | 2%N => dec_deltas dec_2delta fuel num ref bs2
        | 3%N => dec_deltas dec_3delta fuel num ref bs2
        | 4%N => dec_deltas dec_gdelta fuel num ref bs2
        | 5%N => dec_relative fuel num (0, 0) ref bs2
        | _ => ErrInvalid
        end)
  end.

(* ---- specification level: the legal encoding of a point list in a given type, when that type
   can express it.  [alt_b f ds]: the deltas alternate, starting vertical when f (x = 0) and
   horizontal otherwise (y = 0). *)
Fixpoint alt_b (f : bool) (ds : list pt) : bool :=
  match ds with
  | [] => true
  | d :: t => (if f then fst d =? 0 else snd d =? 0) && alt_b (negb f) t
  end.
Definition manh_b (d : pt) : bool := (fst d =? 0) || (snd d =? 0).
Definition oct_b (d : pt) : bool := (fst d =? 0) || (snd d =? 0) || (fst d =? snd d) || (fst d =? - snd d).

Definition spec_enc_plist (ty : N) (closed : bool) (pts : list pt) : option (list N) :=
  match pts with
  | [] => None
  | p0 :: tl =>
      let ds := deltas_from p0 tl in
      let n := N.of_nat (length ds) in
      match ty with
      | 0%N | 1%N =>
          let f0 := (ty =? 1)%N in
          if closed then
            (* the last vertex is implicit: both the last delta and the closing delta alternate *)
            match ds with
            | [] => None
            | _ => if alt_b f0 (ds ++ [closing_delta p0 tl])
                   then Some (ty :: enc_uint (N.of_nat (Nat.pred (length ds))) ++ emit_alt f0 (removelast ds))
                   else None
            end
          else if alt_b f0 ds then Some (ty :: enc_uint n ++ emit_alt f0 ds) else None
      | 2%N => if forallb manh_b ds then Some (2%N :: enc_uint n ++ emit_2 ds) else None
      | 3%N => if forallb oct_b ds then Some (3%N :: enc_uint n ++ emit_3 ds) else None
      | 4%N => Some (4%N :: enc_uint n ++ emit_g ds)
      | 5%N => Some (5%N :: enc_uint n ++ emit_g (deltas_from (0, 0) ds))
      | _ => None
      end
  end.

(* for a closed list the implicit closing delta must be of the type's kind as well *)
Definition closing_ok (ty : N) (p0 : pt) (tl : list pt) : bool :=
  match ty with
  | 2%N => manh_b (closing_delta p0 tl)
  | 3%N => oct_b (closing_delta p0 tl)
  | _ => true
  end.
