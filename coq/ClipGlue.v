(* ClipGlue.v -- Gallina models of the code gdstk adds around Clipper (src/clipper_tools.cpp,
   Polygon::fracture in src/polygon.cpp).  Clipper itself (Execute / ClipperOffset) is NOT modelled:
   where a statement needs it, it is a Section variable with its contract as a hypothesis
   (ClipGlueProofs.v, names ending in _partial).

   Data are vertex lists on the integer grid (the ClipperLib::Path contents after
   polygon_to_path's llround).  Modelling assumptions, stated once:
   * coordinates are small enough (|x| <= 2^30) that the double computations of link_holes
     (product, quotient, llround) and of Polygon::signed_area on grid inputs are exact up to the
     final correctly-rounded division, so the rational rounding below is what the C++ computes;
   * sort() is gdstk's introsort: for at most 16 holes it is the stable insertion sort modelled
     here (more holes with equal minimum points could be ordered differently). *)
From Coq Require Import List ZArith Bool Lia.
Import ListNotations.
Require Import Winding.
Open Scope Z_scope.

(* ------------------------------------------------------------------ polygon_to_path *)
(* `bool reverse = polygon.signed_area() < 0;` then the points are copied forwards or backwards.
   signed_area is the fan sum (WindingProofs.fan_area_shoelace_lemma: = shoelace2 / 2). *)
Definition normalise (p : polygon) : polygon := if shoelace2 p <? 0 then rev p else p.
Definition polygons_to_paths (ps : list polygon) : list polygon := map normalise ps.

(* ------------------------------------------------------------------ link_holes *)
Definition point_less (p q : point) : bool :=
  (fst p <? fst q) || ((fst p =? fst q) && (snd p <? snd q)).

Definition point_eqb (p q : point) : bool := (fst p =? fst q) && (snd p =? snd q).

(* the scan: for each point from begin to end, if point_less(point, min_point) then min_point = point *)
Fixpoint min_index_from (l : list point) (i : nat) (best : point) (besti : nat) : nat :=
  match l with
  | [] => besti
  | q :: t => if point_less q best then min_index_from t (S i) q i
              else min_index_from t (S i) best besti
  end.

Definition min_index (h : polygon) : nat :=
  match h with
  | [] => O
  | a :: t => min_index_from t 1%nat a O
  end.

Definition origin : point := (0, 0).
Definition min_point (h : polygon) : point := nth (min_index h) h origin.

(* insertion_sort of sort.hpp, on the reversed sorted prefix: the stored element moves left past
   every element it is strictly less than *)
Fixpoint ins_rev (x : polygon) (rl : list polygon) : list polygon :=
  match rl with
  | [] => [x]
  | y :: t => if point_less (min_point x) (min_point y) then y :: ins_rev x t else x :: rl
  end.

Definition sort_holes (hs : list polygon) : list polygon :=
  rev (fold_left (fun acc x => ins_rev x acc) hs []).

(* llround(num/den), den <> 0: round half away from zero *)
Definition round_div (num den : Z) : Z :=
  Z.sgn num * Z.sgn den * ((2 * Z.abs num + Z.abs den) / (2 * Z.abs den)).

Definition is_none {A} (o : option A) : bool := match o with None => true | Some _ => false end.

(* the loop `for (; p_next != p_end; p_prev = p_next++)` : i is the index of p_next *)
Fixpoint find_edge (hm prev : point) (l : list point) (i : nat) (xnew : Z) (closest : option nat)
  : Z * option nat :=
  match l with
  | [] => (xnew, closest)
  | nx :: t =>
      if ((snd nx <=? snd hm) && (snd hm <? snd prev)) || ((snd prev <? snd hm) && (snd hm <=? snd nx))
      then
        let x := fst nx + round_div ((fst prev - fst nx) * (snd hm - snd nx)) (snd prev - snd nx) in
        if ((xnew <? x) || is_none closest) && (x <=? fst hm)
        then find_edge hm nx t (S i) x (Some i)
        else find_edge hm nx t (S i) xnew closest
      else if ((snd nx =? snd hm) && (snd prev =? snd hm))
              && (((fst nx <=? fst hm) && (fst hm <=? fst prev)) || ((fst prev <=? fst hm) && (fst hm <=? fst nx)))
      then (fst hm, Some i)   (* break *)
      else find_edge hm nx t (S i) xnew closest
  end.

(* the three/four vector::insert calls *)
Definition splice (contour : polygon) (c : nat) (hole : polygon) (m : nat) (pnew : point) : polygon :=
  firstn c contour ++ [pnew] ++ skipn m hole ++ firstn (S m) hole
  ++ (if point_eqb pnew (nth c contour pnew) then [] else [pnew]) ++ skipn c contour.

(* vertex before index c on the closed contour *)
Definition prev_of (contour : polygon) (c : nat) : point :=
  match c with
  | O => last contour origin
  | S c' => nth c' contour origin
  end.

(* the sliver between the contour edge and the (rounded) bridge foot; empty list when the foot is
   the contour vertex itself *)
Definition foot_triangle (contour : polygon) (c : nat) (pnew : point) : polygon :=
  if point_eqb pnew (nth c contour pnew) then []
  else [prev_of contour c; pnew; nth c contour origin].

Record link_state := mk_link_state {
  ls_contour : polygon;        (* node->Contour so far *)
  ls_linked : list polygon;    (* holes spliced in *)
  ls_feet : list polygon;      (* foot slivers (for the winding theorem) *)
  ls_error : bool              (* error_code = BooleanError *)
}.

Definition link_one (s : link_state) (hole : polygon) : link_state :=
  let contour := ls_contour s in
  let m := min_index hole in
  let hm := nth m hole origin in
  match find_edge hm (last contour origin) contour O 0 None with
  | (_, None) => mk_link_state contour (ls_linked s) (ls_feet s) true
  | (xnew, Some c) =>
      let pnew := (xnew, snd hm) in
      mk_link_state (splice contour c hole m pnew) (hole :: ls_linked s)
                    (foot_triangle contour c pnew :: ls_feet s) (ls_error s)
  end.

Definition link_holes_state (contour : polygon) (holes : list polygon) : link_state :=
  fold_left link_one (sort_holes holes) (mk_link_state contour [] [] false).

Definition link_holes (contour : polygon) (holes : list polygon) : polygon * bool :=
  let s := link_holes_state contour holes in (ls_contour s, ls_error s).

(* ------------------------------------------------------------------ tree_to_polygons *)
(* PolyTree: a node's children are holes of it, their children are islands, and so on.  GetFirst /
   GetNext walk all nodes; every non-hole node is output with its direct holes linked. *)
Inductive ptree := PNode : polygon -> list ptree -> ptree.
Definition pt_contour (t : ptree) : polygon := match t with PNode c _ => c end.
Definition pt_children (t : ptree) : list ptree := match t with PNode _ ch => ch end.

Fixpoint node_outputs (is_hole : bool) (t : ptree) : list polygon :=
  match t with
  | PNode c ch =>
      (if is_hole then []
       else [match ch with [] => c | _ => fst (link_holes c (map pt_contour ch)) end])
      ++ (fix go (l : list ptree) : list polygon :=
            match l with
            | [] => []
            | x :: r => node_outputs (negb is_hole) x ++ go r
            end) ch
  end.

Definition tree_to_polygons (top : list ptree) : list polygon :=
  flat_map (node_outputs false) top.

(* the same traversal, returning the (contour, direct holes) of every non-hole node *)
Fixpoint outer_nodes (is_hole : bool) (t : ptree) : list (polygon * list polygon) :=
  match t with
  | PNode c ch =>
      (if is_hole then [] else [(c, map pt_contour ch)])
      ++ (fix go (l : list ptree) : list (polygon * list polygon) :=
            match l with
            | [] => []
            | x :: r => outer_nodes (negb is_hole) x ++ go r
            end) ch
  end.

(* `if (node->ChildCount() > 0) link_holes(node, error_code);` then the contour is output *)
Definition node_out (n : polygon * list polygon) : polygon :=
  match snd n with
  | [] => fst n
  | _ => fst (link_holes (fst n) (snd n))
  end.

(* ------------------------------------------------------------------ slice: the strips *)
(* `pos = bb[0]; for i in 0..count: lo = pos; pos = i < count ? cut_i : bb[1]; hi = pos;
    if (hi == lo) continue; intersect with the rectangle lo..hi` ; None = skipped strip so that
   the result keeps one entry per interval like result[i] *)
Fixpoint strips (pos bb1 : Z) (cuts : list Z) : list (option (Z * Z)) :=
  match cuts with
  | [] => [if pos =? bb1 then None else Some (pos, bb1)]
  | c :: t => (if c =? pos then None else Some (pos, c)) :: strips c bb1 t
  end.

Definition strictly_in (x : Z) (s : option (Z * Z)) : bool :=
  match s with
  | None => false
  | Some (lo, hi) => (Z.min lo hi <? x) && (x <? Z.max lo hi)
  end.

Definition within (x : Z) (s : option (Z * Z)) : bool :=
  match s with
  | None => false
  | Some (lo, hi) => (Z.min lo hi <=? x) && (x <=? Z.max lo hi)
  end.

Fixpoint count_true {A} (f : A -> bool) (l : list A) : Z :=
  match l with
  | [] => 0
  | a :: t => (if f a then 1 else 0) + count_true f t
  end.

Fixpoint sortedZ (l : list Z) : Prop :=
  match l with
  | a :: ((b :: _) as t) => a <= b /\ sortedZ t
  | _ => True
  end.

(* ------------------------------------------------------------------ Polygon::fracture: the work list *)
(* The numeric part (choice of axis and cut positions from sorted double coordinates, slice through
   Clipper) is a parameter `chop : polygon -> list polygon`; what is modelled is the loop
   `for (i = 0; i < result.count;)` with remove_unordered + extend, and the early return. *)
Inductive frac_result :=
| FracDone (pieces : list polygon)
| FracOutOfFuel.

(* Array::remove_unordered(i): items[i] = items[--count] *)
Definition remove_unordered {A} (i : nat) (l : list A) : list A :=
  match l with
  | [] => []
  | d :: _ =>
      if Nat.eqb (S i) (length l) then removelast l
      else firstn i l ++ last l d :: skipn (S i) (removelast l)
  end.

Section Fracture.
  Variable chop : polygon -> list polygon.
  Variable max_points : nat.

  Fixpoint frac_loop (fuel : nat) (i : nat) (result : list polygon) : frac_result :=
    match fuel with
    | O => FracOutOfFuel
    | S fuel' =>
        match nth_error result i with
        | None => FracDone result                      (* i >= result.count *)
        | Some subj =>
            if Nat.leb (length subj) max_points then frac_loop fuel' (S i) result
            else frac_loop fuel' i (remove_unordered i result ++ chop subj)
        end
    end.

  (* `if (max_points <= 4) return;` : nothing is appended to result *)
  Definition fracture (fuel : nat) (poly : polygon) : frac_result :=
    if Nat.leb max_points 4 then FracDone [] else frac_loop fuel O [poly].
End Fracture.

(* Cell::to_gds: `if (max_points > 4 && count > max_points) fracture(...) and write the pieces
   else write the polygon itself` *)
Definition to_gds_polygons (chop : polygon -> list polygon) (max_points fuel : nat) (poly : polygon)
  : frac_result :=
  if Nat.ltb 4 max_points && Nat.ltb max_points (length poly)
  then fracture chop max_points fuel poly
  else FracDone [poly].
