(* Proofs about the model of oas_precision (OasisPrecision.v), for ALL byte streams and ALL cuts:
     - oas_precision_prefix_lemma / oas_precision_threshold_lemma: a truncated file gives an error code or exactly the
       value of the complete file, with a threshold (the end of the unit real of the START record);
     - oas_precision_total_refuted: "never Crash" is false for arbitrary input (a version string whose declared length
       cannot be allocated), oas_precision_total_partial_lemma: it holds when the declared length is below 2^33.
   The theorems are proved for oas_precision_gen f with any f (the floating-point division plays no role). *)
Require Import Base OasisInt OasisSpec OasisRead OasisPrecision.
From Coq Require Import Lia ZifyBool ZifyN ZifyNat.
Local Open Scope N_scope.

Definition is_error {A} (o : outcome A) : Prop :=
  match o with Ok _ | Crash | Hang => False | _ => True end.

(* ================================================================== readers that consume a prefix *)
Definition errored (s : strm) : Prop := s_err s <> None.

(* p reads a value from the front of the stream: on success it consumed a block c of bytes, does the same whatever
   follows, and fails (error code set) when the block is cut short; once the code is set it stays set *)
Record good {A} (p : strm -> A * strm) : Prop := mkGood {
  g_split : forall bs a s', p (mkS bs None) = (a, s') -> s_err s' = None ->
    exists c r, bs = c ++ r /\ s' = mkS r None /\
      (forall r', p (mkS (c ++ r') None) = (a, mkS r' None)) /\
      (forall c1 c2, c = c1 ++ c2 -> c2 <> [] -> errored (snd (p (mkS c1 None))));
  g_sticky : forall s, errored s -> errored (snd (p s))
}.

Lemma rd1_sticky s : errored s -> errored (snd (rd1 s)).
Proof. unfold errored, rd1. destruct (s_bs s); cbn; [discriminate|auto]. Qed.

Lemma app_split {A} (c1 c2 cp cq : list A) : c1 ++ c2 = cp ++ cq ->
  (exists x, cp = c1 ++ x /\ x <> [] /\ c2 = x ++ cq) \/ (exists y, c1 = cp ++ y /\ cq = y ++ c2).
Proof.
  revert cp. induction c1 as [|a c1 IH]; intros cp H; cbn [app] in H.
  - destruct cp as [|b cp]; [right; exists []; auto|]. left. exists (b :: cp). cbn [app] in *. split; [reflexivity|].
    split; [discriminate|exact H].
  - destruct cp as [|b cp]; cbn [app] in H.
    + right. exists (a :: c1). split; [reflexivity|]. rewrite <- H. reflexivity.
    + injection H as <- H. destruct (IH _ H) as [(x & -> & Hx & ->)|(y & -> & ->)].
      * left. exists x. auto.
      * right. exists y. auto.
Qed.

(* sequential composition *)
Lemma good_seq {A B C} (p : strm -> A * strm) (q : strm -> B * strm) (g : A -> B -> C) :
  good p -> good q -> good (fun s => let (a, s1) := p s in let (b, s2) := q s1 in (g a b, s2)).
Proof.
  intros Gp Gq. split.
  - intros bs x s' H He.
    destruct (p (mkS bs None)) as [a s1] eqn:Ep. destruct (q s1) as [b s2] eqn:Eq. injection H as <- <-.
    assert (He1 : s_err s1 = None).
    { destruct (s_err s1) eqn:E1; [|reflexivity]. exfalso.
      pose proof (g_sticky q Gq s1) as Hs. unfold errored in Hs. rewrite E1, Eq in Hs. apply Hs; [discriminate|exact He]. }
    destruct (g_split p Gp _ _ _ Ep He1) as (cp & r1 & -> & -> & Hpok & Hpcut).
    destruct (g_split q Gq _ _ _ Eq He) as (cq & r2 & -> & -> & Hqok & Hqcut).
    exists (cp ++ cq), r2. split; [rewrite app_assoc; reflexivity|]. split; [reflexivity|]. split.
    + intros r'. rewrite <- app_assoc, Hpok, Hqok. reflexivity.
    + intros c1 c2 Hc Hne. symmetry in Hc. destruct (app_split _ _ _ _ Hc) as [(x & -> & Hx & ->)|(y & -> & ->)].
      * pose proof (Hpcut c1 x eq_refl Hx) as Hp1. destruct (p (mkS c1 None)) as [a1 t1]. cbn [snd] in Hp1.
        pose proof (g_sticky q Gq t1 Hp1) as Hq1. destruct (q t1) as [b1 t2]. exact Hq1.
      * rewrite Hpok. pose proof (Hqcut y c2 eq_refl Hne) as Hq1. destruct (q (mkS y None)) as [b1 t2]. exact Hq1.
  - intros s Hs. pose proof (g_sticky p Gp s Hs) as H1. destruct (p s) as [a s1]. cbn [snd] in H1.
    pose proof (g_sticky q Gq s1 H1) as H2. destruct (q s1) as [b s2]. exact H2.
Qed.
Lemma good_map {A B} (p : strm -> A * strm) (g : A -> B) :
  good p -> good (fun s => let (a, s1) := p s in (g a, s1)).
Proof.
  intros Gp. split.
  - intros bs x s' H He. destruct (p (mkS bs None)) as [a s1] eqn:Ep. injection H as <- <-.
    destruct (g_split p Gp _ _ _ Ep He) as (c & r & -> & -> & Hok & Hcut).
    exists c, r. repeat split; auto.
    + intros r'. rewrite Hok. reflexivity.
    + intros c1 c2 Hc Hne. pose proof (Hcut c1 c2 Hc Hne) as H1. destruct (p (mkS c1 None)). exact H1.
  - intros s Hs. pose proof (g_sticky p Gp s Hs) as H1. destruct (p s). exact H1.
Qed.
Lemma good_ext {A} (p q : strm -> A * strm) : (forall s, p s = q s) -> good p -> good q.
Proof.
  intros Hpq [H1 H2]. split.
  - intros bs a s' H He. rewrite <- Hpq in H. destruct (H1 _ _ _ H He) as (c & r & -> & -> & Hok & Hcut).
    exists c, r. repeat split; auto.
    + intros r'. rewrite <- Hpq. apply Hok.
    + intros c1 c2 Hc Hne. rewrite <- Hpq. eapply Hcut; eauto.
  - intros s Hs. rewrite <- Hpq. auto.
Qed.

(* ---- the unsigned integer *)
Lemma uint_loop_split : forall bs res nb v s', uint_loop bs res nb = (v, s') -> s_err s' = None ->
  exists c r, bs = c ++ r /\ s' = mkS r None /\
    (forall r', uint_loop (c ++ r') res nb = (v, mkS r' None)) /\
    (forall c1 c2, c = c1 ++ c2 -> c2 <> [] -> snd (uint_loop c1 res nb) = mkS [] (Some SE_eof)).
Proof.
  induction bs as [|b t IH]; intros res nb v s' H He; cbn [uint_loop] in H.
  - injection H as <- <-. discriminate.
  - destruct ((nb =? 63) && (1 <? b)) eqn:E63; [injection H as <- <-; discriminate|].
    destruct (0 <? N.land b 128) eqn:Ec.
    + destruct (IH _ _ _ _ H He) as (c & r & -> & -> & Hok & Hcut).
      exists (b :: c), r. repeat split; auto.
      * intros r'. cbn [app uint_loop]. rewrite E63, Ec. apply Hok.
      * intros c1 c2 Hc Hne. destruct c1 as [|b1 c1]; [reflexivity|].
        cbn [app] in Hc. injection Hc as <- Hc. cbn [uint_loop]. rewrite E63, Ec. eapply Hcut; eauto.
    + injection H as <- <-. exists [b], t. repeat split; auto.
      * intros r'. cbn [app uint_loop]. rewrite E63, Ec. reflexivity.
      * intros c1 c2 Hc Hne. destruct c1 as [|b1 c1]; [reflexivity|].
        cbn [app] in Hc. injection Hc as _ Hc. destruct c1; [|discriminate]. cbn [app] in Hc. subst c2. destruct (Hne eq_refl).
Qed.

(* the unsigned integer: a cut inside it leaves the stream at its end with InputFileError *)
Lemma s_uint_split bs v s' : s_uint (mkS bs None) = (v, s') -> s_err s' = None ->
  exists c r, bs = c ++ r /\ s' = mkS r None /\
    (forall r', s_uint (mkS (c ++ r') None) = (v, mkS r' None)) /\
    (forall c1 c2, c = c1 ++ c2 -> c2 <> [] -> snd (s_uint (mkS c1 None)) = mkS [] (Some SE_eof)).
Proof.
  intros H He. unfold s_uint in H. cbn [s_err s_bs] in H.
  destruct bs as [|b t]; [injection H as <- <-; discriminate|].
  destruct (0 <? N.land b 128) eqn:Ec.
  - destruct (uint_loop_split _ _ _ _ _ H He) as (c & r & -> & -> & Hok & Hcut).
    exists (b :: c), r. split; [reflexivity|]. split; [reflexivity|]. split.
    + intros r'. unfold s_uint. cbn [s_err s_bs app]. rewrite Ec. apply Hok.
    + intros c1 c2 Hc Hne. destruct c1 as [|b1 c1]; [reflexivity|].
      cbn [app] in Hc. injection Hc as <- Hc. unfold s_uint. cbn [s_err s_bs]. rewrite Ec. eapply Hcut; eauto.
  - injection H as <- <-. exists [b], t. split; [reflexivity|]. split; [reflexivity|]. split.
    + intros r'. unfold s_uint. cbn [s_err s_bs app]. rewrite Ec. reflexivity.
    + intros c1 c2 Hc Hne. destruct c1 as [|b1 c1]; [reflexivity|].
      cbn [app] in Hc. injection Hc as _ Hc. destruct c1; [|discriminate]. cbn [app] in Hc. subst c2. destruct (Hne eq_refl).
Qed.

Lemma good_uint : good s_uint.
Proof.
  split.
  - intros bs v s' H He. destruct (s_uint_split _ _ _ H He) as (c & r & -> & -> & Hok & Hcut).
    exists c, r. split; [reflexivity|]. split; [reflexivity|]. split; [exact Hok|].
    intros c1 c2 Hc Hne. rewrite (Hcut c1 c2 Hc Hne). unfold errored. cbn. discriminate.
  - intros s Hs. unfold s_uint. unfold errored in Hs. destruct (s_err s) eqn:E; [|congruence].
    cbn [snd]. apply rd1_sticky. unfold errored. rewrite E. discriminate.
Qed.

(* ---- n raw bytes: oasis_read(&value, n, 1, in) *)
Lemma firstn_skipn_len {A} (n : nat) (l : list A) : (n <= length l)%nat -> length (firstn n l) = n.
Proof. intros H. rewrite firstn_length. lia. Qed.

Lemma good_rdn n (k : list N -> real) :
  good (fun s => match rdn n s with
                 | (Some b, s1) => match s_err s1 with None => (k b, s1) | Some _ => (rzero, s1) end
                 | (None, s1) => (rzero, s1)
                 end).
Proof.
  split.
  - intros bs a s' H He. unfold rdn in H. cbn [s_bs s_err] in H.
    destruct (length bs <? n)%nat eqn:El; [injection H as <- <-; discriminate|].
    injection H as <- <-. apply Nat.ltb_ge in El.
    exists (firstn n bs), (skipn n bs). split; [symmetry; apply firstn_skipn|]. split; [reflexivity|]. split.
    + intros r'. unfold rdn. cbn [s_bs s_err]. rewrite app_length, firstn_skipn_len by exact El.
      replace (n + length r' <? n)%nat with false by (symmetry; apply Nat.ltb_ge; lia).
      rewrite firstn_app, skipn_app, firstn_skipn_len by exact El. rewrite Nat.sub_diag. cbn [firstn skipn].
      rewrite app_nil_r, firstn_firstn, Nat.min_id.
      rewrite skipn_all2 by (rewrite firstn_skipn_len by exact El; lia). reflexivity.
    + intros c1 c2 Hc Hne. unfold rdn. cbn [s_bs s_err].
      assert (Hl : (length c1 < n)%nat).
      { assert (length (firstn n bs) = length c1 + length c2)%nat by (rewrite Hc, app_length; reflexivity).
        rewrite firstn_skipn_len in H by exact El. destruct c2; [congruence|]. cbn in H. lia. }
      replace (length c1 <? n)%nat with true by (symmetry; apply Nat.ltb_lt; exact Hl). cbn. discriminate.
  - intros s Hs. unfold rdn. destruct (length (s_bs s) <? n)%nat; cbn; [unfold errored; cbn; discriminate|].
    unfold errored in *. destruct (s_err s); cbn; congruence.
Qed.

(* ---- the real *)
Lemma good_fail (e : serr) : good (fun s => (rzero, set_err s e)).
Proof.
  split.
  - intros bs a s' H He. injection H as <- <-. discriminate.
  - intros s Hs. unfold errored, set_err in *. cbn [snd]. destruct (s_err s) eqn:E; [rewrite E; discriminate|congruence].
Qed.

Lemma good_real_by ty : good (s_real_by ty).
Proof.
  destruct ty as [|p]; [|repeat (destruct p as [p|p|]; try exact (good_fail SE_inv))]; unfold s_real_by.
  all: first
    [ exact (good_rdn 4 RF32) | exact (good_rdn 8 RF64)
    | exact (good_map s_uint (RInt false) good_uint) | exact (good_map s_uint (RInt true) good_uint)
    | exact (good_map s_uint (RRecip false) good_uint) | exact (good_map s_uint (RRecip true) good_uint)
    | exact (good_seq s_uint s_uint (RRatio false) good_uint good_uint)
    | exact (good_seq s_uint s_uint (RRatio true) good_uint good_uint) ].
Qed.

Lemma good_real : good s_real.
Proof.
  split.
  - intros bs x s' H He. unfold s_real, rd1 in H. cbn [s_bs s_err] in H.
    destruct bs as [|ty t]; [injection H as <- <-; discriminate|].
    destruct (g_split _ (good_real_by ty) _ _ _ H He) as (c & r & -> & -> & Hok & Hcut).
    exists (ty :: c), r. split; [reflexivity|]. split; [reflexivity|]. split.
    + intros r'. unfold s_real, rd1. cbn [s_bs s_err app]. exact (Hok r').
    + intros c1 c2 Hc Hne. destruct c1 as [|b1 c1]; [unfold errored; cbn; discriminate|].
      cbn [app] in Hc. injection Hc as <- Hc. unfold s_real, rd1. cbn [s_bs s_err]. exact (Hcut c1 c2 Hc Hne).
  - intros s Hs. unfold s_real. pose proof (rd1_sticky s Hs) as H1. destruct (rd1 s) as [o s1]. cbn [snd] in H1.
    destruct o as [ty|]; [|exact H1]. unfold errored in H1. destruct (s_err s1) eqn:E; [|congruence].
    cbn [snd]. unfold errored. rewrite E. discriminate.
Qed.

(* ================================================================== the whole query *)
Lemma strip_prefix_some : forall p bs r, strip_prefix p bs = Some r -> bs = p ++ r.
Proof.
  induction p as [|a p IH]; intros bs r H; cbn [strip_prefix] in H; [injection H as <-; reflexivity|].
  destruct bs as [|b t]; [discriminate|]. destruct (a =? b) eqn:E; [|discriminate].
  apply N.eqb_eq in E. subst b. cbn [app]. f_equal. apply IH. exact H.
Qed.
Lemma strip_prefix_app_r : forall p x, strip_prefix p (p ++ x) = Some x.
Proof. induction p as [|a p IH]; intros x; cbn [strip_prefix app]; [reflexivity|]. rewrite N.eqb_refl. apply IH. Qed.
Lemma strip_prefix_short : forall p c1 c2, p = c1 ++ c2 -> c2 <> [] -> strip_prefix p c1 = None.
Proof.
  induction p as [|a p IH]; intros c1 c2 H Hne.
  - destruct c1; [|discriminate]. destruct c2; [destruct (Hne eq_refl)|discriminate].
  - destruct c1 as [|b c1]; [reflexivity|]. cbn [app] in H. injection H as <- H. cbn [strip_prefix].
    rewrite N.eqb_refl. eapply IH; eauto.
Qed.
Lemma version_bad_nil : version_bad [] = true.
Proof. reflexivity. Qed.
Lemma serr_is_error {A} e : is_error (@serr_outcome A e).
Proof. destruct e; exact I. Qed.
Lemma firstn_app_len {A} (a b : list A) : firstn (length a) (a ++ b) = a.
Proof. rewrite firstn_app, Nat.sub_diag, firstn_all. cbn [firstn]. apply app_nil_r. Qed.
Lemma skipn_app_len {A} (a b : list A) : skipn (length a) (a ++ b) = b.
Proof. rewrite skipn_app, Nat.sub_diag, skipn_all. reflexivity. Qed.

(* the consumed block of an accepted file: magic + START byte, length of the version, version, unit real *)
Lemma gen_decompose {A} (f : real -> A) bs v :
  oas_precision_gen f bs = Ok v ->
  exists cu cs cr rest count,
    bs = magic_start ++ cu ++ cs ++ cr ++ rest /\ N.of_nat (length cs) = count /\ version_bad cs = false /\
    (forall r', s_uint (mkS (cu ++ r') None) = (count, mkS r' None)) /\
    (forall c1 c2, cu = c1 ++ c2 -> c2 <> [] -> snd (s_uint (mkS c1 None)) = mkS [] (Some SE_eof)) /\
    (exists x, f x = v /\ (forall r', s_real (mkS (cr ++ r') None) = (x, mkS r' None))) /\
    (forall c1 c2, cr = c1 ++ c2 -> c2 <> [] -> errored (snd (s_real (mkS c1 None)))).
Proof.
  unfold oas_precision_gen. intros H.
  destruct (strip_prefix magic_start bs) as [b1|] eqn:Em; [|discriminate].
  apply strip_prefix_some in Em. subst bs.
  unfold s_string in H. destruct (s_uint (mkS b1 None)) as [count su] eqn:Eu.
  cbn [negb andb] in H.
  destruct (count =? 0) eqn:E0; [rewrite version_bad_nil in H; discriminate|].
  destruct (s_err su) eqn:Ee.
  - destruct (str_alloc_fails count && nonempty (s_bs su)); [discriminate|].
    rewrite version_bad_nil in H. discriminate.
  - destruct (N.of_nat (length (s_bs su)) <? count) eqn:Es.
    + destruct (str_alloc_fails count && nonempty (s_bs su)); [discriminate|]. rewrite version_bad_nil in H. discriminate.
    + destruct (s_uint_split _ _ _ Eu Ee) as (cu & b2 & -> & -> & Huok & Hucut). cbn [s_bs] in *.
      apply N.ltb_ge in Es.
      set (cs := firstn (N.to_nat count) b2) in *. set (b3 := skipn (N.to_nat count) b2) in *.
      destruct (version_bad cs) eqn:Ev; [discriminate|].
      destruct (s_real (mkS b3 None)) as [x s2] eqn:Er. destruct (s_err s2) eqn:Ee2; [destruct s; discriminate|].
      injection H as <-.
      destruct (g_split _ good_real _ _ _ Er Ee2) as (cr & r4 & Hb3 & -> & Hrok & Hrcut).
      exists cu, cs, cr, r4, count.
      assert (Hlen : length cs = N.to_nat count) by (unfold cs; rewrite firstn_length; lia).
      split; [|split; [lia|split; [exact Ev|split; [exact Huok|split; [exact Hucut|split; [eauto|exact Hrcut]]]]]].
      rewrite <- Hb3. unfold cs, b3. rewrite firstn_skipn. reflexivity.
Qed.

Definition lim33 : N := 8589934592.      (* str_alloc_fails: the declared length of a string that cannot be allocated *)

Lemma count_pos (cs : list N) (count : N) :
  N.of_nat (length cs) = count -> version_bad cs = false -> count =? 0 = false.
Proof.
  intros Hlen Hver.
    apply N.eqb_neq. intros E. rewrite <- Hlen in E. destruct cs; [rewrite version_bad_nil in Hver; discriminate|].
    cbn in E. lia.
Qed.

(* whatever follows the consumed block, the answer is the same *)
Lemma gen_extend {A} (f : real -> A) (cu cs cr : list N) (count : N) (x : real) r' :
  N.of_nat (length cs) = count -> version_bad cs = false ->
  (forall r', s_uint (mkS (cu ++ r') None) = (count, mkS r' None)) ->
  (forall r', s_real (mkS (cr ++ r') None) = (x, mkS r' None)) ->
  oas_precision_gen f (magic_start ++ cu ++ cs ++ cr ++ r') = Ok (f x).
Proof.
    intros Hlen Hver Huok Hrok. pose proof (count_pos cs count Hlen Hver) as count_pos.
    unfold oas_precision_gen. rewrite strip_prefix_app_r. unfold s_string. rewrite Huok.
    cbn [negb andb s_bs s_err]. rewrite count_pos.
    replace (N.of_nat (length (cs ++ cr ++ r')) <? count) with false
      by (symmetry; apply N.ltb_ge; rewrite app_length; lia).
    replace (N.to_nat count) with (length cs) by lia.
    rewrite firstn_app_len, skipn_app_len, Hver, Hrok. reflexivity.
Qed.

(* a cut inside the consumed block gives an error code *)
Lemma gen_cut {A} (f : real -> A) (cu cs cr : list N) (count : N) c1 c2 :
  N.of_nat (length cs) = count -> version_bad cs = false ->
  (forall r', s_uint (mkS (cu ++ r') None) = (count, mkS r' None)) ->
  (forall c1 c2, cu = c1 ++ c2 -> c2 <> [] -> snd (s_uint (mkS c1 None)) = mkS [] (Some SE_eof)) ->
  (forall c1 c2, cr = c1 ++ c2 -> c2 <> [] -> errored (snd (s_real (mkS c1 None)))) ->
  count < lim33 -> magic_start ++ cu ++ cs ++ cr = c1 ++ c2 -> c2 <> [] ->
  is_error (oas_precision_gen f c1).
Proof.
    intros Hlen Hver Huok Hucut Hrcut H33 Hc Hne. pose proof (count_pos cs count Hlen Hver) as count_pos. symmetry in Hc. unfold oas_precision_gen.
    destruct (app_split _ _ _ _ Hc) as [(y & Hm & Hy & _)|(p1 & -> & Hc1)].
    - rewrite (strip_prefix_short _ _ _ Hm Hy). exact I.
    - rewrite strip_prefix_app_r. unfold s_string. symmetry in Hc1.
      destruct (app_split _ _ _ _ Hc1) as [(y & Hu & Hy & _)|(p2 & -> & Hc2)].
      + (* inside the length of the version *)
        pose proof (Hucut _ _ Hu Hy) as Hs. destruct (s_uint (mkS p1 None)) as [cnt su]. cbn [snd] in Hs. subst su.
        cbn [negb andb s_bs s_err nonempty]. rewrite andb_false_r.
        destruct (cnt =? 0); rewrite version_bad_nil; exact I.
      + rewrite Huok. cbn [negb andb s_bs s_err]. rewrite count_pos. symmetry in Hc2.
        destruct (app_split _ _ _ _ Hc2) as [(y & Hs & Hy & _)|(p3 & -> & Hc3)].
        * (* inside the version string *)
          assert (Hshort : N.of_nat (length p2) <? count = true).
          { apply N.ltb_lt. rewrite <- Hlen, Hs, app_length. destruct y; [destruct (Hy eq_refl)|]. cbn. lia. }
          rewrite Hshort. unfold str_alloc_fails.
          replace (8589934592 <=? count) with false by (symmetry; apply N.leb_gt; exact H33).
          cbn [andb]. rewrite version_bad_nil. exact I.
        * (* inside the unit real *)
          replace (N.of_nat (length (cs ++ p3)) <? count) with false
            by (symmetry; apply N.ltb_ge; rewrite app_length; lia).
          replace (N.to_nat count) with (length cs) by lia.
          rewrite firstn_app_len, skipn_app_len, Hver.
          pose proof (Hrcut p3 c2 Hc3 Hne) as He. destruct (s_real (mkS p3 None)) as [x' s2]. cbn [snd] in He.
          unfold errored in He. destruct (s_err s2); [apply serr_is_error|congruence].
Qed.

(* SHARP FORM: the threshold is the end of the unit real of the START record *)
Theorem oas_precision_gen_threshold {A} (f : real -> A) bs v :
  oas_precision_gen f bs = Ok v -> N.of_nat (length bs) < lim33 ->
  exists k, (k <= length bs)%nat /\
    (forall n, (n < k)%nat -> is_error (oas_precision_gen f (firstn n bs))) /\
    (forall n, (k <= n)%nat -> oas_precision_gen f (firstn n bs) = Ok v).
Proof.
  intros H Hl. destruct (gen_decompose f bs v H) as (cu & cs & cr & rest & count & -> & Hlen & Hver & Huok & Hucut & (x & <- & Hrok) & Hrcut).
  set (C := magic_start ++ cu ++ cs ++ cr).
  assert (HC : magic_start ++ cu ++ cs ++ cr ++ rest = C ++ rest) by (unfold C; rewrite <- !app_assoc; reflexivity).
  rewrite HC in *. exists (length C). split; [rewrite app_length; lia|]. split.
  - intros n Hn.
    assert (Hf : firstn n (C ++ rest) = firstn n C) by (rewrite firstn_app; replace (n - length C)%nat with O by lia; cbn [firstn]; apply app_nil_r).
    rewrite Hf. apply (gen_cut f cu cs cr count (firstn n C) (skipn n C) Hlen Hver Huok Hucut Hrcut).
    + unfold lim33 in *. rewrite <- Hlen. rewrite !app_length in Hl. unfold C in Hl. rewrite !app_length in Hl. lia.
    + fold C. symmetry. apply firstn_skipn.
    + intros E. assert (length (skipn n C) = (length C - n)%nat) by apply skipn_length. rewrite E in H0. cbn [length] in H0. lia.
  - intros n Hn.
    assert (Hf : firstn n (C ++ rest) = C ++ firstn (n - length C) rest) by (rewrite firstn_app, firstn_all2 by lia; reflexivity).
    rewrite Hf. unfold C. rewrite <- !app_assoc. apply (gen_extend f cu cs cr count x _ Hlen Hver Huok Hrok).
Qed.

Theorem oas_precision_gen_prefix {A} (f : real -> A) bs v n :
  oas_precision_gen f bs = Ok v -> N.of_nat (length bs) < lim33 ->
  is_error (oas_precision_gen f (firstn n bs)) \/ oas_precision_gen f (firstn n bs) = Ok v.
Proof.
  intros H Hl. destruct (oas_precision_gen_threshold f bs v H Hl) as (k & _ & Hlo & Hhi).
  destruct (Nat.lt_ge_cases n k); [left; apply Hlo; assumption|right; apply Hhi; assumption].
Qed.

(* ---- the model of oas_precision *)
Theorem oas_precision_prefix_lemma : forall bs v n,
  oas_precision_model bs = Ok v -> N.of_nat (length bs) < lim33 ->
  is_error (oas_precision_model (firstn n bs)) \/ oas_precision_model (firstn n bs) = Ok v.
Proof. intros bs v n. apply oas_precision_gen_prefix. Qed.

Theorem oas_precision_threshold_lemma : forall bs v,
  oas_precision_model bs = Ok v -> N.of_nat (length bs) < lim33 ->
  exists k, (k <= length bs)%nat /\
    (forall n, (n < k)%nat -> is_error (oas_precision_model (firstn n bs))) /\
    (forall n, (k <= n)%nat -> oas_precision_model (firstn n bs) = Ok v).
Proof. intros bs v. apply oas_precision_gen_threshold. Qed.

(* ---- "returns normally" *)
(* FALSE for arbitrary input: a version string whose declared length (here 2^40) cannot be allocated makes
   oasis_read_string pass the NULL buffer to fread, which copies the bytes that are there through it *)
Definition w_unallocatable_version : list N := magic_start ++ [128; 128; 128; 128; 128; 32] ++ [49].
Theorem oas_precision_total_refuted_lemma : exists bs, oas_precision_model bs = Crash.
Proof. exists w_unallocatable_version. vm_compute. reflexivity. Qed.

(* it holds whenever the declared length of the version string is below 2^33 (the allocation succeeds) *)
Definition declared_version_length (bs : list N) : N :=
  match strip_prefix magic_start bs with
  | Some b1 => fst (s_uint (mkS b1 None))
  | None => 0
  end.
Theorem oas_precision_total_partial_lemma : forall bs,
  declared_version_length bs < lim33 -> oas_precision_model bs <> Crash /\ oas_precision_model bs <> Hang.
Proof.
  intros bs H. unfold oas_precision_model, oas_precision_gen, declared_version_length in *.
  destruct (strip_prefix magic_start bs) as [b1|]; [|split; discriminate].
  unfold s_string. destruct (s_uint (mkS b1 None)) as [count su]. cbn [fst] in H.
  assert (Ha : str_alloc_fails count = false) by (unfold str_alloc_fails; apply N.leb_gt; exact H).
  rewrite Ha. cbn [negb andb].
  assert (Hfin : forall v s1, (if version_bad v then ErrInvalid else
                   let (x, s2) := s_real s1 in match s_err s2 with Some e => serr_outcome e | None => Ok (prec_bits x) end) <> Crash
                 /\ (if version_bad v then ErrInvalid else
                   let (x, s2) := s_real s1 in match s_err s2 with Some e => serr_outcome e | None => Ok (prec_bits x) end) <> Hang).
  { intros v s1. destruct (version_bad v); [split; discriminate|]. destruct (s_real s1) as [x s2].
    destruct (s_err s2) as [[]|]; split; discriminate. }
  destruct (count =? 0); [apply Hfin|].
  destruct (s_err su); [apply Hfin|]. destruct (N.of_nat (length (s_bs su)) <? count); apply Hfin.
Qed.

(* in particular every prefix of an accepted file below 2^33 bytes returns normally (from the threshold theorem) *)
Theorem oas_precision_prefix_total_lemma : forall bs v n,
  oas_precision_model bs = Ok v -> N.of_nat (length bs) < lim33 ->
  oas_precision_model (firstn n bs) <> Crash /\ oas_precision_model (firstn n bs) <> Hang.
Proof.
  intros bs v n H Hl. destruct (oas_precision_prefix_lemma bs v n H Hl) as [He|He].
  - destruct (oas_precision_model (firstn n bs)); cbn in He; try destruct He; split; discriminate.
  - rewrite He. split; discriminate.
Qed.

(* the hypotheses are satisfiable: header, "1.0", unit 1000 *)
Example ex_precision : exists v, oas_precision_model (magic_start ++ [3; 49; 46; 48; 0; 232; 7; 1; 0]) = Ok v.
Proof. eexists. vm_compute. reflexivity. Qed.
