(* Proofs about OasisReal.v.
   oasis_write_real stores a value as "reciprocal of an integer" only when 1.0 / (1.0 / value) == value
   (repair of finding oasis_write_real:reciprocal: the test used to be on the rounded quotient alone).
   - the former failing inputs now round-trip (Examples below, by computation),
   - the 8-byte form (type 7) round-trips every bit pattern,
   - the reciprocal form round-trips whenever the writer chooses it (general theorem at the end). *)
Require Import Base OasisInt OasisIntProofs GdsReal GdsRealProofs OasisReal.
From Coq Require Import Reals Lia Lra.
From Flocq Require Import Core BinarySingleNaN Binary Bits.
Local Open Scope N_scope.

(* 0.19999999999999998 = 0x3FC9999999999999 used to be written as "reciprocal of 5" (02 05) and read
   back as 0.2; it is now written in the 8-byte form and comes back bit for bit; 0.2 itself still
   uses the reciprocal form *)
Example oas_real_roundtrip_former_witness :
  enc_real 4596373779694328217 = [7; 153; 153; 153; 153; 153; 153; 201; 63]
  /\ dec_real (enc_real 4596373779694328217) = Ok (4596373779694328217, [])
  /\ enc_real 4596373779694328218 = [2; 5]
  /\ dec_real (enc_real 4596373779694328218) = Ok (4596373779694328218, []).
Proof. repeat split; vm_compute; reflexivity. Qed.

(* for |v| between 2^-64 and 2^-53 every quotient 1.0/v is an integer-valued double; 0x3C7E36AFAF08646A
   (about 2.6e-17) used to come back one unit in the last place higher *)
Example oas_real_roundtrip_former_witness_small :
  hd 0 (enc_real 4358981617524958314) = 7
  /\ dec_real (enc_real 4358981617524958314) = Ok (4358981617524958314, []).
Proof. split; vm_compute; reflexivity. Qed.

(* the sign of a negative zero is not preserved (-0.0 is written as the integer 0); numerically equal *)
Theorem oas_real_negative_zero :
  enc_real 9223372036854775808 = [0; 0] /\ dec_real [0; 0] = Ok (0, []).
Proof. split; vm_compute; reflexivity. Qed.

(* ---- the 8-byte form round-trips every pattern *)
Lemma take_bytes_app l : forall rest, take_bytes (length l) (l ++ rest) = Some (l, rest).
Proof.
  induction l as [|b t IH]; intros rest; [reflexivity|].
  cbn [length take_bytes app]. rewrite IH. reflexivity.
Qed.

Lemma bytes_le_length n : forall b, length (bytes_le n b) = n.
Proof. induction n as [|k IH]; intros b; [reflexivity|]. cbn [bytes_le length]. rewrite IH. reflexivity. Qed.

Theorem oas_real_double_form_roundtrip_lemma bits rest :
  bits < 2 ^ 64 -> dec_real ((7 :: bytes_le 8 bits) ++ rest) = Ok (bits, rest).
Proof.
  intros Hb. cbn [app dec_real dec_real_by_type].
  pose proof (take_bytes_app (bytes_le 8 bits) rest) as H. rewrite bytes_le_length in H. rewrite H.
  rewrite (of_bytes_le_bytes_le 8 bits) by exact Hb. reflexivity.
Qed.

(* whenever the writer chooses the 8-byte form, the value comes back bit for bit *)
Corollary oas_real_roundtrip_when_double_form bits rest :
  bits < 2 ^ 64 -> hd 0 (enc_real bits) = 7 ->
  dec_real (enc_real bits ++ rest) = Ok (bits, rest).
Proof.
  intros Hb H7. unfold enc_real in *.
  destruct (int_magnitude_lt64 (b64_of_bits (Z.of_N bits))) as [v|].
  - cbn [hd] in H7. destruct (b64_ge0 _); discriminate.
  - destruct (int_magnitude_lt64 (b64_div mode_NE b64_one (b64_of_bits (Z.of_N bits)))) as [v|].
    + destruct (b64_eqb _ _).
      * cbn [hd] in H7. destruct (b64_ge0 _); discriminate.
      * apply oas_real_double_form_roundtrip_lemma. exact Hb.
    + apply oas_real_double_form_roundtrip_lemma. exact Hb.
Qed.

(* ================================================================== the forms that go through floating-point operations *)
Local Open Scope Z_scope.
Notation B2R64 := (B2R 53 1024).
Notation fin64 := (is_finite 53 1024).

(* the integer test gives the magnitude of a finite float *)
Lemma int_magnitude_spec f v :
  int_magnitude_lt64 f = Some v ->
  fin64 f = true /\ Rabs (B2R64 f) = IZR v /\ 0 <= v < 2 ^ 64.
Proof.
  destruct f as [s|s|s pl H|s m e H]; cbn [int_magnitude_lt64]; try discriminate.
  - intros [= <-]. split; [reflexivity|]. split; [cbn; apply Rabs_R0|lia].
  - intros Hv. split; [reflexivity|].
    assert (Habs : Rabs (B2R64 (B754_finite 53 1024 s m e H)) = (IZR (Z.pos m) * bpow radix2 e)%R).
    { cbn [B2R]. rewrite <- F2R_Zabs. rewrite abs_cond_Zopp. reflexivity. }
    rewrite Habs. clear Habs.
    assert (HM0 : 0 < Z.pos m) by lia. revert Hv. generalize (Z.pos m) HM0. clear H. intros M HM Hv.
    destruct (0 <=? e) eqn:Ee.
    + destruct (M * 2 ^ e <? 2 ^ 64) eqn:Hlt; [|discriminate]. injection Hv as <-.
      assert (Hp : 0 < 2 ^ e) by (apply Z.pow_pos_nonneg; lia).
      apply Z.ltb_lt in Hlt. apply Z.leb_le in Ee. split; [|split; [apply Z.mul_nonneg_nonneg; lia|exact Hlt]].
      rewrite mult_IZR. f_equal. rewrite (IZR_Zpower radix2) by lia. reflexivity.
    + destruct (M mod 2 ^ (- e) =? 0) eqn:Hmod; [|discriminate].
      destruct (M / 2 ^ (- e) <? 2 ^ 64) eqn:Hlt; [|discriminate]. injection Hv as <-.
      assert (Hp : 0 < 2 ^ (- e)) by (apply Z.pow_pos_nonneg; lia).
      split; [|split; [apply Z.div_pos; lia|lia]].
      assert (Hm : M = M / 2 ^ (- e) * 2 ^ (- e)).
      { pose proof (Z.div_mod (M) (2 ^ (- e))). lia. }
      rewrite Hm at 1. rewrite mult_IZR, (IZR_Zpower radix2) by lia.
      rewrite Rmult_assoc, <- bpow_plus. replace (- e + e) with 0 by lia. cbn [bpow]. ring.
Qed.

Lemma b64_of_uint_magnitude f v :
  int_magnitude_lt64 f = Some v ->
  fin64 (b64_of_uint (Z.to_N v)) = true
  /\ B2R64 (b64_of_uint (Z.to_N v)) = IZR v
  /\ Bsign 53 1024 (b64_of_uint (Z.to_N v)) = false.
Proof.
  intros Hv. destruct (int_magnitude_spec f v Hv) as (Hfin & Habs & Hr).
  unfold b64_of_uint. rewrite Z2N.id by lia.
  pose proof (binary_normalize_correct 53 1024 eq_refl eq_refl mode_NE v 0 false) as H.
  assert (HF : @F2R radix2 {| Fnum := v; Fexp := 0 |} = IZR v).
  { unfold F2R. cbn [Fnum Fexp bpow]. ring. }
  rewrite HF in H.
  assert (Hgen : generic_format radix2 (SpecFloat.fexp 53 1024) (IZR v)).
  { rewrite <- Habs. apply generic_format_abs. apply generic_format_B2R. }
  rewrite round_generic in H; [|apply valid_rnd_round_mode|exact Hgen].
  rewrite Rlt_bool_true in H.
  - destruct H as (H1 & H2 & H3). split; [exact H2|]. split; [exact H1|].
    rewrite H3. destruct (Rcompare_spec (IZR v) 0) as [Hlt| |]; try reflexivity.
    exfalso. apply lt_IZR in Hlt. lia.
  - rewrite Rabs_pos_eq by (apply IZR_le; lia).
    apply Rlt_le_trans with (IZR (2 ^ 64)); [apply IZR_lt; lia|].
    change (2 ^ 64) with (Zpower radix2 64). rewrite IZR_Zpower by lia. apply bpow_le. lia.
Qed.

Lemma b64_one_eq : exists H, b64_one = B754_finite 53 1024 false 4503599627370496 (-52) H.
Proof. vm_compute. eexists. reflexivity. Qed.

Lemma B2R_one : B2R64 b64_one = 1%R.
Proof.
  destruct b64_one_eq as [H ->]. cbn [B2R cond_Zopp]. unfold F2R. cbn [Fnum Fexp bpow].
  change (Z.pow_pos radix2 52) with 4503599627370496.
  field.
Qed.

Lemma fin_not_nan (x : binary64) : fin64 x = true -> is_nan 53 1024 x = false.
Proof. destruct x; cbn; congruence. Qed.

(* two quotients of magnitude at most 1 that agree as real numbers and in sign are the same double *)
Lemma b64_div_eq x1 y1 x2 y2 :
  fin64 x1 = true -> fin64 x2 = true -> fin64 y1 = true -> fin64 y2 = true ->
  B2R64 y1 <> 0%R -> B2R64 y2 <> 0%R ->
  (B2R64 x1 / B2R64 y1 = B2R64 x2 / B2R64 y2)%R ->
  (Rabs (B2R64 x2 / B2R64 y2) <= 1)%R ->
  xorb (Bsign 53 1024 x1) (Bsign 53 1024 y1) = xorb (Bsign 53 1024 x2) (Bsign 53 1024 y2) ->
  b64_div mode_NE x1 y1 = b64_div mode_NE x2 y2 /\ fin64 (b64_div mode_NE x2 y2) = true.
Proof.
  intros Fx1 Fx2 Fy1 Fy2 N1 N2 Hq Hle Hs.
  unfold b64_div.
  pose proof (Bdiv_correct 53 1024 eq_refl eq_refl binop_nan_pl64 mode_NE x1 y1 N1) as H1.
  pose proof (Bdiv_correct 53 1024 eq_refl eq_refl binop_nan_pl64 mode_NE x2 y2 N2) as H2.
  rewrite Hq in H1.
  assert (Hb : (Rabs (round radix2 (SpecFloat.fexp 53 1024) (round_mode mode_NE) (B2R64 x2 / B2R64 y2))
                < bpow radix2 1024)%R).
  { apply Rle_lt_trans with 1%R.
    - apply abs_round_le_generic; [apply fexp_correct; reflexivity|apply valid_rnd_round_mode| |exact Hle].
      rewrite <- B2R_one. apply generic_format_B2R.
    - change 1%R with (bpow radix2 0). apply bpow_lt. lia. }
  rewrite Rlt_bool_true in H1 by exact Hb. rewrite Rlt_bool_true in H2 by exact Hb.
  destruct H1 as (R1 & F1 & S1). destruct H2 as (R2 & F2 & S2).
  rewrite Fx1 in F1. rewrite Fx2 in F2.
  split; [|exact F2].
  apply B2R_Bsign_inj; try assumption.
  - rewrite R1, R2. reflexivity.
  - rewrite S1 by (apply fin_not_nan; exact F1). rewrite S2 by (apply fin_not_nan; exact F2). exact Hs.
Qed.

Lemma b64_one_facts : fin64 b64_one = true /\ Bsign 53 1024 b64_one = false.
Proof. destruct b64_one_eq as [H ->]. split; reflexivity. Qed.

Lemma bits64_of_bits bits : (bits < 2 ^ 64)%N -> bits64 (b64_of_bits (Z.of_N bits)) = bits.
Proof.
  intros Hb. unfold bits64, bits_of_b64, b64_of_bits.
  rewrite bits_of_binary_float_of_bits; [apply N2Z.id|].
  change (2 ^ (52 + 11 + 1)) with (Z.of_N (2 ^ 64)). lia.
Qed.

Theorem oas_real_reciprocal_form_roundtrip_lemma bits rest :
  (bits < 2 ^ 64)%N ->
  fin64 (b64_of_bits (Z.of_N bits)) = true ->
  (hd 0%N (enc_real bits) = 2%N \/ hd 0%N (enc_real bits) = 3%N) ->
  dec_real (enc_real bits ++ rest) = Ok (bits, rest).
Proof.
  intros Hb Hfin Hty. pose proof (bits64_of_bits bits Hb) as Hbits. unfold enc_real in *.
  remember (b64_of_bits (Z.of_N bits)) as value eqn:Eval.
  destruct (int_magnitude_lt64 value) as [v0|] eqn:Hvi.
  { cbn [hd] in Hty. destruct (b64_ge0 value); destruct Hty; discriminate. }
  remember (b64_div mode_NE b64_one value) as inverse eqn:Einv.
  destruct (int_magnitude_lt64 inverse) as [v|] eqn:Hinv.
  2:{ cbn [hd] in Hty. destruct Hty; discriminate. }
  destruct (b64_eqb (b64_div mode_NE b64_one inverse) value) eqn:Hguard.
  2:{ cbn [hd] in Hty. destruct Hty; discriminate. }
  clear Hty.
  destruct (int_magnitude_spec inverse v Hinv) as (Fi & Ai & Rv).
  destruct (b64_of_uint_magnitude inverse v Hinv) as (Fg & Bg & Sg).
  destruct b64_one_facts as (F1 & S1).
  assert (Hval : is_finite_strict 53 1024 value = true /\ B2R64 value <> 0%R).
  { clear Eval Hbits Hguard Einv. destruct value as [s|s|s pl H|s m e H]; cbn in Hvi, Hfin; try discriminate.
    split; [reflexivity|]. cbn [B2R]. apply F2R_neq_0. cbn [Fnum]. destruct s; discriminate. }
  destruct Hval as (Hstrict & Hv0).
  clear Einv. destruct inverse as [si|si|si pl Hpl|si mi ei Hbi]; try discriminate Fi.
  - (* 1.0 / value = 0 : then 1.0 / inverse is infinite and differs from the finite value *)
    exfalso. destruct b64_one_eq as [H1 E1]. rewrite E1 in Hguard.
    clear Eval Hbits. destruct value as [s|s|s pl H|s m e H]; try discriminate Hstrict.
    destruct si, s; vm_compute in Hguard; discriminate Hguard.
  - (* the quotient is a non-zero integer *)
    set (inverse := B754_finite 53 1024 si mi ei Hbi) in *.
    assert (Hi0 : B2R64 inverse <> 0%R).
    { cbn [B2R inverse]. apply F2R_neq_0. cbn [Fnum]. destruct si; discriminate. }
    assert (HB : B2R64 inverse = if si then (- IZR v)%R else IZR v).
    { destruct si; cbn [B2R inverse cond_Zopp] in Ai |- *.
      - rewrite Rabs_left in Ai by (apply F2R_lt_0; reflexivity). lra.
      - rewrite Rabs_pos_eq in Ai by (apply Rlt_le, F2R_gt_0; reflexivity). exact Ai. }
    assert (Hv1 : (1 <= IZR v)%R).
    { apply IZR_le. destruct (Z.eq_dec v 0) as [->|]; [|lia]. exfalso. apply Hi0. rewrite HB.
      destruct si; lra. }
    set (g := b64_of_uint (Z.to_N v)) in *.
    set (one' := if b64_ge0 inverse then b64_one else b64_opp b64_one).
    assert (Hone' : fin64 one' = true /\ B2R64 one' = (if si then -1 else 1)%R /\ Bsign 53 1024 one' = si).
    { unfold one'. cbn [b64_ge0 inverse]. destruct si; cbn [negb].
      - unfold b64_opp. rewrite is_finite_Bopp, B2R_Bopp, Bsign_Bopp, B2R_one, S1, F1 by (apply fin_not_nan; exact F1).
        repeat split.
      - rewrite B2R_one. repeat split; assumption. }
    destruct Hone' as (Fo & Bo & So).
    destruct (b64_div_eq one' g b64_one inverse) as (Hr & Fd); try assumption.
    + rewrite Bg. lra.
    + rewrite Bo, Bg, B2R_one, HB. destruct si; field; lra.
    + rewrite B2R_one, HB. unfold Rdiv. rewrite Rmult_1_l, Rabs_inv.
      replace (Rabs (if si then (- IZR v)%R else IZR v)) with (IZR v)
        by (destruct si; [rewrite Rabs_Ropp|]; rewrite Rabs_pos_eq; lra).
      rewrite <- Rinv_1. apply Rinv_le; lra.
    + rewrite So, Sg, S1. cbn [Bsign inverse]. destruct si; reflexivity.
    + (* the guard: the reciprocal read back is the value *)
      set (d := b64_div mode_NE b64_one inverse) in *.
      assert (Hd : d = value).
      { unfold b64_eqb, b64_compare in Hguard.
        rewrite Bcompare_correct in Hguard by assumption.
        destruct (Rcompare (B2R64 d) (B2R64 value)) eqn:Hc; try discriminate Hguard.
        apply Rcompare_Eq_inv in Hc.
        apply B2R_inj; try assumption.
        clear Hr. destruct d; cbn in Fd; try discriminate Fd; [|reflexivity].
        exfalso. apply Hv0. rewrite <- Hc. reflexivity. }
      assert (Hn : (Z.to_N v < two64)%N) by (unfold two64; change 18446744073709551616%N with (Z.to_N (2 ^ 64)); lia).
      fold g in Hr. unfold one' in Hr. cbn [b64_ge0 inverse] in Hr |- *.
      destruct si; cbn [negb app dec_real dec_real_by_type] in Hr |- *;
        rewrite uint_roundtrip_lemma by exact Hn; cbn [obind]; fold g; rewrite Hr, Hd, Hbits; reflexivity.
Qed.

(* ---- the integer forms (types 0 / 1) *)
Theorem oas_real_integer_form_roundtrip_lemma bits rest :
  (bits < 2 ^ 64)%N ->
  bits <> 9223372036854775808%N ->              (* -0.0 is written as the integer 0: reads back +0.0 *)
  (hd 0%N (enc_real bits) = 0%N \/ hd 0%N (enc_real bits) = 1%N) ->
  dec_real (enc_real bits ++ rest) = Ok (bits, rest).
Proof.
  intros Hb Hnz Hty. pose proof (bits64_of_bits bits Hb) as Hbits. unfold enc_real in *.
  remember (b64_of_bits (Z.of_N bits)) as value eqn:Eval.
  destruct (int_magnitude_lt64 value) as [v|] eqn:Hvi.
  2:{ destruct (int_magnitude_lt64 (b64_div mode_NE b64_one value)) as [w|].
      - destruct (b64_eqb _ _); cbn [hd] in Hty; [destruct (b64_ge0 _)|]; destruct Hty; discriminate.
      - cbn [hd] in Hty. destruct Hty; discriminate. }
  clear Hty.
  destruct (int_magnitude_spec value v Hvi) as (Fv & Av & Rv).
  destruct (b64_of_uint_magnitude value v Hvi) as (Fg & Bg & Sg).
  assert (Hn : (Z.to_N v < two64)%N) by (unfold two64; change 18446744073709551616%N with (Z.to_N (2 ^ 64)); lia).
  set (g := b64_of_uint (Z.to_N v)) in *.
  clear Eval. destruct value as [s|s|s pl H|s m e H]; try discriminate Fv.
  - (* zero *)
    destruct s.
    + exfalso. apply Hnz. rewrite <- Hbits. vm_compute. reflexivity.
    + cbn [b64_ge0 app dec_real dec_real_by_type]. rewrite uint_roundtrip_lemma by exact Hn. cbn [obind]. fold g.
      assert (Hg : g = B754_zero 53 1024 false).
      { apply B2R_Bsign_inj; try assumption; try reflexivity; try (rewrite Sg; reflexivity).
        rewrite Bg. cbn in Av. rewrite Rabs_R0 in Av. rewrite <- Av. reflexivity. }
      rewrite Hg, Hbits. reflexivity.
  - set (value := B754_finite 53 1024 s m e H) in *.
    cbn [b64_ge0 value]. destruct s; cbn [negb app dec_real dec_real_by_type];
      rewrite uint_roundtrip_lemma by exact Hn; cbn [obind]; fold g.
    + (* negative *)
      assert (Hg : b64_opp g = value).
      { unfold b64_opp. apply B2R_Bsign_inj; try reflexivity;
          try (rewrite is_finite_Bopp; exact Fg);
          try (rewrite Bsign_Bopp by (apply fin_not_nan; exact Fg); rewrite Sg; reflexivity).
        rewrite B2R_Bopp, Bg, <- Av. cbn [B2R value cond_Zopp].
        rewrite Rabs_left by (apply F2R_lt_0; reflexivity). ring. }
      rewrite Hg, Hbits. reflexivity.
    + assert (Hg : g = value).
      { apply B2R_Bsign_inj; try assumption; try reflexivity; try (rewrite Sg; reflexivity).
        rewrite Bg, <- Av. cbn [B2R value cond_Zopp].
        rewrite Rabs_pos_eq by (apply Rlt_le, F2R_gt_0; reflexivity). reflexivity. }
      rewrite Hg, Hbits. reflexivity.
Qed.

(* ---- every finite double (the sign of a zero apart) survives oasis_write_real ; oasis_read_real,
   whichever of the five forms the writer chooses *)
Theorem oas_real_roundtrip_lemma bits rest :
  (bits < 2 ^ 64)%N ->
  fin64 (b64_of_bits (Z.of_N bits)) = true ->
  bits <> 9223372036854775808%N ->
  dec_real (enc_real bits ++ rest) = Ok (bits, rest).
Proof.
  intros Hb Hfin Hnz.
  assert (Hhd : ((hd 0 (enc_real bits) = 0 \/ hd 0 (enc_real bits) = 1)
             \/ (hd 0 (enc_real bits) = 2 \/ hd 0 (enc_real bits) = 3)
             \/ hd 0 (enc_real bits) = 7)%N).
  { unfold enc_real.
    destruct (int_magnitude_lt64 (b64_of_bits (Z.of_N bits))) as [v|].
    - cbn [hd]. destruct (b64_ge0 _); auto.
    - destruct (int_magnitude_lt64 (b64_div mode_NE b64_one (b64_of_bits (Z.of_N bits)))) as [w|].
      + destruct (b64_eqb _ _); cbn [hd]; [destruct (b64_ge0 _)|]; auto.
      + cbn [hd]. auto. }
  destruct Hhd as [H|[H|H]].
  - apply oas_real_integer_form_roundtrip_lemma; assumption.
  - apply oas_real_reciprocal_form_roundtrip_lemma; assumption.
  - apply oas_real_roundtrip_when_double_form; assumption.
Qed.

(* non-vacuity: 0.2 (reciprocal form), -3 (integer form) and 0.3 (8-byte form) meet the hypotheses *)
Example oas_real_nonvacuous :
  (hd 0 (enc_real 4596373779694328218) = 2 /\ hd 0 (enc_real 13837309855095848960) = 1
   /\ hd 0 (enc_real 4599075939470750515) = 7)%N
  /\ fin64 (b64_of_bits 4596373779694328218) = true.
Proof. split; [split; [|split]|]; vm_compute; reflexivity. Qed.

Print Assumptions oas_real_double_form_roundtrip_lemma.
Print Assumptions oas_real_reciprocal_form_roundtrip_lemma.
Print Assumptions oas_real_integer_form_roundtrip_lemma.
Print Assumptions oas_real_roundtrip_lemma.
