(* Proofs about OasisReal.v.
   - The round trip of oasis_write_real / oasis_read_real is REFUTED on the faithful model: the
     writer tests `trunc(inverse) == inverse` on the rounded quotient 1.0/value, so a value that is
     not the reciprocal of an integer can be stored as one (finding oasis_write_real:reciprocal).
   - The 8-byte form (type 7) round-trips every bit pattern. *)
Require Import Base OasisInt GdsReal GdsRealProofs OasisReal.
From Flocq Require Import Core BinarySingleNaN Binary Bits.
Local Open Scope N_scope.

(* 0.19999999999999998 = 0x3FC9999999999999 is written as "reciprocal of 5" (bytes 02 05) and read
   back as 0.2 = 0x3FC999999999999A *)
Theorem oas_real_roundtrip_refuted :
  exists v : N, dbl_finite v = true
    /\ enc_real v = [2; 5]
    /\ dec_real (enc_real v) = Ok (v + 1, [])
    /\ dec_real (enc_real v) <> Ok (v, []).
Proof.
  exists 4596373779694328217. split; [vm_compute; reflexivity|]. split; [vm_compute; reflexivity|].
  split; [vm_compute; reflexivity|]. vm_compute. intros H. discriminate H.
Qed.

(* not only neighbours of 1/n: for |v| between 2^-64 and 2^-53 every quotient 1.0/v is an
   integer-valued double, so every such v is stored as a reciprocal; here 0x3C7E36AFAF08646A
   (about 2.6e-17) comes back one unit in the last place higher *)
Theorem oas_real_roundtrip_refuted_small :
  exists v : N, dbl_finite v = true
    /\ hd 0 (enc_real v) = 2
    /\ dec_real (enc_real v) = Ok (v + 1, []).
Proof.
  exists 4358981617524958314. split; [vm_compute; reflexivity|]. split; vm_compute; reflexivity.
Qed.

(* the sign of a negative zero is not preserved (-0.0 is written as the integer 0); numerically equal *)
Theorem oas_real_negative_zero :
  enc_real 9223372036854775808 = [0; 0] /\ dec_real [0; 0] = Ok (0, []).
Proof. split; vm_compute; reflexivity. Qed.

(* ---- the 8-byte form round-trips every pattern *)
Lemma take_bytes_app l : forall rest, take_bytes (length l) (l ++ rest) = Some (l, rest).
Proof.
  induction l as [|b t IH]; intros rest; [reflexivity|].
  cbn [length take_bytes app]. rewrite IH. reflexivity.
Qed.

Lemma bytes_le_length n : forall b, length (bytes_le n b) = n.
Proof. induction n as [|k IH]; intros b; [reflexivity|]. cbn [bytes_le length]. rewrite IH. reflexivity. Qed.

Theorem oas_real_double_form_roundtrip_lemma bits rest :
  bits < 2 ^ 64 -> dec_real ((7 :: bytes_le 8 bits) ++ rest) = Ok (bits, rest).
Proof.
  intros Hb. cbn [app dec_real dec_real_by_type].
  pose proof (take_bytes_app (bytes_le 8 bits) rest) as H. rewrite bytes_le_length in H. rewrite H.
  rewrite (of_bytes_le_bytes_le 8 bits) by exact Hb. reflexivity.
Qed.

(* whenever the writer chooses the 8-byte form, the value comes back bit for bit *)
Corollary oas_real_roundtrip_when_double_form bits rest :
  bits < 2 ^ 64 -> hd 0 (enc_real bits) = 7 ->
  dec_real (enc_real bits ++ rest) = Ok (bits, rest).
Proof.
  intros Hb H7. unfold enc_real in *.
  destruct (int_magnitude_lt64 (b64_of_bits (Z.of_N bits))) as [v|].
  - cbn [hd] in H7. destruct (b64_ge0 _); discriminate.
  - destruct (int_magnitude_lt64 (b64_div mode_NE b64_one (b64_of_bits (Z.of_N bits)))) as [v|].
    + cbn [hd] in H7. destruct (b64_ge0 _); discriminate.
    + apply oas_real_double_form_roundtrip_lemma. exact Hb.
Qed.

Print Assumptions oas_real_roundtrip_refuted.
Print Assumptions oas_real_roundtrip_refuted_small.
Print Assumptions oas_real_double_form_roundtrip_lemma.
Print Assumptions oas_real_roundtrip_when_double_form.
