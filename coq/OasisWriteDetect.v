(* Statement-level model of gdstk's OASIS writer WITH the shape-detection flags (C02 / C04, writer side):
     Polygon::to_oas     src/polygon.cpp   with OASIS_CONFIG_DETECT_RECTANGLES and OASIS_CONFIG_DETECT_TRAPEZOIDS
                                           (circle_tolerance = 0: the CIRCLE branch is never taken)
     Library::write_oas  src/library.cpp   as OasisWrite.v models it, with that per-polygon routine.
   OasisWrite.v models Polygon::to_oas with both flags off (its final `else`: a POLYGON record).  Here the whole
   if / else-if chain is modelled, in the order of the C++:
       if ((flags & DETECT_RECTANGLES) && is_rectangle(points, corner, size))        RECTANGLE, square bit when w == h
       else if ((flags & DETECT_TRAPEZOIDS) && is_trapezoid(points, type, ...))       type > 25: TRAPEZOID_B / _A / _AB
                                                                                      else      : CTRAPEZOID
       else if (circle_tolerance > 0 && ...)                                          (not modelled: tolerance 0)
       else                                                                           POLYGON
       if (has_repetition) oasis_write_repetition(...);  properties_to_oas(...);
   with is_rectangle / is_trapezoid of OasisDetect.v applied to the points AFTER scale_and_round_array (the model's
   input is the library on the grid).
   OasisWrite.v does not let the per-polygon routine be exchanged, so the loops over the polygons of a cell, the cells
   of a library and write_oas itself are repeated here with the geometry record of a polygon as a parameter
   ([geom] = the record bytes and the element they denote); OasisWriteDetectProofs.write_oas_model_d_off proves that with
   both flags off this is write_oas_model, for every input.
   Definitions only. *)
Require Import Base Generated OasisInt GdsReal OasisReal OasisPlist Table PropList OasisSpec OasisWrite OasisDetect.
Local Open Scope N_scope.

(* the geometry record of one polygon (record byte ... repetition) and the element it denotes *)
Definition geom : Type := (list N * element)%type.

(* ------------------------------------------------------------------ the four branches of Polygon::to_oas *)
(* final else: POLYGON, info 0x3B *)
Definition geom_polygon (p : wpoly) : geom :=
  (OasisRecord_POLYGON :: (59 + rep_bit (py_rep p) 4) :: enc_uint (py_layer p) ++ enc_uint (py_type p) ++
     enc_point_list true (py_pts p) ++
     enc_int (fst (first_pt (py_pts p))) ++ enc_int (snd (first_pt (py_pts p))) ++ rep_field (py_rep p),
   E_poly (py_layer p) (py_type p) (rel_pts (py_pts p))
          (fst (first_pt (py_pts p))) (snd (first_pt (py_pts p))) (view_rep (py_rep p))).

(* RECTANGLE: info 0xDB (square: S W X Y D L) or 0x7B (W H X Y D L); size.x, size.y are int64_t handed to
   oasis_write_unsigned_integer *)
Definition geom_rectangle (p : wpoly) (cs : pt * pt) : geom :=
  let corner := fst cs in let size := snd cs in
  let is_square := (fst size =? snd size)%Z in
  let info := (if is_square then 219 else 123) + rep_bit (py_rep p) 4 in
  (OasisRecord_RECTANGLE :: info :: enc_uint (py_layer p) ++ enc_uint (py_type p) ++
     enc_uint (u64z (fst size)) ++ (if is_square then [] else enc_uint (u64z (snd size))) ++
     enc_int (fst corner) ++ enc_int (snd corner) ++ rep_field (py_rep p),
   rect_element (py_layer p) (py_type p) (view_rep (py_rep p)) cs).

(* `bool use_h = type < 16 || type == 20 || type == 21 || type == 24; bool use_w = type != 20 && type != 21;` *)
Definition ct_use_h (ty : N) : bool := (ty <? 16) || (ty =? 20) || (ty =? 21) || (ty =? 24).
Definition ct_use_w (ty : N) : bool := negb (ty =? 20) && negb (ty =? 21).

(* TRAPEZOID (type 26: info 0x7B, type 27: 0xFB = vertical bit) or CTRAPEZOID (info 0x9B | 0x20 use_h | 0x40 use_w) *)
Definition geom_trapezoid (p : wpoly) (t : trapres) : geom :=
  let '(ty, corner, size, da, db) := t in
  let head :=
    if 25 <? ty then
      let info := (if ty =? 26 then 123 else 251) + rep_bit (py_rep p) 4 in
      (if (da =? 0)%Z then OasisRecord_TRAPEZOID_B
       else if (db =? 0)%Z then OasisRecord_TRAPEZOID_A else OasisRecord_TRAPEZOID_AB) ::
      info :: enc_uint (py_layer p) ++ enc_uint (py_type p) ++
      enc_uint (u64z (fst size)) ++ enc_uint (u64z (snd size)) ++
      (if (da =? 0)%Z then enc_int db else if (db =? 0)%Z then enc_int da else enc_int da ++ enc_int db)
    else
      let info := 155 + (if ct_use_h ty then 32 else 0) + (if ct_use_w ty then 64 else 0) + rep_bit (py_rep p) 4 in
      OasisRecord_CTRAPEZOID :: info :: enc_uint (py_layer p) ++ enc_uint (py_type p) ++ [ty] ++
      (if ct_use_w ty then enc_uint (u64z (fst size)) else []) ++
      (if ct_use_h ty then enc_uint (u64z (snd size)) else []) in
  (head ++ enc_int (fst corner) ++ enc_int (snd corner) ++ rep_field (py_rep p),
   trap_element (py_layer p) (py_type p) (view_rep (py_rep p)) t).

(* the if / else-if chain; `flag && is_xxx(...)` evaluates the detection only when the flag is set *)
Definition geom_d (detect_rect detect_trap : bool) (p : wpoly) : geom :=
  match (if detect_rect then is_rectangle (py_pts p) else None) with
  | Some cs => geom_rectangle p cs
  | None =>
      match (if detect_trap then is_trapezoid (py_pts p) else None) with
      | Some t => geom_trapezoid p t
      | None => geom_polygon p
      end
  end.

(* ------------------------------------------------------------------ the writer around a geometry routine *)
Section Glue.
  Variable gf : wpoly -> geom.

  (* geometry record, then `properties_to_oas(properties, out, state)` *)
  Definition polygon_to_oas_g (st : pstate) (p : wpoly) : list (list N) * (element * list prop) * pstate :=
    let '(pr, pd, st') := properties_to_oas st (py_props p) in
    (fst (gf p) :: pr, (snd (gf p), pd), st').

  Fixpoint polygons_to_oas_g (st : pstate) (l : list wpoly) : list (list N) * list (element * list prop) * pstate :=
    match l with
    | [] => ([], [], st)
    | p :: t =>
        let '(r1, d1, st1) := polygon_to_oas_g st p in
        let '(r2, d2, st2) := polygons_to_oas_g st1 t in
        (r1 ++ r2, d1 :: d2, st2)
    end.

  (* OasisWrite.cell_to_oas with the polygon loop replaced *)
  Definition cell_to_oas_g (cells : list (list N)) (ts : names) (st : pstate) (c : wcell)
    : list (list N) * cell * names * pstate :=
    let index := match cell_index cells (cl_name c) with Some i => i | None => 0 end in
    let '(r1, d1, st1) := polygons_to_oas_g st (cl_polys c) in
    let '(r2, d2, st2) := flexpaths_to_oas st1 (cl_paths c) in
    let '(r3, d3, st3) := references_to_oas cells st2 (cl_refs c) in
    let '(r4, d4, ts4, st4) := labels_to_oas ts st3 (cl_labels c) in
    ((OasisRecord_CELL_REF_NUM :: enc_uint index) :: r1 ++ r2 ++ r3 ++ r4,
     mkCell (NNum index) [] (d1 ++ d2 ++ d3 ++ d4), ts4, st4).

  Fixpoint cells_to_oas_g (cells : list (list N)) (pos : N) (ts : names) (st : pstate) (l : list wcell)
    : list (list N) * list cell * list N * names * pstate :=
    match l with
    | [] => ([], [], [], ts, st)
    | c :: t =>
        let '(r1, d1, ts1, st1) := cell_to_oas_g cells ts st c in
        let '(r2, d2, o2, ts2, st2) := cells_to_oas_g cells (pos + reclen r1) ts1 st1 t in
        (r1 ++ r2, d1 :: d2, pos :: o2, ts2, st2)
    end.

  (* OasisWrite.write_oas_run with the cell loop replaced *)
  Definition write_oas_run_g (cfg : wcfg) (l : wlib) : wrun :=
    let start := start_header ++ enc_real (li_unit l) ++ [1] in
    let names := map cl_name (li_cells l) in
    let '(r_lp, d_lp, st1) := properties_to_oas pstate0 (li_props l) in
    let pos1 := N.of_nat (length start) + reclen r_lp in
    let '(r_c, d_c, offs, ts, st2) := cells_to_oas_g names pos1 names0 st1 (li_cells l) in
    let cell_name_offset := match li_cells l with [] => 0 | _ => pos1 + reclen r_c end in
    let '(r_cn, d_cn, st3) := cellnames_to_oas cfg names offs st2 (li_cells l) in
    let pos3 := pos1 + reclen r_c + reclen r_cn in
    let text_string_offset := if 0 <? nm_count ts then pos3 else 0 in
    let r_ts := numbered_name_records OasisRecord_TEXTSTRING (nm_items ts) in
    let pos4 := pos3 + reclen r_ts in
    let prop_name_offset := if 0 <? nm_count (ps_names st3) then pos4 else 0 in
    let r_pn := numbered_name_records OasisRecord_PROPNAME (nm_items (ps_names st3)) in
    let pos5 := pos4 + reclen r_pn in
    let prop_string_offset := match ps_vals st3 with [] => 0 | _ => pos5 end in
    let r_ps := propstring_records (ps_vals st3) in
    mkRun start (r_lp ++ r_c ++ r_cn ++ r_ts ++ r_pn ++ r_ps)
          (end_record_w cell_name_offset text_string_offset prop_name_offset prop_string_offset)
          (nm_fail ts || nm_fail (ps_names st3))
          d_lp d_c d_cn ts st3 offs.

  Definition write_oas_model_g (cfg : wcfg) (l : wlib) : list N :=
    let r := write_oas_run_g cfg l in
    if run_failed r then [] else run_start r ++ concat (run_records r) ++ run_end r.

  (* the layout the library denotes when its polygons are held as the elements the geometry routine selects *)
  Definition view_poly_g (p : wpoly) : element * list prop := (snd (gf p), view_props (py_props p)).
  Definition view_cell_g (cfg : wcfg) (cells : list (list N)) (offs : list N) (c : wcell) : cell :=
    mkCell (NName (cl_name c)) (view_props (cellname_props cfg c (cell_offset_of cells offs (cl_name c))))
           (map view_poly_g (cl_polys c) ++ flat_map view_path (cl_paths c) ++ map view_ref (cl_refs c) ++
            map view_label (cl_labels c)).
  Definition cell_offsets_g (cfg : wcfg) (l : wlib) : list N := run_offsets (write_oas_run_g cfg l).
  Definition view_w_g (cfg : wcfg) (l : wlib) : layout :=
    mkLayout (real_of_bits (li_unit l)) (view_props (li_props l))
             (map (view_cell_g cfg (map cl_name (li_cells l)) (cell_offsets_g cfg l)) (li_cells l)).
End Glue.

(* ------------------------------------------------------------------ the writer under a flag word *)
(* flags = (OASIS_CONFIG_DETECT_RECTANGLES set?, OASIS_CONFIG_DETECT_TRAPEZOIDS set?) *)
Definition dflags : Type := (bool * bool)%type.

(* Polygon::to_oas *)
Definition poly_to_oas_d (detect_rect detect_trap : bool) (st : pstate) (p : wpoly)
  : list (list N) * (element * list prop) * pstate :=
  polygon_to_oas_g (geom_d detect_rect detect_trap) st p.

Definition write_oas_run_d (cfg : wcfg) (flags : dflags) (l : wlib) : wrun :=
  write_oas_run_g (geom_d (fst flags) (snd flags)) cfg l.
(* Library::write_oas(file, 0, 0, flags) *)
Definition write_oas_model_d (cfg : wcfg) (flags : dflags) (l : wlib) : list N :=
  write_oas_model_g (geom_d (fst flags) (snd flags)) cfg l.
Definition cell_offsets_d (cfg : wcfg) (flags : dflags) (l : wlib) : list N :=
  cell_offsets_g (geom_d (fst flags) (snd flags)) cfg l.
(* the layout as the file holds it: a detected polygon is the RECTANGLE / TRAPEZOID / CTRAPEZOID element *)
Definition view_w_d (cfg : wcfg) (flags : dflags) (l : wlib) : layout :=
  view_w_g (geom_d (fst flags) (snd flags)) cfg l.

(* ------------------------------------------------------------------ equality of layouts up to the vertex cycle *)
(* The decoder's polygon representation of an element is [elem_points] (OasisSpec.v; OasisRead.view_elem turns each of
   E_rect / E_poly / E_trap / E_ctrap into GPolygon layer datatype (elem_points e) repetition).  Two elements are the
   same polygon when layer, datatype and repetition agree and the vertex lists are equal up to the starting vertex and
   the orientation (OasisDetect.same_cycle: one of the 8 (6) dihedral rearrangements of a 4 (3) vertex list). *)
Definition elem_ldr (e : element) : option (N * N * option srep) :=
  match e with
  | E_rect l d _ _ _ _ r | E_poly l d _ _ _ r | E_trap _ l d _ _ _ _ _ _ r | E_ctrap l d _ _ _ _ _ r => Some (l, d, r)
  | _ => None
  end.
Definition same_polygon (e e' : element) : Prop :=
  exists ldr, elem_ldr e = Some ldr /\ elem_ldr e' = Some ldr /\ same_cycle (elem_points e) (elem_points e').
Definition elem_sim (e e' : element) : Prop := e = e' \/ same_polygon e e'.
Definition ep_sim (a b : element * list prop) : Prop := elem_sim (fst a) (fst b) /\ snd a = snd b.

(* "S_CELL_OFFSET" values are positions in the file, which differ from one flag word to another: the properties of a
   cell are compared up to the values of the properties of that name *)
Definition prop_sim (p q : prop) : Prop :=
  p_name p = p_name q /\ p_std p = p_std q /\ (p_vals p = p_vals q \/ p_name p = NName s_cell_offset_name).
Definition cell_sim (c c' : cell) : Prop :=
  c_name c = c_name c' /\ Forall2 prop_sim (c_props c) (c_props c') /\ Forall2 ep_sim (c_elems c) (c_elems c').
Definition layout_sim (L L' : layout) : Prop :=
  l_unit L = l_unit L' /\ l_props L = l_props L' /\ Forall2 cell_sim (l_cells L) (l_cells L').
