Require Import Base Generated Sort.
Require Import Extraction ExtrOcamlBasic.
Extraction Blacklist List String Int.
Extraction "../ocaml/extracted/c20_sort.ml" sort intro_sort heap_sort insertion_sort partition
  cmp_lt cmp_gt cmp_key.
