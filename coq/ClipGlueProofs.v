(* ClipGlueProofs.v -- theorems about the glue gdstk adds around Clipper (models in ClipGlue.v).
   Full theorems: path_orientation_lemma, link_holes_winding_lemma, link_holes_area_lemma (one
   splice and the whole loop), collinear_foot_lemma, strips_partition_lemma, strips_cover_lemma,
   fracture_small_limit_lemma, fracture_exit_lemma.
   Conditional on Clipper's contract (Section hypotheses, closed at End Section):
   slice_partition_partial, fracture_invariant_partial, boolean_correct_partial. *)
From Coq Require Import List ZArith Bool Lia Permutation.
Import ListNotations.
Require Import Winding WindingProofs ClipGlue.
Open Scope Z_scope.

(* ------------------------------------------------------------------ polygon_to_path *)
Theorem path_orientation_lemma : forall p : polygon, shoelace2 (normalise p) >= 0.
Proof.
  intros p. unfold normalise.
  destruct (shoelace2 p <? 0) eqn:E; [apply Z.ltb_lt in E | apply Z.ltb_ge in E].
  - rewrite shoelace_rev_lemma. lia.
  - lia.
Qed.

Lemma normalise_inside : forall p q, inside (normalise p) q = inside p q.
Proof. intros p q. unfold normalise. destruct (shoelace2 p <? 0); [apply inside_rev | reflexivity]. Qed.

Lemma normalise_covers : forall ps q, covers (polygons_to_paths ps) q = covers ps q.
Proof.
  intros ps q. unfold covers, polygons_to_paths. induction ps as [|p ps IH]; [reflexivity|].
  cbn [map existsb]. rewrite normalise_inside, IH. reflexivity.
Qed.

(* A polygon is "simply wound" at q when its winding number there is 0 or the sign of its area:
   for a simple polygon this is the Jordan curve theorem; it is a premise on the inputs. *)
Definition simply_wound (p : polygon) (q : point) : Prop :=
  wn p q = 0 \/ (wn p q = 1 /\ 0 <= shoelace2 p) \/ (wn p q = -1 /\ shoelace2 p < 0).

Lemma normalise_wn01 : forall p q, simply_wound p q -> wn (normalise p) q = 0 \/ wn (normalise p) q = 1.
Proof.
  intros p q H. unfold normalise.
  destruct (shoelace2 p <? 0) eqn:E; [apply Z.ltb_lt in E | apply Z.ltb_ge in E].
  - rewrite wn_rev_lemma. destruct H as [H | [[H H'] | [H H']]]; lia.
  - destruct H as [H | [[H H'] | [H H']]]; lia.
Qed.

(* after normalisation the non-zero fill of the superposed operands is the union of the operands *)
Theorem normalised_nonzero_is_union_lemma : forall ps q,
    (forall p, In p ps -> simply_wound p q) ->
    (wn_sum (polygons_to_paths ps) q <> 0 <-> covers ps q = true).
Proof.
  intros ps q H. rewrite <- normalise_covers. apply nonzero_union_lemma.
  intros a Ha. unfold polygons_to_paths in Ha. apply in_map_iff in Ha. destruct Ha as [p [<- Hp]].
  apply normalise_wn01, H, Hp.
Qed.

(* ------------------------------------------------------------------ the keyhole splice *)
Section Splice.
  Variable f : point -> point -> Z.
  Hypothesis f_antisym : forall a b, f b a = - f a b.

  (* contour C1 ++ [pnew] ++ C2 with the closed hole loop hm .. hm spliced in after pnew and a
     second copy of pnew closing the bridge *)
  Lemma splice_cyc_sum : forall C1 C2 H1 H2 (pnew hm : point),
      cyc_sum f (C1 ++ pnew :: (hm :: H2) ++ (H1 ++ [hm]) ++ pnew :: C2)
      = cyc_sum f (C1 ++ pnew :: C2) + cyc_sum f (H1 ++ hm :: H2).
  Proof.
    intros C1 C2 H1 H2 pnew hm.
    rewrite (cyc_sum_rotate f C1 (pnew :: C2)).
    rewrite (cyc_sum_rotate f H1 (hm :: H2)).
    rewrite (cyc_sum_rotate f C1).
    cbn [app]. rewrite !cyc_sum_cons.
    repeat (first [rewrite <- app_assoc | progress (cbn [app])]).
    (* pnew :: hm :: H2 ++ H1 ++ hm :: pnew :: C2 ++ C1 ++ [pnew] *)
    replace (pnew :: hm :: H2 ++ H1 ++ hm :: pnew :: C2 ++ C1 ++ [pnew])
      with ((pnew :: hm :: H2 ++ H1) ++ hm :: (pnew :: C2 ++ C1 ++ [pnew]))
      by (cbn [app]; rewrite <- app_assoc; reflexivity).
    rewrite path_sum_app.
    change ((pnew :: hm :: H2 ++ H1) ++ [hm]) with (pnew :: hm :: (H2 ++ H1) ++ [hm]).
    rewrite (path_sum_cons2 f pnew hm), (path_sum_cons2 f hm pnew).
    rewrite <- app_assoc.
    rewrite (f_antisym pnew hm). lia.
  Qed.

  (* inserting a vertex pnew before nx adds the (signed) triangle prev, pnew, nx *)
  Lemma insert_vertex_cyc_sum : forall C1 C2 (pnew nx : point),
      cyc_sum f (C1 ++ pnew :: nx :: C2)
      = cyc_sum f (C1 ++ nx :: C2) + cyc_sum f [last (nx :: C2 ++ C1) origin; pnew; nx].
  Proof.
    intros C1 C2 pnew nx.
    rewrite (cyc_sum_rotate f C1 (pnew :: nx :: C2)), (cyc_sum_rotate f C1 (nx :: C2)).
    cbn [app]. rewrite !cyc_sum_cons.
    rewrite last_cons_default.
    set (M := C2 ++ C1). set (prev := last M nx).
    change (path_sum f (prev :: [pnew; nx] ++ [prev])) with (f prev pnew + (f pnew nx + (f nx prev + 0))).
    change (pnew :: (nx :: M) ++ [pnew]) with (pnew :: nx :: M ++ [pnew]).
    change ((nx :: M) ++ [nx]) with (nx :: M ++ [nx]).
    rewrite path_sum_cons2, !path_sum_snoc. fold prev.
    rewrite (f_antisym prev nx). lia.
  Qed.
End Splice.

Lemma firstn_S_nth : forall {A} (l : list A) m d, (m < length l)%nat ->
    firstn (S m) l = firstn m l ++ [nth m l d].
Proof.
  intros A l. induction l as [|a l IH]; intros m d H; [cbn in H; lia|].
  destruct m as [|m]; [reflexivity|].
  cbn [length] in H. change (firstn (S (S m)) (a :: l)) with (a :: firstn (S m) l).
  rewrite (IH m d) by lia. reflexivity.
Qed.

Lemma skipn_nth : forall {A} (l : list A) m d, (m < length l)%nat ->
    skipn m l = nth m l d :: skipn (S m) l.
Proof.
  intros A l. induction l as [|a l IH]; intros m d H; [cbn in H; lia|].
  destruct m as [|m]; [reflexivity|].
  cbn [length] in H. change (skipn (S m) (a :: l)) with (skipn m l).
  rewrite (IH m d) by lia. reflexivity.
Qed.

Lemma point_eqb_eq : forall p q, point_eqb p q = true <-> p = q.
Proof.
  intros [px py] [qx qy]. unfold point_eqb. cbn [fst snd].
  rewrite andb_true_iff, !Z.eqb_eq. split; [intros [-> ->]; reflexivity | intros H; inversion H; auto].
Qed.

Lemma prev_of_last : forall (C : polygon) c nx,
    (c < length C)%nat -> nth c C origin = nx ->
    prev_of C c = last (nx :: skipn (S c) C ++ firstn c C) origin.
Proof.
  intros C c nx Hc Hnx. rewrite last_cons_default.
  destruct c as [|c].
  - cbn [firstn prev_of]. rewrite app_nil_r.
    destruct C as [|a C]; [cbn in Hc; lia|]. cbn [nth] in Hnx. subst a.
    cbn [skipn]. apply last_cons_default.
  - cbn [prev_of].
    assert (Hf : firstn (S c) C = firstn c C ++ [nth c C origin]) by (apply firstn_S_nth; lia).
    rewrite Hf, app_assoc, last_last. reflexivity.
Qed.

Section SpliceModel.
  Variable f : point -> point -> Z.
  Hypothesis f_antisym : forall a b, f b a = - f a b.

  (* one execution of the insert block of link_holes *)
  Theorem splice_sum_lemma : forall (C H : polygon) c m pnew,
      (c < length C)%nat -> (m < length H)%nat ->
      cyc_sum f (splice C c H m pnew) = cyc_sum f C + cyc_sum f H + cyc_sum f (foot_triangle C c pnew).
  Proof.
    intros C H c m pnew Hc Hm.
    unfold splice, foot_triangle.
    set (nx := nth c C origin).
    assert (Hnx : nth c C pnew = nx) by (apply nth_indep, Hc).
    rewrite Hnx.
    assert (HC : C = firstn c C ++ nx :: skipn (S c) C).
    { unfold nx. rewrite <- (skipn_nth C c origin Hc). symmetry. apply firstn_skipn. }
    assert (HH : H = firstn m H ++ nth m H origin :: skipn (S m) H).
    { rewrite <- (skipn_nth H m origin Hm). symmetry. apply firstn_skipn. }
    rewrite (skipn_nth H m origin Hm), (firstn_S_nth H m origin Hm), (skipn_nth C c origin Hc).
    fold nx. set (hm := nth m H origin) in *.
    set (C1 := firstn c C) in *. set (C2 := skipn (S c) C) in *.
    set (H1 := firstn m H) in *. set (H2 := skipn (S m) H) in *.
    destruct (point_eqb pnew nx) eqn:E.
    - apply point_eqb_eq in E. subst pnew.
      change (C1 ++ [nx] ++ (hm :: H2) ++ (H1 ++ [hm]) ++ [] ++ nx :: C2)
        with (C1 ++ nx :: (hm :: H2) ++ (H1 ++ [hm]) ++ nx :: C2).
      rewrite (splice_cyc_sum f f_antisym).
      rewrite <- HC, <- HH. cbn [cyc_sum]. lia.
    - change (C1 ++ [pnew] ++ (hm :: H2) ++ (H1 ++ [hm]) ++ [pnew] ++ nx :: C2)
        with (C1 ++ pnew :: (hm :: H2) ++ (H1 ++ [hm]) ++ pnew :: (nx :: C2)).
      rewrite (splice_cyc_sum f f_antisym).
      rewrite (insert_vertex_cyc_sum f f_antisym).
      rewrite <- HC, <- HH.
      rewrite (prev_of_last C c nx Hc eq_refl). fold C1 C2. lia.
  Qed.
End SpliceModel.

(* C05 "holes are expressed by a connecting slit of zero width": the spliced polygon winds around
   every point exactly as contour + hole do, up to the sliver between the contour edge and the
   rounded bridge foot (empty when the foot is a contour vertex, see collinear_foot_lemma when it is
   exactly on the edge).  The bridge itself cancels at EVERY query point (half-open rule). *)
Theorem link_holes_winding_step_lemma : forall (C H : polygon) c m pnew q,
    (c < length C)%nat -> (m < length H)%nat ->
    wn (splice C c H m pnew) q = wn C q + wn H q + wn (foot_triangle C c pnew) q.
Proof. intros. unfold wn. apply splice_sum_lemma; [intros; apply w_antisym | assumption | assumption]. Qed.

Theorem link_holes_area_step_lemma : forall (C H : polygon) c m pnew,
    (c < length C)%nat -> (m < length H)%nat ->
    shoelace2 (splice C c H m pnew) = shoelace2 C + shoelace2 H + shoelace2 (foot_triangle C c pnew).
Proof. intros. unfold shoelace2. apply splice_sum_lemma; [intros; apply shoe_antisym | assumption | assumption]. Qed.

(* ------------------------------------------------------------------ the whole link_holes loop *)
Lemma min_index_from_bound : forall l i best besti,
    (besti < i)%nat -> (min_index_from l i best besti < i + length l)%nat.
Proof.
  induction l as [|a l IH]; intros i best besti H; cbn [min_index_from length]; [lia|].
  destruct (point_less a best).
  - specialize (IH (S i) a i). lia.
  - specialize (IH (S i) best besti). lia.
Qed.

Lemma min_index_bound : forall h : polygon, h <> [] -> (min_index h < length h)%nat.
Proof.
  intros [|a l] H; [contradiction|]. unfold min_index. cbn [length].
  pose proof (min_index_from_bound l 1 a 0). lia.
Qed.

Lemma find_edge_bound : forall hm l prev i xnew cl x c,
    (forall c0, cl = Some c0 -> (c0 < i)%nat) ->
    find_edge hm prev l i xnew cl = (x, Some c) -> (c < i + length l)%nat.
Proof.
  intros hm l. induction l as [|nx l IH]; intros prev i xnew cl x c Hcl H.
  - cbn in H. inversion H; subst. specialize (Hcl c eq_refl). lia.
  - cbn [find_edge length] in *.
    destruct (((snd nx <=? snd hm) && (snd hm <? snd prev)) || ((snd prev <? snd hm) && (snd hm <=? snd nx))).
    + match type of H with context [if ?b then _ else _] => destruct b end.
      * apply IH in H; [lia|]. intros c0 Hc0. injection Hc0 as <-. lia.
      * apply IH in H; [lia|]. intros c0 Hc0. specialize (Hcl c0 Hc0). lia.
    + match type of H with context [if ?b then _ else _] => destruct b end.
      * inversion H; subst. lia.
      * apply IH in H; [lia|]. intros c0 Hc0. specialize (Hcl c0 Hc0). lia.
Qed.

Definition cyc_total (f : point -> point -> Z) (l : list polygon) : Z := zsum (map (cyc_sum f) l).

Section LinkAll.
  Variable f : point -> point -> Z.
  Hypothesis f_antisym : forall a b, f b a = - f a b.

  Lemma link_one_sum : forall s hole,
      hole <> [] ->
      let s' := link_one s hole in
      cyc_sum f (ls_contour s') + cyc_total f (ls_linked s) + cyc_total f (ls_feet s)
      = cyc_sum f (ls_contour s) + cyc_total f (ls_linked s') + cyc_total f (ls_feet s').
  Proof.
    intros s hole Hne. unfold link_one.
    destruct (find_edge (nth (min_index hole) hole origin) (last (ls_contour s) origin) (ls_contour s) 0 0 None)
      as [xnew [c|]] eqn:E; cbn [ls_contour ls_linked ls_feet]; [|reflexivity].
    apply find_edge_bound in E; [|intros c0 Hc0; discriminate].
    rewrite (splice_sum_lemma f f_antisym); [| exact E | apply min_index_bound, Hne].
    unfold cyc_total, zsum. cbn [map fold_right]. lia.
  Qed.

  Lemma fold_link_sum : forall hs s,
      Forall (fun h => h <> []) hs ->
      let s' := fold_left link_one hs s in
      cyc_sum f (ls_contour s') + cyc_total f (ls_linked s) + cyc_total f (ls_feet s)
      = cyc_sum f (ls_contour s) + cyc_total f (ls_linked s') + cyc_total f (ls_feet s').
  Proof.
    induction hs as [|h hs IH]; intros s Hall; cbn [fold_left]; [lia|].
    inversion Hall as [|? ? Hh Hrest]; subst.
    specialize (IH (link_one s h) Hrest). cbn zeta in IH.
    pose proof (link_one_sum s h Hh) as H1. cbn zeta in H1. lia.
  Qed.
End LinkAll.

Lemma ins_rev_perm : forall x rl, Permutation (ins_rev x rl) (x :: rl).
Proof.
  intros x rl. induction rl as [|y rl IH]; cbn [ins_rev]; [apply Permutation_refl|].
  destruct (point_less (min_point x) (min_point y)).
  - eapply perm_trans; [apply perm_skip, IH | apply perm_swap].
  - apply Permutation_refl.
Qed.

Lemma sort_holes_perm : forall hs, Permutation (sort_holes hs) hs.
Proof.
  intros hs. unfold sort_holes.
  assert (G : forall l acc, Permutation (fold_left (fun acc x => ins_rev x acc) l acc) (rev l ++ acc)).
  { induction l as [|x l IH]; intros acc; cbn [fold_left rev app]; [apply Permutation_refl|].
    eapply perm_trans; [apply IH|]. rewrite <- app_assoc. cbn [app].
    apply Permutation_app_head, ins_rev_perm. }
  eapply perm_trans; [apply Permutation_sym, Permutation_rev|].
  eapply perm_trans; [apply G|]. rewrite app_nil_r. apply Permutation_sym, Permutation_rev.
Qed.

Lemma zsum_perm : forall l1 l2, Permutation l1 l2 -> zsum l1 = zsum l2.
Proof. intros l1 l2 H. unfold zsum. induction H; cbn [fold_right] in *; lia. Qed.

Lemma cyc_total_perm : forall f l1 l2, Permutation l1 l2 -> cyc_total f l1 = cyc_total f l2.
Proof. intros. unfold cyc_total. apply zsum_perm, Permutation_map. assumption. Qed.

Lemma link_all_linked : forall hs s,
    ls_error (fold_left link_one hs s) = false ->
    Permutation (ls_linked (fold_left link_one hs s)) (rev hs ++ ls_linked s) /\ ls_error s = false.
Proof.
  induction hs as [|h hs IH]; intros s H; cbn [fold_left rev app] in *.
  - split; [apply Permutation_refl | exact H].
  - apply IH in H. destruct H as [H1 H2].
    assert (K : ls_error (link_one s h) = false ->
                ls_linked (link_one s h) = h :: ls_linked s /\ ls_error s = false).
    { unfold link_one.
      destruct (find_edge (nth (min_index h) h origin) (last (ls_contour s) origin) (ls_contour s) 0 0 None)
        as [xnew [c|]]; cbn [ls_linked ls_error]; [auto | discriminate]. }
    destruct (K H2) as [K1 K2]. rewrite K1 in H1.
    split; [|exact K2]. rewrite <- app_assoc. exact H1.
Qed.

Lemma Forall_perm : forall {A} (P : A -> Prop) l1 l2, Permutation l1 l2 -> Forall P l1 -> Forall P l2.
Proof.
  intros A P l1 l2 H. rewrite !Forall_forall. intros H1 x Hx. apply H1.
  eapply Permutation_in; [apply Permutation_sym, H | exact Hx].
Qed.

(* link_holes: the final contour winds like the original contour plus every linked hole plus the
   foot slivers; when no error was raised every hole was linked *)
Theorem link_holes_winding_lemma : forall (contour : polygon) (holes : list polygon) (q : point),
    Forall (fun h => h <> []) holes ->
    let s := link_holes_state contour holes in
    wn (ls_contour s) q = wn contour q + wn_sum (ls_linked s) q + wn_sum (ls_feet s) q
    /\ (ls_error s = false -> wn_sum (ls_linked s) q = wn_sum holes q).
Proof.
  intros contour holes q Hne s. split.
  - assert (HF : Forall (fun h => h <> []) (sort_holes holes))
      by (eapply Forall_perm; [apply Permutation_sym, sort_holes_perm | exact Hne]).
    pose proof (fold_link_sum (w q) (fun a b => w_antisym q a b) (sort_holes holes)
                  (mk_link_state contour [] [] false) HF) as H.
    cbn zeta in H. cbn [ls_contour ls_linked ls_feet] in H.
    unfold cyc_total in H. unfold zsum at 1 2 in H. cbn [map fold_right] in H.
    unfold wn_sum, s, link_holes_state.
    change (fun g : polygon => wn g q) with (cyc_sum (w q)).
    unfold wn. rewrite !Z.add_0_r in H. exact H.
  - intros He. unfold s, link_holes_state in *. apply link_all_linked in He. destruct He as [He _].
    cbn [ls_linked] in He. rewrite app_nil_r in He.
    unfold wn_sum. apply zsum_perm, Permutation_map.
    eapply perm_trans; [exact He|]. eapply perm_trans; [apply Permutation_sym, Permutation_rev|].
    apply sort_holes_perm.
Qed.

Theorem link_holes_area_lemma : forall (contour : polygon) (holes : list polygon),
    Forall (fun h => h <> []) holes ->
    let s := link_holes_state contour holes in
    shoelace2 (ls_contour s)
    = shoelace2 contour + zsum (map shoelace2 (ls_linked s)) + zsum (map shoelace2 (ls_feet s))
    /\ (ls_error s = false -> zsum (map shoelace2 (ls_linked s)) = zsum (map shoelace2 holes)).
Proof.
  intros contour holes Hne s. split.
  - assert (HF : Forall (fun h => h <> []) (sort_holes holes))
      by (eapply Forall_perm; [apply Permutation_sym, sort_holes_perm | exact Hne]).
    pose proof (fold_link_sum shoe shoe_antisym (sort_holes holes) (mk_link_state contour [] [] false) HF) as H.
    cbn zeta in H. cbn [ls_contour ls_linked ls_feet] in H.
    unfold cyc_total in H. unfold zsum at 1 2 in H. cbn [map fold_right] in H.
    unfold s, link_holes_state.
    change shoelace2 with (cyc_sum shoe). rewrite !Z.add_0_r in H. exact H.
  - intros He. unfold s, link_holes_state in *. apply link_all_linked in He. destruct He as [He _].
    cbn [ls_linked] in He. rewrite app_nil_r in He.
    apply zsum_perm, Permutation_map.
    eapply perm_trans; [exact He|]. eapply perm_trans; [apply Permutation_sym, Permutation_rev|].
    apply sort_holes_perm.
Qed.

(* ------------------------------------------------------------------ a foot exactly on the edge *)
(* edge_split of DESIGN A.3: if the inserted vertex m lies on the closed segment a-b, the
   degenerate triangle a, m, b winds around no point at all: splitting an edge at a point of the
   edge changes no winding number. *)
Lemma on_seg_spec : forall p a b,
    on_seg p a b = true ->
    orient a b p = 0 /\ Z.min (fst a) (fst b) <= fst p <= Z.max (fst a) (fst b)
    /\ Z.min (snd a) (snd b) <= snd p <= Z.max (snd a) (snd b).
Proof.
  intros p a b H. unfold on_seg in H.
  rewrite !andb_true_iff, Z.eqb_eq, !Z.leb_le in H. lia.
Qed.

Theorem collinear_foot_lemma : forall a m b q : point,
    on_seg m a b = true -> wn [a; m; b] q = 0.
Proof.
  intros [ax ay] [mx my] [bx by_] [qx qy] H.
  apply on_seg_spec in H. unfold orient in H. cbn [fst snd] in H.
  destruct H as [Ho [Hx Hy]].
  unfold wn, cyc_sum. cbn [app path_sum]. unfold w, orient. cbn [fst snd].
  (* express m = a + t (b - a) through the two coordinates to keep the goals linear in q *)
  destruct (Z.le_ge_cases ay by_) as [Hay | Hay];
    [rewrite Z.min_l, Z.max_r in Hy by lia | rewrite Z.min_r, Z.max_l in Hy by lia];
  (destruct (Z.le_ge_cases ax bx) as [Hax | Hax];
    [rewrite Z.min_l, Z.max_r in Hx by lia | rewrite Z.min_r, Z.max_l in Hx by lia]);
  repeat match goal with
         | |- context [if ?c then _ else _] =>
             let E := fresh "E" in
             destruct c eqn:E;
             try (apply Z.leb_le in E); try (apply Z.leb_gt in E);
             try (apply Z.ltb_lt in E); try (apply Z.ltb_ge in E)
         end; try lia; exfalso; nia.
Qed.

(* ------------------------------------------------------------------ slice: strips *)
Definition le_head (pos : Z) (cuts : list Z) : Prop :=
  match cuts with
  | [] => True
  | c :: _ => pos <= c
  end.

Lemma sortedZ_tail : forall c t, sortedZ (c :: t) -> sortedZ t /\ le_head c t.
Proof. intros c [|d t] H; cbn in *; [auto | tauto]. Qed.

Lemma strips_length : forall cuts pos bb1, length (strips pos bb1 cuts) = S (length cuts).
Proof. induction cuts as [|c t IH]; intros; cbn [strips length]; [reflexivity | rewrite IH; reflexivity]. Qed.

Lemma strips_left_empty : forall cuts pos bb1 x,
    sortedZ cuts -> le_head pos cuts -> x <= pos -> x < bb1 ->
    count_true (strictly_in x) (strips pos bb1 cuts) = 0.
Proof.
  induction cuts as [|c t IH]; intros pos bb1 x Hs Hh Hx Hb; cbn [strips count_true].
  - destruct (pos =? bb1) eqn:E; cbn [strictly_in]; [reflexivity|].
    destruct ((Z.min pos bb1 <? x) && (x <? Z.max pos bb1)) eqn:F; [|reflexivity].
    rewrite andb_true_iff, !Z.ltb_lt in F. lia.
  - cbn [le_head] in Hh. apply sortedZ_tail in Hs. destruct Hs as [Hs Hh'].
    rewrite (IH c bb1 x Hs Hh') by lia.
    destruct (c =? pos); cbn [strictly_in]; [reflexivity|].
    destruct ((Z.min pos c <? x) && (x <? Z.max pos c)) eqn:F; [|reflexivity].
    rewrite andb_true_iff, !Z.ltb_lt in F. lia.
Qed.

Lemma strips_right_one : forall cuts pos bb1 x,
    sortedZ cuts -> le_head pos cuts -> pos < x -> x < bb1 ->
    (count_true (strictly_in x) (strips pos bb1 cuts) = 0 \/ count_true (strictly_in x) (strips pos bb1 cuts) = 1)
    /\ (~ In x cuts -> count_true (strictly_in x) (strips pos bb1 cuts) = 1).
Proof.
  induction cuts as [|c t IH]; intros pos bb1 x Hs Hh Hx Hb; cbn [strips count_true].
  - assert (E : (pos =? bb1) = false) by (apply Z.eqb_neq; lia). rewrite E. cbn [strictly_in].
    assert (F : (Z.min pos bb1 <? x) && (x <? Z.max pos bb1) = true)
      by (rewrite andb_true_iff, !Z.ltb_lt; lia).
    rewrite F. split; [right; reflexivity | intros _; reflexivity].
  - cbn [le_head] in Hh. apply sortedZ_tail in Hs. destruct Hs as [Hs Hh'].
    destruct (c =? pos) eqn:E; [apply Z.eqb_eq in E | apply Z.eqb_neq in E]; cbn [strictly_in].
    + subst c. destruct (IH pos bb1 x Hs Hh' Hx Hb) as [I1 I2].
      split; [lia|]. intros Hn. rewrite I2; [reflexivity|]. intros Hin. apply Hn. right. exact Hin.
    + destruct (Z.lt_trichotomy x c) as [Hlt | [Heq | Hgt]].
      * assert (F : (Z.min pos c <? x) && (x <? Z.max pos c) = true)
          by (rewrite andb_true_iff, !Z.ltb_lt; lia).
        rewrite F. rewrite (strips_left_empty t c bb1 x Hs Hh') by lia.
        split; [right; reflexivity | intros _; reflexivity].
      * assert (F : (Z.min pos c <? x) && (x <? Z.max pos c) = false)
          by (rewrite andb_false_iff, !Z.ltb_ge; lia).
        rewrite F. rewrite (strips_left_empty t c bb1 x Hs Hh') by lia.
        split; [left; reflexivity|]. intros Hn. exfalso. apply Hn. left. lia.
      * assert (F : (Z.min pos c <? x) && (x <? Z.max pos c) = false)
          by (rewrite andb_false_iff, !Z.ltb_ge; lia).
        rewrite F. destruct (IH c bb1 x Hs Hh' Hgt Hb) as [I1 I2].
        split; [lia|]. intros Hn. rewrite I2; [reflexivity|]. intros Hin. apply Hn. right. exact Hin.
Qed.

(* C12 slice: for any sorted cut list -- including cuts below, on or above the bounding box, and
   repeated cuts -- a coordinate strictly inside the box lies strictly inside at most one strip, and
   in exactly one unless it is a cut position: the strips overlap only on their common edges *)
Theorem strips_partition_lemma : forall cuts bb0 bb1 x,
    sortedZ cuts -> bb0 < x < bb1 ->
    count_true (strictly_in x) (strips bb0 bb1 cuts) <= 1
    /\ (~ In x cuts -> count_true (strictly_in x) (strips bb0 bb1 cuts) = 1).
Proof.
  intros cuts bb0 bb1 x Hs [Hx0 Hx1].
  destruct cuts as [|c t].
  - destruct (strips_right_one [] bb0 bb1 x Hs I Hx0 Hx1) as [H1 H2]. split; [lia | exact H2].
  - destruct (Z.le_gt_cases bb0 c) as [Hle | Hgt].
    + destruct (strips_right_one (c :: t) bb0 bb1 x Hs Hle Hx0 Hx1) as [H1 H2]. split; [lia | exact H2].
    + (* first cut below the box: the first strip is the reversed rectangle c..bb0 *)
      cbn [strips count_true].
      assert (E : (c =? bb0) = false) by (apply Z.eqb_neq; lia). rewrite E. cbn [strictly_in].
      assert (F : (Z.min bb0 c <? x) && (x <? Z.max bb0 c) = false)
        by (rewrite andb_false_iff, !Z.ltb_ge; lia).
      rewrite F. apply sortedZ_tail in Hs. destruct Hs as [Hs Hh'].
      destruct (strips_right_one t c bb1 x Hs Hh') as [H1 H2]; [lia | lia |].
      split; [lia|]. intros Hn. rewrite H2; [reflexivity|]. intros Hin. apply Hn. right. exact Hin.
Qed.

(* ... and together they cover the whole extent of the bounding box (no sortedness needed) *)
Lemma strips_cover_from : forall cuts pos bb1 x,
    pos <= x <= bb1 -> pos < bb1 -> existsb (within x) (strips pos bb1 cuts) = true.
Proof.
  induction cuts as [|c t IH]; intros pos bb1 x Hx Hp; cbn [strips existsb].
  - assert (E : (pos =? bb1) = false) by (apply Z.eqb_neq; lia). rewrite E. cbn [within].
    rewrite orb_false_r, andb_true_iff, !Z.leb_le. lia.
  - destruct (c =? pos) eqn:E; [apply Z.eqb_eq in E | apply Z.eqb_neq in E]; cbn [within].
    + subst c. cbn [orb]. apply IH; assumption.
    + destruct ((Z.min pos c <=? x) && (x <=? Z.max pos c)) eqn:F; [reflexivity|].
      cbn [orb]. rewrite andb_false_iff, !Z.leb_gt in F. apply IH; lia.
Qed.

Theorem strips_cover_lemma : forall cuts bb0 bb1 x,
    bb0 < bb1 -> bb0 <= x <= bb1 -> existsb (within x) (strips bb0 bb1 cuts) = true.
Proof. intros. apply strips_cover_from; assumption. Qed.

(* ------------------------------------------------------------------ fracture: the work list *)
Theorem fracture_small_limit_lemma : forall chop max_points fuel poly,
    (max_points <= 4)%nat -> fracture chop max_points fuel poly = FracDone [].
Proof.
  intros chop mp fuel poly H. unfold fracture.
  destruct (Nat.leb mp 4) eqn:E; [reflexivity|]. apply Nat.leb_gt in E. lia.
Qed.

(* the writer: with a limit below five the polygon is written as it is *)
Theorem to_gds_small_limit_lemma : forall chop max_points fuel poly,
    (max_points <= 4)%nat -> to_gds_polygons chop max_points fuel poly = FracDone [poly].
Proof.
  intros chop mp fuel poly H. unfold to_gds_polygons.
  destruct (Nat.ltb 4 mp) eqn:E; [apply Nat.ltb_lt in E; lia | reflexivity].
Qed.

Lemma remove_unordered_shape : forall {A} i (l : list A),
    l <> [] -> exists R z, l = R ++ [z] /\
    remove_unordered i l = if Nat.eqb (S i) (length l) then R else firstn i l ++ z :: skipn (S i) R.
Proof.
  intros A i l H. destruct l as [|d l']; [contradiction|].
  exists (removelast (d :: l')), (last (d :: l') d). split.
  - apply app_removelast_last. discriminate.
  - reflexivity.
Qed.

Lemma remove_unordered_prefix : forall {A} i (l : list A),
    (i < length l)%nat -> exists X, remove_unordered i l = firstn i l ++ X.
Proof.
  intros A i l H.
  destruct (remove_unordered_shape i l) as [R [z [Hl Hr]]]; [destruct l; [cbn in H; lia | discriminate]|].
  rewrite Hr. subst l. rewrite app_length in *. cbn [length] in *.
  destruct (Nat.eqb (S i) (length R + 1)) eqn:E; [apply Nat.eqb_eq in E | apply Nat.eqb_neq in E].
  - exists []. rewrite app_nil_r, firstn_app.
    replace (i - length R)%nat with 0%nat by lia. rewrite firstn_O, app_nil_r.
    replace i with (length R) by lia. rewrite firstn_all. reflexivity.
  - eexists. reflexivity.
Qed.

Lemma nth_error_split_at : forall {A} (R : list A) i x,
    nth_error R i = Some x -> R = firstn i R ++ x :: skipn (S i) R.
Proof.
  intros A R. induction R as [|a R IH]; intros [|i] x H; cbn in *; try discriminate.
  - congruence.
  - f_equal. apply IH, H.
Qed.

Lemma remove_unordered_perm : forall {A} i (l : list A) x,
    nth_error l i = Some x -> Permutation (x :: remove_unordered i l) l.
Proof.
  intros A i l x Hn.
  assert (Hi : (i < length l)%nat) by (apply nth_error_Some; rewrite Hn; discriminate).
  destruct (remove_unordered_shape i l) as [R [z [Hl Hr]]]; [destruct l; [cbn in Hi; lia | discriminate]|].
  rewrite Hr. subst l. rewrite app_length in *. cbn [length] in *.
  destruct (Nat.eqb (S i) (length R + 1)) eqn:E; [apply Nat.eqb_eq in E | apply Nat.eqb_neq in E].
  - (* the last element itself *)
    rewrite nth_error_app2 in Hn by lia.
    replace (i - length R)%nat with 0%nat in Hn by lia. cbn [nth_error] in Hn.
    injection Hn as <-. apply Permutation_cons_append.
  - assert (HiR : (i < length R)%nat) by lia.
    rewrite nth_error_app1 in Hn by exact HiR.
    rewrite firstn_app. replace (i - length R)%nat with 0%nat by lia.
    rewrite firstn_O, app_nil_r.
    rewrite (nth_error_split_at R i x Hn) at 3.
    rewrite <- app_assoc. cbn [app].
    apply Permutation_cons_app.
    apply Permutation_app_head.
    apply Permutation_cons_append.
Qed.

Lemma nth_error_firstn_S : forall {A} (l : list A) i x,
    nth_error l i = Some x -> firstn (S i) l = firstn i l ++ [x].
Proof.
  intros A l. induction l as [|a l IH]; intros [|i] x H; cbn in *; try discriminate.
  - congruence.
  - rewrite (IH i x H). reflexivity.
Qed.

Section FractureFacts.
  Variable chop : polygon -> list polygon.
  Variable max_points : nat.
  Let small (pc : polygon) : Prop := (length pc <= max_points)%nat.

  Lemma frac_loop_exit : forall fuel i result pieces,
      Forall small (firstn i result) ->
      frac_loop chop max_points fuel i result = FracDone pieces -> Forall small pieces.
  Proof.
    induction fuel as [|fuel IH]; intros i result pieces Hpre H; cbn [frac_loop] in H; [discriminate|].
    destruct (nth_error result i) as [subj|] eqn:E.
    - destruct (Nat.leb (length subj) max_points) eqn:F.
      + apply (IH (S i) result pieces); [|exact H].
        rewrite (nth_error_firstn_S result i subj E). apply Forall_app. split; [exact Hpre|].
        constructor; [apply Nat.leb_le in F; exact F | constructor].
      + apply (IH i (remove_unordered i result ++ chop subj) pieces); [|exact H].
        assert (Hi : (i < length result)%nat) by (apply nth_error_Some; rewrite E; discriminate).
        destruct (remove_unordered_prefix i result Hi) as [X HX]. rewrite HX.
        rewrite <- app_assoc, firstn_app.
        assert (Hlen : length (firstn i result) = i) by (apply firstn_length_le; lia).
        rewrite Hlen, Nat.sub_diag, firstn_O, app_nil_r.
        rewrite <- Hlen at 1. rewrite firstn_all. exact Hpre.
    - injection H as <-. apply nth_error_None in E.
      rewrite firstn_all2 in Hpre by exact E. exact Hpre.
  Qed.

  (* C12: when fracture returns, every piece respects the vertex limit (termination is not
     claimed: the model has fuel and the harness runs the real loop under an alarm) *)
  Theorem fracture_exit_lemma : forall fuel poly pieces,
      fracture chop max_points fuel poly = FracDone pieces ->
      Forall (fun pc => (length pc <= max_points)%nat) pieces.
  Proof.
    intros fuel poly pieces H. unfold fracture in H.
    destruct (Nat.leb max_points 4); [injection H as <-; constructor|].
    apply (frac_loop_exit fuel 0 [poly] pieces); [constructor | exact H].
  Qed.
End FractureFacts.

Lemma cover_count_app : forall a b q, cover_count (a ++ b) q = cover_count a q + cover_count b q.
Proof.
  intros a b q. unfold cover_count, zsum. induction a as [|x a IH]; cbn [app map fold_right]; [lia|].
  rewrite IH. lia.
Qed.

Lemma cover_count_perm : forall a b q, Permutation a b -> cover_count a q = cover_count b q.
Proof. intros a b q H. unfold cover_count. apply zsum_perm, Permutation_map, H. Qed.

Lemma cover_count_cons : forall x a q, cover_count (x :: a) q = (if inside x q then 1 else 0) + cover_count a q.
Proof. intros. reflexivity. Qed.

(* Conditional on the contract of the slicing step (slice() through Clipper, see
   slice_partition_partial below): if at the point q every chop partitions its subject, then at
   every step of the loop, and in the final result, exactly the pieces' cover count equals that of
   the original: they cover the original and do not overlap one another at q. *)
Section FractureInvariant.
  Variable chop : polygon -> list polygon.
  Variable max_points : nat.
  Variable q : point.
  Hypothesis chop_partitions_at_q : forall subj, cover_count (chop subj) q = cover_count [subj] q.

  Lemma frac_loop_invariant : forall fuel i result pieces,
      frac_loop chop max_points fuel i result = FracDone pieces ->
      cover_count pieces q = cover_count result q.
  Proof.
    induction fuel as [|fuel IH]; intros i result pieces H; cbn [frac_loop] in H; [discriminate|].
    destruct (nth_error result i) as [subj|] eqn:E.
    - destruct (Nat.leb (length subj) max_points).
      + apply (IH _ _ _ H).
      + rewrite (IH _ _ _ H). rewrite cover_count_app, chop_partitions_at_q.
        rewrite <- (cover_count_perm _ _ q (remove_unordered_perm i result subj E)).
        rewrite (cover_count_cons subj (remove_unordered i result)).
        rewrite (cover_count_cons subj []).
        change (cover_count [] q) with 0. destruct (inside subj q); lia.
    - injection H as <-. reflexivity.
  Qed.

  Theorem fracture_invariant_partial : forall fuel poly pieces,
      (4 < max_points)%nat ->
      fracture chop max_points fuel poly = FracDone pieces ->
      cover_count pieces q = if inside poly q then 1 else 0.
  Proof.
    intros fuel poly pieces Hmp H. unfold fracture in H.
    destruct (Nat.leb max_points 4) eqn:E; [apply Nat.leb_le in E; lia|].
    rewrite (frac_loop_invariant _ _ _ _ H). rewrite cover_count_cons.
    change (cover_count [] q) with 0. destruct (inside poly q); lia.
  Qed.
End FractureInvariant.

(* ------------------------------------------------------------------ slice through the Clipper contract *)
Section SlicePartial.
  (* clip_and subject rectangle = tree_to_polygons (Clipper.Execute ctIntersection ...) *)
  Variable clip_and : polygon -> polygon -> list polygon.
  Variables y0 y1 : Z.                         (* extent of the bounding box on the other axis *)
  Variable q : point.
  (* Clipper's contract at the query point q, for the rectangles slice() builds: the output
     polygons do not overlap and cover exactly subject /\ rectangle *)
  Hypothesis clip_and_spec_at_q : forall subj lo hi,
      cover_count (clip_and subj (rect lo hi y0 y1)) q
      = if inside subj q && inside (rect lo hi y0 y1) q then 1 else 0.

  Definition slice_x (subj : polygon) (bb0 bb1 : Z) (cuts : list Z) : list (list polygon) :=
    map (fun s => match s with
                  | None => []
                  | Some (lo, hi) => clip_and subj (rect lo hi y0 y1)
                  end) (strips bb0 bb1 cuts).

  Lemma rect_inside_strict : forall lo hi,
      lo <> hi -> y0 <= snd q < y1 -> fst q <> lo -> fst q <> hi ->
      inside (rect lo hi y0 y1) q = strictly_in (fst q) (Some (lo, hi)).
  Proof.
    intros lo hi Hne Hy Hlo Hhi. destruct q as [qx qy]. cbn [fst snd] in *.
    unfold inside. cbn [strictly_in].
    destruct (Z.lt_trichotomy lo hi) as [Hlt | [Heq | Hgt]]; [| contradiction |].
    - rewrite rect_wn_lemma by lia.
      rewrite Z.min_l, Z.max_r by lia.
      destruct (lo <=? qx) eqn:A1; destruct (qx <? hi) eqn:A2;
        destruct (y0 <=? qy) eqn:A3; destruct (qy <? y1) eqn:A4;
        destruct (lo <? qx) eqn:A5; cbn;
        try (apply Z.leb_le in A1); try (apply Z.leb_gt in A1);
        try (apply Z.ltb_lt in A2); try (apply Z.ltb_ge in A2);
        try (apply Z.leb_le in A3); try (apply Z.leb_gt in A3);
        try (apply Z.ltb_lt in A4); try (apply Z.ltb_ge in A4);
        try (apply Z.ltb_lt in A5); try (apply Z.ltb_ge in A5); try reflexivity; lia.
    - rewrite rect_wn_rev_lemma by lia.
      rewrite Z.min_r, Z.max_l by lia.
      destruct (hi <=? qx) eqn:A1; destruct (qx <? lo) eqn:A2;
        destruct (y0 <=? qy) eqn:A3; destruct (qy <? y1) eqn:A4;
        destruct (hi <? qx) eqn:A5; cbn;
        try (apply Z.leb_le in A1); try (apply Z.leb_gt in A1);
        try (apply Z.ltb_lt in A2); try (apply Z.ltb_ge in A2);
        try (apply Z.leb_le in A3); try (apply Z.leb_gt in A3);
        try (apply Z.ltb_lt in A4); try (apply Z.ltb_ge in A4);
        try (apply Z.ltb_lt in A5); try (apply Z.ltb_ge in A5); try reflexivity; lia.
  Qed.

  Lemma strips_bounds_in : forall cuts pos bb1 lo hi,
      In (Some (lo, hi)) (strips pos bb1 cuts) ->
      lo <> hi /\ (lo = pos \/ In lo cuts) /\ (hi = bb1 \/ In hi cuts).
  Proof.
    induction cuts as [|c t IH]; intros pos bb1 lo hi H; cbn [strips In] in H.
    - destruct H as [H | []]. destruct (pos =? bb1) eqn:E; [discriminate|].
      apply Z.eqb_neq in E. injection H as <- <-. auto.
    - destruct H as [H | H].
      + destruct (c =? pos) eqn:E; [discriminate|]. apply Z.eqb_neq in E.
        injection H as <- <-. split; [lia|]. split; [left; reflexivity | right; left; reflexivity].
      + apply IH in H. destruct H as [H1 [H2 H3]]. split; [exact H1|]. split.
        * right. destruct H2 as [-> | H2]; [left; reflexivity | right; exact H2].
        * destruct H3 as [-> | H3]; [left; reflexivity | right; right; exact H3].
  Qed.

  Lemma slice_sum : forall subj (ss : list (option (Z * Z))),
      y0 <= snd q < y1 ->
      (forall lo hi, In (Some (lo, hi)) ss -> lo <> hi /\ fst q <> lo /\ fst q <> hi) ->
      zsum (map (fun pcs => cover_count pcs q)
                (map (fun s => match s with
                               | None => []
                               | Some (lo, hi) => clip_and subj (rect lo hi y0 y1)
                               end) ss))
      = if inside subj q then count_true (strictly_in (fst q)) ss else 0.
  Proof.
    intros subj ss Hy. induction ss as [|s ss IH]; intros Hall; cbn [map zsum fold_right count_true].
    - destruct (inside subj q); reflexivity.
    - fold (zsum (map (fun pcs => cover_count pcs q)
                      (map (fun s => match s with
                                     | None => []
                                     | Some (lo, hi) => clip_and subj (rect lo hi y0 y1)
                                     end) ss))).
      rewrite IH by (intros lo hi Hin; apply Hall; right; exact Hin).
      destruct s as [[lo hi]|].
      + destruct (Hall lo hi (or_introl eq_refl)) as [H1 [H2 H3]].
        rewrite clip_and_spec_at_q, (rect_inside_strict lo hi H1 Hy H2 H3).
        destruct (inside subj q); cbn [andb]; [|reflexivity].
        destruct (strictly_in (fst q) (Some (lo, hi))); reflexivity.
      + cbn [strictly_in]. unfold cover_count at 1. cbn. destruct (inside subj q); lia.
  Qed.

  (* C12 "slicing at a sorted list of positions returns, per interval, exactly the part of the
     polygon lying between the two cuts": at a point strictly inside the bounding box and on no
     cut line, the pieces of all intervals together cover q exactly as often as the subject does
     (once or not at all), so exactly one interval holds it and the intervals do not overlap *)
  Theorem slice_partition_partial : forall subj bb0 bb1 cuts,
      sortedZ cuts -> bb0 < fst q < bb1 -> y0 <= snd q < y1 -> ~ In (fst q) cuts ->
      zsum (map (fun pcs => cover_count pcs q) (slice_x subj bb0 bb1 cuts))
      = if inside subj q then 1 else 0.
  Proof.
    intros subj bb0 bb1 cuts Hs Hx Hy Hn. unfold slice_x.
    rewrite slice_sum; [| exact Hy |].
    - destruct (strips_partition_lemma cuts bb0 bb1 (fst q) Hs Hx) as [_ H1].
      rewrite (H1 Hn). reflexivity.
    - intros lo hi Hin. apply strips_bounds_in in Hin. destruct Hin as [H1 [H2 H3]].
      split; [exact H1|]. split.
      + destruct H2 as [-> | H2]; [lia | intros Heq; rewrite Heq in Hn; contradiction].
      + destruct H3 as [-> | H3]; [lia | intros Heq; rewrite Heq in Hn; contradiction].
  Qed.
End SlicePartial.

(* ------------------------------------------------------------------ tree_to_polygons *)
Lemma node_outputs_flat : forall t b, node_outputs b t = map node_out (outer_nodes b t).
Proof.
  fix IH 1. intros [c ch] b. cbn [node_outputs outer_nodes].
  rewrite map_app. f_equal.
  - destruct b; [reflexivity|]. cbn [map]. unfold node_out. cbn [fst snd].
    destruct ch; reflexivity.
  - generalize (negb b). clear c. revert ch. fix IHl 1. intros [|x r] b'.
    + reflexivity.
    + rewrite map_app, <- IH, <- IHl. reflexivity.
Qed.

Theorem tree_to_polygons_flat_lemma : forall top,
    tree_to_polygons top = map node_out (flat_map (outer_nodes false) top).
Proof.
  intros top. unfold tree_to_polygons. induction top as [|t top IH]; [reflexivity|].
  cbn [flat_map]. rewrite map_app, <- IH, node_outputs_flat. reflexivity.
Qed.

(* ------------------------------------------------------------------ boolean through the Clipper contract *)
(* region of a node of the poly-tree: its contour minus its direct holes *)
Definition node_region (n : polygon * list polygon) (q : point) : Z := wn (fst n) q + wn_sum (snd n) q.

Section BooleanPartial.
  Variable op : bool -> bool -> bool.          (* the Boolean combination: GeomOracle.bop o *)
  (* Clipper::Execute(op, tree, pftNonZero, pftNonZero) as the list of (outer contour, holes) *)
  Variable clip : list polygon -> list polygon -> list ptree.
  Variable q : point.
  Variables A B : list polygon.
  Let nodes := flat_map (outer_nodes false) (clip (polygons_to_paths A) (polygons_to_paths B)).

  (* Contract of Clipper at q for these operands: holes are non-empty paths, and some outer node's
     region (contour minus direct holes) contains q exactly when the non-zero-fill combination of
     the two path sets does. *)
  Hypothesis holes_nonempty : forall n, In n nodes -> Forall (fun h => h <> []) (snd n).
  Hypothesis clip_spec_at_q :
    (exists n, In n nodes /\ node_region n q <> 0)
    <-> op (negb (wn_sum (polygons_to_paths A) q =? 0)) (negb (wn_sum (polygons_to_paths B) q =? 0)) = true.
  (* q is off the foot slivers of the bridges and no hole failed to link *)
  Hypothesis off_feet : forall n, In n nodes ->
      wn_sum (ls_feet (link_holes_state (fst n) (snd n))) q = 0
      /\ ls_error (link_holes_state (fst n) (snd n)) = false.
  (* inputs: simple polygons (Jordan), of either orientation *)
  Hypothesis inputs_simple : forall p, In p (A ++ B) -> simply_wound p q.

  Definition boolean_model : list polygon :=
    tree_to_polygons (clip (polygons_to_paths A) (polygons_to_paths B)).

  Lemma node_out_wn : forall n, In n nodes -> wn (node_out n) q = node_region n q.
  Proof.
    intros [c hs] Hin. unfold node_out, node_region. cbn [fst snd].
    destruct hs as [|h hs]; [unfold wn_sum; cbn; lia|].
    unfold link_holes. cbn [fst].
    destruct (link_holes_winding_lemma c (h :: hs) q (holes_nonempty _ Hin)) as [H1 H2].
    destruct (off_feet _ Hin) as [F1 F2]. cbn [fst snd] in *.
    rewrite H1, F1, (H2 F2). lia.
  Qed.

  Lemma nonzero_bool : forall ps, (forall p, In p ps -> simply_wound p q) ->
      negb (wn_sum (polygons_to_paths ps) q =? 0) = covers ps q.
  Proof.
    intros ps H. pose proof (normalised_nonzero_is_union_lemma ps q H) as E.
    destruct (wn_sum (polygons_to_paths ps) q =? 0) eqn:Z0; [apply Z.eqb_eq in Z0 | apply Z.eqb_neq in Z0]; cbn [negb].
    - destruct (covers ps q); [|reflexivity]. exfalso. apply (proj2 E); [reflexivity | exact Z0].
    - symmetry. apply E, Z0.
  Qed.

  (* C05, conditional on Clipper's contract: the polygons gdstk returns cover q exactly when the
     Boolean combination of "A covers q" and "B covers q" holds *)
  Theorem boolean_correct_partial : covers boolean_model q = op (covers A q) (covers B q).
  Proof.
    unfold boolean_model. rewrite tree_to_polygons_flat_lemma. fold nodes.
    rewrite <- (nonzero_bool A) by (intros p Hp; apply inputs_simple, in_or_app; left; exact Hp).
    rewrite <- (nonzero_bool B) by (intros p Hp; apply inputs_simple, in_or_app; right; exact Hp).
    destruct (op (negb (wn_sum (polygons_to_paths A) q =? 0)) (negb (wn_sum (polygons_to_paths B) q =? 0))) eqn:E.
    - destruct (proj2 clip_spec_at_q eq_refl) as [n [Hin Hnz]].
      unfold covers. apply existsb_exists. exists (node_out n). split.
      + apply in_map, Hin.
      + unfold inside. rewrite (node_out_wn n Hin). apply negb_true_iff, Z.eqb_neq, Hnz.
    - destruct (covers (map node_out nodes) q) eqn:C; [|reflexivity].
      unfold covers in C. apply existsb_exists in C. destruct C as [o [Ho Hi]].
      apply in_map_iff in Ho. destruct Ho as [n [<- Hin]].
      unfold inside in Hi. rewrite (node_out_wn n Hin) in Hi. apply negb_true_iff, Z.eqb_neq in Hi.
      assert (T : false = true); [|discriminate T].
      apply clip_spec_at_q. exists n. split; assumption.
  Qed.

  (* ... and the outputs do not overlap at q: the winding numbers of the outputs add up to 0 or 1
     whenever the node regions do *)
  Theorem boolean_no_overlap_partial :
      (zsum (map (fun n => node_region n q) nodes) = 0 \/ zsum (map (fun n => node_region n q) nodes) = 1) ->
      wn_sum boolean_model q = 0 \/ wn_sum boolean_model q = 1.
  Proof.
    intros H. unfold boolean_model. rewrite tree_to_polygons_flat_lemma. fold nodes.
    unfold wn_sum. rewrite map_map.
    assert (E : map (fun x => wn (node_out x) q) nodes = map (fun n => node_region n q) nodes).
    { apply map_ext_in. intros n Hn. apply node_out_wn, Hn. }
    rewrite E. exact H.
  Qed.
End BooleanPartial.

(* ------------------------------------------------------------------ the hypotheses are satisfiable *)
Example link_holes_square_with_hole :
  let c := rect 0 10 0 10 in
  let h := rev (rect 4 6 4 6) in
  link_holes c [h] = ([(0, 4); (4, 4); (4, 6); (6, 6); (6, 4); (4, 4); (0, 4); (0, 0); (10, 0); (10, 10); (0, 10)], false)
  /\ wn (fst (link_holes c [h])) (5, 5) = 0 /\ wn (fst (link_holes c [h])) (2, 5) = 1
  /\ shoelace2 (fst (link_holes c [h])) = 200 - 8.
Proof. vm_compute. repeat split. Qed.

Example strips_example :
  strips 0 10 [-5; 3; 3; 7; 12] = [Some (0, -5); Some (-5, 3); None; Some (3, 7); Some (7, 12); Some (12, 10)]
  /\ sortedZ [-5; 3; 3; 7; 12].
Proof. vm_compute. repeat split; discriminate. Qed.

Example fracture_example :
  fracture (fun p => [firstn 3 p; skipn 2 p]) 5 10 [(0,0); (1,0); (2,0); (3,0); (4,0); (5,0); (6, 0)]
  = FracDone [[(0, 0); (1, 0); (2, 0)]; [(2, 0); (3, 0); (4, 0); (5, 0); (6, 0)]].
Proof. vm_compute. reflexivity. Qed.

Print Assumptions path_orientation_lemma.
Print Assumptions normalised_nonzero_is_union_lemma.
Print Assumptions link_holes_winding_step_lemma.
Print Assumptions link_holes_area_step_lemma.
Print Assumptions link_holes_winding_lemma.
Print Assumptions link_holes_area_lemma.
Print Assumptions collinear_foot_lemma.
Print Assumptions strips_partition_lemma.
Print Assumptions strips_cover_lemma.
Print Assumptions fracture_small_limit_lemma.
Print Assumptions to_gds_small_limit_lemma.
Print Assumptions fracture_exit_lemma.
Print Assumptions fracture_invariant_partial.
Print Assumptions slice_partition_partial.
Print Assumptions tree_to_polygons_flat_lemma.
Print Assumptions boolean_correct_partial.
Print Assumptions boolean_no_overlap_partial.
