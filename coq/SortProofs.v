(* Proofs about the model of include/gdstk/sort.hpp (Sort.v).

   Main results (end of file); `irreflexive lt` is `forall x, lt x x = false`, transitivity is NOT
   needed for "no crash" and "permutation", only for "sorted":
     insertion_sort_lemma             EVERY comparator: returns (no Crash/Hang), permutation;
                                      strict weak order: sorted
     partition_permutation_lemma      EVERY comparator: whatever partition returns is a permutation and
                                      a cut point in [1, count]
     partition_lemma                  irreflexive: returns, 1 <= p <= count-1, permutation;
                                      strict weak order: left part <= pivot <= right part
     heap_sort_lemma                  irreflexive: returns, permutation; strict weak order: sorted
     intro_sort_thr_lemma             the same for intro_sort with EVERY threshold and EVERY max_depth
     sort_no_crash_lemma              irreflexive: sort returns Ok
     sort_permutation_lemma           irreflexive: the result is a permutation of the input
     sort_sorted_lemma                strict weak order: the result is sorted (Sorted and StronglySorted)
     sort_ordered_permutation_lemma   the property as stated: strict weak order -> ordered permutation
     heap_sort_needs_irreflexive_refuted, sort_needs_irreflexive_refuted
                                      irreflexivity cannot be dropped: with a comparator that has
                                      lt 1 1 = true heap_sort returns a list that has LOST an element;
                                      with "always true" partition runs off the array (Crash).
   Nothing is partial: all three regimes (insertion, quick/partition, bottom-up heap) are proved. *)
Require Import Base Generated Sort.
From Coq Require Import Permutation Sorted.
Local Open Scope Z_scope.

Ltac Zify.zify_post_hook ::= Z.div_mod_to_equations.

(* ------------------------------------------------------------------ orders *)
Definition irreflexive {A} (lt : A -> A -> bool) : Prop := forall x, lt x x = false.

Record strict_weak_order {A} (lt : A -> A -> bool) : Prop := {
  swo_irrefl : forall x, lt x x = false;
  swo_trans : forall x y z, lt x y = true -> lt y z = true -> lt x z = true;
  (* incomparability-or-greater is transitive ("negative transitivity") *)
  swo_ntrans : forall x y z, lt x y = false -> lt y z = false -> lt x z = false
}.

(* a is not after b *)
Definition le_of {A} (lt : A -> A -> bool) (a b : A) : Prop := lt b a = false.

Section Arrays.
Context {A : Type}.
Variable d : A.   (* default element: only read at indices proved to be in range *)

Fixpoint upd (l : list A) (n : nat) (x : A) : list A :=
  match l, n with
  | [], _ => []
  | _ :: t, O => x :: t
  | a :: t, S m => a :: upd t m x
  end.

Definition sel (l : list A) (i : Z) : A := nth (Z.to_nat i) l d.
Definition updz (l : list A) (i : Z) (x : A) : list A := upd l (Z.to_nat i) x.

Lemma length_upd : forall (l : list A) n x, length (upd l n x) = length l.
Proof. induction l; intros [|n] x; cbn; auto. Qed.

Lemma nth_upd_same : forall (l : list A) n x, (n < length l)%nat -> nth n (upd l n x) d = x.
Proof. induction l; intros [|n] x H; cbn in *; try lia; auto. apply IHl; lia. Qed.

Lemma nth_upd_other : forall (l : list A) n k x, k <> n -> nth k (upd l n x) d = nth k l d.
Proof.
  induction l; intros [|n] [|k] x H; cbn; auto; try congruence.
Qed.

Lemma len_nonneg : forall l : list A, 0 <= len l.
Proof. intros; unfold len; lia. Qed.

Lemma len_updz : forall (l : list A) i x, len (updz l i x) = len l.
Proof. intros; unfold len, updz; now rewrite length_upd. Qed.

Lemma sel_updz_same : forall (l : list A) i x, 0 <= i < len l -> sel (updz l i x) i = x.
Proof. intros l i x H; unfold sel, updz, len in *; apply nth_upd_same; lia. Qed.

Lemma sel_updz_other : forall (l : list A) i k x, 0 <= i -> 0 <= k -> k <> i -> sel (updz l i x) k = sel l k.
Proof. intros l i k x Hi Hk H; unfold sel, updz; apply nth_upd_other; lia. Qed.

Lemma updz_sel_id : forall (l : list A) i, updz l i (sel l i) = l.
Proof.
  intros l i; unfold updz, sel. generalize (Z.to_nat i) as n.
  induction l; intros [|n]; cbn; auto. now rewrite IHl.
Qed.

(* replacing one element: the old one leaves, the new one enters *)
Lemma perm_upd : forall (l : list A) n x, (n < length l)%nat -> Permutation (nth n l d :: upd l n x) (x :: l).
Proof.
  induction l; intros [|n] x H; cbn in *; try lia.
  - apply perm_swap.
  - rewrite perm_swap. rewrite (IHl n x) by lia. apply perm_swap.
Qed.

Lemma perm_updz : forall (l : list A) i x, 0 <= i < len l -> Permutation (sel l i :: updz l i x) (x :: l).
Proof. intros; unfold sel, updz, len in *; apply perm_upd; lia. Qed.

(* -------- the bounds-checked accessors *)
Lemma N_to_nat_pos : forall p, N.to_nat (N.pos p) = S (N.to_nat (Pos.pred_N p)).
Proof. intros; rewrite N.pos_pred_spec; lia. Qed.

Lemma get_at_spec : forall (l : list A) n,
  get_at l n = match nth_error l (N.to_nat n) with Some x => Ok x | None => Crash end.
Proof.
  induction l; intros n; cbn [get_at].
  - destruct (N.to_nat n); reflexivity.
  - destruct n as [|p]; [reflexivity|]. rewrite N_to_nat_pos; cbn [nth_error]. apply IHl.
Qed.

Lemma set_at_spec : forall (l : list A) n x,
  set_at l n x = if (N.to_nat n <? length l)%nat then Ok (upd l (N.to_nat n) x) else Crash.
Proof.
  induction l; intros n x; cbn [set_at].
  - reflexivity.
  - destruct n as [|p]; [reflexivity|]. rewrite N_to_nat_pos, IHl. cbn [length upd].
    change (S (N.to_nat (Pos.pred_N p)) <? S (length l))%nat with (N.to_nat (Pos.pred_N p) <? length l)%nat.
    destruct (N.to_nat (Pos.pred_N p) <? length l)%nat; reflexivity.
Qed.

Lemma get_ok : forall (l : list A) i, 0 <= i < len l -> get l i = Ok (sel l i).
Proof.
  intros l i H; unfold get, sel, len in *.
  destruct (Z.ltb_spec i 0); [lia|]. rewrite get_at_spec, Z_N_nat.
  destruct (nth_error l (Z.to_nat i)) eqn:E.
  - now rewrite (nth_error_nth _ _ d E).
  - apply nth_error_None in E; lia.
Qed.

Lemma get_oob : forall (l : list A) i, ~ (0 <= i < len l) -> get l i = Crash.
Proof.
  intros l i H; unfold get, len in *.
  destruct (Z.ltb_spec i 0); [reflexivity|]. rewrite get_at_spec, Z_N_nat.
  destruct (nth_error l (Z.to_nat i)) eqn:E; [|reflexivity].
  assert (nth_error l (Z.to_nat i) <> None) by congruence.
  apply nth_error_Some in H1; lia.
Qed.

Lemma get_inv : forall (l : list A) i x, get l i = Ok x -> 0 <= i < len l /\ x = sel l i.
Proof.
  intros l i x H.
  destruct (Z_lt_dec i 0) as [Hn|Hn]; [rewrite get_oob in H by lia; discriminate|].
  destruct (Z_lt_dec i (len l)) as [Hl|Hl]; [|rewrite get_oob in H by lia; discriminate].
  rewrite get_ok in H by lia. inversion H; split; [lia|reflexivity].
Qed.

Lemma set_ok : forall (l : list A) i x, 0 <= i < len l -> set l i x = Ok (updz l i x).
Proof.
  intros l i x H; unfold set, updz, len in *.
  destruct (Z.ltb_spec i 0); [lia|]. rewrite set_at_spec, Z_N_nat.
  destruct (Nat.ltb_spec (Z.to_nat i) (length l)); [reflexivity|lia].
Qed.

Lemma set_oob : forall (l : list A) i x, ~ (0 <= i < len l) -> set l i x = Crash.
Proof.
  intros l i x H; unfold set, len in *.
  destruct (Z.ltb_spec i 0); [reflexivity|]. rewrite set_at_spec, Z_N_nat.
  destruct (Nat.ltb_spec (Z.to_nat i) (length l)); [lia|reflexivity].
Qed.

Lemma set_inv : forall (l : list A) i x l', set l i x = Ok l' -> 0 <= i < len l /\ l' = updz l i x.
Proof.
  intros l i x l' H.
  destruct (Z_lt_dec i 0) as [Hn|Hn]; [rewrite set_oob in H by lia; discriminate|].
  destruct (Z_lt_dec i (len l)) as [Hl|Hl]; [|rewrite set_oob in H by lia; discriminate].
  rewrite set_ok in H by lia. inversion H; split; [lia|reflexivity].
Qed.

(* -------- swap_values *)
Definition swapz (l : list A) (i j : Z) : list A := updz (updz l i (sel l j)) j (sel l i).

Lemma swap_ok : forall (l : list A) i j, 0 <= i < len l -> 0 <= j < len l -> swap l i j = Ok (swapz l i j).
Proof.
  intros l i j Hi Hj; unfold swap, swapz.
  rewrite !get_ok by lia; cbn [obind]. rewrite set_ok by lia; cbn [obind].
  rewrite set_ok by (rewrite len_updz; lia). reflexivity.
Qed.

Lemma swap_inv : forall (l : list A) i j l', swap l i j = Ok l' ->
  0 <= i < len l /\ 0 <= j < len l /\ l' = swapz l i j.
Proof.
  intros l i j l' H; unfold swap in H.
  destruct (get l i) as [a| | | | |] eqn:E1; try discriminate; cbn [obind] in H.
  destruct (get l j) as [b| | | | |] eqn:E2; try discriminate; cbn [obind] in H.
  apply get_inv in E1; apply get_inv in E2. destruct E1 as [Hi ->], E2 as [Hj ->].
  destruct (set l i (sel l j)) as [l1| | | | |] eqn:E3; try discriminate; cbn [obind] in H.
  apply set_inv in E3; destruct E3 as [_ ->]. apply set_inv in H; destruct H as [_ ->].
  repeat split; lia.
Qed.

Lemma len_swapz : forall (l : list A) i j, len (swapz l i j) = len l.
Proof. intros; unfold swapz; now rewrite !len_updz. Qed.

Lemma sel_swapz : forall (l : list A) i j k, 0 <= i < len l -> 0 <= j < len l -> 0 <= k ->
  sel (swapz l i j) k = if k =? j then sel l i else if k =? i then sel l j else sel l k.
Proof.
  intros l i j k Hi Hj Hk; unfold swapz.
  destruct (Z.eqb_spec k j) as [->|Hkj].
  - rewrite sel_updz_same by (rewrite len_updz; lia). reflexivity.
  - rewrite sel_updz_other by lia.
    destruct (Z.eqb_spec k i) as [->|Hki].
    + now rewrite sel_updz_same by lia.
    + now rewrite sel_updz_other by lia.
Qed.

Lemma perm_swapz : forall (l : list A) i j, 0 <= i < len l -> 0 <= j < len l -> Permutation l (swapz l i j).
Proof.
  intros l i j Hi Hj; unfold swapz.
  set (l1 := updz l i (sel l j)).
  assert (H1 : Permutation (sel l i :: l1) (sel l j :: l)) by (apply perm_updz; lia).
  assert (H2 : Permutation (sel l1 j :: updz l1 j (sel l i)) (sel l i :: l1))
    by (apply perm_updz; unfold l1; rewrite len_updz; lia).
  assert (E : sel l1 j = sel l j).
  { unfold l1. destruct (Z.eq_dec j i) as [->|N].
    - now rewrite sel_updz_same by lia.
    - now rewrite sel_updz_other by lia. }
  rewrite E in H2. rewrite H1 in H2. apply Permutation_cons_inv in H2. now symmetry.
Qed.

(* -------- lists seen through their indices *)
Lemma sel_cons_succ : forall a l i, 0 <= i -> sel (a :: l) (i + 1) = sel l i.
Proof. intros a l i H; unfold sel. replace (Z.to_nat (i + 1)) with (S (Z.to_nat i)) by lia. reflexivity. Qed.

Lemma len_cons : forall a (l : list A), len (a :: l) = len l + 1.
Proof. intros; unfold len; cbn [length]; lia. Qed.

Lemma sel_In : forall (l : list A) i, 0 <= i < len l -> In (sel l i) l.
Proof. intros l i H; unfold sel, len in *; apply nth_In; lia. Qed.

Lemma In_sel : forall (l : list A) x, In x l -> exists i, 0 <= i < len l /\ x = sel l i.
Proof.
  intros l x H. destruct (In_nth l x d H) as (n & Hn & E).
  exists (Z.of_nat n); unfold sel, len; rewrite Nat2Z.id; split; [lia|auto].
Qed.

Lemma ssorted_of_idx : forall (R : A -> A -> Prop) l,
  (forall i j, 0 <= i < j -> j < len l -> R (sel l i) (sel l j)) -> StronglySorted R l.
Proof.
  induction l as [|a l IH]; intros H; constructor.
  - apply IH; intros i j Hij Hj.
    rewrite <- (sel_cons_succ a l i), <- (sel_cons_succ a l j) by lia.
    apply H; rewrite ?len_cons; lia.
  - apply Forall_forall; intros x Hx. destruct (In_sel l x Hx) as (i & Hi & ->).
    rewrite <- (sel_cons_succ a l i) by lia. change a with (sel (a :: l) 0) at 1.
    apply H; rewrite ?len_cons; lia.
Qed.

Lemma sel_firstn : forall (l : list A) n i, 0 <= i < Z.of_nat n -> sel (firstn n l) i = sel l i.
Proof.
  intros l n i H; unfold sel. remember (Z.to_nat i) as k. assert (Hk : (k < n)%nat) by lia.
  clear Heqk H. revert n k Hk; induction l; intros [|n] [|k] Hk; cbn; auto; try lia. apply IHl; lia.
Qed.

Lemma sel_skipn : forall (l : list A) n i, 0 <= i -> sel (skipn n l) i = sel l (i + Z.of_nat n).
Proof.
  intros l n i H; unfold sel. replace (Z.to_nat (i + Z.of_nat n)) with (n + Z.to_nat i)%nat by lia.
  generalize (Z.to_nat i) as k. revert l; induction n; intros l k; cbn [skipn Nat.add]; auto.
  destruct l; cbn [nth]; [destruct k; reflexivity|]. apply IHn.
Qed.

Lemma len_firstn : forall (l : list A) n, (n <= length l)%nat -> len (firstn n l) = Z.of_nat n.
Proof. intros; unfold len; rewrite firstn_length; lia. Qed.

Lemma len_skipn : forall (l : list A) n, len (skipn n l) = len l - Z.of_nat (Nat.min n (length l)).
Proof. intros; unfold len; rewrite skipn_length; lia. Qed.

Lemma len_app : forall l1 l2 : list A, len (l1 ++ l2) = len l1 + len l2.
Proof. intros; unfold len; rewrite app_length; lia. Qed.

Lemma ssorted_app : forall (R : A -> A -> Prop) l1 l2,
  StronglySorted R l1 -> StronglySorted R l2 -> (forall x y, In x l1 -> In y l2 -> R x y) ->
  StronglySorted R (l1 ++ l2).
Proof.
  induction l1 as [|a l1 IH]; intros l2 H1 H2 H; cbn; auto.
  inversion H1; subst. constructor.
  - apply IH; auto. intros; apply H; cbn; auto.
  - apply Forall_app; split; auto. apply Forall_forall; intros y Hy; apply H; cbn; auto.
Qed.

End Arrays.

(* ====================================================================== *)
Section Algorithms.
Context {A : Type}.
Variable lt : A -> A -> bool.
Variable d : A.

Notation "l .[ i ]" := (sel d l i) (at level 2, left associativity, format "l .[ i ]").
Notation le := (le_of lt).

Lemma swo_asym : strict_weak_order lt -> forall x y, lt x y = true -> lt y x = false.
Proof.
  intros W x y H. destruct (lt y x) eqn:E; auto.
  pose proof (swo_trans lt W _ _ _ H E) as T. rewrite (swo_irrefl lt W) in T. discriminate.
Qed.

Lemma le_trans : strict_weak_order lt -> forall x y z, le x y -> le y z -> le x z.
Proof. unfold le_of; intros W x y z H1 H2. eapply swo_ntrans; eauto. Qed.

Lemma lt_le : strict_weak_order lt -> forall x y, lt x y = true -> le x y.
Proof. unfold le_of; intros; now apply swo_asym. Qed.

(* x < y <= z -> x < z   and   x <= y < z -> x < z *)
Lemma lt_le_trans : strict_weak_order lt -> forall x y z, lt x y = true -> le y z -> lt x z = true.
Proof.
  unfold le_of; intros W x y z H1 H2. destruct (lt x z) eqn:E; auto.
  pose proof (swo_ntrans lt W _ _ _ E H2). congruence.
Qed.

Lemma le_lt_trans : strict_weak_order lt -> forall x y z, le x y -> lt y z = true -> lt x z = true.
Proof.
  unfold le_of; intros W x y z H1 H2. destruct (lt x z) eqn:E; auto.
  pose proof (swo_ntrans lt W _ _ _ H1 E). congruence.
Qed.

(* ------------------------------------------------------------------ insertion_sort *)
(* final store of the inner loop: items[j+1] = store *)
Lemma ins_place : forall (items : list A) store j i l0,
  -1 <= j -> j + 1 <= i < len items ->
  Permutation (items.[j + 1] :: l0) (store :: items) ->
  let r := updz items (j + 1) store in
  Permutation l0 r /\ len r = len items /\
  (forall k, i < k -> r.[k] = items.[k]) /\
  (strict_weak_order lt ->
   (forall a b, 0 <= a < b -> b <= i -> a <> j + 1 -> b <> j + 1 -> le items.[a] items.[b]) ->
   (forall b, j + 1 < b <= i -> lt store items.[b] = true) ->
   (j = -1 \/ lt store items.[j] = false) ->
   forall a b, 0 <= a < b -> b <= i -> le r.[a] r.[b]).
Proof.
  intros items store j i l0 Hj Hi HP r. unfold r. repeat split.
  - pose proof (perm_updz d items (j + 1) store ltac:(lia)) as P.
    rewrite <- HP in P. apply Permutation_cons_inv in P. now symmetry.
  - apply len_updz.
  - intros k Hk. apply sel_updz_other; lia.
  - intros W Hs Hb Hstop a b Hab Hbi.
    destruct (Z.eq_dec a (j + 1)) as [->|Na].
    + rewrite sel_updz_same by lia. rewrite sel_updz_other by lia. apply lt_le; auto. apply Hb; lia.
    + rewrite (sel_updz_other d items (j + 1) a) by lia.
      destruct (Z.eq_dec b (j + 1)) as [->|Nb].
      * rewrite sel_updz_same by lia. destruct Hstop as [->|Hstop]; [lia|].
        destruct (Z.eq_dec a j) as [->|Naj]; [exact Hstop|].
        apply le_trans with (y := items.[j]); auto. apply Hs; lia.
      * rewrite sel_updz_other by lia. apply Hs; lia.
Qed.

Lemma ins_inner_spec : forall fuel (items : list A) store j i l0,
  j + 1 < Z.of_nat fuel -> -1 <= j -> j + 1 <= i < len items ->
  Permutation (items.[j + 1] :: l0) (store :: items) ->
  exists r, ins_inner lt fuel items store j = Ok r /\
    Permutation l0 r /\ len r = len items /\
    (forall k, i < k -> r.[k] = items.[k]) /\
    (strict_weak_order lt ->
     (forall a b, 0 <= a < b -> b <= i -> a <> j + 1 -> b <> j + 1 -> le items.[a] items.[b]) ->
     (forall b, j + 1 < b <= i -> lt store items.[b] = true) ->
     forall a b, 0 <= a < b -> b <= i -> le r.[a] r.[b]).
Proof.
  induction fuel as [|f IH]; intros items store j i l0 Hf Hj Hi HP; [lia|].
  cbn [ins_inner]. destruct (Z.leb_spec 0 j) as [Hj0|Hj0].
  - rewrite get_ok with (d := d) by lia; cbn [obind].
    destruct (lt store items.[j]) eqn:Hlt.
    + rewrite set_ok by lia; cbn [obind].
      set (items' := updz items (j + 1) items.[j]).
      assert (Hlen : len items' = len items) by apply len_updz.
      assert (Hsel : forall k, 0 <= k -> k <> j + 1 -> items'.[k] = items.[k])
        by (intros; apply sel_updz_other; lia).
      assert (Hsame : items'.[j + 1] = items.[j]) by (apply sel_updz_same; lia).
      destruct (IH items' store (j - 1) i l0) as (r & Hr & HrP & Hrl & Hrk & Hrs); try lia.
      * replace (j - 1 + 1) with j by lia. rewrite Hsel by lia.
        pose proof (perm_updz d items (j + 1) items.[j] ltac:(lia)) as P. fold items' in P.
        (* items[j+1] :: items' ~ items[j] :: items ;  items[j+1] :: l0 ~ store :: items *)
        apply Permutation_cons_inv with (a := items.[j + 1]).
        rewrite perm_swap, HP. rewrite perm_swap. rewrite (perm_swap store).
        apply perm_skip. now symmetry.
      * exists r; repeat split; auto; try lia.
        -- intros k Hk. rewrite Hrk by lia. apply Hsel; lia.
        -- intros W Hs Hb. apply Hrs; auto.
           ++ replace (j - 1 + 1) with j by lia. intros a b Hab Hbi Na Nb.
              destruct (Z.eq_dec a (j + 1)) as [->|Na'].
              ** rewrite Hsame, Hsel by lia. apply Hs; lia.
              ** rewrite (Hsel a) by lia. destruct (Z.eq_dec b (j + 1)) as [->|Nb'].
                 --- rewrite Hsame. apply Hs; lia.
                 --- rewrite Hsel by lia. apply Hs; lia.
           ++ replace (j - 1 + 1) with j by lia. intros b Hb'.
              destruct (Z.eq_dec b (j + 1)) as [->|Nb']; [now rewrite Hsame|].
              rewrite Hsel by lia. apply Hb; lia.
    + rewrite set_ok by lia.
      destruct (ins_place items store j i l0 Hj Hi HP) as (P1 & P2 & P3 & P4).
      eexists; repeat split; eauto.
  - rewrite set_ok by lia.
    destruct (ins_place items store j i l0 Hj Hi HP) as (P1 & P2 & P3 & P4).
    eexists; repeat split; eauto. intros W Hs Hb. apply P4; auto. left; lia.
Qed.

Lemma ins_outer_spec : forall fuel (items : list A) i count l0,
  count = len items -> 1 <= i -> Z.max 0 (count - i) < Z.of_nat fuel -> Permutation l0 items ->
  exists r, ins_outer lt fuel items i count = Ok r /\ Permutation l0 r /\
    (strict_weak_order lt ->
     (forall a b, 0 <= a < b -> b < i -> le items.[a] items.[b]) ->
     forall a b, 0 <= a < b -> b < len r -> le r.[a] r.[b]).
Proof.
  induction fuel as [|f IH]; intros items i count l0 Hc Hi Hf HP; [lia|].
  cbn [ins_outer]. destruct (Z.ltb_spec i count) as [Hlt|Hge].
  - rewrite get_ok with (d := d) by lia; cbn [obind].
    destruct (ins_inner_spec (S (Z.to_nat i)) items items.[i] (i - 1) i l0) as (r1 & E1 & P1 & L1 & K1 & S1);
      try lia.
    { replace (i - 1 + 1) with i by lia. now apply perm_skip. }
    rewrite E1; cbn [obind].
    destruct (IH r1 (i + 1) count l0) as (r & E & P & S); try lia; auto.
    exists r; repeat split; auto. intros W Hs. apply S; auto.
    intros a b Hab Hb. apply S1; auto; try lia.
    intros a' b' Hab' Hb' Na Nb. apply Hs; lia.
  - exists items; repeat split; auto. intros W Hs a b Hab Hb. apply Hs; lia.
Qed.

Theorem insertion_sort_spec : forall l : list A,
  exists r, insertion_sort lt l = Ok r /\ Permutation l r /\
    (strict_weak_order lt -> StronglySorted le r).
Proof.
  intros l. unfold insertion_sort.
  destruct (ins_outer_spec (S (Z.to_nat (len l))) l 1 (len l) l) as (r & E & P & S);
    auto; try lia.
  exists r; repeat split; auto. intros W. apply ssorted_of_idx with (d := d).
  intros i j Hij Hj. apply S; auto; try lia.
Qed.

(* ------------------------------------------------------------------ partition *)
(* -- for every comparator: whatever partition returns is a permutation and a cut point in [1, count] *)
Lemma scan_up_inv : forall fuel (items : list A) pivot i i',
  scan_up lt fuel items pivot i = Ok i' -> i < i' /\ 0 <= i' < len items.
Proof.
  induction fuel as [|f IH]; intros items pivot i i' H; [discriminate|].
  cbn [scan_up] in H. destruct (get items (i + 1)) as [x| | | | |] eqn:E; try discriminate; cbn [obind] in H.
  apply (get_inv d) in E. destruct (lt x pivot).
  - apply IH in H; lia.
  - inversion H; lia.
Qed.

Lemma scan_down_inv : forall fuel (items : list A) pivot j j',
  scan_down lt fuel items pivot j = Ok j' -> j' < j /\ 0 <= j' < len items.
Proof.
  induction fuel as [|f IH]; intros items pivot j j' H; [discriminate|].
  cbn [scan_down] in H. destruct (get items (j - 1)) as [x| | | | |] eqn:E; try discriminate; cbn [obind] in H.
  apply (get_inv d) in E. destruct (lt pivot x).
  - apply IH in H; lia.
  - inversion H; lia.
Qed.

Lemma part_loop_perm : forall fuel n (items : list A) pivot i j r p,
  part_loop lt fuel n items pivot i j = Ok (r, p) ->
  Permutation items r /\ len r = len items /\ 1 <= p <= len items.
Proof.
  induction fuel as [|f IH]; intros n items pivot i j r p H; [discriminate|].
  cbn [part_loop] in H.
  destruct (scan_up lt n items pivot i) as [i'| | | | |] eqn:E1; try discriminate; cbn [obind] in H.
  destruct (scan_down lt n items pivot j) as [j'| | | | |] eqn:E2; try discriminate; cbn [obind] in H.
  apply scan_up_inv in E1. apply scan_down_inv in E2.
  destruct (j' <=? i').
  - inversion H; subst. repeat split; auto; lia.
  - destruct (swap items i' j') as [items'| | | | |] eqn:E3; try discriminate; cbn [obind] in H.
    apply (swap_inv d) in E3. destruct E3 as (Hi & Hj & ->).
    apply IH in H. destruct H as (P & L & R). rewrite len_swapz in *.
    repeat split; auto; try lia. rewrite <- P. now apply perm_swapz.
Qed.

Lemma order2_perm : forall (items : list A) a b r,
  order2 lt items a b = Ok r -> Permutation items r /\ len r = len items.
Proof.
  intros items a b r H. unfold order2 in H.
  destruct (get items a) as [xa| | | | |]; try discriminate; cbn [obind] in H.
  destruct (get items b) as [xb| | | | |]; try discriminate; cbn [obind] in H.
  destruct (lt xa xb).
  - apply (swap_inv d) in H. destruct H as (Hi & Hj & ->). split; [now apply perm_swapz|apply len_swapz].
  - inversion H; auto.
Qed.

Theorem partition_perm : forall (items r : list A) p,
  partition lt items = Ok (r, p) ->
  Permutation items r /\ len r = len items /\ 1 <= p <= len items.
Proof.
  intros items r p H. unfold partition in H.
  destruct (order2 lt items (len items - 1) 0) as [i1| | | | |] eqn:E1; try discriminate; cbn [obind] in H.
  destruct (order2 lt i1 (Z.shiftr (len items - 1) 2) 0) as [i2| | | | |] eqn:E2; try discriminate; cbn [obind] in H.
  destruct (order2 lt i2 (len items - 1) (Z.shiftr (len items - 1) 2)) as [i3| | | | |] eqn:E3; try discriminate;
    cbn [obind] in H.
  destruct (get i3 (Z.shiftr (len items - 1) 2)) as [pv| | | | |]; try discriminate; cbn [obind] in H.
  apply order2_perm in E1, E2, E3. destruct E1 as (P1 & L1), E2 as (P2 & L2), E3 as (P3 & L3).
  apply part_loop_perm in H. destruct H as (P & L & R).
  repeat split; try lia. now rewrite P1, P2, P3.
Qed.

(* -- irreflexive comparator: the scans stop at a sentinel, so partition stays in bounds *)
Lemma scan_up_spec : forall fuel (items : list A) pivot i s,
  -1 <= i < s -> s < len items -> lt items.[s] pivot = false -> s - i <= Z.of_nat fuel ->
  exists i', scan_up lt fuel items pivot i = Ok i' /\ i < i' <= s /\ lt items.[i'] pivot = false /\
    forall k, i < k < i' -> lt items.[k] pivot = true.
Proof.
  induction fuel as [|f IH]; intros items pivot i s Hi Hs Hsent Hf; [lia|].
  cbn [scan_up]. rewrite get_ok with (d := d) by lia; cbn [obind].
  destruct (lt items.[i + 1] pivot) eqn:E.
  - assert (i + 1 <> s) by (intros Heq; rewrite Heq in E; congruence).
    destruct (IH items pivot (i + 1) s) as (i' & E' & R & St & Sc); auto; try lia.
    exists i'; repeat split; auto; try lia. intros k Hk.
    destruct (Z.eq_dec k (i + 1)) as [->|N]; auto. apply Sc; lia.
  - exists (i + 1); repeat split; auto; try lia.
Qed.

Lemma scan_down_spec : forall fuel (items : list A) pivot j s,
  0 <= s < j -> j <= len items -> lt pivot items.[s] = false -> j - s <= Z.of_nat fuel ->
  exists j', scan_down lt fuel items pivot j = Ok j' /\ s <= j' < j /\ lt pivot items.[j'] = false /\
    forall k, j' < k < j -> lt pivot items.[k] = true.
Proof.
  induction fuel as [|f IH]; intros items pivot j s Hj Hl Hsent Hf; [lia|].
  cbn [scan_down]. rewrite get_ok with (d := d) by lia; cbn [obind].
  destruct (lt pivot items.[j - 1]) eqn:E.
  - assert (j - 1 <> s) by (intros Heq; rewrite Heq in E; congruence).
    destruct (IH items pivot (j - 1) s) as (j' & E' & R & St & Sc); auto; try lia.
    exists j'; repeat split; auto; try lia. intros k Hk.
    destruct (Z.eq_dec k (j - 1)) as [->|N]; auto. apply Sc; lia.
  - exists (j - 1); repeat split; auto; try lia.
Qed.

Lemma part_loop_spec : forall fuel n (items : list A) pivot i j si sj,
  len items + 1 <= Z.of_nat n -> len items - i <= Z.of_nat fuel ->
  -1 <= i < j -> j <= len items ->
  i < si < len items -> lt items.[si] pivot = false ->
  0 <= sj < j -> lt pivot items.[sj] = false ->
  (si < len items - 1 \/ j <= len items - 1) ->
  exists r p, part_loop lt fuel n items pivot i j = Ok (r, p) /\ 1 <= p <= len items - 1 /\
    (strict_weak_order lt ->
     (forall k, 0 <= k <= i -> le items.[k] pivot) ->
     (forall k, j <= k < len items -> le pivot items.[k]) ->
     (forall k, 0 <= k < p -> le r.[k] pivot) /\ (forall k, p <= k < len items -> le pivot r.[k])).
Proof.
  induction fuel as [|f IH]; intros n items pivot i j si sj Hn Hf Hij Hj Hsi Lsi Hsj Lsj Hhi; [lia|].
  cbn [part_loop].
  destruct (scan_up_spec n items pivot i si) as (i' & E1 & Ri & Sti & Sci); auto; try lia.
  destruct (scan_down_spec n items pivot j sj) as (j' & E2 & Rj & Stj & Scj); auto; try lia.
  rewrite E1, E2; cbn [obind].
  destruct (Z.leb_spec j' i') as [Hc|Hc].
  - exists items, (j' + 1); repeat split; auto; try lia.
    + intros k Hk. destruct (Z_le_dec k i) as [?|?]; [apply H0; lia|].
      destruct (Z.eq_dec k j') as [->|?]; [exact Stj|].
      apply lt_le; auto. apply Sci; lia.
    + intros k Hk. destruct (Z_le_dec j k) as [?|?]; [apply H1; lia|].
      unfold le_of. apply swo_asym; auto. apply Scj; lia.
  - rewrite swap_ok with (d := d) by lia; cbn [obind].
    set (items' := swapz d items i' j').
    assert (L : len items' = len items) by apply len_swapz.
    assert (Sel : forall k, 0 <= k -> items'.[k] = if k =? j' then items.[i'] else if k =? i' then items.[j'] else items.[k])
      by (intros; apply sel_swapz; lia).
    destruct (IH n items' pivot i' j' j' i') as (r & p & E & Rp & S); try lia.
    + rewrite Sel, Z.eqb_refl by lia. exact Sti.
    + rewrite Sel by lia. destruct (Z.eqb_spec i' j'); [lia|]. rewrite Z.eqb_refl. exact Stj.
    + exists r, p; repeat split; try lia; auto.
      * rewrite L in S. apply S; auto.
        -- intros k Hk. rewrite Sel by lia. destruct (Z.eqb_spec k j'); [lia|].
           destruct (Z.eqb_spec k i') as [->|?]; [exact Stj|].
           destruct (Z_le_dec k i) as [?|?]; [apply H0; lia|]. apply lt_le; auto. apply Sci; lia.
        -- intros k Hk. rewrite Sel by lia. destruct (Z.eqb_spec k j') as [->|?]; [exact Sti|].
           destruct (Z.eqb_spec k i'); [lia|].
           destruct (Z_le_dec j k) as [?|?]; [apply H1; lia|].
           unfold le_of. apply swo_asym; auto. apply Scj; lia.
      * rewrite L in S. apply S; auto.
        -- intros k Hk. rewrite Sel by lia. destruct (Z.eqb_spec k j'); [lia|].
           destruct (Z.eqb_spec k i') as [->|?]; [exact Stj|].
           destruct (Z_le_dec k i) as [?|?]; [apply H0; lia|]. apply lt_le; auto. apply Sci; lia.
        -- intros k Hk. rewrite Sel by lia. destruct (Z.eqb_spec k j') as [->|?]; [exact Sti|].
           destruct (Z.eqb_spec k i'); [lia|].
           destruct (Z_le_dec j k) as [?|?]; [apply H1; lia|].
           unfold le_of. apply swo_asym; auto. apply Scj; lia.
Qed.

Lemma order2_spec : forall (items : list A) a b,
  0 <= a < len items -> 0 <= b < len items ->
  exists r, order2 lt items a b = Ok r /\ len r = len items.
Proof.
  intros items a b Ha Hb. unfold order2. rewrite !get_ok with (d := d) by lia; cbn [obind].
  destruct (lt items.[a] items.[b]).
  - rewrite swap_ok with (d := d) by lia. eexists; split; eauto. apply len_swapz.
  - eexists; split; eauto.
Qed.

Lemma shiftr2_range : forall hi, 1 <= hi -> 0 <= Z.shiftr hi 2 < hi.
Proof. intros hi H. rewrite Z.shiftr_div_pow2 by lia. change (2 ^ 2) with 4. lia. Qed.

Theorem partition_spec : irreflexive lt -> forall items : list A, 2 <= len items ->
  exists r p, partition lt items = Ok (r, p) /\ Permutation items r /\ len r = len items /\
    1 <= p <= len items - 1 /\
    (strict_weak_order lt -> exists pivot,
       (forall k, 0 <= k < p -> le r.[k] pivot) /\ (forall k, p <= k < len items -> le pivot r.[k])).
Proof.
  intros Irr items Hlen.
  assert (G : exists r p, partition lt items = Ok (r, p) /\ 1 <= p <= len items - 1 /\
    (strict_weak_order lt -> exists pivot,
       (forall k, 0 <= k < p -> le r.[k] pivot) /\ (forall k, p <= k < len items -> le pivot r.[k]))).
  { unfold partition.
    pose proof (shiftr2_range (len items - 1) ltac:(lia)) as Hmid.
    set (mid := Z.shiftr (len items - 1) 2) in *.
    destruct (order2_spec items (len items - 1) 0) as (i1 & E1 & L1); try lia. rewrite E1; cbn [obind].
    destruct (order2_spec i1 mid 0) as (i2 & E2 & L2); try lia. rewrite E2; cbn [obind].
    destruct (order2_spec i2 (len items - 1) mid) as (i3 & E3 & L3); try lia. rewrite E3; cbn [obind].
    rewrite get_ok with (d := d) by lia; cbn [obind].
    assert (L : len i3 = len items) by lia.
    destruct (part_loop_spec (S (length items)) (S (length items)) i3 i3.[mid] (-1) (len items) mid mid)
      as (r & p & E & Rp & S); try (unfold len in *; lia); auto.
    exists r, p. rewrite L in *. repeat split; auto; try lia.
    intros W. exists i3.[mid]. apply S; auto; intros; lia. }
  destruct G as (r & p & E & Rp & S). exists r, p.
  destruct (partition_perm _ _ _ E) as (P & L & _). repeat split; auto; lia.
Qed.

(* ------------------------------------------------------------------ intro_sort, given heap_sort *)
Definition sort_ok (f : list A -> outcome (list A)) : Prop :=
  forall items, exists r, f items = Ok r /\ Permutation items r /\
    (strict_weak_order lt -> StronglySorted le r).

Lemma In_firstn_sel : forall (l : list A) n x, (n <= length l)%nat -> In x (firstn n l) ->
  exists k, 0 <= k < Z.of_nat n /\ x = l.[k].
Proof.
  intros l n x Hn H. destruct (In_sel d _ _ H) as (k & Hk & ->).
  rewrite len_firstn in Hk by lia. exists k; split; auto. apply sel_firstn; lia.
Qed.

Lemma In_skipn_sel : forall (l : list A) n x, (n <= length l)%nat -> In x (skipn n l) ->
  exists k, Z.of_nat n <= k < len l /\ x = l.[k].
Proof.
  intros l n x Hn H. destruct (In_sel d _ _ H) as (k & Hk & ->).
  rewrite len_skipn in Hk. exists (k + Z.of_nat n); split; [lia|]. apply sel_skipn; lia.
Qed.

Lemma intro_sort_from_heap : irreflexive lt -> sort_ok (heap_sort lt) ->
  forall thr depth, sort_ok (intro_sort_thr lt thr depth).
Proof.
  intros Irr Heap thr depth. induction depth as [|dp IH]; intros items.
  - (* max_depth = 0 *)
    cbn [intro_sort_thr].
    destruct (Z.leb_spec (len items) 1) as [H1|H1].
    { exists items; repeat split; auto. intros _.
      destruct items as [|a [|b t]]; [repeat constructor..|]. exfalso; unfold len in H1; cbn [length] in H1; lia. }
    destruct (Z.eqb_spec (len items) 2) as [H2|H2].
    { destruct items as [|a [|b [|c t]]]; try (unfold len in H2; cbn [length] in H2; lia).
      unfold order2, swap, get, set; cbn. destruct (lt b a) eqn:E; eexists; repeat split; eauto.
      - apply perm_swap.
      - intros W. repeat constructor. now apply lt_le.
      - intros W. repeat constructor. exact E. }
    destruct (Z.leb_spec (len items) thr); [apply insertion_sort_spec|apply Heap].
  - cbn [intro_sort_thr].
    destruct (Z.leb_spec (len items) 1) as [H1|H1].
    { exists items; repeat split; auto. intros _.
      destruct items as [|a [|b t]]; [repeat constructor..|]. exfalso; unfold len in H1; cbn [length] in H1; lia. }
    destruct (Z.eqb_spec (len items) 2) as [H2|H2].
    { destruct items as [|a [|b [|c t]]]; try (unfold len in H2; cbn [length] in H2; lia).
      unfold order2, swap, get, set; cbn. destruct (lt b a) eqn:E; eexists; repeat split; eauto.
      - apply perm_swap.
      - intros W. repeat constructor. now apply lt_le.
      - intros W. repeat constructor. exact E. }
    destruct (Z.leb_spec (len items) thr); [apply insertion_sort_spec|].
    destruct (partition_spec Irr items ltac:(lia)) as (items' & p & E & P & L & Rp & S).
    rewrite E; cbn [obind].
    destruct (Z.ltb_spec p 0); [lia|]. destruct (Z.ltb_spec (len items) p); [lia|]. cbn [orb].
    assert (Hn : (Z.to_nat p <= length items')%nat) by (unfold len in *; lia).
    destruct (IH (firstn (Z.to_nat p) items')) as (left & El & Pl & Sl).
    destruct (IH (skipn (Z.to_nat p) items')) as (right & Er & Pr & Sr).
    rewrite El, Er; cbn [obind]. exists (left ++ right); repeat split; auto.
    + rewrite P. rewrite <- (firstn_skipn (Z.to_nat p) items') at 1. now apply Permutation_app.
    + intros W. destruct (S W) as (pivot & Sleft & Sright).
      apply ssorted_app; auto. intros x y Hx Hy.
      apply Permutation_sym in Pl, Pr.
      apply (Permutation_in _ Pl) in Hx. apply (Permutation_in _ Pr) in Hy.
      apply In_firstn_sel in Hx; auto. apply In_skipn_sel in Hy; auto.
      destruct Hx as (k1 & Hk1 & ->), Hy as (k2 & Hk2 & ->).
      apply le_trans with (y := pivot); auto; [apply Sleft|apply Sright]; lia.
Qed.

(* ------------------------------------------------------------------ heap_sort *)
Lemma heap_parent_eq : forall n, heap_parent n = (n - 1) / 2.
Proof. intros; unfold heap_parent. rewrite Z.shiftr_div_pow2 by lia. reflexivity. Qed.

(* s is j or an ancestor of j in the implicit binary tree (parent n = (n-1)/2) *)
Inductive anc (s : Z) : Z -> Prop :=
| anc_refl : anc s s
| anc_step : forall j, s < j -> anc s ((j - 1) / 2) -> anc s j.

(* ... and every node on the way down from s to j is a largest child of its parent
   (only meaningful, and only recorded, for a strict weak order) *)
Inductive mpath (items : list A) (s e : Z) : Z -> Prop :=
| mp_refl : mpath items s e s
| mp_step : forall j, s < j -> mpath items s e ((j - 1) / 2) ->
    (strict_weak_order lt -> forall c, (c - 1) / 2 = (j - 1) / 2 -> c <= e -> le items.[c] items.[j]) ->
    mpath items s e j.

Definition heap_on (items : list A) (lo e : Z) : Prop :=
  forall c, c <= e -> lo <= (c - 1) / 2 -> le items.[c] items.[(c - 1) / 2].

Lemma mpath_anc : forall items s e j, mpath items s e j -> anc s j.
Proof. induction 1; [apply anc_refl|now apply anc_step]. Qed.

Lemma anc_ge : forall s j, anc s j -> s <= j.
Proof. induction 1; lia. Qed.

Lemma mpath_transport : forall V V' s e q, 0 <= s -> mpath V s e q ->
  (forall k, 0 <= k <= q + 1 -> V'.[k] = V.[k]) -> mpath V' s e q.
Proof.
  intros V V' s e q Hs H. induction H as [|j Hj H IH Hm]; intros Heq; [apply mp_refl|].
  apply mp_step; auto.
  - apply IH. intros k Hk. apply Heq. lia.
  - intros W c Hc Hce. rewrite !Heq by lia. now apply Hm.
Qed.

Lemma updz_updz_same : forall (l : list A) i x y, updz (updz l i x) i y = updz l i y.
Proof.
  intros l i x y; unfold updz. generalize (Z.to_nat i) as n.
  induction l; intros [|n]; cbn; auto. now rewrite IHl.
Qed.

(* -- leaf_search: walk down along the larger children *)
Lemma leaf_search_spec : irreflexive lt -> forall fuel (items : list A) start j e,
  e - j < Z.of_nat fuel -> 0 <= start <= j -> j <= e < len items -> mpath items start e j ->
  exists j', leaf_search lt fuel items j e = Ok j' /\ j <= j' <= e /\ mpath items start e j' /\ e < 2 * j' + 1.
Proof.
  intros Irr. induction fuel as [|f IH]; intros items start j e Hf Hs He Hm; [lia|].
  cbn [leaf_search]. unfold heap_right, heap_left.
  destruct (Z.leb_spec (j * 2 + 2) e) as [Hr|Hr].
  - rewrite !get_ok with (d := d) by lia; cbn [obind].
    destruct (lt items.[j * 2 + 1] items.[j * 2 + 2]) eqn:E.
    + destruct (IH items start (j * 2 + 2) e) as (j' & E' & R & M & L); try lia.
      * apply mp_step; try lia.
        -- replace ((j * 2 + 2 - 1) / 2) with j by lia. exact Hm.
        -- intros W c Hc Hce. assert (c = j * 2 + 1 \/ c = j * 2 + 2) as [-> | ->] by lia.
           ++ now apply lt_le.
           ++ apply Irr.
      * exists j'; repeat split; auto; lia.
    + destruct (IH items start (j * 2 + 1) e) as (j' & E' & R & M & L); try lia.
      * apply mp_step; try lia.
        -- replace ((j * 2 + 1 - 1) / 2) with j by lia. exact Hm.
        -- intros W c Hc Hce. assert (c = j * 2 + 1 \/ c = j * 2 + 2) as [-> | ->] by lia.
           ++ apply Irr.
           ++ exact E.
      * exists j'; repeat split; auto; lia.
  - destruct (Z.leb_spec (j * 2 + 1) e) as [Hl|Hl].
    + exists (j * 2 + 1); repeat split; auto; try lia.
      apply mp_step; try lia.
      * replace ((j * 2 + 1 - 1) / 2) with j by lia. exact Hm.
      * intros W c Hc Hce. assert (c = j * 2 + 1) as -> by lia. apply Irr.
    + exists j; repeat split; auto; lia.
Qed.

(* -- climb: back up to the first node that is not smaller than the root *)
Lemma climb_spec : irreflexive lt -> forall fuel (items : list A) start j e,
  j < Z.of_nat fuel -> 0 <= start -> j <= e < len items -> mpath items start e j ->
  (strict_weak_order lt -> forall c, (c - 1) / 2 = j -> c <= e -> le items.[c] items.[start]) ->
  exists j', climb lt fuel items start j = Ok j' /\ j' <= e /\ mpath items start e j' /\
    lt items.[j'] items.[start] = false /\
    (strict_weak_order lt -> forall c, (c - 1) / 2 = j' -> c <= e -> le items.[c] items.[start]).
Proof.
  intros Irr. induction fuel as [|f IH]; intros items start j e Hf Hs He Hm Hc;
    pose proof (anc_ge _ _ (mpath_anc _ _ _ _ Hm)) as Hge; [lia|].
  cbn [climb]. rewrite !get_ok with (d := d) by lia; cbn [obind].
  destruct (lt items.[j] items.[start]) eqn:E.
  - inversion Hm as [Heq|j0 Hlt Hm' Hmax]; subst.
    { rewrite Irr in E; discriminate. }
    rewrite heap_parent_eq.
    destruct (IH items start ((j - 1) / 2) e) as (j' & E' & R & M & St & C); auto; try lia.
    + intros W c Hcp Hce. apply lt_le; auto. apply le_lt_trans with (y := items.[j]); auto.
    + exists j'; repeat split; auto.
  - exists j; repeat split; auto; lia.
Qed.

(* -- rotate: push the stored values up the path *)
Lemma rotate_total : forall fuel (items : list A) store start j root,
  j < Z.of_nat fuel -> 0 <= start -> anc start j -> j < len items ->
  (start < j -> items.[start] = root) -> (j = start -> store = root) ->
  exists r, rotate fuel items store start j = Ok r /\ len r = len items /\
    (forall k, j < k -> r.[k] = items.[k]) /\ Permutation (store :: items) (root :: r).
Proof.
  induction fuel as [|f IH]; intros items store start j root Hf Hs Ha Hl Hroot Hst;
    pose proof (anc_ge _ _ Ha) as Hge; [lia|].
  cbn [rotate]. destruct (Z.ltb_spec start j) as [Hlt|Hlt].
  - rewrite heap_parent_eq. inversion Ha as [Heq|j0 _ Ha' Heq]; subst; [lia|].
    pose proof (anc_ge _ _ Ha') as Hge'.
    rewrite get_ok with (d := d) by lia; cbn [obind]. rewrite set_ok by lia; cbn [obind].
    set (p := (j - 1) / 2) in *.
    destruct (IH (updz items p store) items.[p] start p root) as (r & E & L & K & P); auto; try lia.
    + rewrite len_updz; lia.
    + intros Hp. rewrite sel_updz_other by lia. apply Hroot; lia.
    + intros ->. apply Hroot; lia.
    + exists r. rewrite len_updz in L. repeat split; auto.
      * intros k Hk. rewrite K by lia. apply sel_updz_other; lia.
      * rewrite <- P. symmetry. apply perm_updz; lia.
  - assert (j = start) by lia. subst. exists items; repeat split; auto. rewrite Hst; auto.
Qed.

Lemma rotate_heap : strict_weak_order lt -> forall fuel (items : list A) store start j e r,
  rotate fuel items store start j = Ok r ->
  0 <= start <= j -> j <= e < len items ->
  mpath (updz items j store) start e j ->
  (start < j -> le items.[j] store) ->
  (start < j -> start < (j - 1) / 2 -> le store items.[(j - 1) / 2]) ->
  (forall c, c <= e -> start <= (c - 1) / 2 -> (start + 1 <= (c - 1) / 2 \/ j = start) ->
     le items.[c] items.[(c - 1) / 2]) ->
  heap_on r start e.
Proof.
  intros W. induction fuel as [|f IH]; intros items store start j e r H Hs He Hm H3 H4 H5; [discriminate|].
  cbn [rotate] in H. destruct (Z.ltb_spec start j) as [Hlt|Hlt].
  - rewrite heap_parent_eq in H. set (p := (j - 1) / 2) in *.
    assert (Hp : start <= p < j).
    { inversion Hm as [Heq|j0 _ Hm' _ Heq]; subst; [lia|].
      pose proof (anc_ge _ _ (mpath_anc _ _ _ _ Hm')). fold p in H0. lia. }
    rewrite get_ok with (d := d) in H by lia; cbn [obind] in H.
    rewrite set_ok in H by lia; cbn [obind] in H.
    inversion Hm as [Heq|j0 _ Hm' Hmax Heq]; subst; [lia|]. fold p in Hm', Hmax.
    specialize (Hmax W).
    assert (Hsib : forall c, (c - 1) / 2 = p -> c <= e -> le items.[c] store).
    { intros c Hc Hce. destruct (Z.eq_dec c j) as [->|N]; auto.
      specialize (Hmax c Hc Hce). rewrite sel_updz_same in Hmax by lia.
      rewrite sel_updz_other in Hmax by lia. exact Hmax. }
    set (items' := updz items p store) in *.
    assert (Sel : forall k, 0 <= k -> k <> p -> items'.[k] = items.[k])
      by (intros; apply sel_updz_other; lia).
    assert (Same : items'.[p] = store) by (apply sel_updz_same; lia).
    assert (Len : len items' = len items) by apply len_updz.
    apply (IH items' items.[p] start p e r H); try lia.
    + unfold items'. rewrite updz_updz_same, updz_sel_id.
      destruct (Z.eq_dec p start) as [->|Np]; [apply mp_refl|].
      apply mpath_transport with (V := updz items j store); auto; try lia.
      intros k Hk. symmetry. apply sel_updz_other; lia.
    + intros Hsp. rewrite Same. apply H4; lia.
    + intros Hsp Hspp. rewrite Sel by lia. apply H5; lia.
    + intros c Hce Hcp Hor. destruct (Z.eq_dec ((c - 1) / 2) p) as [Ecp|Ncp].
      * rewrite Ecp, Same. rewrite Sel by lia. apply Hsib; auto.
      * destruct (Z.eq_dec c p) as [->|Ncc].
        -- rewrite Same. rewrite Sel by lia.
           apply le_trans with (y := items.[p]); auto; [apply H4; lia|apply H5; lia].
        -- rewrite !Sel by lia. apply H5; auto. lia.
  - assert (j = start) by lia. subst. inversion H; subst. intros c Hce Hcp. apply H5; auto.
Qed.

Theorem sift_down_spec : irreflexive lt -> forall (items : list A) start e,
  0 <= start <= e -> e < len items ->
  exists r, sift_down lt items start e = Ok r /\ len r = len items /\ Permutation items r /\
    (forall k, e < k -> r.[k] = items.[k]) /\
    (strict_weak_order lt -> heap_on items (start + 1) e -> heap_on r start e).
Proof.
  intros Irr items start e Hs He. unfold sift_down.
  destruct (leaf_search_spec Irr (S (Z.to_nat e)) items start start e) as (j0 & E0 & R0 & M0 & L0);
    try lia; [apply mp_refl|].
  rewrite E0; cbn [obind].
  destruct (climb_spec Irr (S (S (Z.to_nat j0))) items start j0 e) as (j & E1 & R1 & M1 & St & C1);
    try lia; auto.
  rewrite E1; cbn [obind].
  pose proof (mpath_anc _ _ _ _ M1) as An. pose proof (anc_ge _ _ An) as Hge.
  rewrite !get_ok with (d := d) by lia; cbn [obind]. rewrite set_ok by lia; cbn [obind].
  set (root := items.[start]) in *. set (items1 := updz items j root).
  assert (Len1 : len items1 = len items) by apply len_updz.
  destruct (rotate_total (S (Z.to_nat j)) items1 items.[j] start j root) as (r & E2 & L2 & K2 & P2);
    auto; try lia.
  { intros Hlt. unfold items1. rewrite sel_updz_other by lia. reflexivity. }
  { intros ->. reflexivity. }
  exists r; repeat split; auto; try lia.
  - pose proof (perm_updz d items j root ltac:(lia)) as P. fold items1 in P.
    rewrite P2 in P. apply Permutation_cons_inv in P. now symmetry.
  - intros k Hk. rewrite K2 by lia. unfold items1. apply sel_updz_other; lia.
  - intros W Hheap.
    assert (Sel : forall k, 0 <= k -> k <> j -> items1.[k] = items.[k])
      by (intros; apply sel_updz_other; lia).
    assert (Same : items1.[j] = root) by (apply sel_updz_same; lia).
    apply (rotate_heap W _ _ _ _ _ _ _ E2); try lia.
    + unfold items1. rewrite updz_updz_same, updz_sel_id. exact M1.
    + intros Hlt. rewrite Same. exact St.
    + intros Hlt Hp. rewrite Sel by lia. apply Hheap; lia.
    + intros c Hce Hcp Hor.
      destruct (Z.eq_dec ((c - 1) / 2) j) as [Ecj|Ncj].
      * rewrite Ecj, Same. rewrite Sel by lia. apply C1; auto.
      * destruct (Z.eq_dec c j) as [->|Nc].
        -- rewrite Same. rewrite Sel by lia.
           apply le_trans with (y := items.[j]); auto. apply Hheap; lia.
        -- rewrite !Sel by lia. apply Hheap; lia.
Qed.

Lemma heap_build_spec : irreflexive lt -> forall fuel (items : list A) start count,
  count = len items -> -1 <= start <= count - 1 -> start + 1 < Z.of_nat fuel ->
  exists r, heap_build lt fuel items start count = Ok r /\ len r = len items /\ Permutation items r /\
    (strict_weak_order lt -> heap_on items (start + 1) (count - 1) -> heap_on r 0 (count - 1)).
Proof.
  intros Irr. induction fuel as [|f IH]; intros items start count Hc Hs Hf; [lia|].
  cbn [heap_build]. destruct (Z.leb_spec 0 start) as [H0|H0].
  - destruct (sift_down_spec Irr items start (count - 1)) as (r1 & E1 & L1 & P1 & K1 & S1); try lia.
    rewrite E1; cbn [obind].
    destruct (IH r1 (start - 1) count) as (r & E & L & P & S); try lia.
    exists r; repeat split; auto; try lia.
    + now rewrite P1.
    + intros W Hh. apply S; auto. replace (start - 1 + 1) with start by lia. apply S1; auto.
  - exists items; repeat split; auto. intros W Hh. replace (start + 1) with 0 in Hh by lia. exact Hh.
Qed.

Lemma heap_root_max : strict_weak_order lt -> forall (items : list A) e, heap_on items 0 e ->
  forall k, 0 <= k <= e -> le items.[k] items.[0].
Proof.
  intros W items e Hh.
  assert (G : forall n : nat, forall k, 0 <= k <= Z.of_nat n -> k <= e -> le items.[k] items.[0]).
  { induction n as [|n IH]; intros k Hk Hke.
    - assert (k = 0) as -> by lia. apply (swo_irrefl lt W).
    - destruct (Z.eq_dec k 0) as [->|N]; [apply (swo_irrefl lt W)|].
      apply le_trans with (y := items.[(k - 1) / 2]); auto.
      + apply Hh; lia.
      + apply IH; lia. }
  intros k Hk. apply (G (Z.to_nat k)); lia.
Qed.

Lemma perm_firstn : forall (l r : list A) n, Permutation l r ->
  (forall k, Z.of_nat n <= k -> r.[k] = l.[k]) -> Permutation (firstn n l) (firstn n r).
Proof.
  intros l r n P H.
  assert (Hlen : length l = length r) by now apply Permutation_length.
  assert (E : skipn n l = skipn n r).
  { apply (nth_ext _ _ d d).
    - rewrite !skipn_length; lia.
    - intros i _. pose proof (sel_skipn d l n (Z.of_nat i) ltac:(lia)) as E1.
      pose proof (sel_skipn d r n (Z.of_nat i) ltac:(lia)) as E2.
      unfold sel in E1, E2. rewrite Nat2Z.id in E1, E2. rewrite E1, E2.
      symmetry. apply H. lia. }
  rewrite <- (firstn_skipn n l), <- (firstn_skipn n r), E in P.
  now apply Permutation_app_inv_r in P.
Qed.

Lemma prefix_perm_sel : forall (l r : list A) n, Permutation l r ->
  (forall k, n <= k -> r.[k] = l.[k]) -> forall a, 0 <= a < n -> n <= len l ->
  exists k, 0 <= k < n /\ r.[a] = l.[k].
Proof.
  intros l r n P H a Ha Hn.
  assert (Hlen : length l = length r) by now apply Permutation_length.
  pose proof (perm_firstn l r (Z.to_nat n) P ltac:(intros; apply H; lia)) as PF.
  assert (In r.[a] (firstn (Z.to_nat n) r)).
  { rewrite <- (sel_firstn d r (Z.to_nat n) a) by lia. apply sel_In.
    rewrite len_firstn by (unfold len in *; lia). lia. }
  apply (Permutation_in _ (Permutation_sym PF)) in H0.
  apply In_firstn_sel in H0; [|unfold len in *; lia].
  destruct H0 as (k & Hk & Ek). exists k; split; auto; lia.
Qed.

Lemma heap_drain_spec : irreflexive lt -> forall fuel (items : list A) e,
  -1 <= e < len items -> e + 1 < Z.of_nat fuel ->
  exists r, heap_drain lt fuel items e = Ok r /\ len r = len items /\ Permutation items r /\
    (strict_weak_order lt -> heap_on items 0 e ->
     (forall a b, e < a < b -> b < len items -> le items.[a] items.[b]) ->
     (forall a b, 0 <= a <= e -> e < b < len items -> le items.[a] items.[b]) ->
     forall a b, 0 <= a < b -> b < len items -> le r.[a] r.[b]).
Proof.
  intros Irr. induction fuel as [|f IH]; intros items e He Hf; [lia|].
  cbn [heap_drain]. destruct (Z.ltb_spec 0 e) as [H0|H0].
  - rewrite swap_ok with (d := d) by lia; cbn [obind].
    set (items1 := swapz d items 0 e).
    assert (L1 : len items1 = len items) by apply len_swapz.
    assert (Sel1 : forall k, 0 <= k -> items1.[k] = if k =? e then items.[0] else if k =? 0 then items.[e] else items.[k])
      by (intros; apply sel_swapz; lia).
    destruct (sift_down_spec Irr items1 0 (e - 1)) as (items2 & E2 & L2 & P2 & K2 & S2); try lia.
    rewrite E2; cbn [obind].
    destruct (IH items2 (e - 1)) as (r & E & L & P & S); try lia.
    exists r; repeat split; auto; try lia.
    + rewrite <- P, <- P2. apply perm_swapz; lia.
    + intros W Hh Hsuf Hcross a b Hab Hb.
      assert (Hin : forall k, 0 <= k <= e -> le items1.[k] items.[0] /\
                                 forall b, e < b < len items -> le items1.[k] items.[b]).
      { intros k Hk. rewrite Sel1 by lia.
        destruct (Z.eqb_spec k e) as [->|?]; [|destruct (Z.eqb_spec k 0) as [->|?]].
        - split; [apply (swo_irrefl lt W)|intros; apply Hcross; lia].
        - split; [apply heap_root_max with (e := e); auto; lia|intros; apply Hcross; lia].
        - split; [apply heap_root_max with (e := e); auto; lia|intros; apply Hcross; lia]. }
      rewrite L2, L1 in S. apply S; auto; try lia.
      * (* heap on [0, e-1] *)
        apply S2; auto. intros c Hce Hcp. rewrite !Sel1 by lia.
        destruct (Z.eqb_spec c e); [lia|]. destruct (Z.eqb_spec c 0); [lia|].
        destruct (Z.eqb_spec ((c - 1) / 2) e); [lia|]. destruct (Z.eqb_spec ((c - 1) / 2) 0); [lia|].
        apply Hh; lia.
      * (* the sorted suffix grows by the old root *)
        intros a' b' Hab' Hb'. rewrite !K2 by lia. rewrite !Sel1 by lia.
        destruct (Z.eqb_spec b' e); [lia|]. destruct (Z.eqb_spec b' 0); [lia|].
        destruct (Z.eqb_spec a' e) as [->|?].
        -- apply Hcross; lia.
        -- destruct (Z.eqb_spec a' 0); [lia|]. apply Hsuf; lia.
      * (* everything left in the heap is below the suffix *)
        intros a' b' Ha' Hb'.
        destruct (prefix_perm_sel items1 items2 e P2 ltac:(intros; apply K2; lia) a' ltac:(lia) ltac:(lia))
          as (k & Hk & ->).
        rewrite K2 by lia. rewrite (Sel1 b') by lia.
        destruct (Z.eqb_spec b' e) as [->|?].
        -- apply (proj1 (Hin k ltac:(lia))).
        -- destruct (Z.eqb_spec b' 0); [lia|]. apply (proj2 (Hin k ltac:(lia))); lia.
  - exists items; repeat split; auto. intros W Hh Hsuf Hcross a b Hab Hb.
    destruct (Z_le_dec a e); [apply Hcross; lia|apply Hsuf; lia].
Qed.

Theorem heap_sort_spec : irreflexive lt -> sort_ok (heap_sort lt).
Proof.
  intros Irr items. unfold heap_sort. pose proof (len_nonneg items) as Hn.
  rewrite heap_parent_eq.
  destruct (heap_build_spec Irr (S (Z.to_nat (len items))) items ((len items - 1 - 1) / 2) (len items))
    as (r1 & E1 & L1 & P1 & S1); auto; try lia.
  rewrite E1; cbn [obind].
  destruct (heap_drain_spec Irr (S (Z.to_nat (len items))) r1 (len items - 1)) as (r & E & L & P & S); try lia.
  exists r; repeat split; auto.
  - now rewrite P1.
  - intros W. apply ssorted_of_idx with (d := d). intros i j Hij Hj.
    apply S; auto; try lia.
    apply S1; auto. intros c Hce Hcp. lia.
Qed.

Theorem intro_sort_spec : irreflexive lt -> forall thr depth, sort_ok (intro_sort_thr lt thr depth).
Proof. intros Irr. apply intro_sort_from_heap; auto. now apply heap_sort_spec. Qed.

End Algorithms.

(* ====================================================================== main results *)
Definition sorted_by {A} (lt : A -> A -> bool) (l : list A) : Prop :=
  Sorted (fun a b => lt b a = false) l.

Lemma ssorted_sorted_by : forall A (lt : A -> A -> bool) l, StronglySorted (le_of lt) l -> sorted_by lt l.
Proof. intros A lt l H. apply StronglySorted_Sorted in H. exact H. Qed.

(* the default element of the index lemmas is only a proof device: take the head of the list *)
Lemma sort_ok_nil : forall A (lt : A -> A -> bool) (f : list A -> outcome (list A)),
  f [] = Ok [] -> (forall d : A, sort_ok lt f) -> sort_ok lt f.
Proof.
  intros A lt f Hnil H [|a l]; [|exact (H a (a :: l))].
  exists []; repeat split; auto. constructor.
Qed.

(* -- insertion sort: EVERY comparator *)
Theorem insertion_sort_lemma : forall A (lt : A -> A -> bool) (l : list A),
  exists r, insertion_sort lt l = Ok r /\ Permutation l r /\
    (strict_weak_order lt -> StronglySorted (le_of lt) r).
Proof.
  intros A lt. apply sort_ok_nil; [reflexivity|]. intros d l. apply insertion_sort_spec; exact d.
Qed.

(* -- partition: EVERY comparator, whenever it returns *)
Theorem partition_permutation_lemma : forall A (lt : A -> A -> bool) (l r : list A) p,
  partition lt l = Ok (r, p) -> Permutation l r /\ length r = length l /\ 1 <= p <= len l.
Proof.
  intros A lt [|a l] r p H.
  - vm_compute in H. discriminate.
  - destruct (partition_perm lt a _ _ _ H) as (P & L & R). repeat split; auto; try lia.
    unfold len in L; lia.
Qed.

(* -- partition: irreflexive comparator: in bounds; strict weak order: it splits around a pivot *)
Theorem partition_lemma : forall A (lt : A -> A -> bool) (l : list A),
  irreflexive lt -> 2 <= len l ->
  exists r p, partition lt l = Ok (r, p) /\ Permutation l r /\ 1 <= p <= len l - 1 /\
    (strict_weak_order lt -> exists pivot,
       Forall (fun x => le_of lt x pivot) (firstn (Z.to_nat p) r) /\
       Forall (fun y => le_of lt pivot y) (skipn (Z.to_nat p) r)).
Proof.
  intros A lt [|a l] Irr H; [unfold len in H; cbn in H; lia|].
  destruct (partition_spec lt a Irr (a :: l) H) as (r & p & E & P & L & R & S).
  exists r, p; repeat split; auto; try lia. intros W. destruct (S W) as (pivot & S1 & S2).
  assert (Hn : (Z.to_nat p <= length r)%nat) by (unfold len in *; lia).
  exists pivot; split; apply Forall_forall; intros x Hx.
  - apply (In_firstn_sel lt a) in Hx; auto. destruct Hx as (k & Hk & ->). apply S1; lia.
  - apply (In_skipn_sel lt a) in Hx; auto. destruct Hx as (k & Hk & ->). apply S2; lia.
Qed.

(* -- heap sort, intro sort (every threshold, every depth), sort: irreflexive comparator *)
Theorem heap_sort_lemma : forall A (lt : A -> A -> bool) (l : list A), irreflexive lt ->
  exists r, heap_sort lt l = Ok r /\ Permutation l r /\
    (strict_weak_order lt -> StronglySorted (le_of lt) r).
Proof.
  intros A lt l Irr. revert l. apply sort_ok_nil; [reflexivity|]. intros d. now apply heap_sort_spec.
Qed.

Theorem intro_sort_thr_lemma : forall A (lt : A -> A -> bool) thr depth (l : list A), irreflexive lt ->
  exists r, intro_sort_thr lt thr depth l = Ok r /\ Permutation l r /\
    (strict_weak_order lt -> StronglySorted (le_of lt) r).
Proof.
  intros A lt thr depth l Irr. revert l. apply sort_ok_nil.
  - destruct depth; reflexivity.
  - intros d. now apply intro_sort_spec.
Qed.

Theorem intro_sort_lemma : forall A (lt : A -> A -> bool) depth (l : list A), irreflexive lt ->
  exists r, intro_sort lt depth l = Ok r /\ Permutation l r /\
    (strict_weak_order lt -> StronglySorted (le_of lt) r).
Proof. intros. now apply intro_sort_thr_lemma. Qed.

Theorem sort_thr_lemma : forall A (lt : A -> A -> bool) thr (l : list A), irreflexive lt ->
  exists r, sort_thr lt thr l = Ok r /\ Permutation l r /\
    (strict_weak_order lt -> StronglySorted (le_of lt) r).
Proof. intros. now apply intro_sort_thr_lemma. Qed.

(* the three statements about `sort` (current generated threshold) *)
Theorem sort_no_crash_lemma : forall A (lt : A -> A -> bool) (l : list A), irreflexive lt ->
  exists r, Sort.sort lt l = Ok r.
Proof. intros A lt l Irr. destruct (sort_thr_lemma A lt (Z.of_N sort_insertion_threshold) l Irr) as (r & E & _). eauto. Qed.

Theorem sort_permutation_lemma : forall A (lt : A -> A -> bool) (l r : list A), irreflexive lt ->
  Sort.sort lt l = Ok r -> Permutation l r.
Proof.
  intros A lt l r Irr H. destruct (sort_thr_lemma A lt (Z.of_N sort_insertion_threshold) l Irr) as (r' & E & P & _).
  unfold Sort.sort in H. congruence.
Qed.

Theorem sort_sorted_lemma : forall A (lt : A -> A -> bool) (l r : list A), strict_weak_order lt ->
  Sort.sort lt l = Ok r -> sorted_by lt r /\ StronglySorted (le_of lt) r.
Proof.
  intros A lt l r W H.
  destruct (sort_thr_lemma A lt (Z.of_N sort_insertion_threshold) l (swo_irrefl lt W)) as (r' & E & _ & S).
  unfold Sort.sort in H. assert (r' = r) by congruence. subst. split; auto. apply ssorted_sorted_by; auto.
Qed.

(* all in one, as the property reads: any array, any strict ordering -> an ordered permutation *)
Theorem sort_ordered_permutation_lemma : forall A (lt : A -> A -> bool) (l : list A), strict_weak_order lt ->
  exists r, Sort.sort lt l = Ok r /\ Permutation l r /\ sorted_by lt r.
Proof.
  intros A lt l W. destruct (sort_no_crash_lemma A lt l (swo_irrefl lt W)) as (r & E).
  exists r; repeat split; auto.
  - eapply sort_permutation_lemma; eauto. exact (swo_irrefl lt W).
  - eapply sort_sorted_lemma; eauto.
Qed.

(* ---------------------------------------------------------------- the hypotheses are satisfiable *)
Lemma swo_by_key : forall A (f : A -> Z), strict_weak_order (fun a b => f a <? f b).
Proof.
  intros A f; constructor; intros *.
  - apply Z.ltb_irrefl.
  - rewrite !Z.ltb_lt; lia.
  - rewrite !Z.ltb_ge; lia.
Qed.

Example cmp_lt_swo : strict_weak_order cmp_lt.
Proof. exact (swo_by_key Z (fun x => x)). Qed.
Example cmp_gt_swo : strict_weak_order cmp_gt.
Proof. exact (swo_by_key Z (fun x => - x)) || (constructor; unfold cmp_gt; intros *; rewrite ?Z.ltb_lt, ?Z.ltb_ge; try lia; apply Z.ltb_irrefl). Qed.
Example cmp_key_swo : strict_weak_order cmp_key.
Proof. exact (swo_by_key Z (fun x => Z.shiftr x 3)). Qed.

Example sort_example : Sort.sort cmp_key [17; 3; 9; 8; 1; 16; 0]%Z = Ok [3; 1; 0; 9; 8; 17; 16]%Z.
Proof. vm_compute. reflexivity. Qed.

(* ---------------------------------------------------------------- the hypotheses are needed *)
(* a comparator that is not irreflexive (1 "before" 1): heap_sort returns, but loses an element *)
Theorem heap_sort_needs_irreflexive_refuted :
  exists (lt : Z -> Z -> bool) l r, heap_sort lt l = Ok r /\ ~ Permutation l r.
Proof.
  exists (fun x y => (x <? y) || ((x =? 1) && (y =? 1))), [5; 1; 9; 0], [0; 1; 1; 9].
  split; [vm_compute; reflexivity|]. intros P.
  apply (Permutation_in 5) in P; [|cbn; auto]. cbn in P. intuition discriminate.
Qed.

(* a comparator that is not irreflexive ("always before"): partition runs off the array *)
Theorem sort_needs_irreflexive_refuted :
  exists (lt : Z -> Z -> bool) l, Sort.sort lt l = Crash.
Proof.
  exists (fun _ _ => true), (repeat 0 20). vm_compute. reflexivity.
Qed.

Print Assumptions insertion_sort_lemma.
Print Assumptions partition_permutation_lemma.
Print Assumptions partition_lemma.
Print Assumptions heap_sort_lemma.
Print Assumptions intro_sort_thr_lemma.
Print Assumptions sort_no_crash_lemma.
Print Assumptions sort_permutation_lemma.
Print Assumptions sort_sorted_lemma.
Print Assumptions sort_ordered_permutation_lemma.
Print Assumptions heap_sort_needs_irreflexive_refuted.
Print Assumptions sort_needs_irreflexive_refuted.
