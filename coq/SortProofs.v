(* Proofs about the model of include/gdstk/sort.hpp (Sort.v).

   Main results (end of file):
     insertion_sort_lemma          every comparator: never crashes, permutation; sorted for a strict weak order
     partition_lemma               irreflexive comparator: in bounds, 1 <= p <= count-1, permutation; splits for a s.w.o.
     heap_sort_lemma               irreflexive comparator: in bounds, permutation; sorted for a strict weak order
     sort_no_crash_lemma           irreflexive comparator: sort never yields Crash / Hang
     sort_permutation_lemma        irreflexive comparator (transitivity NOT needed): the result is a permutation
     sort_sorted_lemma             strict weak order: the result is sorted
   all of them for every insertion threshold and every max_depth. *)
Require Import Base Generated Sort.
From Coq Require Import Permutation Sorted.
Local Open Scope Z_scope.

Ltac Zify.zify_post_hook ::= Z.div_mod_to_equations.

(* ------------------------------------------------------------------ orders *)
Definition irreflexive {A} (lt : A -> A -> bool) : Prop := forall x, lt x x = false.

Record strict_weak_order {A} (lt : A -> A -> bool) : Prop := {
  swo_irrefl : forall x, lt x x = false;
  swo_trans : forall x y z, lt x y = true -> lt y z = true -> lt x z = true;
  (* incomparability-or-greater is transitive ("negative transitivity") *)
  swo_ntrans : forall x y z, lt x y = false -> lt y z = false -> lt x z = false
}.

(* a is not after b *)
Definition le_of {A} (lt : A -> A -> bool) (a b : A) : Prop := lt b a = false.

Section Arrays.
Context {A : Type}.
Variable d : A.   (* default element: only read at indices proved to be in range *)

Fixpoint upd (l : list A) (n : nat) (x : A) : list A :=
  match l, n with
  | [], _ => []
  | _ :: t, O => x :: t
  | a :: t, S m => a :: upd t m x
  end.

Definition sel (l : list A) (i : Z) : A := nth (Z.to_nat i) l d.
Definition updz (l : list A) (i : Z) (x : A) : list A := upd l (Z.to_nat i) x.

Lemma length_upd : forall (l : list A) n x, length (upd l n x) = length l.
Proof. induction l; intros [|n] x; cbn; auto. Qed.

Lemma nth_upd_same : forall (l : list A) n x, (n < length l)%nat -> nth n (upd l n x) d = x.
Proof. induction l; intros [|n] x H; cbn in *; try lia; auto. apply IHl; lia. Qed.

Lemma nth_upd_other : forall (l : list A) n k x, k <> n -> nth k (upd l n x) d = nth k l d.
Proof.
  induction l; intros [|n] [|k] x H; cbn; auto; try congruence.
Qed.

Lemma len_nonneg : forall l : list A, 0 <= len l.
Proof. intros; unfold len; lia. Qed.

Lemma len_updz : forall (l : list A) i x, len (updz l i x) = len l.
Proof. intros; unfold len, updz; now rewrite length_upd. Qed.

Lemma sel_updz_same : forall (l : list A) i x, 0 <= i < len l -> sel (updz l i x) i = x.
Proof. intros l i x H; unfold sel, updz, len in *; apply nth_upd_same; lia. Qed.

Lemma sel_updz_other : forall (l : list A) i k x, 0 <= i -> 0 <= k -> k <> i -> sel (updz l i x) k = sel l k.
Proof. intros l i k x Hi Hk H; unfold sel, updz; apply nth_upd_other; lia. Qed.

Lemma updz_sel_id : forall (l : list A) i, updz l i (sel l i) = l.
Proof.
  intros l i; unfold updz, sel. generalize (Z.to_nat i) as n.
  induction l; intros [|n]; cbn; auto. now rewrite IHl.
Qed.

(* replacing one element: the old one leaves, the new one enters *)
Lemma perm_upd : forall (l : list A) n x, (n < length l)%nat -> Permutation (nth n l d :: upd l n x) (x :: l).
Proof.
  induction l; intros [|n] x H; cbn in *; try lia.
  - apply perm_swap.
  - rewrite perm_swap. rewrite (IHl n x) by lia. apply perm_swap.
Qed.

Lemma perm_updz : forall (l : list A) i x, 0 <= i < len l -> Permutation (sel l i :: updz l i x) (x :: l).
Proof. intros; unfold sel, updz, len in *; apply perm_upd; lia. Qed.

(* -------- the bounds-checked accessors *)
Lemma N_to_nat_pos : forall p, N.to_nat (N.pos p) = S (N.to_nat (Pos.pred_N p)).
Proof. intros; rewrite N.pos_pred_spec; lia. Qed.

Lemma get_at_spec : forall (l : list A) n,
  get_at l n = match nth_error l (N.to_nat n) with Some x => Ok x | None => Crash end.
Proof.
  induction l; intros n; cbn [get_at].
  - destruct (N.to_nat n); reflexivity.
  - destruct n as [|p]; [reflexivity|]. rewrite N_to_nat_pos; cbn [nth_error]. apply IHl.
Qed.

Lemma set_at_spec : forall (l : list A) n x,
  set_at l n x = if (N.to_nat n <? length l)%nat then Ok (upd l (N.to_nat n) x) else Crash.
Proof.
  induction l; intros n x; cbn [set_at].
  - reflexivity.
  - destruct n as [|p]; [reflexivity|]. rewrite N_to_nat_pos, IHl. cbn [length upd].
    change (S (N.to_nat (Pos.pred_N p)) <? S (length l))%nat with (N.to_nat (Pos.pred_N p) <? length l)%nat.
    destruct (N.to_nat (Pos.pred_N p) <? length l)%nat; reflexivity.
Qed.

Lemma get_ok : forall (l : list A) i, 0 <= i < len l -> get l i = Ok (sel l i).
Proof.
  intros l i H; unfold get, sel, len in *.
  destruct (Z.ltb_spec i 0); [lia|]. rewrite get_at_spec, Z_N_nat.
  destruct (nth_error l (Z.to_nat i)) eqn:E.
  - now rewrite (nth_error_nth _ _ d E).
  - apply nth_error_None in E; lia.
Qed.

Lemma get_oob : forall (l : list A) i, ~ (0 <= i < len l) -> get l i = Crash.
Proof.
  intros l i H; unfold get, len in *.
  destruct (Z.ltb_spec i 0); [reflexivity|]. rewrite get_at_spec, Z_N_nat.
  destruct (nth_error l (Z.to_nat i)) eqn:E; [|reflexivity].
  assert (nth_error l (Z.to_nat i) <> None) by congruence.
  apply nth_error_Some in H1; lia.
Qed.

Lemma get_inv : forall (l : list A) i x, get l i = Ok x -> 0 <= i < len l /\ x = sel l i.
Proof.
  intros l i x H.
  destruct (Z_lt_dec i 0) as [Hn|Hn]; [rewrite get_oob in H by lia; discriminate|].
  destruct (Z_lt_dec i (len l)) as [Hl|Hl]; [|rewrite get_oob in H by lia; discriminate].
  rewrite get_ok in H by lia. inversion H; split; [lia|reflexivity].
Qed.

Lemma set_ok : forall (l : list A) i x, 0 <= i < len l -> set l i x = Ok (updz l i x).
Proof.
  intros l i x H; unfold set, updz, len in *.
  destruct (Z.ltb_spec i 0); [lia|]. rewrite set_at_spec, Z_N_nat.
  destruct (Nat.ltb_spec (Z.to_nat i) (length l)); [reflexivity|lia].
Qed.

Lemma set_oob : forall (l : list A) i x, ~ (0 <= i < len l) -> set l i x = Crash.
Proof.
  intros l i x H; unfold set, len in *.
  destruct (Z.ltb_spec i 0); [reflexivity|]. rewrite set_at_spec, Z_N_nat.
  destruct (Nat.ltb_spec (Z.to_nat i) (length l)); [lia|reflexivity].
Qed.

Lemma set_inv : forall (l : list A) i x l', set l i x = Ok l' -> 0 <= i < len l /\ l' = updz l i x.
Proof.
  intros l i x l' H.
  destruct (Z_lt_dec i 0) as [Hn|Hn]; [rewrite set_oob in H by lia; discriminate|].
  destruct (Z_lt_dec i (len l)) as [Hl|Hl]; [|rewrite set_oob in H by lia; discriminate].
  rewrite set_ok in H by lia. inversion H; split; [lia|reflexivity].
Qed.

(* -------- swap_values *)
Definition swapz (l : list A) (i j : Z) : list A := updz (updz l i (sel l j)) j (sel l i).

Lemma swap_ok : forall (l : list A) i j, 0 <= i < len l -> 0 <= j < len l -> swap l i j = Ok (swapz l i j).
Proof.
  intros l i j Hi Hj; unfold swap, swapz.
  rewrite !get_ok by lia; cbn [obind]. rewrite set_ok by lia; cbn [obind].
  rewrite set_ok by (rewrite len_updz; lia). reflexivity.
Qed.

Lemma swap_inv : forall (l : list A) i j l', swap l i j = Ok l' ->
  0 <= i < len l /\ 0 <= j < len l /\ l' = swapz l i j.
Proof.
  intros l i j l' H; unfold swap in H.
  destruct (get l i) as [a| | | | |] eqn:E1; try discriminate; cbn [obind] in H.
  destruct (get l j) as [b| | | | |] eqn:E2; try discriminate; cbn [obind] in H.
  apply get_inv in E1; apply get_inv in E2. destruct E1 as [Hi ->], E2 as [Hj ->].
  destruct (set l i (sel l j)) as [l1| | | | |] eqn:E3; try discriminate; cbn [obind] in H.
  apply set_inv in E3; destruct E3 as [_ ->]. apply set_inv in H; destruct H as [_ ->].
  repeat split; lia.
Qed.

Lemma len_swapz : forall (l : list A) i j, len (swapz l i j) = len l.
Proof. intros; unfold swapz; now rewrite !len_updz. Qed.

Lemma sel_swapz : forall (l : list A) i j k, 0 <= i < len l -> 0 <= j < len l -> 0 <= k ->
  sel (swapz l i j) k = if k =? j then sel l i else if k =? i then sel l j else sel l k.
Proof.
  intros l i j k Hi Hj Hk; unfold swapz.
  destruct (Z.eqb_spec k j) as [->|Hkj].
  - rewrite sel_updz_same by (rewrite len_updz; lia). reflexivity.
  - rewrite sel_updz_other by lia.
    destruct (Z.eqb_spec k i) as [->|Hki].
    + now rewrite sel_updz_same by lia.
    + now rewrite sel_updz_other by lia.
Qed.

Lemma perm_swapz : forall (l : list A) i j, 0 <= i < len l -> 0 <= j < len l -> Permutation l (swapz l i j).
Proof.
  intros l i j Hi Hj; unfold swapz.
  set (l1 := updz l i (sel l j)).
  assert (H1 : Permutation (sel l i :: l1) (sel l j :: l)) by (apply perm_updz; lia).
  assert (H2 : Permutation (sel l1 j :: updz l1 j (sel l i)) (sel l i :: l1))
    by (apply perm_updz; unfold l1; rewrite len_updz; lia).
  assert (E : sel l1 j = sel l j).
  { unfold l1. destruct (Z.eq_dec j i) as [->|N].
    - now rewrite sel_updz_same by lia.
    - now rewrite sel_updz_other by lia. }
  rewrite E in H2. rewrite H1 in H2. apply Permutation_cons_inv in H2. now symmetry.
Qed.

(* -------- lists seen through their indices *)
Lemma sel_cons_succ : forall a l i, 0 <= i -> sel (a :: l) (i + 1) = sel l i.
Proof. intros a l i H; unfold sel. replace (Z.to_nat (i + 1)) with (S (Z.to_nat i)) by lia. reflexivity. Qed.

Lemma len_cons : forall a (l : list A), len (a :: l) = len l + 1.
Proof. intros; unfold len; cbn [length]; lia. Qed.

Lemma sel_In : forall (l : list A) i, 0 <= i < len l -> In (sel l i) l.
Proof. intros l i H; unfold sel, len in *; apply nth_In; lia. Qed.

Lemma In_sel : forall (l : list A) x, In x l -> exists i, 0 <= i < len l /\ x = sel l i.
Proof.
  intros l x H. destruct (In_nth l x d H) as (n & Hn & E).
  exists (Z.of_nat n); unfold sel, len; rewrite Nat2Z.id; split; [lia|auto].
Qed.

Lemma ssorted_of_idx : forall (R : A -> A -> Prop) l,
  (forall i j, 0 <= i < j -> j < len l -> R (sel l i) (sel l j)) -> StronglySorted R l.
Proof.
  induction l as [|a l IH]; intros H; constructor.
  - apply IH; intros i j Hij Hj.
    rewrite <- (sel_cons_succ a l i), <- (sel_cons_succ a l j) by lia.
    apply H; rewrite ?len_cons; lia.
  - apply Forall_forall; intros x Hx. destruct (In_sel l x Hx) as (i & Hi & ->).
    rewrite <- (sel_cons_succ a l i) by lia. change a with (sel (a :: l) 0) at 1.
    apply H; rewrite ?len_cons; lia.
Qed.

Lemma sel_firstn : forall (l : list A) n i, 0 <= i < Z.of_nat n -> sel (firstn n l) i = sel l i.
Proof.
  intros l n i H; unfold sel. remember (Z.to_nat i) as k. assert (Hk : (k < n)%nat) by lia.
  clear Heqk H. revert n k Hk; induction l; intros [|n] [|k] Hk; cbn; auto; try lia. apply IHl; lia.
Qed.

Lemma sel_skipn : forall (l : list A) n i, 0 <= i -> sel (skipn n l) i = sel l (i + Z.of_nat n).
Proof.
  intros l n i H; unfold sel. replace (Z.to_nat (i + Z.of_nat n)) with (n + Z.to_nat i)%nat by lia.
  generalize (Z.to_nat i) as k. revert l; induction n; intros l k; cbn [skipn Nat.add]; auto.
  destruct l; cbn [nth]; [destruct k; reflexivity|]. apply IHn.
Qed.

Lemma len_firstn : forall (l : list A) n, (n <= length l)%nat -> len (firstn n l) = Z.of_nat n.
Proof. intros; unfold len; rewrite firstn_length; lia. Qed.

Lemma len_skipn : forall (l : list A) n, len (skipn n l) = len l - Z.of_nat (Nat.min n (length l)).
Proof. intros; unfold len; rewrite skipn_length; lia. Qed.

Lemma len_app : forall l1 l2 : list A, len (l1 ++ l2) = len l1 + len l2.
Proof. intros; unfold len; rewrite app_length; lia. Qed.

Lemma ssorted_app : forall (R : A -> A -> Prop) l1 l2,
  StronglySorted R l1 -> StronglySorted R l2 -> (forall x y, In x l1 -> In y l2 -> R x y) ->
  StronglySorted R (l1 ++ l2).
Proof.
  induction l1 as [|a l1 IH]; intros l2 H1 H2 H; cbn; auto.
  inversion H1; subst. constructor.
  - apply IH; auto. intros; apply H; cbn; auto.
  - apply Forall_app; split; auto. apply Forall_forall; intros y Hy; apply H; cbn; auto.
Qed.

End Arrays.

(* ====================================================================== *)
Section Algorithms.
Context {A : Type}.
Variable lt : A -> A -> bool.
Variable d : A.

Notation "l .[ i ]" := (sel d l i) (at level 2, left associativity, format "l .[ i ]").
Notation le := (le_of lt).

Lemma swo_asym : strict_weak_order lt -> forall x y, lt x y = true -> lt y x = false.
Proof.
  intros W x y H. destruct (lt y x) eqn:E; auto.
  pose proof (swo_trans lt W _ _ _ H E) as T. rewrite (swo_irrefl lt W) in T. discriminate.
Qed.

Lemma le_trans : strict_weak_order lt -> forall x y z, le x y -> le y z -> le x z.
Proof. unfold le_of; intros W x y z H1 H2. eapply swo_ntrans; eauto. Qed.

Lemma lt_le : strict_weak_order lt -> forall x y, lt x y = true -> le x y.
Proof. unfold le_of; intros; now apply swo_asym. Qed.

(* x < y <= z -> x < z   and   x <= y < z -> x < z *)
Lemma lt_le_trans : strict_weak_order lt -> forall x y z, lt x y = true -> le y z -> lt x z = true.
Proof.
  unfold le_of; intros W x y z H1 H2. destruct (lt x z) eqn:E; auto.
  pose proof (swo_ntrans lt W _ _ _ E H2). congruence.
Qed.

Lemma le_lt_trans : strict_weak_order lt -> forall x y z, le x y -> lt y z = true -> lt x z = true.
Proof.
  unfold le_of; intros W x y z H1 H2. destruct (lt x z) eqn:E; auto.
  pose proof (swo_ntrans lt W _ _ _ H1 E). congruence.
Qed.

(* ------------------------------------------------------------------ insertion_sort *)
(* final store of the inner loop: items[j+1] = store *)
Lemma ins_place : forall (items : list A) store j i l0,
  -1 <= j -> j + 1 <= i < len items ->
  Permutation (items.[j + 1] :: l0) (store :: items) ->
  let r := updz items (j + 1) store in
  Permutation l0 r /\ len r = len items /\
  (forall k, i < k -> r.[k] = items.[k]) /\
  (strict_weak_order lt ->
   (forall a b, 0 <= a < b -> b <= i -> a <> j + 1 -> b <> j + 1 -> le items.[a] items.[b]) ->
   (forall b, j + 1 < b <= i -> lt store items.[b] = true) ->
   (j = -1 \/ lt store items.[j] = false) ->
   forall a b, 0 <= a < b -> b <= i -> le r.[a] r.[b]).
Proof.
  intros items store j i l0 Hj Hi HP r. unfold r. repeat split.
  - pose proof (perm_updz d items (j + 1) store ltac:(lia)) as P.
    rewrite <- HP in P. apply Permutation_cons_inv in P. now symmetry.
  - apply len_updz.
  - intros k Hk. apply sel_updz_other; lia.
  - intros W Hs Hb Hstop a b Hab Hbi.
    destruct (Z.eq_dec a (j + 1)) as [->|Na].
    + rewrite sel_updz_same by lia. rewrite sel_updz_other by lia. apply lt_le; auto. apply Hb; lia.
    + rewrite (sel_updz_other d items (j + 1) a) by lia.
      destruct (Z.eq_dec b (j + 1)) as [->|Nb].
      * rewrite sel_updz_same by lia. destruct Hstop as [->|Hstop]; [lia|].
        destruct (Z.eq_dec a j) as [->|Naj]; [exact Hstop|].
        apply le_trans with (y := items.[j]); auto. apply Hs; lia.
      * rewrite sel_updz_other by lia. apply Hs; lia.
Qed.

Lemma ins_inner_spec : forall fuel (items : list A) store j i l0,
  j + 1 < Z.of_nat fuel -> -1 <= j -> j + 1 <= i < len items ->
  Permutation (items.[j + 1] :: l0) (store :: items) ->
  exists r, ins_inner lt fuel items store j = Ok r /\
    Permutation l0 r /\ len r = len items /\
    (forall k, i < k -> r.[k] = items.[k]) /\
    (strict_weak_order lt ->
     (forall a b, 0 <= a < b -> b <= i -> a <> j + 1 -> b <> j + 1 -> le items.[a] items.[b]) ->
     (forall b, j + 1 < b <= i -> lt store items.[b] = true) ->
     forall a b, 0 <= a < b -> b <= i -> le r.[a] r.[b]).
Proof.
  induction fuel as [|f IH]; intros items store j i l0 Hf Hj Hi HP; [lia|].
  cbn [ins_inner]. destruct (Z.leb_spec 0 j) as [Hj0|Hj0].
  - rewrite get_ok with (d := d) by lia; cbn [obind].
    destruct (lt store items.[j]) eqn:Hlt.
    + rewrite set_ok by lia; cbn [obind].
      set (items' := updz items (j + 1) items.[j]).
      assert (Hlen : len items' = len items) by apply len_updz.
      assert (Hsel : forall k, 0 <= k -> k <> j + 1 -> items'.[k] = items.[k])
        by (intros; apply sel_updz_other; lia).
      assert (Hsame : items'.[j + 1] = items.[j]) by (apply sel_updz_same; lia).
      destruct (IH items' store (j - 1) i l0) as (r & Hr & HrP & Hrl & Hrk & Hrs); try lia.
      * replace (j - 1 + 1) with j by lia. rewrite Hsel by lia.
        pose proof (perm_updz d items (j + 1) items.[j] ltac:(lia)) as P. fold items' in P.
        (* items[j+1] :: items' ~ items[j] :: items ;  items[j+1] :: l0 ~ store :: items *)
        apply Permutation_cons_inv with (a := items.[j + 1]).
        rewrite perm_swap, HP. rewrite perm_swap. rewrite (perm_swap store).
        apply perm_skip. now symmetry.
      * exists r; repeat split; auto; try lia.
        -- intros k Hk. rewrite Hrk by lia. apply Hsel; lia.
        -- intros W Hs Hb. apply Hrs; auto.
           ++ replace (j - 1 + 1) with j by lia. intros a b Hab Hbi Na Nb.
              destruct (Z.eq_dec a (j + 1)) as [->|Na'].
              ** rewrite Hsame, Hsel by lia. apply Hs; lia.
              ** rewrite (Hsel a) by lia. destruct (Z.eq_dec b (j + 1)) as [->|Nb'].
                 --- rewrite Hsame. apply Hs; lia.
                 --- rewrite Hsel by lia. apply Hs; lia.
           ++ replace (j - 1 + 1) with j by lia. intros b Hb'.
              destruct (Z.eq_dec b (j + 1)) as [->|Nb']; [now rewrite Hsame|].
              rewrite Hsel by lia. apply Hb; lia.
    + rewrite set_ok by lia.
      destruct (ins_place items store j i l0 Hj Hi HP) as (P1 & P2 & P3 & P4).
      eexists; repeat split; eauto.
  - rewrite set_ok by lia.
    destruct (ins_place items store j i l0 Hj Hi HP) as (P1 & P2 & P3 & P4).
    eexists; repeat split; eauto. intros W Hs Hb. apply P4; auto. left; lia.
Qed.

Lemma ins_outer_spec : forall fuel (items : list A) i count l0,
  count = len items -> 1 <= i -> Z.max 0 (count - i) < Z.of_nat fuel -> Permutation l0 items ->
  exists r, ins_outer lt fuel items i count = Ok r /\ Permutation l0 r /\
    (strict_weak_order lt ->
     (forall a b, 0 <= a < b -> b < i -> le items.[a] items.[b]) ->
     forall a b, 0 <= a < b -> b < len r -> le r.[a] r.[b]).
Proof.
  induction fuel as [|f IH]; intros items i count l0 Hc Hi Hf HP; [lia|].
  cbn [ins_outer]. destruct (Z.ltb_spec i count) as [Hlt|Hge].
  - rewrite get_ok with (d := d) by lia; cbn [obind].
    destruct (ins_inner_spec (S (Z.to_nat i)) items items.[i] (i - 1) i l0) as (r1 & E1 & P1 & L1 & K1 & S1);
      try lia.
    { replace (i - 1 + 1) with i by lia. now apply perm_skip. }
    rewrite E1; cbn [obind].
    destruct (IH r1 (i + 1) count l0) as (r & E & P & S); try lia; auto.
    exists r; repeat split; auto. intros W Hs. apply S; auto.
    intros a b Hab Hb. apply S1; auto; try lia.
    + intros a' b' Hab' Hb' _ _. apply Hs; lia.
  - exists items; repeat split; auto. intros W Hs a b Hab Hb. apply Hs; lia.
Qed.

Theorem insertion_sort_spec : forall l : list A,
  exists r, insertion_sort lt l = Ok r /\ Permutation l r /\
    (strict_weak_order lt -> StronglySorted le r).
Proof.
  intros l. unfold insertion_sort.
  destruct (ins_outer_spec (S (Z.to_nat (len l))) l 1 (len l) l) as (r & E & P & S);
    auto; try lia.
  { pose proof (len_nonneg l); lia. }
  exists r; repeat split; auto. intros W. apply ssorted_of_idx with (d := d).
  intros i j Hij Hj. apply S; auto; try lia. intros a b Hab Hb; lia.
Qed.
