(* C02C (to be merged into C02 / C04) - compressed blocks (CBLOCK records) around the statement-level OASIS models; zlib's
   inflate / deflate are parameters (Section variables of OasisCblock.v), every theorem holds for EVERY function put there.
   Theorem-only file: every proof is `exact <lemma>`; Print Assumptions under each. *)
Require Import Base OasisInt OasisSpec OasisSpecProofs OasisRead OasisCblock OasisCblockProofs.
Require Import OasisWrite OasisWriteProofs OasisRoundtrip OasisCblockWrite OasisCblockWriteProofs.
Local Open Scope N_scope.

(* (1) conservative extension: a stream on which the reader model of OasisRead.v never meets record 34 gives the same outcome
   in the extended model, whatever inflate is - every theorem about read_oas_model carries over *)
Theorem cblock_conservative : forall inflate bs,
  read_oas_model bs <> Ok RCblock -> read_oas_model_c inflate bs = CR (read_oas_model bs).
Proof. exact cblock_conservative_lemma. Qed.
Print Assumptions cblock_conservative.

(* (2) compressed blocks are transparent: executing a CBLOCK record whose data inflate to x (of the announced size) is
   continuing, in the same reader state, with x spliced in - provided no CBLOCK record lies inside x and no record with a
   multi-byte read crosses the end of x (blk_ok: the loop's own stepping over x ++ post) *)
Theorem cblock_splice : forall inflate n f st usize z x post,
  usize < two32 -> N.of_nat (length z) < two32 ->
  inflate z usize = Some x -> N.of_nat (length x) = usize ->
  blk_ok (S (S (length (x ++ post)))) st (mkS (x ++ post) None) (mkB 0 usize) = true ->
  r_loop_c inflate (S n) (S f) st (mkS (cblock_rec usize z ++ post) None) None =
  r_loop_c inflate n (S (S (length (x ++ post)))) st (mkS (x ++ post) None) None.
Proof. exact cblock_splice_lemma. Qed.
Print Assumptions cblock_splice.

(* the same for whole files: hdr = magic + START, pre = records the loop runs through (in both files) before the block *)
Theorem cblock_splice_file : forall inflate hdr u pre st usize z x post r1 r2,
  start_of hdr u ->
  rsteps (cblock_rec usize z ++ post) (q_init u) pre st -> rsteps (x ++ post) (q_init u) pre st ->
  usize < two32 -> N.of_nat (length z) < two32 ->
  inflate z usize = Some x -> N.of_nat (length x) = usize ->
  blk_ok (S (S (length (x ++ post)))) st (mkS (x ++ post) None) (mkB 0 usize) = true ->
  read_oas_model_c inflate (hdr ++ concat pre ++ cblock_rec usize z ++ post) = r1 ->
  read_oas_model_c inflate (hdr ++ concat pre ++ x ++ post) = r2 ->
  r1 <> CR Hang -> r2 <> CR Hang -> r1 = r2.
Proof. exact cblock_splice_file_lemma. Qed.
Print Assumptions cblock_splice_file.

(* inside a block that is not crossed the loop does what it does in the file (used for the writer's cell bodies) *)
Theorem cblock_block_steps : forall inflate rest st rs st', rsteps rest st rs st' -> forall n f ob,
  blk_wf ob -> fits ob (N.of_nat (length (concat rs))) ->
  r_loop_c inflate n (length rs + f) st (mkS (concat rs ++ rest) None) ob =
  r_loop_c inflate n f st' (mkS rest None) (adv_s ob (N.of_nat (length (concat rs)))).
Proof. exact rsteps_loop. Qed.
Print Assumptions cblock_block_steps.

(* (3) error paths *)
Theorem cblock_bad_type : forall inflate n f st ty rest,
  wf_u ty -> ty <> 0 ->
  r_loop_c inflate n (S f) st (mkS (34 :: enc_uint ty ++ rest) None) None =
  CR (exit_outcome (Some C_invalid) st (snd (s_uint (snd (s_uint (mkS rest None)))))).
Proof. exact cblock_bad_type_lemma. Qed.
Print Assumptions cblock_bad_type.

Theorem cblock_inflate_fails : forall inflate n f st usize z post,
  usize < 68719476736 -> N.of_nat (length z) < two32 ->
  inflate_end inflate z (usize mod two32) = None ->
  r_loop_c inflate n (S f) st (mkS (cblock_rec usize z ++ post) None) None =
  (if cleanup_faults st then CR Crash else CR_zlib).
Proof. exact cblock_inflate_fails_lemma. Qed.
Print Assumptions cblock_inflate_fails.

Theorem cblock_truncated : forall inflate n f st usize csize zt,
  usize < 68719476736 -> csize < two32 -> N.of_nat (length zt) < csize ->
  r_loop_c inflate n (S f) st (mkS (34 :: 0 :: enc_uint usize ++ enc_uint csize ++ zt) None) None =
  match inflate_end inflate zt (usize mod two32) with
  | None => if cleanup_faults st then CR Crash else CR_short
  | Some _ => CR (exit_outcome (Some C_invalid) st (mkS [] None))
  end.
Proof. exact cblock_truncated_lemma. Qed.
Print Assumptions cblock_truncated.

(* whatever the bytes, the block state and inflate: a CBLOCK record never ends the loop with a library *)
Theorem cblock_final_not_lib : forall inflate st s ob r,
  h_cblock inflate st s ob = SC_final r -> ~ is_lib r.
Proof. exact cblock_final_not_lib_lemma. Qed.
Print Assumptions cblock_final_not_lib.

(* (4) the round trip holds under compression for EVERY correct codec: loading (reader model with CBLOCK) what the writer
   model with compression_level > 0 saved gives what the uncompressed pair gives, i.e. the library
   (oas_models_roundtrip_full), for every well-formed library of the covered subset whose cell bodies and their deflated
   forms are shorter than 2^32 bytes (the (uInt) casts of both routines), with OASIS_CONFIG_PROPERTY_CELL_OFFSET off *)
Theorem oas_roundtrip_compressed : forall inflate deflate cfg l,
  (forall x, inflate (deflate x) (N.of_nat (length x)) = Some x) ->
  wlib_ok l -> wlib_small l -> cfg_cell_offset cfg = false ->
  Forall (chunk_ok deflate) (cell_chunks l) ->
  read_oas_model_c inflate (write_oas_model_c deflate cfg l) = CR (read_oas_model (write_oas_model cfg l)).
Proof. exact oas_roundtrip_compressed_lemma. Qed.
Print Assumptions oas_roundtrip_compressed.

Theorem oas_roundtrip_compressed_is_library : forall inflate deflate cfg l,
  (forall x, inflate (deflate x) (N.of_nat (length x)) = Some x) ->
  wlib_ok l -> wlib_small l -> cfg_cell_offset cfg = false ->
  Forall (chunk_ok deflate) (cell_chunks l) ->
  read_oas_model_c inflate (write_oas_model_c deflate cfg l) = CR (Ok (OasisRead.view (view_w cfg l))).
Proof. exact oas_roundtrip_compressed_view. Qed.
Print Assumptions oas_roundtrip_compressed_is_library.

(* (4') with or without OASIS_CONFIG_PROPERTY_CELL_OFFSET: loading the compressed file gives the library with the CELL-record
   positions of THAT file in its S_CELL_OFFSET properties (view_w_c).  Well-formedness is asked of [bake cfg l offs], the library
   whose cells already carry those properties (what remove_property / set_property leave in cell->properties) *)
Theorem oas_roundtrip_compressed_offsets : forall inflate deflate cfg l,
  (forall x, inflate (deflate x) (N.of_nat (length x)) = Some x) ->
  wlib_ok (bake cfg l (runc_offsets (write_oas_run_c deflate cfg l))) ->
  wlib_small (bake cfg l (runc_offsets (write_oas_run_c deflate cfg l))) ->
  Forall (chunk_ok deflate) (cell_chunks l) ->
  read_oas_model_c inflate (write_oas_model_c deflate cfg l) = CR (Ok (OasisRead.view (view_w_c deflate cfg l))).
Proof. exact oas_roundtrip_compressed_offsets_lemma. Qed.
Print Assumptions oas_roundtrip_compressed_offsets.

(* with OASIS_CONFIG_PROPERTY_CELL_OFFSET on the equation with the UNCOMPRESSED pair is false (the property values are file
   positions): witness *)
Theorem oas_roundtrip_compressed_cell_offset_refuted_thm :
  exists inflate deflate l,
    (forall x, inflate (deflate x) (N.of_nat (length x)) = Some x) /\ wlib_ok l /\ wlib_small l /\
    Forall (chunk_ok deflate) (cell_chunks l) /\
    read_oas_model_c inflate (write_oas_model_c deflate (mkWCfg true) l) <>
    CR (read_oas_model (write_oas_model (mkWCfg true) l)).
Proof. exact oas_roundtrip_compressed_cell_offset_refuted. Qed.
Print Assumptions oas_roundtrip_compressed_cell_offset_refuted_thm.
