Require Import Base OasisInt OasisSpec OasisDetect.
Require Import Extraction ExtrOcamlBasic.
Extraction Blacklist List String Int.
Extraction "../ocaml/extracted/c04.ml" spec_oas_decode spec_oas_encode rep_offsets elem_points ctrap_w ctrap_h
  spec_ctrap_table lfpt_eval mkChoice is_rectangle is_trapezoid.
