(* Proofs about OasisPlist.v:
     - every legal encoding of a point list in every list type 0..5 decodes to the list,
     - the writer's output is one of those legal encodings (with a legal implicit closing edge),
     - hence the round trip for every list, open or closed. *)
Require Import Base OasisInt OasisIntProofs OasisPlist.
From Coq Require Import ZifyBool ZifyN ZifyNat.
Local Open Scope Z_scope.

Definition fits_pt (d : pt) : Prop := fits63 (fst d) /\ fits63 (snd d).

(* the points reached from [ref] by the successive differences [ds] *)
Fixpoint walk (ref : pt) (ds : list pt) : list pt :=
  match ds with
  | [] => []
  | d :: t => let p := (fst ref + fst d, snd ref + snd d) in p :: walk p t
  end.

Lemma pt_eta (p : pt) : (fst p, snd p) = p.
Proof. destruct p; reflexivity. Qed.

Lemma walk_deltas tl : forall p0, walk p0 (deltas_from p0 tl) = tl.
Proof.
  induction tl as [|a t IH]; intros p0; cbn [deltas_from walk fst snd]; [reflexivity|].
  replace (fst p0 + (fst a - fst p0), snd p0 + (snd a - snd p0)) with a
    by (destruct a; cbn [fst snd]; f_equal; lia).
  rewrite IH. reflexivity.
Qed.

Lemma deltas_from_length tl : forall p, length (deltas_from p tl) = length tl.
Proof. induction tl as [|a t IH]; intros p; cbn [deltas_from length]; [reflexivity|]. rewrite IH. reflexivity. Qed.

Lemma last_cons_default {A} (l : list A) : forall a d, last (a :: l) d = last l a.
Proof.
  induction l as [|b t IH]; intros a d; [reflexivity|].
  change (last (a :: b :: t) d) with (last (b :: t) d). rewrite (IH b d), (IH b a). reflexivity.
Qed.

Lemma walk_app l1 : forall ref l2,
  walk ref (l1 ++ l2) = walk ref l1 ++ walk (last (walk ref l1) ref) l2.
Proof.
  induction l1 as [|d t IH]; intros ref l2; [reflexivity|].
  cbn [app walk]. rewrite IH. rewrite last_cons_default. reflexivity.
Qed.

(* parity flag after n alternations *)
Fixpoint flipn (n : nat) (b : bool) : bool :=
  match n with O => b | S k => flipn k (negb b) end.

Lemma flipn_S n : forall b, flipn (S n) b = negb (flipn n b).
Proof. induction n as [|k IH]; intros b; [reflexivity|]. cbn [flipn] in *. rewrite IH. reflexivity. Qed.

Lemma flipn_negb n b : flipn n (negb b) = negb (flipn n b).
Proof. rewrite <- flipn_S. reflexivity. Qed.

Lemma alt_b_app l1 : forall f l2, alt_b f (l1 ++ l2) = alt_b f l1 && alt_b (flipn (length l1) f) l2.
Proof.
  induction l1 as [|d t IH]; intros f l2; [reflexivity|].
  cbn [app alt_b length flipn]. rewrite IH. rewrite andb_assoc. reflexivity.
Qed.

Lemma alt_manh l : forall f, alt_b f l = true -> forallb manh_b l = true.
Proof.
  induction l as [|d t IH]; intros f H; [reflexivity|]. cbn [alt_b forallb] in *.
  apply andb_true_iff in H. destruct H as [H1 H2]. rewrite (IH _ H2), andb_true_r.
  unfold manh_b. destruct f; rewrite H1; [reflexivity|apply orb_true_r].
Qed.

Lemma manh_oct l : forallb manh_b l = true -> forallb oct_b l = true.
Proof.
  induction l as [|d t IH]; intros H; [reflexivity|]. cbn [forallb] in *.
  apply andb_true_iff in H. destruct H as [H1 H2]. rewrite (IH H2), andb_true_r.
  unfold manh_b, oct_b in *. rewrite H1. reflexivity.
Qed.

(* ------------------------------------------------------------------ lengths: a delta takes >= 1 byte *)
Lemma enc_int_internal_len v nb bits : (1 <= length (enc_int_internal v nb bits))%nat.
Proof. unfold enc_int_internal. destruct (_ <? _)%N; cbn [length]; lia. Qed.

Lemma enc_int_len z : (1 <= length (enc_int z))%nat.
Proof. unfold enc_int. destruct (z <? 0); apply enc_int_internal_len. Qed.

Lemma enc_2delta_len d : manh_b d = true -> (1 <= length (enc_2delta (fst d) (snd d)))%nat.
Proof.
  unfold manh_b, enc_2delta. intros H.
  destruct (fst d =? 0) eqn:Ex; [destruct (snd d <? 0); apply enc_int_internal_len|].
  destruct (snd d =? 0) eqn:Ey; [destruct (fst d <? 0); apply enc_int_internal_len|discriminate].
Qed.

Lemma enc_3delta_len d : oct_b d = true -> (1 <= length (enc_3delta (fst d) (snd d)))%nat.
Proof.
  unfold oct_b, enc_3delta. intros H.
  destruct (fst d =? 0) eqn:Ex; [destruct (snd d <? 0); apply enc_int_internal_len|].
  destruct (snd d =? 0) eqn:Ey; [destruct (fst d <? 0); apply enc_int_internal_len|].
  destruct (fst d =? snd d) eqn:Exy; [destruct (fst d <? 0); apply enc_int_internal_len|].
  destruct (fst d =? - snd d) eqn:Exy2; [destruct (fst d <? 0); apply enc_int_internal_len|discriminate].
Qed.

Lemma enc_gdelta_len x y : (1 <= length (enc_gdelta x y))%nat.
Proof.
  unfold enc_gdelta.
  repeat match goal with
  | |- context [if ?c then _ else _] => destruct c
  end; try apply enc_int_internal_len.
  all: rewrite app_length; match goal with |- (1 <= length (enc_int_internal ?a ?b ?c) + _)%nat =>
         pose proof (enc_int_internal_len a b c) end; lia.
Qed.

Lemma flat_map_len {A} (enc : A -> list N) (P : A -> bool) ds :
  (forall d, P d = true -> (1 <= length (enc d))%nat) -> forallb P ds = true ->
  (length ds <= length (flat_map enc ds))%nat.
Proof.
  intros He. induction ds as [|d t IH]; intros H; [cbn; lia|].
  cbn [forallb flat_map length] in *. apply andb_true_iff in H. destruct H as [H1 H2].
  rewrite app_length. specialize (He d H1). specialize (IH H2). lia.
Qed.

Lemma emit_alt_len ds : forall f, (length ds <= length (emit_alt f ds))%nat.
Proof.
  induction ds as [|d t IH]; intros f; [cbn; lia|]. cbn [emit_alt length]. rewrite app_length.
  specialize (IH (negb f)). pose proof (enc_int_len (if f then snd d else fst d)). lia.
Qed.

(* ------------------------------------------------------------------ the reader's loops on encoded deltas *)
Lemma of_nat_S_pred n : (N.of_nat (S n) - 1)%N = N.of_nat n.
Proof. lia. Qed.

Lemma dec_deltas_enc (rd : list N -> outcome (Z * Z * list N)) (enc : Z -> Z -> list N) (P : pt -> bool) :
  (forall x y rest, fits63 x -> fits63 y -> P (x, y) = true -> rd (enc x y ++ rest) = Ok (x, y, rest)) ->
  forall ds fuel ref rest,
    Forall fits_pt ds -> forallb P ds = true -> (length ds <= fuel)%nat ->
    dec_deltas rd fuel (N.of_nat (length ds)) ref (flat_map (fun d => enc (fst d) (snd d)) ds ++ rest)
    = Ok (walk ref ds, rest).
Proof.
  intros Hrt. induction ds as [|d t IH]; intros fuel ref rest Hfit HP Hfuel.
  - destruct fuel; reflexivity.
  - cbn [length] in Hfuel. destruct fuel as [|f]; [lia|].
    cbn [forallb] in HP. apply andb_true_iff in HP. destruct HP as [HP1 HP2].
    inversion Hfit as [|? ? [Hx Hy] Hfit']; subst.
    cbn [dec_deltas length flat_map]. rewrite <- app_assoc.
    replace (N.of_nat (S (length t)) =? 0)%N with false by (symmetry; apply N.eqb_neq; lia).
    rewrite Hrt; [|assumption|assumption|rewrite pt_eta; assumption].
    cbn [obind]. rewrite of_nat_S_pred. rewrite IH; [|assumption|assumption|lia].
    cbn [obind walk].
    replace (fst d + fst ref, snd d + snd ref) with (fst ref + fst d, snd ref + snd d) by (f_equal; lia).
    reflexivity.
Qed.

Lemma dec_alt_enc ds : forall f fuel ref rest,
  Forall fits_pt ds -> alt_b f ds = true -> (length ds <= fuel)%nat ->
  dec_alt fuel (N.of_nat (length ds)) (negb f) ref (emit_alt f ds ++ rest)
  = Ok (walk ref ds, flipn (length ds) (negb f), last (walk ref ds) ref, rest).
Proof.
  induction ds as [|d t IH]; intros f fuel ref rest Hfit Halt Hfuel.
  - destruct fuel; reflexivity.
  - cbn [length] in Hfuel. destruct fuel as [|fu]; [lia|].
    cbn [alt_b] in Halt. apply andb_true_iff in Halt. destruct Halt as [Ha1 Ha2].
    inversion Hfit as [|? ? [Hx Hy] Hfit']; subst.
    cbn [dec_alt length emit_alt]. rewrite <- app_assoc.
    replace (N.of_nat (S (length t)) =? 0)%N with false by (symmetry; apply N.eqb_neq; lia).
    rewrite int_roundtrip_lemma by (destruct f; assumption).
    cbn [obind]. rewrite of_nat_S_pred.
    rewrite (IH (negb f)); [|assumption|assumption|lia].
    cbn [obind walk flipn].
    (* the point computed by the reader is the walk's point: the other coordinate's delta is 0 *)
    assert (Hcur : (if negb f then (fst ref + (if f then snd d else fst d), snd ref)
                    else (fst ref, snd ref + (if f then snd d else fst d)))
                   = (fst ref + fst d, snd ref + snd d)).
    { destruct f; cbn [negb]; f_equal; lia. }
    rewrite Hcur. set (p := (fst ref + fst d, snd ref + snd d)).
    rewrite (last_cons_default (walk p t) p ref). reflexivity.
Qed.

Lemma dec_relative_enc ds : forall fuel delta ref rest,
  Forall fits_pt (deltas_from delta ds) -> (length ds <= fuel)%nat ->
  dec_relative fuel (N.of_nat (length ds)) delta ref (emit_g (deltas_from delta ds) ++ rest)
  = Ok (walk ref ds, rest).
Proof.
  induction ds as [|d t IH]; intros fuel delta ref rest Hfit Hfuel.
  - destruct fuel; reflexivity.
  - cbn [length] in Hfuel. destruct fuel as [|fu]; [lia|].
    cbn [deltas_from] in Hfit. inversion Hfit as [|? ? [Hx Hy] Hfit']; subst. cbn [fst snd] in Hx, Hy.
    unfold emit_g in *. cbn [dec_relative length deltas_from flat_map fst snd]. rewrite <- app_assoc.
    replace (N.of_nat (S (length t)) =? 0)%N with false by (symmetry; apply N.eqb_neq; lia).
    rewrite gdelta_roundtrip_lemma by assumption.
    cbn [obind fst snd]. rewrite of_nat_S_pred.
    replace (fst delta + (fst d - fst delta), snd delta + (snd d - snd delta)) with d
      by (destruct d; cbn [fst snd]; f_equal; lia).
    rewrite IH; [|assumption|lia].
    cbn [obind walk].
    replace (fst delta + (fst d - fst delta) + fst ref, snd delta + (snd d - snd delta) + snd ref)
      with (fst ref + fst d, snd ref + snd d) by (f_equal; lia).
    reflexivity.
Qed.

(* ------------------------------------------------------------------ every legal encoding is accepted *)
Lemma forallb_true_l {A} (l : list A) : forallb (fun _ => true) l = true.
Proof. induction l; [reflexivity|assumption]. Qed.

Lemma last_walk_snoc p l d :
  last (walk p (l ++ [d])) p = (fst (last (walk p l) p) + fst d, snd (last (walk p l) p) + snd d).
Proof.
  rewrite walk_app. cbn [walk].
  set (r := last (walk p l) p). apply last_last.
Qed.

Theorem point_list_accepts_all_types_lemma ty closed p0 tl bs rest :
  spec_enc_plist ty closed (p0 :: tl) = Some bs ->
  Forall fits_pt (deltas_from p0 tl) ->
  (ty = 5%N -> Forall fits_pt (deltas_from (0, 0) (deltas_from p0 tl))) ->
  (N.of_nat (length tl) < two64)%N ->
  dec_point_list closed p0 (bs ++ rest) = Ok (tl, rest).
Proof.
  intros Hspec Hfit Hfit5 Hlen.
  unfold spec_enc_plist in Hspec.
  pose proof (walk_deltas tl p0) as Hwalk.
  pose proof (deltas_from_length tl p0) as Hdl.
  set (ds := deltas_from p0 tl) in *.
  assert (Hn : (N.of_nat (length ds) < two64)%N) by (rewrite Hdl; exact Hlen).
  (* the six types *)
  assert (Hty : (ty = 0 \/ ty = 1 \/ ty = 2 \/ ty = 3 \/ ty = 4 \/ ty = 5 \/ 5 < ty)%N) by lia.
  destruct Hty as [->|[->|[->|[->|[->|[->|Hbig]]]]]].
  - (* 0 *) cbn [N.eqb] in Hspec. destruct closed.
    + (* closed, implicit last vertex *)
      destruct ds as [|d0 dt] eqn:Eds; [discriminate|]. rewrite <- Eds in *.
      destruct (alt_b false (ds ++ [closing_delta p0 tl])) eqn:Ealt; [|discriminate].
      injection Hspec as <-.
      assert (Hne : ds <> []) by (rewrite Eds; discriminate).
      destruct (exists_last Hne) as (body & dk & Ebody).
      assert (Hlb : length ds = S (length body)) by (rewrite Ebody, app_length; cbn [length]; lia).
      rewrite Hlb. rewrite Ebody in Ealt, Hfit. rewrite Ebody, removelast_last.
      rewrite <- app_assoc in Ealt. cbn [app] in Ealt.
      rewrite alt_b_app in Ealt. apply andb_true_iff in Ealt. destruct Ealt as [Ha Hb].
      apply Forall_app in Hfit. destruct Hfit as [Hfb _].
      cbn [Nat.pred app dec_point_list]. rewrite <- app_assoc.
      rewrite uint_roundtrip_lemma by lia. cbn [obind N.eqb].
      change true with (negb false) at 1.
      rewrite dec_alt_enc; [|assumption|assumption|rewrite app_length; pose proof (emit_alt_len body false); lia].
      cbn [obind]. f_equal. f_equal.
      rewrite <- Hwalk. rewrite Ebody, walk_app. f_equal. cbn [walk]. f_equal.
      (* the implicit vertex *)
      set (r := last (walk p0 body) p0) in *.
      assert (Hpl : last tl p0 = (fst r + fst dk, snd r + snd dk)).
      { rewrite <- Hwalk, Ebody. apply last_walk_snoc. }
      unfold closing_delta in Hb. rewrite Hpl in Hb. cbn [alt_b fst snd] in Hb.
      rewrite flipn_negb. cbn [negb] in *.
      destruct (flipn (length body) false); cbn [negb] in *; f_equal; lia.
    + destruct (alt_b false ds) eqn:Ealt; [|discriminate]. injection Hspec as <-.
      cbn [app dec_point_list]. rewrite <- app_assoc. rewrite uint_roundtrip_lemma by assumption.
      cbn [obind N.eqb]. change true with (negb false) at 1.
      rewrite dec_alt_enc; [|assumption|assumption|rewrite app_length; pose proof (emit_alt_len ds false); lia].
      cbn [obind]. rewrite Hwalk. reflexivity.
  - (* 1 *) cbn [N.eqb Pos.eqb] in Hspec. destruct closed.
    + destruct ds as [|d0 dt] eqn:Eds; [discriminate|]. rewrite <- Eds in *.
      destruct (alt_b true (ds ++ [closing_delta p0 tl])) eqn:Ealt; [|discriminate].
      injection Hspec as <-.
      assert (Hne : ds <> []) by (rewrite Eds; discriminate).
      destruct (exists_last Hne) as (body & dk & Ebody).
      assert (Hlb : length ds = S (length body)) by (rewrite Ebody, app_length; cbn [length]; lia).
      rewrite Hlb. rewrite Ebody in Ealt, Hfit. rewrite Ebody, removelast_last.
      rewrite <- app_assoc in Ealt. cbn [app] in Ealt.
      rewrite alt_b_app in Ealt. apply andb_true_iff in Ealt. destruct Ealt as [Ha Hb].
      apply Forall_app in Hfit. destruct Hfit as [Hfb _].
      cbn [Nat.pred app dec_point_list]. rewrite <- app_assoc.
      rewrite uint_roundtrip_lemma by lia. cbn [obind N.eqb Pos.eqb].
      change false with (negb true) at 1.
      rewrite dec_alt_enc; [|assumption|assumption|rewrite app_length; pose proof (emit_alt_len body true); lia].
      cbn [obind]. f_equal. f_equal.
      rewrite <- Hwalk. rewrite Ebody, walk_app. f_equal. cbn [walk]. f_equal.
      set (r := last (walk p0 body) p0) in *.
      assert (Hpl : last tl p0 = (fst r + fst dk, snd r + snd dk)).
      { rewrite <- Hwalk, Ebody. apply last_walk_snoc. }
      unfold closing_delta in Hb. rewrite Hpl in Hb. cbn [alt_b fst snd] in Hb.
      rewrite flipn_negb. cbn [negb] in *.
      destruct (flipn (length body) true); cbn [negb] in *; f_equal; lia.
    + destruct (alt_b true ds) eqn:Ealt; [|discriminate]. injection Hspec as <-.
      cbn [app dec_point_list]. rewrite <- app_assoc. rewrite uint_roundtrip_lemma by assumption.
      cbn [obind N.eqb Pos.eqb]. change false with (negb true) at 1.
      rewrite dec_alt_enc; [|assumption|assumption|rewrite app_length; pose proof (emit_alt_len ds true); lia].
      cbn [obind]. rewrite Hwalk. reflexivity.
  - (* 2 *) destruct (forallb manh_b ds) eqn:Em; [|discriminate]. injection Hspec as <-.
    cbn [app dec_point_list]. rewrite <- app_assoc. rewrite uint_roundtrip_lemma by assumption.
    cbn [obind]. unfold emit_2.
    rewrite (dec_deltas_enc dec_2delta enc_2delta manh_b); try assumption.
    + rewrite Hwalk. reflexivity.
    + intros x y r Hx Hy HP. apply delta2_roundtrip_lemma; try assumption.
      unfold manh_b in HP. cbn [fst snd] in HP. lia.
    + rewrite app_length.
      pose proof (flat_map_len (fun d => enc_2delta (fst d) (snd d)) manh_b ds enc_2delta_len Em). lia.
  - (* 3 *) destruct (forallb oct_b ds) eqn:Em; [|discriminate]. injection Hspec as <-.
    cbn [app dec_point_list]. rewrite <- app_assoc. rewrite uint_roundtrip_lemma by assumption.
    cbn [obind]. unfold emit_3.
    rewrite (dec_deltas_enc dec_3delta enc_3delta oct_b); try assumption.
    + rewrite Hwalk. reflexivity.
    + intros x y r Hx Hy HP. apply delta3_roundtrip_lemma; try assumption.
      unfold oct_b in HP. cbn [fst snd] in HP. unfold octangular. lia.
    + rewrite app_length.
      pose proof (flat_map_len (fun d => enc_3delta (fst d) (snd d)) oct_b ds enc_3delta_len Em). lia.
  - (* 4 *) injection Hspec as <-.
    cbn [app dec_point_list]. rewrite <- app_assoc. rewrite uint_roundtrip_lemma by assumption.
    cbn [obind]. unfold emit_g.
    rewrite (dec_deltas_enc dec_gdelta enc_gdelta (fun _ => true)); try assumption.
    + rewrite Hwalk. reflexivity.
    + intros x y r Hx Hy _. apply gdelta_roundtrip_lemma; assumption.
    + apply forallb_true_l.
    + rewrite app_length.
      pose proof (flat_map_len (fun d => enc_gdelta (fst d) (snd d)) (fun _ => true) ds
                    (fun d _ => enc_gdelta_len (fst d) (snd d)) (forallb_true_l ds)). lia.
  - (* 5 *) injection Hspec as <-. specialize (Hfit5 eq_refl).
    cbn [app dec_point_list]. rewrite <- app_assoc. rewrite uint_roundtrip_lemma by assumption.
    cbn [obind].
    rewrite dec_relative_enc; try assumption.
    + rewrite Hwalk. reflexivity.
    + rewrite app_length. unfold emit_g.
      pose proof (flat_map_len (fun d => enc_gdelta (fst d) (snd d)) (fun _ => true) (deltas_from (0, 0) ds)
                    (fun d _ => enc_gdelta_len (fst d) (snd d)) (forallb_true_l _)) as Hl.
      rewrite deltas_from_length in Hl. lia.
  - (* no such type *)
    exfalso. destruct ty as [|[[[?|?|]|[[?|?|]|[?|?|]|]|]|[[?|?|]|[[?|?|]|[?|?|]|]|]|]]; try discriminate; lia.
Qed.

(* ------------------------------------------------------------------ the writer's type selection *)
(* what the state (list_type, prev_delta_is_horizontal) knows about the deltas seen so far *)
Definition sel_inv (st : N * bool) (pre : list pt) : Prop :=
  (fst st = 5%N /\ pre = [])
  \/ (exists f0 : bool, fst st = (if f0 then 1%N else 0%N) /\ pre <> [] /\ alt_b f0 pre = true
                        /\ snd st = flipn (length pre) f0)
  \/ (fst st = 2%N /\ forallb manh_b pre = true)
  \/ (fst st = 3%N /\ forallb oct_b pre = true)
  \/ fst st = 4%N.

Lemma snoc_nonnil {A} (l : list A) a : l ++ [a] <> [].
Proof. destruct l; discriminate. Qed.

Lemma snoc_length {A} (l : list A) a : length (l ++ [a]) = S (length l).
Proof. rewrite app_length. cbn [length]. lia. Qed.

Lemma diag_oct x y : is_diag x y = true -> oct_b (x, y) = true.
Proof.
  unfold is_diag, oct_b. cbn [fst snd]. intros H.
  destruct (x =? 0), (y =? 0), (x =? y), (x =? - y); try reflexivity; discriminate H.
Qed.

Lemma sel_step_inv st pre v : sel_inv st pre -> sel_inv (sel_step st v) (pre ++ [v]).
Proof.
  destruct st as [ty ph]. destruct v as [x y]. unfold sel_inv. cbn [fst snd].
  intros [[-> ->]|[(f0 & -> & Hne & Halt & ->)|[[-> Hm]|[[-> Ho]| -> ]]]].
  - (* initial state *)
    cbn [sel_step app]. destruct (y =? 0) eqn:Ey.
    + right; left. exists false. cbn [fst snd alt_b length flipn negb]. rewrite Ey. repeat split; discriminate.
    + destruct (x =? 0) eqn:Ex.
      * right; left. exists true. cbn [fst snd alt_b length flipn negb]. rewrite Ex. repeat split; discriminate.
      * destruct (is_diag x y) eqn:Ed.
        -- right; right; right; left. cbn [fst forallb]. rewrite (diag_oct _ _ Ed). split; reflexivity.
        -- right; right; right; right. reflexivity.
  - (* implicit Manhattan *)
    assert (Hm : forallb manh_b pre = true) by (apply (alt_manh _ _ Halt)).
    assert (Hstep : sel_step (if f0 then 1%N else 0%N, flipn (length pre) f0) (x, y) =
            (if y =? 0 then (if flipn (length pre) f0 then (2%N, flipn (length pre) f0) else (if f0 then 1%N else 0%N, true))
             else if x =? 0 then (if negb (flipn (length pre) f0) then (2%N, flipn (length pre) f0) else (if f0 then 1%N else 0%N, false))
             else if is_diag x y then (3%N, flipn (length pre) f0) else (4%N, flipn (length pre) f0)))
      by (destruct f0; reflexivity).
    rewrite Hstep. clear Hstep.
    destruct (y =? 0) eqn:Ey.
    + destruct (flipn (length pre) f0) eqn:Ef.
      * right; right; left. cbn [fst]. rewrite forallb_app, Hm. cbn [forallb]. unfold manh_b. cbn [fst snd].
        rewrite Ey, orb_true_r. split; reflexivity.
      * right; left. exists f0. cbn [fst snd]. rewrite alt_b_app, Halt, Ef, snoc_length, flipn_S, Ef.
        cbn [alt_b snd]. rewrite Ey. repeat split. apply snoc_nonnil.
    + destruct (x =? 0) eqn:Ex.
      * destruct (flipn (length pre) f0) eqn:Ef; cbn [negb].
        -- right; left. exists f0. cbn [fst snd]. rewrite alt_b_app, Halt, Ef, snoc_length, flipn_S, Ef.
           cbn [alt_b fst]. rewrite Ex. repeat split. apply snoc_nonnil.
        -- right; right; left. cbn [fst]. rewrite forallb_app, Hm. cbn [forallb]. unfold manh_b. cbn [fst snd].
           rewrite Ex. split; reflexivity.
      * destruct (is_diag x y) eqn:Ed.
        -- right; right; right; left. cbn [fst]. rewrite forallb_app, (manh_oct _ Hm). cbn [forallb].
           rewrite (diag_oct _ _ Ed). split; reflexivity.
        -- right; right; right; right. reflexivity.
  - (* Manhattan *)
    cbn [sel_step]. destruct (negb (y =? 0) && negb (x =? 0)) eqn:E.
    + destruct (is_diag x y) eqn:Ed.
      * right; right; right; left. cbn [fst]. rewrite forallb_app, (manh_oct _ Hm). cbn [forallb].
        rewrite (diag_oct _ _ Ed). split; reflexivity.
      * right; right; right; right. reflexivity.
    + right; right; left. cbn [fst]. rewrite forallb_app, Hm. cbn [forallb]. unfold manh_b. cbn [fst snd].
      split; [reflexivity|]. destruct (y =? 0); destruct (x =? 0); try reflexivity; discriminate.
  - (* Octangular *)
    cbn [sel_step]. destruct (negb (y =? 0) && negb (x =? 0) && negb (x =? y) && negb (x =? - y)) eqn:E.
    + right; right; right; right. reflexivity.
    + right; right; right; left. cbn [fst]. rewrite forallb_app, Ho. cbn [forallb]. unfold oct_b. cbn [fst snd].
      split; [reflexivity|].
      destruct (y =? 0); destruct (x =? 0); destruct (x =? y); destruct (x =? - y); try reflexivity; discriminate.
  - (* General *)
    right; right; right; right. reflexivity.
Qed.

Lemma sel_fold_inv ds : forall st pre, sel_inv st pre -> sel_inv (fold_left sel_step ds st) (pre ++ ds).
Proof.
  induction ds as [|v t IH]; intros st pre H; [rewrite app_nil_r; exact H|].
  cbn [fold_left]. replace (pre ++ v :: t) with ((pre ++ [v]) ++ t) by (rewrite <- app_assoc; reflexivity).
  apply IH. apply sel_step_inv. exact H.
Qed.

(* the closed-polygon step makes the same choice of type as one more loop iteration would *)
Lemma sel_close_fst st c : fst st <> 5%N -> fst (sel_close st c) = fst (sel_step st c).
Proof.
  destruct st as [ty ph]. destruct c as [x y]. cbn [fst]. intros H.
  destruct ty as [|[[[?|?|]|[[?|?|]|[?|?|]|]|]|[[?|?|]|[[?|?|]|[?|?|]|]|]|]]; try reflexivity; try congruence;
    cbn [sel_close sel_step];
    repeat match goal with |- context [if ?c then _ else _] => destruct c end; reflexivity.
Qed.

Lemma sel_close_ge2 st c : (2 <= fst st)%N -> (2 <= fst (sel_close st c))%N.
Proof.
  destruct st as [ty ph]. destruct c as [x y]. cbn [fst]. intros H.
  destruct ty as [|[[[?|?|]|[[?|?|]|[?|?|]|]|]|[[?|?|]|[[?|?|]|[?|?|]|]|]|]]; try exact H; try lia;
    cbn [sel_close];
    repeat match goal with |- context [if ?c then _ else _] => destruct c end; cbn [fst]; lia.
Qed.

Lemma sel_count_other closed ty n : ty <> 0%N -> ty <> 1%N -> sel_count closed ty n = (ty, n).
Proof.
  intros H0 H1. unfold sel_count.
  replace (ty =? 0)%N with false by (symmetry; apply N.eqb_neq; assumption).
  replace (ty =? 1)%N with false by (symmetry; apply N.eqb_neq; assumption). reflexivity.
Qed.

(* The writer's output is the legal encoding in the type it selected (never the double-delta type 5),
   and for a closed list the implicit closing edge is of that type's kind. *)
Theorem enc_point_list_conforms_lemma closed p0 tl :
  exists ty, (ty < 5)%N
    /\ spec_enc_plist ty closed (p0 :: tl) = Some (enc_point_list closed (p0 :: tl))
    /\ (closed = true -> closing_ok ty p0 tl = true).
Proof.
  unfold enc_point_list, sel_type, spec_enc_plist.
  set (ds := deltas_from p0 tl).
  pose proof (sel_fold_inv ds (5%N, false) [] (or_introl (conj eq_refl eq_refl))) as Hinv.
  cbn [app] in Hinv. set (st1 := fold_left sel_step ds (5%N, false)) in *.
  destruct closed.
  - (* closed *)
    destruct (N.eq_dec (fst st1) 5) as [E5|N5].
    + (* a single point *)
      assert (Hds : ds = []).
      { destruct Hinv as [[_ H]|[(f0 & H & _)|[[H _]|[[H _]|H]]]]; try assumption; try (rewrite E5 in H; try destruct f0; discriminate). }
      destruct st1 as [ty1 ph1]. cbn [fst] in E5. subst ty1. rewrite Hds.
      destruct (closing_delta p0 tl) as [cx cy]. cbn [sel_close fst length].
      exists 4%N. split; [lia|]. split; [reflexivity|]. reflexivity.
    + pose proof (sel_step_inv st1 ds (closing_delta p0 tl) Hinv) as Hc.
      pose proof (sel_close_fst st1 (closing_delta p0 tl) N5) as Hf.
      set (st2 := sel_close st1 (closing_delta p0 tl)) in *.
      unfold sel_inv in Hc. rewrite <- Hf in Hc. clear Hf.
      destruct Hc as [[_ H]|[(f0 & Hty & _ & Halt & _)|[[Hty Hm]|[[Hty Ho]|Hty]]]].
      * exfalso. exact (snoc_nonnil _ _ H).
      * (* implicit Manhattan survives the closing edge *)
        assert (Hne : ds <> []).
        { destruct Hinv as [[E _]|[(g0 & _ & H & _)|[[E _]|[[E _]|E]]]]; try assumption; try congruence;
            exfalso; pose proof (sel_close_ge2 st1 (closing_delta p0 tl)) as Hge; fold st2 in Hge;
            rewrite E, Hty in Hge; destruct f0; lia. }
        pose proof Halt as Halt'. rewrite alt_b_app in Halt'. apply andb_true_iff in Halt'. destruct Halt' as [Hads Hac].
        pose proof (alt_manh _ _ Halt) as Hmall. rewrite forallb_app in Hmall.
        apply andb_true_iff in Hmall. destruct Hmall as [Hmds Hmc]. cbn [forallb] in Hmc. rewrite andb_true_r in Hmc.
        rewrite Hty. unfold sel_count.
        replace (((if f0 then 1 else 0) =? 0) || ((if f0 then 1 else 0) =? 1))%N with true by (destruct f0; reflexivity).
        cbn [andb].
        destruct ((Nat.pred (length ds) <? 2)%nat || Nat.odd (Nat.pred (length ds))) eqn:Efb.
        -- (* fall back to Manhattan with all the deltas *)
           exists 2%N. split; [lia|]. rewrite Hmds, firstn_all. split; [reflexivity|]. intros _. exact Hmc.
        -- exists (if f0 then 1%N else 0%N). split; [destruct f0; lia|]. split; [|destruct f0; reflexivity].
           rewrite <- removelast_firstn_len.
           destruct f0; cbn [N.eqb Pos.eqb]; rewrite Halt; destruct ds; try congruence; reflexivity.
      * rewrite Hty. rewrite sel_count_other by discriminate. rewrite firstn_all.
        rewrite forallb_app in Hm. apply andb_true_iff in Hm. destruct Hm as [Hmds Hmc].
        cbn [forallb] in Hmc. rewrite andb_true_r in Hmc.
        exists 2%N. split; [lia|]. rewrite Hmds. split; [reflexivity|]. intros _. exact Hmc.
      * rewrite Hty. rewrite sel_count_other by discriminate. rewrite firstn_all.
        rewrite forallb_app in Ho. apply andb_true_iff in Ho. destruct Ho as [Hods Hoc].
        cbn [forallb] in Hoc. rewrite andb_true_r in Hoc.
        exists 3%N. split; [lia|]. rewrite Hods. split; [reflexivity|]. intros _. exact Hoc.
      * rewrite Hty. rewrite sel_count_other by discriminate. rewrite firstn_all.
        exists 4%N. split; [lia|]. split; reflexivity.
  - (* open *)
    destruct Hinv as [[Hty Hds]|[(f0 & Hty & _ & Halt & _)|[[Hty Hm]|[[Hty Ho]|Hty]]]]; rewrite Hty.
    + rewrite sel_count_other by discriminate. rewrite firstn_all.
      exists 4%N. split; [lia|]. split; [reflexivity|discriminate].
    + unfold sel_count. rewrite andb_false_r. rewrite firstn_all.
      exists (if f0 then 1%N else 0%N). split; [destruct f0; lia|]. split; [|discriminate].
      destruct f0; cbn [N.eqb Pos.eqb]; rewrite Halt; reflexivity.
    + rewrite sel_count_other by discriminate. rewrite firstn_all.
      exists 2%N. split; [lia|]. rewrite Hm. split; [reflexivity|discriminate].
    + rewrite sel_count_other by discriminate. rewrite firstn_all.
      exists 3%N. split; [lia|]. rewrite Ho. split; [reflexivity|discriminate].
    + rewrite sel_count_other by discriminate. rewrite firstn_all.
      exists 4%N. split; [lia|]. split; [reflexivity|discriminate].
Qed.

(* ------------------------------------------------------------------ round trip *)
Theorem point_list_roundtrip_lemma closed p0 tl rest :
  Forall fits_pt (deltas_from p0 tl) ->
  (N.of_nat (length tl) < two64)%N ->
  dec_point_list closed p0 (enc_point_list closed (p0 :: tl) ++ rest) = Ok (tl, rest).
Proof.
  intros Hfit Hlen.
  destruct (enc_point_list_conforms_lemma closed p0 tl) as (ty & Hty & Hspec & _).
  apply (point_list_accepts_all_types_lemma ty closed p0 tl _ rest Hspec Hfit); [|exact Hlen].
  intros ->. lia.
Qed.

(* the same statement on a whole list, in the shape used by Properties files: the reference point is
   the head, what comes back is exactly the tail — also for closed implicit-Manhattan lists, where
   the writer drops the last delta and the reader re-creates the last vertex from the reference. *)
Corollary point_list_roundtrip_pts closed pts rest :
  pts <> [] ->
  Forall fits_pt (deltas_from (hd (0, 0) pts) (tl pts)) ->
  (N.of_nat (length pts) <= two64)%N ->
  dec_point_list closed (hd (0, 0) pts) (enc_point_list closed pts ++ rest) = Ok (tl pts, rest).
Proof.
  destruct pts as [|p0 t]; [congruence|]. cbn [hd tl length]. intros _ Hfit Hlen.
  apply point_list_roundtrip_lemma; [assumption|lia].
Qed.

(* non-vacuity: closed rectangle written as implicit Manhattan (2 deltas for 4 vertices), the
   duplicate-vertex fall back, a 2-point "polygon", and a legal type-5 encoding *)
Example plist_nonvacuous :
  enc_point_list true [(0, 0); (10, 0); (10, 5); (0, 5)] = [0; 2; 20; 10]%N
  /\ dec_point_list true (0, 0) ([0; 2; 20; 10]%N ++ [7%N]) = Ok ([(10, 0); (10, 5); (0, 5)], [7%N])
  /\ enc_point_list true [(0, 0); (10, 0); (10, 5); (0, 5); (0, 5)] = [2; 4; 40; 21; 42; 1]%N
  /\ enc_point_list true [(0, 0); (10, 0)] = [2; 1; 40]%N
  /\ Forall fits_pt (deltas_from (0, 0) [(10, 0); (10, 5); (0, 5)])
  /\ spec_enc_plist 5 true [(0, 0); (10, 0); (10, 5); (0, 5)] = Some [5; 3; 160; 1; 43; 10; 43; 11]%N.
Proof.
  split; [vm_compute; reflexivity|]. split; [vm_compute; reflexivity|].
  split; [vm_compute; reflexivity|]. split; [vm_compute; reflexivity|].
  split; [|vm_compute; reflexivity].
  cbn [deltas_from fst snd]. unfold fits_pt, fits63, two63. cbn [fst snd].
  repeat (apply Forall_cons; [cbn beta; cbn [fst snd]; change (Z.of_N 9223372036854775808) with 9223372036854775808; split; lia|]). apply Forall_nil.
Qed.

Print Assumptions point_list_accepts_all_types_lemma.
Print Assumptions enc_point_list_conforms_lemma.
Print Assumptions point_list_roundtrip_lemma.
