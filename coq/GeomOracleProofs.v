(* GeomOracleProofs.v -- what a verdict 0 of the extracted per-sample oracles means, in terms of
   the verified primitives (winding numbers, exact distances). *)
From Coq Require Import List ZArith Bool Lia.
Import ListNotations.
Require Import Winding WindingProofs GeomOracle.
Open Scope Z_scope.

(* a sample is used exactly when no point of any edge of any polygon is closer than g *)
Theorem sample_ok_lemma : forall polys g p,
    0 <= g ->
    (sample_ok polys g p = true <->
     forall poly a b, In poly polys -> cyc_edge poly a b -> ~ closer_spec p a b (g * g)).
Proof.
  intros polys g p Hg. unfold sample_ok, group_near. rewrite negb_true_iff. split.
  - intros H poly a b Hin He Hc.
    assert (T : existsb (fun g0 => poly_near p g0 g) polys = true); [|rewrite T in H; discriminate].
    apply existsb_exists. exists poly. split; [exact Hin|].
    rewrite poly_near_lemma by exact Hg. apply poly_closer_than_correct_lemma. exists a, b. split; assumption.
  - intros H. destruct (existsb (fun g0 => poly_near p g0 g) polys) eqn:E; [|reflexivity].
    apply existsb_exists in E. destruct E as [poly [Hin Hn]].
    rewrite poly_near_lemma in Hn by exact Hg. apply poly_closer_than_correct_lemma in Hn.
    destruct Hn as [a [b [He Hc]]]. exfalso. exact (H poly a b Hin He Hc).
Qed.

Lemma eqb_false_neq : forall a b : bool, Bool.eqb a b = false -> a <> b.
Proof. intros [] [] H; cbn in H; congruence. Qed.

Lemma zero_or_one : forall s, (s =? 0) || (s =? 1) = true <-> (s = 0 \/ s = 1).
Proof. intros s. rewrite orb_true_iff, !Z.eqb_eq. reflexivity. Qed.

Theorem bool_verdict_zero_lemma : forall o A B R p,
    bool_verdict o A B R p = 0 <->
    covers R p = bop o (covers A p) (covers B p) /\ (wn_sum R p = 0 \/ wn_sum R p = 1).
Proof.
  intros o A B R p. unfold bool_verdict. rewrite <- zero_or_one.
  destruct (Bool.eqb (covers R p) (bop o (covers A p) (covers B p))) eqn:E; cbn [negb].
  - apply Bool.eqb_prop in E.
    destruct ((wn_sum R p =? 0) || (wn_sum R p =? 1)); split; intros H;
      try discriminate; try reflexivity; try (split; [exact E | reflexivity]).
    destruct H as [_ H]. discriminate.
  - apply eqb_false_neq in E. split; [discriminate | intros [H _]; contradiction].
Qed.

Theorem partition_verdict_zero_lemma : forall orig pieces p,
    partition_verdict orig pieces p = 0 <->
    cover_count pieces p = if inside orig p then 1 else 0.
Proof.
  intros orig pieces p. unfold partition_verdict.
  destruct (inside orig p).
  - destruct (cover_count pieces p =? 1) eqn:E1; [apply Z.eqb_eq in E1 | apply Z.eqb_neq in E1].
    + split; [intros _; exact E1 | reflexivity].
    + destruct (cover_count pieces p =? 0); split; intros H; try discriminate; contradiction.
  - destruct (cover_count pieces p =? 0) eqn:E0; [apply Z.eqb_eq in E0 | apply Z.eqb_neq in E0].
    + split; [intros _; exact E0 | reflexivity].
    + split; intros H; [discriminate | contradiction].
Qed.


(* growth: verdict 0 means both clauses of the property hold at the sample and outputs do not overlap *)
Theorem grow_verdict_zero_lemma : forall G R rin rout p,
    grow_verdict G R rin rout p = 0 <->
    ((covers G p = true \/ group_near p G rin = true) -> covers R p = true)
    /\ ((covers G p = false /\ group_near p G rout = false) -> covers R p = false)
    /\ (wn_sum R p = 0 \/ wn_sum R p = 1).
Proof.
  intros G R rin rout p. unfold grow_verdict.
  rewrite <- zero_or_one.
  destruct ((wn_sum R p =? 0) || (wn_sum R p =? 1));
  destruct (covers G p); destruct (group_near p G rin); destruct (group_near p G rout);
    destruct (covers R p); cbn [orb andb negb]; split; intros H;
    try discriminate; try reflexivity;
    try (repeat split; intros; try tauto; try discriminate; intuition discriminate);
    try (destruct H as [H1 [H2 H3]]; try discriminate;
         try (specialize (H1 (or_introl eq_refl)); discriminate);
         try (specialize (H1 (or_intror eq_refl)); discriminate);
         try (specialize (H2 (conj eq_refl eq_refl)); discriminate)).
Qed.

(* erosion, per polygon and of the union: verdict 0 means both clauses hold at the sample *)
Theorem shrink_each_verdict_zero_lemma : forall G R rin rout p,
    shrink_each_verdict G R rin rout p = 0 <->
    (existsb (fun g => inside g p && negb (poly_near p g rout)) G = true -> covers R p = true)
    /\ (forallb (fun g => negb (inside g p) || poly_near p g rin) G = true -> covers R p = false)
    /\ (wn_sum R p = 0 \/ wn_sum R p = 1).
Proof.
  intros G R rin rout p. unfold shrink_each_verdict.
  rewrite <- zero_or_one.
  destruct ((wn_sum R p =? 0) || (wn_sum R p =? 1));
  destruct (existsb (fun g => inside g p && negb (poly_near p g rout)) G);
  destruct (forallb (fun g => negb (inside g p) || poly_near p g rin) G);
  destruct (covers R p); cbn [orb andb negb]; split; intros H;
    try discriminate; try reflexivity;
    try (repeat split; intros; try tauto; try discriminate; intuition discriminate);
    try (destruct H as [H1 [H2 H3]]; try discriminate;
         try (specialize (H1 eq_refl); discriminate);
         try (specialize (H2 eq_refl); discriminate)).
Qed.

Theorem shrink_union_verdict_zero_lemma : forall G B R outside rin rout p,
    shrink_union_verdict G B R outside rin rout p = 0 <->
    ((covers G p = true /\ group_near p B rout = false) -> covers R p = true)
    /\ ((covers G p = false \/ near_any p outside rin = true) -> covers R p = false)
    /\ (wn_sum R p = 0 \/ wn_sum R p = 1).
Proof.
  intros G B R outside rin rout p. unfold shrink_union_verdict.
  rewrite <- zero_or_one.
  destruct ((wn_sum R p =? 0) || (wn_sum R p =? 1));
  destruct (covers G p); destruct (group_near p B rout); destruct (near_any p outside rin);
    destruct (covers R p); cbn [orb andb negb]; split; intros H;
    try discriminate; try reflexivity;
    try (repeat split; intros; try tauto; try discriminate; intuition discriminate);
    try (destruct H as [H1 [H2 H3]]; try discriminate;
         try (specialize (H1 (conj eq_refl eq_refl)); discriminate);
         try (specialize (H2 (or_introl eq_refl)); discriminate);
         try (specialize (H2 (or_intror eq_refl)); discriminate)).
Qed.

Print Assumptions sample_ok_lemma.
Print Assumptions shrink_each_verdict_zero_lemma.
Print Assumptions shrink_union_verdict_zero_lemma.
Print Assumptions bool_verdict_zero_lemma.
Print Assumptions partition_verdict_zero_lemma.
Print Assumptions grow_verdict_zero_lemma.
