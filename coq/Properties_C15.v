(* C15 — Curves and shape primitives stay within tolerance (Tier B).
   Theorem-only file: every proof is `exact <lemma>`; Print Assumptions under each.
   Theorems: the sagitta bound behind arc_num_points (over R), section bookkeeping of Curve (over Q),
   de Casteljau = Bernstein, the exact distance oracle, rectangle / cross vertices.
   The model follows the fixed code: the Bezier step rule clamps (F11, 66f871b), bezier stores the
   absolute penultimate control point (F17, 7a14b8c), Curve::arc sizes from the parametric span (F12,
   4b3b094); the former witnesses are kept as regression Examples.  Validated per run
   (harness/c15.cpp + ocaml/c15_driver.ml): the implementation's vertices against these oracles. *)
From Coq Require Import QArith ZArith Reals List.
Require Import Generated Bezier BezierProofs ArcBound.
Import ListNotations.

(* tie (generated): the minimum number of points of an arc is the one the model was written with
   (arc_segments uses max 3 = GDSTK_MIN_POINTS - 1 chords) *)
Theorem c15_source_constants : GDSTK_MIN_POINTS = 4%N.
Proof. reflexivity. Qed.
Print Assumptions c15_source_constants.

Section OverR.
Local Open Scope R_scope.
(* with the number of chords Curve::arc uses (or more) every point of a circular arc is within
   4 tol of the chord of its own angular step: any radius, tolerance, centre, start angle, span of
   any sign and size *)
Theorem arc_sagitta_bound : forall (r tol theta cx cy phi0 u : R) (n : Z),
  0 < r -> 0 < tol -> 0 <= u <= 1 -> (arc_segments theta r tol <= n)%Z ->
  exists k : Z, (0 <= k < n)%Z /\ exists l : R, 0 <= l <= 1 /\
    dist2 (arc_pt cx cy r phi0 theta u)
          (seg_pt (arc_pt cx cy r phi0 theta (IZR k / IZR n))
                  (arc_pt cx cy r phi0 theta (IZR (k + 1) / IZR n)) l)
    <= (4 * tol) * (4 * tol).
Proof. exact arc_sagitta_bound_lemma. Qed.

Theorem arc_core_inequality : forall a, 1 - cos (2 * a) <= 4 * (1 - cos a).
Proof. exact cos_double_bound. Qed.

Theorem arc_chord_deviation : forall cx cy r m d phi l,
  (2 * l - 1) * sin d = sin phi ->
  dist2 (cx + r * cos (m + phi), cy + r * sin (m + phi))
        (seg_pt (cx + r * cos (m - d), cy + r * sin (m - d))
                (cx + r * cos (m + d), cy + r * sin (m + d)) l)
  = (r * (cos phi - cos d)) * (r * (cos phi - cos d)).
Proof. exact chord_deviation_formula. Qed.

(* the clamp condition `1 - curvature*tolerance < -1` is the rational inequality of the model *)
Theorem step_rule_rational : forall n2 c tol : R, 0 < n2 -> 0 < tol ->
  let len := sqrt n2 in
  let curvature := Rabs c / (len * len * len) in
  (1 - curvature * tol < -1 <-> 4 * (n2 * n2 * n2) < c * c * (tol * tol))
  /\ 1 - curvature * tol <= 1.
Proof. exact step_rule_rational_lemma. Qed.

(* the step angle `2 * (c < -1 ? pi : acos c)` is defined for every input: acos only sees [-1,1] *)
Theorem step_rule_defined : forall curvature tol : R, 0 <= curvature -> 0 <= tol ->
  let c := 1 - curvature * tol in
  (~ c < -1 -> -1 <= c <= 1)
  /\ 0 <= step_angle curvature tol <= 2 * PI
  /\ (0 < curvature * tol -> 0 < step_angle curvature tol).
Proof. exact step_rule_defined_lemma. Qed.

(* why K = 4 is safe for cubic sections: the two-point acceptance test of append_cubic *)
Theorem cubic_two_point_bound : forall al be tol s : R,
  0 <= s <= 1 ->
  Rabs ((/ 2) * (1 - / 2) * (al + be * / 2)) <= tol ->
  Rabs ((/ 3) * (1 - / 3) * (al + be * / 3)) <= tol ->
  Rabs (s * (1 - s) * (al + be * s)) <= (16 / 5) * tol.
Proof. exact cubic_two_point_bound_lemma. Qed.
End OverR.
Print Assumptions arc_sagitta_bound.
Print Assumptions arc_core_inequality.
Print Assumptions arc_chord_deviation.
Print Assumptions step_rule_rational.
Print Assumptions step_rule_defined.
Print Assumptions cubic_two_point_bound.

Local Open Scope Q_scope.

Theorem decasteljau_is_bernstein : forall (t : Q) (l : list pt),
  l <> [] -> pteq (decasteljau t l) (bernstein t l).
Proof. exact decasteljau_is_bernstein_lemma. Qed.
Print Assumptions decasteljau_is_bernstein.

Theorem bezier_endpoints : forall (l : list pt), l <> [] ->
  pteq (decasteljau 0 l) (hd pzero l) /\ pteq (decasteljau 1 l) (last l pzero).
Proof. exact bezier_endpoints_lemma. Qed.
Print Assumptions bezier_endpoints.

(* integer evaluation used at run time = the rational one *)
Theorem decasteljauZ_exact : forall den tn (l : list Z), (den <> 0)%Z -> l <> [] ->
  inject_Z (decasteljauZ1 den tn l)
  == decasteljau1 (inject_Z tn / inject_Z den) (map inject_Z l) * qpow (inject_Z den) (length l - 1).
Proof. exact decasteljauZ_lemma. Qed.
Print Assumptions decasteljauZ_exact.

(* every call, from every state: sections chain from the current point, end at the requested
   points, last_ctrl is the penultimate control point (arcs: end point + given vector), smooth
   calls reflect it *)
Theorem section_call : forall st c st' secs,
  wf_call c -> run_call st c = Some (st', secs) -> call_ok st c st' secs.
Proof. exact section_call_lemma. Qed.
Print Assumptions section_call.

Theorem section_endpoints : forall cs st st' secs,
  Forall wf_call cs -> run st cs = Some (st', secs) ->
  chain (cur st) secs (cur st') /\ map sec_end secs = run_requested st cs.
Proof. exact section_endpoints_lemma. Qed.
Print Assumptions section_endpoints.

Theorem smooth_continuation : forall st c1 st1 s1 c2 st2 s2,
  wf_call c1 -> wf_call c2 -> is_arc c1 = false -> is_smooth c2 = true ->
  run_call st c1 = Some (st1, s1) -> run_call st1 c2 = Some (st2, s2) ->
  s1 <> [] -> s2 <> [] ->
  let prev := last s1 dsec in let next := hd dsec s2 in
  sec_start next = sec_end prev
  /\ nth 1 (sec_ctrl next) pzero = reflect (sec_end prev) (penult (sec_ctrl prev)).
Proof. exact smooth_continuation_lemma. Qed.
Print Assumptions smooth_continuation.

(* F17, now a theorem *)
Theorem bezier_last_ctrl_relative : forall st ps st' secs,
  wf_call (CBezier true ps) -> run_call st (CBezier true ps) = Some (st', secs) ->
  secs <> [] /\ lctl st' = penult (sec_ctrl (last secs dsec)).
Proof. exact bezier_last_ctrl_relative_lemma. Qed.
Print Assumptions bezier_last_ctrl_relative.

Theorem step_rule_clamp_decidable : forall dc d2c tol,
  step_rule_clamp_b dc d2c tol = true <-> step_rule_clamp_condition dc d2c tol.
Proof. exact step_rule_clamp_b_lemma. Qed.
Print Assumptions step_rule_clamp_decidable.

(* the distance oracle *)
Theorem seg_closer_than_correct : forall p a b r,
  seg_closer_than p a b r = true <->
  exists n m : Z, (0 < m /\ 0 <= n <= m /\ zlerp_dist2 p a b n m < r * r * (m * m))%Z.
Proof. exact seg_closer_than_lemma. Qed.
Print Assumptions seg_closer_than_correct.

Theorem seg_closer_than_scale : forall k p a b r, (0 < k)%Z ->
  seg_closer_than (k * fst p, k * snd p)%Z (k * fst a, k * snd a)%Z (k * fst b, k * snd b)%Z (k * r)%Z
  = seg_closer_than p a b r.
Proof. exact seg_closer_than_scale_lemma. Qed.
Print Assumptions seg_closer_than_scale.

Theorem circle_points_exact : forall quad a b,
  let '(x, y, d) := circle_h quad a b in (x * x + y * y = d * d)%Z.
Proof. exact circle_h_lemma. Qed.
Print Assumptions circle_points_exact.

Theorem stereo_on_circle : forall a c,
  on_unit_circle a -> ~ norm2 (psub c a) == 0 -> on_unit_circle (stereo a c).
Proof. exact stereo_on_circle_lemma. Qed.
Print Assumptions stereo_on_circle.

Theorem rectangle_vertices : forall x1 y1 x2 y2,
  rectangle_pts (x1, y1) (x2, y2) = [(x1, y1); (x2, y1); (x2, y2); (x1, y2)]
  /\ shoelace2 (rectangle_pts (x1, y1) (x2, y2)) == 2 * ((x2 - x1) * (y2 - y1)).
Proof. exact rectangle_vertices_lemma. Qed.
Print Assumptions rectangle_vertices.

Theorem cross_vertices : forall cx cy s w,
  Forall2 pteq (cross_pts (cx, cy) s w)
    [(cx + s / 2, cy + w / 2); (cx + w / 2, cy + w / 2); (cx + w / 2, cy + s / 2);
     (cx - w / 2, cy + s / 2); (cx - w / 2, cy + w / 2); (cx - s / 2, cy + w / 2);
     (cx - s / 2, cy - w / 2); (cx - w / 2, cy - w / 2); (cx - w / 2, cy - s / 2);
     (cx + w / 2, cy - s / 2); (cx + w / 2, cy - w / 2); (cx + s / 2, cy - w / 2)]
  /\ shoelace2 (cross_pts (cx, cy) s w) == 2 * (2 * s * w - w * w).
Proof. exact cross_vertices_lemma. Qed.
Print Assumptions cross_vertices.

(* regression inputs of the fixed defects F17 and F11 *)
Example c15_bezier_last_ctrl_regression :
  exists st' secs,
    run_call (mkst (100, 100) (100, 100)) (CBezier true [(1, 0); (2, 1); (3, 0)]) = Some (st', secs)
    /\ lctl st' = (102, 101) /\ cur st' = (103, 100).
Proof. exact bezier_last_ctrl_relative_example. Qed.

Example c15_step_rule_clamp_regression :
  (exists ctrl tol t, length ctrl = 4%nat /\ 0 < tol /\ 0 <= t <= 1 /\
     step_rule_clamp_condition (decasteljau t (deriv1 ctrl)) (decasteljau t (deriv2 ctrl)) tol)
  /\ (exists ctrl tol, length ctrl = 4%nat /\ 0 < tol /\ ctrl_span_lt_quarter ctrl = true /\
     step_rule_clamp_condition (decasteljau 0 (deriv1 ctrl)) (decasteljau 0 (deriv2 ctrl)) tol).
Proof. exact step_rule_clamp_regression_example. Qed.

(* non-vacuity *)
Example c15_nonvacuous :
  arc_num_points PI 1 1 = 1%Z /\ arc_segments PI 1 1 = 3%Z.
Proof. exact arc_num_points_example. Qed.
