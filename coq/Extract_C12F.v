Require Import Base Generated Sort FractureCuts.
Require Import Extraction ExtrOcamlBasic.
Extraction Blacklist List String Int.
Extraction "../ocaml/extracted/c12_cuts.ml" fracture_cuts dbl_of_bits bits_of_dbl cut_frac cut_index midpoint
  choose_x_axis bounding_box Z.of_N N.add.
