(* Proofs about the statement-level model of read_oas (OasisRead.v):
     - the helpers of the model agree with the strict primitive decoders on every input these accept;
     - per-record lemmas: each dec_<record> of the covered strict decoder and the reader's branch give the same
       element and related modal states (modal_rel);
     - cov_refines_spec: the covered decoder is a restriction of spec_oas_decode;
     - oas_reader_accepts_spec_partial_lemma: covered streams are loaded to view(L);
     - *_refuted: witnesses showing that the statement for all of spec_oas_decode is false. *)
Require Import Base OasisInt OasisSpec OasisRead.
From Coq Require Import ZifyBool ZifyN ZifyNat.
Local Open Scope N_scope.

(* ================================================================== primitives *)
Lemma o2o_ok {A} (x : outcome A) (a : A) : o2o x = Some a -> x = Ok a.
Proof. destruct x; cbn; intros H; try discriminate. congruence. Qed.

Lemma uint_loop_ok : forall bs result nbits v r,
  dec_uint_loop bs result nbits = Ok (v, r) -> uint_loop bs result nbits = (v, mkS r None).
Proof.
  induction bs as [|b t IH]; intros result nbits v r H; cbn [dec_uint_loop uint_loop] in *; [discriminate|].
  destruct ((nbits =? 63) && (1 <? b)); [discriminate|].
  destruct (0 <? N.land b 128).
  - apply IH. exact H.
  - congruence.
Qed.

Lemma s_uint_ok bs v r : rd_uint bs = Some (v, r) -> s_uint (mkS bs None) = (v, mkS r None).
Proof.
  unfold rd_uint. intros H. apply o2o_ok in H. unfold s_uint. cbn [s_err s_bs].
  destruct bs as [|b t]; cbn [dec_uint] in H; [discriminate|].
  destruct (0 <? N.land b 128).
  - apply uint_loop_ok. exact H.
  - congruence.
Qed.

Lemma int_loop_ok : forall bs result nbits v r,
  dec_int_loop bs result nbits = Ok (v, r) -> int_loop bs result nbits = (v, mkS r None).
Proof.
  induction bs as [|b t IH]; intros result nbits v r H; cbn [dec_int_loop int_loop] in *; [discriminate|].
  destruct ((56 <? nbits) && (0 <? N.shiftr b (63 - nbits))); [discriminate|].
  destruct (0 <? N.land b 128).
  - apply IH. exact H.
  - congruence.
Qed.

Lemma s_intern_ok skip bs v bits r :
  dec_int_internal skip bs = Ok (v, bits, r) -> s_intern skip (mkS bs None) = (v, bits, mkS r None).
Proof.
  unfold s_intern. cbn [s_err s_bs]. destruct bs as [|b t]; cbn [dec_int_internal]; [discriminate|].
  destruct (0 <? N.land b 128).
  - destruct (dec_int_loop t (N.shiftr (N.land b 127) skip) (7 - skip)) as [[v0 r0]| | | | |] eqn:E;
      cbn [obind]; try discriminate.
    intros [= <- <- <-]. rewrite (int_loop_ok _ _ _ _ _ E). reflexivity.
  - congruence.
Qed.

Lemma obind_ok {A B} (x : outcome A) (f : A -> outcome B) b :
  obind x f = Ok b -> exists a, x = Ok a /\ f a = Ok b.
Proof. destruct x; cbn; intros H; try discriminate. eauto. Qed.

Lemma s_int_ok bs z r : rd_int bs = Some (z, r) -> s_int (mkS bs None) = (z, mkS r None).
Proof.
  unfold rd_int, dec_int. intros H. apply o2o_ok in H. apply obind_ok in H.
  destruct H as [[[v bits] rest] [H1 H2]]. unfold s_int. rewrite (s_intern_ok _ _ _ _ _ H1).
  injection H2 as <- <-. reflexivity.
Qed.

Lemma s_2delta_ok bs p r : rd_2d bs = Some (p, r) -> s_2delta (mkS bs None) = (p, mkS r None).
Proof.
  unfold rd_2d, dec_2delta. destruct (obind (dec_int_internal 2 bs) _) as [[[x y] rest]| | | | |] eqn:E; try discriminate.
  intros [= <- <-]. apply obind_ok in E. destruct E as [[[v bits] rest0] [H1 H2]].
  unfold s_2delta. rewrite (s_intern_ok _ _ _ _ _ H1). injection H2 as H2 <-. rewrite H2. reflexivity.
Qed.

Lemma s_3delta_ok bs p r : rd_3d bs = Some (p, r) -> s_3delta (mkS bs None) = (p, mkS r None).
Proof.
  unfold rd_3d, dec_3delta. destruct (obind (dec_int_internal 3 bs) _) as [[[x y] rest]| | | | |] eqn:E; try discriminate.
  intros [= <- <-]. apply obind_ok in E. destruct E as [[[v bits] rest0] [H1 H2]].
  unfold s_3delta. rewrite (s_intern_ok _ _ _ _ _ H1). injection H2 as H2 <-. rewrite H2. reflexivity.
Qed.

Lemma s_gdelta_ok bs p r : rd_g bs = Some (p, r) -> s_gdelta (mkS bs None) = (p, mkS r None).
Proof.
  unfold rd_g, dec_gdelta, s_gdelta. cbn [s_err s_bs]. destruct bs as [|b t]; [discriminate|].
  destruct (N.land b 1 =? 0).
  - destruct (obind (dec_int_internal 4 (b :: t)) _) as [[[x y] rest]| | | | |] eqn:E; try discriminate.
    intros [= <- <-]. apply obind_ok in E. destruct E as [[[v bits] rest0] [H1 H2]].
    rewrite (s_intern_ok _ _ _ _ _ H1). injection H2 as H2 <-. rewrite <- H2. reflexivity.
  - destruct (obind (dec_int_internal 2 (b :: t)) _) as [[[x y] rest]| | | | |] eqn:E; try discriminate.
    intros [= <- <-]. apply obind_ok in E. destruct E as [[[vx bx] rest0] [H1 H2]].
    apply obind_ok in H2. destruct H2 as [[[vy by_] rest1] [H2 H3]].
    rewrite (s_intern_ok _ _ _ _ _ H1). rewrite (s_intern_ok _ _ _ _ _ H2).
    injection H3 as <- <- <-. reflexivity.
Qed.

(* ---- strings *)
Lemma take_n_firstn : forall n bs l r, take_n n bs = Some (l, r) -> l = firstn n bs /\ r = skipn n bs.
Proof.
  induction n as [|n IH]; intros bs l r H; cbn [take_n] in H.
  - injection H as <- <-. auto.
  - destruct bs as [|b t]; [discriminate|].
    destruct (take_n n t) as [[l0 r0]|] eqn:E; cbn [obnd] in H; [|discriminate].
    injection H as <- <-. destruct (IH _ _ _ E) as [-> ->]. auto.
Qed.

Lemma s_string_ok nul bs v r : rd_string bs = Some (v, r) -> s_string nul (mkS bs None) = ROk v (mkS r None).
Proof.
  unfold rd_string. destruct (rd_uint bs) as [[n bs1]|] eqn:E; cbn [obnd]; [|discriminate].
  unfold rd_bytes. destruct (N.of_nat (length bs1) <? n) eqn:E2; [discriminate|].
  intros H. apply take_n_firstn in H. destruct H as [-> ->].
  unfold s_string. rewrite (s_uint_ok _ _ _ E). cbn [s_bs s_err]. rewrite E2.
  destruct (negb nul && (n =? 0)) eqn:E3; [|reflexivity].
  apply andb_prop in E3. destruct E3 as [_ E3]. apply N.eqb_eq in E3. subst n. reflexivity.
Qed.

(* ---- reals *)
Lemma small1_cons bs : small1 bs = true -> exists b t, bs = b :: t /\ b < 128.
Proof. destruct bs as [|b t]; cbn; [discriminate|]. intros H. apply N.ltb_lt in H. eauto. Qed.

Lemma rd_uint_small1 b t : b < 128 -> rd_uint (b :: t) = Some (b, t).
Proof.
  intros H. unfold rd_uint. cbn [dec_uint].
  assert (E : N.land b 128 = 0).
  { apply N.bits_inj_0. intros i. rewrite N.land_spec.
    destruct (N.eq_dec i 7) as [->|Hi].
    - replace (N.testbit b 7) with false; [reflexivity|]. symmetry.
      destruct (N.eq_dec b 0) as [->|Hb]; [apply N.bits_0|]. apply N.bits_above_log2. apply N.log2_lt_pow2; lia.
    - replace (N.testbit 128 i) with false; [apply andb_false_r|]. symmetry.
      change 128 with (2 ^ 7). apply N.pow2_bits_false. congruence. }
  rewrite E. cbn [N.ltb N.compare o2o].
  replace (N.land b 127) with b; [reflexivity|].
  change 127 with (N.ones 7). rewrite N.land_ones. symmetry. apply N.mod_small. exact H.
Qed.

Lemma take_n_rdn k bs l r : take_n k bs = Some (l, r) -> rdn k (mkS bs None) = (Some l, mkS r None).
Proof.
  intros H. unfold rdn. cbn [s_bs s_err].
  assert (Hl : (k <= length bs)%nat).
  { revert bs l r H. induction k as [|k IH]; intros bs l r H; [lia|].
    cbn [take_n] in H. destruct bs as [|b t]; [discriminate|].
    destruct (take_n k t) as [[l0 r0]|] eqn:E; [|discriminate]. cbn. specialize (IH _ _ _ E). lia. }
  replace (length bs <? k)%nat with false by (symmetry; apply Nat.ltb_ge; exact Hl).
  apply take_n_firstn in H. destruct H as [-> ->]. reflexivity.
Qed.

Lemma s_real_by_ok ty bs v r : rd_real_by ty bs = Some (v, r) -> s_real_by ty (mkS bs None) = (v, mkS r None).
Proof.
  unfold rd_real_by, s_real_by.
  destruct ty as [|p]; [|repeat (destruct p as [p|p|]; try discriminate)].
  all: try (destruct (rd_uint bs) as [[n r1]|] eqn:E; cbn [obnd]; [|discriminate];
            try (destruct (rd_uint r1) as [[n2 r2]|] eqn:E2; cbn [obnd]; [|discriminate];
                 intros [= <- <-]; rewrite (s_uint_ok _ _ _ E), (s_uint_ok _ _ _ E2); reflexivity);
            intros [= <- <-]; rewrite (s_uint_ok _ _ _ E); reflexivity).
  all: (match goal with |- context [take_n ?k ?b] => destruct (take_n k b) as [[l r1]|] eqn:E end;
        cbn [obnd]; [|discriminate]; intros [= <- <-]; rewrite (take_n_rdn _ _ _ _ E); reflexivity).
Qed.

Lemma s_real_ok bs v r : cov_real bs = Some (v, r) -> s_real (mkS bs None) = (v, mkS r None).
Proof.
  unfold cov_real. destruct (small1 bs) eqn:E; [|discriminate].
  apply small1_cons in E. destruct E as (b & t & -> & Hb).
  unfold rd_real. rewrite rd_uint_small1 by exact Hb. cbn [obnd]. intros H.
  unfold s_real, rd1. cbn [s_bs s_err]. apply s_real_by_ok. exact H.
Qed.

(* ---- counted loops *)
Section Loop.
  Context {A B : Type} (rd : list N -> option (B * list N)) (body : A -> strm -> A * strm) (step : A -> B -> A).
  Hypothesis body_ok : forall a bs b r, rd bs = Some (b, r) -> body a (mkS bs None) = (step a b, mkS r None).

  Lemma s_loop_ok pf : forall k fuel bs l r acc,
    rd_n rd k bs = Some (l, r) -> (k <= fuel)%nat ->
    s_loop fuel body pf (N.of_nat k) acc (mkS bs None) = ROk (fold_left step l acc) (mkS r None).
  Proof.
    induction k as [|k IH]; intros fuel bs l r acc H Hf.
    - cbn [rd_n] in H. injection H as <- <-. destruct fuel; reflexivity.
    - cbn [rd_n] in H. destruct (rd bs) as [[b bs1]|] eqn:E; cbn [obnd] in H; [|discriminate].
      destruct (rd_n rd k bs1) as [[l0 r0]|] eqn:E2; cbn [obnd] in H; [|discriminate].
      injection H as <- <-. destruct fuel as [|f]; [lia|].
      cbn [s_loop]. replace (N.of_nat (S k) =? 0) with false by (symmetry; apply N.eqb_neq; lia).
      cbn [s_err]. rewrite (body_ok _ _ _ _ E).
      replace (N.of_nat (S k) - 1) with (N.of_nat k) by lia.
      rewrite (IH f bs1 l0 r0 (step acc b) E2) by lia. reflexivity.
  Qed.

  Lemma s_alloc_loop_ok esize have pf n bs l r acc :
    rd_count rd n bs = Some (l, r) -> (have + n) * esize < 68719476736 ->
    s_alloc_loop esize have body pf n acc (mkS bs None) = ROk (fold_left step l acc) (mkS r None).
  Proof.
    unfold rd_count. destruct (N.of_nat (length bs) <? n) eqn:E; [discriminate|]. intros H Hb.
    unfold s_alloc_loop, alloc_fails.
    replace (68719476736 <=? (have + n) * esize) with false by (symmetry; apply N.leb_gt; exact Hb).
    cbn [andb s_bs]. rewrite <- (N2Nat.id n) at 1. apply s_loop_ok; [exact H|].
    apply N.ltb_ge in E. lia.
  Qed.
End Loop.

Lemma rd_n_length {B} (rd : list N -> option (B * list N)) : forall k bs l r,
  rd_n rd k bs = Some (l, r) -> length l = k.
Proof.
  induction k as [|k IH]; intros bs l r H; cbn [rd_n] in H.
  - injection H as <- <-. reflexivity.
  - destruct (rd bs) as [[b bs1]|]; cbn [obnd] in H; [|discriminate].
    destruct (rd_n rd k bs1) as [[l0 r0]|] eqn:E; cbn [obnd] in H; [|discriminate].
    injection H as <- <-. cbn. f_equal. eapply IH. exact E.
Qed.
Lemma rd_count_length {B} (rd : list N -> option (B * list N)) n bs l r :
  rd_count rd n bs = Some (l, r) -> N.of_nat (length l) = n.
Proof.
  unfold rd_count. destruct (N.of_nat (length bs) <? n); [discriminate|]. intros H.
  apply rd_n_length in H. lia.
Qed.

(* ================================================================== point lists *)
Lemma padd_comm a b : padd a b = padd b a.
Proof. unfold padd. f_equal; lia. Qed.

Definition alt_step (st : list pt * bool * pt) (d : Z) : list pt * bool * pt :=
  let '(acc, horizontal, ref) := st in
  let cur := if horizontal then ((fst ref + d)%Z, snd ref) else (fst ref, (snd ref + d)%Z) in
  (cur :: acc, negb horizontal, cur).
Lemma alt_body_ok a bs d r : rd_int bs = Some (d, r) -> plist_alt_body a (mkS bs None) = (alt_step a d, mkS r None).
Proof. intros H. unfold plist_alt_body, alt_step. destruct a as [[acc h] ref]. rewrite (s_int_ok _ _ _ H). reflexivity. Qed.
Lemma alt_fold : forall ds acc h p l last h',
  manh_accum h p ds = (l, last, h') -> fold_left alt_step ds (acc, h, p) = (rev l ++ acc, h', last).
Proof.
  induction ds as [|d t IH]; intros acc h p l last h' H; cbn [manh_accum] in H.
  - injection H as <- <- <-. reflexivity.
  - cbv zeta in H. destruct (manh_accum (negb h) _ t) as [[l0 last0] h0] eqn:E.
    injection H as <- <- <-. cbn [fold_left alt_step]. rewrite (IH _ _ _ _ _ _ E).
    cbn [rev]. rewrite <- app_assoc. reflexivity.
Qed.
Lemma manh_length : forall ds h p l last h', manh_accum h p ds = (l, last, h') -> length l = length ds.
Proof.
  induction ds as [|d t IH]; intros h p l last h' H; cbn [manh_accum] in H.
  - injection H as <- <- <-. reflexivity.
  - cbv zeta in H. destruct (manh_accum (negb h) _ t) as [[l0 last0] h0] eqn:E. injection H as <- <- <-.
    cbn. f_equal. eapply IH. exact E.
Qed.

Definition delta_step (st : list pt * pt) (d : pt) : list pt * pt :=
  let '(acc, ref) := st in (padd d ref :: acc, padd d ref).
Lemma delta_body_ok (srd : strm -> pt * strm) (rd : list N -> option (pt * list N)) :
  (forall bs p r, rd bs = Some (p, r) -> srd (mkS bs None) = (p, mkS r None)) ->
  forall a bs d r, rd bs = Some (d, r) -> plist_delta_body srd a (mkS bs None) = (delta_step a d, mkS r None).
Proof. intros Hs a bs d r H. unfold plist_delta_body, delta_step. destruct a as [acc ref]. rewrite (Hs _ _ _ H). reflexivity. Qed.
Lemma delta_fold : forall ds acc p,
  fst (fold_left delta_step ds (acc, p)) = rev (prefix_sums_pt p ds) ++ acc.
Proof.
  induction ds as [|d t IH]; intros acc p; [reflexivity|].
  cbn [fold_left delta_step prefix_sums_pt]. rewrite IH. rewrite (padd_comm d p).
  cbn [rev]. rewrite <- app_assoc. reflexivity.
Qed.
Lemma delta_fold' ds st : fst (fold_left delta_step ds st) = rev (prefix_sums_pt (snd st) ds) ++ fst st.
Proof. destruct st. apply delta_fold. Qed.
Lemma prefix_sums_pt_length : forall ds p, length (prefix_sums_pt p ds) = length ds.
Proof. induction ds as [|d t IH]; intros p; [reflexivity|]. cbn. f_equal. apply IH. Qed.

Definition rel_step (st : list pt * pt * pt) (d : pt) : list pt * pt * pt :=
  let '(acc, delta, ref) := st in
  let delta1 := padd delta d in
  let cur := padd delta1 ref in
  (cur :: acc, delta1, cur).
Lemma rel_body_ok a bs d r : rd_g bs = Some (d, r) -> plist_rel_body a (mkS bs None) = (rel_step a d, mkS r None).
Proof. intros H. unfold plist_rel_body, rel_step. destruct a as [[acc dl] ref]. rewrite (s_gdelta_ok _ _ _ H). reflexivity. Qed.
Lemma rel_fold : forall gs acc dl p,
  fst (fst (fold_left rel_step gs (acc, dl, p))) = rev (ddelta_accum p dl gs) ++ acc.
Proof.
  induction gs as [|g t IH]; intros acc dl p; [reflexivity|].
  cbn [fold_left rel_step ddelta_accum]. rewrite IH. rewrite (padd_comm (padd dl g) p).
  cbn [rev]. rewrite <- app_assoc. reflexivity.
Qed.
Lemma rel_fold' gs st :
  fst (fst (fold_left rel_step gs st)) = rev (ddelta_accum (snd st) (snd (fst st)) gs) ++ fst (fst st).
Proof. destruct st as [[a b] c]. apply rel_fold. Qed.
Lemma ddelta_length : forall gs p dl, length (ddelta_accum p dl gs) = length gs.
Proof. induction gs as [|g t IH]; intros p dl; [reflexivity|]. cbn. f_equal. apply IH. Qed.

Lemma lim31_alloc n have : n < lim31 -> have <= 2 -> (have + n) * 16 < 68719476736.
Proof. unfold lim31. intros. nia. Qed.

Lemma s_plist_ok closed bs pts r :
  cov_plist closed bs = Some (pts, r) -> s_plist closed (mkS bs None) = ROk pts (mkS r None).
Proof.
  unfold cov_plist. destruct (small1 bs) eqn:Es; [|discriminate].
  apply small1_cons in Es. destruct Es as (ty & t & -> & Hty).
  destruct (rd_plist closed (ty :: t)) as [[pts0 rest]|] eqn:E; cbn [obnd]; [|discriminate].
  destruct (N.of_nat (length pts0) <? lim31) eqn:El; [|discriminate]. intros [= <- <-].
  apply N.ltb_lt in El.
  unfold rd_plist in E. rewrite rd_uint_small1 in E by exact Hty. cbn [obnd] in E.
  destruct (rd_uint t) as [[n bs2]|] eqn:En; cbn [obnd] in E; [|discriminate].
  unfold s_plist, rd1. cbn [s_bs s_err]. rewrite (s_uint_ok _ _ _ En). cbn [s_err].
  assert (Halt : forall (f0 : bool),
    match (let? '(ds, bs) := rd_count rd_int n bs2 in
           let '(l, last, h) := manh_accum f0 (0, 0)%Z ds in
           Some (if closed then l ++ [if h then (0%Z, snd last) else (fst last, 0%Z)] else l, bs)) with
    | Some (pts, r) => N.of_nat (length pts) < lim31 ->
        (do '(acc, horizontal, last) <- s_alloc_loop 16 2 plist_alt_body 1 n ([], f0, (0, 0)%Z);
         rret (if closed then rev ((if horizontal then (0%Z, snd last) else (fst last, 0%Z)) :: acc) else rev acc))
          (mkS bs2 None) = ROk pts (mkS r None)
    | None => True
    end).
  { intros f0. destruct (rd_count rd_int n bs2) as [[ds bs3]|] eqn:Ec; cbn [obnd]; [|exact I].
    destruct (manh_accum f0 (0, 0)%Z ds) as [[l last] h] eqn:Em. intros El2.
    pose proof (rd_count_length _ _ _ _ _ Ec) as Hn. pose proof (manh_length _ _ _ _ _ _ Em) as Hl.
    unfold rbind.
    rewrite (s_alloc_loop_ok rd_int plist_alt_body alt_step alt_body_ok 16 2 1 n bs2 ds bs3 _ Ec).
    2:{ apply lim31_alloc; [|lia]. destruct closed; rewrite ?app_length in El2; cbn in El2; lia. }
    rewrite (alt_fold _ _ _ _ _ _ _ Em). rewrite app_nil_r. unfold rret.
    destruct closed; [|rewrite rev_involutive; reflexivity].
    cbn [rev]. rewrite rev_involutive. reflexivity. }
  assert (Hdelta : forall rd srd pf, (forall bs p r, rd bs = Some (p, r) -> srd (mkS bs None) = (p, mkS r None)) ->
    match (let? '(ds, bs) := rd_count rd n bs2 in Some (prefix_sums_pt (0, 0)%Z ds, bs)) with
    | Some (pts, r) => N.of_nat (length pts) < lim31 ->
        (do '(acc, _) <- s_alloc_loop 16 1 (plist_delta_body srd) pf n ([], (0, 0)%Z); rret (rev acc))
          (mkS bs2 None) = ROk pts (mkS r None)
    | None => True
    end).
  { intros rd srd pf Hrd. destruct (rd_count rd n bs2) as [[ds bs3]|] eqn:Ec; cbn [obnd]; [|exact I].
    intros El2. pose proof (rd_count_length _ _ _ _ _ Ec) as Hn.
    rewrite prefix_sums_pt_length in El2. unfold rbind.
    rewrite (s_alloc_loop_ok rd (plist_delta_body srd) delta_step (delta_body_ok _ _ Hrd)
               16 1 pf n bs2 ds bs3 _ Ec) by (apply lim31_alloc; lia).
    match goal with |- context [fold_left delta_step ds ?a] =>
      pose proof (delta_fold' ds a) as Hf; destruct (fold_left delta_step ds a) as [acc lastp] end.
    cbn [fst snd] in Hf. rewrite app_nil_r in Hf. subst acc. unfold rret. rewrite rev_involutive. reflexivity. }
  destruct ty as [|p]; [|repeat (destruct p as [p|p|]; try discriminate)].
  all: try (specialize (Halt true); cbv beta iota zeta in E; change (0 =? 0) with true in E;
            rewrite E in Halt; exact (Halt El)).
  all: try (specialize (Halt false); cbv beta iota zeta in E; change (1 =? 0) with false in E;
            rewrite E in Halt; exact (Halt El)).
  all: try (pose proof (Hdelta rd_2d s_2delta 1 s_2delta_ok) as Hd; rewrite E in Hd; exact (Hd El)).
  all: try (pose proof (Hdelta rd_3d s_3delta 1 s_3delta_ok) as Hd; rewrite E in Hd; exact (Hd El)).
  all: try (pose proof (Hdelta rd_g s_gdelta 0 s_gdelta_ok) as Hd; rewrite E in Hd; exact (Hd El)).
  (* 5 *)
  destruct (rd_count rd_g n bs2) as [[ds bs3]|] eqn:Ec; cbn [obnd] in E; [|discriminate].
  injection E as <- <-. pose proof (rd_count_length _ _ _ _ _ Ec) as Hn.
  rewrite ddelta_length in El. unfold rbind.
  rewrite (s_alloc_loop_ok rd_g plist_rel_body rel_step rel_body_ok 16 1 0 n bs2 ds bs3 _ Ec)
    by (apply lim31_alloc; lia).
  match goal with |- context [fold_left rel_step ds ?a] =>
    pose proof (rel_fold' ds a) as Hf; destruct (fold_left rel_step ds a) as [[acc dl] lastp] end.
  cbn [fst snd] in Hf. rewrite app_nil_r in Hf. subst acc. unfold rret. rewrite rev_involutive. reflexivity.
Qed.

(* ================================================================== repetitions *)
Definition orep_rel (mr : option srep) (cur : rrep) : Prop :=
  match mr with Some r => cur = view_rep r | None => True end.

Definition coord_step (g : N) (st : list N * N) (d : N) : list N * N :=
  let '(acc, x) := st in (x + g * d :: acc, x + g * d).
Lemma coord_body_ok g a bs d r : rd_uint bs = Some (d, r) -> rep_coord_body g a (mkS bs None) = (coord_step g a d, mkS r None).
Proof. intros H. unfold rep_coord_body, coord_step. destruct a as [acc x]. rewrite (s_uint_ok _ _ _ H). reflexivity. Qed.
Lemma coord_fold g : forall l acc a,
  fst (fold_left (coord_step g) l (acc, g * a)) = rev (map (fun x => g * x) (prefix_sums_N a l)) ++ acc.
Proof.
  induction l as [|d t IH]; intros acc a; [reflexivity|].
  cbn [fold_left coord_step prefix_sums_N map]. rewrite <- N.mul_add_distr_l. rewrite IH.
  cbn [rev]. rewrite <- app_assoc. reflexivity.
Qed.
Lemma coord_fold' g l st : snd st = 0 ->
  fst (fold_left (coord_step g) l st) = rev (map (fun x => g * x) (prefix_sums_N 0 l)) ++ fst st.
Proof. destruct st as [acc x]. cbn [snd fst]. intros ->. replace 0 with (g * 0) at 1 by lia. apply coord_fold. Qed.

Definition off_step (g : N) (st : list pt * pt) (d : pt) : list pt * pt :=
  let '(acc, v) := st in
  let v1 := ((fst v + Z.of_N g * fst d)%Z, (snd v + Z.of_N g * snd d)%Z) in (v1 :: acc, v1).
Lemma off_body_ok g a bs d r : rd_g bs = Some (d, r) -> rep_off_body g a (mkS bs None) = (off_step g a d, mkS r None).
Proof. intros H. unfold rep_off_body, off_step. destruct a as [acc x]. rewrite (s_gdelta_ok _ _ _ H). reflexivity. Qed.
Definition gscale (g : N) (p : pt) : pt := ((Z.of_N g * fst p)%Z, (Z.of_N g * snd p)%Z).
Lemma off_fold g : forall l acc a,
  fst (fold_left (off_step g) l (acc, gscale g a)) = rev (map (gscale g) (prefix_sums_pt a l)) ++ acc.
Proof.
  induction l as [|d t IH]; intros acc a; [reflexivity|].
  cbn [fold_left off_step prefix_sums_pt map].
  replace ((fst (gscale g a) + Z.of_N g * fst d)%Z, (snd (gscale g a) + Z.of_N g * snd d)%Z) with (gscale g (padd a d)).
  2:{ unfold gscale, padd. cbn [fst snd]. f_equal; lia. }
  rewrite IH. cbn [rev]. rewrite <- app_assoc. reflexivity.
Qed.
Lemma off_fold' g l st : snd st = (0, 0)%Z ->
  fst (fold_left (off_step g) l st) = rev (map (gscale g) (prefix_sums_pt (0, 0)%Z l)) ++ fst st.
Proof.
  destruct st as [acc x]. cbn [snd fst]. intros ->.
  replace (0, 0)%Z with (gscale g (0, 0)%Z) at 1 by (unfold gscale; cbn [fst snd]; f_equal; lia). apply off_fold.
Qed.

Lemma u64_small n : n < two64 -> u64 n = n.
Proof. intros H. unfold u64. apply N.mod_small. exact H. Qed.

Lemma rlac_inv {A} (rd : list N -> option (A * list N)) wg bs g l rest :
  rd_list_after_count rd wg bs = Some (g, l, rest) ->
  exists c bs1 bs2, rd_uint bs = Some (c, bs1) /\
    (if wg then exists gv, rd_uint bs1 = Some (gv, bs2) /\ g = Some gv else bs2 = bs1 /\ g = None) /\
    rd_count rd (c + 1) bs2 = Some (l, rest).
Proof.
  unfold rd_list_after_count. destruct (rd_uint bs) as [[c bs1]|] eqn:E; cbn [obnd]; [|discriminate].
  destruct wg.
  - destruct (rd_uint bs1) as [[gv bs2]|] eqn:E2; cbn [obnd]; [|discriminate].
    destruct (rd_count rd (c + 1) bs2) as [[l0 r0]|] eqn:E3; cbn [obnd]; [|discriminate].
    intros [= <- <- <-]. exists c, bs1, bs2. repeat split; eauto.
  - cbn [obnd]. destruct (rd_count rd (c + 1) bs1) as [[l0 r0]|] eqn:E3; cbn [obnd]; [|discriminate].
    intros [= <- <- <-]. exists c, bs1, bs1. repeat split; eauto.
Qed.

(* the two list forms of oasis_read_repetition *)
Lemma rep_coords_ok (k : list N -> rrep) (wg : bool) bs g l rest :
  rd_list_after_count rd_uint wg bs = Some (g, l, rest) -> N.of_nat (length l) < lim31 ->
  (let (c, s2) := s_uint (mkS bs None) in
   let count := u64 (1 + c) in
   let (gv, s3) := (if wg then s_uint s2 else (1, s2)) in
   (do '(acc, _) <- s_alloc_loop 8 0 (rep_coord_body gv) 1 count ([], 0); rret (k (rev acc))) s3)
  = ROk (k (map (fun x => grid_of g * x) (prefix_sums_N 0 l))) (mkS rest None).
Proof.
  intros H Hl. apply rlac_inv in H. destruct H as (c & bs1 & bs2 & Hc & Hg & Hcount).
  pose proof (rd_count_length _ _ _ _ _ Hcount) as Hn. unfold lim31 in Hl.
  rewrite (s_uint_ok _ _ _ Hc).
  replace (u64 (1 + c)) with (c + 1) by (rewrite u64_small; unfold two64; lia).
  assert (Hgo : (if wg then s_uint (mkS bs1 None) else (1, mkS bs1 None)) = (grid_of g, mkS bs2 None)).
  { destruct wg.
    - destruct Hg as (gv & Hgv & ->). rewrite (s_uint_ok _ _ _ Hgv). reflexivity.
    - destruct Hg as [-> ->]. reflexivity. }
  rewrite Hgo. unfold rbind.
  rewrite (s_alloc_loop_ok rd_uint (rep_coord_body (grid_of g)) (coord_step (grid_of g)) (coord_body_ok _)
             8 0 1 (c + 1) bs2 l rest _ Hcount) by lia.
  match goal with |- context [fold_left ?f l ?a] =>
    pose proof (coord_fold' (grid_of g) l a eq_refl) as Hf; destruct (fold_left f l a) as [acc lastp] end.
  cbn [fst] in Hf. subst acc. unfold rret. rewrite app_nil_r, rev_involutive. reflexivity.
Qed.

Lemma rep_offs_ok (wg : bool) bs g l rest :
  rd_list_after_count rd_g wg bs = Some (g, l, rest) -> N.of_nat (length l) < lim31 ->
  (let (c, s2) := s_uint (mkS bs None) in
   let count := u64 (1 + c) in
   let (gv, s3) := (if wg then s_uint s2 else (1, s2)) in
   (do '(acc, _) <- s_alloc_loop 16 0 (rep_off_body gv) 0 count ([], (0, 0)%Z); rret (RR_explicit (rev acc))) s3)
  = ROk (RR_explicit (map (gscale (grid_of g)) (prefix_sums_pt (0, 0)%Z l))) (mkS rest None).
Proof.
  intros H Hl. apply rlac_inv in H. destruct H as (c & bs1 & bs2 & Hc & Hg & Hcount).
  pose proof (rd_count_length _ _ _ _ _ Hcount) as Hn. unfold lim31 in Hl.
  rewrite (s_uint_ok _ _ _ Hc).
  replace (u64 (1 + c)) with (c + 1) by (rewrite u64_small; unfold two64; lia).
  assert (Hgo : (if wg then s_uint (mkS bs1 None) else (1, mkS bs1 None)) = (grid_of g, mkS bs2 None)).
  { destruct wg.
    - destruct Hg as (gv & Hgv & ->). rewrite (s_uint_ok _ _ _ Hgv). reflexivity.
    - destruct Hg as [-> ->]. reflexivity. }
  rewrite Hgo. unfold rbind.
  rewrite (s_alloc_loop_ok rd_g (rep_off_body (grid_of g)) (off_step (grid_of g)) (off_body_ok _)
             16 0 0 (c + 1) bs2 l rest _ Hcount) by lia.
  match goal with |- context [fold_left ?f l ?a] =>
    pose proof (off_fold' (grid_of g) l a eq_refl) as Hf; destruct (fold_left f l a) as [acc lastp] end.
  cbn [fst] in Hf. subst acc. unfold rret. rewrite app_nil_r, rev_involutive. reflexivity.
Qed.

Lemma lim31_u64 n : n < lim31 -> u64 (2 + n) = n + 2.
Proof. unfold lim31. intros H. rewrite u64_small by (unfold two64; lia). lia. Qed.

Lemma s_rep_ok mr cur bs r rest :
  cov_rep mr bs = Some (r, rest) -> orep_rel mr cur -> s_rep cur (mkS bs None) = ROk (view_rep r) (mkS rest None).
Proof.
  unfold cov_rep. destruct (small1 bs) eqn:Es; [|discriminate].
  apply small1_cons in Es. destruct Es as (ty & t & -> & Hty).
  destruct (rd_rep mr (ty :: t)) as [[r0 rest0]|] eqn:E; cbn [obnd]; [|discriminate].
  intros H Hrel.
  assert (Hs : (ty = 0 \/ rep_small r0 = true) /\ r0 = r /\ rest0 = rest).
  { destruct ty as [|p]; [destruct (true); injection H as <- <-; auto|].
    destruct (rep_small r0); [|discriminate]. injection H as <- <-. auto. }
  clear H. destruct Hs as (Hs & <- & <-).
  unfold rd_rep in E. rewrite rd_uint_small1 in E by exact Hty. cbn [obnd] in E.
  unfold s_rep, rd1. cbn [s_bs s_err].
  destruct ty as [|p]; [|repeat (destruct p as [p|p|]; try discriminate)]; first
    [ (* 0 *) solve [destruct mr as [r1|]; [|discriminate]; injection E as <- <-; cbn in Hrel; subst cur; reflexivity]
    | (* 4 5 6 7 *)
      solve [match type of E with context [rd_list_after_count rd_uint ?wg t] =>
        destruct (rd_list_after_count rd_uint wg t) as [[[g l] bs3]|] eqn:El; cbn [obnd] in E; [|discriminate];
        injection E as <- <-; destruct Hs as [Hs|Hs]; [discriminate|]; cbn [rep_small] in Hs; apply N.ltb_lt in Hs;
        first [exact (rep_coords_ok (fun l => RR_ex l) wg t g l bs3 El Hs)
              |exact (rep_coords_ok (fun l => RR_ey l) wg t g l bs3 El Hs)] end]
    | (* 10 11 *)
      solve [match type of E with context [rd_list_after_count rd_g ?wg t] =>
        destruct (rd_list_after_count rd_g wg t) as [[[g l] bs3]|] eqn:El; cbn [obnd] in E; [|discriminate];
        injection E as <- <-; destruct Hs as [Hs|Hs]; [discriminate|]; cbn [rep_small] in Hs; apply N.ltb_lt in Hs;
        exact (rep_offs_ok wg t g l bs3 El Hs) end]
    | (* 1 *)
      solve [destruct (rd_uint t) as [[nx b1]|] eqn:E1; cbn [obnd] in E; [|discriminate];
        destruct (rd_uint b1) as [[ny b2]|] eqn:E2; cbn [obnd] in E; [|discriminate];
        destruct (rd_uint b2) as [[sx b3]|] eqn:E3; cbn [obnd] in E; [|discriminate];
        destruct (rd_uint b3) as [[sy b4]|] eqn:E4; cbn [obnd] in E; [|discriminate]; injection E as <- <-;
        destruct Hs as [Hs|Hs]; [discriminate|]; cbn [rep_small] in Hs; apply andb_prop in Hs; destruct Hs as [H1 H2];
        apply N.ltb_lt in H1, H2;
        rewrite (s_uint_ok _ _ _ E1), (s_uint_ok _ _ _ E2), (s_uint_ok _ _ _ E3), (s_uint_ok _ _ _ E4);
        cbn [view_rep]; rewrite !lim31_u64 by assumption; reflexivity]
    | (* 8 *)
      solve [destruct (rd_uint t) as [[n b1]|] eqn:E1; cbn [obnd] in E; [|discriminate];
        destruct (rd_uint b1) as [[m b2]|] eqn:E2; cbn [obnd] in E; [|discriminate];
        destruct (rd_g b2) as [[v1 b3]|] eqn:E3; cbn [obnd] in E; [|discriminate];
        destruct (rd_g b3) as [[v2 b4]|] eqn:E4; cbn [obnd] in E; [|discriminate]; injection E as <- <-;
        destruct Hs as [Hs|Hs]; [discriminate|]; cbn [rep_small] in Hs; apply andb_prop in Hs; destruct Hs as [H1 H2];
        apply N.ltb_lt in H1, H2;
        rewrite (s_uint_ok _ _ _ E1), (s_uint_ok _ _ _ E2), (s_gdelta_ok _ _ _ E3), (s_gdelta_ok _ _ _ E4);
        cbn [view_rep]; rewrite !lim31_u64 by assumption; reflexivity]
    | (* 2 3 *)
      solve [destruct (rd_uint t) as [[nx b1]|] eqn:E1; cbn [obnd] in E; [|discriminate];
        destruct (rd_uint b1) as [[sx b2]|] eqn:E2; cbn [obnd] in E; [|discriminate]; injection E as <- <-;
        destruct Hs as [Hs|Hs]; [discriminate|]; cbn [rep_small] in Hs; apply N.ltb_lt in Hs;
        rewrite (s_uint_ok _ _ _ E1), (s_uint_ok _ _ _ E2); cbn [view_rep]; rewrite lim31_u64 by exact Hs; reflexivity]
    | (* 9 *)
      solve [destruct (rd_uint t) as [[n b1]|] eqn:E1; cbn [obnd] in E; [|discriminate];
        destruct (rd_g b1) as [[v b2]|] eqn:E2; cbn [obnd] in E; [|discriminate]; injection E as <- <-;
        destruct Hs as [Hs|Hs]; [discriminate|]; cbn [rep_small] in Hs; apply N.ltb_lt in Hs;
        rewrite (s_uint_ok _ _ _ E1), (s_gdelta_ok _ _ _ E2); cbn [view_rep]; rewrite lim31_u64 by exact Hs; reflexivity] ].
Qed.

(* ================================================================== modal variables: strict decoder vs reader *)
Definition orel {A} (o : option A) (v : A) : Prop := match o with Some a => v = a | None => True end.

Record modal_rel (m : modal) (q : rmodal) : Prop := mkMR {
  mr_abs : r_abs q = m_abs m;
  mr_rep : orep_rel (m_rep m) (r_rep q);
  mr_layer : orel (g_layer (m_g m)) (r_layer q);
  mr_dtype : orel (g_dtype (m_g m)) (r_dtype q);
  mr_gpos : r_gpos q = (g_x (m_g m), g_y (m_g m));
  mr_w : orel (g_w (m_g m)) (r_w q);
  mr_h : orel (g_h (m_g m)) (r_h q);
  mr_poly : orel (g_poly (m_g m)) (r_poly q);
  mr_path : orel (g_path (m_g m)) (r_path q);
  mr_hw : orel (g_hw (m_g m)) (r_hw q);
  mr_exs : orel (g_exs (m_g m)) (r_exs q);
  mr_exe : orel (g_exe (m_g m)) (r_exe q);
  mr_ctype : orel (g_ctype (m_g m)) (r_ctype q);
  mr_rad : orel (g_rad (m_g m)) (r_rad q);
  mr_tstr : match t_str (m_t m) with Some s => r_text q = Some s | None => True end;
  mr_tlayer : orel (t_layer (m_t m)) (r_tlayer q);
  mr_ttype : orel (t_type (m_t m)) (r_ttype q);
  mr_tpos : r_tpos q = (t_x (m_t m), t_y (m_t m));
  mr_pcell : match p_cell (m_p m) with Some c => r_pcell q = Some c | None => True end;
  mr_ppos : r_ppos q = (p_x (m_p m), p_y (m_p m));
  mr_pname : match m_pname m with Some ns => r_pname q = Some (fst ns) | None => True end;
  mr_pvals : match m_pvals m with Some vs => r_pvals q = map view_val vs | None => True end
}.

Lemma tb_bit i k : tb i k = bit i k.
Proof. reflexivity. Qed.

(* ---- fields *)
Lemma fld_u32_ok b mv cur bs v r :
  fld b rd_u32 mv bs = Some (v, r) -> orel mv cur -> f_u32 b cur (mkS bs None) = (v, mkS r None).
Proof.
  unfold fld, f_u32. destruct b.
  - unfold rd_u32. destruct (rd_uint bs) as [[v0 r0]|] eqn:E; cbn [obnd]; [|discriminate].
    destruct (v0 <? 4294967296) eqn:Ev; [|discriminate]. intros [= <- <-] _.
    rewrite (s_uint_ok _ _ _ E). unfold u32. rewrite N.mod_small by (apply N.ltb_lt; exact Ev). reflexivity.
  - destruct mv as [a|]; [|discriminate]. intros [= <- <-] H. cbn in H. subst. reflexivity.
Qed.
Lemma fld_uint_ok b mv cur bs v r :
  fld b rd_uint mv bs = Some (v, r) -> orel mv cur -> f_uint b cur (mkS bs None) = (v, mkS r None).
Proof.
  unfold fld, f_uint. destruct b.
  - intros H _. apply s_uint_ok. exact H.
  - destruct mv as [a|]; [|discriminate]. intros [= <- <-] H. cbn in H. subst. reflexivity.
Qed.
Lemma pos_fld_ok b a cur bs v r :
  pos_fld b a cur bs = Some (v, r) -> f_pos b a cur (mkS bs None) = (v, mkS r None).
Proof.
  unfold pos_fld, f_pos. destruct b.
  - destruct (rd_int bs) as [[d r0]|] eqn:E; cbn [obnd]; [|discriminate]. intros [= <- <-].
    rewrite (s_int_ok _ _ _ E). reflexivity.
  - intros [= <- <-]. reflexivity.
Qed.
Lemma f_xy_ok bx by_ a cur bs x r1 y r2 :
  pos_fld bx a (fst cur) bs = Some (x, r1) -> pos_fld by_ a (snd cur) r1 = Some (y, r2) ->
  f_xy bx by_ a cur (mkS bs None) = ((x, y), mkS r2 None).
Proof. intros H1 H2. unfold f_xy. rewrite (pos_fld_ok _ _ _ _ _ _ H1), (pos_fld_ok _ _ _ _ _ _ H2). reflexivity. Qed.
Lemma rep_fld_ok b mr cur bs er mr' r :
  cov_rep_fld b mr bs = Some (er, mr', r) -> orep_rel mr cur ->
  exists cur', f_rep b cur (mkS bs None) = ROk (view_orep er, cur') (mkS r None) /\ orep_rel mr' cur'.
Proof.
  unfold cov_rep_fld, f_rep. destruct b.
  - destruct (cov_rep mr bs) as [[r0 bs1]|] eqn:E; cbn [obnd]; [|discriminate]. intros [= <- <- <-] H.
    exists (view_rep r0). unfold rbind. rewrite (s_rep_ok _ _ _ _ _ E H). split; reflexivity.
  - intros [= <- <- <-] H. exists cur. split; [reflexivity|exact H].
Qed.

Lemma f_plist_ok b closed mv cur bs v r :
  fld b (cov_plist closed) mv bs = Some (v, r) -> orel mv cur -> f_plist b closed cur (mkS bs None) = ROk v (mkS r None).
Proof.
  unfold fld, f_plist. destruct b.
  - intros H _. apply s_plist_ok. exact H.
  - destruct mv as [a|]; [|discriminate]. intros [= <- <-] H. cbn in H. subst. reflexivity.
Qed.
Lemma f_delta_ok (absent : bool) bs v r :
  (if absent then Some (0%Z, bs) else rd_int bs) = Some (v, r) -> f_delta absent (mkS bs None) = ROk v (mkS r None).
Proof.
  unfold f_delta. destruct absent.
  - intros [= <- <-]. reflexivity.
  - intros H. unfold lift. rewrite (s_int_ok _ _ _ H). reflexivity.
Qed.
Lemma f_nref_ok byn bs v r : rd_nref byn bs = Some (v, r) -> f_nref byn (mkS bs None) = ROk v (mkS r None).
Proof.
  unfold rd_nref, f_nref. destruct byn.
  - destruct (rd_uint bs) as [[n r0]|] eqn:E; cbn [obnd]; [|discriminate]. intros [= <- <-].
    unfold lift. rewrite (s_uint_ok _ _ _ E). reflexivity.
  - destruct (rd_string bs) as [[str r0]|] eqn:E; cbn [obnd]; [|discriminate]. intros [= <- <-].
    unfold rbind. rewrite (s_string_ok true _ _ _ E). reflexivity.
Qed.
Definition oprel {A} (o : option A) (cur : option A) : Prop := match o with Some a => cur = Some a | None => True end.
Lemma f_name_ok b byn mv cur bs v r :
  fld b (rd_nref byn) mv bs = Some (v, r) -> oprel mv cur -> f_name b byn cur (mkS bs None) = ROk (v, Some v) (mkS r None).
Proof.
  unfold fld, f_name. destruct b.
  - intros H _. unfold rbind. rewrite (f_nref_ok _ _ _ _ H). reflexivity.
  - destruct mv as [a|]; [|discriminate]. intros [= <- <-] H. cbn in H. subst. reflexivity.
Qed.
Lemma f_ctype_ok b mv cur bs v r :
  fld b rd_byte mv bs = Some (v, r) -> orel mv cur -> f_ctype b cur (mkS bs None) = ROk v (mkS r None).
Proof.
  unfold fld, f_ctype. destruct b.
  - destruct bs as [|b0 t]; cbn [rd_byte]; [discriminate|]. intros [= <- <-] _. reflexivity.
  - destruct mv as [a|]; [|discriminate]. intros [= <- <-] H. cbn in H. subst. reflexivity.
Qed.

(* the strict decoder refines: dropping the guards *)
Lemma rd_u32_uint bs y : rd_u32 bs = Some y -> rd_uint bs = Some y.
Proof. unfold rd_u32. destruct (rd_uint bs) as [[v0 r0]|]; cbn [obnd]; [|discriminate]. destruct (v0 <? 4294967296); congruence. Qed.
Lemma fld_mono {A} b (rd1 rd2 : list N -> option (A * list N)) mv bs x :
  (forall bs y, rd1 bs = Some y -> rd2 bs = Some y) -> fld b rd1 mv bs = Some x -> fld b rd2 mv bs = Some x.
Proof. intros H. unfold fld. destruct b; [apply H|auto]. Qed.
Lemma cov_rep_rd mr bs x : cov_rep mr bs = Some x -> rd_rep mr bs = Some x.
Proof.
  unfold cov_rep. destruct (small1 bs); [|discriminate]. destruct (rd_rep mr bs) as [[r rest]|]; cbn [obnd]; [|discriminate].
  destruct (match bs with 0 :: _ => true | _ => rep_small r end); congruence.
Qed.
Lemma cov_rep_fld_rd b mr bs x : cov_rep_fld b mr bs = Some x -> rep_fld b mr bs = Some x.
Proof.
  unfold cov_rep_fld, rep_fld. destruct b; [|auto]. destruct (cov_rep mr bs) as [[r bs1]|] eqn:E; cbn [obnd]; [|discriminate].
  rewrite (cov_rep_rd _ _ _ E). auto.
Qed.
Lemma cov_plist_rd c bs x : cov_plist c bs = Some x -> rd_plist c bs = Some x.
Proof.
  unfold cov_plist. destruct (small1 bs); [|discriminate]. destruct (rd_plist c bs) as [[p rest]|]; cbn [obnd]; [|discriminate].
  destruct (N.of_nat (length p) <? lim31); congruence.
Qed.
Lemma cov_real_rd bs x : cov_real bs = Some x -> rd_real bs = Some x.
Proof. unfold cov_real. destruct (small1 bs); [auto|discriminate]. Qed.
Lemma rd_byte_uint bs b r : rd_byte bs = Some (b, r) -> b < 128 -> rd_uint bs = Some (b, r).
Proof. destruct bs as [|b0 t]; cbn; [discriminate|]. intros [= <- <-] H. apply rd_uint_small1. exact H. Qed.

(* ================================================================== per-record lemmas *)
(* the element as the reader holds it before END: names still references, `found` not yet computed *)
Definition welem (e : element) : relem := view_elem (fun r => r) (fun _ => false) e.

Ltac inv1 H :=
  match type of H with
  | obnd ?x _ = Some _ =>
      let E := fresh "E" in
      destruct x as [[? ?]|] eqn:E; cbn [obnd] in H; [|discriminate H]
  end.
Ltac inv_triple H :=
  match type of H with
  | obnd ?x _ = Some _ =>
      let E := fresh "E" in
      destruct x as [[[? ?] ?]|] eqn:E; cbn [obnd] in H; [|discriminate H]
  end.

Lemma with_geom_rel m q l d x y ow oh w h mr cur' :
  modal_rel m q -> orep_rel mr cur' -> orel ow w -> orel oh h ->
  modal_rel (set_g m (mkG (Some l) (Some d) x y ow oh (g_poly (m_g m)) (g_path (m_g m)) (g_hw (m_g m))
                          (g_exs (m_g m)) (g_exe (m_g m)) (g_ctype (m_g m)) (g_rad (m_g m))) mr)
            (with_geom q l d (x, y) w h cur').
Proof. intros [] Hr Hw Hh. constructor; cbn; auto. Qed.

Lemma rect_points_eq x y w h :
  rect_points (x, y) w h = map (padd (x, y)) [ (0, 0)%Z; (Z.of_N w, 0%Z); (Z.of_N w, Z.of_N h); (0%Z, Z.of_N h) ].
Proof. unfold rect_points, padd. cbn [map fst snd]. rewrite !Z.add_0_r. reflexivity. Qed.

Lemma rd_rectangle_ok m q info bs e m' bs' :
  modal_rel m q -> cov_rectangle m (info :: bs) = Some (e, m', bs') ->
  exists q', m_rectangle q info (mkS bs None) = ROk (welem e, q') (mkS bs' None) /\ modal_rel m' q'.
Proof.
  intros R H. unfold cov_rectangle in H. cbn [rd_byte obnd] in H.
  inv1 H. inv1 H. inv1 H. destruct (bit info 7 && bit info 5) eqn:E75; [discriminate|].
  inv1 H. inv1 H. inv1 H. inv_triple H. injection H as <- <- <-.
  destruct (rep_fld_ok _ _ _ _ _ _ _ E5 (mr_rep _ _ R)) as (cur' & Hrep & Hrel).
  exists (with_geom q n n0 (z, z0) n1 n2 cur'). split.
  - unfold m_rectangle, rbind, lift, rret, tb. unfold bit in *.
    rewrite (fld_u32_ok _ _ _ _ _ _ E (mr_layer _ _ R)). cbv beta iota.
    rewrite (fld_u32_ok _ _ _ _ _ _ E0 (mr_dtype _ _ R)). cbv beta iota.
    rewrite (fld_uint_ok _ _ _ _ _ _ E1 (mr_w _ _ R)). cbv beta iota.
    assert (Hh : f_uint (N.testbit info 5) (if N.testbit info 7 then n1 else r_h q) (mkS l1 None) = (n2, mkS l2 None)).
    { destruct (N.testbit info 7) eqn:B7.
      - cbn [andb] in E75. rewrite E75. injection E2 as <- <-. reflexivity.
      - exact (fld_uint_ok _ _ _ _ _ _ E2 (mr_h _ _ R)). }
    rewrite Hh. cbv beta iota.
    rewrite (mr_gpos _ _ R), (mr_abs _ _ R). rewrite (f_xy_ok _ _ _ (g_x (m_g m), g_y (m_g m)) _ _ _ _ _ E3 E4). cbv beta iota.
    rewrite Hrep. cbv beta iota. unfold welem. cbn [view_elem elem_points]. rewrite <- rect_points_eq. reflexivity.
  - apply with_geom_rel; cbn; auto.
Qed.

(* one field of the reader's record function, rewritten with the matching step of the strict decoder *)
Ltac fstep R :=
  cbv beta iota;
  match goal with
  | E : fld ?b rd_u32 ?mv ?bs = Some _ |- context [f_u32 ?b ?cur (mkS ?bs None)] =>
      rewrite (fld_u32_ok b mv cur bs _ _ E
                 ltac:(first [exact (mr_layer _ _ R)|exact (mr_dtype _ _ R)|exact (mr_tlayer _ _ R)|exact (mr_ttype _ _ R)]))
  | E : fld ?b rd_uint ?mv ?bs = Some _ |- context [f_uint ?b ?cur (mkS ?bs None)] =>
      rewrite (fld_uint_ok b mv cur bs _ _ E
                 ltac:(first [exact (mr_w _ _ R)|exact (mr_h _ _ R)|exact (mr_hw _ _ R)|exact (mr_rad _ _ R)]))
  | E1 : pos_fld ?bx ?a ?cx ?bs = Some (?x, ?r1), E2 : pos_fld ?by_ ?a ?cy ?r1 = Some _
    |- context [f_xy ?bx ?by_ _ _ (mkS ?bs None)] =>
      rewrite (f_xy_ok bx by_ a (cx, cy) bs _ _ _ _ E1 E2)
  | H : f_rep ?b ?c (mkS ?bs None) = _ |- context [f_rep ?b ?c (mkS ?bs None)] => rewrite H
  end;
  cbv beta iota.
Ltac start_rec R :=
  unfold rbind, lift, rret, tb; unfold bit in *;
  rewrite ?(mr_gpos _ _ R), ?(mr_tpos _ _ R), ?(mr_ppos _ _ R), ?(mr_abs _ _ R).

Lemma poly_points_eq x y pts :
  map (fun v => padd v (x, y)) ((0, 0)%Z :: pts) = map (padd (x, y)) ((0, 0)%Z :: pts).
Proof. apply map_ext. intros a. apply padd_comm. Qed.

Lemma rd_polygon_ok m q info bs e m' bs' :
  modal_rel m q -> cov_polygon m (info :: bs) = Some (e, m', bs') ->
  exists q', m_polygon q info (mkS bs None) = ROk (welem e, q') (mkS bs' None) /\ modal_rel m' q'.
Proof.
  intros R H. unfold cov_polygon in H. cbn [rd_byte obnd] in H.
  destruct (bit info 7 || bit info 6); [discriminate|].
  inv1 H. inv1 H. inv1 H. inv1 H. inv1 H. inv_triple H. injection H as <- <- <-.
  destruct (rep_fld_ok _ _ _ _ _ _ _ E4 (mr_rep _ _ R)) as (cur' & Hrep & Hrel).
  exists (with_poly (with_geom q n n0 (z, z0) (r_w q) (r_h q) cur') l1). split.
  - unfold m_polygon. start_rec R. fstep R. fstep R.
    rewrite (f_plist_ok _ _ _ _ _ _ _ E1 (mr_poly _ _ R)). fstep R. fstep R. unfold welem. cbn [view_elem elem_points]. rewrite poly_points_eq. reflexivity.
  - destruct R. constructor; cbn; auto.
Qed.

Lemma rd_circle_ok m q info bs e m' bs' :
  modal_rel m q -> cov_circle m (info :: bs) = Some (e, m', bs') ->
  exists q', m_circle q info (mkS bs None) = ROk (welem e, q') (mkS bs' None) /\ modal_rel m' q'.
Proof.
  intros R H. unfold cov_circle in H. cbn [rd_byte obnd] in H.
  destruct (bit info 7 || bit info 6); [discriminate|].
  inv1 H. inv1 H. inv1 H. inv1 H. inv1 H. inv_triple H. injection H as <- <- <-.
  destruct (rep_fld_ok _ _ _ _ _ _ _ E4 (mr_rep _ _ R)) as (cur' & Hrep & Hrel).
  exists (with_rad (with_geom q n n0 (z, z0) (r_w q) (r_h q) cur') n1). split.
  - unfold m_circle. start_rec R. fstep R. fstep R. fstep R. fstep R. fstep R. reflexivity.
  - destruct R. constructor; cbn; auto.
Qed.

Lemma trap_pts_eq vert x y w h da db :
  trap_pts vert (x, y) w h da db = map (padd (x, y)) (trap_points vert (Z.of_N w) (Z.of_N h) da db).
Proof.
  unfold trap_pts, trap_points, padd. cbn [fst snd].
  destruct vert; cbn [map fst snd]; destruct (da <? 0)%Z; destruct (db <? 0)%Z;
    repeat match goal with
           | |- _ :: _ = _ :: _ => apply (f_equal2 (@cons pt))
           | |- (_, _) = (_, _) => apply (f_equal2 (@pair Z Z))
           end; try reflexivity; lia.
Qed.

Lemma rd_trapezoid_ok code m q info bs e m' bs' :
  modal_rel m q -> cov_trapezoid code m (info :: bs) = Some (e, m', bs') ->
  exists q', m_trapezoid code q info (mkS bs None) = ROk (welem e, q') (mkS bs' None) /\ modal_rel m' q'.
Proof.
  intros R H. unfold cov_trapezoid in H. cbn [rd_byte obnd] in H.
  inv1 H. inv1 H. inv1 H. inv1 H. inv1 H. inv1 H. inv1 H. inv1 H. inv_triple H. injection H as <- <- <-.
  destruct (rep_fld_ok _ _ _ _ _ _ _ E7 (mr_rep _ _ R)) as (cur' & Hrep & Hrel).
  exists (with_geom q n n0 (z1, z2) n1 n2 cur'). split.
  - unfold m_trapezoid. start_rec R. fstep R. fstep R. fstep R. fstep R.
    rewrite (f_delta_ok _ _ _ _ E3). cbv beta iota. rewrite (f_delta_ok _ _ _ _ E4).
    fstep R. fstep R. unfold welem. cbn [view_elem elem_points]. rewrite trap_pts_eq. reflexivity.
  - apply with_geom_rel; cbn; auto.
Qed.

(* ---- PATH *)
Lemma ext_fld_ok code hw mv cur bs v r :
  ext_fld code hw mv bs = Some (v, r) -> orel mv cur -> f_ext code hw cur (mkS bs None) = (v, mkS r None).
Proof.
  unfold ext_fld, f_ext. destruct code as [|p]; [|destruct p as [p|p|]; [|destruct p as [p|p|]|]].
  - destruct mv as [a|]; [|discriminate]. intros [= <- <-] H. cbn in H. subst. reflexivity.
  - intros H _. apply s_int_ok. exact H.
  - intros H _. apply s_int_ok. exact H.
  - intros H _. apply s_int_ok. exact H.
  - intros [= <- <-] _. reflexivity.
  - intros [= <- <-] _. reflexivity.
Qed.
Lemma path_points_eq x y pts :
  (x, y) :: map (fun v => padd (x, y) v) pts = map (padd (x, y)) ((0, 0)%Z :: pts).
Proof. cbn [map]. f_equal. unfold padd. cbn [fst snd]. rewrite !Z.add_0_r. reflexivity. Qed.

Lemma rd_path_ok m q info bs e m' bs' :
  modal_rel m q -> cov_path m (info :: bs) = Some (e, m', bs') ->
  exists q', m_path q info (mkS bs None) = ROk (welem e, q') (mkS bs' None) /\ modal_rel m' q'.
Proof.
  intros R H. unfold cov_path in H. cbn [rd_byte obnd] in H.
  inv1 H. inv1 H. inv1 H. inv_triple H. inv1 H.
  destruct (negb (nonempty l3)) eqn:Ene; [discriminate|].
  inv1 H. inv1 H. inv_triple H. injection H as <- <- <-.
  destruct (rep_fld_ok _ _ _ _ _ _ _ E6 (mr_rep _ _ R)) as (cur' & Hrep & Hrel).
  exists (with_path (with_geom q n n0 (z1, z2) (r_w q) (r_h q) cur') l3 n1 z z0). split.
  - unfold m_path. start_rec R. fstep R. fstep R. fstep R.
    assert (He : m_path_ext (N.testbit info 7) n1 (r_exs q) (r_exe q) (mkS l1 None) = ROk (z, z0) (mkS l2 None)).
    { unfold m_path_ext. destruct (N.testbit info 7).
      - destruct l1 as [|sch t1]; cbn [rd_byte obnd] in E2; [discriminate|].
        destruct (16 <=? sch); [discriminate|].
        destruct (ext_fld (N.land (N.shiftr sch 2) 3) n1 (g_exs (m_g m)) t1) as [[u ru]|] eqn:Eu; cbn [obnd] in E2; [|discriminate].
        destruct (ext_fld (N.land sch 3) n1 (g_exe (m_g m)) ru) as [[v rv]|] eqn:Ev; cbn [obnd] in E2; [|discriminate].
        injection E2 as <- <- <-. unfold rbind, lift, rret, rd1. cbn [s_bs s_err].
        rewrite (ext_fld_ok _ _ _ _ _ _ _ Eu (mr_exs _ _ R)). cbv beta iota.
        rewrite (ext_fld_ok _ _ _ _ _ _ _ Ev (mr_exe _ _ R)). reflexivity.
      - pose proof (mr_exs _ _ R) as H1. pose proof (mr_exe _ _ R) as H2.
        destruct (g_exs (m_g m)); [|discriminate]. destruct (g_exe (m_g m)); [|discriminate].
        injection E2 as <- <- <-. cbn in H1, H2. rewrite H1, H2. reflexivity. }
    rewrite He. cbv beta iota. rewrite (f_plist_ok _ _ _ _ _ _ _ E3 (mr_path _ _ R)).
    fstep R. destruct l3 as [|p0 l3]; [discriminate|]. fstep R.
    unfold welem. cbn [view_elem elem_points]. rewrite path_points_eq. reflexivity.
  - destruct R. constructor; cbn; auto.
Qed.

(* ---- TEXT *)
Lemma rd_text_ok m q info bs e m' bs' :
  modal_rel m q -> cov_text m (info :: bs) = Some (e, m', bs') ->
  exists q', m_text q info (mkS bs None) = ROk (welem e, q') (mkS bs' None) /\ modal_rel m' q'.
Proof.
  intros R H. unfold cov_text in H. cbn [rd_byte obnd] in H.
  destruct (bit info 7); [discriminate|].
  inv1 H. inv1 H. inv1 H. inv1 H. inv1 H. inv_triple H. injection H as <- <- <-.
  destruct (rep_fld_ok _ _ _ _ _ _ _ E4 (mr_rep _ _ R)) as (cur' & Hrep & Hrel).
  exists (with_text q (Some n) n0 n1 (z, z0) cur'). split.
  - unfold m_text. start_rec R. rewrite (f_name_ok _ _ _ _ _ _ _ E (mr_tstr _ _ R)).
    fstep R. fstep R. fstep R. fstep R. reflexivity.
  - destruct R. constructor; cbn; auto.
Qed.

(* ---- PLACEMENT *)
Lemma f_oreal_ok (b : bool) bs v r :
  (if b then let? '(x, r0) := cov_real bs in Some (Some x, r0) else Some (None, bs)) = Some (v, r) ->
  f_oreal b (mkS bs None) = (v, mkS r None).
Proof.
  unfold f_oreal. destruct b.
  - destruct (cov_real bs) as [[x r0]|] eqn:E; cbn [obnd]; [|discriminate]. intros [= <- <-].
    rewrite (s_real_ok _ _ _ E). reflexivity.
  - intros [= <- <-]. reflexivity.
Qed.

Lemma rd_placement_ok code m q info bs e m' bs' :
  modal_rel m q -> cov_placement code m (info :: bs) = Some (e, m', bs') ->
  exists q', m_placement code q info (mkS bs None) = ROk (welem e, q') (mkS bs' None) /\ modal_rel m' q'.
Proof.
  intros R H. unfold cov_placement in H. cbn [rd_byte obnd] in H.
  inv1 H. inv1 H. inv1 H. inv1 H. inv_triple H. injection H as <- <- <-.
  destruct (rep_fld_ok _ _ _ _ _ _ _ E3 (mr_rep _ _ R)) as (cur' & Hrep & Hrel).
  exists (with_place q (Some n) (z, z0) cur'). split.
  - unfold m_placement. start_rec R. rewrite (f_name_ok _ _ _ _ _ _ _ E (mr_pcell _ _ R)). cbv beta iota.
    assert (Ht : m_place_tr code info (mkS l None) = ROk p (mkS l0 None)).
    { unfold m_place_tr. destruct (code =? 17); [injection E0 as <- <-; reflexivity|].
      unfold rbind, lift, rret, tb.
      destruct (if N.testbit info 2 then let? '(v, r) := cov_real l in Some (Some v, r) else Some (None, l))
        as [[mag r1]|] eqn:Em; cbn [obnd] in E0; [|discriminate].
      destruct (if N.testbit info 1 then let? '(v, r) := cov_real r1 in Some (Some v, r) else Some (None, r1))
        as [[ang r2]|] eqn:Ea; cbn [obnd] in E0; [|discriminate].
      injection E0 as <- <-. rewrite (f_oreal_ok _ _ _ _ Em). cbv beta iota. rewrite (f_oreal_ok _ _ _ _ Ea). reflexivity. }
    rewrite Ht. fstep R. fstep R. reflexivity.
  - destruct R. constructor; cbn; auto.
Qed.

(* ---- CTRAPEZOID *)
Lemma ctrap_table_eq : GV.Generated.ctrap_table = spec_ctrap_table.
Proof. vm_compute. reflexivity. Qed.

Lemma lt26_cases ty : ty < 26 ->
  In ty [0;1;2;3;4;5;6;7;8;9;10;11;12;13;14;15;16;17;18;19;20;21;22;23;24;25].
Proof.
  intros H. destruct ty as [|p]; [cbn; auto|].
  do 5 (destruct p as [p|p|]; try (cbn; tauto)); exfalso; lia.
Qed.

Lemma ctrap_lookup_spec ty : ty < 26 -> ctrap_lookup GV.Generated.ctrap_table ty = Some (spec_ctrap_vertices ty).
Proof.
  intros H. rewrite ctrap_table_eq. apply lt26_cases in H. cbn [In] in H.
  repeat (destruct H as [<-|H]; [vm_compute; reflexivity|]). destruct H.
Qed.

Lemma dim_fld_ok b uses mv cur bs v r :
  dim_fld b uses mv bs = Some (v, r) -> orel mv cur ->
  exists vr, f_uint b cur (mkS bs None) = (vr, mkS r None) /\ (uses = true -> vr = v).
Proof.
  unfold dim_fld, f_uint. destruct b.
  - intros H _. exists v. split; [apply s_uint_ok; exact H|auto].
  - destruct uses.
    + destruct mv as [a|]; [|discriminate]. intros [= <- <-] H. cbn in H. subst. eauto.
    + intros [= <- <-] _. exists cur. split; [reflexivity|discriminate].
Qed.

Lemma ctrap_eval_eq ty wr hr w0 h0 : ty < 26 ->
  (ctrap_uses_w ty = true -> wr = w0) -> (ctrap_uses_h ty = true -> hr = h0) ->
  map (lfpt_eval (Z.of_N wr) (Z.of_N hr)) (spec_ctrap_vertices ty) =
  map (lfpt_eval (Z.of_N (ctrap_w ty w0 h0)) (Z.of_N (ctrap_h ty w0 h0))) (spec_ctrap_vertices ty).
Proof.
  intros H Hw Hh. apply lt26_cases in H. cbn [In] in H.
  repeat (destruct H as [<-|H];
          [ try (specialize (Hw eq_refl)); try (specialize (Hh eq_refl)); subst;
            cbv [spec_ctrap_vertices htrap vtrap b2z map lfpt_eval lf_eval fst snd ctrap_w ctrap_h
                 N.eqb N.leb N.compare Pos.eqb Pos.compare Pos.compare_cont andb orb];
            repeat match goal with
                   | |- _ :: _ = _ :: _ => apply (f_equal2 (@cons pt))
                   | |- (_, _) = (_, _) => apply (f_equal2 (@pair Z Z))
                   end; try reflexivity; lia |]).
  destruct H.
Qed.

Lemma ctrap_dim_eq ty wr hr w0 h0 : ty < 26 -> ty <> 25 ->
  (ctrap_uses_w ty = true -> wr = w0) -> (ctrap_uses_h ty = true -> hr = h0) ->
  ctrap_dim ty wr hr = (ctrap_w ty w0 h0, ctrap_h ty w0 h0).
Proof.
  intros H H25 Hw Hh. apply lt26_cases in H. cbn [In] in H.
  repeat (destruct H as [<-|H];
          [ try (specialize (Hw eq_refl)); try (specialize (Hh eq_refl)); subst; try congruence; reflexivity |]).
  destruct H.
Qed.

Lemma rd_ctrapezoid_ok any25 m q info bs e m' bs' :
  modal_rel m q -> cov_ctrapezoid_gen any25 m (info :: bs) = Some (e, m', bs') ->
  exists q', m_ctrapezoid q info (mkS bs None) = ROk (welem e, q') (mkS bs' None) /\
             (any25 = false -> modal_rel m' q').
Proof.
  intros R H. unfold cov_ctrapezoid_gen in H. cbn [rd_byte obnd] in H.
  inv1 H. inv1 H. inv1 H.
  destruct ((26 <=? n1) || (negb any25 && (n1 =? 25))) eqn:Ety; [discriminate|].
  apply orb_false_elim in Ety. destruct Ety as [Ety E25]. apply N.leb_gt in Ety.
  inv1 H. inv1 H. inv1 H. inv1 H. inv_triple H. injection H as <- <- <-.
  destruct (rep_fld_ok _ _ _ _ _ _ _ E6 (mr_rep _ _ R)) as (cur' & Hrep & Hrel).
  destruct (dim_fld_ok _ _ _ _ _ _ _ E2 (mr_w _ _ R)) as (wr & Hwr & Hw).
  destruct (dim_fld_ok _ _ _ _ _ _ _ E3 (mr_h _ _ R)) as (hr & Hhr & Hh).
  exists (with_ctype (with_geom q n n0 (z, z0) (fst (ctrap_dim n1 wr hr)) (snd (ctrap_dim n1 wr hr)) cur') n1). split.
  - unfold m_ctrapezoid. start_rec R. fstep R. fstep R.
    rewrite (f_ctype_ok _ _ _ _ _ _ E1 (mr_ctype _ _ R)). cbv beta iota.
    rewrite Hwr. cbv beta iota. rewrite Hhr. fstep R. fstep R.
    destruct (ctrap_dim n1 wr hr) as [w1 h1]. cbn [fst snd]. unfold welem. cbn [view_elem elem_points].
    unfold ctrap_pts. rewrite (ctrap_lookup_spec _ Ety).
    rewrite <- (map_map (lfpt_eval (Z.of_N wr) (Z.of_N hr)) (padd (z, z0))).
    rewrite (ctrap_eval_eq n1 wr hr n2 n3 Ety Hw Hh). rewrite map_map. reflexivity.
  - intros ->. cbn [negb andb] in E25. apply N.eqb_neq in E25.
    rewrite (ctrap_dim_eq n1 wr hr n2 n3 Ety E25 Hw Hh). cbn [fst snd].
    destruct R. constructor; cbn; auto.
Qed.

(* ---- PROPERTY *)
Definition wprop (p : prop) : rprop := view_prop (fun r => r) p.

Lemma s_pval_ok bs v r : cov_pval bs = Some (v, r) -> s_pval (mkS bs None) = ROk (view_val v) (mkS r None).
Proof.
  unfold cov_pval. destruct (small1 bs) eqn:Es; [|discriminate].
  apply small1_cons in Es. destruct Es as (ty & t & -> & Hty).
  unfold rd_pval. rewrite rd_uint_small1 by exact Hty. cbn [obnd].
  unfold s_pval, rd1. cbn [s_bs s_err].
  destruct (ty <? 8) eqn:E8.
  - destruct (rd_real_by ty t) as [[x r0]|] eqn:E; cbn [obnd]; [|discriminate]. intros [= <- <-].
    rewrite (s_real_by_ok _ _ _ _ E). reflexivity.
  - destruct ty as [|p]; [discriminate|].
    repeat (destruct p as [p|p|]; try discriminate);
      first
        [ solve [destruct (rd_uint t) as [[n r0]|] eqn:E; cbn [obnd]; [|discriminate]; intros [= <- <-];
                 rewrite (s_uint_ok _ _ _ E); reflexivity]
        | solve [destruct (rd_int t) as [[n r0]|] eqn:E; cbn [obnd]; [|discriminate]; intros [= <- <-];
                 rewrite (s_int_ok _ _ _ E); reflexivity]
        | solve [destruct (rd_string t) as [[n r0]|] eqn:E; cbn [obnd]; [|discriminate]; intros [= <- <-];
                 unfold rbind; rewrite (s_string_ok false _ _ _ E); reflexivity] ].
Qed.

Lemma s_pvals_ok : forall k fuel bs l r acc,
  rd_n cov_pval k bs = Some (l, r) -> (k <= fuel)%nat ->
  s_pvals fuel (N.of_nat k) acc (mkS bs None) = ROk (rev acc ++ map view_val l) (mkS r None).
Proof.
  induction k as [|k IH]; intros fuel bs l r acc H Hf.
  - cbn [rd_n] in H. injection H as <- <-. cbn [map]. rewrite app_nil_r. destruct fuel; reflexivity.
  - cbn [rd_n] in H. destruct (cov_pval bs) as [[v bs1]|] eqn:E; cbn [obnd] in H; [|discriminate].
    destruct (rd_n cov_pval k bs1) as [[l0 r0]|] eqn:E2; cbn [obnd] in H; [|discriminate].
    injection H as <- <-. destruct fuel as [|f]; [lia|].
    cbn [s_pvals]. replace (N.of_nat (S k) =? 0) with false by (symmetry; apply N.eqb_neq; lia).
    cbn [s_bs s_err]. rewrite (s_pval_ok _ _ _ E).
    replace (N.of_nat (S k) - 1) with (N.of_nat k) by lia.
    assert (Hm : match bs with [] => s_pvals f (N.of_nat k) (view_val v :: acc) (mkS bs1 None)
                          | _ :: _ => s_pvals f (N.of_nat k) (view_val v :: acc) (mkS bs1 None) end
                 = ROk (rev acc ++ map view_val (v :: l0)) (mkS r0 None)).
    { rewrite (IH f bs1 l0 r0 (view_val v :: acc) E2) by lia. cbn [rev map]. rewrite <- app_assoc.
      destruct bs; reflexivity. }
    destruct bs; exact Hm.
Qed.

Lemma m_prop_vals_ok info m q bs vs r :
  modal_rel m q ->
  (if bit info 3 then
     if 0 <? N.shiftr info 4 then None
     else match m_pvals m with Some v => Some (v, bs) | None => None end
   else
     let u := N.shiftr info 4 in
     let? '(cnt, bs) := (if u =? 15 then rd_uint bs else Some (u, bs)) in
     rd_count cov_pval cnt bs) = Some (vs, r) ->
  m_prop_vals info (r_pvals q) (mkS bs None) = ROk (map view_val vs) (mkS r None).
Proof.
  intros R. unfold m_prop_vals, tb, bit. destruct (N.testbit info 3).
  - destruct (0 <? N.shiftr info 4); [discriminate|].
    pose proof (mr_pvals _ _ R) as Hv. destruct (m_pvals m); [|discriminate]. intros [= <- <-]. rewrite Hv. reflexivity.
  - cbv zeta. unfold rbind, lift, rret.
    destruct (N.shiftr info 4 =? 15).
    + destruct (rd_uint bs) as [[cnt bs1]|] eqn:E; cbn [obnd]; [|discriminate]. intros H.
      rewrite (s_uint_ok _ _ _ E). cbn [s_bs]. unfold rd_count in H.
      destruct (N.of_nat (length bs1) <? cnt) eqn:El; [discriminate|]. apply N.ltb_ge in El.
      rewrite <- (N2Nat.id cnt). rewrite (s_pvals_ok _ _ _ _ _ [] H) by lia. reflexivity.
    + cbn [obnd]. intros H. cbn [s_bs]. unfold rd_count in H.
      destruct (N.of_nat (length bs) <? N.shiftr info 4) eqn:El; [discriminate|]. apply N.ltb_ge in El.
      rewrite <- (N2Nat.id (N.shiftr info 4)). rewrite (s_pvals_ok _ _ _ _ _ [] H) by lia. reflexivity.
Qed.

Lemma with_prop_rel m q nm vs :
  modal_rel m q ->
  modal_rel (mkM (m_abs m) (m_rep m) (m_g m) (m_t m) (m_p m) (Some nm) (Some vs))
            (with_prop q (Some (fst nm)) (map view_val vs)).
Proof. intros []. constructor; cbn; auto. Qed.

(* LAST_PROPERTY: info = 0x08 *)
Lemma rd_last_property_ok m q bs p m' bs' :
  modal_rel m q -> cov_property 29 m bs = Some (p, m', bs') ->
  exists q', m_property q 8 (mkS bs None) = ROk (wprop p, q') (mkS bs' None) /\ modal_rel m' q'.
Proof.
  intros R H. unfold cov_property in H. cbn [N.eqb Pos.eqb] in H.
  pose proof (mr_pname _ _ R) as Hn. pose proof (mr_pvals _ _ R) as Hv.
  destruct (m_pname m) as [[n sd]|] eqn:En; [|discriminate]. destruct (m_pvals m) as [vs|] eqn:Evs; [|discriminate].
  injection H as <- <- <-. cbn [fst] in Hn.
  exists (with_prop q (Some n) (map view_val vs)). split.
  - unfold m_property, f_name, m_prop_vals, rbind, rret, tb.
    change (N.testbit 8 2) with false. change (N.testbit 8 3) with true. cbv beta iota.
    rewrite Hn, Hv. reflexivity.
  - destruct R. constructor; cbn; auto; try (rewrite En; cbn; auto); try (rewrite Evs; auto).
Qed.

Lemma rd_property_ok m q info bs p m' bs' :
  modal_rel m q -> cov_property 28 m (info :: bs) = Some (p, m', bs') ->
  exists q', m_property q info (mkS bs None) = ROk (wprop p, q') (mkS bs' None) /\ modal_rel m' q'.
Proof.
  intros R H. unfold cov_property in H. cbn [N.eqb Pos.eqb rd_byte obnd] in H.
  destruct (if bit info 2
            then let? '(n, r) := rd_nref (bit info 1) bs in Some (n, bit info 0, r)
            else match m_pname m with Some v => Some (v, bs) | None => None end) as [[nm bs1]|] eqn:En;
    cbn [obnd] in H; [|discriminate].
  match type of H with obnd ?x _ = _ => destruct x as [[vs bs2]|] eqn:Ev end; cbn [obnd] in H; [|discriminate].
  injection H as <- <- <-.
  exists (with_prop q (Some (fst nm)) (map view_val vs)). split.
  - unfold m_property, rbind, rret.
    assert (Hname : f_name (tb info 2) (tb info 1) (r_pname q) (mkS bs None) = ROk (fst nm, Some (fst nm)) (mkS bs1 None)).
    { unfold f_name, tb, bit in *. destruct (N.testbit info 2).
      - destruct (rd_nref (N.testbit info 1) bs) as [[n r]|] eqn:E; cbn [obnd] in En; [|discriminate].
        injection En as <- <-. unfold rbind, rret. rewrite (f_nref_ok _ _ _ _ E). reflexivity.
      - pose proof (mr_pname _ _ R) as Hn. destruct (m_pname m) as [v|]; [|discriminate].
        injection En as <- <-. rewrite Hn. reflexivity. }
    rewrite Hname. cbv beta iota. rewrite (m_prop_vals_ok _ _ _ _ _ _ R Ev). reflexivity.
  - apply with_prop_rel. exact R.
Qed.

(* ================================================================== the covered decoder is a restriction of the strict one *)
Ltac rsplit := repeat match goal with p : (_ * _)%type |- _ => destruct p end.
Ltac rstep H :=
  cbv zeta in H; cbv zeta;
  match type of H with
  | obnd ?x _ = Some _ =>
      let E := fresh "E" in
      destruct x eqn:E; cbn [obnd] in H; [|discriminate H]; rsplit;
      first [ rewrite E
            | rewrite (fld_mono _ _ _ _ _ _ rd_u32_uint E)
            | rewrite (fld_mono _ _ _ _ _ _ (cov_plist_rd _) E)
            | rewrite (cov_rep_fld_rd _ _ _ _ E)
            | idtac ];
      cbn [obnd]
  | (if ?c then None else _) = Some _ => destruct c eqn:?; [discriminate H|]
  end.
Ltac rdone H := injection H as <- <- <-; reflexivity.

Lemma cov_rectangle_spec m bs x : cov_rectangle m bs = Some x -> dec_rectangle m bs = Some x.
Proof.
  destruct x as [[e m'] bs']. intros H. unfold cov_rectangle in H. unfold dec_rectangle.
  do 5 rstep H.
  do 4 rstep H. rdone H.
Qed.
Lemma cov_polygon_spec m bs x : cov_polygon m bs = Some x -> dec_polygon m bs = Some x.
Proof.
  destruct x as [[e m'] bs']. intros H. unfold cov_polygon in H. unfold dec_polygon.
  do 8 rstep H. rdone H.
Qed.
Lemma cov_circle_spec m bs x : cov_circle m bs = Some x -> dec_circle m bs = Some x.
Proof.
  destruct x as [[e m'] bs']. intros H. unfold cov_circle in H. unfold dec_circle.
  do 8 rstep H. rdone H.
Qed.
Lemma cov_trapezoid_spec code m bs x : cov_trapezoid code m bs = Some x -> dec_trapezoid code m bs = Some x.
Proof.
  destruct x as [[e m'] bs']. intros H. unfold cov_trapezoid in H. unfold dec_trapezoid.
  do 10 rstep H. rdone H.
Qed.
Lemma cov_text_spec m bs x : cov_text m bs = Some x -> dec_text m bs = Some x.
Proof.
  destruct x as [[e m'] bs']. intros H. unfold cov_text in H. unfold dec_text.
  do 8 rstep H. rdone H.
Qed.

Lemma cov_path_spec m bs x : cov_path m bs = Some x -> dec_path m bs = Some x.
Proof.
  destruct x as [[e m'] bs']. intros H. unfold cov_path in H. unfold dec_path.
  do 4 rstep H.
  (* the extension scheme: one byte below 16 *)
  cbv zeta in H; cbv zeta.
  match type of H with obnd ?x _ = _ => destruct x as [[[es ee] be]|] eqn:Ee end; cbn [obnd] in H; [|discriminate].
  assert (Ee' : (if bit n 7
                 then let? '(sch, bs) := rd_uint l2 in
                      if 16 <=? sch then None else
                      let? '(es, bs) := ext_fld (N.land (N.shiftr sch 2) 3) n2 (g_exs (m_g m)) bs in
                      let? '(ee, bs) := ext_fld (N.land sch 3) n2 (g_exe (m_g m)) bs in Some (es, ee, bs)
                 else match g_exs (m_g m), g_exe (m_g m) with Some a, Some b => Some (a, b, l2) | _, _ => None end)
                = Some (es, ee, be)).
  { destruct (bit n 7); [|exact Ee].
    destruct (rd_byte l2) as [[sch t]|] eqn:Es; cbn [obnd] in Ee; [|discriminate].
    destruct (16 <=? sch) eqn:E16; [discriminate|]. apply N.leb_gt in E16.
    rewrite (rd_byte_uint _ _ _ Es) by lia. cbn [obnd]. replace (16 <=? sch) with false by (symmetry; apply N.leb_gt; lia).
    exact Ee. }
  rewrite Ee'. cbn [obnd]. rstep H. rstep H. do 3 rstep H. rdone H.
Qed.

Lemma cov_ctrapezoid_spec any25 m bs x : cov_ctrapezoid_gen any25 m bs = Some x -> dec_ctrapezoid m bs = Some x.
Proof.
  destruct x as [[e m'] bs']. intros H. unfold cov_ctrapezoid_gen in H. unfold dec_ctrapezoid.
  do 3 rstep H. cbv zeta in H; cbv zeta.
  match type of H with obnd ?x _ = _ => destruct x as [[ty bt]|] eqn:Et end; cbn [obnd] in H; [|discriminate].
  destruct ((26 <=? ty) || (negb any25 && (ty =? 25))) eqn:Ety; [discriminate|].
  apply orb_false_elim in Ety. destruct Ety as [Ety _].
  assert (Et' : fld (bit n 7) rd_uint (g_ctype (m_g m)) l1 = Some (ty, bt)).
  { unfold fld in *. destruct (bit n 7); [|exact Et]. apply rd_byte_uint; [exact Et|]. apply N.leb_gt in Ety. lia. }
  rewrite Et'. cbn [obnd]. rewrite Ety. do 5 rstep H. rdone H.
Qed.

Lemma cov_placement_spec code m bs x : cov_placement code m bs = Some x -> dec_placement code m bs = Some x.
Proof.
  destruct x as [[e m'] bs']. intros H. unfold cov_placement in H. unfold dec_placement.
  do 2 rstep H. cbv zeta in H; cbv zeta.
  match type of H with obnd ?x _ = _ => destruct x as [[tr bt]|] eqn:Et end; cbn [obnd] in H; [|discriminate].
  assert (Et' : (if code =? 17 then Some (PT_quarter (N.land (N.shiftr n 1) 3), l0)
                 else let? '(mag, bs) := (if bit n 2 then let? '(v, r) := rd_real l0 in Some (Some v, r) else Some (None, l0)) in
                      let? '(ang, bs) := (if bit n 1 then let? '(v, r) := rd_real bs in Some (Some v, r) else Some (None, bs)) in
                      Some (PT_general mag ang, bs)) = Some (tr, bt)).
  { destruct (code =? 17); [exact Et|].
    destruct (if bit n 2 then let? '(v, r) := cov_real l0 in Some (Some v, r) else Some (None, l0)) as [[mag r1]|] eqn:Em;
      cbn [obnd] in Et; [|discriminate].
    assert (Em' : (if bit n 2 then let? '(v, r) := rd_real l0 in Some (Some v, r) else Some (None, l0)) = Some (mag, r1)).
    { destruct (bit n 2); [|exact Em]. destruct (cov_real l0) as [[v r]|] eqn:Ec; cbn [obnd] in Em; [|discriminate].
      rewrite (cov_real_rd _ _ Ec). exact Em. }
    rewrite Em'. cbn [obnd].
    destruct (if bit n 1 then let? '(v, r) := cov_real r1 in Some (Some v, r) else Some (None, r1)) as [[ang r2]|] eqn:Ea;
      cbn [obnd] in Et; [|discriminate].
    assert (Ea' : (if bit n 1 then let? '(v, r) := rd_real r1 in Some (Some v, r) else Some (None, r1)) = Some (ang, r2)).
    { destruct (bit n 1); [|exact Ea]. destruct (cov_real r1) as [[v r]|] eqn:Ec; cbn [obnd] in Ea; [|discriminate].
      rewrite (cov_real_rd _ _ Ec). exact Ea. }
    rewrite Ea'. cbn [obnd]. exact Et. }
  rewrite Et'. cbn [obnd]. do 3 rstep H. rdone H.
Qed.

Lemma rd_n_mono {A} (rd1 rd2 : list N -> option (A * list N)) :
  (forall bs y, rd1 bs = Some y -> rd2 bs = Some y) ->
  forall k bs y, rd_n rd1 k bs = Some y -> rd_n rd2 k bs = Some y.
Proof.
  intros Hm. induction k as [|k IH]; intros bs y H; cbn [rd_n] in *; [exact H|].
  destruct (rd1 bs) as [[a bs1]|] eqn:E; cbn [obnd] in H; [|discriminate]. rewrite (Hm _ _ E). cbn [obnd].
  destruct (rd_n rd1 k bs1) as [[l r]|] eqn:E2; cbn [obnd] in H; [|discriminate]. rewrite (IH _ _ E2). exact H.
Qed.
Lemma rd_count_mono {A} (rd1 rd2 : list N -> option (A * list N)) n bs y :
  (forall bs y, rd1 bs = Some y -> rd2 bs = Some y) -> rd_count rd1 n bs = Some y -> rd_count rd2 n bs = Some y.
Proof. intros Hm. unfold rd_count. destruct (N.of_nat (length bs) <? n); [discriminate|]. apply rd_n_mono. exact Hm. Qed.
Lemma cov_pval_rd bs y : cov_pval bs = Some y -> rd_pval bs = Some y.
Proof. unfold cov_pval. destruct (small1 bs); [auto|discriminate]. Qed.

Lemma cov_property_spec code m bs x : cov_property code m bs = Some x -> dec_property code m bs = Some x.
Proof.
  destruct x as [[p m'] bs']. intros H. unfold cov_property in H. unfold dec_property.
  destruct (code =? 29); [exact H|].
  do 2 rstep H. cbv zeta in H; cbv zeta.
  match type of H with obnd ?x _ = _ => destruct x as [[vs bv]|] eqn:Ev end; cbn [obnd] in H; [|discriminate].
  assert (Ev' : (if bit n 3
                 then if 0 <? N.shiftr n 4 then None else match m_pvals m with Some v => Some (v, l0) | None => None end
                 else let? '(cnt, bs) := (if N.shiftr n 4 =? 15 then rd_uint l0 else Some (N.shiftr n 4, l0)) in
                      rd_count rd_pval cnt bs) = Some (vs, bv)).
  { destruct (bit n 3); [exact Ev|].
    destruct (if N.shiftr n 4 =? 15 then rd_uint l0 else Some (N.shiftr n 4, l0)) as [[cnt bc]|]; cbn [obnd] in *; [|discriminate].
    apply (rd_count_mono cov_pval rd_pval); [exact cov_pval_rd|exact Ev]. }
  rewrite Ev'. cbn [obnd]. rdone H.
Qed.

Lemma cov_record_id ois d id t r : cov_record ois d (id :: t) = Some r -> id < 30.
Proof.
  unfold cov_record. cbn [rd_byte obnd]. destruct id as [|p]; [lia|].
  repeat (destruct p as [p|p|]; try discriminate); intros _; lia.
Qed.

Lemma cov_add_name_spec d which ex bs y : cov_add_name d which ex bs = Some y -> add_name d which ex bs = Some y.
Proof.
  unfold cov_add_name. destruct (add_name d which ex bs) as [[d1 bs1]|]; cbn [obnd]; [|discriminate].
  destruct ex; [|auto]. destruct (rd_string bs) as [[s r]|]; [|discriminate].
  destruct (rd_uint r) as [[k r2]|]; [|discriminate]. destruct (k <? lim26); [auto|discriminate].
Qed.
Lemma cov_finalize_spec d l : cov_finalize d = Some l -> finalize d = Some l.
Proof. unfold cov_finalize. destruct (omap _ _); cbn [obnd]; [auto|discriminate]. Qed.
Lemma cov_elem_step_spec d r1 r2 y :
  (forall x, r1 = Some x -> r2 = Some x) -> cov_elem_step d r1 = Some y -> elem_step d r2 = Some y.
Proof.
  intros Hm. unfold cov_elem_step, elem_step. destruct r1 as [[[e m] bs]|]; cbn [obnd]; [|discriminate].
  rewrite (Hm _ eq_refl). cbn [obnd]. auto.
Qed.

Lemma cov_record_spec ois d bs r : cov_record ois d bs = Some r -> dec_record ois d bs = Some r.
Proof.
  intros H. destruct bs as [|id t]; [discriminate|].
  pose proof (cov_record_id _ _ _ _ _ H) as Hid.
  unfold cov_record in H. unfold dec_record. cbn [rd_byte obnd] in H. rewrite rd_uint_small1 by lia. cbn [obnd].
  destruct id as [|p]; [exact H|].
  repeat (destruct p as [p|p|]; try (exfalso; lia));
    first
      [ exact H
      | (* names *)
        solve [match type of H with obnd (cov_add_name ?d ?w ?e ?b) _ = _ =>
                 destruct (cov_add_name d w e b) as [[d' b']|] eqn:E; cbn [obnd] in H; [|discriminate];
                 rewrite (cov_add_name_spec _ _ _ _ _ E); exact H end]
      | (* END *)
        solve [destruct (end_ok ois t); [|discriminate];
               destruct (cov_finalize d) as [l|] eqn:E; cbn [obnd] in H; [|discriminate];
               rewrite (cov_finalize_spec _ _ E); exact H]
      | (* CELL by number *)
        solve [destruct (rd_uint t) as [[n b]|]; cbn [obnd] in *; [|discriminate];
               destruct (existsb (cell_has_num n) (d_cells d)); [discriminate|exact H]]
      | (* elements *)
        solve [eapply cov_elem_step_spec; [|exact H]; intros x Hx;
               first [ apply cov_placement_spec | apply cov_text_spec | apply cov_rectangle_spec | apply cov_polygon_spec
                     | apply cov_path_spec | apply cov_trapezoid_spec | apply (cov_ctrapezoid_spec false)
                     | apply cov_circle_spec ]; exact Hx]
      | (* properties *)
        solve [match type of H with obnd (cov_property ?c ?m ?b) _ = _ =>
                 destruct (cov_property c m b) as [[[p0 m0] b0]|] eqn:E; cbn [obnd] in H; [|discriminate];
                 rewrite (cov_property_spec _ _ _ _ E); cbn [obnd];
                 unfold cov_add_prop in H; destruct (d_target d); try discriminate; exact H end] ].
Qed.

Lemma cov_loop_spec : forall f ois d bs L, cov_loop f ois d bs = Some L -> dec_loop f ois d bs = Some L.
Proof.
  induction f as [|f IH]; intros ois d bs L H; [discriminate|]. cbn [cov_loop dec_loop] in *.
  destruct (cov_record ois d bs) as [[l|d' bs']|] eqn:E; [| |discriminate]; rewrite (cov_record_spec _ _ _ _ E).
  - exact H.
  - apply IH. exact H.
Qed.

Theorem cov_refines_spec_lemma : forall bs L, cov_oas_decode bs = Some L -> spec_oas_decode bs = Some L.
Proof.
  intros bs L H. unfold cov_oas_decode in H. unfold spec_oas_decode.
  destruct (strip_prefix magic bs) as [b1|]; cbn [obnd] in *; [|discriminate].
  destruct (rd_byte b1) as [[id b2]|] eqn:Eid; cbn [obnd] in H; [|discriminate].
  destruct (negb (id =? 1)) eqn:E1; [discriminate|].
  assert (Hid : id = 1) by (apply negb_false_iff in E1; apply N.eqb_eq in E1; exact E1).
  rewrite (rd_byte_uint _ _ _ Eid) by lia. cbn [obnd]. rewrite E1.
  destruct (rd_string b2) as [[v b3]|]; cbn [obnd] in *; [|discriminate].
  destruct (strip_prefix version_1_0 v); cbn [obnd] in *; [|discriminate].
  destruct (negb (length v =? 3)%nat); [discriminate|].
  destruct (cov_real b3) as [[u b4]|] eqn:Eu; cbn [obnd] in H; [|discriminate].
  rewrite (cov_real_rd _ _ Eu). cbn [obnd].
  destruct (rd_uint b4) as [[flag b5]|]; cbn [obnd] in *; [|discriminate].
  destruct (1 <? flag); [discriminate|].
  destruct (if flag =? 0 then rd_count rd_uint 12 b5 else Some ([], b5)) as [[o b6]|]; cbn [obnd] in *; [|discriminate].
  apply cov_loop_spec. exact H.
Qed.

(* ================================================================== file level: the state of the strict decoder vs the reader *)
Definition wcell (c : cell) : rcell :=
  mkGC (c_name c) (map wprop (c_props c)) (map (fun ep => (welem (fst ep), map wprop (snd ep))) (c_elems c)).

Definition te_ok (nul : bool) (e : tentry) (s : list N) : Prop :=
  if nul then te_bytes e = Some s else match te_bytes e with Some b => b = s | None => s = [] end.
Definition tab_rel (nul : bool) (t : table) (rt : rtable) : Prop :=
  forall k s, lookup t k = Some s -> exists e, tab_get rt k = Some e /\ te_ok nul e s.
Definition props_empty (rt : rtable) : Prop := forall ke, In ke (t_items rt) -> te_props (snd ke) = [].
Definition target_rel (tg : ptarget) (rt : rtarget) : Prop :=
  match tg with
  | T_lib => rt = RT_lib | T_cell => rt = RT_cell | T_elem => rt = RT_elem
  | T_cellname n => rt = RT_name 0 n
  | T_other => True
  end.
(* reference numbers of the cells declared by number: (c7) keeps them distinct *)
Definition nums (l : list cell) : list N :=
  flat_map (fun c => match c_name c with NNum k => [k] | NName _ => [] end) l.
Definition next_of (d : dstate) (w : N) : N :=
  match w with 0 => d_cn_next d | 1 => d_ts_next d | 2 => d_pn_next d | _ => d_ps_next d end.
Definition table_of (d : dstate) (w : N) : table :=
  match w with 0 => d_cellnames d | 1 => d_textstrings d | 2 => d_propnames d | _ => d_propstrings d end.

Record srel (d : dstate) (st : rstate) : Prop := mkSR {
  sr_modal : modal_rel (d_modal d) (q_modal st);
  sr_unit : q_unit st = d_unit d;
  sr_lprops : q_lprops st = map wprop (d_lprops d);
  sr_cells : q_cells st = map wcell (d_cells d);
  sr_target : target_rel (d_target d) (q_target st);
  sr_tgdef : match d_target d with T_cellname n => lookup (d_cellnames d) n <> None | _ => True end;
  sr_cn : tab_rel true (d_cellnames d) (q_cn st);
  sr_ts : tab_rel true (d_textstrings d) (q_ts st);
  sr_pn : tab_rel true (d_propnames d) (q_pn st);
  sr_ps : tab_rel false (d_propstrings d) (q_ps st);
  sr_next : forall w, w < 4 -> mode_get (d_table_mode d) w <> 2 -> next_of d w = t_count (get_table st w);
  sr_cnprops : forall k s e, lookup (d_cellnames d) k = Some s -> tab_get (q_cn st) k = Some e ->
               te_props e = map wprop (cn_props_of (d_cn_props d) k);
  sr_cnkeys : forall n p, In (n, p) (d_cn_props d) -> lookup (d_cellnames d) n <> None;
  sr_cnall : forall ke p, In ke (t_items (q_cn st)) -> In p (te_props (snd ke)) ->
             exists n p0, In (n, p0) (d_cn_props d) /\ p = wprop p0;
  sr_ts_e : props_empty (q_ts st);
  sr_pn_e : props_empty (q_pn st);
  sr_ps_e : props_empty (q_ps st);
  sr_nodup : NoDup (nums (d_cells d))
}.

Lemma modal0_rel q :
  modal_rel modal0
    (mkRM true (r_layer q) (r_dtype q) (r_tlayer q) (r_ttype q) (0, 0)%Z (0, 0)%Z (0, 0)%Z (r_w q) (r_h q) (r_rep q)
          (r_text q) (r_pcell q) (r_poly q) (r_path q) (r_hw q) (r_exs q) (r_exe q) (r_ctype q) (r_rad q)
          (r_pname q) (r_pvals q)).
Proof. constructor; cbn; auto. Qed.

Lemma skip_interval_ok bs r : skip_interval bs = Some r -> skip_interval_r (mkS bs None) = mkS r None.
Proof.
  unfold skip_interval, skip_interval_r. destruct (rd_uint bs) as [[ty b1]|] eqn:E; cbn [obnd]; [|discriminate].
  rewrite (s_uint_ok _ _ _ E).
  destruct ty as [|p]; [intros [= <-]; reflexivity|].
  repeat (destruct p as [p|p|]; try discriminate).
  - destruct (rd_uint b1) as [[a b2]|] eqn:E1; cbn [obnd]; [|discriminate]. intros [= <-].
    cbn [N.ltb N.compare N.eqb Pos.eqb]. rewrite (s_uint_ok _ _ _ E1). reflexivity.
  - destruct (rd_uint b1) as [[a b2]|] eqn:E1; cbn [obnd]; [|discriminate].
    destruct (rd_uint b2) as [[a2 b3]|] eqn:E2; cbn [obnd]; [|discriminate]. intros [= <-].
    cbn [N.ltb N.compare N.eqb Pos.eqb]. rewrite (s_uint_ok _ _ _ E1). cbn [snd]. rewrite (s_uint_ok _ _ _ E2). reflexivity.
  - destruct (rd_uint b1) as [[a b2]|] eqn:E1; cbn [obnd]; [|discriminate]. intros [= <-].
    cbn [N.ltb N.compare N.eqb Pos.eqb]. rewrite (s_uint_ok _ _ _ E1). reflexivity.
  - destruct (rd_uint b1) as [[a b2]|] eqn:E1; cbn [obnd]; [|discriminate]. intros [= <-].
    cbn [N.ltb N.compare N.eqb Pos.eqb]. rewrite (s_uint_ok _ _ _ E1). reflexivity.
Qed.

Definition plain_target (tg : ptarget) : Prop := match tg with T_cellname _ => False | _ => True end.

Lemma srel_upd_cells d st m q cs tg rtg :
  srel d st -> modal_rel m q -> target_rel tg rtg -> plain_target tg -> NoDup (nums cs) ->
  srel (upd_cells d m cs tg) (set_cells st q (map wcell cs) rtg).
Proof.
  intros [] Hm Ht Hp Hnd. constructor; cbn; auto.
  destruct tg; auto.
Qed.

Lemma srel_upd_modal d st m q :
  srel d st -> modal_rel m q -> srel (upd_modal d m (d_target d)) (set_modal st q).
Proof.
  intros [] Hm. constructor; cbn; auto.
Qed.

Lemma srel_upd_other d st m q rtg :
  srel d st -> modal_rel m q -> srel (upd_modal d m T_other) (set_target (set_modal st q) rtg).
Proof.
  intros [] Hm. constructor; cbn; auto.
Qed.

Section ElemStep.
  Variable cov : modal -> list N -> option (element * modal * list N).
  Variable rec : rmodal -> N -> M (relem * rmodal).
  Hypothesis rec_ok : forall m q info bs e m' bs', modal_rel m q -> cov m (info :: bs) = Some (e, m', bs') ->
    exists q', rec q info (mkS bs None) = ROk (welem e, q') (mkS bs' None) /\ modal_rel m' q'.
  Hypothesis cov_nil : forall m, cov m [] = None.

  Lemma elem_step_ok ptrs d st t d' bs' :
    srel d st -> cov_elem_step d (cov (d_modal d) t) = Some (Cont d' bs') ->
    exists st', h_element ptrs st rec (mkS t None) = H_cont st' (mkS bs' None) /\ srel d' st'.
  Proof.
    intros R H. unfold cov_elem_step in H.
    destruct (cov (d_modal d) t) as [[[e m'] b]|] eqn:E; cbn [obnd] in H; [|discriminate].
    unfold add_elem in H. destruct (d_cells d) as [|c cs] eqn:Ec; cbn [obnd] in H; [discriminate|].
    injection H as <- <-.
    destruct t as [|info t]; [rewrite cov_nil in E; discriminate|].
    destruct (rec_ok _ _ _ _ _ _ _ (sr_modal _ _ R) E) as (q' & Hrec & Hrel).
    pose proof (sr_cells _ _ R) as Hc. rewrite Ec in Hc. cbn [map] in Hc.
    exists (add_elem_r st (welem e) q'). split.
    - unfold h_element. rewrite Hc. unfold rd1. cbn [s_bs s_err]. rewrite Hrec. reflexivity.
    - unfold add_elem_r. rewrite Hc. cbn [wcell gc_name gc_props gc_elems].
      change (mkGC (c_name c) (map wprop (c_props c))
                ((welem e, []) :: map (fun ep => (welem (fst ep), map wprop (snd ep))) (c_elems c)) :: map wcell cs)
        with (map wcell (mkCell (c_name c) (c_props c) ((e, []) :: c_elems c) :: cs)).
      apply srel_upd_cells; cbn; auto.
      pose proof (sr_nodup _ _ R) as Hnd. rewrite Ec in Hnd. exact Hnd.
  Qed.
End ElemStep.

(* ---- properties *)
Lemma assoc_get_In : forall l k e, assoc_get l k = Some e -> In (k, e) l.
Proof.
  induction l as [|[k' e'] l IH]; intros k e H; cbn [assoc_get] in H; [discriminate|].
  destruct (k' =? k) eqn:E.
  - apply N.eqb_eq in E. injection H as <-. subst. left. reflexivity.
  - right. apply IH. exact H.
Qed.
Lemma tab_get_In t k e : tab_get t k = Some e -> e = filler \/ In (k, e) (t_items t).
Proof.
  unfold tab_get. destruct (k <? t_count t); [|discriminate]. intros [= <-].
  destruct (assoc_get (t_items t) k) as [e0|] eqn:E; [right; apply assoc_get_In; exact E|left; reflexivity].
Qed.
Lemma tab_get_cons_same t k e0 : k <? t_count t = true -> tab_get (mkTab (t_count t) ((k, e0) :: t_items t)) k = Some e0.
Proof. intros H. unfold tab_get. cbn [t_count t_items assoc_get]. rewrite H, N.eqb_refl. reflexivity. Qed.
Lemma tab_get_cons_other t k k' e0 : k' <> k -> tab_get (mkTab (t_count t) ((k', e0) :: t_items t)) k = tab_get t k.
Proof.
  intros H. unfold tab_get. cbn [t_count t_items assoc_get].
  replace (k' =? k) with false by (symmetry; apply N.eqb_neq; exact H). reflexivity.
Qed.
Lemma tab_get_lt t k e : tab_get t k = Some e -> k <? t_count t = true.
Proof. unfold tab_get. destruct (k <? t_count t); [auto|discriminate]. Qed.

Lemma cn_props_of_cons_same n p l : cn_props_of ((n, p) :: l) n = p :: cn_props_of l n.
Proof. unfold cn_props_of. cbn [filter fst]. rewrite N.eqb_refl. reflexivity. Qed.
Lemma cn_props_of_cons_other n p l k : n <> k -> cn_props_of ((n, p) :: l) k = cn_props_of l k.
Proof. intros H. unfold cn_props_of. cbn [filter fst]. replace (n =? k) with false by (symmetry; apply N.eqb_neq; exact H). reflexivity. Qed.

Ltac proj_simpl :=
  cbn [d_modal d_unit d_lprops d_cells d_target d_cellnames d_cn_next d_cn_props d_textstrings d_ts_next d_propnames
       d_pn_next d_propstrings d_ps_next d_table_mode q_modal q_unit q_lprops q_cells q_target q_cn q_ts q_pn q_ps
       upd_modal upd_cells set_modal set_target set_cells].
Lemma w4_cases w : w < 4 -> w = 0 \/ w = 1 \/ w = 2 \/ w = 3.
Proof. lia. Qed.

Lemma prop_step_ok d st p m' q' d' :
  srel d st -> modal_rel m' q' -> cov_add_prop d p m' = Some d' -> srel d' (add_prop_r st (wprop p) q').
Proof.
  intros R Hm H. unfold cov_add_prop, add_prop in H. unfold add_prop_r.
  pose proof (sr_target _ _ R) as Ht. pose proof (sr_tgdef _ _ R) as Hd. pose proof (sr_cells _ _ R) as Hc.
  destruct (d_target d) as [| | |n|] eqn:Etg; cbn [target_rel] in Ht; try discriminate; try rewrite Ht.
  - (* library *) injection H as <-. destruct R. constructor; cbn; auto. rewrite sr_lprops0. reflexivity.
  - (* cell *) destruct (d_cells d) as [|c cs] eqn:Ec; [discriminate|]. injection H as <-.
    rewrite Hc. cbn [map wcell gc_name gc_props gc_elems].
    change (mkGC (c_name c) (wprop p :: map wprop (c_props c))
              (map (fun ep => (welem (fst ep), map wprop (snd ep))) (c_elems c)) :: map wcell cs)
      with (map wcell (mkCell (c_name c) (p :: c_props c) (c_elems c) :: cs)).
    apply srel_upd_cells; cbn; auto.
    pose proof (sr_nodup _ _ R) as Hnd. rewrite Ec in Hnd. exact Hnd.
  - (* element *) destruct (d_cells d) as [|c cs] eqn:Ec; [discriminate|].
    destruct (c_elems c) as [|[e ps] es] eqn:Ee; [discriminate|]. injection H as <-.
    rewrite Hc. cbn [map wcell gc_name gc_props gc_elems]. rewrite Ee. cbn [map fst snd].
    change (mkGC (c_name c) (map wprop (c_props c))
              ((welem e, wprop p :: map wprop ps) :: map (fun ep => (welem (fst ep), map wprop (snd ep))) es) :: map wcell cs)
      with (map wcell (mkCell (c_name c) (c_props c) ((e, p :: ps) :: es) :: cs)).
    apply srel_upd_cells; cbn; auto.
    pose proof (sr_nodup _ _ R) as Hnd. rewrite Ec in Hnd. exact Hnd.
  - (* cell name *)
    injection H as <-.
    destruct (lookup (d_cellnames d) n) as [s|] eqn:El; [|congruence].
    destruct (sr_cn _ _ R n s El) as (e & Hg & Hb). cbn [te_ok] in Hb.
    pose proof (tab_get_lt _ _ _ Hg) as Hlt.
    cbn [get_table set_modal q_cn]. unfold tab_add_prop. rewrite Hg. cbn [set_table q_modal q_unit q_lprops q_cells q_ts q_pn q_ps].
    destruct R. constructor; proj_simpl; auto.
    + reflexivity.
    + rewrite El. discriminate.
    + (* cell name table *)
      intros k s' Hk. destruct (N.eq_dec n k) as [<-|Hne].
      * rewrite tab_get_cons_same by exact Hlt. rewrite El in Hk. injection Hk as <-. eexists. split; [reflexivity|exact Hb].
      * rewrite tab_get_cons_other by exact Hne. apply sr_cn0. exact Hk.
    + intros w Hw Hmd. specialize (sr_next0 w Hw Hmd).
      destruct (w4_cases w Hw) as [-> | [-> | [-> | ->]]]; cbn in *; exact sr_next0.
    + intros k s' e' Hk. destruct (N.eq_dec n k) as [<-|Hne].
      * rewrite tab_get_cons_same by exact Hlt. intros [= <-]. cbn [te_props]. rewrite cn_props_of_cons_same. cbn [map].
        f_equal. eapply (sr_cnprops0 n s' e); [exact Hk|exact Hg].
      * rewrite tab_get_cons_other by exact Hne. rewrite cn_props_of_cons_other by exact Hne. apply (sr_cnprops0 k s' e'). exact Hk.
    + intros n' p' [[= <- <-]|Hin]; [rewrite El; discriminate|]. eapply sr_cnkeys0. exact Hin.
    + cbn [t_items]. intros ke p0 [<-|Hin] Hp.
      * cbn [snd te_props] in Hp. destruct Hp as [<-|Hp]; [exists n, p; split; [left; reflexivity|reflexivity]|].
        destruct (tab_get_In _ _ _ Hg) as [->|Hi]; [destruct Hp|].
        destruct (sr_cnall0 _ _ Hi Hp) as (n1 & p1 & Hi1 & ->). exists n1, p1. split; [right; exact Hi1|reflexivity].
      * destruct (sr_cnall0 _ _ Hin Hp) as (n1 & p1 & Hi1 & ->). exists n1, p1. split; [right; exact Hi1|reflexivity].
Qed.

(* ---- name records *)
Lemma tab_set_get_same t k e : tab_get (tab_set t k e) k = Some e.
Proof.
  unfold tab_set, tab_get. cbn [t_count t_items assoc_get]. rewrite N.eqb_refl.
  destruct (k <? t_count t) eqn:E; [rewrite E; reflexivity|].
  replace (k <? k + 1) with true by (symmetry; apply N.ltb_lt; lia). reflexivity.
Qed.
Lemma tab_set_get_other t k e k' e' : k <> k' -> tab_get t k' = Some e' -> tab_get (tab_set t k e) k' = Some e'.
Proof.
  intros Hne. unfold tab_set, tab_get. cbn [t_count t_items assoc_get].
  replace (k =? k') with false by (symmetry; apply N.eqb_neq; exact Hne).
  destruct (k' <? t_count t) eqn:E; [|discriminate]. intros H.
  replace (k' <? (if k <? t_count t then t_count t else k + 1)) with true; [exact H|].
  symmetry. apply N.ltb_lt. apply N.ltb_lt in E. destruct (k <? t_count t) eqn:E2; [exact E|]. apply N.ltb_ge in E2. lia.
Qed.
Lemma tab_rel_set nul t rt k s e :
  tab_rel nul t rt -> te_ok nul e s -> tab_rel nul ((k, s) :: t) (tab_set rt k e).
Proof.
  intros H He k' s'. cbn [lookup]. destruct (k =? k') eqn:E.
  - apply N.eqb_eq in E. subst k'. intros [= <-]. exists e. split; [apply tab_set_get_same|exact He].
  - apply N.eqb_neq in E. intros Hl. destruct (H _ _ Hl) as (e' & Hg & Hok). exists e'. split; [|exact Hok].
    apply tab_set_get_other; assumption.
Qed.
Lemma props_empty_set rt k e : props_empty rt -> te_props e = [] -> props_empty (tab_set rt k e).
Proof. intros H He ke [<-|Hin]; [exact He|apply H; exact Hin]. Qed.
Lemma tab_set_count_append rt e : t_count (tab_set rt (t_count rt) e) = t_count rt + 1.
Proof. unfold tab_set. cbn [t_count]. rewrite N.ltb_irrefl. reflexivity. Qed.

Lemma cn_props_of_undefined cnp (cn : table) k :
  (forall n p, In (n, p) cnp -> lookup cn n <> None) -> lookup cn k = None -> cn_props_of cnp k = [].
Proof.
  intros Hk Hl. unfold cn_props_of. induction cnp as [|[n p] l IH]; [reflexivity|].
  cbn [filter fst]. destruct (n =? k) eqn:E.
  - apply N.eqb_eq in E. subst n. exfalso. apply (Hk k p); [left; reflexivity|exact Hl].
  - apply IH. intros n' p' Hin. apply (Hk n' p'). right. exact Hin.
Qed.

Lemma alloc_ok_26 k c : k < lim26 ->
  ((c <=? k) && alloc_fails ((k + 1) * 24) && (c <? k)) = false /\ ((c <=? k) && mem_slow ((k + 1) * 24)) = false.
Proof.
  unfold lim26, alloc_fails, mem_slow. intros H. split.
  - replace (68719476736 <=? (k + 1) * 24) with false by (symmetry; apply N.leb_gt; lia).
    rewrite andb_false_r. reflexivity.
  - replace (4294967296 <=? (k + 1) * 24) with false by (symmetry; apply N.leb_gt; lia). apply andb_false_r.
Qed.

Lemma mode_get_set_same md w v : w < 4 -> mode_get (mode_set md w v) w = v.
Proof. intros H. destruct md as [[[a b] c] e]. destruct (w4_cases w H) as [-> | [-> | [-> | ->]]]; reflexivity. Qed.
Lemma mode_get_set_other md w w' v : w < 4 -> w' < 4 -> w <> w' -> mode_get (mode_set md w v) w' = mode_get md w'.
Proof.
  intros H H' Hne. destruct md as [[[a b] c] e].
  destruct (w4_cases w H) as [-> | [-> | [-> | ->]]]; destruct (w4_cases w' H') as [-> | [-> | [-> | ->]]];
    try reflexivity; congruence.
Qed.

Lemma name_step_ok w ex d st bs d' bs' :
  w < 4 -> srel d st -> cov_add_name d w ex bs = Some (d', bs') ->
  exists st', h_name st w ex (mkS bs None) = H_cont st' (mkS bs' None) /\ srel d' st'.
Proof.
  intros Hw R H. unfold cov_add_name in H.
  destruct (add_name d w ex bs) as [[d1 b1]|] eqn:Ea; cbn [obnd] in H; [|discriminate].
  unfold add_name in Ea.
  destruct (rd_string bs) as [[s bs1]|] eqn:Es; cbn [obnd] in Ea; [|discriminate].
  destruct (negb ((mode_get (d_table_mode d) w =? 0) || (mode_get (d_table_mode d) w =? (if ex then 2 else 1)))) eqn:Emode;
    [discriminate|].
  apply negb_false_iff in Emode.
  set (next := match w with 0 => d_cn_next d | 1 => d_ts_next d | 2 => d_pn_next d | _ => d_ps_next d end) in Ea.
  destruct (if ex then rd_uint bs1 else Some (next, bs1)) as [[k bs2]|] eqn:Ek; cbn [obnd] in Ea; [|discriminate].
  set (tab := match w with 0 => d_cellnames d | 1 => d_textstrings d | 2 => d_propnames d | _ => d_propstrings d end) in Ea.
  destruct (lookup tab k) eqn:El; [discriminate|].
  (* the reader *)
  assert (Hstr : forall nul, s_string nul (mkS bs None) = ROk s (mkS bs1 None)) by (intros; apply s_string_ok; exact Es).
  set (e := mkTE (if (w =? 3) && negb (nonempty s) then None else Some s) []).
  assert (Heok : te_ok (negb (w =? 3)) e s).
  { unfold te_ok, e. cbn [te_bytes]. destruct (w =? 3); cbn [negb andb]; [|reflexivity].
    destruct s; reflexivity. }
  assert (Hk : k = (if ex then k else t_count (get_table st w)) /\ (ex = true -> k < lim26) /\ bs2 = b1 /\ d' = d1 /\ bs' = b1
               /\ (if ex then rd_uint bs1 = Some (k, bs2) else bs2 = bs1)).
  { destruct ex.
    - rewrite Ek in H. destruct (k <? lim26) eqn:E26; [|discriminate]. injection H as <- <-. injection Ea as _ <-.
      apply N.ltb_lt in E26. repeat split; auto.
    - injection H as <- <-. injection Ek as <- <-. injection Ea as _ <-.
      assert (Hm : mode_get (d_table_mode d) w <> 2).
      { apply orb_prop in Emode. destruct Emode as [E|E]; apply N.eqb_eq in E; rewrite E; discriminate. }
      pose proof (sr_next _ _ R w Hw Hm) as Hn. unfold next_of in Hn. fold next in Hn. repeat split; auto; discriminate. }
  destruct Hk as (Hkk & H26 & -> & -> & -> & Hrd).
  exists (set_table st w (tab_set (get_table st w) k e) (RT_name w k)). split.
  - unfold h_name. rewrite Hstr. fold e. destruct ex.
    + rewrite (s_uint_ok _ _ _ Hrd). destruct (alloc_ok_26 k (t_count (get_table st w)) (H26 eq_refl)) as [A1 A2].
      rewrite A1, A2. reflexivity.
    + subst bs1. unfold tab_append. rewrite <- Hkk. reflexivity.
  - (* the relation *)
    assert (Hnext : ex = false -> t_count (tab_set (get_table st w) k e) = next + 1).
    { intros ->. rewrite Hkk. rewrite tab_set_count_append.
      assert (Hm : mode_get (d_table_mode d) w <> 2).
      { apply orb_prop in Emode. destruct Emode as [E|E]; apply N.eqb_eq in E; rewrite E; discriminate. }
      pose proof (sr_next _ _ R w Hw Hm) as Hn. unfold next_of in Hn. fold next in Hn. rewrite Hn. reflexivity. }
    assert (Hmode' : forall w', w' < 4 -> mode_get (mode_set (d_table_mode d) w (if ex then 2 else 1)) w' <> 2 ->
                     (w' = w /\ ex = false) \/ (w' <> w /\ mode_get (d_table_mode d) w' <> 2)).
    { intros w' Hw' Hm. destruct (N.eq_dec w w') as [<-|Hne].
      - rewrite mode_get_set_same in Hm by exact Hw. destruct ex; [congruence|auto].
      - rewrite mode_get_set_other in Hm by assumption. right. split; [congruence|exact Hm]. }
    clear Hstr Hrd Ek Es.
    destruct (w4_cases w Hw) as [-> | [-> | [-> | ->]]]; cbn [N.eqb Pos.eqb negb] in Heok;
      injection Ea as <-; subst tab next; destruct R;
      (constructor; proj_simpl; cbn [set_table get_table] in *; auto;
       try (apply tab_rel_set; assumption);
       try (apply props_empty_set; [assumption|reflexivity]);
       try reflexivity).
    all: try (cbn [lookup]; rewrite N.eqb_refl; discriminate).
    all: try (intros w' Hw' Hm'; destruct (Hmode' w' Hw' Hm') as [[-> Hex]|[Hne Hm]];
              [ cbn [next_of get_table]; proj_simpl; rewrite (Hnext Hex); reflexivity
              | specialize (sr_next0 w' Hw' Hm);
                destruct (w4_cases w' Hw') as [-> | [-> | [-> | ->]]]; cbn in *; congruence ]).
    + (* cell-name properties of the new entry *)
      proj_simpl. intros k' s' e' Hl. cbn [lookup] in Hl. destruct (k =? k') eqn:E.
      * apply N.eqb_eq in E. subst k'. rewrite tab_set_get_same. intros [= <-].
        rewrite (cn_props_of_undefined _ _ _ sr_cnkeys0 El). reflexivity.
      * apply N.eqb_neq in E. intros Hg. destruct (sr_cn0 _ _ Hl) as (e0 & Hg0 & _).
        rewrite (tab_set_get_other _ _ _ _ _ E Hg0) in Hg. injection Hg as <-. eapply sr_cnprops0; eassumption.
    + intros n p Hin. cbn [lookup]. destruct (k =? n); [discriminate|]. eapply sr_cnkeys0. exact Hin.
    + proj_simpl. cbn [tab_set t_items]. intros ke p [<-|Hin] Hp; [destruct Hp|]. eapply sr_cnall0; eassumption.
Qed.

(* ================================================================== END: finalize vs finish *)
Lemma omap_omapc {A A' B B'} (f : A -> option B) (g : A' -> outcome B') (wa : A -> A') (wb : B -> B') :
  (forall a b, f a = Some b -> g (wa a) = Ok (wb b)) ->
  forall l l', omap f l = Some l' -> omapc g (map wa l) = Ok (map wb l').
Proof.
  intros H. induction l as [|a t IH]; intros l' Hl; cbn [omap] in Hl.
  - injection Hl as <-. reflexivity.
  - destruct (f a) as [b|] eqn:E; cbn [obnd] in Hl; [|discriminate].
    destruct (omap f t) as [r|] eqn:E2; cbn [obnd] in Hl; [|discriminate]. injection Hl as <-.
    cbn [map omapc]. rewrite (H _ _ E). cbn [obind]. rewrite (IH _ eq_refl). reflexivity.
Qed.
Lemma omapc_app {A B} (f : A -> outcome B) l1 l2 r1 r2 :
  omapc f l1 = Ok r1 -> omapc f l2 = Ok r2 -> omapc f (l1 ++ l2) = Ok (r1 ++ r2).
Proof.
  revert r1. induction l1 as [|a t IH]; intros r1 H1 H2; cbn [omapc app] in *.
  - injection H1 as <-. exact H2.
  - destruct (f a) as [b| | | | |]; cbn [obind] in *; try discriminate.
    destruct (omapc f t) as [r| | | | |]; cbn [obind] in *; try discriminate.
    injection H1 as <-. rewrite (IH _ eq_refl H2). reflexivity.
Qed.
Lemma omapc_all {A B} (f : A -> outcome B) l :
  (forall a, In a l -> exists b, f a = Ok b) -> exists r, omapc f l = Ok r.
Proof.
  induction l as [|a t IH]; intros H; [eexists; reflexivity|].
  destruct (H a (or_introl eq_refl)) as (b & Hb). destruct IH as (r & Hr); [intros; apply H; right; assumption|].
  exists (b :: r). cbn [omapc]. rewrite Hb. cbn [obind]. rewrite Hr. reflexivity.
Qed.
Lemma omap_In {A B} (f : A -> option B) : forall l l' a, omap f l = Some l' -> In a l -> exists b, f a = Some b.
Proof.
  induction l as [|x t IH]; intros l' a H Hin; [destruct Hin|]. cbn [omap] in H.
  destruct (f x) as [b|] eqn:E; cbn [obnd] in H; [|discriminate].
  destruct (omap f t) as [r|] eqn:E2; cbn [obnd] in H; [|discriminate].
  destruct Hin as [<-|Hin]; [eauto|]. eapply IH; eauto.
Qed.

(* ---- one property *)
Lemma fin_name_ok (t : table) (rt : rtable) r s :
  tab_rel true t rt -> resolve_nref t r = Some (NName s) -> fin_name rt r = Ok (cstr s).
Proof.
  intros Ht. destruct r as [s0|k]; cbn [resolve_nref fin_name].
  - intros [= <-]. reflexivity.
  - destruct (lookup t k) as [s0|] eqn:El; [|discriminate]. intros [= <-].
    destruct (Ht _ _ El) as (e & Hg & Hb). cbn [te_ok] in Hb. rewrite Hg, Hb. reflexivity.
Qed.

Lemma resolve_nref_name t r r' : resolve_nref t r = Some r' -> exists s, r' = NName s.
Proof. destruct r as [s|k]; cbn; [intros [= <-]; eauto|]. destruct (lookup t k); [intros [= <-]; eauto|discriminate]. Qed.

Lemma fin_val_ok (t : table) (rt : rtable) v v' :
  tab_rel false t rt -> resolve_pval t v = Some v' -> fin_val rt (view_val v) = Ok (view_val v').
Proof.
  intros Ht. destruct v; cbn [resolve_pval view_val fin_val]; try (intros [= <-]; reflexivity).
  destruct (lookup t n) as [s|] eqn:El; [|discriminate]. intros [= <-].
  destruct (Ht _ _ El) as (e & Hg & Hb). cbn [te_ok] in Hb. rewrite Hg. cbn [view_val].
  destruct (te_bytes e); subst; reflexivity.
Qed.

Lemma fin_prop_ok d st p p' :
  srel d st -> resolve_prop (d_propnames d) (d_propstrings d) p = Some p' ->
  fin_prop (q_pn st) (q_ps st) (wprop p) = Ok (view_prop cname p').
Proof.
  intros R H. unfold resolve_prop in H.
  destruct (resolve_nref (d_propnames d) (p_name p)) as [n|] eqn:En; cbn [obnd] in H; [|discriminate].
  destruct (omap (resolve_pval (d_propstrings d)) (p_vals p)) as [vs|] eqn:Ev; cbn [obnd] in H; [|discriminate].
  injection H as <-. destruct (resolve_nref_name _ _ _ En) as (s & ->).
  unfold fin_prop, wprop, view_prop. cbn [gp_name gp_vals p_name p_vals].
  rewrite (fin_name_ok _ _ _ _ (sr_pn _ _ R) En). cbn [obind].
  rewrite (omap_omapc (resolve_pval (d_propstrings d)) (fin_val (q_ps st)) view_val view_val
             (fun a b Hab => fin_val_ok _ _ _ _ (sr_ps _ _ R) Hab) _ _ Ev).
  reflexivity.
Qed.

Lemma fin_props_ok d st l l' :
  srel d st -> omap (resolve_prop (d_propnames d) (d_propstrings d)) l = Some l' ->
  fin_props (q_pn st) (q_ps st) (map wprop l) = Ok (map (view_prop cname) l').
Proof.
  intros R H. unfold fin_props.
  exact (omap_omapc _ _ wprop (view_prop cname) (fun a b Hab => fin_prop_ok d st a b R Hab) _ _ H).
Qed.

(* ---- elements: the label text is resolved in the first loop over the cells, the cell references in the second *)
Definition lab1 (ts : table) (e : element) : element :=
  match e with
  | E_text (NNum k) l t x y r => match lookup ts k with Some s => E_text (NName s) l t x y r | None => e end
  | _ => e
  end.

Lemma tab_get_props_empty rt k e : props_empty rt -> tab_get rt k = Some e -> te_props e = [].
Proof. intros Hp Hg. destruct (tab_get_In _ _ _ Hg) as [->|Hin]; [reflexivity|]. exact (Hp _ Hin). Qed.

Lemma fin_label_ok cn ts rts e e' wps :
  tab_rel true ts rts -> props_empty rts -> resolve_elem cn ts e = Some e' ->
  fin_label rts (welem e, wps) = Ok (welem (lab1 ts e), wps).
Proof.
  intros Ht He H. destruct e; try reflexivity.
  destruct s as [s|k]; [reflexivity|].
  cbn [resolve_elem resolve_nref] in H. destruct (lookup ts k) as [s|] eqn:El; cbn [obnd] in H; [|discriminate].
  destruct (Ht _ _ El) as (e0 & Hg & Hb). cbn [te_ok] in Hb.
  unfold fin_label, welem. cbn [view_elem fst snd lab1]. rewrite El, Hg, Hb.
  rewrite (tab_get_props_empty _ _ _ He Hg). cbn [omapc obind]. rewrite app_nil_r. reflexivity.
Qed.

Lemma fin_ref_ok cn ts rcn names e e' :
  tab_rel true cn rcn -> resolve_elem cn ts e = Some e' ->
  fin_ref rcn names (welem (lab1 ts e)) = Ok (view_elem cname (fun r => existsb (bytes_eqb (cname r)) names) e').
Proof.
  intros Hc H. destruct e; cbn [resolve_elem] in H; try (injection H as <-; reflexivity).
  - (* text *)
    destruct (resolve_nref ts s) as [s'|] eqn:Er; cbn [obnd] in H; [|discriminate]. injection H as <-.
    destruct (resolve_nref_name _ _ _ Er) as (nm & ->).
    destruct s as [s|k]; cbn [resolve_nref] in Er.
    + injection Er as <-. reflexivity.
    + destruct (lookup ts k) as [s0|] eqn:El; [|discriminate]. injection Er as <-.
      cbn [lab1]. rewrite El. reflexivity.
  - (* placement *)
    destruct (resolve_nref cn c) as [c'|] eqn:Er; cbn [obnd] in H; [|discriminate]. injection H as <-.
    destruct (resolve_nref_name _ _ _ Er) as (nm & ->).
    unfold welem. cbn [lab1 view_elem fin_ref]. rewrite (fin_name_ok _ _ _ _ Hc Er). reflexivity.
Qed.

(* ---- cells, first loop *)
Definition raw_name (cn : table) (r : nref) : list N :=
  match r with NName s => s | NNum k => match lookup cn k with Some s => s | None => [] end end.
Definition wcell1 (d : dstate) (c : cell) : rcell :=
  mkGC (NName (raw_name (d_cellnames d) (c_name c)))
       (map wprop (c_props c) ++
        match c_name c with NNum k => map wprop (cn_props_of (d_cn_props d) k) | NName _ => [] end)
       (map (fun ep => (welem (lab1 (d_textstrings d) (fst ep)), map wprop (snd ep))) (c_elems c)).

Lemma tab_clear_other t k k' : k <> k' -> tab_get (tab_clear_props t k) k' = tab_get t k'.
Proof.
  intros Hne. unfold tab_clear_props. destruct (tab_get t k) as [e|]; [|reflexivity].
  apply tab_get_cons_other. exact Hne.
Qed.

Lemma nums_cons_name c cs s : c_name c = NName s -> nums (c :: cs) = nums cs.
Proof. intros H. unfold nums. cbn [flat_map]. rewrite H. reflexivity. Qed.
Lemma nums_cons_num c cs k : c_name c = NNum k -> nums (c :: cs) = k :: nums cs.
Proof. intros H. unfold nums. cbn [flat_map]. rewrite H. reflexivity. Qed.

Lemma fin_cells1_ok d st : srel d st ->
  forall cs rcn l, NoDup (nums cs) ->
    (forall k, In k (nums cs) -> tab_get rcn k = tab_get (q_cn st) k) ->
    omap (resolve_cell d) cs = Some l ->
    fin_cells1 rcn (q_ts st) (map wcell cs) = Ok (map (wcell1 d) cs).
Proof.
  intros R. induction cs as [|c cs IH]; intros rcn l Hnd Hag H; [reflexivity|].
  cbn [omap] in H. destruct (resolve_cell d c) as [c'|] eqn:Ec; cbn [obnd] in H; [|discriminate].
  destruct (omap (resolve_cell d) cs) as [l0|] eqn:Ecs; cbn [obnd] in H; [|discriminate]. clear H.
  unfold resolve_cell in Ec.
  destruct (resolve_nref (d_cellnames d) (c_name c)) as [nm|] eqn:En; cbn [obnd] in Ec; [|discriminate].
  destruct (omap _ (rev (c_props c))) as [own|]; cbn [obnd] in Ec; [|discriminate].
  match type of Ec with obnd ?x _ = _ => destruct x as [tabp|] end; cbn [obnd] in Ec; [|discriminate].
  destruct (omap _ (rev (c_elems c))) as [es|] eqn:Ees; cbn [obnd] in Ec; [|discriminate]. clear Ec.
  cbn [map fin_cells1 wcell gc_name gc_props gc_elems].
  (* the elements *)
  assert (Hes : omapc (fin_label (q_ts st)) (map (fun ep => (welem (fst ep), map wprop (snd ep))) (c_elems c))
                = Ok (map (fun ep => (welem (lab1 (d_textstrings d) (fst ep)), map wprop (snd ep))) (c_elems c))).
  { assert (Hall : forall ep, In ep (c_elems c) -> exists e', resolve_elem (d_cellnames d) (d_textstrings d) (fst ep) = Some e').
    { intros ep Hin. apply in_rev in Hin. destruct (omap_In _ _ _ _ Ees Hin) as (b & Hb).
      destruct (resolve_elem (d_cellnames d) (d_textstrings d) (fst ep)); [eauto|discriminate]. }
    clear Ees. induction (c_elems c) as [|ep t IHt]; [reflexivity|].
    cbn [map omapc]. destruct (Hall ep (or_introl eq_refl)) as (e' & He').
    rewrite (fin_label_ok _ _ _ _ _ _ (sr_ts _ _ R) (sr_ts_e _ _ R) He'). cbn [obind].
    rewrite IHt by (intros; apply Hall; right; assumption). reflexivity. }
  destruct (c_name c) as [s|k] eqn:Ename.
  - (* by name *)
    cbn [obind]. rewrite Hes. cbn [obind]. rewrite (nums_cons_name _ _ _ Ename) in Hnd, Hag.
    rewrite (IH rcn l0 Hnd Hag eq_refl).
    cbn [obind map]. unfold wcell1 at 2. rewrite Ename. cbn [raw_name]. rewrite app_nil_r. reflexivity.
  - (* by number *)
    cbn [resolve_nref] in En. destruct (lookup (d_cellnames d) k) as [s|] eqn:El; [|discriminate].
    destruct (sr_cn _ _ R _ _ El) as (e & Hg & Hb). cbn [te_ok] in Hb.
    rewrite (nums_cons_num _ _ _ Ename) in Hnd, Hag.
    rewrite (Hag k (or_introl eq_refl)), Hg, Hb. cbn [obind]. rewrite Hes. cbn [obind].
    apply NoDup_cons_iff in Hnd. destruct Hnd as [Hnot Hnd].
    rewrite (IH (tab_clear_props rcn k) l0 Hnd); [| |reflexivity].
    2:{ intros k' Hk'. rewrite tab_clear_other by (intros ->; exact (Hnot Hk')). apply Hag. right. exact Hk'. }
    cbn [obind map]. unfold wcell1 at 2. rewrite Ename. cbn [raw_name]. rewrite El.
    rewrite (sr_cnprops _ _ R _ _ _ El Hg). reflexivity.
Qed.

(* ---- cells, second loop *)
Lemma fin_cell2_ok d st names c c' :
  srel d st -> resolve_cell d c = Some c' ->
  fin_cell2 (q_cn st) (q_pn st) (q_ps st) names (wcell1 d c) = Ok (view_cell names c').
Proof.
  intros R H. unfold resolve_cell in H.
  destruct (resolve_nref (d_cellnames d) (c_name c)) as [nm|] eqn:En; cbn [obnd] in H; [|discriminate].
  destruct (omap (resolve_prop (d_propnames d) (d_propstrings d)) (rev (c_props c))) as [own|] eqn:Eown;
    cbn [obnd] in H; [|discriminate].
  match type of H with obnd ?x _ = _ => destruct x as [tabp|] eqn:Etab end; cbn [obnd] in H; [|discriminate].
  match type of H with obnd (omap ?f ?l) _ = _ => destruct (omap f l) as [es|] eqn:Ees end; cbn [obnd] in H; [|discriminate].
  injection H as <-.
  unfold fin_cell2, view_cell. cbn [wcell1 gc_elems gc_props c_name c_props c_elems].
  (* elements *)
  rewrite <- map_rev.
  set (g := fun ep : relem * list rprop =>
                obind (fin_ref (q_cn st) names (fst ep)) (fun e =>
                obind (fin_props (q_pn st) (q_ps st) (rev (snd ep))) (fun pr => Ok (e, pr)))).
  set (wa := fun ep : element * list prop => (welem (lab1 (d_textstrings d) (fst ep)), map wprop (snd ep))).
  set (wb := fun ep' : element * list prop =>
                (view_elem cname (fun r => existsb (bytes_eqb (cname r)) names) (fst ep'), map (view_prop cname) (snd ep'))).
  assert (Hel : forall a b,
            (fun ep : element * list prop =>
               let? e := resolve_elem (d_cellnames d) (d_textstrings d) (fst ep) in
               let? ps := omap (resolve_prop (d_propnames d) (d_propstrings d)) (rev (snd ep)) in Some (e, ps)) a = Some b ->
            g (wa a) = Ok (wb b)).
  { intros [e ps] [e' ps'] Hep. cbn [fst snd] in Hep. unfold g, wa, wb. cbn [fst snd].
    destruct (resolve_elem (d_cellnames d) (d_textstrings d) e) as [e1|] eqn:Ee; cbn [obnd] in Hep; [|discriminate].
    destruct (omap (resolve_prop (d_propnames d) (d_propstrings d)) (rev ps)) as [ps1|] eqn:Ep; cbn [obnd] in Hep; [|discriminate].
    injection Hep as <- <-.
    rewrite (fin_ref_ok _ _ _ names _ _ (sr_cn _ _ R) Ee). cbn [obind].
    rewrite <- map_rev. rewrite (fin_props_ok _ _ _ _ R Ep). reflexivity. }
  rewrite (omap_omapc _ g wa wb Hel _ _ Ees).
  cbn [obind].
  (* properties *)
  match goal with |- obind ?x _ = _ => assert (Hp : x = Ok (map (view_prop cname) (tabp ++ own))) end.
  { rewrite rev_app_distr, map_app. unfold fin_props. apply omapc_app.
    - destruct (c_name c) as [s|k].
      + injection Etab as <-. reflexivity.
      + rewrite <- map_rev. exact (fin_props_ok _ _ _ _ R Etab).
    - rewrite <- map_rev. exact (fin_props_ok _ _ _ _ R Eown). }
  rewrite Hp. cbn [obind]. f_equal. f_equal.
  (* name *)
  unfold cell_cname, cname, wcell1. cbn [gc_name].
  destruct (c_name c) as [s|k]; cbn [resolve_nref raw_name name_of] in *.
  - injection En as <-. reflexivity.
  - destruct (lookup (d_cellnames d) k); [|discriminate]. injection En as <-. reflexivity.
Qed.

Lemma wcell1_cname d c c' : resolve_cell d c = Some c' -> cell_cname (wcell1 d c) = cname (c_name c').
Proof.
  unfold resolve_cell. destruct (resolve_nref (d_cellnames d) (c_name c)) as [nm|] eqn:En; cbn [obnd]; [|discriminate].
  destruct (omap _ (rev (c_props c))); cbn [obnd]; [|discriminate].
  match goal with |- obnd ?x _ = _ -> _ => destruct x end; cbn [obnd]; [|discriminate].
  destruct (omap _ (rev (c_elems c))); cbn [obnd]; [|discriminate]. intros [= <-].
  unfold cell_cname, cname, wcell1. cbn [gc_name c_name].
  destruct (c_name c) as [s|k]; cbn [resolve_nref raw_name name_of] in *.
  - injection En as <-. reflexivity.
  - destruct (lookup (d_cellnames d) k); [|discriminate]. injection En as <-. reflexivity.
Qed.

Lemma omap_map2 {A B C} (f : A -> option B) (g : A -> C) (h : B -> C) :
  (forall a b, f a = Some b -> g a = h b) -> forall l l', omap f l = Some l' -> map g l = map h l'.
Proof.
  intros H. induction l as [|a t IH]; intros l' Hl; cbn [omap] in Hl.
  - injection Hl as <-. reflexivity.
  - destruct (f a) as [b|] eqn:E; cbn [obnd] in Hl; [|discriminate].
    destruct (omap f t) as [r|] eqn:E2; cbn [obnd] in Hl; [|discriminate]. injection Hl as <-.
    cbn [map]. rewrite (H _ _ E), (IH _ eq_refl). reflexivity.
Qed.

Lemma nums_rev l : nums (rev l) = rev (nums l).
Proof.
  unfold nums. induction l as [|c t IH]; [reflexivity|].
  cbn [rev flat_map]. rewrite flat_map_app, IH, rev_app_distr. cbn [flat_map]. rewrite app_nil_r.
  destruct (c_name c); reflexivity.
Qed.

Lemma finish_ok d st L : srel d st -> cov_finalize d = Some L -> finish st = Ok (view L).
Proof.
  intros R H. unfold cov_finalize in H.
  destruct (omap (resolve_prop (d_propnames d) (d_propstrings d)) (map snd (d_cn_props d))) as [cnr|] eqn:Ecn;
    cbn [obnd] in H; [|discriminate].
  unfold finalize in H.
  destruct (omap (resolve_prop (d_propnames d) (d_propstrings d)) (rev (d_lprops d))) as [lp|] eqn:Elp;
    cbn [obnd] in H; [|discriminate].
  destruct (omap (resolve_cell d) (rev (d_cells d))) as [cs|] eqn:Ecs; cbn [obnd] in H; [|discriminate].
  injection H as <-.
  unfold finish. rewrite (sr_cells _ _ R), <- map_rev.
  rewrite (fin_cells1_ok d st R (rev (d_cells d)) (q_cn st) cs).
  2:{ rewrite nums_rev. apply NoDup_rev. exact (sr_nodup _ _ R). }
  2:{ reflexivity. }
  2:{ exact Ecs. }
  cbn [obind].
  assert (Hnames : map cell_cname (map (wcell1 d) (rev (d_cells d))) = map (fun c => cname (c_name c)) cs).
  { rewrite map_map. exact (omap_map2 _ _ _ (fun a b Hab => wcell1_cname d a b Hab) _ _ Ecs). }
  rewrite Hnames.
  rewrite (omap_omapc (resolve_cell d) _ (wcell1 d) (view_cell (map (fun c => cname (c_name c)) cs))
             (fun a b Hab => fin_cell2_ok d st _ a b R Hab) _ _ Ecs).
  cbn [obind].
  rewrite (sr_lprops _ _ R), <- map_rev, (fin_props_ok _ _ _ _ R Elp). cbn [obind].
  (* every property hanging off a table entry resolves *)
  destruct (omapc_all (fin_prop (q_pn st) (q_ps st)) (all_table_props st)) as (r & Hr).
  { intros p Hin. unfold all_table_props in Hin.
    assert (Hempty : forall rt, props_empty rt -> table_props rt = []).
    { intros rt He. unfold table_props. induction (t_items rt) as [|ke t IH] eqn:Et; [reflexivity|].
      cbn [flat_map]. rewrite (He ke) by (rewrite Et; left; reflexivity). cbn [app].
      clear IH. assert (Hall : forall ke', In ke' t -> te_props (snd ke') = []) by (intros; apply He; rewrite Et; right; assumption).
      clear Et He. induction t as [|k2 t2 IH2]; [reflexivity|]. cbn [flat_map].
      rewrite (Hall k2 (or_introl eq_refl)). apply IH2. intros; apply Hall; right; assumption. }
    rewrite (Hempty _ (sr_ts_e _ _ R)), (Hempty _ (sr_pn_e _ _ R)), (Hempty _ (sr_ps_e _ _ R)), !app_nil_r in Hin.
    unfold table_props in Hin. apply in_flat_map in Hin. destruct Hin as (ke & Hke & Hp).
    destruct (sr_cnall _ _ R ke p Hke Hp) as (n & p0 & Hin0 & ->).
    assert (Hin1 : In p0 (map snd (d_cn_props d))) by (apply in_map_iff; exists (n, p0); auto).
    destruct (omap_In _ _ _ _ Ecn Hin1) as (p1 & Hp1).
    exists (view_prop cname p1). exact (fin_prop_ok _ _ _ _ R Hp1). }
  unfold fin_props at 1. rewrite Hr. cbn [obind].
  unfold view. cbn [l_unit l_props l_cells]. rewrite (sr_unit _ _ R). reflexivity.
Qed.

(* ================================================================== one record *)
Lemma srel_other d st : srel d st -> srel (upd_modal d (d_modal d) T_other) st.
Proof. intros []. constructor; cbn; auto. Qed.

Lemma existsb_nums n cells : existsb (cell_has_num n) cells = false -> ~ In n (nums cells).
Proof.
  induction cells as [|c t IH]; intros H Hin; [destruct Hin|].
  cbn [existsb] in H. apply orb_false_elim in H. destruct H as [H1 H2].
  unfold nums in Hin. cbn [flat_map] in Hin. apply in_app_or in Hin. destruct Hin as [Hin|Hin].
  - unfold cell_has_num in H1. destruct (c_name c) as [s|k]; [destruct Hin|].
    destruct Hin as [<-|[]]. rewrite N.eqb_refl in H1. discriminate.
  - exact (IH H2 Hin).
Qed.

Lemma xy_rel m q (a : bool) : modal_rel m q ->
  modal_rel (mkM a (m_rep m) (m_g m) (m_t m) (m_p m) (m_pname m) (m_pvals m))
            (mkRM a (r_layer q) (r_dtype q) (r_tlayer q) (r_ttype q) (r_ppos q) (r_tpos q) (r_gpos q) (r_w q) (r_h q)
                  (r_rep q) (r_text q) (r_pcell q) (r_poly q) (r_path q) (r_hw q) (r_exs q) (r_exe q) (r_ctype q)
                  (r_rad q) (r_pname q) (r_pvals q)).
Proof. intros []. constructor; cbn; auto. Qed.

Definition step_goal (st : rstate) (id : N) (t : list N) (r : option step_result) : Prop :=
  match r with
  | Some (Cont d' bs') => exists st', h_record st id (mkS t None) = H_cont st' (mkS bs' None) /\ srel d' st'
  | Some (Done L) => h_record st id (mkS t None) = H_end (Ok (view L))
  | None => True
  end.

Lemma step_name id w ex d st t :
  w < 4 -> srel d st ->
  (forall s, h_record st id s = h_name st w ex s) ->
  step_goal st id t (let? '(d', bs) := cov_add_name d w ex t in Some (Cont d' bs)).
Proof.
  intros Hw R Hh. destruct (cov_add_name d w ex t) as [[d' bs']|] eqn:E; cbn [obnd step_goal]; [|exact I].
  destruct (name_step_ok _ _ _ _ _ _ _ Hw R E) as (st' & H1 & H2). exists st'. rewrite Hh. auto.
Qed.

Lemma step_elem id ptrs cov rec d st t :
  (forall m q info bs e m' bs', modal_rel m q -> cov m (info :: bs) = Some (e, m', bs') ->
     exists q', rec q info (mkS bs None) = ROk (welem e, q') (mkS bs' None) /\ modal_rel m' q') ->
  (forall m, cov m [] = None) ->
  srel d st ->
  (forall s, h_record st id s = h_element ptrs st rec s) ->
  step_goal st id t (cov_elem_step d (cov (d_modal d) t)).
Proof.
  intros Hrec Hnil R Hh. destruct (cov_elem_step d (cov (d_modal d) t)) as [[l|d' bs']|] eqn:E; cbn [step_goal]; [| |exact I].
  - exfalso. unfold cov_elem_step in E. destruct (cov (d_modal d) t) as [[[e m] b]|]; cbn [obnd] in E; [|discriminate].
    destruct (add_elem d e m); cbn [obnd] in E; discriminate.
  - destruct (elem_step_ok cov rec Hrec Hnil ptrs _ _ _ _ _ R E) as (st' & H1 & H2). exists st'. rewrite Hh. auto.
Qed.

Lemma step_xy (a : bool) id d st t :
  srel d st ->
  (forall s, h_record st id s =
     H_cont (set_modal st (mkRM a (r_layer (q_modal st)) (r_dtype (q_modal st)) (r_tlayer (q_modal st)) (r_ttype (q_modal st))
                              (r_ppos (q_modal st)) (r_tpos (q_modal st)) (r_gpos (q_modal st)) (r_w (q_modal st)) (r_h (q_modal st))
                              (r_rep (q_modal st)) (r_text (q_modal st)) (r_pcell (q_modal st)) (r_poly (q_modal st))
                              (r_path (q_modal st)) (r_hw (q_modal st)) (r_exs (q_modal st)) (r_exe (q_modal st))
                              (r_ctype (q_modal st)) (r_rad (q_modal st)) (r_pname (q_modal st)) (r_pvals (q_modal st)))) s) ->
  step_goal st id t
    (Some (Cont (upd_modal d (mkM a (m_rep (d_modal d)) (m_g (d_modal d)) (m_t (d_modal d)) (m_p (d_modal d))
                                  (m_pname (d_modal d)) (m_pvals (d_modal d))) (d_target d)) t)).
Proof.
  intros R Hh. cbn [step_goal]. eexists. split; [apply Hh|]. apply srel_upd_modal; [exact R|]. apply xy_rel. exact (sr_modal _ _ R).
Qed.

Lemma step_layername id d st t :
  srel d st ->
  (forall s, h_record st id s = match s_string false s with
                                | ROk _ s1 => H_cont st (skip_interval_r (skip_interval_r s1))
                                | RCrash => H_end Crash
                                | RHang => H_end Hang
                                end) ->
  step_goal st id t
    (let? '(_, bs) := rd_string t in let? bs := skip_interval bs in let? bs := skip_interval bs in
     Some (Cont (upd_modal d (d_modal d) T_other) bs)).
Proof.
  intros R Hh. destruct (rd_string t) as [[s b1]|] eqn:E1; cbn [obnd step_goal]; [|exact I].
  destruct (skip_interval b1) as [b2|] eqn:E2; cbn [obnd step_goal]; [|exact I].
  destruct (skip_interval b2) as [b3|] eqn:E3; cbn [obnd step_goal]; [|exact I].
  exists st. split; [|apply srel_other; exact R].
  rewrite Hh, (s_string_ok false _ _ _ E1), (skip_interval_ok _ _ E2), (skip_interval_ok _ _ E3). reflexivity.
Qed.

Lemma step_cell (byn : bool) id d st t :
  srel d st ->
  (forall s, h_record st id s =
     match f_nref byn s with
     | ROk nm s1 =>
         H_cont (set_cells st
                   (mkRM true (r_layer (q_modal st)) (r_dtype (q_modal st)) (r_tlayer (q_modal st)) (r_ttype (q_modal st))
                         (0, 0)%Z (0, 0)%Z (0, 0)%Z (r_w (q_modal st)) (r_h (q_modal st)) (r_rep (q_modal st))
                         (r_text (q_modal st)) (r_pcell (q_modal st)) (r_poly (q_modal st)) (r_path (q_modal st))
                         (r_hw (q_modal st)) (r_exs (q_modal st)) (r_exe (q_modal st)) (r_ctype (q_modal st))
                         (r_rad (q_modal st)) (r_pname (q_modal st)) (r_pvals (q_modal st)))
                   (mkGC nm [] [] :: q_cells st) RT_cell) s1
     | RCrash => H_end Crash
     | RHang => H_end Hang
     end) ->
  step_goal st id t
    (let? '(nm, bs) := rd_nref byn t in
     if match nm with NNum n => existsb (cell_has_num n) (d_cells d) | NName _ => false end then None else
     Some (Cont (upd_cells d (modal_at_cell (d_modal d)) (mkCell nm [] [] :: d_cells d) T_cell) bs)).
Proof.
  intros R Hh. destruct (rd_nref byn t) as [[nm b1]|] eqn:E1; cbn [obnd]; [|exact I].
  destruct (match nm with NNum n => existsb (cell_has_num n) (d_cells d) | NName _ => false end) eqn:Ex; [exact I|].
  cbn [step_goal]. eexists. split; [rewrite Hh, (f_nref_ok _ _ _ _ E1); reflexivity|].
  rewrite (sr_cells _ _ R).
  change (mkGC nm [] [] :: map wcell (d_cells d)) with (map wcell (mkCell nm [] [] :: d_cells d)).
  apply srel_upd_cells; [exact R|apply modal0_rel|reflexivity|exact I|].
  destruct nm as [s|n].
  - rewrite (nums_cons_name (mkCell (NName s) [] []) _ s eq_refl). exact (sr_nodup _ _ R).
  - rewrite (nums_cons_num (mkCell (NNum n) [] []) _ n eq_refl). constructor; [apply existsb_nums; exact Ex|exact (sr_nodup _ _ R)].
Qed.

Lemma step_property id d st t :
  srel d st -> (id = 28 \/ id = 29) ->
  (forall s, h_record st id s =
     (let (oinfo, s1) := (if id =? 29 then (Some 8, s) else rd1 s) in
      match oinfo with
      | None => H_end Crash
      | Some info =>
          match m_property (q_modal st) info s1 with
          | ROk (p, m1) s2 => H_cont (add_prop_r st p m1) s2
          | RCrash => H_end Crash
          | RHang => H_end Hang
          end
      end)) ->
  step_goal st id t
    (let? '(p, m', bs) := cov_property id (d_modal d) t in let? d' := cov_add_prop d p m' in Some (Cont d' bs)).
Proof.
  intros R Hid Hh. destruct (cov_property id (d_modal d) t) as [[[p m'] b1]|] eqn:E1; cbn [obnd]; [|exact I].
  destruct (cov_add_prop d p m') as [d'|] eqn:E2; cbn [obnd step_goal]; [|exact I].
  destruct Hid as [-> | ->].
  - destruct t as [|info t]; [discriminate|].
    destruct (rd_property_ok _ _ _ _ _ _ _ (sr_modal _ _ R) E1) as (q' & Hp & Hrel).
    exists (add_prop_r st (wprop p) q'). split; [|exact (prop_step_ok _ _ _ _ _ _ R Hrel E2)].
    rewrite Hh. cbn [N.eqb Pos.eqb]. unfold rd1. cbn [s_bs s_err]. rewrite Hp. reflexivity.
  - destruct (rd_last_property_ok _ _ _ _ _ _ (sr_modal _ _ R) E1) as (q' & Hp & Hrel).
    exists (add_prop_r st (wprop p) q'). split; [|exact (prop_step_ok _ _ _ _ _ _ R Hrel E2)].
    rewrite Hh. cbn [N.eqb Pos.eqb]. rewrite Hp. reflexivity.
Qed.

Lemma step_end ois d st t :
  srel d st ->
  step_goal st 2 t (if end_ok ois t then let? l := cov_finalize d in Some (Done l) else None).
Proof.
  intros R. destruct (end_ok ois t); [|exact I].
  destruct (cov_finalize d) as [L|] eqn:E; cbn [obnd step_goal]; [|exact I].
  cbn [h_record]. rewrite (finish_ok _ _ _ R E). reflexivity.
Qed.

Lemma record_step_ok ois d st id t : srel d st -> step_goal st id t (cov_record ois d (id :: t)).
Proof.
  intros R. unfold cov_record. cbn [rd_byte obnd].
  destruct id as [|p]; [cbn [step_goal]; exists st; split; [reflexivity|exact R]|].
  repeat (destruct p as [p|p|]; try (lazymatch goal with |- step_goal _ _ _ None => exact I end)).
  all: try (apply (step_name _ 0 false); [lia|exact R|reflexivity]).
  all: try (apply (step_name _ 0 true); [lia|exact R|reflexivity]).
  all: try (apply (step_name _ 1 false); [lia|exact R|reflexivity]).
  all: try (apply (step_name _ 1 true); [lia|exact R|reflexivity]).
  all: try (apply (step_name _ 2 false); [lia|exact R|reflexivity]).
  all: try (apply (step_name _ 2 true); [lia|exact R|reflexivity]).
  all: try (apply (step_name _ 3 false); [lia|exact R|reflexivity]).
  all: try (apply (step_name _ 3 true); [lia|exact R|reflexivity]).
  all: try (apply (step_elem _ true (cov_placement 17) (m_placement 17)); [intros; eapply rd_placement_ok; eassumption|reflexivity|exact R|reflexivity]).
  all: try (apply (step_elem _ true (cov_placement 18) (m_placement 18)); [intros; eapply rd_placement_ok; eassumption|reflexivity|exact R|reflexivity]).
  all: try (apply (step_elem _ true cov_text m_text); [intros; eapply rd_text_ok; eassumption|reflexivity|exact R|reflexivity]).
  all: try (apply (step_elem _ false cov_rectangle m_rectangle); [intros; eapply rd_rectangle_ok; eassumption|reflexivity|exact R|reflexivity]).
  all: try (apply (step_elem _ false cov_polygon m_polygon); [intros; eapply rd_polygon_ok; eassumption|reflexivity|exact R|reflexivity]).
  all: try (apply (step_elem _ false cov_path m_path); [intros; eapply rd_path_ok; eassumption|reflexivity|exact R|reflexivity]).
  all: try (apply (step_elem _ false (cov_trapezoid 23) (m_trapezoid 23)); [intros; eapply rd_trapezoid_ok; eassumption|reflexivity|exact R|reflexivity]).
  all: try (apply (step_elem _ false (cov_trapezoid 24) (m_trapezoid 24)); [intros; eapply rd_trapezoid_ok; eassumption|reflexivity|exact R|reflexivity]).
  all: try (apply (step_elem _ false (cov_trapezoid 25) (m_trapezoid 25)); [intros; eapply rd_trapezoid_ok; eassumption|reflexivity|exact R|reflexivity]).
  all: try (apply (step_elem _ false cov_circle m_circle); [intros; eapply rd_circle_ok; eassumption|reflexivity|exact R|reflexivity]).
  all: try (apply (step_elem _ false cov_ctrapezoid m_ctrapezoid);
            [intros m0 q0 info0 bs0 e0 m0' bs0' Hr0 Hc0; destruct (rd_ctrapezoid_ok false _ _ _ _ _ _ _ Hr0 Hc0) as (q' & H1 & H2);
             exists q'; split; [exact H1|exact (H2 eq_refl)]
            |reflexivity|exact R|reflexivity]).
  all: try (apply (step_xy true); [exact R|reflexivity]).
  all: try (apply (step_xy false); [exact R|reflexivity]).
  all: try (apply step_layername; [exact R|reflexivity]).
  all: try (apply step_property; [exact R|auto|reflexivity]).
  all: try (apply step_end; exact R).
  - pose proof (step_cell true 13 d st t R (fun s => eq_refl)) as Hc. unfold rd_nref in Hc.
    destruct (rd_uint t) as [[n b]|]; cbn [obnd] in *; exact Hc.
  - pose proof (step_cell false 14 d st t R (fun s => eq_refl)) as Hc. unfold rd_nref in Hc.
    destruct (rd_string t) as [[n b]|]; cbn [obnd] in *; exact Hc.
Qed.

(* ================================================================== the record loop and the whole file *)
Lemma loop_ok : forall f ois d bs L st f',
  srel d st -> cov_loop f ois d bs = Some L -> (f <= f')%nat -> r_loop f' st (mkS bs None) = Ok (view L).
Proof.
  induction f as [|f IH]; intros ois d bs L st f' R H Hf; [discriminate|].
  cbn [cov_loop] in H. destruct f' as [|f']; [lia|].
  destruct bs as [|id t]; [discriminate|].
  pose proof (record_step_ok ois d st id t R) as Hs.
  destruct (cov_record ois d (id :: t)) as [[l|d' bs']|]; [| |discriminate]; cbn [step_goal] in Hs.
  - injection H as <-. cbn [r_loop]. unfold rd1. cbn [s_bs s_err]. rewrite Hs. reflexivity.
  - destruct Hs as (st' & Hh & R'). cbn [r_loop]. unfold rd1. cbn [s_bs s_err]. rewrite Hh.
    apply (IH ois d' bs' L st' f' R' H). lia.
Qed.

Lemma srel_init u : srel (d_init u) (q_init u).
Proof.
  constructor; cbn; auto.
  - constructor; cbn; auto.
  - intros k s H. discriminate.
  - intros k s H. discriminate.
  - intros k s H. discriminate.
  - intros k s H. discriminate.
  - intros w Hw _. destruct (w4_cases w Hw) as [-> | [-> | [-> | ->]]]; reflexivity.
  - intros k s e H. discriminate.
  - intros ke p [].
  - intros ke [].
  - intros ke [].
  - intros ke [].
  - constructor.
Qed.

Lemma strip_prefix_app_l p q : forall bs b1 b2,
  strip_prefix p bs = Some b1 -> strip_prefix q b1 = Some b2 -> strip_prefix (p ++ q) bs = Some b2.
Proof.
  induction p as [|a p IH]; intros bs b1 b2 H1 H2; cbn [strip_prefix app] in *.
  - injection H1 as <-. exact H2.
  - destruct bs as [|b t]; [discriminate|]. destruct (a =? b); [|discriminate]. eapply IH; eassumption.
Qed.

Lemma version_eq v x : strip_prefix version_1_0 v = Some x -> (length v =? 3)%nat = true -> bytes_eqb v version_1_0 = true.
Proof.
  unfold version_1_0. intros H Hl.
  destruct v as [|a [|b [|c [|e v]]]]; cbn in Hl; try discriminate.
  cbn [strip_prefix] in H.
  destruct (49 =? a) eqn:E1; [|discriminate]. destruct (46 =? b) eqn:E2; [|discriminate].
  destruct (48 =? c) eqn:E3; [|discriminate].
  apply N.eqb_eq in E1, E2, E3. subst. reflexivity.
Qed.

Lemma skip_uints_ok : forall k a bs l r,
  rd_n rd_uint k bs = Some (l, r) -> fold_left (fun s (_ : nat) => snd (s_uint s)) (seq a k) (mkS bs None) = mkS r None.
Proof.
  induction k as [|k IH]; intros a bs l r H; cbn [rd_n] in H.
  - injection H as <- <-. reflexivity.
  - destruct (rd_uint bs) as [[v b1]|] eqn:E; cbn [obnd] in H; [|discriminate].
    destruct (rd_n rd_uint k b1) as [[l0 r0]|] eqn:E2; cbn [obnd] in H; [|discriminate]. injection H as <- <-.
    cbn [seq fold_left]. rewrite (s_uint_ok _ _ _ E). cbn [snd]. exact (IH _ _ _ _ E2).
Qed.

Theorem cov_reader_ok_lemma : forall bs L, cov_oas_decode bs = Some L -> read_oas_model bs = Ok (view L).
Proof.
  intros bs L H. unfold cov_oas_decode in H.
  destruct (strip_prefix magic bs) as [b1|] eqn:Em; cbn [obnd] in H; [|discriminate].
  destruct (rd_byte b1) as [[id b2]|] eqn:Eid; cbn [obnd] in H; [|discriminate].
  destruct (negb (id =? 1)) eqn:E1; [discriminate|].
  apply negb_false_iff in E1. apply N.eqb_eq in E1. subst id.
  destruct (rd_string b2) as [[v b3]|] eqn:Ev; cbn [obnd] in H; [|discriminate].
  destruct (strip_prefix version_1_0 v) as [x|] eqn:Ever; cbn [obnd] in H; [|discriminate].
  destruct (negb (length v =? 3)%nat) eqn:El; [discriminate|]. apply negb_false_iff in El.
  destruct (cov_real b3) as [[u b4]|] eqn:Eu; cbn [obnd] in H; [|discriminate].
  destruct (rd_uint b4) as [[flag b5]|] eqn:Ef; cbn [obnd] in H; [|discriminate].
  destruct (1 <? flag) eqn:Efl; [discriminate|].
  destruct (if flag =? 0 then rd_count rd_uint 12 b5 else Some ([], b5)) as [[o b6]|] eqn:Eo; cbn [obnd] in H; [|discriminate].
  unfold read_oas_model, magic_start.
  assert (Hb1 : strip_prefix [1] b1 = Some b2).
  { destruct b1 as [|b t]; cbn [rd_byte] in Eid; [discriminate|]. injection Eid as -> ->. reflexivity. }
  rewrite (strip_prefix_app_l _ _ _ _ _ Em Hb1).
  rewrite (s_string_ok false _ _ _ Ev). cbn [s_err].
  rewrite (version_eq _ _ Ever El). cbn [negb].
  rewrite (s_real_ok _ _ _ Eu). rewrite (s_uint_ok _ _ _ Ef).
  assert (Hs4 : (if flag =? 0 then fold_left (fun s (_ : nat) => snd (s_uint s)) (seq 0 12) (mkS b5 None) else mkS b5 None)
                = mkS b6 None).
  { destruct (flag =? 0).
    - unfold rd_count in Eo. destruct (N.of_nat (length b5) <? 12); [discriminate|].
      exact (skip_uints_ok _ _ _ _ _ Eo).
    - injection Eo as _ <-. reflexivity. }
  rewrite Hs4. cbn [s_bs].
  apply (loop_ok (S (length b6)) (flag =? 0) (d_init u) b6 L (q_init u)); [apply srel_init|exact H|lia].
Qed.

(* the statement for ALL byte streams is false (see the *_refuted lemmas below); proved part: every stream the covered
   restriction of the strict decoder accepts *)
Theorem oas_reader_accepts_spec_partial_lemma : forall bs L,
  spec_oas_decode bs = Some L -> covered bs -> read_oas_model bs = Ok (view L).
Proof.
  intros bs L Hs Hc. unfold covered in Hc.
  destruct (cov_oas_decode bs) as [L'|] eqn:E; [|congruence].
  pose proof (cov_refines_spec_lemma _ _ E) as Hs'. rewrite Hs in Hs'. injection Hs' as ->.
  apply cov_reader_ok_lemma. exact E.
Qed.

(* ================================================================== examples and counterexamples *)
Definition w_hdr : list N := magic ++ [1; 3; 49; 46; 48; 0; 1; 1].
Definition w_cell_a : list N := [14; 1; 65].
Definition w_prop : list N := [28; 20; 1; 80; 8; 7].          (* PROPERTY "P" = (unsigned 7) *)

(* the hypotheses of the partial theorem are satisfiable: CELL "A", a RECTANGLE with a repetition, a by-number TEXT whose
   TEXTSTRING comes later, a PLACEMENT, a property *)
Definition ex_covered : list N :=
  w_hdr ++ w_cell_a ++ [20; 127; 1; 0; 10; 20; 3; 5; 2; 1; 7] ++ w_prop ++ [19; 123; 0; 1; 0; 2; 4]
        ++ [17; 176; 1; 66; 6; 8] ++ [5; 1; 84] ++ end_record.
Example ex_covered_ok : covered ex_covered /\ exists L, spec_oas_decode ex_covered = Some L /\ read_oas_model ex_covered = Ok (view L).
Proof.
  split; [unfold covered; vm_compute; discriminate|].
  destruct (cov_oas_decode ex_covered) as [L|] eqn:E; [|vm_compute in E; discriminate].
  exists L. split; [apply cov_refines_spec_lemma; exact E|apply cov_reader_ok_lemma; exact E].
Qed.

(* The statement for ALL streams of the strict decoder is false.  Each witness below is accepted by spec_oas_decode and
   loaded differently (or not at all) by the reader model; the real read_oas was run on the same bytes and agrees with
   the model (see the report of unit c04r). *)
Definition refutes (bs : list N) : Prop :=
  exists L, spec_oas_decode bs = Some L /\ read_oas_model bs <> Ok (view L).
Ltac refute := unfold refutes; eexists; split; [vm_compute; reflexivity|vm_compute; discriminate].

(* a record id written as the two-byte unsigned integer 0x80 0x00 (PAD): UnsupportedRecord *)
Definition w1_nonminimal_record_id : list N := w_hdr ++ [128; 0] ++ end_record.
(* layer 2^32: truncated to 0 *)
Definition w2_layer_2pow32 : list N := w_hdr ++ w_cell_a ++ [20; 123; 128; 128; 128; 128; 16; 0; 1; 1; 0; 0] ++ end_record.
(* a PROPERTY after a TEXTSTRING record is copied onto the labels that use the string *)
Definition w3_textstring_props : list N := w_hdr ++ [5; 1; 84] ++ w_prop ++ w_cell_a ++ [19; 123; 0; 1; 0; 0; 0] ++ end_record.
(* a PROPERTY after a LAYERNAME record is attached to the element before it *)
Definition w4_layername_props : list N :=
  w_hdr ++ w_cell_a ++ [20; 123; 1; 0; 1; 1; 0; 0] ++ [11; 1; 76; 0; 0] ++ w_prop ++ end_record.
(* CTRAPEZOID type 25 leaves the modal height alone: the next RECTANGLE re-using it is 5 x 20, not 5 x 5 *)
Definition w5_ctrapezoid25_modal : list N :=
  w_hdr ++ w_cell_a ++ [20; 123; 1; 0; 10; 20; 0; 0] ++ [26; 192; 25; 5] ++ [20; 0] ++ end_record.
(* two CELL records with the same reference number: the CELLNAME properties go to the first only *)
Definition w6_two_cells_same_number : list N := w_hdr ++ [3; 1; 65] ++ w_prop ++ [13; 0] ++ [13; 0] ++ end_record.
(* a PATH with an empty point list: `last_ctrl = point_array[count - 2]` reads before the array *)
Definition w7_empty_path : list N := w_hdr ++ w_cell_a ++ [22; 251; 1; 0; 2; 5; 4; 0; 0; 0] ++ end_record.
(* repetition type 2 with x-dimension 2^64 - 2: `2 + n` wraps to 0 columns *)
Definition w8_repetition_count_wrap : list N :=
  w_hdr ++ w_cell_a ++ [20; 127; 1; 0; 1; 1; 0; 0; 2; 254; 255; 255; 255; 255; 255; 255; 255; 255; 1; 3] ++ end_record.
(* a PROPERTY after a PROPNAME record (not part of the layout) whose name is an undefined reference number: resolved at
   END all the same, out of the bounds of the table *)
Definition w9_dropped_property_dangling_name : list N := w_hdr ++ [7; 1; 78] ++ [28; 22; 5; 8; 7] ++ end_record.

Lemma oas_reader_accepts_spec_refuted_nonminimal : refutes w1_nonminimal_record_id. Proof. refute. Qed.
Lemma oas_reader_accepts_spec_refuted_layer32 : refutes w2_layer_2pow32. Proof. refute. Qed.
Lemma oas_reader_accepts_spec_refuted_textstring_props : refutes w3_textstring_props. Proof. refute. Qed.
Lemma oas_reader_accepts_spec_refuted_layername_props : refutes w4_layername_props. Proof. refute. Qed.
Lemma oas_reader_accepts_spec_refuted_ctrapezoid25 : refutes w5_ctrapezoid25_modal. Proof. refute. Qed.
Lemma oas_reader_accepts_spec_refuted_same_cell_number : refutes w6_two_cells_same_number. Proof. refute. Qed.
Lemma oas_reader_accepts_spec_refuted_empty_path : refutes w7_empty_path. Proof. refute. Qed.
Lemma oas_reader_accepts_spec_refuted_count_wrap : refutes w8_repetition_count_wrap. Proof. refute. Qed.
Lemma oas_reader_accepts_spec_refuted_dangling_name : refutes w9_dropped_property_dangling_name. Proof. refute. Qed.

Theorem oas_reader_accepts_spec_refuted_lemma :
  exists bs L, spec_oas_decode bs = Some L /\ read_oas_model bs <> Ok (view L).
Proof. destruct oas_reader_accepts_spec_refuted_nonminimal as (L & H1 & H2). eauto. Qed.

(* the element of a CTRAPEZOID of type 25 itself is loaded correctly (only the modal height differs) *)
Lemma rd_ctrapezoid25_element_lemma m q info bs e m' bs' :
  modal_rel m q -> cov_ctrapezoid_gen true m (info :: bs) = Some (e, m', bs') ->
  exists q', m_ctrapezoid q info (mkS bs None) = ROk (welem e, q') (mkS bs' None).
Proof. intros R H. destruct (rd_ctrapezoid_ok true _ _ _ _ _ _ _ R H) as (q' & H1 & _). eauto. Qed.
