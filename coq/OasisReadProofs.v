(* Proofs about the statement-level model of read_oas (OasisRead.v):
     - the helpers of the model agree with the strict primitive decoders on every input these accept;
     - per-record lemmas: each dec_<record> of the covered strict decoder and the reader's branch give the same
       element and related modal states (modal_rel);
     - cov_refines_spec: the covered decoder is a restriction of spec_oas_decode;
     - oas_reader_accepts_spec_partial_lemma: covered streams are loaded to view(L);
     - *_refuted: witnesses showing that the statement for all of spec_oas_decode is false. *)
Require Import Base OasisInt OasisSpec OasisRead.
From Coq Require Import ZifyBool ZifyN ZifyNat.
Local Open Scope N_scope.

(* ================================================================== primitives *)
Lemma o2o_ok {A} (x : outcome A) (a : A) : o2o x = Some a -> x = Ok a.
Proof. destruct x; cbn; intros H; try discriminate. congruence. Qed.

Lemma uint_loop_ok : forall bs result nbits v r,
  dec_uint_loop bs result nbits = Ok (v, r) -> uint_loop bs result nbits = (v, mkS r None).
Proof.
  induction bs as [|b t IH]; intros result nbits v r H; cbn [dec_uint_loop uint_loop] in *; [discriminate|].
  destruct ((nbits =? 63) && (1 <? b)); [discriminate|].
  destruct (0 <? N.land b 128).
  - apply IH. exact H.
  - congruence.
Qed.

Lemma s_uint_ok bs v r : rd_uint bs = Some (v, r) -> s_uint (mkS bs None) = (v, mkS r None).
Proof.
  unfold rd_uint. intros H. apply o2o_ok in H. unfold s_uint. cbn [s_err s_bs].
  destruct bs as [|b t]; cbn [dec_uint] in H; [discriminate|].
  destruct (0 <? N.land b 128).
  - apply uint_loop_ok. exact H.
  - congruence.
Qed.

Lemma int_loop_ok : forall bs result nbits v r,
  dec_int_loop bs result nbits = Ok (v, r) -> int_loop bs result nbits = (v, mkS r None).
Proof.
  induction bs as [|b t IH]; intros result nbits v r H; cbn [dec_int_loop int_loop] in *; [discriminate|].
  destruct ((56 <? nbits) && (0 <? N.shiftr b (63 - nbits))); [discriminate|].
  destruct (0 <? N.land b 128).
  - apply IH. exact H.
  - congruence.
Qed.

Lemma s_intern_ok skip bs v bits r :
  dec_int_internal skip bs = Ok (v, bits, r) -> s_intern skip (mkS bs None) = (v, bits, mkS r None).
Proof.
  unfold s_intern. cbn [s_err s_bs]. destruct bs as [|b t]; cbn [dec_int_internal]; [discriminate|].
  destruct (0 <? N.land b 128).
  - destruct (dec_int_loop t (N.shiftr (N.land b 127) skip) (7 - skip)) as [[v0 r0]| | | | |] eqn:E;
      cbn [obind]; try discriminate.
    intros [= <- <- <-]. rewrite (int_loop_ok _ _ _ _ _ E). reflexivity.
  - congruence.
Qed.

Lemma obind_ok {A B} (x : outcome A) (f : A -> outcome B) b :
  obind x f = Ok b -> exists a, x = Ok a /\ f a = Ok b.
Proof. destruct x; cbn; intros H; try discriminate. eauto. Qed.

Lemma s_int_ok bs z r : rd_int bs = Some (z, r) -> s_int (mkS bs None) = (z, mkS r None).
Proof.
  unfold rd_int, dec_int. intros H. apply o2o_ok in H. apply obind_ok in H.
  destruct H as [[[v bits] rest] [H1 H2]]. unfold s_int. rewrite (s_intern_ok _ _ _ _ _ H1).
  injection H2 as <- <-. reflexivity.
Qed.

Lemma s_2delta_ok bs p r : rd_2d bs = Some (p, r) -> s_2delta (mkS bs None) = (p, mkS r None).
Proof.
  unfold rd_2d, dec_2delta. destruct (obind (dec_int_internal 2 bs) _) as [[[x y] rest]| | | | |] eqn:E; try discriminate.
  intros [= <- <-]. apply obind_ok in E. destruct E as [[[v bits] rest0] [H1 H2]].
  unfold s_2delta. rewrite (s_intern_ok _ _ _ _ _ H1). injection H2 as H2 <-. rewrite H2. reflexivity.
Qed.

Lemma s_3delta_ok bs p r : rd_3d bs = Some (p, r) -> s_3delta (mkS bs None) = (p, mkS r None).
Proof.
  unfold rd_3d, dec_3delta. destruct (obind (dec_int_internal 3 bs) _) as [[[x y] rest]| | | | |] eqn:E; try discriminate.
  intros [= <- <-]. apply obind_ok in E. destruct E as [[[v bits] rest0] [H1 H2]].
  unfold s_3delta. rewrite (s_intern_ok _ _ _ _ _ H1). injection H2 as H2 <-. rewrite H2. reflexivity.
Qed.

Lemma s_gdelta_ok bs p r : rd_g bs = Some (p, r) -> s_gdelta (mkS bs None) = (p, mkS r None).
Proof.
  unfold rd_g, dec_gdelta, s_gdelta. cbn [s_err s_bs]. destruct bs as [|b t]; [discriminate|].
  destruct (N.land b 1 =? 0).
  - destruct (obind (dec_int_internal 4 (b :: t)) _) as [[[x y] rest]| | | | |] eqn:E; try discriminate.
    intros [= <- <-]. apply obind_ok in E. destruct E as [[[v bits] rest0] [H1 H2]].
    rewrite (s_intern_ok _ _ _ _ _ H1). injection H2 as H2 <-. rewrite H2. reflexivity.
  - destruct (obind (dec_int_internal 2 (b :: t)) _) as [[[x y] rest]| | | | |] eqn:E; try discriminate.
    intros [= <- <-]. apply obind_ok in E. destruct E as [[[vx bx] rest0] [H1 H2]].
    apply obind_ok in H2. destruct H2 as [[[vy by_] rest1] [H2 H3]].
    rewrite (s_intern_ok _ _ _ _ _ H1). rewrite (s_intern_ok _ _ _ _ _ H2).
    injection H3 as <- <- <-. reflexivity.
Qed.

(* ---- strings *)
Lemma take_n_firstn : forall n bs l r, take_n n bs = Some (l, r) -> l = firstn n bs /\ r = skipn n bs.
Proof.
  induction n as [|n IH]; intros bs l r H; cbn [take_n] in H.
  - injection H as <- <-. auto.
  - destruct bs as [|b t]; [discriminate|].
    destruct (take_n n t) as [[l0 r0]|] eqn:E; cbn [obnd] in H; [|discriminate].
    injection H as <- <-. destruct (IH _ _ _ E) as [-> ->]. auto.
Qed.

Lemma s_string_ok nul bs v r : rd_string bs = Some (v, r) -> s_string nul (mkS bs None) = ROk v (mkS r None).
Proof.
  unfold rd_string. destruct (rd_uint bs) as [[n bs1]|] eqn:E; cbn [obnd]; [|discriminate].
  unfold rd_bytes. destruct (N.of_nat (length bs1) <? n) eqn:E2; [discriminate|].
  intros H. apply take_n_firstn in H. destruct H as [-> ->].
  unfold s_string. rewrite (s_uint_ok _ _ _ E). cbn [s_bs s_err]. rewrite E2.
  destruct (negb nul && (n =? 0)) eqn:E3; [|reflexivity].
  apply andb_prop in E3. destruct E3 as [_ E3]. apply N.eqb_eq in E3. subst n. reflexivity.
Qed.

(* ---- reals *)
Lemma small1_cons bs : small1 bs = true -> exists b t, bs = b :: t /\ b < 128.
Proof. destruct bs as [|b t]; cbn; [discriminate|]. intros H. apply N.ltb_lt in H. eauto. Qed.

Lemma rd_uint_small1 b t : b < 128 -> rd_uint (b :: t) = Some (b, t).
Proof.
  intros H. unfold rd_uint. cbn [dec_uint].
  assert (E : N.land b 128 = 0).
  { apply N.bits_inj_0. intros i. rewrite N.land_spec.
    destruct (N.eq_dec i 7) as [->|Hi].
    - replace (N.testbit b 7) with false; [reflexivity|]. symmetry.
      destruct (N.eq_dec b 0) as [->|Hb]; [apply N.bits_0|]. apply N.bits_above_log2. apply N.log2_lt_pow2; lia.
    - replace (N.testbit 128 i) with false; [apply andb_false_r|]. symmetry.
      change 128 with (2 ^ 7). apply N.pow2_bits_false. congruence. }
  rewrite E. cbn [N.ltb N.compare o2o].
  replace (N.land b 127) with b; [reflexivity|].
  change 127 with (N.ones 7). rewrite N.land_ones. symmetry. apply N.mod_small. exact H.
Qed.

Lemma take_n_rdn k bs l r : take_n k bs = Some (l, r) -> rdn k (mkS bs None) = (Some l, mkS r None).
Proof.
  intros H. unfold rdn. cbn [s_bs s_err].
  assert (Hl : (k <= length bs)%nat).
  { revert bs l r H. induction k as [|k IH]; intros bs l r H; [lia|].
    cbn [take_n] in H. destruct bs as [|b t]; [discriminate|].
    destruct (take_n k t) as [[l0 r0]|] eqn:E; [|discriminate]. cbn. specialize (IH _ _ _ E). lia. }
  replace (length bs <? k)%nat with false by (symmetry; apply Nat.ltb_ge; exact Hl).
  apply take_n_firstn in H. destruct H as [-> ->]. reflexivity.
Qed.

Lemma s_real_by_ok ty bs v r : rd_real_by ty bs = Some (v, r) -> s_real_by ty (mkS bs None) = (v, mkS r None).
Proof.
  unfold rd_real_by, s_real_by.
  destruct ty as [|p]; [|do 3 (destruct p as [p|p|]; try discriminate)].
  all: try (destruct (rd_uint bs) as [[n r1]|] eqn:E; cbn [obnd]; [|discriminate];
            try (destruct (rd_uint r1) as [[n2 r2]|] eqn:E2; cbn [obnd]; [|discriminate];
                 intros [= <- <-]; rewrite (s_uint_ok _ _ _ E), (s_uint_ok _ _ _ E2); reflexivity);
            intros [= <- <-]; rewrite (s_uint_ok _ _ _ E); reflexivity).
  all: (match goal with |- context [take_n ?k bs] => destruct (take_n k bs) as [[l r1]|] eqn:E end;
        cbn [obnd]; [|discriminate]; intros [= <- <-]; rewrite (take_n_rdn _ _ _ _ E); reflexivity).
Qed.

Lemma s_real_ok bs v r : cov_real bs = Some (v, r) -> s_real (mkS bs None) = (v, mkS r None).
Proof.
  unfold cov_real. destruct (small1 bs) eqn:E; [|discriminate].
  apply small1_cons in E. destruct E as (b & t & -> & Hb).
  unfold rd_real. rewrite rd_uint_small1 by exact Hb. cbn [obnd]. intros H.
  unfold s_real, rd1. cbn [s_bs s_err]. apply s_real_by_ok. exact H.
Qed.

(* ---- counted loops *)
Section Loop.
  Context {A B : Type} (rd : list N -> option (B * list N)) (body : A -> strm -> A * strm) (step : A -> B -> A).
  Hypothesis body_ok : forall a bs b r, rd bs = Some (b, r) -> body a (mkS bs None) = (step a b, mkS r None).

  Lemma s_loop_ok pf : forall k fuel bs l r acc,
    rd_n rd k bs = Some (l, r) -> (k <= fuel)%nat ->
    s_loop fuel body pf (N.of_nat k) acc (mkS bs None) = ROk (fold_left step l acc) (mkS r None).
  Proof.
    induction k as [|k IH]; intros fuel bs l r acc H Hf.
    - cbn [rd_n] in H. injection H as <- <-. destruct fuel; reflexivity.
    - cbn [rd_n] in H. destruct (rd bs) as [[b bs1]|] eqn:E; cbn [obnd] in H; [|discriminate].
      destruct (rd_n rd k bs1) as [[l0 r0]|] eqn:E2; cbn [obnd] in H; [|discriminate].
      injection H as <- <-. destruct fuel as [|f]; [lia|].
      cbn [s_loop]. replace (N.of_nat (S k) =? 0) with false by (symmetry; apply N.eqb_neq; lia).
      cbn [s_err]. rewrite (body_ok _ _ _ _ E).
      replace (N.of_nat (S k) - 1) with (N.of_nat k) by lia.
      rewrite (IH f bs1 l0 r0 (step acc b) E2) by lia. reflexivity.
  Qed.

  Lemma s_alloc_loop_ok esize have pf n bs l r acc :
    rd_count rd n bs = Some (l, r) -> (have + n) * esize < 68719476736 ->
    s_alloc_loop esize have body pf n acc (mkS bs None) = ROk (fold_left step l acc) (mkS r None).
  Proof.
    unfold rd_count. destruct (N.of_nat (length bs) <? n) eqn:E; [discriminate|]. intros H Hb.
    unfold s_alloc_loop, alloc_fails.
    replace (68719476736 <=? (have + n) * esize) with false by (symmetry; apply N.leb_gt; exact Hb).
    cbn [andb s_bs]. rewrite <- (N2Nat.id n) at 1. apply s_loop_ok; [exact H|].
    apply N.ltb_ge in E. lia.
  Qed.
End Loop.

Lemma rd_n_length {B} (rd : list N -> option (B * list N)) : forall k bs l r,
  rd_n rd k bs = Some (l, r) -> length l = k.
Proof.
  induction k as [|k IH]; intros bs l r H; cbn [rd_n] in H.
  - injection H as <- <-. reflexivity.
  - destruct (rd bs) as [[b bs1]|]; cbn [obnd] in H; [|discriminate].
    destruct (rd_n rd k bs1) as [[l0 r0]|] eqn:E; cbn [obnd] in H; [|discriminate].
    injection H as <- <-. cbn. f_equal. eapply IH. exact E.
Qed.
Lemma rd_count_length {B} (rd : list N -> option (B * list N)) n bs l r :
  rd_count rd n bs = Some (l, r) -> N.of_nat (length l) = n.
Proof.
  unfold rd_count. destruct (N.of_nat (length bs) <? n); [discriminate|]. intros H.
  apply rd_n_length in H. lia.
Qed.
