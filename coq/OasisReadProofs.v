(* Proofs about the statement-level model of read_oas (OasisRead.v):
     - the helpers of the model agree with the strict primitive decoders on every input these accept;
     - per-record lemmas: each dec_<record> of the covered strict decoder and the reader's branch give the same
       element and related modal states (modal_rel);
     - cov_refines_spec: the covered decoder is a restriction of spec_oas_decode;
     - oas_reader_accepts_spec_partial_lemma: covered streams are loaded to view(L);
     - *_refuted: witnesses showing that the statement for all of spec_oas_decode is false. *)
Require Import Base OasisInt OasisSpec OasisRead.
From Coq Require Import ZifyBool ZifyN ZifyNat.
Local Open Scope N_scope.

(* ================================================================== primitives *)
Lemma o2o_ok {A} (x : outcome A) (a : A) : o2o x = Some a -> x = Ok a.
Proof. destruct x; cbn; intros H; try discriminate. congruence. Qed.

Lemma uint_loop_ok : forall bs result nbits v r,
  dec_uint_loop bs result nbits = Ok (v, r) -> uint_loop bs result nbits = (v, mkS r None).
Proof.
  induction bs as [|b t IH]; intros result nbits v r H; cbn [dec_uint_loop uint_loop] in *; [discriminate|].
  destruct ((nbits =? 63) && (1 <? b)); [discriminate|].
  destruct (0 <? N.land b 128).
  - apply IH. exact H.
  - congruence.
Qed.

Lemma s_uint_ok bs v r : rd_uint bs = Some (v, r) -> s_uint (mkS bs None) = (v, mkS r None).
Proof.
  unfold rd_uint. intros H. apply o2o_ok in H. unfold s_uint. cbn [s_err s_bs].
  destruct bs as [|b t]; cbn [dec_uint] in H; [discriminate|].
  destruct (0 <? N.land b 128).
  - apply uint_loop_ok. exact H.
  - congruence.
Qed.

Lemma int_loop_ok : forall bs result nbits v r,
  dec_int_loop bs result nbits = Ok (v, r) -> int_loop bs result nbits = (v, mkS r None).
Proof.
  induction bs as [|b t IH]; intros result nbits v r H; cbn [dec_int_loop int_loop] in *; [discriminate|].
  destruct ((56 <? nbits) && (0 <? N.shiftr b (63 - nbits))); [discriminate|].
  destruct (0 <? N.land b 128).
  - apply IH. exact H.
  - congruence.
Qed.

Lemma s_intern_ok skip bs v bits r :
  dec_int_internal skip bs = Ok (v, bits, r) -> s_intern skip (mkS bs None) = (v, bits, mkS r None).
Proof.
  unfold s_intern. cbn [s_err s_bs]. destruct bs as [|b t]; cbn [dec_int_internal]; [discriminate|].
  destruct (0 <? N.land b 128).
  - destruct (dec_int_loop t (N.shiftr (N.land b 127) skip) (7 - skip)) as [[v0 r0]| | | | |] eqn:E;
      cbn [obind]; try discriminate.
    intros [= <- <- <-]. rewrite (int_loop_ok _ _ _ _ _ E). reflexivity.
  - congruence.
Qed.

Lemma obind_ok {A B} (x : outcome A) (f : A -> outcome B) b :
  obind x f = Ok b -> exists a, x = Ok a /\ f a = Ok b.
Proof. destruct x; cbn; intros H; try discriminate. eauto. Qed.

Lemma s_int_ok bs z r : rd_int bs = Some (z, r) -> s_int (mkS bs None) = (z, mkS r None).
Proof.
  unfold rd_int, dec_int. intros H. apply o2o_ok in H. apply obind_ok in H.
  destruct H as [[[v bits] rest] [H1 H2]]. unfold s_int. rewrite (s_intern_ok _ _ _ _ _ H1).
  injection H2 as <- <-. reflexivity.
Qed.

Lemma s_2delta_ok bs p r : rd_2d bs = Some (p, r) -> s_2delta (mkS bs None) = (p, mkS r None).
Proof.
  unfold rd_2d, dec_2delta. destruct (obind (dec_int_internal 2 bs) _) as [[[x y] rest]| | | | |] eqn:E; try discriminate.
  intros [= <- <-]. apply obind_ok in E. destruct E as [[[v bits] rest0] [H1 H2]].
  unfold s_2delta. rewrite (s_intern_ok _ _ _ _ _ H1). injection H2 as H2 <-. rewrite H2. reflexivity.
Qed.

Lemma s_3delta_ok bs p r : rd_3d bs = Some (p, r) -> s_3delta (mkS bs None) = (p, mkS r None).
Proof.
  unfold rd_3d, dec_3delta. destruct (obind (dec_int_internal 3 bs) _) as [[[x y] rest]| | | | |] eqn:E; try discriminate.
  intros [= <- <-]. apply obind_ok in E. destruct E as [[[v bits] rest0] [H1 H2]].
  unfold s_3delta. rewrite (s_intern_ok _ _ _ _ _ H1). injection H2 as H2 <-. rewrite H2. reflexivity.
Qed.

Lemma s_gdelta_ok bs p r : rd_g bs = Some (p, r) -> s_gdelta (mkS bs None) = (p, mkS r None).
Proof.
  unfold rd_g, dec_gdelta, s_gdelta. cbn [s_err s_bs]. destruct bs as [|b t]; [discriminate|].
  destruct (N.land b 1 =? 0).
  - destruct (obind (dec_int_internal 4 (b :: t)) _) as [[[x y] rest]| | | | |] eqn:E; try discriminate.
    intros [= <- <-]. apply obind_ok in E. destruct E as [[[v bits] rest0] [H1 H2]].
    rewrite (s_intern_ok _ _ _ _ _ H1). injection H2 as H2 <-. rewrite <- H2. reflexivity.
  - destruct (obind (dec_int_internal 2 (b :: t)) _) as [[[x y] rest]| | | | |] eqn:E; try discriminate.
    intros [= <- <-]. apply obind_ok in E. destruct E as [[[vx bx] rest0] [H1 H2]].
    apply obind_ok in H2. destruct H2 as [[[vy by_] rest1] [H2 H3]].
    rewrite (s_intern_ok _ _ _ _ _ H1). rewrite (s_intern_ok _ _ _ _ _ H2).
    injection H3 as <- <- <-. reflexivity.
Qed.

(* ---- strings *)
Lemma take_n_firstn : forall n bs l r, take_n n bs = Some (l, r) -> l = firstn n bs /\ r = skipn n bs.
Proof.
  induction n as [|n IH]; intros bs l r H; cbn [take_n] in H.
  - injection H as <- <-. auto.
  - destruct bs as [|b t]; [discriminate|].
    destruct (take_n n t) as [[l0 r0]|] eqn:E; cbn [obnd] in H; [|discriminate].
    injection H as <- <-. destruct (IH _ _ _ E) as [-> ->]. auto.
Qed.

Lemma s_string_ok nul bs v r : rd_string bs = Some (v, r) -> s_string nul (mkS bs None) = ROk v (mkS r None).
Proof.
  unfold rd_string. destruct (rd_uint bs) as [[n bs1]|] eqn:E; cbn [obnd]; [|discriminate].
  unfold rd_bytes. destruct (N.of_nat (length bs1) <? n) eqn:E2; [discriminate|].
  intros H. apply take_n_firstn in H. destruct H as [-> ->].
  unfold s_string. rewrite (s_uint_ok _ _ _ E). cbn [s_bs s_err]. rewrite E2.
  destruct (negb nul && (n =? 0)) eqn:E3; [|reflexivity].
  apply andb_prop in E3. destruct E3 as [_ E3]. apply N.eqb_eq in E3. subst n. reflexivity.
Qed.

(* ---- reals *)
Lemma small1_cons bs : small1 bs = true -> exists b t, bs = b :: t /\ b < 128.
Proof. destruct bs as [|b t]; cbn; [discriminate|]. intros H. apply N.ltb_lt in H. eauto. Qed.

Lemma rd_uint_small1 b t : b < 128 -> rd_uint (b :: t) = Some (b, t).
Proof.
  intros H. unfold rd_uint. cbn [dec_uint].
  assert (E : N.land b 128 = 0).
  { apply N.bits_inj_0. intros i. rewrite N.land_spec.
    destruct (N.eq_dec i 7) as [->|Hi].
    - replace (N.testbit b 7) with false; [reflexivity|]. symmetry.
      destruct (N.eq_dec b 0) as [->|Hb]; [apply N.bits_0|]. apply N.bits_above_log2. apply N.log2_lt_pow2; lia.
    - replace (N.testbit 128 i) with false; [apply andb_false_r|]. symmetry.
      change 128 with (2 ^ 7). apply N.pow2_bits_false. congruence. }
  rewrite E. cbn [N.ltb N.compare o2o].
  replace (N.land b 127) with b; [reflexivity|].
  change 127 with (N.ones 7). rewrite N.land_ones. symmetry. apply N.mod_small. exact H.
Qed.

Lemma take_n_rdn k bs l r : take_n k bs = Some (l, r) -> rdn k (mkS bs None) = (Some l, mkS r None).
Proof.
  intros H. unfold rdn. cbn [s_bs s_err].
  assert (Hl : (k <= length bs)%nat).
  { revert bs l r H. induction k as [|k IH]; intros bs l r H; [lia|].
    cbn [take_n] in H. destruct bs as [|b t]; [discriminate|].
    destruct (take_n k t) as [[l0 r0]|] eqn:E; [|discriminate]. cbn. specialize (IH _ _ _ E). lia. }
  replace (length bs <? k)%nat with false by (symmetry; apply Nat.ltb_ge; exact Hl).
  apply take_n_firstn in H. destruct H as [-> ->]. reflexivity.
Qed.

Lemma s_real_by_ok ty bs v r : rd_real_by ty bs = Some (v, r) -> s_real_by ty (mkS bs None) = (v, mkS r None).
Proof.
  unfold rd_real_by, s_real_by.
  destruct ty as [|p]; [|repeat (destruct p as [p|p|]; try discriminate)].
  all: try (destruct (rd_uint bs) as [[n r1]|] eqn:E; cbn [obnd]; [|discriminate];
            try (destruct (rd_uint r1) as [[n2 r2]|] eqn:E2; cbn [obnd]; [|discriminate];
                 intros [= <- <-]; rewrite (s_uint_ok _ _ _ E), (s_uint_ok _ _ _ E2); reflexivity);
            intros [= <- <-]; rewrite (s_uint_ok _ _ _ E); reflexivity).
  all: (match goal with |- context [take_n ?k ?b] => destruct (take_n k b) as [[l r1]|] eqn:E end;
        cbn [obnd]; [|discriminate]; intros [= <- <-]; rewrite (take_n_rdn _ _ _ _ E); reflexivity).
Qed.

Lemma s_real_ok bs v r : cov_real bs = Some (v, r) -> s_real (mkS bs None) = (v, mkS r None).
Proof.
  unfold cov_real. destruct (small1 bs) eqn:E; [|discriminate].
  apply small1_cons in E. destruct E as (b & t & -> & Hb).
  unfold rd_real. rewrite rd_uint_small1 by exact Hb. cbn [obnd]. intros H.
  unfold s_real, rd1. cbn [s_bs s_err]. apply s_real_by_ok. exact H.
Qed.

(* ---- counted loops *)
Section Loop.
  Context {A B : Type} (rd : list N -> option (B * list N)) (body : A -> strm -> A * strm) (step : A -> B -> A).
  Hypothesis body_ok : forall a bs b r, rd bs = Some (b, r) -> body a (mkS bs None) = (step a b, mkS r None).

  Lemma s_loop_ok pf : forall k fuel bs l r acc,
    rd_n rd k bs = Some (l, r) -> (k <= fuel)%nat ->
    s_loop fuel body pf (N.of_nat k) acc (mkS bs None) = ROk (fold_left step l acc) (mkS r None).
  Proof.
    induction k as [|k IH]; intros fuel bs l r acc H Hf.
    - cbn [rd_n] in H. injection H as <- <-. destruct fuel; reflexivity.
    - cbn [rd_n] in H. destruct (rd bs) as [[b bs1]|] eqn:E; cbn [obnd] in H; [|discriminate].
      destruct (rd_n rd k bs1) as [[l0 r0]|] eqn:E2; cbn [obnd] in H; [|discriminate].
      injection H as <- <-. destruct fuel as [|f]; [lia|].
      cbn [s_loop]. replace (N.of_nat (S k) =? 0) with false by (symmetry; apply N.eqb_neq; lia).
      cbn [s_err]. rewrite (body_ok _ _ _ _ E).
      replace (N.of_nat (S k) - 1) with (N.of_nat k) by lia.
      rewrite (IH f bs1 l0 r0 (step acc b) E2) by lia. reflexivity.
  Qed.

  Lemma s_alloc_loop_ok esize have pf n bs l r acc :
    rd_count rd n bs = Some (l, r) -> (have + n) * esize < 68719476736 ->
    s_alloc_loop esize have body pf n acc (mkS bs None) = ROk (fold_left step l acc) (mkS r None).
  Proof.
    unfold rd_count. destruct (N.of_nat (length bs) <? n) eqn:E; [discriminate|]. intros H Hb.
    unfold s_alloc_loop, alloc_fails.
    replace (68719476736 <=? (have + n) * esize) with false by (symmetry; apply N.leb_gt; exact Hb).
    cbn [andb s_bs]. rewrite <- (N2Nat.id n) at 1. apply s_loop_ok; [exact H|].
    apply N.ltb_ge in E. lia.
  Qed.
End Loop.

Lemma rd_n_length {B} (rd : list N -> option (B * list N)) : forall k bs l r,
  rd_n rd k bs = Some (l, r) -> length l = k.
Proof.
  induction k as [|k IH]; intros bs l r H; cbn [rd_n] in H.
  - injection H as <- <-. reflexivity.
  - destruct (rd bs) as [[b bs1]|]; cbn [obnd] in H; [|discriminate].
    destruct (rd_n rd k bs1) as [[l0 r0]|] eqn:E; cbn [obnd] in H; [|discriminate].
    injection H as <- <-. cbn. f_equal. eapply IH. exact E.
Qed.
Lemma rd_count_length {B} (rd : list N -> option (B * list N)) n bs l r :
  rd_count rd n bs = Some (l, r) -> N.of_nat (length l) = n.
Proof.
  unfold rd_count. destruct (N.of_nat (length bs) <? n); [discriminate|]. intros H.
  apply rd_n_length in H. lia.
Qed.

(* ================================================================== point lists *)
Lemma padd_comm a b : padd a b = padd b a.
Proof. unfold padd. f_equal; lia. Qed.

Definition alt_step (st : list pt * bool * pt) (d : Z) : list pt * bool * pt :=
  let '(acc, horizontal, ref) := st in
  let cur := if horizontal then ((fst ref + d)%Z, snd ref) else (fst ref, (snd ref + d)%Z) in
  (cur :: acc, negb horizontal, cur).
Lemma alt_body_ok a bs d r : rd_int bs = Some (d, r) -> plist_alt_body a (mkS bs None) = (alt_step a d, mkS r None).
Proof. intros H. unfold plist_alt_body, alt_step. destruct a as [[acc h] ref]. rewrite (s_int_ok _ _ _ H). reflexivity. Qed.
Lemma alt_fold : forall ds acc h p l last h',
  manh_accum h p ds = (l, last, h') -> fold_left alt_step ds (acc, h, p) = (rev l ++ acc, h', last).
Proof.
  induction ds as [|d t IH]; intros acc h p l last h' H; cbn [manh_accum] in H.
  - injection H as <- <- <-. reflexivity.
  - cbv zeta in H. destruct (manh_accum (negb h) _ t) as [[l0 last0] h0] eqn:E.
    injection H as <- <- <-. cbn [fold_left alt_step]. rewrite (IH _ _ _ _ _ _ E).
    cbn [rev]. rewrite <- app_assoc. reflexivity.
Qed.
Lemma manh_length : forall ds h p l last h', manh_accum h p ds = (l, last, h') -> length l = length ds.
Proof.
  induction ds as [|d t IH]; intros h p l last h' H; cbn [manh_accum] in H.
  - injection H as <- <- <-. reflexivity.
  - cbv zeta in H. destruct (manh_accum (negb h) _ t) as [[l0 last0] h0] eqn:E. injection H as <- <- <-.
    cbn. f_equal. eapply IH. exact E.
Qed.

Definition delta_step (st : list pt * pt) (d : pt) : list pt * pt :=
  let '(acc, ref) := st in (padd d ref :: acc, padd d ref).
Lemma delta_body_ok (srd : strm -> pt * strm) (rd : list N -> option (pt * list N)) :
  (forall bs p r, rd bs = Some (p, r) -> srd (mkS bs None) = (p, mkS r None)) ->
  forall a bs d r, rd bs = Some (d, r) -> plist_delta_body srd a (mkS bs None) = (delta_step a d, mkS r None).
Proof. intros Hs a bs d r H. unfold plist_delta_body, delta_step. destruct a as [acc ref]. rewrite (Hs _ _ _ H). reflexivity. Qed.
Lemma delta_fold : forall ds acc p,
  fst (fold_left delta_step ds (acc, p)) = rev (prefix_sums_pt p ds) ++ acc.
Proof.
  induction ds as [|d t IH]; intros acc p; [reflexivity|].
  cbn [fold_left delta_step prefix_sums_pt]. rewrite IH. rewrite (padd_comm d p).
  cbn [rev]. rewrite <- app_assoc. reflexivity.
Qed.
Lemma delta_fold' ds st : fst (fold_left delta_step ds st) = rev (prefix_sums_pt (snd st) ds) ++ fst st.
Proof. destruct st. apply delta_fold. Qed.
Lemma prefix_sums_pt_length : forall ds p, length (prefix_sums_pt p ds) = length ds.
Proof. induction ds as [|d t IH]; intros p; [reflexivity|]. cbn. f_equal. apply IH. Qed.

Definition rel_step (st : list pt * pt * pt) (d : pt) : list pt * pt * pt :=
  let '(acc, delta, ref) := st in
  let delta1 := padd delta d in
  let cur := padd delta1 ref in
  (cur :: acc, delta1, cur).
Lemma rel_body_ok a bs d r : rd_g bs = Some (d, r) -> plist_rel_body a (mkS bs None) = (rel_step a d, mkS r None).
Proof. intros H. unfold plist_rel_body, rel_step. destruct a as [[acc dl] ref]. rewrite (s_gdelta_ok _ _ _ H). reflexivity. Qed.
Lemma rel_fold : forall gs acc dl p,
  fst (fst (fold_left rel_step gs (acc, dl, p))) = rev (ddelta_accum p dl gs) ++ acc.
Proof.
  induction gs as [|g t IH]; intros acc dl p; [reflexivity|].
  cbn [fold_left rel_step ddelta_accum]. rewrite IH. rewrite (padd_comm (padd dl g) p).
  cbn [rev]. rewrite <- app_assoc. reflexivity.
Qed.
Lemma rel_fold' gs st :
  fst (fst (fold_left rel_step gs st)) = rev (ddelta_accum (snd st) (snd (fst st)) gs) ++ fst (fst st).
Proof. destruct st as [[a b] c]. apply rel_fold. Qed.
Lemma ddelta_length : forall gs p dl, length (ddelta_accum p dl gs) = length gs.
Proof. induction gs as [|g t IH]; intros p dl; [reflexivity|]. cbn. f_equal. apply IH. Qed.

Lemma lim31_alloc n have : n < lim31 -> have <= 2 -> (have + n) * 16 < 68719476736.
Proof. unfold lim31. intros. nia. Qed.

Lemma s_plist_ok closed bs pts r :
  cov_plist closed bs = Some (pts, r) -> s_plist closed (mkS bs None) = ROk pts (mkS r None).
Proof.
  unfold cov_plist. destruct (small1 bs) eqn:Es; [|discriminate].
  apply small1_cons in Es. destruct Es as (ty & t & -> & Hty).
  destruct (rd_plist closed (ty :: t)) as [[pts0 rest]|] eqn:E; cbn [obnd]; [|discriminate].
  destruct (N.of_nat (length pts0) <? lim31) eqn:El; [|discriminate]. intros [= <- <-].
  apply N.ltb_lt in El.
  unfold rd_plist in E. rewrite rd_uint_small1 in E by exact Hty. cbn [obnd] in E.
  destruct (rd_uint t) as [[n bs2]|] eqn:En; cbn [obnd] in E; [|discriminate].
  unfold s_plist, rd1. cbn [s_bs s_err]. rewrite (s_uint_ok _ _ _ En). cbn [s_err].
  assert (Halt : forall (f0 : bool),
    match (let? '(ds, bs) := rd_count rd_int n bs2 in
           let '(l, last, h) := manh_accum f0 (0, 0)%Z ds in
           Some (if closed then l ++ [if h then (0%Z, snd last) else (fst last, 0%Z)] else l, bs)) with
    | Some (pts, r) => N.of_nat (length pts) < lim31 ->
        (do '(acc, horizontal, last) <- s_alloc_loop 16 2 plist_alt_body 1 n ([], f0, (0, 0)%Z);
         rret (if closed then rev ((if horizontal then (0%Z, snd last) else (fst last, 0%Z)) :: acc) else rev acc))
          (mkS bs2 None) = ROk pts (mkS r None)
    | None => True
    end).
  { intros f0. destruct (rd_count rd_int n bs2) as [[ds bs3]|] eqn:Ec; cbn [obnd]; [|exact I].
    destruct (manh_accum f0 (0, 0)%Z ds) as [[l last] h] eqn:Em. intros El2.
    pose proof (rd_count_length _ _ _ _ _ Ec) as Hn. pose proof (manh_length _ _ _ _ _ _ Em) as Hl.
    unfold rbind.
    rewrite (s_alloc_loop_ok rd_int plist_alt_body alt_step alt_body_ok 16 2 1 n bs2 ds bs3 _ Ec).
    2:{ apply lim31_alloc; [|lia]. destruct closed; rewrite ?app_length in El2; cbn in El2; lia. }
    rewrite (alt_fold _ _ _ _ _ _ _ Em). rewrite app_nil_r. unfold rret.
    destruct closed; [|rewrite rev_involutive; reflexivity].
    cbn [rev]. rewrite rev_involutive. reflexivity. }
  assert (Hdelta : forall rd srd pf, (forall bs p r, rd bs = Some (p, r) -> srd (mkS bs None) = (p, mkS r None)) ->
    match (let? '(ds, bs) := rd_count rd n bs2 in Some (prefix_sums_pt (0, 0)%Z ds, bs)) with
    | Some (pts, r) => N.of_nat (length pts) < lim31 ->
        (do '(acc, _) <- s_alloc_loop 16 1 (plist_delta_body srd) pf n ([], (0, 0)%Z); rret (rev acc))
          (mkS bs2 None) = ROk pts (mkS r None)
    | None => True
    end).
  { intros rd srd pf Hrd. destruct (rd_count rd n bs2) as [[ds bs3]|] eqn:Ec; cbn [obnd]; [|exact I].
    intros El2. pose proof (rd_count_length _ _ _ _ _ Ec) as Hn.
    rewrite prefix_sums_pt_length in El2. unfold rbind.
    rewrite (s_alloc_loop_ok rd (plist_delta_body srd) delta_step (delta_body_ok _ _ Hrd)
               16 1 pf n bs2 ds bs3 _ Ec) by (apply lim31_alloc; lia).
    match goal with |- context [fold_left delta_step ds ?a] =>
      pose proof (delta_fold' ds a) as Hf; destruct (fold_left delta_step ds a) as [acc lastp] end.
    cbn [fst snd] in Hf. rewrite app_nil_r in Hf. subst acc. unfold rret. rewrite rev_involutive. reflexivity. }
  destruct ty as [|p]; [|repeat (destruct p as [p|p|]; try discriminate)].
  all: try (specialize (Halt true); cbv beta iota zeta in E; change (0 =? 0) with true in E;
            rewrite E in Halt; exact (Halt El)).
  all: try (specialize (Halt false); cbv beta iota zeta in E; change (1 =? 0) with false in E;
            rewrite E in Halt; exact (Halt El)).
  all: try (pose proof (Hdelta rd_2d s_2delta 1 s_2delta_ok) as Hd; rewrite E in Hd; exact (Hd El)).
  all: try (pose proof (Hdelta rd_3d s_3delta 1 s_3delta_ok) as Hd; rewrite E in Hd; exact (Hd El)).
  all: try (pose proof (Hdelta rd_g s_gdelta 0 s_gdelta_ok) as Hd; rewrite E in Hd; exact (Hd El)).
  (* 5 *)
  destruct (rd_count rd_g n bs2) as [[ds bs3]|] eqn:Ec; cbn [obnd] in E; [|discriminate].
  injection E as <- <-. pose proof (rd_count_length _ _ _ _ _ Ec) as Hn.
  rewrite ddelta_length in El. unfold rbind.
  rewrite (s_alloc_loop_ok rd_g plist_rel_body rel_step rel_body_ok 16 1 0 n bs2 ds bs3 _ Ec)
    by (apply lim31_alloc; lia).
  match goal with |- context [fold_left rel_step ds ?a] =>
    pose proof (rel_fold' ds a) as Hf; destruct (fold_left rel_step ds a) as [[acc dl] lastp] end.
  cbn [fst snd] in Hf. rewrite app_nil_r in Hf. subst acc. unfold rret. rewrite rev_involutive. reflexivity.
Qed.

(* ================================================================== repetitions *)
Definition orep_rel (mr : option srep) (cur : rrep) : Prop :=
  match mr with Some r => cur = view_rep r | None => True end.

Definition coord_step (g : N) (st : list N * N) (d : N) : list N * N :=
  let '(acc, x) := st in (x + g * d :: acc, x + g * d).
Lemma coord_body_ok g a bs d r : rd_uint bs = Some (d, r) -> rep_coord_body g a (mkS bs None) = (coord_step g a d, mkS r None).
Proof. intros H. unfold rep_coord_body, coord_step. destruct a as [acc x]. rewrite (s_uint_ok _ _ _ H). reflexivity. Qed.
Lemma coord_fold g : forall l acc a,
  fst (fold_left (coord_step g) l (acc, g * a)) = rev (map (fun x => g * x) (prefix_sums_N a l)) ++ acc.
Proof.
  induction l as [|d t IH]; intros acc a; [reflexivity|].
  cbn [fold_left coord_step prefix_sums_N map]. rewrite <- N.mul_add_distr_l. rewrite IH.
  cbn [rev]. rewrite <- app_assoc. reflexivity.
Qed.
Lemma coord_fold' g l st : snd st = 0 ->
  fst (fold_left (coord_step g) l st) = rev (map (fun x => g * x) (prefix_sums_N 0 l)) ++ fst st.
Proof. destruct st as [acc x]. cbn [snd fst]. intros ->. replace 0 with (g * 0) at 1 by lia. apply coord_fold. Qed.

Definition off_step (g : N) (st : list pt * pt) (d : pt) : list pt * pt :=
  let '(acc, v) := st in
  let v1 := ((fst v + Z.of_N g * fst d)%Z, (snd v + Z.of_N g * snd d)%Z) in (v1 :: acc, v1).
Lemma off_body_ok g a bs d r : rd_g bs = Some (d, r) -> rep_off_body g a (mkS bs None) = (off_step g a d, mkS r None).
Proof. intros H. unfold rep_off_body, off_step. destruct a as [acc x]. rewrite (s_gdelta_ok _ _ _ H). reflexivity. Qed.
Definition gscale (g : N) (p : pt) : pt := ((Z.of_N g * fst p)%Z, (Z.of_N g * snd p)%Z).
Lemma off_fold g : forall l acc a,
  fst (fold_left (off_step g) l (acc, gscale g a)) = rev (map (gscale g) (prefix_sums_pt a l)) ++ acc.
Proof.
  induction l as [|d t IH]; intros acc a; [reflexivity|].
  cbn [fold_left off_step prefix_sums_pt map].
  replace ((fst (gscale g a) + Z.of_N g * fst d)%Z, (snd (gscale g a) + Z.of_N g * snd d)%Z) with (gscale g (padd a d)).
  2:{ unfold gscale, padd. cbn [fst snd]. f_equal; lia. }
  rewrite IH. cbn [rev]. rewrite <- app_assoc. reflexivity.
Qed.
Lemma off_fold' g l st : snd st = (0, 0)%Z ->
  fst (fold_left (off_step g) l st) = rev (map (gscale g) (prefix_sums_pt (0, 0)%Z l)) ++ fst st.
Proof.
  destruct st as [acc x]. cbn [snd fst]. intros ->.
  replace (0, 0)%Z with (gscale g (0, 0)%Z) at 1 by (unfold gscale; cbn [fst snd]; f_equal; lia). apply off_fold.
Qed.

Lemma u64_small n : n < two64 -> u64 n = n.
Proof. intros H. unfold u64. apply N.mod_small. exact H. Qed.

Lemma rlac_inv {A} (rd : list N -> option (A * list N)) wg bs g l rest :
  rd_list_after_count rd wg bs = Some (g, l, rest) ->
  exists c bs1 bs2, rd_uint bs = Some (c, bs1) /\
    (if wg then exists gv, rd_uint bs1 = Some (gv, bs2) /\ g = Some gv else bs2 = bs1 /\ g = None) /\
    rd_count rd (c + 1) bs2 = Some (l, rest).
Proof.
  unfold rd_list_after_count. destruct (rd_uint bs) as [[c bs1]|] eqn:E; cbn [obnd]; [|discriminate].
  destruct wg.
  - destruct (rd_uint bs1) as [[gv bs2]|] eqn:E2; cbn [obnd]; [|discriminate].
    destruct (rd_count rd (c + 1) bs2) as [[l0 r0]|] eqn:E3; cbn [obnd]; [|discriminate].
    intros [= <- <- <-]. exists c, bs1, bs2. repeat split; eauto.
  - cbn [obnd]. destruct (rd_count rd (c + 1) bs1) as [[l0 r0]|] eqn:E3; cbn [obnd]; [|discriminate].
    intros [= <- <- <-]. exists c, bs1, bs1. repeat split; eauto.
Qed.

(* the two list forms of oasis_read_repetition *)
Lemma rep_coords_ok (k : list N -> rrep) (wg : bool) bs g l rest :
  rd_list_after_count rd_uint wg bs = Some (g, l, rest) -> N.of_nat (length l) < lim31 ->
  (let (c, s2) := s_uint (mkS bs None) in
   let count := u64 (1 + c) in
   let (gv, s3) := (if wg then s_uint s2 else (1, s2)) in
   (do '(acc, _) <- s_alloc_loop 8 0 (rep_coord_body gv) 1 count ([], 0); rret (k (rev acc))) s3)
  = ROk (k (map (fun x => grid_of g * x) (prefix_sums_N 0 l))) (mkS rest None).
Proof.
  intros H Hl. apply rlac_inv in H. destruct H as (c & bs1 & bs2 & Hc & Hg & Hcount).
  pose proof (rd_count_length _ _ _ _ _ Hcount) as Hn. unfold lim31 in Hl.
  rewrite (s_uint_ok _ _ _ Hc).
  replace (u64 (1 + c)) with (c + 1) by (rewrite u64_small; unfold two64; lia).
  assert (Hgo : (if wg then s_uint (mkS bs1 None) else (1, mkS bs1 None)) = (grid_of g, mkS bs2 None)).
  { destruct wg.
    - destruct Hg as (gv & Hgv & ->). rewrite (s_uint_ok _ _ _ Hgv). reflexivity.
    - destruct Hg as [-> ->]. reflexivity. }
  rewrite Hgo. unfold rbind.
  rewrite (s_alloc_loop_ok rd_uint (rep_coord_body (grid_of g)) (coord_step (grid_of g)) (coord_body_ok _)
             8 0 1 (c + 1) bs2 l rest _ Hcount) by lia.
  match goal with |- context [fold_left ?f l ?a] =>
    pose proof (coord_fold' (grid_of g) l a eq_refl) as Hf; destruct (fold_left f l a) as [acc lastp] end.
  cbn [fst] in Hf. subst acc. unfold rret. rewrite app_nil_r, rev_involutive. reflexivity.
Qed.

Lemma rep_offs_ok (wg : bool) bs g l rest :
  rd_list_after_count rd_g wg bs = Some (g, l, rest) -> N.of_nat (length l) < lim31 ->
  (let (c, s2) := s_uint (mkS bs None) in
   let count := u64 (1 + c) in
   let (gv, s3) := (if wg then s_uint s2 else (1, s2)) in
   (do '(acc, _) <- s_alloc_loop 16 0 (rep_off_body gv) 0 count ([], (0, 0)%Z); rret (RR_explicit (rev acc))) s3)
  = ROk (RR_explicit (map (gscale (grid_of g)) (prefix_sums_pt (0, 0)%Z l))) (mkS rest None).
Proof.
  intros H Hl. apply rlac_inv in H. destruct H as (c & bs1 & bs2 & Hc & Hg & Hcount).
  pose proof (rd_count_length _ _ _ _ _ Hcount) as Hn. unfold lim31 in Hl.
  rewrite (s_uint_ok _ _ _ Hc).
  replace (u64 (1 + c)) with (c + 1) by (rewrite u64_small; unfold two64; lia).
  assert (Hgo : (if wg then s_uint (mkS bs1 None) else (1, mkS bs1 None)) = (grid_of g, mkS bs2 None)).
  { destruct wg.
    - destruct Hg as (gv & Hgv & ->). rewrite (s_uint_ok _ _ _ Hgv). reflexivity.
    - destruct Hg as [-> ->]. reflexivity. }
  rewrite Hgo. unfold rbind.
  rewrite (s_alloc_loop_ok rd_g (rep_off_body (grid_of g)) (off_step (grid_of g)) (off_body_ok _)
             16 0 0 (c + 1) bs2 l rest _ Hcount) by lia.
  match goal with |- context [fold_left ?f l ?a] =>
    pose proof (off_fold' (grid_of g) l a eq_refl) as Hf; destruct (fold_left f l a) as [acc lastp] end.
  cbn [fst] in Hf. subst acc. unfold rret. rewrite app_nil_r, rev_involutive. reflexivity.
Qed.

Lemma lim31_u64 n : n < lim31 -> u64 (2 + n) = n + 2.
Proof. unfold lim31. intros H. rewrite u64_small by (unfold two64; lia). lia. Qed.

Lemma s_rep_ok mr cur bs r rest :
  cov_rep mr bs = Some (r, rest) -> orep_rel mr cur -> s_rep cur (mkS bs None) = ROk (view_rep r) (mkS rest None).
Proof.
  unfold cov_rep. destruct (small1 bs) eqn:Es; [|discriminate].
  apply small1_cons in Es. destruct Es as (ty & t & -> & Hty).
  destruct (rd_rep mr (ty :: t)) as [[r0 rest0]|] eqn:E; cbn [obnd]; [|discriminate].
  intros H Hrel.
  assert (Hs : (ty = 0 \/ rep_small r0 = true) /\ r0 = r /\ rest0 = rest).
  { destruct ty as [|p]; [destruct (true); injection H as <- <-; auto|].
    destruct (rep_small r0); [|discriminate]. injection H as <- <-. auto. }
  clear H. destruct Hs as (Hs & <- & <-).
  unfold rd_rep in E. rewrite rd_uint_small1 in E by exact Hty. cbn [obnd] in E.
  unfold s_rep, rd1. cbn [s_bs s_err].
  destruct ty as [|p]; [|repeat (destruct p as [p|p|]; try discriminate)]; first
    [ (* 0 *) solve [destruct mr as [r1|]; [|discriminate]; injection E as <- <-; cbn in Hrel; subst cur; reflexivity]
    | (* 4 5 6 7 *)
      solve [match type of E with context [rd_list_after_count rd_uint ?wg t] =>
        destruct (rd_list_after_count rd_uint wg t) as [[[g l] bs3]|] eqn:El; cbn [obnd] in E; [|discriminate];
        injection E as <- <-; destruct Hs as [Hs|Hs]; [discriminate|]; cbn [rep_small] in Hs; apply N.ltb_lt in Hs;
        first [exact (rep_coords_ok (fun l => RR_ex l) wg t g l bs3 El Hs)
              |exact (rep_coords_ok (fun l => RR_ey l) wg t g l bs3 El Hs)] end]
    | (* 10 11 *)
      solve [match type of E with context [rd_list_after_count rd_g ?wg t] =>
        destruct (rd_list_after_count rd_g wg t) as [[[g l] bs3]|] eqn:El; cbn [obnd] in E; [|discriminate];
        injection E as <- <-; destruct Hs as [Hs|Hs]; [discriminate|]; cbn [rep_small] in Hs; apply N.ltb_lt in Hs;
        exact (rep_offs_ok wg t g l bs3 El Hs) end]
    | (* 1 *)
      solve [destruct (rd_uint t) as [[nx b1]|] eqn:E1; cbn [obnd] in E; [|discriminate];
        destruct (rd_uint b1) as [[ny b2]|] eqn:E2; cbn [obnd] in E; [|discriminate];
        destruct (rd_uint b2) as [[sx b3]|] eqn:E3; cbn [obnd] in E; [|discriminate];
        destruct (rd_uint b3) as [[sy b4]|] eqn:E4; cbn [obnd] in E; [|discriminate]; injection E as <- <-;
        destruct Hs as [Hs|Hs]; [discriminate|]; cbn [rep_small] in Hs; apply andb_prop in Hs; destruct Hs as [H1 H2];
        apply N.ltb_lt in H1, H2;
        rewrite (s_uint_ok _ _ _ E1), (s_uint_ok _ _ _ E2), (s_uint_ok _ _ _ E3), (s_uint_ok _ _ _ E4);
        cbn [view_rep]; rewrite !lim31_u64 by assumption; reflexivity]
    | (* 8 *)
      solve [destruct (rd_uint t) as [[n b1]|] eqn:E1; cbn [obnd] in E; [|discriminate];
        destruct (rd_uint b1) as [[m b2]|] eqn:E2; cbn [obnd] in E; [|discriminate];
        destruct (rd_g b2) as [[v1 b3]|] eqn:E3; cbn [obnd] in E; [|discriminate];
        destruct (rd_g b3) as [[v2 b4]|] eqn:E4; cbn [obnd] in E; [|discriminate]; injection E as <- <-;
        destruct Hs as [Hs|Hs]; [discriminate|]; cbn [rep_small] in Hs; apply andb_prop in Hs; destruct Hs as [H1 H2];
        apply N.ltb_lt in H1, H2;
        rewrite (s_uint_ok _ _ _ E1), (s_uint_ok _ _ _ E2), (s_gdelta_ok _ _ _ E3), (s_gdelta_ok _ _ _ E4);
        cbn [view_rep]; rewrite !lim31_u64 by assumption; reflexivity]
    | (* 2 3 *)
      solve [destruct (rd_uint t) as [[nx b1]|] eqn:E1; cbn [obnd] in E; [|discriminate];
        destruct (rd_uint b1) as [[sx b2]|] eqn:E2; cbn [obnd] in E; [|discriminate]; injection E as <- <-;
        destruct Hs as [Hs|Hs]; [discriminate|]; cbn [rep_small] in Hs; apply N.ltb_lt in Hs;
        rewrite (s_uint_ok _ _ _ E1), (s_uint_ok _ _ _ E2); cbn [view_rep]; rewrite lim31_u64 by exact Hs; reflexivity]
    | (* 9 *)
      solve [destruct (rd_uint t) as [[n b1]|] eqn:E1; cbn [obnd] in E; [|discriminate];
        destruct (rd_g b1) as [[v b2]|] eqn:E2; cbn [obnd] in E; [|discriminate]; injection E as <- <-;
        destruct Hs as [Hs|Hs]; [discriminate|]; cbn [rep_small] in Hs; apply N.ltb_lt in Hs;
        rewrite (s_uint_ok _ _ _ E1), (s_gdelta_ok _ _ _ E2); cbn [view_rep]; rewrite lim31_u64 by exact Hs; reflexivity] ].
Qed.

(* ================================================================== modal variables: strict decoder vs reader *)
Definition orel {A} (o : option A) (v : A) : Prop := match o with Some a => v = a | None => True end.

Record modal_rel (m : modal) (q : rmodal) : Prop := mkMR {
  mr_abs : r_abs q = m_abs m;
  mr_rep : orep_rel (m_rep m) (r_rep q);
  mr_layer : orel (g_layer (m_g m)) (r_layer q);
  mr_dtype : orel (g_dtype (m_g m)) (r_dtype q);
  mr_gpos : r_gpos q = (g_x (m_g m), g_y (m_g m));
  mr_w : orel (g_w (m_g m)) (r_w q);
  mr_h : orel (g_h (m_g m)) (r_h q);
  mr_poly : orel (g_poly (m_g m)) (r_poly q);
  mr_path : orel (g_path (m_g m)) (r_path q);
  mr_hw : orel (g_hw (m_g m)) (r_hw q);
  mr_exs : orel (g_exs (m_g m)) (r_exs q);
  mr_exe : orel (g_exe (m_g m)) (r_exe q);
  mr_ctype : orel (g_ctype (m_g m)) (r_ctype q);
  mr_rad : orel (g_rad (m_g m)) (r_rad q);
  mr_tstr : match t_str (m_t m) with Some s => r_text q = Some s | None => True end;
  mr_tlayer : orel (t_layer (m_t m)) (r_tlayer q);
  mr_ttype : orel (t_type (m_t m)) (r_ttype q);
  mr_tpos : r_tpos q = (t_x (m_t m), t_y (m_t m));
  mr_pcell : match p_cell (m_p m) with Some c => r_pcell q = Some c | None => True end;
  mr_ppos : r_ppos q = (p_x (m_p m), p_y (m_p m));
  mr_pname : match m_pname m with Some ns => r_pname q = Some (fst ns) | None => True end;
  mr_pvals : match m_pvals m with Some vs => r_pvals q = map view_val vs | None => True end
}.

Lemma tb_bit i k : tb i k = bit i k.
Proof. reflexivity. Qed.

(* ---- fields *)
Lemma fld_u32_ok b mv cur bs v r :
  fld b rd_u32 mv bs = Some (v, r) -> orel mv cur -> f_u32 b cur (mkS bs None) = (v, mkS r None).
Proof.
  unfold fld, f_u32. destruct b.
  - unfold rd_u32. destruct (rd_uint bs) as [[v0 r0]|] eqn:E; cbn [obnd]; [|discriminate].
    destruct (v0 <? 4294967296) eqn:Ev; [|discriminate]. intros [= <- <-] _.
    rewrite (s_uint_ok _ _ _ E). unfold u32. rewrite N.mod_small by (apply N.ltb_lt; exact Ev). reflexivity.
  - destruct mv as [a|]; [|discriminate]. intros [= <- <-] H. cbn in H. subst. reflexivity.
Qed.
Lemma fld_uint_ok b mv cur bs v r :
  fld b rd_uint mv bs = Some (v, r) -> orel mv cur -> f_uint b cur (mkS bs None) = (v, mkS r None).
Proof.
  unfold fld, f_uint. destruct b.
  - intros H _. apply s_uint_ok. exact H.
  - destruct mv as [a|]; [|discriminate]. intros [= <- <-] H. cbn in H. subst. reflexivity.
Qed.
Lemma pos_fld_ok b a cur bs v r :
  pos_fld b a cur bs = Some (v, r) -> f_pos b a cur (mkS bs None) = (v, mkS r None).
Proof.
  unfold pos_fld, f_pos. destruct b.
  - destruct (rd_int bs) as [[d r0]|] eqn:E; cbn [obnd]; [|discriminate]. intros [= <- <-].
    rewrite (s_int_ok _ _ _ E). reflexivity.
  - intros [= <- <-]. reflexivity.
Qed.
Lemma f_xy_ok bx by_ a cur bs x r1 y r2 :
  pos_fld bx a (fst cur) bs = Some (x, r1) -> pos_fld by_ a (snd cur) r1 = Some (y, r2) ->
  f_xy bx by_ a cur (mkS bs None) = ((x, y), mkS r2 None).
Proof. intros H1 H2. unfold f_xy. rewrite (pos_fld_ok _ _ _ _ _ _ H1), (pos_fld_ok _ _ _ _ _ _ H2). reflexivity. Qed.
Lemma rep_fld_ok b mr cur bs er mr' r :
  cov_rep_fld b mr bs = Some (er, mr', r) -> orep_rel mr cur ->
  exists cur', f_rep b cur (mkS bs None) = ROk (view_orep er, cur') (mkS r None) /\ orep_rel mr' cur'.
Proof.
  unfold cov_rep_fld, f_rep. destruct b.
  - destruct (cov_rep mr bs) as [[r0 bs1]|] eqn:E; cbn [obnd]; [|discriminate]. intros [= <- <- <-] H.
    exists (view_rep r0). unfold rbind. rewrite (s_rep_ok _ _ _ _ _ E H). split; reflexivity.
  - intros [= <- <- <-] H. exists cur. split; [reflexivity|exact H].
Qed.

Lemma f_plist_ok b closed mv cur bs v r :
  fld b (cov_plist closed) mv bs = Some (v, r) -> orel mv cur -> f_plist b closed cur (mkS bs None) = ROk v (mkS r None).
Proof.
  unfold fld, f_plist. destruct b.
  - intros H _. apply s_plist_ok. exact H.
  - destruct mv as [a|]; [|discriminate]. intros [= <- <-] H. cbn in H. subst. reflexivity.
Qed.
Lemma f_delta_ok (absent : bool) bs v r :
  (if absent then Some (0%Z, bs) else rd_int bs) = Some (v, r) -> f_delta absent (mkS bs None) = ROk v (mkS r None).
Proof.
  unfold f_delta. destruct absent.
  - intros [= <- <-]. reflexivity.
  - intros H. unfold lift. rewrite (s_int_ok _ _ _ H). reflexivity.
Qed.
Lemma f_nref_ok byn bs v r : rd_nref byn bs = Some (v, r) -> f_nref byn (mkS bs None) = ROk v (mkS r None).
Proof.
  unfold rd_nref, f_nref. destruct byn.
  - destruct (rd_uint bs) as [[n r0]|] eqn:E; cbn [obnd]; [|discriminate]. intros [= <- <-].
    unfold lift. rewrite (s_uint_ok _ _ _ E). reflexivity.
  - destruct (rd_string bs) as [[str r0]|] eqn:E; cbn [obnd]; [|discriminate]. intros [= <- <-].
    unfold rbind. rewrite (s_string_ok true _ _ _ E). reflexivity.
Qed.
Definition oprel {A} (o : option A) (cur : option A) : Prop := match o with Some a => cur = Some a | None => True end.
Lemma f_name_ok b byn mv cur bs v r :
  fld b (rd_nref byn) mv bs = Some (v, r) -> oprel mv cur -> f_name b byn cur (mkS bs None) = ROk (v, Some v) (mkS r None).
Proof.
  unfold fld, f_name. destruct b.
  - intros H _. unfold rbind. rewrite (f_nref_ok _ _ _ _ H). reflexivity.
  - destruct mv as [a|]; [|discriminate]. intros [= <- <-] H. cbn in H. subst. reflexivity.
Qed.
Lemma f_ctype_ok b mv cur bs v r :
  fld b rd_byte mv bs = Some (v, r) -> orel mv cur -> f_ctype b cur (mkS bs None) = ROk v (mkS r None).
Proof.
  unfold fld, f_ctype. destruct b.
  - destruct bs as [|b0 t]; cbn [rd_byte]; [discriminate|]. intros [= <- <-] _. reflexivity.
  - destruct mv as [a|]; [|discriminate]. intros [= <- <-] H. cbn in H. subst. reflexivity.
Qed.

(* the strict decoder refines: dropping the guards *)
Lemma rd_u32_uint bs v r : rd_u32 bs = Some (v, r) -> rd_uint bs = Some (v, r).
Proof. unfold rd_u32. destruct (rd_uint bs) as [[v0 r0]|]; cbn [obnd]; [|discriminate]. destruct (v0 <? 4294967296); congruence. Qed.
Lemma fld_mono {A} b (rd1 rd2 : list N -> option (A * list N)) mv bs x :
  (forall bs y, rd1 bs = Some y -> rd2 bs = Some y) -> fld b rd1 mv bs = Some x -> fld b rd2 mv bs = Some x.
Proof. intros H. unfold fld. destruct b; [apply H|auto]. Qed.
Lemma cov_rep_rd mr bs x : cov_rep mr bs = Some x -> rd_rep mr bs = Some x.
Proof.
  unfold cov_rep. destruct (small1 bs); [|discriminate]. destruct (rd_rep mr bs) as [[r rest]|]; cbn [obnd]; [|discriminate].
  destruct (match bs with 0 :: _ => true | _ => rep_small r end); congruence.
Qed.
Lemma cov_rep_fld_rd b mr bs x : cov_rep_fld b mr bs = Some x -> rep_fld b mr bs = Some x.
Proof.
  unfold cov_rep_fld, rep_fld. destruct b; [|auto]. destruct (cov_rep mr bs) as [[r bs1]|] eqn:E; cbn [obnd]; [|discriminate].
  rewrite (cov_rep_rd _ _ _ E). auto.
Qed.
Lemma cov_plist_rd c bs x : cov_plist c bs = Some x -> rd_plist c bs = Some x.
Proof.
  unfold cov_plist. destruct (small1 bs); [|discriminate]. destruct (rd_plist c bs) as [[p rest]|]; cbn [obnd]; [|discriminate].
  destruct (N.of_nat (length p) <? lim31); congruence.
Qed.
Lemma cov_real_rd bs x : cov_real bs = Some x -> rd_real bs = Some x.
Proof. unfold cov_real. destruct (small1 bs); [auto|discriminate]. Qed.
Lemma rd_byte_uint bs b r : rd_byte bs = Some (b, r) -> b < 128 -> rd_uint bs = Some (b, r).
Proof. destruct bs as [|b0 t]; cbn; [discriminate|]. intros [= <- <-] H. apply rd_uint_small1. exact H. Qed.

(* ================================================================== per-record lemmas *)
(* the element as the reader holds it before END: names still references, `found` not yet computed *)
Definition welem (e : element) : relem := view_elem (fun r => r) (fun _ => false) e.

Ltac inv1 H :=
  match type of H with
  | obnd ?x _ = Some _ =>
      let E := fresh "E" in
      destruct x as [[? ?]|] eqn:E; cbn [obnd] in H; [|discriminate H]
  end.
Ltac inv_triple H :=
  match type of H with
  | obnd ?x _ = Some _ =>
      let E := fresh "E" in
      destruct x as [[[? ?] ?]|] eqn:E; cbn [obnd] in H; [|discriminate H]
  end.

Lemma with_geom_rel m q l d x y ow oh w h mr cur' :
  modal_rel m q -> orep_rel mr cur' -> orel ow w -> orel oh h ->
  modal_rel (set_g m (mkG (Some l) (Some d) x y ow oh (g_poly (m_g m)) (g_path (m_g m)) (g_hw (m_g m))
                          (g_exs (m_g m)) (g_exe (m_g m)) (g_ctype (m_g m)) (g_rad (m_g m))) mr)
            (with_geom q l d (x, y) w h cur').
Proof. intros [] Hr Hw Hh. constructor; cbn; auto. Qed.

Lemma rect_points_eq x y w h :
  rect_points (x, y) w h = map (padd (x, y)) [ (0, 0)%Z; (Z.of_N w, 0%Z); (Z.of_N w, Z.of_N h); (0%Z, Z.of_N h) ].
Proof. unfold rect_points, padd. cbn [map fst snd]. rewrite !Z.add_0_r. reflexivity. Qed.

Lemma rd_rectangle_ok m q info bs e m' bs' :
  modal_rel m q -> cov_rectangle m (info :: bs) = Some (e, m', bs') ->
  exists q', m_rectangle q info (mkS bs None) = ROk (welem e, q') (mkS bs' None) /\ modal_rel m' q'.
Proof.
  intros R H. unfold cov_rectangle in H. cbn [rd_byte obnd] in H.
  inv1 H. inv1 H. inv1 H. destruct (bit info 7 && bit info 5) eqn:E75; [discriminate|].
  inv1 H. inv1 H. inv1 H. inv_triple H. injection H as <- <- <-.
  destruct (rep_fld_ok _ _ _ _ _ _ _ E5 (mr_rep _ _ R)) as (cur' & Hrep & Hrel).
  exists (with_geom q n n0 (z, z0) n1 n2 cur'). split.
  - unfold m_rectangle, rbind, lift, rret, tb. unfold bit in *.
    rewrite (fld_u32_ok _ _ _ _ _ _ E (mr_layer _ _ R)). cbv beta iota.
    rewrite (fld_u32_ok _ _ _ _ _ _ E0 (mr_dtype _ _ R)). cbv beta iota.
    rewrite (fld_uint_ok _ _ _ _ _ _ E1 (mr_w _ _ R)). cbv beta iota.
    assert (Hh : f_uint (N.testbit info 5) (if N.testbit info 7 then n1 else r_h q) (mkS l1 None) = (n2, mkS l2 None)).
    { destruct (N.testbit info 7) eqn:B7.
      - cbn [andb] in E75. rewrite E75. injection E2 as <- <-. reflexivity.
      - exact (fld_uint_ok _ _ _ _ _ _ E2 (mr_h _ _ R)). }
    rewrite Hh. cbv beta iota.
    rewrite (mr_gpos _ _ R), (mr_abs _ _ R). rewrite (f_xy_ok _ _ _ (g_x (m_g m), g_y (m_g m)) _ _ _ _ _ E3 E4). cbv beta iota.
    rewrite Hrep. cbv beta iota. unfold welem. cbn [view_elem elem_points]. rewrite <- rect_points_eq. reflexivity.
  - apply with_geom_rel; cbn; auto.
Qed.

(* one field of the reader's record function, rewritten with the matching step of the strict decoder *)
Ltac fstep R :=
  cbv beta iota;
  match goal with
  | E : fld ?b rd_u32 ?mv ?bs = Some _ |- context [f_u32 ?b ?cur (mkS ?bs None)] =>
      rewrite (fld_u32_ok b mv cur bs _ _ E
                 ltac:(first [exact (mr_layer _ _ R)|exact (mr_dtype _ _ R)|exact (mr_tlayer _ _ R)|exact (mr_ttype _ _ R)]))
  | E : fld ?b rd_uint ?mv ?bs = Some _ |- context [f_uint ?b ?cur (mkS ?bs None)] =>
      rewrite (fld_uint_ok b mv cur bs _ _ E
                 ltac:(first [exact (mr_w _ _ R)|exact (mr_h _ _ R)|exact (mr_hw _ _ R)|exact (mr_rad _ _ R)]))
  | E1 : pos_fld ?bx ?a ?cx ?bs = Some (?x, ?r1), E2 : pos_fld ?by_ ?a ?cy ?r1 = Some _
    |- context [f_xy ?bx ?by_ _ _ (mkS ?bs None)] =>
      rewrite (f_xy_ok bx by_ a (cx, cy) bs _ _ _ _ E1 E2)
  | H : f_rep ?b ?c (mkS ?bs None) = _ |- context [f_rep ?b ?c (mkS ?bs None)] => rewrite H
  end;
  cbv beta iota.
Ltac start_rec R :=
  unfold rbind, lift, rret, tb; unfold bit in *;
  rewrite ?(mr_gpos _ _ R), ?(mr_tpos _ _ R), ?(mr_ppos _ _ R), ?(mr_abs _ _ R).

Lemma poly_points_eq x y pts :
  map (fun v => padd v (x, y)) ((0, 0)%Z :: pts) = map (padd (x, y)) ((0, 0)%Z :: pts).
Proof. apply map_ext. intros a. apply padd_comm. Qed.

Lemma rd_polygon_ok m q info bs e m' bs' :
  modal_rel m q -> cov_polygon m (info :: bs) = Some (e, m', bs') ->
  exists q', m_polygon q info (mkS bs None) = ROk (welem e, q') (mkS bs' None) /\ modal_rel m' q'.
Proof.
  intros R H. unfold cov_polygon in H. cbn [rd_byte obnd] in H.
  destruct (bit info 7 || bit info 6); [discriminate|].
  inv1 H. inv1 H. inv1 H. inv1 H. inv1 H. inv_triple H. injection H as <- <- <-.
  destruct (rep_fld_ok _ _ _ _ _ _ _ E4 (mr_rep _ _ R)) as (cur' & Hrep & Hrel).
  exists (with_poly (with_geom q n n0 (z, z0) (r_w q) (r_h q) cur') l1). split.
  - unfold m_polygon. start_rec R. fstep R. fstep R.
    rewrite (f_plist_ok _ _ _ _ _ _ _ E1 (mr_poly _ _ R)). fstep R. fstep R. unfold welem. cbn [view_elem elem_points]. rewrite poly_points_eq. reflexivity.
  - destruct R. constructor; cbn; auto.
Qed.

Lemma rd_circle_ok m q info bs e m' bs' :
  modal_rel m q -> cov_circle m (info :: bs) = Some (e, m', bs') ->
  exists q', m_circle q info (mkS bs None) = ROk (welem e, q') (mkS bs' None) /\ modal_rel m' q'.
Proof.
  intros R H. unfold cov_circle in H. cbn [rd_byte obnd] in H.
  destruct (bit info 7 || bit info 6); [discriminate|].
  inv1 H. inv1 H. inv1 H. inv1 H. inv1 H. inv_triple H. injection H as <- <- <-.
  destruct (rep_fld_ok _ _ _ _ _ _ _ E4 (mr_rep _ _ R)) as (cur' & Hrep & Hrel).
  exists (with_rad (with_geom q n n0 (z, z0) (r_w q) (r_h q) cur') n1). split.
  - unfold m_circle. start_rec R. fstep R. fstep R. fstep R. fstep R. fstep R. reflexivity.
  - destruct R. constructor; cbn; auto.
Qed.

Lemma trap_pts_eq vert x y w h da db :
  trap_pts vert (x, y) w h da db = map (padd (x, y)) (trap_points vert (Z.of_N w) (Z.of_N h) da db).
Proof.
  unfold trap_pts, trap_points, padd. cbn [fst snd].
  destruct vert; cbn [map fst snd]; destruct (da <? 0)%Z; destruct (db <? 0)%Z;
    repeat match goal with
           | |- _ :: _ = _ :: _ => apply (f_equal2 (@cons pt))
           | |- (_, _) = (_, _) => apply (f_equal2 (@pair Z Z))
           end; try reflexivity; lia.
Qed.

Lemma rd_trapezoid_ok code m q info bs e m' bs' :
  modal_rel m q -> cov_trapezoid code m (info :: bs) = Some (e, m', bs') ->
  exists q', m_trapezoid code q info (mkS bs None) = ROk (welem e, q') (mkS bs' None) /\ modal_rel m' q'.
Proof.
  intros R H. unfold cov_trapezoid in H. cbn [rd_byte obnd] in H.
  inv1 H. inv1 H. inv1 H. inv1 H. inv1 H. inv1 H. inv1 H. inv1 H. inv_triple H. injection H as <- <- <-.
  destruct (rep_fld_ok _ _ _ _ _ _ _ E7 (mr_rep _ _ R)) as (cur' & Hrep & Hrel).
  exists (with_geom q n n0 (z1, z2) n1 n2 cur'). split.
  - unfold m_trapezoid. start_rec R. fstep R. fstep R. fstep R. fstep R.
    rewrite (f_delta_ok _ _ _ _ E3). cbv beta iota. rewrite (f_delta_ok _ _ _ _ E4).
    fstep R. fstep R. unfold welem. cbn [view_elem elem_points]. rewrite trap_pts_eq. reflexivity.
  - apply with_geom_rel; cbn; auto.
Qed.

(* ---- PATH *)
Lemma ext_fld_ok code hw mv cur bs v r :
  ext_fld code hw mv bs = Some (v, r) -> orel mv cur -> f_ext code hw cur (mkS bs None) = (v, mkS r None).
Proof.
  unfold ext_fld, f_ext. destruct code as [|p]; [|destruct p as [p|p|]; [|destruct p as [p|p|]|]].
  - destruct mv as [a|]; [|discriminate]. intros [= <- <-] H. cbn in H. subst. reflexivity.
  - intros H _. apply s_int_ok. exact H.
  - intros H _. apply s_int_ok. exact H.
  - intros H _. apply s_int_ok. exact H.
  - intros [= <- <-] _. reflexivity.
  - intros [= <- <-] _. reflexivity.
Qed.
Lemma path_points_eq x y pts :
  (x, y) :: map (fun v => padd (x, y) v) pts = map (padd (x, y)) ((0, 0)%Z :: pts).
Proof. cbn [map]. f_equal. unfold padd. cbn [fst snd]. rewrite !Z.add_0_r. reflexivity. Qed.

Lemma rd_path_ok m q info bs e m' bs' :
  modal_rel m q -> cov_path m (info :: bs) = Some (e, m', bs') ->
  exists q', m_path q info (mkS bs None) = ROk (welem e, q') (mkS bs' None) /\ modal_rel m' q'.
Proof.
  intros R H. unfold cov_path in H. cbn [rd_byte obnd] in H.
  inv1 H. inv1 H. inv1 H. inv_triple H. inv1 H.
  destruct (negb (nonempty l3)) eqn:Ene; [discriminate|].
  inv1 H. inv1 H. inv_triple H. injection H as <- <- <-.
  destruct (rep_fld_ok _ _ _ _ _ _ _ E6 (mr_rep _ _ R)) as (cur' & Hrep & Hrel).
  exists (with_path (with_geom q n n0 (z1, z2) (r_w q) (r_h q) cur') l3 n1 z z0). split.
  - unfold m_path. start_rec R. fstep R. fstep R. fstep R.
    assert (He : m_path_ext (N.testbit info 7) n1 (r_exs q) (r_exe q) (mkS l1 None) = ROk (z, z0) (mkS l2 None)).
    { unfold m_path_ext. destruct (N.testbit info 7).
      - destruct l1 as [|sch t1]; cbn [rd_byte obnd] in E2; [discriminate|].
        destruct (16 <=? sch); [discriminate|].
        destruct (ext_fld (N.land (N.shiftr sch 2) 3) n1 (g_exs (m_g m)) t1) as [[u ru]|] eqn:Eu; cbn [obnd] in E2; [|discriminate].
        destruct (ext_fld (N.land sch 3) n1 (g_exe (m_g m)) ru) as [[v rv]|] eqn:Ev; cbn [obnd] in E2; [|discriminate].
        injection E2 as <- <- <-. unfold rbind, lift, rret, rd1. cbn [s_bs s_err].
        rewrite (ext_fld_ok _ _ _ _ _ _ _ Eu (mr_exs _ _ R)). cbv beta iota.
        rewrite (ext_fld_ok _ _ _ _ _ _ _ Ev (mr_exe _ _ R)). reflexivity.
      - pose proof (mr_exs _ _ R) as H1. pose proof (mr_exe _ _ R) as H2.
        destruct (g_exs (m_g m)); [|discriminate]. destruct (g_exe (m_g m)); [|discriminate].
        injection E2 as <- <- <-. cbn in H1, H2. rewrite H1, H2. reflexivity. }
    rewrite He. cbv beta iota. rewrite (f_plist_ok _ _ _ _ _ _ _ E3 (mr_path _ _ R)).
    fstep R. destruct l3 as [|p0 l3]; [discriminate|]. fstep R.
    unfold welem. cbn [view_elem elem_points]. rewrite path_points_eq. reflexivity.
  - destruct R. constructor; cbn; auto.
Qed.

(* ---- TEXT *)
Lemma rd_text_ok m q info bs e m' bs' :
  modal_rel m q -> cov_text m (info :: bs) = Some (e, m', bs') ->
  exists q', m_text q info (mkS bs None) = ROk (welem e, q') (mkS bs' None) /\ modal_rel m' q'.
Proof.
  intros R H. unfold cov_text in H. cbn [rd_byte obnd] in H.
  destruct (bit info 7); [discriminate|].
  inv1 H. inv1 H. inv1 H. inv1 H. inv1 H. inv_triple H. injection H as <- <- <-.
  destruct (rep_fld_ok _ _ _ _ _ _ _ E4 (mr_rep _ _ R)) as (cur' & Hrep & Hrel).
  exists (with_text q (Some n) n0 n1 (z, z0) cur'). split.
  - unfold m_text. start_rec R. rewrite (f_name_ok _ _ _ _ _ _ _ E (mr_tstr _ _ R)).
    fstep R. fstep R. fstep R. fstep R. reflexivity.
  - destruct R. constructor; cbn; auto.
Qed.

(* ---- PLACEMENT *)
Lemma f_oreal_ok (b : bool) bs v r :
  (if b then let? '(x, r0) := cov_real bs in Some (Some x, r0) else Some (None, bs)) = Some (v, r) ->
  f_oreal b (mkS bs None) = (v, mkS r None).
Proof.
  unfold f_oreal. destruct b.
  - destruct (cov_real bs) as [[x r0]|] eqn:E; cbn [obnd]; [|discriminate]. intros [= <- <-].
    rewrite (s_real_ok _ _ _ E). reflexivity.
  - intros [= <- <-]. reflexivity.
Qed.

Lemma rd_placement_ok code m q info bs e m' bs' :
  modal_rel m q -> cov_placement code m (info :: bs) = Some (e, m', bs') ->
  exists q', m_placement code q info (mkS bs None) = ROk (welem e, q') (mkS bs' None) /\ modal_rel m' q'.
Proof.
  intros R H. unfold cov_placement in H. cbn [rd_byte obnd] in H.
  inv1 H. inv1 H. inv1 H. inv1 H. inv_triple H. injection H as <- <- <-.
  destruct (rep_fld_ok _ _ _ _ _ _ _ E3 (mr_rep _ _ R)) as (cur' & Hrep & Hrel).
  exists (with_place q (Some n) (z, z0) cur'). split.
  - unfold m_placement. start_rec R. rewrite (f_name_ok _ _ _ _ _ _ _ E (mr_pcell _ _ R)). cbv beta iota.
    assert (Ht : m_place_tr code info (mkS l None) = ROk p (mkS l0 None)).
    { unfold m_place_tr. destruct (code =? 17); [injection E0 as <- <-; reflexivity|].
      unfold rbind, lift, rret, tb.
      destruct (if N.testbit info 2 then let? '(v, r) := cov_real l in Some (Some v, r) else Some (None, l))
        as [[mag r1]|] eqn:Em; cbn [obnd] in E0; [|discriminate].
      destruct (if N.testbit info 1 then let? '(v, r) := cov_real r1 in Some (Some v, r) else Some (None, r1))
        as [[ang r2]|] eqn:Ea; cbn [obnd] in E0; [|discriminate].
      injection E0 as <- <-. rewrite (f_oreal_ok _ _ _ _ Em). cbv beta iota. rewrite (f_oreal_ok _ _ _ _ Ea). reflexivity. }
    rewrite Ht. fstep R. fstep R. reflexivity.
  - destruct R. constructor; cbn; auto.
Qed.

(* ---- CTRAPEZOID *)
Lemma ctrap_table_eq : GV.Generated.ctrap_table = spec_ctrap_table.
Proof. vm_compute. reflexivity. Qed.

Lemma lt26_cases ty : ty < 26 ->
  In ty [0;1;2;3;4;5;6;7;8;9;10;11;12;13;14;15;16;17;18;19;20;21;22;23;24;25].
Proof.
  intros H. destruct ty as [|p]; [cbn; auto|].
  do 5 (destruct p as [p|p|]; try (cbn; tauto)); exfalso; lia.
Qed.

Lemma ctrap_lookup_spec ty : ty < 26 -> ctrap_lookup GV.Generated.ctrap_table ty = Some (spec_ctrap_vertices ty).
Proof.
  intros H. rewrite ctrap_table_eq. apply lt26_cases in H. cbn [In] in H.
  repeat (destruct H as [<-|H]; [vm_compute; reflexivity|]). destruct H.
Qed.

Lemma dim_fld_ok b uses mv cur bs v r :
  dim_fld b uses mv bs = Some (v, r) -> orel mv cur ->
  exists vr, f_uint b cur (mkS bs None) = (vr, mkS r None) /\ (uses = true -> vr = v).
Proof.
  unfold dim_fld, f_uint. destruct b.
  - intros H _. exists v. split; [apply s_uint_ok; exact H|auto].
  - destruct uses.
    + destruct mv as [a|]; [|discriminate]. intros [= <- <-] H. cbn in H. subst. eauto.
    + intros [= <- <-] _. exists cur. split; [reflexivity|discriminate].
Qed.

Lemma ctrap_eval_eq ty wr hr w0 h0 : ty < 26 ->
  (ctrap_uses_w ty = true -> wr = w0) -> (ctrap_uses_h ty = true -> hr = h0) ->
  map (lfpt_eval (Z.of_N wr) (Z.of_N hr)) (spec_ctrap_vertices ty) =
  map (lfpt_eval (Z.of_N (ctrap_w ty w0 h0)) (Z.of_N (ctrap_h ty w0 h0))) (spec_ctrap_vertices ty).
Proof.
  intros H Hw Hh. apply lt26_cases in H. cbn [In] in H.
  repeat (destruct H as [<-|H];
          [ try (specialize (Hw eq_refl)); try (specialize (Hh eq_refl)); subst;
            cbv [spec_ctrap_vertices htrap vtrap b2z map lfpt_eval lf_eval fst snd ctrap_w ctrap_h
                 N.eqb N.leb N.compare Pos.eqb Pos.compare Pos.compare_cont andb orb];
            repeat match goal with
                   | |- _ :: _ = _ :: _ => apply (f_equal2 (@cons pt))
                   | |- (_, _) = (_, _) => apply (f_equal2 (@pair Z Z))
                   end; try reflexivity; lia |]).
  destruct H.
Qed.

Lemma ctrap_dim_eq ty wr hr w0 h0 : ty < 26 -> ty <> 25 ->
  (ctrap_uses_w ty = true -> wr = w0) -> (ctrap_uses_h ty = true -> hr = h0) ->
  ctrap_dim ty wr hr = (ctrap_w ty w0 h0, ctrap_h ty w0 h0).
Proof.
  intros H H25 Hw Hh. apply lt26_cases in H. cbn [In] in H.
  repeat (destruct H as [<-|H];
          [ try (specialize (Hw eq_refl)); try (specialize (Hh eq_refl)); subst; try congruence; reflexivity |]).
  destruct H.
Qed.

Lemma rd_ctrapezoid_ok any25 m q info bs e m' bs' :
  modal_rel m q -> cov_ctrapezoid_gen any25 m (info :: bs) = Some (e, m', bs') ->
  exists q', m_ctrapezoid q info (mkS bs None) = ROk (welem e, q') (mkS bs' None) /\
             (any25 = false -> modal_rel m' q').
Proof.
  intros R H. unfold cov_ctrapezoid_gen in H. cbn [rd_byte obnd] in H.
  inv1 H. inv1 H. inv1 H.
  destruct ((26 <=? n1) || (negb any25 && (n1 =? 25))) eqn:Ety; [discriminate|].
  apply orb_false_elim in Ety. destruct Ety as [Ety E25]. apply N.leb_gt in Ety.
  inv1 H. inv1 H. inv1 H. inv1 H. inv_triple H. injection H as <- <- <-.
  destruct (rep_fld_ok _ _ _ _ _ _ _ E6 (mr_rep _ _ R)) as (cur' & Hrep & Hrel).
  destruct (dim_fld_ok _ _ _ _ _ _ _ E2 (mr_w _ _ R)) as (wr & Hwr & Hw).
  destruct (dim_fld_ok _ _ _ _ _ _ _ E3 (mr_h _ _ R)) as (hr & Hhr & Hh).
  exists (with_ctype (with_geom q n n0 (z, z0) (fst (ctrap_dim n1 wr hr)) (snd (ctrap_dim n1 wr hr)) cur') n1). split.
  - unfold m_ctrapezoid. start_rec R. fstep R. fstep R.
    rewrite (f_ctype_ok _ _ _ _ _ _ E1 (mr_ctype _ _ R)). cbv beta iota.
    rewrite Hwr. cbv beta iota. rewrite Hhr. fstep R. fstep R.
    destruct (ctrap_dim n1 wr hr) as [w1 h1]. cbn [fst snd]. unfold welem. cbn [view_elem elem_points].
    unfold ctrap_pts. rewrite (ctrap_lookup_spec _ Ety).
    rewrite <- (map_map (lfpt_eval (Z.of_N wr) (Z.of_N hr)) (padd (z, z0))).
    rewrite (ctrap_eval_eq n1 wr hr n2 n3 Ety Hw Hh). rewrite map_map. reflexivity.
  - intros ->. cbn [negb andb] in E25. apply N.eqb_neq in E25.
    rewrite (ctrap_dim_eq n1 wr hr n2 n3 Ety E25 Hw Hh). cbn [fst snd].
    destruct R. constructor; cbn; auto.
Qed.
