(* Refutation witnesses for statements the faithful model does NOT satisfy (each replayed on the real hobby_interpolation,
   harness kind `hobby`; the libm tables are the values the library's own sin / cos / atan2 calls returned in that run).
     hobby_finite_refuted             "every control point is finite for distinct points": a two-point curve (0,0) -> (1,0) that must
                                      arrive at angle pi gives theta = phi = -pi, the denominator 1 + (1 - C) cos theta + C cos phi
                                      is 0 and the control points are infinite (Curve::interpolation then emits NaN vertices)
     hobby_ignored_singular_refuted   "a system hobby_interpolation solves is never singular": the points (0,0) (1,0) (1,0) (1,0)
                                      (2,1) (3,1) make gauss_jordan_elimination skip a column; its return value is ignored and the
                                      first piece gets the offsets theta = phi = -2.356 (the curve leaves backwards) *)
Require Import Base Hobby HobbyInst.
From Flocq Require Import Core BinarySingleNaN Binary Bits.
Local Open Scope N_scope.

Definition w_rev_atan2 : list (N * N * N) := [(0, 4607182418800017408, 0); (0, 4607182418800017408, 0); (0, 4607182418800017408, 0); (0, 4607182418800017408, 0)]%N.
Definition w_rev_sin : list (N * N) := [(13837628693406821656, 13592327833376807943); (13837628693406821656, 13592327833376807943); (13837628693406821656, 13592327833376807943); (4614256656552045848, 4368955796522032135)]%N.
Definition w_rev_cos : list (N * N) := [(13837628693406821656, 13830554455654793216); (13837628693406821656, 13830554455654793216); (13837628693406821656, 13830554455654793216); (4614256656552045848, 13830554455654793216)]%N.
Definition w_rev_pts : list (N * N) := [(0, 0); (4607182418800017408, 0)]%N.
Definition w_rev_ang : list N := [0; 4614256656552045848]%N.
Definition w_rev_con : list bool := [false; true].
Definition w_rev_tens : list (N * N) := [(4607182418800017408, 4607182418800017408); (4607182418800017408, 4607182418800017408)]%N.
Definition w_rev_run := hobby64_bits w_rev_atan2 w_rev_sin w_rev_cos 2 w_rev_pts w_rev_ang w_rev_con w_rev_tens 4607182418800017408 4607182418800017408 false.
Definition w_trip_atan2 : list (N * N * N) := [(0, 4607182418800017408, 0); (0, 0, 0); (0, 0, 0); (4607182418800017408, 4607182418800017408, 4605249457297304856); (0, 4607182418800017408, 0); (0, 4607182418800017408, 0); (0, 0, 0); (0, 0, 0); (4607182418800017408, 4607182418800017408, 4605249457297304856); (0, 4607182418800017408, 0); (0, 4607182418800017408, 0)]%N.
Definition w_trip_sin : list (N * N) := [(13835860133968814546, 13827916308072577997); (13835860133968814546, 13827916308072577997); (13835860133968814546, 13827916308072577997); (4612488097114038738, 4604544271217802189); (4612488097114038738, 4604544271217802189); (4616991696741409234, 13830554455654793216); (13840363733596185042, 4607182418800017408); (13840363733596185042, 4607182418800017408); (13835860133968814546, 13827916308072577997); (4612488097114038738, 4604544271217802189); (4609753056924675352, 4607182418800017408); (4605249457297304856, 4604544271217802188); (0, 0); (0, 0); (0, 0); (0, 0)]%N.
Definition w_trip_cos : list (N * N) := [(13835860133968814546, 13827916308072577996); (13835860133968814546, 13827916308072577996); (13835860133968814546, 13827916308072577996); (4612488097114038738, 13827916308072577996); (4612488097114038738, 13827916308072577996); (4616991696741409234, 13594811712176818698); (13840363733596185042, 13594811712176818698); (13840363733596185042, 13594811712176818698); (13835860133968814546, 13827916308072577996); (4612488097114038738, 13827916308072577996); (4609753056924675352, 4364452196894661639); (4605249457297304856, 4604544271217802189); (0, 4607182418800017408); (0, 4607182418800017408); (0, 4607182418800017408); (0, 4607182418800017408)]%N.
Definition w_trip_pts : list (N * N) := [(0, 0); (4607182418800017408, 0); (4607182418800017408, 0); (4607182418800017408, 0); (4611686018427387904, 4607182418800017408); (4613937818241073152, 4607182418800017408)]%N.
Definition w_trip_ang : list N := [0; 0; 0; 0; 0; 0]%N.
Definition w_trip_con : list bool := [false; false; false; false; false; false].
Definition w_trip_tens : list (N * N) := [(4607182418800017408, 4607182418800017408); (4607182418800017408, 4607182418800017408); (4607182418800017408, 4607182418800017408); (4607182418800017408, 4607182418800017408); (4607182418800017408, 4607182418800017408); (4607182418800017408, 4607182418800017408)]%N.
Definition w_trip_run := hobby64_bits w_trip_atan2 w_trip_sin w_trip_cos 6 w_trip_pts w_trip_ang w_trip_con w_trip_tens 4607182418800017408 4607182418800017408 false.

Definition b64_inf_bits (b : N) : bool := (b =? 9218868437227405312) || (b =? 18442240474082181120).   (* +inf, -inf *)

Lemma hobby_finite_refuted_lemma : exists theta phi ctrl sk,
  w_rev_run = Ok (theta, phi, ctrl, sk) /\
  existsb (fun ab => b64_inf_bits (fst (fst ab)) || b64_inf_bits (snd (fst ab)) || b64_inf_bits (fst (snd ab)) || b64_inf_bits (snd (snd ab))) ctrl = true.
Proof.
  destruct w_rev_run as [[[[theta phi] ctrl] sk]| | | | |] eqn:E; revert E; vm_compute; intros E; try discriminate.
  exists theta, phi, ctrl, sk. injection E as <- <- <- <-. split; reflexivity.
Qed.

Lemma hobby_ignored_singular_refuted_lemma : exists theta phi ctrl sk,
  w_trip_run = Ok (theta, phi, ctrl, sk) /\ (0 < sk)%nat /\
  nth 0 theta 0 = 13835860133968814546 (* 0xc002d97c7f3321d2 = -2.356... *).
Proof.
  destruct w_trip_run as [[[[theta phi] ctrl] sk]| | | | |] eqn:E; revert E; vm_compute; intros E; try discriminate.
  exists theta, phi, ctrl, sk. injection E as <- <- <- <-. split; [reflexivity|]. split; [apply le_n | reflexivity].
Qed.
