(* WindingProofs.v -- theorems that justify the extracted geometric oracle of Winding.v *)
From Coq Require Import List ZArith Bool Lia.
Import ListNotations.
Require Import Winding.
Open Scope Z_scope.

(* ------------------------------------------------------------------ cyclic sums *)
Section CycFacts.
  Context {A : Type}.
  Variable f : A -> A -> Z.

  Lemma path_sum_app : forall l1 x l2,
      path_sum f (l1 ++ x :: l2) = path_sum f (l1 ++ [x]) + path_sum f (x :: l2).
  Proof.
    induction l1 as [|a l1 IH]; intros x l2.
    - cbn [app path_sum]. lia.
    - destruct l1 as [|b l1].
      + cbn [app path_sum]. lia.
      + specialize (IH x l2). cbn [app path_sum] in *. lia.
  Qed.

  Lemma path_sum_single : forall a, path_sum f [a] = 0.
  Proof. reflexivity. Qed.

  Lemma path_sum_cons2 : forall a b t, path_sum f (a :: b :: t) = f a b + path_sum f (b :: t).
  Proof. reflexivity. Qed.

  Lemma cyc_sum_cons : forall a t, cyc_sum f (a :: t) = path_sum f (a :: t ++ [a]).
  Proof. reflexivity. Qed.

  (* rotating the vertex list does not change a cyclic sum *)
  Lemma cyc_sum_rotate : forall l1 l2, cyc_sum f (l1 ++ l2) = cyc_sum f (l2 ++ l1).
  Proof.
    intros [|a l1] [|b l2]; try reflexivity.
    - cbn [app]. rewrite app_nil_r. reflexivity.
    - rewrite app_nil_r. reflexivity.
    - change ((a :: l1) ++ b :: l2) with (a :: (l1 ++ b :: l2)).
      change ((b :: l2) ++ a :: l1) with (b :: (l2 ++ a :: l1)).
      rewrite !cyc_sum_cons.
      replace (a :: (l1 ++ b :: l2) ++ [a]) with ((a :: l1) ++ b :: (l2 ++ [a]))
        by (cbn [app]; rewrite <- app_assoc; reflexivity).
      replace (b :: (l2 ++ a :: l1) ++ [b]) with ((b :: l2) ++ a :: (l1 ++ [b]))
        by (cbn [app]; rewrite <- app_assoc; reflexivity).
      rewrite (path_sum_app (a :: l1) b), (path_sum_app (b :: l2) a).
      cbn [app]. lia.
  Qed.
End CycFacts.

Section CycRev.
  Context {A : Type}.
  Variable f : A -> A -> Z.
  Let g := fun a b => f b a.

  Lemma path_sum_rev : forall l, path_sum f (rev l) = path_sum g l.
  Proof.
    induction l as [|a l IH]; [reflexivity|].
    destruct l as [|b l]; [reflexivity|].
    change (rev (a :: b :: l)) with ((rev l ++ [b]) ++ [a]).
    rewrite <- app_assoc. cbn [app].
    rewrite path_sum_app.
    change (rev l ++ [b]) with (rev (b :: l)).
    rewrite IH. cbn [path_sum]. unfold g. lia.
  Qed.

  Lemma cyc_sum_rev : forall l, cyc_sum f (rev l) = cyc_sum g l.
  Proof.
    intros [|a l]; [reflexivity|].
    change (rev (a :: l)) with (rev l ++ [a]).
    rewrite cyc_sum_rotate. cbn [app].
    rewrite !cyc_sum_cons.
    replace (a :: rev l ++ [a]) with (rev (a :: l ++ [a])).
    - apply path_sum_rev.
    - cbn [rev]. rewrite rev_app_distr. reflexivity.
  Qed.
End CycRev.

Lemma path_sum_ext : forall {A} (f g : A -> A -> Z) l,
    (forall a b, f a b = g a b) -> path_sum f l = path_sum g l.
Proof.
  intros A f g l H. induction l as [|a l IH]; [reflexivity|].
  destruct l as [|b l]; [reflexivity|]. cbn [path_sum] in *. rewrite H, IH. reflexivity.
Qed.

Lemma cyc_sum_ext : forall {A} (f g : A -> A -> Z) l,
    (forall a b, f a b = g a b) -> cyc_sum f l = cyc_sum g l.
Proof. intros A f g [|a l] H; [reflexivity|]. apply path_sum_ext, H. Qed.

Lemma path_sum_opp : forall {A} (f : A -> A -> Z) l,
    path_sum (fun a b => - f a b) l = - path_sum f l.
Proof.
  intros A f l. induction l as [|a l IH]; [reflexivity|].
  destruct l as [|b l]; [reflexivity|]. cbn [path_sum] in *. rewrite IH. lia.
Qed.

Lemma cyc_sum_opp : forall {A} (f : A -> A -> Z) l,
    cyc_sum (fun a b => - f a b) l = - cyc_sum f l.
Proof. intros A f [|a l]; [reflexivity|]. apply path_sum_opp. Qed.

(* for an antisymmetric edge function, reversal negates the cyclic sum *)
Lemma cyc_sum_rev_antisym : forall {A} (f : A -> A -> Z) l,
    (forall a b, f b a = - f a b) -> cyc_sum f (rev l) = - cyc_sum f l.
Proof.
  intros A f l H. rewrite cyc_sum_rev.
  rewrite (cyc_sum_ext _ (fun a b => - f a b)) by (intros; apply H).
  apply cyc_sum_opp.
Qed.

Lemma path_exists_app : forall {A} (g : A -> A -> bool) l1 x l2,
    path_exists g (l1 ++ x :: l2) = path_exists g (l1 ++ [x]) || path_exists g (x :: l2).
Proof.
  intros A g. induction l1 as [|a l1 IH]; intros x l2.
  - reflexivity.
  - destruct l1 as [|b l1].
    + cbn [app path_exists]. rewrite orb_false_r. reflexivity.
    + specialize (IH x l2). cbn [app path_exists] in *. rewrite IH, orb_assoc. reflexivity.
Qed.

Lemma path_exists_ext : forall {A} (f g : A -> A -> bool) l,
    (forall a b, f a b = g a b) -> path_exists f l = path_exists g l.
Proof.
  intros A f g l H. induction l as [|a l IH]; [reflexivity|].
  destruct l as [|b l]; [reflexivity|]. cbn [path_exists] in *. rewrite H, IH. reflexivity.
Qed.

Lemma cyc_exists_ext : forall {A} (f g : A -> A -> bool) l,
    (forall a b, f a b = g a b) -> cyc_exists f l = cyc_exists g l.
Proof. intros A f g [|a l] H; [reflexivity|]. apply path_exists_ext, H. Qed.

(* ------------------------------------------------------------------ winding number *)
Lemma orient_swap : forall a b p, orient b a p = - orient a b p.
Proof. intros [ax ay] [bx by_] [px py]. unfold orient. cbn [fst snd]. ring. Qed.

(* the half-open rule makes the edge contribution exactly antisymmetric, for EVERY query point
   (on the boundary too) *)
Lemma w_antisym : forall p a b, w p b a = - w p a b.
Proof.
  intros p a b. unfold w. rewrite (orient_swap a b p).
  destruct (snd a <=? snd p) eqn:E1; destruct (snd b <=? snd p) eqn:E2;
    destruct (snd p <? snd a) eqn:E3; destruct (snd p <? snd b) eqn:E4;
    try (apply Z.leb_le in E1); try (apply Z.leb_gt in E1);
    try (apply Z.leb_le in E2); try (apply Z.leb_gt in E2);
    try (apply Z.ltb_lt in E3); try (apply Z.ltb_ge in E3);
    try (apply Z.ltb_lt in E4); try (apply Z.ltb_ge in E4); try lia.
  - destruct (- orient a b p <? 0) eqn:F1; destruct (0 <? orient a b p) eqn:F2;
      try (apply Z.ltb_lt in F1); try (apply Z.ltb_ge in F1);
      try (apply Z.ltb_lt in F2); try (apply Z.ltb_ge in F2); lia.
  - destruct (0 <? - orient a b p) eqn:F1; destruct (orient a b p <? 0) eqn:F2;
      try (apply Z.ltb_lt in F1); try (apply Z.ltb_ge in F1);
      try (apply Z.ltb_lt in F2); try (apply Z.ltb_ge in F2); lia.
Qed.

Lemma w_range : forall p a b, -1 <= w p a b <= 1.
Proof.
  intros p a b. unfold w.
  destruct (snd a <=? snd p); destruct (snd p <? snd b); destruct (snd b <=? snd p);
    destruct (0 <? orient a b p); destruct (orient a b p <? 0); lia.
Qed.

Lemma w_degenerate : forall p a, w p a a = 0.
Proof.
  intros p a. unfold w.
  destruct (snd a <=? snd p) eqn:E1; destruct (snd p <? snd a) eqn:E2; try reflexivity.
  apply Z.leb_le in E1. apply Z.ltb_lt in E2. lia.
Qed.

Theorem wn_rotate_lemma : forall (l1 l2 : polygon) (p : point),
    wn (l1 ++ l2) p = wn (l2 ++ l1) p.
Proof. intros. apply cyc_sum_rotate. Qed.

(* reversal negates the winding number -- at every point, not only off the boundary *)
Theorem wn_rev_lemma : forall (poly : polygon) (p : point), wn (rev poly) p = - wn poly p.
Proof. intros. apply cyc_sum_rev_antisym. intros. apply w_antisym. Qed.

Corollary inside_rev : forall poly p, inside (rev poly) p = inside poly p.
Proof.
  intros. unfold inside. rewrite wn_rev_lemma.
  destruct (wn poly p =? 0) eqn:E; [apply Z.eqb_eq in E | apply Z.eqb_neq in E].
  - rewrite E. reflexivity.
  - destruct (- wn poly p =? 0) eqn:F; [apply Z.eqb_eq in F; lia | reflexivity].
Qed.

Corollary inside_rotate : forall l1 l2 p, inside (l1 ++ l2) p = inside (l2 ++ l1) p.
Proof. intros. unfold inside. rewrite wn_rotate_lemma. reflexivity. Qed.

(* ------------------------------------------------------------------ shoelace *)
Lemma shoe_antisym : forall a b, shoe b a = - shoe a b.
Proof. intros [ax ay] [bx by_]. unfold shoe. cbn [fst snd]. ring. Qed.

Theorem shoelace_rotate_lemma : forall l1 l2 : polygon, shoelace2 (l1 ++ l2) = shoelace2 (l2 ++ l1).
Proof. intros. apply cyc_sum_rotate. Qed.

Theorem shoelace_rev_lemma : forall poly : polygon, shoelace2 (rev poly) = - shoelace2 poly.
Proof. intros. apply cyc_sum_rev_antisym. intros. apply shoe_antisym. Qed.

Lemma l1_sym : forall a b, l1 b a = l1 a b.
Proof. intros [ax ay] [bx by_]. unfold l1. cbn [fst snd]. lia. Qed.

Lemma perim1_rev : forall poly, perim1 (rev poly) = perim1 poly.
Proof.
  intros. unfold perim1. rewrite cyc_sum_rev. apply cyc_sum_ext. intros. apply l1_sym.
Qed.

Lemma on_seg_sym : forall p a b, on_seg p b a = on_seg p a b.
Proof.
  intros p a b. unfold on_seg. rewrite (orient_swap a b p).
  rewrite (Z.min_comm (fst b)), (Z.max_comm (fst b)), (Z.min_comm (snd b)), (Z.max_comm (snd b)).
  f_equal. f_equal. f_equal. f_equal.
  destruct (orient a b p =? 0) eqn:E; [apply Z.eqb_eq in E | apply Z.eqb_neq in E].
  - rewrite E. reflexivity.
  - apply Z.eqb_neq. lia.
Qed.

(* shoelace2 is twice the signed area as gdstk computes it (Polygon::signed_area sums the cross
   products of the fan v0,(v_i),(v_i+1)): the fan sum equals the shoelace sum *)
Fixpoint fan_sum (v0 : point) (l : polygon) : Z :=
  match l with
  | a :: ((b :: _) as t) =>
      (fst a - fst v0) * (snd b - snd v0) - (fst b - fst v0) * (snd a - snd v0) + fan_sum v0 t
  | _ => 0
  end.

Definition fan_area2 (poly : polygon) : Z :=
  match poly with
  | v0 :: t => fan_sum v0 t
  | [] => 0
  end.

Lemma last_cons_default : forall {A} (l : list A) (a b : A), last (b :: l) a = last l b.
Proof.
  intros A l. induction l as [|c l IH]; intros a b; [reflexivity|].
  change (last (b :: c :: l) a) with (last (c :: l) a).
  rewrite (IH a c), (IH b c). reflexivity.
Qed.

Lemma fan_sum_path : forall v0 a l,
    fan_sum v0 (a :: l) = path_sum shoe (a :: l) - shoe v0 (last l a) + shoe v0 a.
Proof.
  intros v0 a l. revert a. induction l as [|b l IH]; intros a.
  - cbn [fan_sum path_sum last]. lia.
  - rewrite path_sum_cons2. specialize (IH b).
    rewrite (last_cons_default l a b).
    change (fan_sum v0 (a :: b :: l)) with
      ((fst a - fst v0) * (snd b - snd v0) - (fst b - fst v0) * (snd a - snd v0) + fan_sum v0 (b :: l)).
    rewrite IH. unfold shoe. destruct v0, a, b. cbn [fst snd]. ring.
Qed.

Lemma path_sum_snoc : forall {A} (f : A -> A -> Z) a l x,
    path_sum f (a :: l ++ [x]) = path_sum f (a :: l) + f (last l a) x.
Proof.
  intros A f a l. revert a. induction l as [|b l IH]; intros a x.
  - cbn [app path_sum last]. lia.
  - change (a :: (b :: l) ++ [x]) with (a :: b :: l ++ [x]).
    rewrite !path_sum_cons2. rewrite IH.
    rewrite (last_cons_default l a b). lia.
Qed.

Theorem fan_area_shoelace_lemma : forall poly : polygon, fan_area2 poly = shoelace2 poly.
Proof.
  intros [|v0 [|a l]].
  - reflexivity.
  - unfold shoelace2, fan_area2, shoe. cbn. destruct v0; cbn; ring.
  - unfold shoelace2. rewrite cyc_sum_cons. unfold fan_area2.
    rewrite fan_sum_path.
    change (v0 :: (a :: l) ++ [v0]) with (v0 :: a :: l ++ [v0]).
    rewrite path_sum_cons2, path_sum_snoc.
    rewrite (shoe_antisym v0 (last l a)). lia.
Qed.

(* ------------------------------------------------------------------ union by non-zero fill *)
Lemma zsum_01 : forall ws : list Z,
    (forall x, In x ws -> x = 0 \/ x = 1) ->
    0 <= zsum ws /\ (zsum ws <> 0 <-> exists x, In x ws /\ x <> 0).
Proof.
  induction ws as [|x ws IH]; intros H.
  - cbn. split; [lia|]. split; [lia|]. intros [x [[] _]].
  - destruct IH as [IH0 IH1]; [intros y Hy; apply H; right; exact Hy|].
    assert (Hx : x = 0 \/ x = 1) by (apply H; left; reflexivity).
    cbn [zsum fold_right]. fold (zsum ws). split; [lia|]. split.
    + intros Hs. destruct Hx as [-> | ->].
      * destruct (proj1 IH1) as [y [Hy1 Hy2]]; [lia|]. exists y. split; [right; exact Hy1 | exact Hy2].
      * exists 1. split; [left; reflexivity | lia].
    + intros [y [[-> | Hy1] Hy2]]; [lia|].
      assert (zsum ws <> 0) by (apply IH1; exists y; split; assumption). lia.
Qed.

(* If every operand has winding number 0 or 1 at p (positively oriented simple polygons), then
   the non-zero fill rule applied to the superposition gives the union: this is why gdstk's
   orientation normalisation makes Clipper's pftNonZero the union the property speaks of. *)
Theorem nonzero_union_lemma : forall (polys : list polygon) (p : point),
    (forall a, In a polys -> wn a p = 0 \/ wn a p = 1) ->
    (wn_sum polys p <> 0 <-> covers polys p = true).
Proof.
  intros polys p H. unfold wn_sum.
  destruct (zsum_01 (map (fun g => wn g p) polys)) as [_ Hz].
  - intros x Hx. apply in_map_iff in Hx. destruct Hx as [a [<- Ha]]. apply H, Ha.
  - rewrite Hz. unfold covers. rewrite existsb_exists. split.
    + intros [x [Hx Hnz]]. apply in_map_iff in Hx. destruct Hx as [a [<- Ha]].
      exists a. split; [exact Ha|]. unfold inside. apply negb_true_iff, Z.eqb_neq, Hnz.
    + intros [a [Ha Hin]]. exists (wn a p). split.
      * apply in_map_iff. exists a. split; [reflexivity | exact Ha].
      * unfold inside in Hin. apply negb_true_iff, Z.eqb_neq in Hin. exact Hin.
Qed.

(* the pure integer form asked for in the design *)
Theorem nonzero_union_Z_lemma : forall ws : list Z,
    (forall x, In x ws -> x = 0 \/ x = 1) ->
    (zsum ws <> 0 <-> exists x, In x ws /\ x <> 0).
Proof. intros ws H. apply (zsum_01 ws H). Qed.

Lemma cover_count_covers : forall group p, (0 < cover_count group p <-> covers group p = true).
Proof.
  intros group p. unfold cover_count, covers.
  induction group as [|g group IH].
  - cbn. split; [lia | discriminate].
  - cbn [map zsum fold_right existsb]. fold (zsum (map (fun g0 => if inside g0 p then 1 else 0) group)).
    assert (0 <= zsum (map (fun g0 => if inside g0 p then 1 else 0) group)).
    { clear IH. induction group as [|h group IHg]; cbn; [lia|].
      fold (zsum (map (fun g0 => if inside g0 p then 1 else 0) group)).
      destruct (inside h p); lia. }
    destruct (inside g p); cbn [orb].
    + split; [reflexivity | lia].
    + rewrite <- IH. lia.
Qed.

(* ------------------------------------------------------------------ distance *)


Lemma sq_cancel_lt : forall d a b, 0 < d -> d * d * a < b * (d * d) -> a < b.
Proof. intros. nia. Qed.

Theorem seg_closer_than_correct_lemma : forall (p a b : point) (r2 : Z),
    seg_closer_than p a b r2 = true <-> closer_spec p a b r2.
Proof.
  intros [px py] [ax ay] [bx by_] r2.
  unfold seg_closer_than, closer_spec, dist2_at. cbn [fst snd].
  set (dx := bx - ax). set (dy := by_ - ay). set (vx := px - ax). set (vy := py - ay).
  set (t := vx * dx + vy * dy). set (L := dx * dx + dy * dy).
  assert (HL : 0 <= L) by (unfold L; nia).
  destruct (t <=? 0) eqn:E1; [apply Z.leb_le in E1 | apply Z.leb_gt in E1].
  - (* before a *)
    rewrite Z.ltb_lt. split.
    + intros H. exists 0, 1. split; [lia|]. split; [lia|]. nia.
    + intros [n [d [Hd [Hn H]]]].
      assert (Hid : (d * vx - n * dx) * (d * vx - n * dx) + (d * vy - n * dy) * (d * vy - n * dy)
                    = d * d * (vx * vx + vy * vy) - 2 * (d * n) * t + n * n * L) by (unfold t, L; ring).
      rewrite Hid in H.
      assert (0 <= (d * n) * (- t)) by (apply Z.mul_nonneg_nonneg; nia).
      assert (0 <= n * n * L) by (apply Z.mul_nonneg_nonneg; nia).
      apply (sq_cancel_lt d); [exact Hd | lia].
  - destruct (L <=? t) eqn:E2; [apply Z.leb_le in E2 | apply Z.leb_gt in E2].
    + (* beyond b *)
      rewrite Z.ltb_lt.
      replace (px - bx) with (vx - dx) by (unfold vx, dx; ring).
      replace (py - by_) with (vy - dy) by (unfold vy, dy; ring).
      split.
      * intros H. exists 1, 1. split; [lia|]. split; [lia|].
        replace (1 * vx - 1 * dx) with (vx - dx) by ring.
        replace (1 * vy - 1 * dy) with (vy - dy) by ring. lia.
      * intros [n [d [Hd [Hn H]]]].
        assert (Hid : (d * vx - n * dx) * (d * vx - n * dx) + (d * vy - n * dy) * (d * vy - n * dy)
                      = d * d * ((vx - dx) * (vx - dx) + (vy - dy) * (vy - dy))
                        + 2 * (d * (d - n)) * (t - L) + (d - n) * (d - n) * L) by (unfold t, L; ring).
        rewrite Hid in H.
        assert (0 <= (d * (d - n)) * (t - L)) by (apply Z.mul_nonneg_nonneg; nia).
        assert (0 <= (d - n) * (d - n) * L) by (apply Z.mul_nonneg_nonneg; nia).
        apply (sq_cancel_lt d); [exact Hd | lia].
    + (* foot of the perpendicular strictly inside *)
      rewrite Z.ltb_lt. set (c := dx * vy - dy * vx).
      assert (HLpos : 0 < L) by lia.
      split.
      * intros H. exists t, L. split; [lia|]. split; [lia|].
        assert (Hid : (L * vx - t * dx) * (L * vx - t * dx) + (L * vy - t * dy) * (L * vy - t * dy)
                      = L * (c * c)) by (unfold t, L, c; ring).
        rewrite Hid. clearbody c t L. clear Hid.
        replace (r2 * (L * L)) with (L * (r2 * L)) by ring.
        apply Z.mul_lt_mono_pos_l; assumption.
      * intros [n [d [Hd [Hn H]]]].
        set (e := (d * vx - n * dx) * (d * vx - n * dx) + (d * vy - n * dy) * (d * vy - n * dy)) in *.
        assert (Hid : L * e = (d * c) * (d * c) + (d * t - n * L) * (d * t - n * L))
          by (unfold e, t, L, c; ring).
        clearbody e c t L.
        assert (H0 : 0 <= (d * t - n * L) * (d * t - n * L)) by apply Z.square_nonneg.
        assert (H1 : d * c * (d * c) <= L * e) by lia.
        assert (H2 : L * e < L * (r2 * (d * d))) by (apply Z.mul_lt_mono_pos_l; assumption).
        apply (sq_cancel_lt d); [exact Hd|].
        replace (d * d * (c * c)) with (d * c * (d * c)) by ring.
        apply (Z.mul_lt_mono_pos_l L); [exact HLpos|].
        replace (L * (r2 * L * (d * d))) with (L * (L * (r2 * (d * d)))) by ring.
        assert (H3 : L * (d * c * (d * c)) <= L * (L * e)) by (apply Z.mul_le_mono_nonneg_l; lia).
        assert (H4 : L * (L * e) < L * (L * (r2 * (d * d)))) by (apply Z.mul_lt_mono_pos_l; lia).
        lia.
Qed.

(* seg_dist2 returns the squared distance as a fraction: it is attained on the segment and no
   point of the segment is closer *)
Theorem seg_dist2_min_lemma : forall (p a b : point),
    let '(num, den) := seg_dist2 p a b in
    0 < den /\
    (forall n d, 0 < d -> 0 <= n <= d -> num * (d * d) <= dist2_at p a b n d * den) /\
    (exists n d, 0 < d /\ 0 <= n <= d /\ num * (d * d) = dist2_at p a b n d * den).
Proof.
  intros [px py] [ax ay] [bx by_].
  unfold seg_dist2, dist2_at. cbn [fst snd].
  set (dx := bx - ax). set (dy := by_ - ay). set (vx := px - ax). set (vy := py - ay).
  set (t := vx * dx + vy * dy). set (L := dx * dx + dy * dy).
  assert (HL : 0 <= L) by (unfold L; nia).
  destruct (t <=? 0) eqn:E1; [apply Z.leb_le in E1 | apply Z.leb_gt in E1].
  - split; [lia|]. split.
    + intros n d Hd Hn.
      assert (Hid : (d * vx - n * dx) * (d * vx - n * dx) + (d * vy - n * dy) * (d * vy - n * dy)
                    = d * d * (vx * vx + vy * vy) - 2 * (d * n) * t + n * n * L) by (unfold t, L; ring).
      rewrite Hid.
      assert (0 <= (d * n) * (- t)) by (apply Z.mul_nonneg_nonneg; nia).
      assert (0 <= n * n * L) by (apply Z.mul_nonneg_nonneg; nia). lia.
    + exists 0, 1. split; [lia|]. split; [lia|]. ring.
  - destruct (L <=? t) eqn:E2; [apply Z.leb_le in E2 | apply Z.leb_gt in E2].
    + replace (px - bx) with (vx - dx) by (unfold vx, dx; ring).
      replace (py - by_) with (vy - dy) by (unfold vy, dy; ring).
      split; [lia|]. split.
      * intros n d Hd Hn.
        assert (Hid : (d * vx - n * dx) * (d * vx - n * dx) + (d * vy - n * dy) * (d * vy - n * dy)
                      = d * d * ((vx - dx) * (vx - dx) + (vy - dy) * (vy - dy))
                        + 2 * (d * (d - n)) * (t - L) + (d - n) * (d - n) * L) by (unfold t, L; ring).
        rewrite Hid.
        assert (0 <= (d * (d - n)) * (t - L)) by (apply Z.mul_nonneg_nonneg; nia).
        assert (0 <= (d - n) * (d - n) * L) by (apply Z.mul_nonneg_nonneg; nia). lia.
      * exists 1, 1. split; [lia|]. split; [lia|]. ring.
    + set (c := dx * vy - dy * vx). split; [lia|]. split.
      * intros n d Hd Hn.
        set (e := (d * vx - n * dx) * (d * vx - n * dx) + (d * vy - n * dy) * (d * vy - n * dy)) in *.
        assert (Hid : L * e = (d * c) * (d * c) + (d * t - n * L) * (d * t - n * L))
          by (unfold e, t, L, c; ring).
        clearbody e c t L.
        assert (H0 : 0 <= (d * t - n * L) * (d * t - n * L)) by apply Z.square_nonneg.
        replace (c * c * (d * d)) with (d * c * (d * c)) by ring. lia.
      * exists t, L. split; [lia|]. split; [lia|].
        unfold t, L, c. ring.
Qed.

(* the cheap bounding-box pre-test never rejects an edge that is closer than r *)
Lemma seg_near_box_complete : forall p a b r,
    0 <= r -> seg_closer_than p a b (r * r) = true -> seg_near_box p a b r = true.
Proof.
  intros [px py] [ax ay] [bx by_] r Hr H.
  apply seg_closer_than_correct_lemma in H. destruct H as [n [d [Hd [Hn H]]]].
  unfold dist2_at in H. cbn [fst snd] in H.
  unfold seg_near_box. cbn [fst snd].
  set (ex := d * (px - ax) - n * (bx - ax)) in *.
  set (ey := d * (py - ay) - n * (by_ - ay)) in *.
  assert (Hx : ex * ex < (r * d) * (r * d)) by nia.
  assert (Hy : ey * ey < (r * d) * (r * d)) by nia.
  assert (Hrd : 0 <= r * d) by nia.
  assert (Hx1 : - (r * d) < ex < r * d) by nia.
  assert (Hy1 : - (r * d) < ey < r * d) by nia.
  assert (Bx : d * Z.min ax bx <= d * ax + n * (bx - ax) <= d * Z.max ax bx).
  { destruct (Z.le_ge_cases ax bx).
    - rewrite Z.min_l, Z.max_r by lia. nia.
    - rewrite Z.min_r, Z.max_l by lia. nia. }
  assert (By : d * Z.min ay by_ <= d * ay + n * (by_ - ay) <= d * Z.max ay by_).
  { destruct (Z.le_ge_cases ay by_).
    - rewrite Z.min_l, Z.max_r by lia. nia.
    - rewrite Z.min_r, Z.max_l by lia. nia. }
  unfold ex in Hx1. unfold ey in Hy1.
  rewrite !andb_true_iff, !Z.ltb_lt.
  repeat split.
  - assert (d * (Z.min ax bx - r) < d * px) by nia. nia.
  - assert (d * px < d * (Z.max ax bx + r)) by nia. nia.
  - assert (d * (Z.min ay by_ - r) < d * py) by nia. nia.
  - assert (d * py < d * (Z.max ay by_ + r)) by nia. nia.
Qed.

Theorem seg_near_lemma : forall p a b r,
    0 <= r -> seg_near p a b r = seg_closer_than p a b (r * r).
Proof.
  intros p a b r Hr. unfold seg_near.
  destruct (seg_closer_than p a b (r * r)) eqn:E.
  - rewrite (seg_near_box_complete p a b r Hr E). reflexivity.
  - apply andb_false_r.
Qed.

Theorem poly_near_lemma : forall p poly r,
    0 <= r -> poly_near p poly r = poly_closer_than p poly (r * r).
Proof.
  intros p poly r Hr. unfold poly_near, poly_closer_than.
  apply cyc_exists_ext. intros a b. apply seg_near_lemma, Hr.
Qed.

(* poly_closer_than decides: some point of some edge of the closed polygon is closer than r2 *)
Lemma path_exists_In : forall {A} (g : A -> A -> bool) l,
    path_exists g l = true <-> exists l1 a b l2, l = l1 ++ a :: b :: l2 /\ g a b = true.
Proof.
  intros A g l. induction l as [|x l IH].
  - split; [discriminate|]. intros [l1 [a [b [l2 [H _]]]]]. destruct l1; discriminate.
  - destruct l as [|y l].
    + split; [discriminate|]. intros [l1 [a [b [l2 [H _]]]]].
      destruct l1 as [|z [|z' l1]]; discriminate.
    + cbn [path_exists]. rewrite orb_true_iff, IH. split.
      * intros [H | [l1 [a [b [l2 [H1 H2]]]]]].
        -- exists [], x, y, l. split; [reflexivity | exact H].
        -- exists (x :: l1), a, b, l2. split; [rewrite H1; reflexivity | exact H2].
      * intros [l1 [a [b [l2 [H1 H2]]]]]. destruct l1 as [|z l1].
        -- left. cbn [app] in H1. injection H1 as -> ->. intros; subst. exact H2.
        -- right. cbn [app] in H1. injection H1 as -> H1. exists l1, a, b, l2. split; assumption.
Qed.

Definition cyc_edge {A} (l : list A) (a b : A) : Prop :=
  match l with
  | [] => False
  | x :: _ => exists l1 l2, l ++ [x] = l1 ++ a :: b :: l2
  end.

Theorem poly_closer_than_correct_lemma : forall p poly r2,
    poly_closer_than p poly r2 = true <-> exists a b, cyc_edge poly a b /\ closer_spec p a b r2.
Proof.
  intros p [|x poly] r2.
  - cbn. split; [discriminate | intros [a [b [[] _]]]].
  - unfold poly_closer_than, cyc_exists, cyc_edge. rewrite path_exists_In. split.
    + intros [l1 [a [b [l2 [H1 H2]]]]]. exists a, b. split.
      * exists l1, l2. exact H1.
      * apply seg_closer_than_correct_lemma, H2.
    + intros [a [b [[l1 [l2 H1]] H2]]]. exists l1, a, b, l2. split; [exact H1|].
      apply seg_closer_than_correct_lemma, H2.
Qed.

(* ------------------------------------------------------------------ rectangles *)
(* the clip rectangle slice() builds: (x0,y0),(x1,y0),(x1,y1),(x0,y1) *)
Definition rect (x0 x1 y0 y1 : Z) : polygon := [(x0, y0); (x1, y0); (x1, y1); (x0, y1)].

Theorem rect_wn_lemma : forall x0 x1 y0 y1 px py,
    x0 < x1 -> y0 < y1 ->
    wn (rect x0 x1 y0 y1) (px, py) = if (x0 <=? px) && (px <? x1) && (y0 <=? py) && (py <? y1) then 1 else 0.
Proof.
  intros x0 x1 y0 y1 px py Hx Hy.
  unfold wn, rect, cyc_sum. cbn [app path_sum]. unfold w, orient. cbn [fst snd].
  destruct (x0 <=? px) eqn:A1; [apply Z.leb_le in A1 | apply Z.leb_gt in A1];
  destruct (px <? x1) eqn:A2; [apply Z.ltb_lt in A2 | apply Z.ltb_ge in A2 | apply Z.ltb_lt in A2 | apply Z.ltb_ge in A2];
  destruct (y0 <=? py) eqn:A3; try (apply Z.leb_le in A3); try (apply Z.leb_gt in A3);
  destruct (py <? y1) eqn:A4; try (apply Z.ltb_lt in A4); try (apply Z.ltb_ge in A4);
  cbn [andb];
  repeat match goal with
         | |- context [if ?c then _ else _] =>
             let E := fresh "E" in
             destruct c eqn:E;
             try (apply Z.leb_le in E); try (apply Z.leb_gt in E);
             try (apply Z.ltb_lt in E); try (apply Z.ltb_ge in E)
         end; try lia; try nia.
Qed.

(* a reversed rectangle (x1 < x0), as slice() builds for cuts outside the bounding box, covers the
   same region with the opposite sign *)
Theorem rect_wn_rev_lemma : forall x0 x1 y0 y1 px py,
    x1 < x0 -> y0 < y1 ->
    wn (rect x0 x1 y0 y1) (px, py) = if (x1 <=? px) && (px <? x0) && (y0 <=? py) && (py <? y1) then -1 else 0.
Proof.
  intros x0 x1 y0 y1 px py Hx Hy.
  unfold wn, rect, cyc_sum. cbn [app path_sum]. unfold w, orient. cbn [fst snd].
  destruct (x1 <=? px) eqn:A1; [apply Z.leb_le in A1 | apply Z.leb_gt in A1];
  destruct (px <? x0) eqn:A2; [apply Z.ltb_lt in A2 | apply Z.ltb_ge in A2 | apply Z.ltb_lt in A2 | apply Z.ltb_ge in A2];
  destruct (y0 <=? py) eqn:A3; try (apply Z.leb_le in A3); try (apply Z.leb_gt in A3);
  destruct (py <? y1) eqn:A4; try (apply Z.ltb_lt in A4); try (apply Z.ltb_ge in A4);
  cbn [andb];
  repeat match goal with
         | |- context [if ?c then _ else _] =>
             let E := fresh "E" in
             destruct c eqn:E;
             try (apply Z.leb_le in E); try (apply Z.leb_gt in E);
             try (apply Z.ltb_lt in E); try (apply Z.ltb_ge in E)
         end; try lia; try nia.
Qed.

(* ------------------------------------------------------------------ the hypotheses are satisfiable *)
Example unit_square_wn : wn (rect 0 10 0 10) (5, 5) = 1 /\ wn (rev (rect 0 10 0 10)) (5, 5) = -1
                         /\ wn (rect 0 10 0 10) (15, 5) = 0 /\ shoelace2 (rect 0 10 0 10) = 200
                         /\ on_boundary (rect 0 10 0 10) (10, 3) = true
                         /\ seg_closer_than (5, 3) (0, 0) (10, 0) 10 = true
                         /\ seg_closer_than (5, 3) (0, 0) (10, 0) 9 = false.
Proof. vm_compute. repeat split. Qed.

Example nonzero_union_premise_ok :
  forall p, In p [(5,5); (15,5); (12,12); (0,0); (10,10)] ->
            forall a, In a [rect 0 10 0 10; rect 5 20 5 20] -> wn a p = 0 \/ wn a p = 1.
Proof.
  intros p Hp a Ha. cbn [In] in Hp, Ha.
  repeat (destruct Hp as [<- | Hp]; [repeat (destruct Ha as [<- | Ha]; [vm_compute; auto|]); contradiction|]).
  contradiction.
Qed.

Print Assumptions wn_rotate_lemma.
Print Assumptions wn_rev_lemma.
Print Assumptions shoelace_rev_lemma.
Print Assumptions shoelace_rotate_lemma.
Print Assumptions fan_area_shoelace_lemma.
Print Assumptions seg_closer_than_correct_lemma.
Print Assumptions seg_dist2_min_lemma.
Print Assumptions poly_near_lemma.
Print Assumptions poly_closer_than_correct_lemma.
Print Assumptions nonzero_union_lemma.
Print Assumptions rect_wn_lemma.
