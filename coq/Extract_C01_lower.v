(* extraction for unit c01_lower (C01): the lowering model, the writer model it feeds, the placement denotations *)
Require Import Base GdsFrame GdsModel GdsWrite GdsReal Repetition GdsLower.
Require Import Extraction ExtrOcamlBasic.
Extraction Blacklist List String Int.
Extraction "../ocaml/extracted/c01_lower.ml" lower lower_err write_gds_full q_of_dbl q_of_frac
  cell_placements cell_spec_placements cell_spec_rounded lower_cell Z.of_N Z.of_nat N.of_nat.
