(* Proofs about the CBLOCK-aware reader model of OasisCblock.v:
     (1) cblock_conservative   : on a stream in which the reader of OasisRead.v never meets record 34, the extended model
                                 gives the same outcome, for EVERY inflate;
     (2) cblock_splice         : executing a well-formed CBLOCK record = continuing with the inflated bytes spliced in, in
                                 the same reader state (blocks are transparent, modal state carries through), provided no
                                 CBLOCK record lies inside the block and no record with a multi-byte read crosses its end
                                 ([blk_ok], computed with the loop's own stepping); file-level form cblock_splice_file;
     (3) cblock_bad_type, cblock_inflate_fails, cblock_truncated, cblock_final_not_lib : the error paths give exactly
         the stated error results; no way in which a CBLOCK record ends the loop is a library. *)
Require Import Base OasisInt OasisSpec OasisSpecProofs OasisRead OasisReadProofs OasisCblock.
From Coq Require Import ZifyBool ZifyN ZifyNat.
Local Open Scope N_scope.

(* ================================================================== unfolding the loop *)
Lemma r_loop_c_O inflate n st s ob : r_loop_c inflate n O st s ob = CR Hang.
Proof. destruct n; reflexivity. Qed.
Lemma r_loop_c_S inflate n f st s ob :
  r_loop_c inflate n (S f) st s ob =
  match step_c inflate st s ob with
  | SC_final r => r
  | SC_cont st1 s1 ob1 => r_loop_c inflate n f st1 s1 ob1
  | SC_block st1 s1 ob1 =>
      match n with
      | O => CR Hang
      | S n' => r_loop_c inflate n' (S (S (length (s_bs s1)))) st1 s1 ob1
      end
  end.
Proof. destruct n; reflexivity. Qed.

(* more fuel does not change a result other than Hang *)
Lemma r_loop_c_mono inflate : forall n f st s ob r,
  r_loop_c inflate n f st s ob = r -> r <> CR Hang ->
  forall n' f', (n <= n')%nat -> (f <= f')%nat -> r_loop_c inflate n' f' st s ob = r.
Proof.
  induction n as [|n IHn].
  - induction f as [|f IHf]; intros st s ob r H Hr n' f' Hn Hf.
    + rewrite r_loop_c_O in H. congruence.
    + destruct f' as [|f']; [lia|]. rewrite r_loop_c_S in *.
      destruct (step_c inflate st s ob) as [r0|st1 s1 ob1|st1 s1 ob1].
      * exact H.
      * apply (IHf _ _ _ _ H Hr); lia.
      * congruence.
  - induction f as [|f IHf]; intros st s ob r H Hr n' f' Hn Hf.
    + rewrite r_loop_c_O in H. congruence.
    + destruct f' as [|f']; [lia|]. rewrite r_loop_c_S in *.
      destruct (step_c inflate st s ob) as [r0|st1 s1 ob1|st1 s1 ob1].
      * exact H.
      * apply (IHf _ _ _ _ H Hr); lia.
      * destruct n' as [|n']; [lia|]. apply (IHn _ _ _ _ _ H Hr); lia.
Qed.

(* ================================================================== (1) conservative extension *)
Lemma h_record_34 st s : h_record st 34 s = H_end (Ok RCblock).
Proof. reflexivity. Qed.

Lemma step_c_file inflate st s :
  step_c inflate st s None =
  (let (o, s1) := rd1 s in
   match o, s_err s1 with
   | Some id, None =>
       if id =? 34 then h_cblock inflate st s1 None
       else match h_record st id s1 with
            | H_cont st1 s2 => SC_cont st1 s2 None
            | H_stop c st1 s2 => SC_final (CR (exit_outcome (Some c) st1 s2))
            | H_end r => SC_final (CR r)
            end
   | _, _ => SC_final (CR (exit_outcome None st s1))
   end).
Proof. reflexivity. Qed.

Lemma r_loop_c_conservative inflate : forall f n st s,
  r_loop f st s <> Ok RCblock -> r_loop_c inflate n f st s None = CR (r_loop f st s).
Proof.
  induction f as [|f IH]; intros n st s H.
  - rewrite r_loop_c_O. reflexivity.
  - rewrite r_loop_c_S, step_c_file. cbn [r_loop] in *.
    destruct (rd1 s) as [o s1]. destruct o as [id|]; [|reflexivity].
    destruct (s_err s1); [reflexivity|].
    destruct (id =? 34) eqn:E34.
    + apply N.eqb_eq in E34. subst id. rewrite h_record_34 in H. congruence.
    + destruct (h_record st id s1) as [st1 s2|c st1 s2|r]; try reflexivity.
      apply IH. exact H.
Qed.

Theorem cblock_conservative_lemma : forall inflate bs,
  read_oas_model bs <> Ok RCblock -> read_oas_model_c inflate bs = CR (read_oas_model bs).
Proof.
  intros inflate bs H. unfold read_oas_model_c, read_oas_model in *.
  destruct (strip_prefix magic_start bs) as [bs1|]; [|reflexivity].
  destruct (s_string false (mkS bs1 None)) as [v s1| |]; try reflexivity.
  destruct (s_err s1) as [[| |]|]; try reflexivity.
  destruct (s_real s1) as [u s2]. destruct (s_uint s2) as [flag s3].
  destruct (negb (bytes_eqb v version_1_0)); [reflexivity|].
  apply r_loop_c_conservative. exact H.
Qed.

(* ================================================================== small facts *)
Lemma takeN_app z post : takeN (N.of_nat (length z)) (z ++ post) = z.
Proof.
  unfold takeN. rewrite app_length. replace (N.min _ _) with (N.of_nat (length z)) by lia.
  rewrite Nat2N.id. rewrite firstn_app, Nat.sub_diag, firstn_all. cbn [firstn]. apply app_nil_r.
Qed.
Lemma dropN_app z post : dropN (N.of_nat (length z)) (z ++ post) = post.
Proof.
  unfold dropN. rewrite app_length. replace (N.min _ _) with (N.of_nat (length z)) by lia.
  rewrite Nat2N.id. rewrite skipn_app, Nat.sub_diag, skipn_all. reflexivity.
Qed.
Lemma takeN_short k l : N.of_nat (length l) <= k -> takeN k l = l.
Proof. intros H. unfold takeN. replace (N.min _ _) with (N.of_nat (length l)) by lia. rewrite Nat2N.id. apply firstn_all. Qed.
Lemma dropN_short k l : N.of_nat (length l) <= k -> dropN k l = [].
Proof. intros H. unfold dropN. replace (N.min _ _) with (N.of_nat (length l)) by lia. rewrite Nat2N.id. apply skipn_all. Qed.

Lemma s_uint_enc v rest : wf_u v -> s_uint (mkS (enc_uint v ++ rest) None) = (v, mkS rest None).
Proof. intros H. apply s_uint_ok. apply rd_uint_enc. exact H. Qed.
Lemma c_uint_file s : c_uint s None = (fst (s_uint s), snd (s_uint s), None).
Proof. unfold c_uint. destruct (s_uint s). reflexivity. Qed.
Lemma s_uint_zero t : s_uint (mkS (0 :: t) None) = (0, mkS t None).
Proof. reflexivity. Qed.

Definition is_lib (r : cres) : Prop := exists u lp cells, r = CR (Ok (RLib u lp cells)).
Lemma exit_not_lib c st s : ~ is_lib (CR (exit_outcome c st s)).
Proof.
  intros (u & lp & cs & H). injection H as H. unfold exit_outcome in H.
  destruct (cleanup_faults st); [discriminate|].
  destruct (s_err s) as [[| |]|]; try discriminate. destruct c as [[|]|]; discriminate.
Qed.
Lemma zlib_exit_not_lib b st s : ~ is_lib (zlib_exit b st s).
Proof.
  intros (u & lp & cs & H). unfold zlib_exit in H.
  destruct (cleanup_faults st); [discriminate|].
  destruct (s_err s) as [[| |]|]; try discriminate. destruct b; discriminate.
Qed.

(* ================================================================== (2) a block is transparent *)
(* the step that executes a well-formed CBLOCK record read from the file *)
Lemma cblock_entry inflate st usize z x post :
  usize < two32 -> N.of_nat (length z) < two32 ->
  inflate z usize = Some x -> N.of_nat (length x) = usize ->
  step_c inflate st (mkS (cblock_rec usize z ++ post) None) None =
  SC_block st (mkS (x ++ post) None) (if usize =? 0 then None else Some (mkB 0 usize)).
Proof.
  intros HU HC Hi Hx. rewrite step_c_file. unfold cblock_rec. cbn [app rd1 s_bs s_err].
  change (34 =? 34) with true. cbv iota.
  unfold h_cblock. rewrite c_uint_file, s_uint_zero. cbn [fst snd]. change (negb (0 =? 0)) with false. cbv iota.
  rewrite c_uint_file. rewrite <- !app_assoc.
  rewrite s_uint_enc by (unfold wf_u, two64; unfold two32 in HU; lia). cbn [fst snd].
  rewrite s_uint_enc by (unfold wf_u, two64; unfold two32 in HC; lia). cbn [s_bs s_err].
  rewrite (N.mod_small _ _ HC), (N.mod_small _ _ HU).
  rewrite takeN_app, dropN_app.
  replace (N.of_nat (length (z ++ post)) <? N.of_nat (length z)) with false
    by (symmetry; apply N.ltb_ge; rewrite app_length; lia).
  replace (alloc_fails usize) with false by (symmetry; unfold alloc_fails; apply N.leb_gt; unfold two32 in HU; lia).
  unfold inflate_end. rewrite Hi. rewrite Hx at 1. rewrite N.leb_refl.
  replace (N.of_nat (length x) <? usize) with false by (symmetry; apply N.ltb_ge; lia). reflexivity.
Qed.

Lemma adv_file k m : adv None k m = Some None.
Proof. reflexivity. Qed.

Lemma blk_transparent inflate : forall f n st s b,
  blk_ok f st s b = true -> r_loop_c inflate n f st s (Some b) = r_loop_c inflate n f st s None.
Proof.
  induction f as [|f IH]; intros n st s b H.
  - rewrite !r_loop_c_O. reflexivity.
  - rewrite !r_loop_c_S. unfold step_c. cbn [blk_ok] in H.
    destruct (rd1 s) as [o s1]. destruct o as [id|]; [|reflexivity].
    destruct (s_err s1); [reflexivity|].
    destruct (id =? 34) eqn:E34.
    + destruct (adv_s (Some b) 1) as [b1|] eqn:Ea; [discriminate|]. reflexivity.
    + destruct (adv_s (Some b) 1) as [b1|] eqn:Ea; [|reflexivity].
      change (adv_s None 1) with (@None blk).
      destruct (h_record st id s1) as [st1 s2|c st1 s2|r]; [| |reflexivity]; rewrite adv_file.
      * destruct (adv (Some b1) (consumed s1 s2) (multi_kind id)) as [[b2|]|]; [|reflexivity|discriminate].
        apply IH. exact H.
      * destruct (adv (Some b1) (consumed s1 s2) (multi_kind id)) as [o2|]; [reflexivity|discriminate].
Qed.

Theorem cblock_splice_lemma : forall inflate n f st usize z x post,
  usize < two32 -> N.of_nat (length z) < two32 ->
  inflate z usize = Some x -> N.of_nat (length x) = usize ->
  blk_ok (S (S (length (x ++ post)))) st (mkS (x ++ post) None) (mkB 0 usize) = true ->
  r_loop_c inflate (S n) (S f) st (mkS (cblock_rec usize z ++ post) None) None =
  r_loop_c inflate n (S (S (length (x ++ post)))) st (mkS (x ++ post) None) None.
Proof.
  intros inflate n f st usize z x post HU HC Hi Hx Hok.
  rewrite r_loop_c_S, (cblock_entry inflate st usize z x post HU HC Hi Hx). cbn [s_bs].
  destruct (usize =? 0); [reflexivity|]. apply blk_transparent. exact Hok.
Qed.

(* ---- records that the loop runs through when [rest] follows them *)
Inductive rsteps (rest : list N) : rstate -> list (list N) -> rstate -> Prop :=
| rsteps_nil st : rsteps rest st [] st
| rsteps_cons st id body st1 rs st2 :
    id <> 34 ->
    h_record st id (mkS (body ++ concat rs ++ rest) None) = H_cont st1 (mkS (concat rs ++ rest) None) ->
    rsteps rest st1 rs st2 ->
    rsteps rest st ((id :: body) :: rs) st2.

(* the bytes fit into what is left of the block *)
Definition fits (ob : option blk) (k : N) : Prop :=
  match ob with None => True | Some b => b_off b + k <= b_size b end.
Lemma adv_fits ob a k m : fits ob (a + k) -> adv (adv_s ob a) k m = Some (adv_s ob (a + k)).
Proof.
  destruct ob as [b|]; [|reflexivity]. cbn [fits adv_s]. intros H.
  destruct (b_off b + a <? b_size b) eqn:E1.
  - cbn [adv b_off b_size]. rewrite <- N.add_assoc.
    destruct (b_off b + (a + k) <? b_size b) eqn:E2; [reflexivity|].
    replace (b_off b + (a + k) =? b_size b) with true by (symmetry; apply N.eqb_eq; lia). reflexivity.
  - cbn [adv]. replace (b_off b + (a + k) <? b_size b) with false by (symmetry; apply N.ltb_ge; lia). reflexivity.
Qed.
Lemma adv_s_add ob a k : adv_s (adv_s ob a) k = adv_s ob (a + k).
Proof.
  destruct ob as [b|]; [|reflexivity]. cbn [adv_s].
  destruct (b_off b + a <? b_size b) eqn:E1.
  - cbn [adv_s b_off b_size]. rewrite <- N.add_assoc. reflexivity.
  - cbn [adv_s]. replace (b_off b + (a + k) <? b_size b) with false by (symmetry; apply N.ltb_ge; lia). reflexivity.
Qed.
Lemma fits_adv_s ob a k : fits ob (a + k) -> fits (adv_s ob a) k.
Proof.
  destruct ob as [b|]; [|intros; exact I]. cbn [fits adv_s]. intros H.
  destruct (b_off b + a <? b_size b); cbn [fits b_off b_size]; [lia|exact I].
Qed.

Lemma consumed_app body rest : consumed (mkS (body ++ rest) None) (mkS rest None) = N.of_nat (length body).
Proof. unfold consumed. cbn [s_bs]. rewrite app_length. lia. Qed.

(* in.data != NULL implies cursor < data + data_size *)
Definition blk_wf (ob : option blk) : Prop := match ob with None => True | Some b => b_off b < b_size b end.
Lemma adv_s_wf ob k : blk_wf (adv_s ob k).
Proof.
  destruct ob as [b|]; [|exact I]. cbn [adv_s]. destruct (b_off b + k <? b_size b) eqn:E; [|exact I].
  cbn [blk_wf b_off b_size]. lia.
Qed.
Lemma adv_s_0 ob : blk_wf ob -> adv_s ob 0 = ob.
Proof.
  destruct ob as [b|]; [|reflexivity]. cbn [blk_wf adv_s]. intros H. rewrite N.add_0_r.
  replace (b_off b <? b_size b) with true by (symmetry; apply N.ltb_lt; exact H). destruct b; reflexivity.
Qed.

Lemma rsteps_loop inflate rest st rs st' : rsteps rest st rs st' -> forall n f ob,
  blk_wf ob -> fits ob (N.of_nat (length (concat rs))) ->
  r_loop_c inflate n (length rs + f) st (mkS (concat rs ++ rest) None) ob =
  r_loop_c inflate n f st' (mkS rest None) (adv_s ob (N.of_nat (length (concat rs)))).
Proof.
  induction 1 as [st|st id body st1 rs st2 Hid Hrec Hs IH]; intros n f ob Hwf Hfit.
  - cbn [concat length Nat.add app]. rewrite adv_s_0 by exact Hwf. reflexivity.
  - cbn [concat length Nat.add]. rewrite <- app_assoc. cbn [app]. rewrite r_loop_c_S.
    unfold step_c. cbn [rd1 s_bs s_err].
    replace (id =? 34) with false by (symmetry; apply N.eqb_neq; exact Hid).
    rewrite Hrec, consumed_app.
    cbn [concat] in Hfit. rewrite app_length in Hfit. cbn [length] in Hfit.
    assert (Hf1 : fits ob (1 + N.of_nat (length body))) by (destruct ob as [b|]; cbn [fits] in *; [lia|exact I]).
    rewrite (adv_fits ob 1 _ _ Hf1).
    rewrite IH.
    + rewrite adv_s_add. f_equal. f_equal. cbn [length]. rewrite app_length. lia.
    + apply adv_s_wf.
    + apply (fits_adv_s ob (1 + N.of_nat (length body))).
      destruct ob as [b|]; cbn [fits] in *; [lia|exact I].
Qed.

Lemma rsteps_length rest st rs st' : rsteps rest st rs st' -> (length rs <= length (concat rs))%nat.
Proof. induction 1; cbn [concat length]; [lia|]. rewrite app_length. cbn [length]. lia. Qed.

(* ---- the file-level form.  [start_of hdr u]: hdr = magic, START record with unit u (and, if any, the offset table);
   [rsteps rest (q_init u) pre st]: the records before the CBLOCK when [rest] follows them *)
Definition start_of (hdr : list N) (u : real) : Prop :=
  forall inflate rest,
    read_oas_model_c inflate (hdr ++ rest) =
    r_loop_c inflate (S (length (hdr ++ rest))) (S (S (length rest))) (q_init u) (mkS rest None) None.

Theorem cblock_splice_file_lemma : forall inflate hdr u pre st usize z x post r1 r2,
  start_of hdr u ->
  rsteps (cblock_rec usize z ++ post) (q_init u) pre st -> rsteps (x ++ post) (q_init u) pre st ->
  usize < two32 -> N.of_nat (length z) < two32 ->
  inflate z usize = Some x -> N.of_nat (length x) = usize ->
  blk_ok (S (S (length (x ++ post)))) st (mkS (x ++ post) None) (mkB 0 usize) = true ->
  read_oas_model_c inflate (hdr ++ concat pre ++ cblock_rec usize z ++ post) = r1 ->
  read_oas_model_c inflate (hdr ++ concat pre ++ x ++ post) = r2 ->
  r1 <> CR Hang -> r2 <> CR Hang -> r1 = r2.
Proof.
  intros inflate hdr u pre st usize z x post r1 r2 Hst Hpre Hpre2 HU HC Hi Hx Hok H1 H2 N1 N2.
  pose proof (rsteps_length _ _ _ _ Hpre) as Hlen.
  rewrite Hst in H1, H2.
  (* the prefix *)
  set (n1 := S (length (hdr ++ concat pre ++ cblock_rec usize z ++ post))) in *.
  set (n2 := S (length (hdr ++ concat pre ++ x ++ post))) in *.
  assert (E1 : exists f1, S (S (length (concat pre ++ cblock_rec usize z ++ post))) = (length pre + S f1)%nat).
  { exists (S (length (concat pre ++ cblock_rec usize z ++ post)) - length pre)%nat. rewrite app_length. lia. }
  destruct E1 as (f1 & E1). rewrite E1 in H1.
  rewrite (rsteps_loop inflate _ _ _ _ Hpre n1 (S f1) None I I) in H1. cbn [adv_s] in H1.
  assert (E2 : exists f2, S (S (length (concat pre ++ x ++ post))) = (length pre + f2)%nat /\ (S (S (length (x ++ post))) <= f2)%nat).
  { exists (S (S (length (concat pre ++ x ++ post))) - length pre)%nat. rewrite !app_length. split; lia. }
  destruct E2 as (f2 & E2 & Hf2). rewrite E2 in H2.
  rewrite (rsteps_loop inflate _ _ _ _ Hpre2 n2 f2 None I I) in H2. cbn [adv_s] in H2.
  (* the block *)
  subst n1. rewrite (cblock_splice_lemma inflate _ f1 st usize z x post HU HC Hi Hx Hok) in H1.
  (* same configuration, two fuels *)
  set (nn := Nat.max (length (hdr ++ concat pre ++ cblock_rec usize z ++ post)) n2).
  pose proof (r_loop_c_mono inflate _ _ _ _ _ _ H1 N1 nn f2 ltac:(lia) Hf2) as A.
  pose proof (r_loop_c_mono inflate _ _ _ _ _ _ H2 N2 nn f2 ltac:(lia) ltac:(lia)) as B.
  congruence.
Qed.

(* ================================================================== (3) the error paths *)
(* unknown compression type (any non-zero value): InvalidFile unless one of the two skipped integers fails *)
Theorem cblock_bad_type_lemma : forall inflate n f st ty rest,
  wf_u ty -> ty <> 0 ->
  r_loop_c inflate n (S f) st (mkS (34 :: enc_uint ty ++ rest) None) None =
  CR (exit_outcome (Some C_invalid) st (snd (s_uint (snd (s_uint (mkS rest None)))))).
Proof.
  intros inflate n f st ty rest Hw Hty. rewrite r_loop_c_S, step_c_file. cbn [rd1 s_bs s_err].
  change (34 =? 34) with true. cbv iota. unfold h_cblock.
  rewrite c_uint_file, s_uint_enc by exact Hw. cbn [fst snd].
  replace (negb (ty =? 0)) with true by (symmetry; apply negb_true_iff; apply N.eqb_neq; exact Hty). cbv iota.
  rewrite !c_uint_file. cbn [fst snd]. reflexivity.
Qed.

(* inflate does not end with Z_STREAM_END on the complete compressed data: ZlibError *)
Theorem cblock_inflate_fails_lemma : forall inflate n f st usize z post,
  usize < 68719476736 -> N.of_nat (length z) < two32 ->
  inflate_end inflate z (usize mod two32) = None ->
  r_loop_c inflate n (S f) st (mkS (cblock_rec usize z ++ post) None) None =
  (if cleanup_faults st then CR Crash else CR_zlib).
Proof.
  intros inflate n f st usize z post HU HC Hi. rewrite r_loop_c_S, step_c_file. unfold cblock_rec. cbn [app rd1 s_bs s_err].
  change (34 =? 34) with true. cbv iota.
  unfold h_cblock. rewrite c_uint_file, s_uint_zero. cbn [fst snd]. change (negb (0 =? 0)) with false. cbv iota.
  rewrite c_uint_file. rewrite <- !app_assoc.
  rewrite s_uint_enc by (unfold wf_u, two64; lia). cbn [fst snd].
  rewrite s_uint_enc by (unfold wf_u, two64; unfold two32 in HC; lia). cbn [s_bs s_err].
  rewrite (N.mod_small _ _ HC). rewrite takeN_app, dropN_app.
  replace (N.of_nat (length (z ++ post)) <? N.of_nat (length z)) with false
    by (symmetry; apply N.ltb_ge; rewrite app_length; lia).
  replace (alloc_fails usize) with false by (symmetry; unfold alloc_fails; apply N.leb_gt; lia).
  rewrite Hi. unfold zlib_exit. cbn [s_err]. reflexivity.
Qed.

(* the file ends inside the compressed data: InvalidFile when what is there completes the deflate stream, otherwise
   InvalidFile or ZlibError (undetermined); never a library *)
Theorem cblock_truncated_lemma : forall inflate n f st usize csize zt,
  usize < 68719476736 -> csize < two32 -> N.of_nat (length zt) < csize ->
  r_loop_c inflate n (S f) st (mkS (34 :: 0 :: enc_uint usize ++ enc_uint csize ++ zt) None) None =
  match inflate_end inflate zt (usize mod two32) with
  | None => if cleanup_faults st then CR Crash else CR_short
  | Some _ => CR (exit_outcome (Some C_invalid) st (mkS [] None))
  end.
Proof.
  intros inflate n f st usize csize zt HU HC Hz. rewrite r_loop_c_S, step_c_file. cbn [rd1 s_bs s_err].
  change (34 =? 34) with true. cbv iota.
  unfold h_cblock. rewrite c_uint_file, s_uint_zero. cbn [fst snd]. change (negb (0 =? 0)) with false. cbv iota.
  rewrite c_uint_file.
  rewrite s_uint_enc by (unfold wf_u, two64; lia). cbn [fst snd].
  rewrite s_uint_enc by (unfold wf_u, two64; unfold two32 in HC; lia). cbn [s_bs s_err].
  rewrite (N.mod_small _ _ HC). rewrite takeN_short, dropN_short by lia.
  replace (N.of_nat (length zt) <? csize) with true by (symmetry; apply N.ltb_lt; exact Hz).
  replace (alloc_fails usize) with false by (symmetry; unfold alloc_fails; apply N.leb_gt; lia).
  destruct (inflate_end inflate zt (usize mod two32)); [reflexivity|].
  unfold zlib_exit. cbn [s_err]. reflexivity.
Qed.

(* whatever the bytes and the block state: when a CBLOCK record ends the loop, it does so with an error or Crash *)
Theorem cblock_final_not_lib_lemma : forall inflate st s ob r,
  h_cblock inflate st s ob = SC_final r -> ~ is_lib r.
Proof.
  intros inflate st s ob r H. unfold h_cblock in H.
  destruct (c_uint s ob) as [[ty s1] ob1].
  destruct (negb (ty =? 0)).
  - destruct (c_uint s1 ob1) as [[a s2] ob2]. destruct (c_uint s2 ob2) as [[b s3] ob3].
    injection H as <-. apply exit_not_lib.
  - destruct (c_uint s1 ob1) as [[usize s2] ob2].
    destruct (match ob2 with
              | Some b => nuint s2 (b_off b) (b_size b) usize
              | None => let (c, s3) := s_uint s2 in NR c s3 None
              end) as [csize s3 ob3|].
    + destruct (alloc_fails usize); [injection H as <-; apply zlib_exit_not_lib|].
      destruct (inflate_end inflate _ _) as [x|]; [|injection H as <-; apply zlib_exit_not_lib].
      destruct (N.of_nat (length _) <? csize mod two32); [injection H as <-; apply exit_not_lib|].
      destruct (N.of_nat (length x) <? usize); [|discriminate].
      injection H as <-. intros (u & lp & cs & E). discriminate.
    + injection H as <-. intros (u & lp & cs & E). discriminate.
Qed.

(* ================================================================== the hypotheses are satisfiable *)
Lemma start_of_intro u ubytes :
  (forall rest, s_real (mkS (ubytes ++ rest) None) = (u, mkS rest None)) ->
  start_of (magic_start ++ [3; 49; 46; 48] ++ ubytes ++ [1]) u.
Proof.
  intros Hu inflate rest. unfold read_oas_model_c. rewrite <- !app_assoc. rewrite strip_prefix_app.
  cbn [app].
  match goal with |- context [s_string false (mkS (3 :: 49 :: 46 :: 48 :: ?X) None)] =>
    change (3 :: 49 :: 46 :: 48 :: X) with (wr_string version_1_0 ++ X) end.
  rewrite (s_string_ok false _ version_1_0 (ubytes ++ 1 :: rest))
    by (apply rd_string_enc; unfold wf_str, two64; cbn; lia).
  cbn [s_err]. change (negb (bytes_eqb version_1_0 version_1_0)) with false.
  rewrite Hu. change (s_uint (mkS (1 :: rest) None)) with (1, mkS rest None).
  change (1 =? 0) with false. cbv iota. cbn [s_bs]. reflexivity.
Qed.

Definition toy_inflate (z : list N) (_ : N) : option (list N) := Some (rev z).
Definition ex_hdr : list N := magic_start ++ [3; 49; 46; 48] ++ [0; 1] ++ [1].
Definition ex_rect : list N := [20; 123; 1; 1; 2; 3; 0; 0].            (* RECTANGLE layer 1 datatype 1, 2 x 3 at the origin *)
Definition ex_cell : list (list N) := [[14; 1; 65]].                    (* CELL "A" *)

Lemma ex_start : start_of ex_hdr (RInt false 1).
Proof. apply (start_of_intro (RInt false 1) [0; 1]). intros rest. reflexivity. Qed.

Definition ex_st : rstate :=
  match h_record (q_init (RInt false 1)) 14 (mkS [1; 65] None) with H_cont st _ => st | _ => q_init (RInt false 1) end.
Lemma ex_pre rest : rsteps rest (q_init (RInt false 1)) ex_cell ex_st.
Proof.
  unfold ex_cell. eapply rsteps_cons; [discriminate| |apply rsteps_nil].
  cbn [concat app h_record]. unfold f_nref. change (14 =? 13) with false. cbv iota. unfold rbind.
  rewrite (s_string_ok true (1 :: 65 :: rest) [65] rest)
    by (change (1 :: 65 :: rest) with (wr_string [65] ++ rest); apply rd_string_enc; unfold wf_str, two64; cbn; lia).
  unfold rret. reflexivity.
Qed.

(* a file with one compressed RECTANGLE (toy codec: the byte string reversed) and the same file with the block spliced
   out load to the same one-cell library *)
Example cblock_splice_example :
  exists r,
    read_oas_model_c toy_inflate (ex_hdr ++ concat ex_cell ++ cblock_rec 8 (rev ex_rect) ++ end_record) = r /\
    read_oas_model_c toy_inflate (ex_hdr ++ concat ex_cell ++ ex_rect ++ end_record) = r /\ is_lib r.
Proof.
  eexists. split; [vm_compute; reflexivity|]. split; [vm_compute; reflexivity|].
  do 3 eexists. reflexivity.
Qed.
(* the error paths on concrete streams: unknown compression type, a codec that fails, a file cut inside the data *)
Example cblock_errors_example :
  read_oas_model_c toy_inflate (ex_hdr ++ concat ex_cell ++ [34; 7; 8; 8] ++ rev ex_rect ++ end_record) = CR ErrInvalid /\
  read_oas_model_c (fun _ _ => None) (ex_hdr ++ concat ex_cell ++ cblock_rec 8 (rev ex_rect) ++ end_record) = CR_zlib /\
  read_oas_model_c (fun _ _ => None) (ex_hdr ++ concat ex_cell ++ [34; 0; 8; 8; 1; 2; 3]) = CR_short /\
  read_oas_model_c toy_inflate (ex_hdr ++ concat ex_cell ++ [34; 0; 3; 8; 1; 2; 3]) = CR (ErrInvalid).
Proof. repeat split; vm_compute; reflexivity. Qed.
(* a stream without record 34: the plain model's result *)
Example cblock_conservative_example :
  read_oas_model (ex_hdr ++ concat ex_cell ++ ex_rect ++ end_record) <> Ok RCblock /\
  is_lib (read_oas_model_c toy_inflate (ex_hdr ++ concat ex_cell ++ ex_rect ++ end_record)).
Proof. split; [vm_compute; discriminate|]. vm_compute. do 3 eexists. reflexivity. Qed.

(* every hypothesis of cblock_splice_file holds for that file *)
Example cblock_splice_file_example : forall r1 r2,
  read_oas_model_c toy_inflate (ex_hdr ++ concat ex_cell ++ cblock_rec 8 (rev ex_rect) ++ end_record) = r1 ->
  read_oas_model_c toy_inflate (ex_hdr ++ concat ex_cell ++ ex_rect ++ end_record) = r2 ->
  r1 <> CR Hang -> r2 <> CR Hang -> r1 = r2.
Proof.
  intros r1 r2. apply (cblock_splice_file_lemma toy_inflate ex_hdr (RInt false 1) ex_cell ex_st 8 (rev ex_rect) ex_rect end_record).
  - exact ex_start.
  - apply ex_pre.
  - apply ex_pre.
  - reflexivity.
  - reflexivity.
  - reflexivity.
  - reflexivity.
  - vm_compute. reflexivity.
Qed.
