(* Theorem (4): the round trip through the statement-level models holds under compression, for EVERY codec with
   inflate (deflate x) (length x) = Some x.  Writer side: Library::write_oas with compression_level > 0 (OasisCblockWrite.v);
   reader side: read_oas_model_c (OasisCblock.v). *)
Require Import Base Generated OasisInt OasisIntProofs GdsReal OasisReal OasisRealProofs OasisPlist OasisPlistProofs.
Require Import Table TableProofs PropList OasisSpec OasisSpecProofs OasisRead OasisCblock OasisCblockProofs.
Require Import OasisWrite OasisWriteProofs OasisRoundtrip OasisCblockWrite.
Require OasisReadProofs.
From Coq Require Import Permutation.
From Flocq Require Import Core BinarySingleNaN Binary Bits.
From Coq Require Import ZifyBool ZifyN ZifyNat.
Local Open Scope N_scope.

(* ================================================================== what the uncompressed writer's records do to the
   guarded decoder (the record-level content of OasisRoundtrip.writer_output_cov_decode_lemma, whose proof this repeats up
   to the END record) *)
Lemma writer_csteps_lemma : forall cfg l, wlib_ok l -> wlib_small l ->
  run_failed (write_oas_run cfg l) = false /\
  exists m3 kF,
    csteps false modal0 (k_init (real_of_bits (li_unit l))) (run_records (write_oas_run cfg l)) m3 kF /\
    cov_finalize (DS m3 kF) = Some (view_w cfg l).
Proof.
  intros cfg l (Hlp & Hnd & Hcells & Hsize) (Hsmall & Hcnt). specialize (Hsize cfg). specialize (Hcnt cfg).
  unfold view_w, cell_offsets. unfold write_oas_model in *. unfold write_oas_run in *.
  set (names := map cl_name (li_cells l)) in *.
  set (start := start_header ++ enc_real (li_unit l) ++ [1]) in *.
  (* the three stateful passes *)
  destruct (properties_to_oas_res (li_props l) pstate0 [] NR_names0) as (K1 & X1 & R1).
  pose proof (properties_to_oas_enc (li_props l) pstate0) as Enc1.
  destruct (properties_to_oas pstate0 (li_props l)) as [[r_lp d_lp] st1] eqn:E1. cbn [fst snd] in X1, R1, Enc1.
  set (pos1 := N.of_nat (length start) + reclen r_lp) in *.
  destruct (cells_to_oas_res names (li_cells l) [] pos1 names0 [] st1 K1 eq_refl Hnd NR_names0 (proj1 X1))
    as (T2 & K2 & HT2 & _ & X2 & R2).
  pose proof (cells_offsets_bound names (li_cells l) pos1 names0 st1) as Hoffs.
  destruct (cells_to_oas names pos1 names0 st1 (li_cells l)) as [[[[r_c d_c] offs] ts] st2] eqn:E2.
  cbn [fst snd] in HT2, X2, R2, Hoffs.
  destruct (cellnames_to_oas_res cfg names offs (li_cells l) st2 K2 (proj1 X2)) as (K3 & X3 & R3).
  pose proof (cellnames_records_bound cfg names offs (li_cells l) st2) as Hcnb.
  destruct (cellnames_to_oas cfg names offs st2 (li_cells l)) as [[r_cn d_cn] st3] eqn:E3.
  cbn [fst snd] in X3, R3, Hcnb.
  cbn [run_failed run_start run_records run_end run_offsets run_ts run_ps] in *.
  (* no hash-map failure *)
  destruct X3 as (NR3 & PK3 & PV3). destruct X2 as (NR2 & PK2 & PV2). destruct X1 as (NR1 & PK1 & PV1).
  assert (Hnf : nm_fail ts || nm_fail (ps_names st3) = false).
  { destruct HT2 as (F1 & _). destruct NR3 as (F2 & _). rewrite F1, F2. reflexivity. }
  rewrite Hnf in *.
  set (r_ts := numbered_name_records OasisRecord_TEXTSTRING (nm_items ts)) in *.
  set (r_pn := numbered_name_records OasisRecord_PROPNAME (nm_items (ps_names st3))) in *.
  set (r_ps := propstring_records (ps_vals st3)) in *.
  set (VF := ps_vals st3) in *.
  (* sizes *)
  assert (Hfile : N.of_nat (length start) + reclen r_lp + reclen r_c + reclen r_cn + reclen r_ts + reclen r_pn + reclen r_ps < two64).
  { rewrite !app_length in Hsize. rewrite !concat_app, !app_length in Hsize. unfold reclen. lia. }
  destruct (names_records_bounds OasisRecord_TEXTSTRING (nm_items ts)) as [Bts1 Bts2]. fold r_ts in Bts1, Bts2.
  destruct (names_records_bounds OasisRecord_PROPNAME (nm_items (ps_names st3))) as [Bpn1 Bpn2]. fold r_pn in Bpn1, Bpn2.
  destruct (propstring_records_bounds VF) as [Bps1 Bps2]. fold r_ps in Bps1, Bps2.
  assert (LK : len_ok K3) by (unfold len_ok; rewrite <- (NR_items_len _ _ NR3); lia).
  assert (LT : len_ok T2) by (unfold len_ok; rewrite <- (NR_items_len _ _ HT2); lia).
  assert (LV : len_ok VF) by (unfold len_ok; lia).
  assert (LC : len_ok names) by (unfold len_ok, names; rewrite map_length; lia).
  (* what is written is well formed *)
  assert (PK13 : prefix K1 K3) by (eapply prefix_trans; eassumption).
  assert (PV13 : prefix (ps_vals st1) VF) by (eapply prefix_trans; eassumption).
  pose proof (props_res_wf K3 VF d_lp (li_props l) (R1 K3 VF PK13 PV13) Hlp LK LV) as Wlp.
  pose proof (cells_res_wf K3 VF T2 names d_c (li_cells l) (R2 K3 VF T2 PK3 PV3 (prefix_refl _)) Hcells LK LV LT LC) as Wc.
  pose proof (cn_res_wf cfg names offs K3 VF (pos1 + reclen r_c) d_cn (li_cells l) (R3 K3 VF (prefix_refl _) (prefix_refl _))
                Hcells Hoffs ltac:(unfold pos1; lia) LK LV) as Wcn.
  (* the record loop *)
  set (u := real_of_bits (li_unit l)).
  destruct (csteps_props_lib false d_lp modal0 (k_init u) Wlp eq_refl eq_refl) as (m1 & SA & A1).
  set (kA := k_set_lprops (k_init u) (rev d_lp ++ k_lprops (k_init u))) in *.
  assert (Hoks : Forall wcell_oks (li_cells l)).
  { rewrite Forall_forall in *. intros c Hc. apply wcell_oks_intro; [apply Hcells|apply Hsmall]; exact Hc. }
  destruct (csteps_cells false names (li_cells l) pos1 names0 st1 r_c d_c offs ts st2 E2 Hoks Wc
              (cells_res_nodup _ _ _ _ _ _ (R2 K3 VF T2 PK3 PV3 (prefix_refl _)) Hnd) m1 kA A1
              (fun gc _ i _ => eq_refl)) as (m2 & tg2 & SB & A2).
  set (kB := k_set_cells kA (rev (map rcell_g d_c) ++ k_cells kA) tg2) in *.
  destruct (csteps_cellnames false cfg names offs (li_cells l) st2 r_cn d_cn st3 E3
              (Forall_impl _ (fun c (H : wcell_okp c) => proj1 H) Hcells) Wcn m2 kB 0%nat A2
              (or_introl eq_refl) eq_refl (fun j _ => eq_refl)) as (m3 & SC & A3).
  fold names in SC. set (kC := k_after_cellnames kB 0 names d_cn) in *.
  destruct (k_after_cellnames_fields kB 0 names d_cn) as (FC1 & FC2 & FC3 & FC4 & FC5 & FC6 & FC7 & FC8 & FC9 & FC10 & FC11 & FC12).
  fold kC in FC1, FC2, FC3, FC4, FC5, FC6, FC7, FC8, FC9, FC10, FC11, FC12.
  (* TEXTSTRING *)
  destruct (NR_items ts T2 HT2) as (NDts & INts & PMts).
  assert (SD : csteps false m3 kC r_ts m3 (k_after_ts kC (nm_items ts))).
  { apply csteps_textstrings; [left; rewrite FC10; reflexivity|apply (items_values_nodup _ _ PMts)|].
    intros kv Hin. split; [|split].
    - unfold wf_str. specialize (Bts2 kv Hin). lia.
    - destruct kv as [s v]. apply INts in Hin. cbn [snd].
      assert (N.to_nat v < length T2)%nat by (apply nth_error_Some; congruence).
      destruct Hcnt as [Hc1 _]. unfold nm_count in Hc1. rewrite (NR_count _ _ HT2) in Hc1. lia.
    - rewrite FC6. reflexivity. }
  set (kD := k_after_ts kC (nm_items ts)) in *.
  destruct (k_after_ts_fields kC (nm_items ts)) as (FD1 & FD2 & FD3 & FD4 & FD5 & FD6 & FD7 & FD8 & FD9 & FD10 & FD11).
  fold kD in FD1, FD2, FD3, FD4, FD5, FD6, FD7, FD8, FD9, FD10, FD11.
  (* PROPNAME *)
  destruct (NR_items (ps_names st3) K3 NR3) as (NDpn & INpn & PMpn).
  assert (SE : csteps false m3 kD r_pn m3 (k_after_pn kD (nm_items (ps_names st3)))).
  { apply csteps_propnames; [left; rewrite FD10, FC11; reflexivity|apply (items_values_nodup _ _ PMpn)|].
    intros kv Hin. split; [|split].
    - unfold wf_str. specialize (Bpn2 kv Hin). lia.
    - destruct kv as [s v]. apply INpn in Hin. cbn [snd].
      assert (N.to_nat v < length K3)%nat by (apply nth_error_Some; congruence).
      destruct Hcnt as [_ Hc2]. unfold nm_count in Hc2. rewrite (NR_count _ _ NR3) in Hc2. lia.
    - rewrite FD7, FC7. reflexivity. }
  set (kE := k_after_pn kD (nm_items (ps_names st3))) in *.
  destruct (k_after_pn_fields kD (nm_items (ps_names st3))) as (FE1 & FE2 & FE3 & FE4 & FE5 & FE6 & FE7 & FE8 & FE9 & FE10).
  fold kE in FE1, FE2, FE3, FE4, FE5, FE6, FE7, FE8, FE9, FE10.
  (* PROPSTRING *)
  assert (SF : csteps false m3 kE r_ps m3 (k_after_ps kE 0 VF)).
  { apply csteps_propstrings; [left; rewrite FE10, FD11, FC12; reflexivity|rewrite FE9, FD9, FC9; reflexivity| |].
    - apply Forall_forall. intros s Hin. unfold wf_str. specialize (Bps2 s Hin). lia.
    - intros j _. rewrite FE8, FD8, FC8. reflexivity. }
  set (kF := k_after_ps kE 0 VF) in *.
  destruct (k_after_ps_fields kE 0 VF) as (FF1 & FF2 & FF3 & FF4 & FF5 & FF6 & FF7 & FF8).
  fold kF in FF1, FF2, FF3, FF4, FF5, FF6, FF7, FF8.
  assert (Sall : csteps false modal0 (k_init u) (r_lp ++ r_c ++ r_cn ++ r_ts ++ r_pn ++ r_ps) m3 kF).
  { rewrite Enc1. eapply csteps_app; [exact SA|]. eapply csteps_app; [exact SB|]. eapply csteps_app; [exact SC|].
    eapply csteps_app; [exact SD|]. eapply csteps_app; [exact SE|exact SF]. }
  set (R := r_lp ++ r_c ++ r_cn ++ r_ts ++ r_pn ++ r_ps) in *.
  (* the tables at END *)
  assert (Epn : k_pn kF = rev (map swap_kv (nm_items (ps_names st3))) ++ []) by (rewrite FF7, FE7, FD7, FC7; reflexivity).
  assert (Eps : k_ps kF = rev (map swap_kv (enum_from 0 VF)) ++ []) by (rewrite FF8, FE8, FD8, FC8; reflexivity).
  assert (Ets : k_ts kF = rev (map swap_kv (nm_items ts)) ++ []) by (rewrite FF6, FE6, FD6, FC6; reflexivity).
  assert (Ecn : k_cn kF = rev (map swap_kv (enum_from 0 names)) ++ []) by (rewrite FF4, FE4, FD4, FC4; reflexivity).
  assert (Ecnp : k_cnp kF = rev (cnp_list 0 d_cn) ++ []) by (rewrite FF5, FE5, FD5, FC5; reflexivity).
  assert (Elp : k_lprops kF = rev d_lp ++ []) by (rewrite FF2, FE2, FD2, FC2; reflexivity).
  assert (Ecs : k_cells kF = rev (map rcell_g d_c) ++ []) by (rewrite FF3, FE3, FD3, FC3; reflexivity).
  assert (Eu : k_unit kF = u) by (rewrite FF1, FE1, FD1, FC1; reflexivity).
  assert (AgK : agrees (k_pn kF) K3) by (rewrite Epn; apply agrees_items; exact PMpn).
  assert (AgV : agrees (k_ps kF) VF) by (rewrite Eps; apply agrees_enum).
  assert (AgT : agrees (k_ts kF) T2) by (rewrite Ets; apply agrees_items; exact PMts).
  assert (AgC : agrees (k_cn kF) names) by (rewrite Ecn; apply agrees_enum).
  assert (Hfin : finalize (DS m3 kF) =
                 Some (mkLayout u (view_props (li_props l)) (map (view_cell cfg names offs) (li_cells l)))).
  { rewrite finalize_DS. rewrite Elp, app_nil_r, rev_involutive.
    rewrite (props_res_resolve (k_pn kF) (k_ps kF) K3 VF d_lp (li_props l) AgK AgV (R1 K3 VF PK13 PV13)). cbn [obnd].
    rewrite Ecs, app_nil_r, rev_involutive.
    pose proof (R2 K3 VF T2 PK3 PV3 (prefix_refl _)) as RC. pose proof (R3 K3 VF (prefix_refl _) (prefix_refl _)) as RN.
    rewrite (omap_nth (resolve_cell (DS m3 kF)) (map rcell_g d_c) (map (view_cell cfg names offs) (li_cells l))).
    - cbn [obnd]. rewrite Eu. reflexivity.
    - rewrite !map_length. apply (Forall2_length_eq _ _ _ RC).
    - intros j a b Ha Hb. rewrite nth_error_map in Ha, Hb.
      destruct (nth_error d_c j) as [gc|] eqn:Egc; [|discriminate]. destruct (nth_error (li_cells l) j) as [c|] eqn:Ec; [|discriminate].
      cbn [option_map] in Ha, Hb. injection Ha as <-. injection Hb as <-.
      destruct (Forall2_nth _ _ _ j gc c RC Egc Ec) as (i & Hi & Hres).
      assert (Hij : i = N.of_nat j).
      { pose proof (cell_index_some names (cl_name c) i Hi) as H1.
        assert (H2 : nth_error names j = Some (cl_name c)) by (unfold names; rewrite nth_error_map, Ec; reflexivity).
        assert (N.to_nat i = j); [|lia].
        apply (proj1 (NoDup_nth_error names) Hnd); [apply nth_error_Some; congruence|congruence]. }
      destruct (nth_error d_cn j) as [pd|] eqn:Epd.
      + apply (resolve_rcell_g m3 kF cfg names offs K3 VF T2 i gc c AgC AgT AgK AgV Hi Hres).
        rewrite Ecnp, app_nil_r, cnprops_rev, rev_involutive. rewrite Hij.
        change (N.of_nat j) with (N.of_nat (0 + j)). rewrite cnp_filter, Epd.
        apply (props_res_resolve (k_pn kF) (k_ps kF) K3 VF _ _ AgK AgV). apply (Forall2_nth _ _ _ j pd c RN Epd Ec).
      + exfalso. apply nth_error_None in Epd. rewrite (Forall2_length_eq _ _ _ RN) in Epd.
        assert (j < length (li_cells l))%nat by (apply nth_error_Some; congruence). lia. }
  (* (c8): every property given with a CELLNAME record resolves *)
  assert (Hc8 : exists x, omap (resolve_prop (k_pn kF) (k_ps kF)) (map snd (k_cnp kF)) = Some x).
  { apply omap_total. intros p Hin. apply in_map_iff in Hin. destruct Hin as (kp & <- & Hin).
    rewrite Ecnp, app_nil_r in Hin. apply in_rev in Hin. destruct (cnp_list_in _ _ _ Hin) as (pd & Hpd & Hp).
    pose proof (R3 K3 VF (prefix_refl _) (prefix_refl _)) as RN.
    destruct (Forall2_in_l _ _ _ pd RN Hpd) as (c & _ & Hres).
    destruct (Forall2_in_l _ _ _ (snd kp) Hres Hp) as (e & _ & He).
    exists (view_prop e). apply (prop_res_resolve (k_pn kF) (k_ps kF) K3 VF _ _ AgK AgV He). }
  destruct Hc8 as (x8 & Hc8).
  cbn [run_failed run_records]. split; [reflexivity|].
  exists m3, kF. split; [exact Sall|].
  unfold cov_finalize. cbn [DS d_propnames d_propstrings d_cn_props]. rewrite Hc8. cbn [obnd]. exact Hfin.
Qed.

(* ================================================================== from the guarded decoder to the reader model *)
Lemma csteps_split ois : forall a m k b m2 k2, csteps ois m k (a ++ b) m2 k2 ->
  exists m1 k1, csteps ois m k a m1 k1 /\ csteps ois m1 k1 b m2 k2.
Proof.
  induction a as [|r a IH]; intros m k b m2 k2 H.
  - exists m, k. split; [constructor|exact H].
  - cbn [app] in H. inversion H as [|? ? ? m1 k1 ? ? ? Hne Hr Hs]; subst.
    destruct (IH _ _ _ _ _ Hs) as (m1' & k1' & A & B). exists m1', k1'. split; [|exact B].
    econstructor; eauto.
Qed.

Lemma csteps_rsteps ois m k rs m' k' : csteps ois m k rs m' k' -> forall rest st,
  OasisReadProofs.srel (DS m k) st -> exists st', rsteps rest st rs st' /\ OasisReadProofs.srel (DS m' k') st'.
Proof.
  induction 1 as [m k|m k r m1 k1 rs m2 k2 Hne Hr Hs IH]; intros rest st R.
  - exists st. split; [constructor|exact R].
  - destruct r as [|id body]; [congruence|].
    pose proof (OasisReadProofs.record_step_ok ois (DS m k) st id (body ++ concat rs ++ rest) R) as Hstep.
    pose proof (Hr (concat rs ++ rest)) as Hc. cbn [app] in Hc. rewrite Hc in Hstep.
    cbn [OasisReadProofs.step_goal] in Hstep. destruct Hstep as (st1 & Hh & R1).
    destruct (IH rest st1 R1) as (st' & Hrs & R').
    exists st'. split; [|exact R'].
    apply (rsteps_cons rest st id body st1 rs st'); [|exact Hh|exact Hrs].
    pose proof (OasisReadProofs.cov_record_id ois (DS m k) id _ _ Hc). lia.
Qed.

Section Codec.
Variable inflate : list N -> N -> option (list N).
Variable deflate : list N -> list N.
Hypothesis codec : forall x, inflate (deflate x) (N.of_nat (length x)) = Some x.

(* records in the file *)
Lemma run_records_file ois m k rs m' k' st : csteps ois m k rs m' k' -> OasisReadProofs.srel (DS m k) st ->
  forall n f X, (2 + length (concat rs ++ X) <= f)%nat ->
  exists f' st', r_loop_c inflate n f st (mkS (concat rs ++ X) None) None = r_loop_c inflate n f' st' (mkS X None) None /\
                 OasisReadProofs.srel (DS m' k') st' /\ (2 + length X <= f')%nat.
Proof.
  intros Hs R n f X Hf. destruct (csteps_rsteps _ _ _ _ _ _ Hs X st R) as (st' & Hrs & R').
  pose proof (rsteps_length _ _ _ _ Hrs) as Hl. rewrite app_length in Hf.
  exists (f - length rs)%nat, st'. split; [|split; [exact R'|lia]].
  replace f with (length rs + (f - length rs))%nat at 1 by lia.
  rewrite (rsteps_loop inflate _ _ _ _ Hrs n _ None I I). reflexivity.
Qed.

(* records that fill a block exactly *)
Lemma run_records_block ois m k rs m' k' st size : csteps ois m k rs m' k' -> OasisReadProofs.srel (DS m k) st ->
  N.of_nat (length (concat rs)) = size -> size <> 0 ->
  forall n f X, (2 + length (concat rs ++ X) <= f)%nat ->
  exists f' st', r_loop_c inflate n f st (mkS (concat rs ++ X) None) (Some (mkB 0 size)) =
                 r_loop_c inflate n f' st' (mkS X None) None /\
                 OasisReadProofs.srel (DS m' k') st' /\ (2 + length X <= f')%nat.
Proof.
  intros Hs R Hsz Hnz n f X Hf. destruct (csteps_rsteps _ _ _ _ _ _ Hs X st R) as (st' & Hrs & R').
  pose proof (rsteps_length _ _ _ _ Hrs) as Hl. rewrite app_length in Hf.
  exists (f - length rs)%nat, st'. split; [|split; [exact R'|lia]].
  replace f with (length rs + (f - length rs))%nat at 1 by lia.
  rewrite (rsteps_loop inflate _ _ _ _ Hrs n _ (Some (mkB 0 size))).
  - cbn [adv_s b_off b_size]. rewrite Hsz.
    replace (0 + size <? size) with false by (symmetry; apply N.ltb_ge; lia). reflexivity.
  - cbn [blk_wf b_off b_size]. lia.
  - cbn [fits b_off b_size]. lia.
Qed.

(* one cell of the compressed file: CELL record, then the block *)
Definition chunk_ok (ch : list (list N)) : Prop :=
  exists cellrec body, ch = cellrec :: body /\
    N.of_nat (length (concat body)) < two32 /\ N.of_nat (length (deflate (concat body))) < two32.

Lemma csteps_concat_nil ois m k rs m' k' : csteps ois m k rs m' k' -> concat rs = [] -> rs = [] /\ m' = m /\ k' = k.
Proof.
  intros H E. destruct H as [|m k r m1 k1 rs m2 k2 Hne Hr Hs]; [auto|].
  cbn [concat] in E. destruct r; [congruence|discriminate].
Qed.

Lemma cblock_w_rec body : body <> [] -> N.of_nat (length body) < two32 ->
  cblock_w deflate body = cblock_rec (N.of_nat (length body)) (deflate body).
Proof.
  intros Hne Hl. unfold cblock_w, cblock_rec. destruct body as [|b0 bt]; [congruence|].
  change 4294967296 with two32. rewrite (N.mod_small _ _ Hl), Nat2N.id, firstn_all. reflexivity.
Qed.

Lemma run_cells : forall chunks m k m' k', csteps false m k (concat chunks) m' k' -> Forall chunk_ok chunks ->
  forall st, OasisReadProofs.srel (DS m k) st ->
  forall n f X, (length chunks <= n)%nat -> (2 + length (flat_map (cell_bytes_c deflate) chunks ++ X) <= f)%nat ->
  exists n' f' st',
    r_loop_c inflate n f st (mkS (flat_map (cell_bytes_c deflate) chunks ++ X) None) None =
    r_loop_c inflate n' f' st' (mkS X None) None /\
    OasisReadProofs.srel (DS m' k') st' /\ (2 + length X <= f')%nat.
Proof.
  induction chunks as [|ch chunks IH]; intros m k m' k' Hs Hok st R n f X Hn Hf.
  - cbn [concat] in Hs. inversion Hs; subst. exists n, f, st. cbn [flat_map app] in *. auto.
  - cbn [concat] in Hs. destruct (csteps_split _ _ _ _ _ _ _ Hs) as (m1 & k1 & Sch & Srest).
    inversion Hok as [|? ? Hch Hoks]; subst. destruct Hch as (cellrec & body & -> & Hb1 & Hb2).
    inversion Sch as [|? ? ? ma ka ? ? ? Hne Hr Sbody]; subst.
    cbn [flat_map cell_bytes_c] in *. rewrite <- !app_assoc in *.
    (* the CELL record, in the file *)
    assert (S1 : csteps false m k [cellrec] ma ka) by (apply csteps_one; assumption).
    destruct (run_records_file _ _ _ _ _ _ st S1 R n f (cblock_w deflate (concat body) ++ flat_map (cell_bytes_c deflate) chunks ++ X))
      as (f1 & st1 & E1 & R1 & Hf1).
    { cbn [concat]. rewrite app_nil_r. exact Hf. }
    cbn [concat] in E1. rewrite app_nil_r in E1. rewrite E1.
    destruct (concat body) as [|b0 bt] eqn:Ecb.
    + (* empty cell: no block *)
      destruct (csteps_concat_nil _ _ _ _ _ _ Sbody Ecb) as (_ & -> & ->).
      cbn [cblock_w app] in *.
      apply (IH _ _ _ _ Srest Hoks st1 R1 n f1 X); [cbn [length] in Hn; lia|exact Hf1].
    + (* the block *)
      set (cb := b0 :: bt) in *.
      assert (Hcbne : cb <> []) by discriminate.
      rewrite (cblock_w_rec cb Hcbne Hb1) in *.
      destruct f1 as [|f1]; [cbn in Hf1; lia|].
      destruct n as [|n]; [cbn [length] in Hn; lia|].
      rewrite r_loop_c_S.
      rewrite (cblock_entry inflate st1 (N.of_nat (length cb)) (deflate cb) cb
                 (flat_map (cell_bytes_c deflate) chunks ++ X) Hb1 Hb2 (codec cb) eq_refl).
      cbv iota. cbn [s_bs].
      replace (N.of_nat (length cb) =? 0) with false by (symmetry; apply N.eqb_neq; subst cb; cbn [length]; lia).
      (* the loop inside the block: the records of the cell body *)
      destruct (run_records_block _ _ _ _ _ _ st1 (N.of_nat (length cb)) Sbody R1
                  ltac:(rewrite Ecb; reflexivity) ltac:(subst cb; cbn [length]; lia)
                  n (S (S (length (cb ++ flat_map (cell_bytes_c deflate) chunks ++ X))))
                  (flat_map (cell_bytes_c deflate) chunks ++ X))
        as (f2 & st2 & E2 & R2 & Hf2).
      { rewrite Ecb. lia. }
      rewrite Ecb in E2. rewrite E2.
      apply (IH _ _ _ _ Srest Hoks st2 R2 n f2 X); [cbn [length] in Hn; lia|exact Hf2].
Qed.
End Codec.

(* ================================================================== the shape of the compressed file *)
Fixpoint cells_recs (cells : list (list N)) (ts : names) (st : pstate) (l : list wcell) : list (list (list N)) :=
  match l with
  | [] => []
  | c :: t => let '(r1, d1, ts1, st1) := cell_to_oas cells ts st c in r1 :: cells_recs cells ts1 st1 t
  end.
(* the records of each cell (CELL record first), as Library::write_oas produces them *)
Definition cell_chunks (l : wlib) : list (list (list N)) :=
  let '(r_lp, d_lp, st1) := properties_to_oas pstate0 (li_props l) in
  cells_recs (map cl_name (li_cells l)) names0 st1 (li_cells l).

Lemma cells_to_oas_recs cells : forall l pos ts st,
  fst (fst (fst (fst (cells_to_oas cells pos ts st l)))) = concat (cells_recs cells ts st l).
Proof.
  induction l as [|c t IH]; intros pos ts st; [reflexivity|].
  cbn [cells_to_oas cells_recs]. destruct (cell_to_oas cells ts st c) as [[[r1 d1] ts1] st1].
  specialize (IH (pos + reclen r1) ts1 st1).
  destruct (cells_to_oas cells (pos + reclen r1) ts1 st1 t) as [[[[r2 d2] o2] ts2] st2]. cbn [fst concat] in *.
  rewrite IH. reflexivity.
Qed.
Lemma cells_to_oas_c_same deflate cells : forall l pos pos' ts st,
  exists o', cells_to_oas_c deflate cells pos' ts st l =
             (flat_map (cell_bytes_c deflate) (cells_recs cells ts st l),
              snd (fst (fst (fst (cells_to_oas cells pos ts st l)))), o',
              snd (fst (cells_to_oas cells pos ts st l)), snd (cells_to_oas cells pos ts st l)).
Proof.
  induction l as [|c t IH]; intros pos pos' ts st; [exists []; reflexivity|].
  cbn [cells_to_oas cells_to_oas_c cells_recs]. destruct (cell_to_oas cells ts st c) as [[[r1 d1] ts1] st1].
  destruct (IH (pos + reclen r1) (pos' + N.of_nat (length (cell_bytes_c deflate r1))) ts1 st1) as (o' & E).
  rewrite E. destruct (cells_to_oas cells (pos + reclen r1) ts1 st1 t) as [[[[r2 d2] o2] ts2] st2]. cbn [fst snd flat_map].
  eexists. reflexivity.
Qed.
Lemma cellnames_no_offset cfg cells : cfg_cell_offset cfg = false -> forall l offs offs' st,
  cellnames_to_oas cfg cells offs st l = cellnames_to_oas cfg cells offs' st l.
Proof.
  intros Hc. induction l as [|c t IH]; intros offs offs' st; [reflexivity|].
  cbn [cellnames_to_oas]. unfold cellname_props. rewrite Hc.
  destruct (properties_to_oas st (cl_props c)) as [[pr pd] st1]. rewrite (IH offs offs' st1). reflexivity.
Qed.

Lemma chunks_len deflate : forall chunks, Forall (chunk_ok deflate) chunks -> Forall (fun r : list N => r <> []) (concat chunks) ->
  (length chunks <= length (flat_map (cell_bytes_c deflate) chunks))%nat.
Proof.
  induction chunks as [|ch t IH]; intros Hok Hne; [cbn; lia|].
  inversion Hok as [|? ? (cellrec & body & -> & _) Hoks]; subst.
  cbn [concat app] in Hne. inversion Hne as [|? ? Hc Hrest]; subst. apply Forall_app in Hrest. destruct Hrest as [_ Hrest].
  cbn [flat_map cell_bytes_c length]. rewrite !app_length. specialize (IH Hoks Hrest).
  destruct cellrec; [congruence|]. cbn [length]. lia.
Qed.

(* ================================================================== (4) the round trip under compression *)
Theorem oas_roundtrip_compressed_lemma : forall inflate deflate cfg l,
  (forall x, inflate (deflate x) (N.of_nat (length x)) = Some x) ->
  wlib_ok l -> wlib_small l -> cfg_cell_offset cfg = false ->
  Forall (chunk_ok deflate) (cell_chunks l) ->
  read_oas_model_c inflate (write_oas_model_c deflate cfg l) = CR (read_oas_model (write_oas_model cfg l)).
Proof.
  intros inflate deflate cfg l codec H1 H2 Hcfg Hchunks.
  rewrite (oas_models_roundtrip_full_lemma cfg l H1 H2).
  destruct (writer_csteps_lemma cfg l H1 H2) as (Hnf & m3 & kF & Sall & Hfin).
  unfold write_oas_model_c, write_oas_run_c. unfold write_oas_run in Hnf, Sall. unfold cell_chunks in Hchunks.
  set (names := map cl_name (li_cells l)) in *.
  set (start := start_header ++ enc_real (li_unit l) ++ [1]) in *.
  destruct (properties_to_oas pstate0 (li_props l)) as [[r_lp d_lp] st1] eqn:E1.
  set (pos1 := N.of_nat (length start) + reclen r_lp) in *.
  pose proof (cells_to_oas_recs names (li_cells l) pos1 names0 st1) as Hrecs.
  destruct (cells_to_oas_c_same deflate names (li_cells l) pos1 pos1 names0 st1) as (offs' & Ec).
  destruct (cells_to_oas names pos1 names0 st1 (li_cells l)) as [[[[r_c d_c] offs] ts] st2] eqn:E2.
  cbn [fst snd] in Hrecs, Ec. rewrite Ec.
  rewrite (cellnames_no_offset cfg names Hcfg (li_cells l) offs' offs st2).
  destruct (cellnames_to_oas cfg names offs st2 (li_cells l)) as [[r_cn d_cn] st3] eqn:E3.
  cbn [run_failed run_records runc_failed runc_start runc_lprops runc_cells runc_tables runc_end] in *.
  rewrite Hnf. subst r_c.
  set (chunks := cells_recs names names0 st1 (li_cells l)) in *.
  set (r_tab := r_cn ++ numbered_name_records OasisRecord_TEXTSTRING (nm_items ts) ++
                numbered_name_records OasisRecord_PROPNAME (nm_items (ps_names st3)) ++ propstring_records (ps_vals st3)) in *.
  match goal with |- context [end_record_w ?a ?b ?c ?d] => set (endrec := end_record_w a b c d) end.
  assert (Eend : exists tail, endrec = 2 :: tail) by (eexists; subst endrec; unfold end_record_w; reflexivity).
  destruct Eend as (tail & Eend). rewrite Eend. clearbody endrec.
  (* START *)
  set (u := real_of_bits (li_unit l)) in *.
  assert (Hst : start_of start u).
  { change start with (magic_start ++ [3; 49; 46; 48] ++ enc_real (li_unit l) ++ [1]).
    apply start_of_intro. intros rest. apply OasisReadProofs.s_real_ok. apply cov_real_enc_real. }
  rewrite Hst.
  (* the three runs of records *)
  destruct (csteps_split _ _ _ _ _ _ _ Sall) as (m1 & k1 & SA & Srest).
  destruct (csteps_split _ _ _ _ _ _ _ Srest) as (m2 & k2 & SB & SC).
  set (XB := concat r_tab ++ 2 :: tail) in *.
  set (XA := flat_map (cell_bytes_c deflate) chunks ++ XB) in *.
  destruct (run_records_file inflate deflate codec false _ _ _ _ _ (q_init u) SA (OasisReadProofs.srel_init u)
              (S (length (start ++ concat r_lp ++ XA))) (S (S (length (concat r_lp ++ XA)))) XA ltac:(lia))
    as (fa & sta & EA & RA & HfA).
  rewrite EA.
  destruct (run_cells inflate deflate codec chunks _ _ _ _ SB Hchunks sta RA
              (S (length (start ++ concat r_lp ++ XA))) fa XB) as (nb & fb & stb & EB & RB & HfB).
  { pose proof (chunks_len deflate chunks Hchunks (csteps_nonempty _ _ _ _ _ _ SB)). subst XA. rewrite !app_length. lia. }
  { exact HfA. }
  fold XA in EB. rewrite EB.
  destruct (run_records_file inflate deflate codec false _ _ _ _ _ stb SC RB nb fb (2 :: tail) HfB) as (fc & stc & EC & RC & HfC).
  fold XB in EC. rewrite EC.
  (* END *)
  destruct fc as [|fc]; [cbn in HfC; lia|].
  rewrite r_loop_c_S, step_c_file. cbn [rd1 s_bs s_err]. change (2 =? 34) with false. cbv iota.
  cbn [h_record]. rewrite (OasisReadProofs.finish_ok _ _ _ RC Hfin). reflexivity.
Qed.

(* with compression and OASIS_CONFIG_PROPERTY_CELL_OFFSET off, what is loaded is the library that was saved *)
Corollary oas_roundtrip_compressed_view : forall inflate deflate cfg l,
  (forall x, inflate (deflate x) (N.of_nat (length x)) = Some x) ->
  wlib_ok l -> wlib_small l -> cfg_cell_offset cfg = false ->
  Forall (chunk_ok deflate) (cell_chunks l) ->
  read_oas_model_c inflate (write_oas_model_c deflate cfg l) = CR (Ok (OasisRead.view (view_w cfg l))).
Proof.
  intros inflate deflate cfg l Hc H1 H2 Hcfg Hch.
  rewrite (oas_roundtrip_compressed_lemma inflate deflate cfg l Hc H1 H2 Hcfg Hch).
  rewrite (oas_models_roundtrip_full_lemma cfg l H1 H2). reflexivity.
Qed.

(* non-vacuity: the sample library of OasisWriteProofs.v under the toy codec "reverse the bytes" *)
Example oas_roundtrip_compressed_example :
  read_oas_model_c (fun z _ => Some (rev z)) (write_oas_model_c (@rev N) (mkWCfg false) sample_wlib) =
  CR (read_oas_model (write_oas_model (mkWCfg false) sample_wlib)).
Proof.
  apply oas_roundtrip_compressed_lemma.
  - intros x. rewrite rev_involutive. reflexivity.
  - exact sample_wlib_ok.
  - exact sample_wlib_small.
  - reflexivity.
  - set (c := cell_chunks sample_wlib). vm_compute in c. subst c.
    repeat (first [apply Forall_nil | apply Forall_cons]);
      (eexists; eexists; split; [reflexivity|split; vm_compute; reflexivity]).
Qed.
(* ... and the file really holds CBLOCK records *)
Example oas_roundtrip_compressed_example_has_cblock :
  In 34 (write_oas_model_c (@rev N) (mkWCfg false) sample_wlib) /\
  write_oas_model_c (@rev N) (mkWCfg false) sample_wlib <> write_oas_model (mkWCfg false) sample_wlib /\
  read_oas_model (write_oas_model_c (@rev N) (mkWCfg false) sample_wlib) = Ok RCblock.
Proof. vm_compute. split; [tauto|]. split; [discriminate|reflexivity]. Qed.

(* with OASIS_CONFIG_PROPERTY_CELL_OFFSET the two files do NOT load to the same library: the S_CELL_OFFSET values are file
   positions, and the positions of the CELL records of a compressed file are not those of the uncompressed one (each side
   still loads what its own writer saved) *)
Lemma oas_roundtrip_compressed_cell_offset_refuted :
  exists inflate deflate l,
    (forall x, inflate (deflate x) (N.of_nat (length x)) = Some x) /\ wlib_ok l /\ wlib_small l /\
    Forall (chunk_ok deflate) (cell_chunks l) /\
    read_oas_model_c inflate (write_oas_model_c deflate (mkWCfg true) l) <>
    CR (read_oas_model (write_oas_model (mkWCfg true) l)).
Proof.
  exists (fun z _ => Some (rev z)), (@rev N), sample_wlib.
  split; [intros x; rewrite rev_involutive; reflexivity|].
  split; [exact sample_wlib_ok|]. split; [exact sample_wlib_small|]. split.
  - set (c := cell_chunks sample_wlib). vm_compute in c. subst c.
    repeat (first [apply Forall_nil | apply Forall_cons]);
      (eexists; eexists; split; [reflexivity|split; vm_compute; reflexivity]).
  - vm_compute. discriminate.
Qed.

(* ================================================================== OASIS_CONFIG_PROPERTY_CELL_OFFSET under compression
   The S_CELL_OFFSET values are the positions of the CELL records in the COMPRESSED file.  [bake cfg l offs] is the library
   whose cells carry those properties already (what `remove_property; set_property` leaves in cell->properties); saving it
   with the flag off writes the same file, so the round-trip theorem above applies to it. *)
Definition bake_cell (cfg : wcfg) (names : list (list N)) (offs : list N) (c : wcell) : wcell :=
  mkWCell (cl_name c) (cl_polys c) (cl_paths c) (cl_refs c) (cl_labels c)
          (cellname_props cfg c (cell_offset_of names offs (cl_name c))).
Definition bake (cfg : wcfg) (l : wlib) (offs : list N) : wlib :=
  mkWLib (li_unit l) (li_props l) (map (bake_cell cfg (map cl_name (li_cells l)) offs) (li_cells l)).
(* the layout of the library with the positions of the compressed file *)
Definition view_w_c (deflate : list N -> list N) (cfg : wcfg) (l : wlib) : layout :=
  mkLayout (real_of_bits (li_unit l)) (view_props (li_props l))
           (map (view_cell cfg (map cl_name (li_cells l)) (runc_offsets (write_oas_run_c deflate cfg l))) (li_cells l)).

Lemma bake_names cfg names offs cells : map cl_name (map (bake_cell cfg names offs) cells) = map cl_name cells.
Proof. rewrite map_map. reflexivity. Qed.

Lemma cells_to_oas_c_bake deflate cfg names0' offs cells' : forall l pos ts st,
  cells_to_oas_c deflate cells' pos ts st (map (bake_cell cfg names0' offs) l) = cells_to_oas_c deflate cells' pos ts st l.
Proof.
  induction l as [|c t IH]; intros pos ts st; [reflexivity|].
  cbn [map cells_to_oas_c].
  change (cell_to_oas cells' ts st (bake_cell cfg names0' offs c)) with (cell_to_oas cells' ts st c).
  destruct (cell_to_oas cells' ts st c) as [[[r1 d1] ts1] st1]. rewrite IH. reflexivity.
Qed.
Lemma cells_recs_bake cfg names0' offs cells' : forall l ts st,
  cells_recs cells' ts st (map (bake_cell cfg names0' offs) l) = cells_recs cells' ts st l.
Proof.
  induction l as [|c t IH]; intros ts st; [reflexivity|].
  cbn [map cells_recs].
  change (cell_to_oas cells' ts st (bake_cell cfg names0' offs c)) with (cell_to_oas cells' ts st c).
  destruct (cell_to_oas cells' ts st c) as [[[r1 d1] ts1] st1]. rewrite IH. reflexivity.
Qed.
Lemma cellnames_bake cfg names offs : forall l offs1 st,
  cellnames_to_oas (mkWCfg false) names offs1 st (map (bake_cell cfg names offs) l) = cellnames_to_oas cfg names offs st l.
Proof.
  induction l as [|c t IH]; intros offs1 st; [reflexivity|].
  cbn [map cellnames_to_oas]. unfold cellname_props at 1. cbn [cfg_cell_offset bake_cell cl_props cl_name].
  destruct (properties_to_oas st (cellname_props cfg c (cell_offset_of names offs (cl_name c)))) as [[pr pd] st1].
  rewrite IH. reflexivity.
Qed.

Lemma runc_offsets_eq deflate cfg l :
  runc_offsets (write_oas_run_c deflate cfg l) =
  snd (fst (fst (cells_to_oas_c deflate (map cl_name (li_cells l))
                   (N.of_nat (length (start_header ++ enc_real (li_unit l) ++ [1])) +
                    reclen (fst (fst (properties_to_oas pstate0 (li_props l)))))
                   names0 (snd (properties_to_oas pstate0 (li_props l))) (li_cells l)))).
Proof.
  unfold write_oas_run_c. destruct (properties_to_oas pstate0 (li_props l)) as [[r_lp d_lp] st1]. cbn [fst snd].
  destruct (cells_to_oas_c _ _ _ _ _ _) as [[[[b_c d_c] offs] ts] st2]. cbn [fst snd].
  destruct (cellnames_to_oas _ _ _ _ _) as [[r_cn d_cn] st3]. reflexivity.
Qed.

Lemma bake_model deflate cfg l :
  write_oas_model_c deflate (mkWCfg false) (bake cfg l (runc_offsets (write_oas_run_c deflate cfg l))) =
  write_oas_model_c deflate cfg l.
Proof.
  rewrite runc_offsets_eq. unfold write_oas_model_c, write_oas_run_c, bake. cbn [li_unit li_props li_cells].
  rewrite bake_names.
  destruct (properties_to_oas pstate0 (li_props l)) as [[r_lp d_lp] st1]. cbn [fst snd].
  rewrite cells_to_oas_c_bake.
  destruct (cells_to_oas_c _ _ _ _ _ _) as [[[[b_c d_c] offs] ts] st2]. cbn [fst snd].
  rewrite cellnames_bake.
  destruct (li_cells l); reflexivity.
Qed.

Lemma view_bake deflate cfg l :
  view_w (mkWCfg false) (bake cfg l (runc_offsets (write_oas_run_c deflate cfg l))) = view_w_c deflate cfg l.
Proof.
  unfold view_w, view_w_c, bake. cbn [li_unit li_props li_cells]. rewrite bake_names. f_equal.
  rewrite map_map. apply map_ext. intros c. unfold view_cell. cbn [bake_cell cl_name cl_props cl_polys cl_paths cl_refs cl_labels].
  unfold cellname_props at 1. cbn [cfg_cell_offset]. reflexivity.
Qed.

Lemma cell_chunks_bake cfg l offs : cell_chunks (bake cfg l offs) = cell_chunks l.
Proof.
  unfold cell_chunks, bake. cbn [li_props li_cells]. rewrite bake_names.
  destruct (properties_to_oas pstate0 (li_props l)) as [[r_lp d_lp] st1]. apply cells_recs_bake.
Qed.

(* (4'): with or without the flag, loading the compressed file gives the library with the positions of that file *)
Theorem oas_roundtrip_compressed_offsets_lemma : forall inflate deflate cfg l,
  (forall x, inflate (deflate x) (N.of_nat (length x)) = Some x) ->
  wlib_ok (bake cfg l (runc_offsets (write_oas_run_c deflate cfg l))) ->
  wlib_small (bake cfg l (runc_offsets (write_oas_run_c deflate cfg l))) ->
  Forall (chunk_ok deflate) (cell_chunks l) ->
  read_oas_model_c inflate (write_oas_model_c deflate cfg l) = CR (Ok (OasisRead.view (view_w_c deflate cfg l))).
Proof.
  intros inflate deflate cfg l Hc H1 H2 Hch.
  rewrite <- bake_model, <- view_bake.
  apply oas_roundtrip_compressed_view; try assumption; [reflexivity|].
  rewrite cell_chunks_bake. exact Hch.
Qed.

(* non-vacuity, with the flag on *)
Definition sample_baked : wlib := bake (mkWCfg true) sample_wlib (runc_offsets (write_oas_run_c (@rev N) (mkWCfg true) sample_wlib)).
Lemma sample_baked_ok : wlib_ok sample_baked.
Proof.
  set (l := sample_baked). vm_compute in l. subst l.
  split; [|split; [|split]].
  - repeat constructor; unfold wf_str, wf_u, fits63; cbn; rewrite ?two64_val, ?two63_val; lia.
  - cbn. repeat constructor; cbn; intuition discriminate.
  - assert (Hz : forall a b : Z, (- 2 ^ 62 < a < 2 ^ 62)%Z -> (- 2 ^ 62 < b < 2 ^ 62)%Z -> ptc (a, b)) by (intros; split; assumption).
    repeat (first [apply Forall_nil | apply Forall_cons | split]);
      try exact I; try (apply Hz; lia); try discriminate;
      unfold wf_str, wf_u, fits63, wf_pt, wpath_ok, wpel_ok, wend_ok; cbn [fst snd length];
      rewrite ?two64_val, ?two63_val; try lia.
    all: try (repeat (first [apply Forall_nil | apply Forall_cons | split]); try exact I; try (apply Hz; lia);
              unfold wf_str, wf_u, fits63, wend_ok; cbn [fst snd length pe_layer pe_type pe_hw pe_end];
              rewrite ?two64_val, ?two63_val; lia).
  - intros [[|]]; vm_compute; reflexivity.
Qed.
Lemma sample_baked_small : wlib_small sample_baked.
Proof.
  set (l := sample_baked). vm_compute in l. subst l.
  split.
  - repeat (first [apply Forall_nil | apply Forall_cons | split]); unfold u32, lim31; cbn; try exact I; lia.
  - intros [[|]]; vm_compute; split; discriminate.
Qed.
Example oas_roundtrip_compressed_offsets_example :
  read_oas_model_c (fun z _ => Some (rev z)) (write_oas_model_c (@rev N) (mkWCfg true) sample_wlib) =
  CR (Ok (OasisRead.view (view_w_c (@rev N) (mkWCfg true) sample_wlib))).
Proof.
  apply oas_roundtrip_compressed_offsets_lemma.
  - intros x. rewrite rev_involutive. reflexivity.
  - exact sample_baked_ok.
  - exact sample_baked_small.
  - set (c := cell_chunks sample_wlib). vm_compute in c. subst c.
    repeat (first [apply Forall_nil | apply Forall_cons]);
      (eexists; eexists; split; [reflexivity|split; vm_compute; reflexivity]).
Qed.
