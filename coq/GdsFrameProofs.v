(* Prefix theorems for every GDSII reader of the common loop shape (C18), framing round trip. *)
Require Import Base GdsFrame.
From Coq Require Import ZifyBool ZifyN ZifyNat.
Local Open Scope N_scope.

(* ------------------------------------------------------------------ one record *)
Lemma next_record_shrinks bs r rest :
  next_record bs = Ok (r, rest) -> (length rest + 4 <= length bs)%nat.
Proof.
  destruct bs as [|b0 [|b1 [|b2 [|b3 tl]]]]; cbn [next_record]; try discriminate.
  destruct (b0 * 256 + b1 <? 4); [discriminate|].
  destruct (length tl <? N.to_nat (b0 * 256 + b1 - 4))%nat eqn:E; [discriminate|].
  intros [= <- <-]. rewrite skipn_length. cbn [length]. lia.
Qed.

Lemma firstn_cons4 {A} n (a b c d : A) tl :
  (4 <= n)%nat -> firstn n (a :: b :: c :: d :: tl) = a :: b :: c :: d :: firstn (n - 4) tl.
Proof.
  intros H. do 4 (destruct n as [|n]; [lia|]). cbn [firstn].
  replace (S (S (S (S n))) - 4)%nat with n by lia. reflexivity.
Qed.

Lemma next_record_prefix_short bs r rest n :
  next_record bs = Ok (r, rest) -> (n < length bs - length rest)%nat ->
  next_record (firstn n bs) = ErrEof.
Proof.
  destruct bs as [|b0 [|b1 [|b2 [|b3 tl]]]]; cbn [next_record]; try discriminate.
  destruct (b0 * 256 + b1 <? 4) eqn:El; [discriminate|].
  set (k := N.to_nat (b0 * 256 + b1 - 4)).
  destruct (length tl <? k)%nat eqn:E; [discriminate|].
  intros [= <- <-] Hn. rewrite skipn_length in Hn. cbn [length] in Hn.
  apply Nat.ltb_ge in E.
  destruct (le_lt_dec 4 n) as [H4|H4].
  - rewrite firstn_cons4 by assumption. cbn [next_record]. rewrite El. fold k.
    replace (length (firstn (n - 4) tl) <? k)%nat with true; [reflexivity|].
    symmetry. apply Nat.ltb_lt. rewrite firstn_length. lia.
  - do 4 (destruct n as [|n]; [reflexivity|]). lia.
Qed.

Lemma next_record_prefix_ok bs r rest n :
  next_record bs = Ok (r, rest) -> (length bs - length rest <= n)%nat ->
  next_record (firstn n bs) = Ok (r, firstn (n - (length bs - length rest)) rest).
Proof.
  destruct bs as [|b0 [|b1 [|b2 [|b3 tl]]]]; cbn [next_record]; try discriminate.
  destruct (b0 * 256 + b1 <? 4) eqn:El; [discriminate|].
  set (k := N.to_nat (b0 * 256 + b1 - 4)).
  destruct (length tl <? k)%nat eqn:E; [discriminate|].
  intros [= <- <-] Hn. rewrite skipn_length in Hn |- *. cbn [length] in Hn |- *.
  apply Nat.ltb_ge in E.
  assert (H4 : (4 <= n)%nat) by lia.
  rewrite firstn_cons4 by assumption. cbn [next_record]. rewrite El. fold k.
  replace (length (firstn (n - 4) tl) <? k)%nat with false.
  2:{ symmetry. apply Nat.ltb_ge. rewrite firstn_length. lia. }
  f_equal. f_equal.
  - f_equal. rewrite firstn_firstn. f_equal. lia.
  - replace (n - (S (S (S (S (length tl)))) - (length tl - k)))%nat with (n - 4 - k)%nat by lia.
    (* skipn k (firstn (n-4) tl) = firstn (n-4-k) (skipn k tl) *)
    apply skipn_firstn_comm.
Qed.

(* ------------------------------------------------------------------ the reader loop *)
Section LoopProofs.
  Variable St Res : Type.
  Variable step : St -> grecord -> St + Res.
  Notation loop := (reader_loop St Res step).

  Lemma loop_suffix fuel : forall st bs res rest,
    loop fuel st bs = Ok (res, rest) -> (length rest + 4 <= length bs)%nat.
  Proof.
    induction fuel as [|f IH]; intros st bs res rest; cbn [reader_loop]; [discriminate|].
    destruct (next_record bs) as [[r rest1]| | | | |] eqn:En; try discriminate.
    pose proof (next_record_shrinks _ _ _ En) as Hs.
    destruct (step st r) as [st'|res'].
    - intros H. specialize (IH _ _ _ _ H). lia.
    - intros [= <- <-]. exact Hs.
  Qed.

  Lemma loop_fuel_mono fuel : forall st bs o fuel',
    loop fuel st bs = o -> o <> Hang -> (fuel <= fuel')%nat -> loop fuel' st bs = o.
  Proof.
    induction fuel as [|f IH]; intros st bs o fuel' H Hn Hle; cbn [reader_loop] in H; [congruence|].
    destruct fuel' as [|f']; [lia|]. cbn [reader_loop].
    destruct (next_record bs) as [[r rest1]| | | | |]; try assumption.
    destruct (step st r) as [st'|res']; [|assumption].
    apply IH; [assumption|assumption|lia].
  Qed.

  Lemma loop_no_hang fuel : forall st bs, (length bs < 4 * fuel)%nat -> loop fuel st bs <> Hang.
  Proof.
    induction fuel as [|f IH]; intros st bs Hl; [lia|]. cbn [reader_loop].
    destruct (next_record bs) as [[r rest1]| | | | |] eqn:En; try discriminate.
    - pose proof (next_record_shrinks _ _ _ En).
      destruct (step st r) as [st'|res']; [apply IH; lia|discriminate].
    - (* next_record never answers Hang *) exfalso.
      destruct bs as [|b0 [|b1 [|b2 [|b3 tl]]]]; cbn [next_record] in En; try discriminate.
      destruct (b0 * 256 + b1 <? 4); [discriminate|].
      destruct (length tl <? N.to_nat (b0 * 256 + b1 - 4))%nat; discriminate.
  Qed.

  (* cutting the file before the end of the record at which the reader returns: short read *)
  Lemma loop_prefix_short fuel : forall st bs res rest n,
    loop fuel st bs = Ok (res, rest) -> (n < length bs - length rest)%nat ->
    loop fuel st (firstn n bs) = ErrEof.
  Proof.
    induction fuel as [|f IH]; intros st bs res rest n; cbn [reader_loop]; [discriminate|].
    destruct (next_record bs) as [[r rest1]| | | | |] eqn:En; try discriminate.
    pose proof (next_record_shrinks _ _ _ En) as Hs.
    destruct (le_lt_dec (length bs - length rest1) n) as [Hc|Hc].
    - rewrite (next_record_prefix_ok _ _ _ n En Hc).
      destruct (step st r) as [st'|res'].
      + intros H Hn. pose proof (loop_suffix _ _ _ _ _ H).
        apply IH with (res := res) (rest := rest).
        * (* same run on the shorter remainder *)
          assumption.
        * lia.
      + intros [= <- <-] Hn. lia.
    - intros _ _. rewrite (next_record_prefix_short _ _ _ n En Hc). reflexivity.
  Qed.

  (* keeping at least the bytes the reader consumed: same result, remainder cut accordingly *)
  Lemma loop_prefix_ok fuel : forall st bs res rest n,
    loop fuel st bs = Ok (res, rest) -> (length bs - length rest <= n)%nat ->
    loop fuel st (firstn n bs) = Ok (res, firstn (n - (length bs - length rest)) rest).
  Proof.
    induction fuel as [|f IH]; intros st bs res rest n; cbn [reader_loop]; [discriminate|].
    destruct (next_record bs) as [[r rest1]| | | | |] eqn:En; try discriminate.
    pose proof (next_record_shrinks _ _ _ En) as Hs.
    destruct (step st r) as [st'|res'] eqn:Es.
    - intros H Hn. pose proof (loop_suffix _ _ _ _ _ H) as Hs2.
      rewrite (next_record_prefix_ok _ _ _ n En) by lia. rewrite Es.
      rewrite (IH _ _ _ _ _ H) by lia.
      f_equal. f_equal. f_equal. lia.
    - intros [= <- <-] Hn.
      rewrite (next_record_prefix_ok _ _ _ n En) by lia. rewrite Es. reflexivity.
  Qed.

  Notation rd := (reader St Res step).

  Lemma reader_as_loop st bs fuel :
    (length bs < fuel)%nat -> loop fuel st bs = rd st bs.
  Proof.
    intros H. unfold reader.
    apply loop_fuel_mono with (fuel := S (length bs)); [reflexivity| |lia].
    apply loop_no_hang. lia.
  Qed.

  Theorem reader_truncated_errors_lemma st bs res rest n :
    rd st bs = Ok (res, rest) -> (n < length bs - length rest)%nat ->
    rd st (firstn n bs) = ErrEof.
  Proof.
    intros H Hn. unfold reader in H.
    pose proof (loop_prefix_short _ _ _ _ _ n H Hn) as Hp.
    rewrite <- (reader_as_loop st (firstn n bs) (S (length bs))); [exact Hp|].
    rewrite firstn_length. lia.
  Qed.

  Theorem reader_truncated_same_lemma st bs res rest n :
    rd st bs = Ok (res, rest) -> (length bs - length rest <= n)%nat ->
    rd st (firstn n bs) = Ok (res, firstn (n - (length bs - length rest)) rest).
  Proof.
    intros H Hn. unfold reader in H.
    pose proof (loop_prefix_ok _ _ _ _ _ n H Hn) as Hp.
    rewrite <- (reader_as_loop st (firstn n bs) (S (length bs))); [exact Hp|].
    rewrite firstn_length. lia.
  Qed.

  (* the reader never hangs and never crashes in its framing *)
  Theorem reader_total_lemma st bs : rd st bs <> Hang.
  Proof. unfold reader. apply loop_no_hang. lia. Qed.

  (* a truncated file is never reported as a *different* success *)
  Corollary reader_never_shortened_lemma st bs res rest n res' rest' :
    rd st bs = Ok (res, rest) -> rd st (firstn n bs) = Ok (res', rest') -> res' = res.
  Proof.
    intros H H'. destruct (le_lt_dec (length bs - length rest) n) as [Hc|Hc].
    - rewrite (reader_truncated_same_lemma _ _ _ _ n H Hc) in H'. congruence.
    - rewrite (reader_truncated_errors_lemma _ _ _ _ n H Hc) in H'. discriminate.
  Qed.
End LoopProofs.

(* ------------------------------------------------------------------ framing round trip *)
Lemma next_record_rec_bytes r rest :
  N.of_nat (length (payload r)) + 4 < 65536 -> rtype r < 256 -> dtype r < 256 ->
  next_record (rec_bytes r ++ rest) = Ok (r, rest).
Proof.
  intros Hl Ht Hd. unfold rec_bytes, rec_len. cbn [app next_record].
  set (len := 4 + N.of_nat (length (payload r))).
  assert (Hlen : len / 256 * 256 + len mod 256 = len).
  { pose proof (N.div_mod len 256 ltac:(lia)). lia. }
  rewrite Hlen.
  replace (len <? 4) with false by (symmetry; apply N.ltb_ge; subst len; lia).
  replace (N.to_nat (len - 4)) with (length (payload r)) by (subst len; lia).
  replace (length (payload r ++ rest) <? length (payload r))%nat with false.
  2:{ symmetry. apply Nat.ltb_ge. rewrite app_length. lia. }
  rewrite firstn_app, Nat.sub_diag, firstn_all, firstn_O, app_nil_r.
  rewrite skipn_app, Nat.sub_diag, skipn_all, skipn_O. cbn [app].
  destruct r; reflexivity.
Qed.
