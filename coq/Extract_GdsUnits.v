Require Import Base OasisInt GdsReal OasisReal GdsUnits.
From Flocq Require Import Core BinarySingleNaN Binary Bits.
Require Import Extraction ExtrOcamlBasic.
Extraction Blacklist List String Int.
Extraction "../ocaml/extracted/gds_units.ml" Z.of_N bits64 b64_of_bits gds_real_to_b64 read_gds_units us_factor us_unit us_precision
  us_tolerance gds_units_model gds_coord gds_width gds_half_width rescale_factor rescale b64_zero.
