(* Bit-exact model (Flocq binary64) of the unit arithmetic of the GDSII readers:
     src/gdsii.cpp   gdsii_real_to_double
     src/library.cpp read_gds, case UNITS (factor / library.unit / library.precision / tolerance),
                     the coordinate map `factor * (double)int32` of XY, WIDTH, BGNEXTN / ENDEXTN,
                     the half width `width / 2` stored in a path element
     src/library.cpp gds_units
   Definitions only.  Every C++ floating-point operation is the Flocq operation of the same name in
   round-to-nearest-even; `exp2((double)k)` for the integer k in [-256, 252] is the exact power of two
   (what a correctly rounded libm returns; trusted, and validated by the differential run). *)
Require Import Base GdsReal OasisReal.
From Flocq Require Import Core BinarySingleNaN Binary Bits.
Local Open Scope Z_scope.

Definition b64_zero : binary64 := B754_zero 53 1024 false.
Definition b64_two : binary64 := b64_of_bits 4611686018427387904.            (* 0x4000000000000000 = 2.0 *)
Definition b64_two56 : binary64 := b64_of_bits 4859383997932765184.          (* 0x4370000000000000 = 72057594037927936.0 *)

(* (double)k for a signed integer (int32_t, int64_t): round to nearest even (exact below 2^53) *)
Definition b64_of_int (z : Z) : binary64 :=
  Binary.binary_normalize 53 1024 eq_refl eq_refl mode_NE z 0 false.

(* exp2((double)k), k an integer: 2^k *)
Definition b64_exp2 (k : Z) : binary64 :=
  Binary.binary_normalize 53 1024 eq_refl eq_refl mode_NE 1 k false.

(* comparisons with 0 as the C++ writes them (false when the operand is a NaN) *)
Definition b64_gt0 (x : binary64) : bool :=
  match b64_compare x b64_zero with Some Gt => true | _ => false end.
Definition b64_le0 (x : binary64) : bool :=
  match b64_compare x b64_zero with Some Lt => true | Some Eq => true | _ => false end.

(* gdsii_real_to_double:
     const int64_t exponent = ((real & 0x7F00000000000000) >> 54) - 256;
     const double mantissa = ((double)(real & 0x00FFFFFFFFFFFFFF)) / 72057594037927936.0;
     const double result = mantissa * exp2((double)exponent);
     return (real & 0x8000000000000000) ? -result : result;                                  *)
Definition gds_real_to_b64 (real : N) : binary64 :=
  let exponent := Z.of_N (N.shiftr (N.land real gds_exp_mask) 54) - 256 in
  let mantissa := b64_div mode_NE (b64_of_uint (N.land real gds_mant_mask)) b64_two56 in
  let result := b64_mult mode_NE mantissa (b64_exp2 exponent) in
  if (0 <? N.land real gds_sign_mask)%N then b64_opp result else result.

(* what read_gds keeps from the UNITS record *)
Record gds_units_state : Type := mk_units {
  us_factor : binary64;        (* multiplies every integer of the file *)
  us_unit : binary64;          (* library.unit *)
  us_precision : binary64;     (* library.precision *)
  us_tolerance : binary64      (* the tolerance given to every path read afterwards *)
}.

(* case GdsiiRecord::UNITS of read_gds; `unit` and `tolerance` are the arguments of read_gds,
   real0 / real1 the two 8-byte reals of the record (after big_endian_swap64):
     const double db_in_user = gdsii_real_to_double(data64[0]);
     const double db_in_meters = gdsii_real_to_double(data64[1]);
     if (unit > 0) { factor = db_in_meters / unit; library.unit = unit; }
     else { factor = db_in_user; library.unit = db_in_meters / db_in_user; }
     library.precision = db_in_meters;
     if (tolerance <= 0) tolerance = library.precision / library.unit;                       *)
Definition read_gds_units (unit tolerance : binary64) (real0 real1 : N) : gds_units_state :=
  let db_in_user := gds_real_to_b64 real0 in
  let db_in_meters := gds_real_to_b64 real1 in
  let '(factor, lunit) :=
    if b64_gt0 unit then (b64_div mode_NE db_in_meters unit, unit)
    else (db_in_user, b64_div mode_NE db_in_meters db_in_user) in
  let precision := db_in_meters in
  let tol := if b64_le0 tolerance then b64_div mode_NE precision lunit else tolerance in
  mk_units factor lunit precision tol.

(* gds_units:
     precision = gdsii_real_to_double(data64[1]);
     unit = precision / gdsii_real_to_double(data64[0]);          returns (unit, precision) *)
Definition gds_units_model (real0 real1 : N) : binary64 * binary64 :=
  let precision := gds_real_to_b64 real1 in
  let unit := b64_div mode_NE precision (gds_real_to_b64 real0) in
  (unit, precision).

(* `factor * data32[i]` : the int32 is converted to double (exact), one multiplication *)
Definition gds_coord (factor : binary64) (z : Z) : binary64 :=
  b64_mult mode_NE factor (b64_of_int z).

(* case WIDTH: `if (data32[0] < 0) width = factor * -data32[0]; else width = factor * data32[0];`
   (the negation is an int32 operation: undefined for INT32_MIN, which the model excludes by returning
   what two's-complement hardware does, -INT32_MIN = INT32_MIN; never generated) *)
Definition wrap_int32 (z : Z) : Z := (z + 2147483648) mod 4294967296 - 2147483648.
Definition gds_width (factor : binary64) (w : Z) : binary64 :=
  if w <? 0 then gds_coord factor (wrap_int32 (- w)) else gds_coord factor w.

(* `Vec2{width / 2, 0}` appended to half_width_and_offset *)
Definition gds_half_width (factor : binary64) (w : Z) : binary64 :=
  b64_div mode_NE (gds_width factor w) b64_two.

(* rescaling a natively loaded coordinate to a target unit: the scale is computed from the library's own
   unit, `library.unit / target`, and applied with one multiplication *)
Definition rescale_factor (native_unit target : binary64) : binary64 := b64_div mode_NE native_unit target.
Definition rescale (s c : binary64) : binary64 := b64_mult mode_NE c s.
