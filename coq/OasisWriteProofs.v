(* Proofs about OasisWrite.v: every file the writer model produces for a well-formed library of the covered subset is
   accepted by the strict specification-level decoder (OasisSpec.v) and decodes to the layout the library denotes:
     oas_writer_conforms_lemma : wlib_ok l -> spec_oas_decode (write_oas_model cfg l) = Some (view_w cfg l). *)
Require Import Base Generated OasisInt OasisIntProofs GdsReal OasisReal OasisRealProofs OasisPlist OasisPlistProofs.
Require Import Table TableProofs PropList OasisSpec OasisSpecProofs OasisWrite.
From Coq Require Import Permutation.
From Flocq Require Import Core BinarySingleNaN Binary Bits.
Local Open Scope N_scope.

(* ================================================================== reals *)
Lemma enc_real_view bits : enc_real bits = wr_real (real_of_bits bits).
Proof.
  unfold enc_real, real_of_bits.
  destruct (int_magnitude_lt64 (b64_of_bits (Z.of_N bits))) as [v|].
  - cbn [wr_real]. destruct (b64_ge0 _); reflexivity.
  - destruct (int_magnitude_lt64 _) as [v|]; [|reflexivity].
    destruct (b64_eqb _ _); [|reflexivity].
    cbn [wr_real]. destruct (b64_ge0 _); reflexivity.
Qed.

Lemma wf_real_of_bits bits : wf_real (real_of_bits bits).
Proof.
  unfold real_of_bits.
  destruct (int_magnitude_lt64 (b64_of_bits (Z.of_N bits))) as [v|] eqn:E1.
  - cbn [wf_real]. destruct (int_magnitude_spec _ _ E1) as (_ & _ & Hv). unfold wf_u, two64. lia.
  - destruct (int_magnitude_lt64 (b64_div _ _ _)) as [v|] eqn:E2; [|apply bytes_le_length].
    destruct (b64_eqb _ _); [|apply bytes_le_length].
    cbn [wf_real]. destruct (int_magnitude_spec _ _ E2) as (_ & _ & Hv). unfold wf_u, two64. lia.
Qed.

Lemma rd_real_enc_real bits rest : rd_real (enc_real bits ++ rest) = Some (real_of_bits bits, rest).
Proof. rewrite enc_real_view. apply rd_real_enc. apply wf_real_of_bits. Qed.

(* ================================================================== repetitions *)
Definition zc (z : Z) : Prop := (- 2 ^ 62 < z < 2 ^ 62)%Z.          (* a coordinate whose differences fit an int64 *)
Definition ptc (p : pt) : Prop := zc (fst p) /\ zc (snd p).

Definition wrep_ok (r : wrep) : Prop :=
  match r with
  | WNone => True
  | WRect c rw sx sy => c < two64 /\ rw < two64 /\ fits63 sx /\ fits63 sy
  | WReg c rw v1 v2 => c < two64 /\ rw < two64 /\ wf_pt v1 /\ wf_pt v2
  | WExpl offs => N.of_nat (length offs) + 1 < two64 /\ Forall ptc offs
  | WExplX cs | WExplY cs => N.of_nat (length cs) + 1 < two64 /\ Forall (fun c => (0 <= c < 2 ^ 62)%Z) cs
  end.

Lemma two64_val : two64 = 18446744073709551616. Proof. reflexivity. Qed.
Lemma two63_val : Z.of_N OasisIntProofs.two63 = 9223372036854775808%Z. Proof. reflexivity. Qed.

Lemma usub_ge a b : b <= a -> a < two64 -> usub a b = a - b.
Proof.
  intros H1 H2. unfold usub. replace (a + two64 - b) with ((a - b) + 1 * two64) by lia.
  rewrite N.mod_add by (rewrite two64_val; lia). apply N.mod_small. lia.
Qed.
Lemma u64z_nonneg z : (0 <= z < 2 ^ 64)%Z -> u64z z = Z.to_N z.
Proof. intros H. unfold u64z. rewrite Z.mod_small by (change (2 ^ 64)%Z with 18446744073709551616%Z in H; lia). reflexivity. Qed.
Lemma fits63_u z : fits63 z -> (0 <= z)%Z -> (0 <= z < 2 ^ 64)%Z /\ wf_u (Z.to_N z).
Proof.
  unfold fits63, wf_u. rewrite two63_val, two64_val. intros H H0. split; [lia|]. lia.
Qed.

(* the sort *)
Fixpoint sorted_z (l : list Z) : Prop :=
  match l with
  | [] => True
  | x :: t => match t with [] => True | y :: _ => (x <= y)%Z end /\ sorted_z t
  end.
Lemma insert_z_sorted x l : sorted_z l -> sorted_z (insert_z x l).
Proof.
  induction l as [|y t IH]; intros H; [cbn; auto|].
  cbn [insert_z]. destruct (x <=? y)%Z eqn:E.
  - apply Z.leb_le in E. cbn [sorted_z]. cbn [sorted_z] in H. tauto.
  - apply Z.leb_gt in E. destruct H as [H1 H2]. specialize (IH H2).
    destruct t as [|z t']; cbn [insert_z sorted_z] in *.
    + split; [lia|auto].
    + destruct (x <=? z)%Z eqn:E2; cbn [sorted_z] in *.
      * apply Z.leb_le in E2. repeat split; try lia; tauto.
      * repeat split; try lia; tauto.
Qed.
Lemma sort_z_sorted l : sorted_z (sort_z l).
Proof. induction l as [|x t IH]; [exact I|]. cbn [sort_z]. apply insert_z_sorted. exact IH. Qed.
Lemma insert_z_Forall (P : Z -> Prop) x l : P x -> Forall P l -> Forall P (insert_z x l).
Proof.
  intros Hx H. induction H as [|y t Hy Ht IH]; cbn [insert_z]; [repeat constructor; assumption|].
  destruct (x <=? y)%Z; repeat constructor; assumption.
Qed.
Lemma sort_z_Forall (P : Z -> Prop) l : Forall P l -> Forall P (sort_z l).
Proof. induction 1 as [|x t Hx Ht IH]; [constructor|]. cbn [sort_z]. apply insert_z_Forall; assumption. Qed.
Lemma insert_z_length x l : length (insert_z x l) = S (length l).
Proof. induction l as [|y t IH]; [reflexivity|]. cbn [insert_z]. destruct (x <=? y)%Z; cbn [length]; [reflexivity|]. rewrite IH. reflexivity. Qed.
Lemma sort_z_length l : length (sort_z l) = length l.
Proof. induction l as [|x t IH]; [reflexivity|]. cbn [sort_z length]. rewrite insert_z_length, IH. reflexivity. Qed.

Lemma zdiffs_bounds B : forall l prev, (0 <= prev)%Z -> sorted_z (prev :: l) -> Forall (fun c => (0 <= c < B)%Z) l ->
  Forall (fun d => (0 <= d < B)%Z) (zdiffs prev l).
Proof.
  induction l as [|c t IH]; intros prev Hp Hs Hf; [constructor|].
  inversion Hf as [|? ? Hc Ht]; subst. cbn [zdiffs]. cbn [sorted_z] in Hs. destruct Hs as [H1 H2]. constructor; [lia|].
  apply IH; [lia|exact H2|exact Ht].
Qed.
Lemma zdiffs_length : forall l prev, length (zdiffs prev l) = length l.
Proof. induction l as [|c t IH]; intros prev; [reflexivity|]. cbn [zdiffs length]. rewrite IH. reflexivity. Qed.
Lemma ptdiffs_length : forall l prev, length (ptdiffs prev l) = length l.
Proof. induction l as [|c t IH]; intros prev; [reflexivity|]. cbn [ptdiffs length]. rewrite IH. reflexivity. Qed.
Lemma ptdiffs_wf : forall l prev, ptc prev -> Forall ptc l -> Forall wf_pt (ptdiffs prev l).
Proof.
  induction l as [|c t IH]; intros prev Hp Hf; [constructor|].
  inversion Hf as [|? ? Hc Ht]; subst. cbn [ptdiffs]. constructor; [|apply IH; assumption].
  destruct Hp as [P1 P2], Hc as [C1 C2]. unfold zc in *. unfold wf_pt, fits63. rewrite two63_val. cbn [fst snd].
  change (2 ^ 62)%Z with 4611686018427387904%Z in *. lia.
Qed.

Lemma flat_map_u64z l : Forall (fun d => (0 <= d < 2 ^ 64)%Z) l ->
  flat_map (fun d => enc_uint (u64z d)) l = flat_map enc_uint (map Z.to_N l).
Proof.
  induction 1 as [|d t Hd Ht IH]; [reflexivity|]. cbn [flat_map map]. rewrite u64z_nonneg by exact Hd. rewrite IH. reflexivity.
Qed.

Lemma has_rep_rect c rw : c < two64 -> rw < two64 -> 1 <? (c * rw) mod two64 = true ->
  ((1 <? c) = false -> c = 1 /\ 2 <= rw).
Proof.
  intros Hc Hr H Hc1. apply N.ltb_lt in H. apply N.ltb_ge in Hc1.
  assert (C : c = 0 \/ c = 1) by lia. destruct C as [-> | ->].
  - rewrite N.mul_0_l in H. rewrite N.mod_0_l in H by (rewrite two64_val; lia). lia.
  - rewrite N.mul_1_l in H. rewrite N.mod_small in H by exact Hr. split; [reflexivity|lia].
Qed.

(* coordinates of ExplicitX / ExplicitY written as they are meant *)
Lemma write_coords_view cs : cs <> [] -> N.of_nat (length cs) + 1 < two64 -> Forall (fun c => (0 <= c < 2 ^ 62)%Z) cs ->
  let l := map Z.to_N (zdiffs 0 (sort_z cs)) in
  write_coords cs = wr_list_after_count enc_uint None l /\ l <> [] /\ wf_u (N.of_nat (length l)) /\ Forall wf_u l.
Proof.
  intros Hne Hlen Hf. cbv zeta.
  pose proof (sort_z_sorted cs) as Hs. pose proof (sort_z_Forall _ cs Hf) as Hsf. pose proof (sort_z_length cs) as Hsl.
  unfold write_coords, wr_list_after_count.
  destruct (sort_z cs) as [|c0 t] eqn:E.
  - destruct cs; [congruence|discriminate].
  - cbn [zdiffs map]. inversion Hsf as [|? ? Hc0 Ht]; subst.
    assert (Hd : Forall (fun d => (0 <= d < 2 ^ 62)%Z) (zdiffs c0 t)) by (apply zdiffs_bounds; [lia|exact Hs|exact Ht]).
    assert (Hd64 : Forall (fun d => (0 <= d < 2 ^ 64)%Z) (zdiffs c0 t)).
    { eapply Forall_impl; [|exact Hd]. cbv beta. intros a Ha. change (2 ^ 62)%Z with 4611686018427387904%Z in Ha.
      change (2 ^ 64)%Z with 18446744073709551616%Z. lia. }
    split; [|split; [discriminate|split]].
    + cbn [length flat_map app]. rewrite map_length, zdiffs_length. cbn [length] in Hsl. rewrite <- Hsl.
      rewrite Z.sub_0_r. rewrite u64z_nonneg by (change (2 ^ 62)%Z with 4611686018427387904%Z in Hc0;
        change (2 ^ 64)%Z with 18446744073709551616%Z; lia).
      rewrite flat_map_u64z by exact Hd64. reflexivity.
    + cbn [length]. rewrite map_length, zdiffs_length. cbn [length] in Hsl. rewrite Hsl. unfold wf_u. lia.
    + constructor.
      * rewrite Z.sub_0_r. unfold wf_u. rewrite two64_val. change (2 ^ 62)%Z with 4611686018427387904%Z in Hc0. lia.
      * apply Forall_forall. intros x Hx. apply in_map_iff in Hx. destruct Hx as (d & <- & Hin).
        rewrite Forall_forall in Hd. specialize (Hd d Hin). cbv beta in Hd. unfold wf_u. rewrite two64_val.
        change (2 ^ 62)%Z with 4611686018427387904%Z in Hd. lia.
Qed.

Lemma write_repetition_view r : wrep_ok r -> has_rep r = true ->
  write_repetition r = wr_rep (view_rep_body r) /\ wf_rep (view_rep_body r).
Proof.
  intros Hok Hh. unfold has_rep in Hh.
  destruct r as [|c rw sx sy|c rw v1 v2|offs|cs|cs]; cbn [rep_count wrep_ok] in *.
  - discriminate.
  - destruct Hok as (Hc & Hr & Hx & Hy). cbn [write_repetition view_rep_body].
    pose proof (has_rep_rect c rw Hc Hr Hh) as Hone.
    destruct (1 <? c) eqn:Ec; cbn [andb].
    + apply N.ltb_lt in Ec. rewrite (usub_ge c 2) by (lia || assumption).
      destruct (1 <? rw) eqn:Er.
      * apply N.ltb_lt in Er. rewrite (usub_ge rw 2) by (lia || assumption).
        destruct (0 <=? sx)%Z eqn:Ex; cbn [andb]; [destruct (0 <=? sy)%Z eqn:Ey|].
        -- apply Z.leb_le in Ex, Ey. destruct (fits63_u sx Hx Ex) as [Bx Wx]. destruct (fits63_u sy Hy Ey) as [By Wy].
           rewrite !u64z_nonneg by assumption. split; [reflexivity|]. cbn [wf_rep]. unfold wf_u in *. repeat split; lia || assumption.
        -- split; [reflexivity|]. cbn [wf_rep]. unfold wf_u, wf_pt, fits63 in *. rewrite two63_val in *. cbn [fst snd]. repeat split; lia.
        -- split; [reflexivity|]. cbn [wf_rep]. unfold wf_u, wf_pt, fits63 in *. rewrite two63_val in *. cbn [fst snd]. repeat split; lia.
      * destruct (0 <=? sx)%Z eqn:Ex.
        -- apply Z.leb_le in Ex. destruct (fits63_u sx Hx Ex) as [Bx Wx]. rewrite u64z_nonneg by assumption.
           split; [reflexivity|]. cbn [wf_rep]. unfold wf_u in *. split; lia || assumption.
        -- split; [reflexivity|]. cbn [wf_rep]. unfold wf_u, wf_pt, fits63 in *. rewrite two63_val in *. cbn [fst snd]. repeat split; lia.
    + destruct (Hone eq_refl) as [-> Hrw]. rewrite (usub_ge rw 2) by (lia || assumption).
      destruct (0 <=? sy)%Z eqn:Ey.
      * apply Z.leb_le in Ey. destruct (fits63_u sy Hy Ey) as [By Wy]. rewrite u64z_nonneg by assumption.
        split; [reflexivity|]. cbn [wf_rep]. unfold wf_u in *. split; lia || assumption.
      * split; [reflexivity|]. cbn [wf_rep]. unfold wf_u, wf_pt, fits63 in *. rewrite two63_val in *. cbn [fst snd]. repeat split; lia.
  - destruct Hok as (Hc & Hr & H1 & H2). cbn [write_repetition view_rep_body].
    pose proof (has_rep_rect c rw Hc Hr Hh) as Hone.
    destruct (1 <? c) eqn:Ec; cbn [andb].
    + apply N.ltb_lt in Ec. rewrite (usub_ge c 2) by (lia || assumption).
      destruct (1 <? rw) eqn:Er.
      * apply N.ltb_lt in Er. rewrite (usub_ge rw 2) by (lia || assumption).
        split; [reflexivity|]. cbn [wf_rep]. unfold wf_u. repeat (split; [lia || assumption|]); lia || assumption.
      * split; [reflexivity|]. cbn [wf_rep]. unfold wf_u. repeat (split; [lia || assumption|]); lia || assumption.
    + destruct (Hone eq_refl) as [-> Hrw]. rewrite (usub_ge rw 2) by (lia || assumption).
      split; [reflexivity|]. cbn [wf_rep]. unfold wf_u. repeat (split; [lia || assumption|]); lia || assumption.
  - destruct Hok as (Hlen & Hf). cbn [write_repetition view_rep_body].
    destruct offs as [|v0 t].
    + cbn [length] in Hh. vm_compute in Hh. discriminate.
    + inversion Hf as [|? ? H0 Ht]; subst. cbn [ptdiffs wr_rep]. unfold wr_list_after_count. cbn [length flat_map app].
      rewrite ptdiffs_length. rewrite !Z.sub_0_r. split; [reflexivity|]. cbn [wf_rep wf_grid].
      split; [exact I|]. split; [discriminate|]. split.
      * cbn [length]. rewrite ptdiffs_length. unfold wf_u. cbn [length] in Hlen. lia.
      * constructor; [|apply ptdiffs_wf; assumption].
        destruct H0 as [A B]. unfold zc in *. unfold wf_pt, fits63. rewrite two63_val. cbn [fst snd].
        change (2 ^ 62)%Z with 4611686018427387904%Z in *. lia.
  - destruct Hok as (Hlen & Hf). cbn [write_repetition view_rep_body].
    assert (Hne : cs <> []) by (intros ->; vm_compute in Hh; discriminate).
    destruct (write_coords_view cs Hne Hlen Hf) as (E & L1 & L2 & L3).
    destruct cs as [|c0 t]; [congruence|]. rewrite E. split; [reflexivity|]. cbn [wf_rep wf_grid]. tauto.
  - destruct Hok as (Hlen & Hf). cbn [write_repetition view_rep_body].
    assert (Hne : cs <> []) by (intros ->; vm_compute in Hh; discriminate).
    destruct (write_coords_view cs Hne Hlen Hf) as (E & L1 & L2 & L3).
    destruct cs as [|c0 t]; [congruence|]. rewrite E. split; [reflexivity|]. cbn [wf_rep wf_grid]. tauto.
Qed.

(* the repetition field of a record, as the decoder reads it *)
Lemma rep_field_dec r mr rest : wrep_ok r ->
  rep_fld (has_rep r) mr (rep_field r ++ rest) = Some (view_rep r, new_rep mr (view_rep r), rest).
Proof.
  intros Hok. unfold rep_field, view_rep, rep_fld. destruct (has_rep r) eqn:Hh; [|reflexivity].
  destruct (write_repetition_view r Hok Hh) as [E W]. rewrite E. rewrite rd_rep_enc by exact W. reflexivity.
Qed.

(* ================================================================== point lists: the strict reader on oasis_write_point_list *)
Local Open Scope Z_scope.
Lemma prefix_sums_walk ds : forall acc, prefix_sums_pt acc ds = walk acc ds.
Proof. induction ds as [|d t IH]; intros acc; [reflexivity|]. cbn [prefix_sums_pt walk]. unfold padd. rewrite IH. reflexivity. Qed.

Lemma walk_rel tl : forall p0 acc,
  walk acc (deltas_from p0 tl) = map (fun q => (fst q - fst p0 + fst acc, snd q - snd p0 + snd acc)) tl.
Proof.
  induction tl as [|a t IH]; intros p0 acc; [reflexivity|].
  cbn [deltas_from walk map fst snd]. rewrite IH. cbn [fst snd]. f_equal.
  - f_equal; lia.
  - apply map_ext. intros q. f_equal; lia.
Qed.
Lemma walk_rel0 p0 t : walk (0, 0) (deltas_from p0 t) = rel_pts (p0 :: t).
Proof.
  rewrite walk_rel. unfold rel_pts, first_pt. cbn [hd tl fst snd]. apply map_ext. intros q. f_equal; lia.
Qed.

Fixpoint alt_vals (f : bool) (ds : list pt) : list Z :=
  match ds with [] => [] | d :: t => (if f then snd d else fst d) :: alt_vals (negb f) t end.
Lemma emit_alt_vals ds : forall f, emit_alt f ds = flat_map enc_int (alt_vals f ds).
Proof. induction ds as [|d t IH]; intros f; [reflexivity|]. cbn [emit_alt alt_vals flat_map]. rewrite IH. reflexivity. Qed.
Lemma alt_vals_length ds : forall f, length (alt_vals f ds) = length ds.
Proof. induction ds as [|d t IH]; intros f; [reflexivity|]. cbn [alt_vals length]. rewrite IH. reflexivity. Qed.
Lemma alt_vals_fits ds : forall f, Forall fits_pt ds -> Forall fits63 (alt_vals f ds).
Proof.
  induction ds as [|d t IH]; intros f H; [constructor|]. inversion H as [|? ? [H1 H2] Ht]; subst.
  cbn [alt_vals]. constructor; [destruct f; assumption|apply IH; exact Ht].
Qed.

Lemma manh_accum_alt ds : forall f p, alt_b f ds = true ->
  manh_accum (negb f) p (alt_vals f ds) = (walk p ds, last (walk p ds) p, flipn (length ds) (negb f)).
Proof.
  induction ds as [|d t IH]; intros f p H; [reflexivity|].
  cbn [alt_b] in H. apply andb_true_iff in H. destruct H as [H1 H2].
  cbn [alt_vals manh_accum walk length flipn].
  set (q := (fst p + fst d, snd p + snd d)).
  assert (Eq : (if negb f then (fst p + (if f then snd d else fst d), snd p)
                else (fst p, snd p + (if f then snd d else fst d))) = q).
  { subst q. destruct f; cbn [negb]; apply Z.eqb_eq in H1; rewrite H1; f_equal; lia. }
  rewrite Eq. rewrite (IH (negb f) q H2). rewrite last_cons_default. reflexivity.
Qed.

Lemma rd_count_ints vals n rest : n = N.of_nat (length vals) -> Forall fits63 vals ->
  rd_count rd_int n (flat_map enc_int vals ++ rest) = Some (vals, rest).
Proof.
  intros Hn Hf. apply rd_count_flat_map; [exact Hn| |].
  - intros a r Ha. apply rd_int_enc. rewrite Forall_forall in Hf. apply Hf. exact Ha.
  - intros a _. apply enc_int_nonempty.
Qed.

Lemma manh_b_is_manh d : manh_b d = is_manh d. Proof. reflexivity. Qed.
Lemma oct_b_is_oct d : oct_b d = is_oct d. Proof. reflexivity. Qed.

Lemma removelast_length {A} (l : list A) : l <> [] -> length l = S (length (removelast l)).
Proof.
  induction l as [|a t IH]; intros H; [congruence|].
  destruct t as [|b t']; [reflexivity|]. change (removelast (a :: b :: t')) with (a :: removelast (b :: t')).
  cbn [length] in *. rewrite IH by discriminate. reflexivity.
Qed.

Lemma last_map {A B} (g : A -> B) (l : list A) : forall d, last (map g l) (g d) = g (last l d).
Proof.
  induction l as [|a t IH]; intros d; [reflexivity|].
  cbn [map]. rewrite !last_cons_default. apply IH.
Qed.
Lemma last_rel p0 t : last (rel_pts (p0 :: t)) (0, 0) = (fst (last t p0) - fst p0, snd (last t p0) - snd p0).
Proof.
  unfold rel_pts, first_pt. cbn [hd tl].
  set (g := fun q : Z * Z => (fst q - fst p0, snd q - snd p0)).
  assert (E0 : (0, 0) = g p0) by (unfold g; f_equal; lia).
  rewrite E0. exact (last_map g t p0).
Qed.

Lemma rd_plist_spec_enc ty closed p0 t bs rest :
  (ty < 5)%N -> spec_enc_plist ty closed (p0 :: t) = Some bs ->
  Forall fits_pt (deltas_from p0 t) -> (N.of_nat (length t) < two64)%N ->
  rd_plist closed (bs ++ rest) = Some (rel_pts (p0 :: t), rest).
Proof.
  intros Hty Hspec Hfit Hlen. unfold spec_enc_plist in Hspec.
  set (ds := deltas_from p0 t) in *.
  assert (Hdl : length ds = length t) by apply deltas_from_length.
  assert (Hwn : wf_u (N.of_nat (length ds))) by (rewrite Hdl; exact Hlen).
  assert (Hwalk : walk (0, 0) ds = rel_pts (p0 :: t)) by apply walk_rel0.
  assert (Hcase : ((ty = 0 \/ ty = 1) \/ ty = 2 \/ ty = 3 \/ ty = 4)%N) by lia.
  destruct Hcase as [H01|[H2|[H3|H4]]]; [|subst ty|subst ty|subst ty].
  - (* implicit Manhattan *)
    assert (Hf0 : (ty =? 0)%N = negb (ty =? 1)%N) by (destruct H01 as [-> | ->]; reflexivity).
    assert (Hsm : (ty < 128)%N) by lia.
    assert (Hdec : forall dsw n k,
              alt_b (ty =? 1)%N dsw = true -> Forall fits_pt dsw -> n = N.of_nat (length dsw) -> wf_u n ->
              rd_plist closed ((ty :: enc_uint n ++ emit_alt (ty =? 1)%N dsw) ++ k) =
              Some (if closed
                    then walk (0, 0) dsw ++
                         [if flipn (length dsw) (negb (ty =? 1)%N) then (0, snd (last (walk (0, 0) dsw) (0, 0)))
                          else (fst (last (walk (0, 0) dsw) (0, 0)), 0)]
                    else walk (0, 0) dsw, k)).
    { intros dsw n k Ha Hfw Hn Hwf. unfold rd_plist. cbn [app]. rewrite rd_uint_small by exact Hsm. cbn [obnd].
      rewrite <- app_assoc. rewrite rd_uint_enc by exact Hwf. cbn [obnd].
      rewrite emit_alt_vals.
      assert (E : (let? '(dsr, bsr) := rd_count rd_int n (flat_map enc_int (alt_vals (ty =? 1)%N dsw) ++ k) in
                   let '(l, lst, h) := manh_accum (ty =? 0)%N (0, 0) dsr in
                   Some (if closed then l ++ [if h then (0, snd lst) else (fst lst, 0)] else l, bsr)) =
                  Some (if closed
                        then walk (0, 0) dsw ++
                             [if flipn (length dsw) (negb (ty =? 1)%N) then (0, snd (last (walk (0, 0) dsw) (0, 0)))
                              else (fst (last (walk (0, 0) dsw) (0, 0)), 0)]
                        else walk (0, 0) dsw, k)).
      { rewrite rd_count_ints by (rewrite ?alt_vals_length; [exact Hn|apply alt_vals_fits; exact Hfw]).
        cbn [obnd]. rewrite Hf0. rewrite manh_accum_alt by exact Ha. reflexivity. }
      destruct H01 as [-> | ->]; exact E. }
    assert (Hsel : (match ty with 0%N | 1%N =>
                      if closed
                      then match ds with
                           | [] => None
                           | _ :: _ => if alt_b (ty =? 1)%N (ds ++ [closing_delta p0 t])
                                       then Some (ty :: enc_uint (N.of_nat (Nat.pred (length ds))) ++ emit_alt (ty =? 1)%N (removelast ds))
                                       else None
                           end
                      else if alt_b (ty =? 1)%N ds then Some (ty :: enc_uint (N.of_nat (length ds)) ++ emit_alt (ty =? 1)%N ds) else None
                    | _ => None end) = Some bs).
    { destruct H01 as [-> | ->]; exact Hspec. }
    clear Hspec. assert (Hty01 : match ty with 0%N | 1%N => True | _ => False end) by (destruct H01 as [-> | ->]; exact I).
    destruct ty as [|[[|]| |]]; try contradiction.
    + (* type 0 *)
      destruct closed.
      * destruct ds as [|d0 dt] eqn:Eds; [discriminate|]. rewrite <- Eds in *.
        destruct (alt_b (0 =? 1)%N (ds ++ [closing_delta p0 t])) eqn:Ealt; [|discriminate].
        injection Hsel as <-.
        assert (Hne : ds <> []) by (rewrite Eds; discriminate).
        pose proof (removelast_length ds Hne) as Hrl.
        rewrite (app_removelast_last (0, 0) Hne) in Ealt. rewrite <- app_assoc in Ealt. rewrite alt_b_app in Ealt.
        apply andb_true_iff in Ealt. destruct Ealt as [Ea1 Ea2].
        rewrite (Hdec (removelast ds) (N.of_nat (Nat.pred (length ds))) rest Ea1).
        -- f_equal. f_equal. rewrite <- Hwalk. rewrite (app_removelast_last (0, 0) Hne) at 3. rewrite walk_app. f_equal.
           cbn [walk]. f_equal.
           set (lp := last (walk (0, 0) (removelast ds)) (0, 0)).
           set (dn := last ds (0, 0)) in *.
           cbn [app alt_b] in Ea2. rewrite andb_true_r in Ea2. apply andb_true_iff in Ea2. destruct Ea2 as [E1 E2].
           assert (Hlastrel : (fst lp + fst dn, snd lp + snd dn) = (fst (last t p0) - fst p0, snd (last t p0) - snd p0)).
           { rewrite <- last_rel. rewrite <- Hwalk. rewrite (app_removelast_last (0, 0) Hne) at 2. rewrite walk_app.
             cbn [walk]. rewrite last_last. reflexivity. }
           unfold closing_delta in E2. cbn [fst snd] in E2.
           rewrite flipn_negb. destruct (flipn (length (removelast ds)) (0 =? 1)%N); cbn [negb] in *.
           ++ apply Z.eqb_eq in E1, E2. injection Hlastrel as H1 H2. f_equal; lia.
           ++ apply Z.eqb_eq in E1, E2. injection Hlastrel as H1 H2. f_equal; lia.
        -- rewrite (app_removelast_last (0, 0) Hne) in Hfit. apply Forall_app in Hfit. apply Hfit.
        -- rewrite Hrl. reflexivity.
        -- unfold wf_u in *. lia.
      * destruct (alt_b (0 =? 1)%N ds) eqn:Ealt; [|discriminate]. injection Hsel as <-.
        rewrite (Hdec ds (N.of_nat (length ds)) rest Ealt Hfit eq_refl Hwn). rewrite Hwalk. reflexivity.
    + (* type 1 *)
      destruct closed.
      * destruct ds as [|d0 dt] eqn:Eds; [discriminate|]. rewrite <- Eds in *.
        destruct (alt_b (1 =? 1)%N (ds ++ [closing_delta p0 t])) eqn:Ealt; [|discriminate].
        injection Hsel as <-.
        assert (Hne : ds <> []) by (rewrite Eds; discriminate).
        pose proof (removelast_length ds Hne) as Hrl.
        rewrite (app_removelast_last (0, 0) Hne) in Ealt. rewrite <- app_assoc in Ealt. rewrite alt_b_app in Ealt.
        apply andb_true_iff in Ealt. destruct Ealt as [Ea1 Ea2].
        rewrite (Hdec (removelast ds) (N.of_nat (Nat.pred (length ds))) rest Ea1).
        -- f_equal. f_equal. rewrite <- Hwalk. rewrite (app_removelast_last (0, 0) Hne) at 3. rewrite walk_app. f_equal.
           cbn [walk]. f_equal.
           set (lp := last (walk (0, 0) (removelast ds)) (0, 0)).
           set (dn := last ds (0, 0)) in *.
           cbn [app alt_b] in Ea2. rewrite andb_true_r in Ea2. apply andb_true_iff in Ea2. destruct Ea2 as [E1 E2].
           assert (Hlastrel : (fst lp + fst dn, snd lp + snd dn) = (fst (last t p0) - fst p0, snd (last t p0) - snd p0)).
           { rewrite <- last_rel. rewrite <- Hwalk. rewrite (app_removelast_last (0, 0) Hne) at 2. rewrite walk_app.
             cbn [walk]. rewrite last_last. reflexivity. }
           unfold closing_delta in E2. cbn [fst snd] in E2.
           rewrite flipn_negb. destruct (flipn (length (removelast ds)) (1 =? 1)%N); cbn [negb] in *.
           ++ apply Z.eqb_eq in E1, E2. injection Hlastrel as H1 H2. f_equal; lia.
           ++ apply Z.eqb_eq in E1, E2. injection Hlastrel as H1 H2. f_equal; lia.
        -- rewrite (app_removelast_last (0, 0) Hne) in Hfit. apply Forall_app in Hfit. apply Hfit.
        -- rewrite Hrl. reflexivity.
        -- unfold wf_u in *. lia.
      * destruct (alt_b (1 =? 1)%N ds) eqn:Ealt; [|discriminate]. injection Hsel as <-.
        rewrite (Hdec ds (N.of_nat (length ds)) rest Ealt Hfit eq_refl Hwn). rewrite Hwalk. reflexivity.
  - (* Manhattan 2-deltas *)
    destruct (forallb manh_b ds) eqn:Hm; [|discriminate]. injection Hspec as <-. rewrite forallb_forall in Hm.
    unfold rd_plist. cbn [app]. rewrite rd_uint_small by lia. cbn [obnd]. rewrite <- app_assoc.
    rewrite rd_uint_enc by exact Hwn. cbn [obnd]. unfold emit_2.
    rewrite (rd_count_flat_map rd_2d (fun d => enc_2delta (fst d) (snd d)) ds).
    + cbn [obnd]. rewrite prefix_sums_walk, Hwalk. reflexivity.
    + reflexivity.
    + intros a r Ha. apply rd_2d_enc; [|apply Hm; assumption]. rewrite Forall_forall in Hfit. apply Hfit. exact Ha.
    + intros a Ha. apply enc_2delta_nonempty. apply Hm. assumption.
  - destruct (forallb oct_b ds) eqn:Hm; [|discriminate]. injection Hspec as <-. rewrite forallb_forall in Hm.
    unfold rd_plist. cbn [app]. rewrite rd_uint_small by lia. cbn [obnd]. rewrite <- app_assoc.
    rewrite rd_uint_enc by exact Hwn. cbn [obnd]. unfold emit_3.
    rewrite (rd_count_flat_map rd_3d (fun d => enc_3delta (fst d) (snd d)) ds).
    + cbn [obnd]. rewrite prefix_sums_walk, Hwalk. reflexivity.
    + reflexivity.
    + intros a r Ha. apply rd_3d_enc; [|apply Hm; assumption]. rewrite Forall_forall in Hfit. apply Hfit. exact Ha.
    + intros a Ha. apply enc_3delta_nonempty. apply Hm. assumption.
  - injection Hspec as <-.
    unfold rd_plist. cbn [app]. rewrite rd_uint_small by lia. cbn [obnd]. rewrite <- app_assoc.
    rewrite rd_uint_enc by exact Hwn. cbn [obnd]. unfold emit_g.
    rewrite (rd_count_flat_map rd_g wr_g ds).
    + cbn [obnd]. rewrite prefix_sums_walk, Hwalk. reflexivity.
    + reflexivity.
    + intros a r Ha. apply rd_g_enc. rewrite Forall_forall in Hfit. apply Hfit. exact Ha.
    + intros; apply wr_g_nonempty.
Qed.

(* the strict reader on the point list oasis_write_point_list writes *)
Lemma rd_plist_enc_point_list closed p0 t rest :
  Forall fits_pt (deltas_from p0 t) -> (N.of_nat (length t) < two64)%N ->
  rd_plist closed (enc_point_list closed (p0 :: t) ++ rest) = Some (rel_pts (p0 :: t), rest).
Proof.
  intros Hfit Hlen. destruct (enc_point_list_conforms_lemma closed p0 t) as (ty & Hty & Hspec & _).
  apply (rd_plist_spec_enc ty closed p0 t _ rest Hty Hspec Hfit Hlen).
Qed.
Local Close Scope Z_scope.
