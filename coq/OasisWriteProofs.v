(* Proofs about OasisWrite.v: every file the writer model produces for a well-formed library of the covered subset is
   accepted by the strict specification-level decoder (OasisSpec.v) and decodes to the layout the library denotes:
     oas_writer_conforms_lemma : wlib_ok l -> spec_oas_decode (write_oas_model cfg l) = Some (view_w cfg l). *)
Require Import Base Generated OasisInt OasisIntProofs GdsReal OasisReal OasisRealProofs OasisPlist OasisPlistProofs.
Require Import Table TableProofs PropList OasisSpec OasisSpecProofs OasisWrite.
From Coq Require Import Permutation.
From Flocq Require Import Core BinarySingleNaN Binary Bits.
Local Open Scope N_scope.

(* ================================================================== reals *)
Lemma enc_real_view bits : enc_real bits = wr_real (real_of_bits bits).
Proof.
  unfold enc_real, real_of_bits.
  destruct (int_magnitude_lt64 (b64_of_bits (Z.of_N bits))) as [v|].
  - cbn [wr_real]. destruct (b64_ge0 _); reflexivity.
  - destruct (int_magnitude_lt64 _) as [v|]; [|reflexivity].
    destruct (b64_eqb _ _); [|reflexivity].
    cbn [wr_real]. destruct (b64_ge0 _); reflexivity.
Qed.

Lemma wf_real_of_bits bits : wf_real (real_of_bits bits).
Proof.
  unfold real_of_bits.
  destruct (int_magnitude_lt64 (b64_of_bits (Z.of_N bits))) as [v|] eqn:E1.
  - cbn [wf_real]. destruct (int_magnitude_spec _ _ E1) as (_ & _ & Hv). unfold wf_u, two64. lia.
  - destruct (int_magnitude_lt64 (b64_div _ _ _)) as [v|] eqn:E2; [|apply bytes_le_length].
    destruct (b64_eqb _ _); [|apply bytes_le_length].
    cbn [wf_real]. destruct (int_magnitude_spec _ _ E2) as (_ & _ & Hv). unfold wf_u, two64. lia.
Qed.

Lemma rd_real_enc_real bits rest : rd_real (enc_real bits ++ rest) = Some (real_of_bits bits, rest).
Proof. rewrite enc_real_view. apply rd_real_enc. apply wf_real_of_bits. Qed.

(* ================================================================== repetitions *)
Definition zc (z : Z) : Prop := (- 2 ^ 62 < z < 2 ^ 62)%Z.          (* a coordinate whose differences fit an int64 *)
Definition ptc (p : pt) : Prop := zc (fst p) /\ zc (snd p).

Definition wrep_ok (r : wrep) : Prop :=
  match r with
  | WNone => True
  | WRect c rw sx sy => c < two64 /\ rw < two64 /\ fits63 sx /\ fits63 sy
  | WReg c rw v1 v2 => c < two64 /\ rw < two64 /\ wf_pt v1 /\ wf_pt v2
  | WExpl offs => N.of_nat (length offs) + 1 < two64 /\ Forall ptc offs
  | WExplX cs | WExplY cs => N.of_nat (length cs) + 1 < two64 /\ Forall (fun c => (0 <= c < 2 ^ 62)%Z) cs
  end.

Lemma two64_val : two64 = 18446744073709551616. Proof. reflexivity. Qed.
Lemma two63_val : Z.of_N OasisIntProofs.two63 = 9223372036854775808%Z. Proof. reflexivity. Qed.

Lemma usub_ge a b : b <= a -> a < two64 -> usub a b = a - b.
Proof.
  intros H1 H2. unfold usub. replace (a + two64 - b) with ((a - b) + 1 * two64) by lia.
  rewrite N.mod_add by (rewrite two64_val; lia). apply N.mod_small. lia.
Qed.
Lemma u64z_nonneg z : (0 <= z < 2 ^ 64)%Z -> u64z z = Z.to_N z.
Proof. intros H. unfold u64z. rewrite Z.mod_small by (change (2 ^ 64)%Z with 18446744073709551616%Z in H; lia). reflexivity. Qed.
Lemma fits63_u z : fits63 z -> (0 <= z)%Z -> (0 <= z < 2 ^ 64)%Z /\ wf_u (Z.to_N z).
Proof.
  unfold fits63, wf_u. rewrite two63_val, two64_val. intros H H0. split; [lia|]. lia.
Qed.

(* the sort *)
Fixpoint sorted_z (l : list Z) : Prop :=
  match l with
  | [] => True
  | x :: t => match t with [] => True | y :: _ => (x <= y)%Z end /\ sorted_z t
  end.
Lemma insert_z_sorted x l : sorted_z l -> sorted_z (insert_z x l).
Proof.
  induction l as [|y t IH]; intros H; [cbn; auto|].
  cbn [insert_z]. destruct (x <=? y)%Z eqn:E.
  - apply Z.leb_le in E. cbn [sorted_z]. cbn [sorted_z] in H. tauto.
  - apply Z.leb_gt in E. destruct H as [H1 H2]. specialize (IH H2).
    destruct t as [|z t']; cbn [insert_z sorted_z] in *.
    + split; [lia|auto].
    + destruct (x <=? z)%Z eqn:E2; cbn [sorted_z] in *.
      * apply Z.leb_le in E2. repeat split; try lia; tauto.
      * repeat split; try lia; tauto.
Qed.
Lemma sort_z_sorted l : sorted_z (sort_z l).
Proof. induction l as [|x t IH]; [exact I|]. cbn [sort_z]. apply insert_z_sorted. exact IH. Qed.
Lemma insert_z_Forall (P : Z -> Prop) x l : P x -> Forall P l -> Forall P (insert_z x l).
Proof.
  intros Hx H. induction H as [|y t Hy Ht IH]; cbn [insert_z]; [repeat constructor; assumption|].
  destruct (x <=? y)%Z; repeat constructor; assumption.
Qed.
Lemma sort_z_Forall (P : Z -> Prop) l : Forall P l -> Forall P (sort_z l).
Proof. induction 1 as [|x t Hx Ht IH]; [constructor|]. cbn [sort_z]. apply insert_z_Forall; assumption. Qed.
Lemma insert_z_length x l : length (insert_z x l) = S (length l).
Proof. induction l as [|y t IH]; [reflexivity|]. cbn [insert_z]. destruct (x <=? y)%Z; cbn [length]; [reflexivity|]. rewrite IH. reflexivity. Qed.
Lemma sort_z_length l : length (sort_z l) = length l.
Proof. induction l as [|x t IH]; [reflexivity|]. cbn [sort_z length]. rewrite insert_z_length, IH. reflexivity. Qed.

Lemma zdiffs_bounds B : forall l prev, (0 <= prev)%Z -> sorted_z (prev :: l) -> Forall (fun c => (0 <= c < B)%Z) l ->
  Forall (fun d => (0 <= d < B)%Z) (zdiffs prev l).
Proof.
  induction l as [|c t IH]; intros prev Hp Hs Hf; [constructor|].
  inversion Hf as [|? ? Hc Ht]; subst. cbn [zdiffs]. cbn [sorted_z] in Hs. destruct Hs as [H1 H2]. constructor; [lia|].
  apply IH; [lia|exact H2|exact Ht].
Qed.
Lemma zdiffs_length : forall l prev, length (zdiffs prev l) = length l.
Proof. induction l as [|c t IH]; intros prev; [reflexivity|]. cbn [zdiffs length]. rewrite IH. reflexivity. Qed.
Lemma ptdiffs_length : forall l prev, length (ptdiffs prev l) = length l.
Proof. induction l as [|c t IH]; intros prev; [reflexivity|]. cbn [ptdiffs length]. rewrite IH. reflexivity. Qed.
Lemma ptdiffs_wf : forall l prev, ptc prev -> Forall ptc l -> Forall wf_pt (ptdiffs prev l).
Proof.
  induction l as [|c t IH]; intros prev Hp Hf; [constructor|].
  inversion Hf as [|? ? Hc Ht]; subst. cbn [ptdiffs]. constructor; [|apply IH; assumption].
  destruct Hp as [P1 P2], Hc as [C1 C2]. unfold zc in *. unfold wf_pt, fits63. rewrite two63_val. cbn [fst snd].
  change (2 ^ 62)%Z with 4611686018427387904%Z in *. lia.
Qed.

Lemma flat_map_u64z l : Forall (fun d => (0 <= d < 2 ^ 64)%Z) l ->
  flat_map (fun d => enc_uint (u64z d)) l = flat_map enc_uint (map Z.to_N l).
Proof.
  induction 1 as [|d t Hd Ht IH]; [reflexivity|]. cbn [flat_map map]. rewrite u64z_nonneg by exact Hd. rewrite IH. reflexivity.
Qed.

Lemma has_rep_rect c rw : c < two64 -> rw < two64 -> 1 <? (c * rw) mod two64 = true ->
  ((1 <? c) = false -> c = 1 /\ 2 <= rw).
Proof.
  intros Hc Hr H Hc1. apply N.ltb_lt in H. apply N.ltb_ge in Hc1.
  assert (C : c = 0 \/ c = 1) by lia. destruct C as [-> | ->].
  - rewrite N.mul_0_l in H. rewrite N.mod_0_l in H by (rewrite two64_val; lia). lia.
  - rewrite N.mul_1_l in H. rewrite N.mod_small in H by exact Hr. split; [reflexivity|lia].
Qed.

(* coordinates of ExplicitX / ExplicitY written as they are meant *)
Lemma write_coords_view cs : cs <> [] -> N.of_nat (length cs) + 1 < two64 -> Forall (fun c => (0 <= c < 2 ^ 62)%Z) cs ->
  let l := map Z.to_N (zdiffs 0 (sort_z cs)) in
  write_coords cs = wr_list_after_count enc_uint None l /\ l <> [] /\ wf_u (N.of_nat (length l)) /\ Forall wf_u l.
Proof.
  intros Hne Hlen Hf. cbv zeta.
  pose proof (sort_z_sorted cs) as Hs. pose proof (sort_z_Forall _ cs Hf) as Hsf. pose proof (sort_z_length cs) as Hsl.
  unfold write_coords, wr_list_after_count.
  destruct (sort_z cs) as [|c0 t] eqn:E.
  - destruct cs; [congruence|discriminate].
  - cbn [zdiffs map]. inversion Hsf as [|? ? Hc0 Ht]; subst.
    assert (Hd : Forall (fun d => (0 <= d < 2 ^ 62)%Z) (zdiffs c0 t)) by (apply zdiffs_bounds; [lia|exact Hs|exact Ht]).
    assert (Hd64 : Forall (fun d => (0 <= d < 2 ^ 64)%Z) (zdiffs c0 t)).
    { eapply Forall_impl; [|exact Hd]. cbv beta. intros a Ha. change (2 ^ 62)%Z with 4611686018427387904%Z in Ha.
      change (2 ^ 64)%Z with 18446744073709551616%Z. lia. }
    split; [|split; [discriminate|split]].
    + cbn [length flat_map app]. rewrite map_length, zdiffs_length. cbn [length] in Hsl. rewrite <- Hsl.
      rewrite Z.sub_0_r. rewrite u64z_nonneg by (change (2 ^ 62)%Z with 4611686018427387904%Z in Hc0;
        change (2 ^ 64)%Z with 18446744073709551616%Z; lia).
      rewrite flat_map_u64z by exact Hd64. reflexivity.
    + cbn [length]. rewrite map_length, zdiffs_length. cbn [length] in Hsl. rewrite Hsl. unfold wf_u. lia.
    + constructor.
      * rewrite Z.sub_0_r. unfold wf_u. rewrite two64_val. change (2 ^ 62)%Z with 4611686018427387904%Z in Hc0. lia.
      * apply Forall_forall. intros x Hx. apply in_map_iff in Hx. destruct Hx as (d & <- & Hin).
        rewrite Forall_forall in Hd. specialize (Hd d Hin). cbv beta in Hd. unfold wf_u. rewrite two64_val.
        change (2 ^ 62)%Z with 4611686018427387904%Z in Hd. lia.
Qed.

Lemma write_repetition_view r : wrep_ok r -> has_rep r = true ->
  write_repetition r = wr_rep (view_rep_body r) /\ wf_rep (view_rep_body r).
Proof.
  intros Hok Hh. unfold has_rep in Hh.
  destruct r as [|c rw sx sy|c rw v1 v2|offs|cs|cs]; cbn [rep_count wrep_ok] in *.
  - discriminate.
  - destruct Hok as (Hc & Hr & Hx & Hy). cbn [write_repetition view_rep_body].
    pose proof (has_rep_rect c rw Hc Hr Hh) as Hone.
    destruct (1 <? c) eqn:Ec; cbn [andb].
    + apply N.ltb_lt in Ec. rewrite (usub_ge c 2) by (lia || assumption).
      destruct (1 <? rw) eqn:Er.
      * apply N.ltb_lt in Er. rewrite (usub_ge rw 2) by (lia || assumption).
        destruct (0 <=? sx)%Z eqn:Ex; cbn [andb]; [destruct (0 <=? sy)%Z eqn:Ey|].
        -- apply Z.leb_le in Ex, Ey. destruct (fits63_u sx Hx Ex) as [Bx Wx]. destruct (fits63_u sy Hy Ey) as [By Wy].
           rewrite !u64z_nonneg by assumption. split; [reflexivity|]. cbn [wf_rep]. unfold wf_u in *. repeat split; lia || assumption.
        -- split; [reflexivity|]. cbn [wf_rep]. unfold wf_u, wf_pt, fits63 in *. rewrite two63_val in *. cbn [fst snd]. repeat split; lia.
        -- split; [reflexivity|]. cbn [wf_rep]. unfold wf_u, wf_pt, fits63 in *. rewrite two63_val in *. cbn [fst snd]. repeat split; lia.
      * destruct (0 <=? sx)%Z eqn:Ex.
        -- apply Z.leb_le in Ex. destruct (fits63_u sx Hx Ex) as [Bx Wx]. rewrite u64z_nonneg by assumption.
           split; [reflexivity|]. cbn [wf_rep]. unfold wf_u in *. split; lia || assumption.
        -- split; [reflexivity|]. cbn [wf_rep]. unfold wf_u, wf_pt, fits63 in *. rewrite two63_val in *. cbn [fst snd]. repeat split; lia.
    + destruct (Hone eq_refl) as [-> Hrw]. rewrite (usub_ge rw 2) by (lia || assumption).
      destruct (0 <=? sy)%Z eqn:Ey.
      * apply Z.leb_le in Ey. destruct (fits63_u sy Hy Ey) as [By Wy]. rewrite u64z_nonneg by assumption.
        split; [reflexivity|]. cbn [wf_rep]. unfold wf_u in *. split; lia || assumption.
      * split; [reflexivity|]. cbn [wf_rep]. unfold wf_u, wf_pt, fits63 in *. rewrite two63_val in *. cbn [fst snd]. repeat split; lia.
  - destruct Hok as (Hc & Hr & H1 & H2). cbn [write_repetition view_rep_body].
    pose proof (has_rep_rect c rw Hc Hr Hh) as Hone.
    destruct (1 <? c) eqn:Ec; cbn [andb].
    + apply N.ltb_lt in Ec. rewrite (usub_ge c 2) by (lia || assumption).
      destruct (1 <? rw) eqn:Er.
      * apply N.ltb_lt in Er. rewrite (usub_ge rw 2) by (lia || assumption).
        split; [reflexivity|]. cbn [wf_rep]. unfold wf_u. repeat (split; [lia || assumption|]); lia || assumption.
      * split; [reflexivity|]. cbn [wf_rep]. unfold wf_u. repeat (split; [lia || assumption|]); lia || assumption.
    + destruct (Hone eq_refl) as [-> Hrw]. rewrite (usub_ge rw 2) by (lia || assumption).
      split; [reflexivity|]. cbn [wf_rep]. unfold wf_u. repeat (split; [lia || assumption|]); lia || assumption.
  - destruct Hok as (Hlen & Hf). cbn [write_repetition view_rep_body].
    destruct offs as [|v0 t].
    + cbn [length] in Hh. vm_compute in Hh. discriminate.
    + inversion Hf as [|? ? H0 Ht]; subst. cbn [ptdiffs wr_rep]. unfold wr_list_after_count. cbn [length flat_map app].
      rewrite ptdiffs_length. rewrite !Z.sub_0_r. split; [reflexivity|]. cbn [wf_rep wf_grid].
      split; [exact I|]. split; [discriminate|]. split.
      * cbn [length]. rewrite ptdiffs_length. unfold wf_u. cbn [length] in Hlen. lia.
      * constructor; [|apply ptdiffs_wf; assumption].
        destruct H0 as [A B]. unfold zc in *. unfold wf_pt, fits63. rewrite two63_val. cbn [fst snd].
        change (2 ^ 62)%Z with 4611686018427387904%Z in *. lia.
  - destruct Hok as (Hlen & Hf). cbn [write_repetition view_rep_body].
    assert (Hne : cs <> []) by (intros ->; vm_compute in Hh; discriminate).
    destruct (write_coords_view cs Hne Hlen Hf) as (E & L1 & L2 & L3).
    destruct cs as [|c0 t]; [congruence|]. rewrite E. split; [reflexivity|]. cbn [wf_rep wf_grid]. tauto.
  - destruct Hok as (Hlen & Hf). cbn [write_repetition view_rep_body].
    assert (Hne : cs <> []) by (intros ->; vm_compute in Hh; discriminate).
    destruct (write_coords_view cs Hne Hlen Hf) as (E & L1 & L2 & L3).
    destruct cs as [|c0 t]; [congruence|]. rewrite E. split; [reflexivity|]. cbn [wf_rep wf_grid]. tauto.
Qed.

(* the repetition field of a record, as the decoder reads it *)
Lemma rep_field_dec r mr rest : wrep_ok r ->
  rep_fld (has_rep r) mr (rep_field r ++ rest) = Some (view_rep r, new_rep mr (view_rep r), rest).
Proof.
  intros Hok. unfold rep_field, view_rep, rep_fld. destruct (has_rep r) eqn:Hh; [|reflexivity].
  destruct (write_repetition_view r Hok Hh) as [E W]. rewrite E. rewrite rd_rep_enc by exact W. reflexivity.
Qed.

(* ================================================================== point lists: the strict reader on oasis_write_point_list *)
Local Open Scope Z_scope.
Lemma prefix_sums_walk ds : forall acc, prefix_sums_pt acc ds = walk acc ds.
Proof. induction ds as [|d t IH]; intros acc; [reflexivity|]. cbn [prefix_sums_pt walk]. unfold padd. rewrite IH. reflexivity. Qed.

Lemma walk_rel tl : forall p0 acc,
  walk acc (deltas_from p0 tl) = map (fun q => (fst q - fst p0 + fst acc, snd q - snd p0 + snd acc)) tl.
Proof.
  induction tl as [|a t IH]; intros p0 acc; [reflexivity|].
  cbn [deltas_from walk map fst snd]. rewrite IH. cbn [fst snd]. f_equal.
  - f_equal; lia.
  - apply map_ext. intros q. f_equal; lia.
Qed.
Lemma walk_rel0 p0 t : walk (0, 0) (deltas_from p0 t) = rel_pts (p0 :: t).
Proof.
  rewrite walk_rel. unfold rel_pts, first_pt. cbn [hd tl fst snd]. apply map_ext. intros q. f_equal; lia.
Qed.

Fixpoint alt_vals (f : bool) (ds : list pt) : list Z :=
  match ds with [] => [] | d :: t => (if f then snd d else fst d) :: alt_vals (negb f) t end.
Lemma emit_alt_vals ds : forall f, emit_alt f ds = flat_map enc_int (alt_vals f ds).
Proof. induction ds as [|d t IH]; intros f; [reflexivity|]. cbn [emit_alt alt_vals flat_map]. rewrite IH. reflexivity. Qed.
Lemma alt_vals_length ds : forall f, length (alt_vals f ds) = length ds.
Proof. induction ds as [|d t IH]; intros f; [reflexivity|]. cbn [alt_vals length]. rewrite IH. reflexivity. Qed.
Lemma alt_vals_fits ds : forall f, Forall fits_pt ds -> Forall fits63 (alt_vals f ds).
Proof.
  induction ds as [|d t IH]; intros f H; [constructor|]. inversion H as [|? ? [H1 H2] Ht]; subst.
  cbn [alt_vals]. constructor; [destruct f; assumption|apply IH; exact Ht].
Qed.

Lemma manh_accum_alt ds : forall f p, alt_b f ds = true ->
  manh_accum (negb f) p (alt_vals f ds) = (walk p ds, last (walk p ds) p, flipn (length ds) (negb f)).
Proof.
  induction ds as [|d t IH]; intros f p H; [reflexivity|].
  cbn [alt_b] in H. apply andb_true_iff in H. destruct H as [H1 H2].
  cbn [alt_vals manh_accum walk length flipn].
  set (q := (fst p + fst d, snd p + snd d)).
  assert (Eq : (if negb f then (fst p + (if f then snd d else fst d), snd p)
                else (fst p, snd p + (if f then snd d else fst d))) = q).
  { subst q. destruct f; cbn [negb]; apply Z.eqb_eq in H1; rewrite H1; f_equal; lia. }
  rewrite Eq. rewrite (IH (negb f) q H2). rewrite last_cons_default. reflexivity.
Qed.

Lemma rd_count_ints vals n rest : n = N.of_nat (length vals) -> Forall fits63 vals ->
  rd_count rd_int n (flat_map enc_int vals ++ rest) = Some (vals, rest).
Proof.
  intros Hn Hf. apply rd_count_flat_map; [exact Hn| |].
  - intros a r Ha. apply rd_int_enc. rewrite Forall_forall in Hf. apply Hf. exact Ha.
  - intros a _. apply enc_int_nonempty.
Qed.

Lemma manh_b_is_manh d : manh_b d = is_manh d. Proof. reflexivity. Qed.
Lemma oct_b_is_oct d : oct_b d = is_oct d. Proof. reflexivity. Qed.

Lemma removelast_length {A} (l : list A) : l <> [] -> length l = S (length (removelast l)).
Proof.
  induction l as [|a t IH]; intros H; [congruence|].
  destruct t as [|b t']; [reflexivity|]. change (removelast (a :: b :: t')) with (a :: removelast (b :: t')).
  cbn [length] in *. rewrite IH by discriminate. reflexivity.
Qed.

Lemma last_map {A B} (g : A -> B) (l : list A) : forall d, last (map g l) (g d) = g (last l d).
Proof.
  induction l as [|a t IH]; intros d; [reflexivity|].
  cbn [map]. rewrite !last_cons_default. apply IH.
Qed.
Lemma last_rel p0 t : last (rel_pts (p0 :: t)) (0, 0) = (fst (last t p0) - fst p0, snd (last t p0) - snd p0).
Proof.
  unfold rel_pts, first_pt. cbn [hd tl].
  set (g := fun q : Z * Z => (fst q - fst p0, snd q - snd p0)).
  assert (E0 : (0, 0) = g p0) by (unfold g; f_equal; lia).
  rewrite E0. exact (last_map g t p0).
Qed.

Lemma rd_plist_spec_enc ty closed p0 t bs rest :
  (ty < 5)%N -> spec_enc_plist ty closed (p0 :: t) = Some bs ->
  Forall fits_pt (deltas_from p0 t) -> (N.of_nat (length t) < two64)%N ->
  rd_plist closed (bs ++ rest) = Some (rel_pts (p0 :: t), rest).
Proof.
  intros Hty Hspec Hfit Hlen. unfold spec_enc_plist in Hspec.
  set (ds := deltas_from p0 t) in *.
  assert (Hdl : length ds = length t) by apply deltas_from_length.
  assert (Hwn : wf_u (N.of_nat (length ds))) by (rewrite Hdl; exact Hlen).
  assert (Hwalk : walk (0, 0) ds = rel_pts (p0 :: t)) by apply walk_rel0.
  assert (Hcase : ((ty = 0 \/ ty = 1) \/ ty = 2 \/ ty = 3 \/ ty = 4)%N) by lia.
  destruct Hcase as [H01|[H2|[H3|H4]]]; [|subst ty|subst ty|subst ty].
  - (* implicit Manhattan *)
    assert (Hf0 : (ty =? 0)%N = negb (ty =? 1)%N) by (destruct H01 as [-> | ->]; reflexivity).
    assert (Hsm : (ty < 128)%N) by lia.
    assert (Hdec : forall dsw n k,
              alt_b (ty =? 1)%N dsw = true -> Forall fits_pt dsw -> n = N.of_nat (length dsw) -> wf_u n ->
              rd_plist closed ((ty :: enc_uint n ++ emit_alt (ty =? 1)%N dsw) ++ k) =
              Some (if closed
                    then walk (0, 0) dsw ++
                         [if flipn (length dsw) (negb (ty =? 1)%N) then (0, snd (last (walk (0, 0) dsw) (0, 0)))
                          else (fst (last (walk (0, 0) dsw) (0, 0)), 0)]
                    else walk (0, 0) dsw, k)).
    { intros dsw n k Ha Hfw Hn Hwf. unfold rd_plist. cbn [app]. rewrite rd_uint_small by exact Hsm. cbn [obnd].
      rewrite <- app_assoc. rewrite rd_uint_enc by exact Hwf. cbn [obnd].
      rewrite emit_alt_vals.
      assert (E : (let? '(dsr, bsr) := rd_count rd_int n (flat_map enc_int (alt_vals (ty =? 1)%N dsw) ++ k) in
                   let '(l, lst, h) := manh_accum (ty =? 0)%N (0, 0) dsr in
                   Some (if closed then l ++ [if h then (0, snd lst) else (fst lst, 0)] else l, bsr)) =
                  Some (if closed
                        then walk (0, 0) dsw ++
                             [if flipn (length dsw) (negb (ty =? 1)%N) then (0, snd (last (walk (0, 0) dsw) (0, 0)))
                              else (fst (last (walk (0, 0) dsw) (0, 0)), 0)]
                        else walk (0, 0) dsw, k)).
      { rewrite rd_count_ints; [|rewrite alt_vals_length; exact Hn|apply alt_vals_fits; exact Hfw].
        cbn [obnd]. rewrite Hf0. rewrite manh_accum_alt by exact Ha. reflexivity. }
      destruct H01 as [-> | ->]; exact E. }
    assert (Hsel : (match ty with 0%N | 1%N =>
                      if closed
                      then match ds with
                           | [] => None
                           | _ :: _ => if alt_b (ty =? 1)%N (ds ++ [closing_delta p0 t])
                                       then Some (ty :: enc_uint (N.of_nat (Nat.pred (length ds))) ++ emit_alt (ty =? 1)%N (removelast ds))
                                       else None
                           end
                      else if alt_b (ty =? 1)%N ds then Some (ty :: enc_uint (N.of_nat (length ds)) ++ emit_alt (ty =? 1)%N ds) else None
                    | _ => None end) = Some bs).
    { destruct H01 as [-> | ->]; exact Hspec. }
    clear Hspec. assert (Hty01 : match ty with 0%N | 1%N => True | _ => False end) by (destruct H01 as [-> | ->]; exact I).
    destruct ty as [|[p|p|]]; try contradiction.
    + (* type 0 *)
      change (0 =? 1)%N with false in *.
      destruct closed.
      * destruct ds as [|d0 dt] eqn:Eds; [discriminate|]. rewrite <- Eds in *.
        destruct (alt_b false (ds ++ [closing_delta p0 t])) eqn:Ealt; [|discriminate].
        injection Hsel as <-.
        assert (Hne : ds <> []) by (rewrite Eds; discriminate).
        pose proof (removelast_length ds Hne) as Hrl.
        rewrite (app_removelast_last (0, 0) Hne) in Ealt. rewrite <- app_assoc in Ealt. rewrite alt_b_app in Ealt.
        apply andb_true_iff in Ealt. destruct Ealt as [Ea1 Ea2].
        rewrite (Hdec (removelast ds) (N.of_nat (Nat.pred (length ds))) rest Ea1).
        -- set (lp := last (walk (0, 0) (removelast ds)) (0, 0)).
           set (dn := last ds (0, 0)) in *.
           assert (Hds : walk (0, 0) ds = walk (0, 0) (removelast ds) ++ [(fst lp + fst dn, snd lp + snd dn)]).
           { transitivity (walk (0, 0) (removelast ds ++ [dn])).
             - f_equal. apply (app_removelast_last (0, 0) Hne).
             - rewrite walk_app. reflexivity. }
           f_equal. f_equal. rewrite <- Hwalk, Hds. f_equal. f_equal.
           cbn [app alt_b] in Ea2. rewrite andb_true_r in Ea2. apply andb_true_iff in Ea2. destruct Ea2 as [E1 E2].
           assert (Hlastrel : (fst lp + fst dn, snd lp + snd dn) = (fst (last t p0) - fst p0, snd (last t p0) - snd p0)).
           { transitivity (last (walk (0, 0) ds) (0, 0)).
             - rewrite Hds. rewrite last_last. reflexivity.
             - rewrite Hwalk. apply last_rel. }
           unfold closing_delta in E2. cbn [fst snd] in E2.
           rewrite flipn_negb. destruct (flipn (length (removelast ds)) false); cbn [negb] in *.
           ++ apply Z.eqb_eq in E1, E2. injection Hlastrel as H1 H2.
              assert (Ep : (fst lp, 0%Z) = ((fst lp + fst dn)%Z, (snd lp + snd dn)%Z)) by (f_equal; lia).
              rewrite Ep. reflexivity.
           ++ apply Z.eqb_eq in E1, E2. injection Hlastrel as H1 H2.
              assert (Ep : (0%Z, snd lp) = ((fst lp + fst dn)%Z, (snd lp + snd dn)%Z)) by (f_equal; lia).
              rewrite Ep. reflexivity.
        -- rewrite (app_removelast_last (0, 0) Hne) in Hfit. apply Forall_app in Hfit. apply Hfit.
        -- rewrite Hrl. reflexivity.
        -- unfold wf_u in *. lia.
      * destruct (alt_b false ds) eqn:Ealt; [|discriminate]. injection Hsel as <-.
        rewrite (Hdec ds (N.of_nat (length ds)) rest Ealt Hfit eq_refl Hwn). rewrite Hwalk. reflexivity.
    + (* type 1 *)
      change (1 =? 1)%N with true in *.
      destruct closed.
      * destruct ds as [|d0 dt] eqn:Eds; [discriminate|]. rewrite <- Eds in *.
        destruct (alt_b true (ds ++ [closing_delta p0 t])) eqn:Ealt; [|discriminate].
        injection Hsel as <-.
        assert (Hne : ds <> []) by (rewrite Eds; discriminate).
        pose proof (removelast_length ds Hne) as Hrl.
        rewrite (app_removelast_last (0, 0) Hne) in Ealt. rewrite <- app_assoc in Ealt. rewrite alt_b_app in Ealt.
        apply andb_true_iff in Ealt. destruct Ealt as [Ea1 Ea2].
        rewrite (Hdec (removelast ds) (N.of_nat (Nat.pred (length ds))) rest Ea1).
        -- set (lp := last (walk (0, 0) (removelast ds)) (0, 0)).
           set (dn := last ds (0, 0)) in *.
           assert (Hds : walk (0, 0) ds = walk (0, 0) (removelast ds) ++ [(fst lp + fst dn, snd lp + snd dn)]).
           { transitivity (walk (0, 0) (removelast ds ++ [dn])).
             - f_equal. apply (app_removelast_last (0, 0) Hne).
             - rewrite walk_app. reflexivity. }
           f_equal. f_equal. rewrite <- Hwalk, Hds. f_equal. f_equal.
           cbn [app alt_b] in Ea2. rewrite andb_true_r in Ea2. apply andb_true_iff in Ea2. destruct Ea2 as [E1 E2].
           assert (Hlastrel : (fst lp + fst dn, snd lp + snd dn) = (fst (last t p0) - fst p0, snd (last t p0) - snd p0)).
           { transitivity (last (walk (0, 0) ds) (0, 0)).
             - rewrite Hds. rewrite last_last. reflexivity.
             - rewrite Hwalk. apply last_rel. }
           unfold closing_delta in E2. cbn [fst snd] in E2.
           rewrite flipn_negb. destruct (flipn (length (removelast ds)) true); cbn [negb] in *.
           ++ apply Z.eqb_eq in E1, E2. injection Hlastrel as H1 H2.
              assert (Ep : (fst lp, 0%Z) = ((fst lp + fst dn)%Z, (snd lp + snd dn)%Z)) by (f_equal; lia).
              rewrite Ep. reflexivity.
           ++ apply Z.eqb_eq in E1, E2. injection Hlastrel as H1 H2.
              assert (Ep : (0%Z, snd lp) = ((fst lp + fst dn)%Z, (snd lp + snd dn)%Z)) by (f_equal; lia).
              rewrite Ep. reflexivity.
        -- rewrite (app_removelast_last (0, 0) Hne) in Hfit. apply Forall_app in Hfit. apply Hfit.
        -- rewrite Hrl. reflexivity.
        -- unfold wf_u in *. lia.
      * destruct (alt_b true ds) eqn:Ealt; [|discriminate]. injection Hsel as <-.
        rewrite (Hdec ds (N.of_nat (length ds)) rest Ealt Hfit eq_refl Hwn). rewrite Hwalk. reflexivity.
  - (* Manhattan 2-deltas *)
    destruct (forallb manh_b ds) eqn:Hm; [|discriminate]. injection Hspec as <-. rewrite forallb_forall in Hm.
    unfold rd_plist. cbn [app]. rewrite rd_uint_small by lia. cbn [obnd]. rewrite <- app_assoc.
    rewrite rd_uint_enc by exact Hwn. cbn [obnd]. unfold emit_2.
    rewrite (rd_count_flat_map rd_2d (fun d => enc_2delta (fst d) (snd d)) ds).
    + cbn [obnd]. rewrite prefix_sums_walk, Hwalk. reflexivity.
    + reflexivity.
    + intros a r Ha. apply rd_2d_enc; [|apply Hm; assumption]. rewrite Forall_forall in Hfit. apply Hfit. exact Ha.
    + intros a Ha. apply enc_2delta_nonempty. apply Hm. assumption.
  - destruct (forallb oct_b ds) eqn:Hm; [|discriminate]. injection Hspec as <-. rewrite forallb_forall in Hm.
    unfold rd_plist. cbn [app]. rewrite rd_uint_small by lia. cbn [obnd]. rewrite <- app_assoc.
    rewrite rd_uint_enc by exact Hwn. cbn [obnd]. unfold emit_3.
    rewrite (rd_count_flat_map rd_3d (fun d => enc_3delta (fst d) (snd d)) ds).
    + cbn [obnd]. rewrite prefix_sums_walk, Hwalk. reflexivity.
    + reflexivity.
    + intros a r Ha. apply rd_3d_enc; [|apply Hm; assumption]. rewrite Forall_forall in Hfit. apply Hfit. exact Ha.
    + intros a Ha. apply enc_3delta_nonempty. apply Hm. assumption.
  - injection Hspec as <-.
    unfold rd_plist. cbn [app]. rewrite rd_uint_small by lia. cbn [obnd]. rewrite <- app_assoc.
    rewrite rd_uint_enc by exact Hwn. cbn [obnd]. unfold emit_g.
    rewrite (rd_count_flat_map rd_g wr_g ds).
    + cbn [obnd]. rewrite prefix_sums_walk, Hwalk. reflexivity.
    + reflexivity.
    + intros a r Ha. apply rd_g_enc. rewrite Forall_forall in Hfit. apply Hfit. exact Ha.
    + intros; apply wr_g_nonempty.
Qed.

(* the strict reader on the point list oasis_write_point_list writes *)
Lemma rd_plist_enc_point_list closed p0 t rest :
  Forall fits_pt (deltas_from p0 t) -> (N.of_nat (length t) < two64)%N ->
  rd_plist closed (enc_point_list closed (p0 :: t) ++ rest) = Some (rel_pts (p0 :: t), rest).
Proof.
  intros Hfit Hlen. destruct (enc_point_list_conforms_lemma closed p0 t) as (ty & Hty & Hspec & _).
  apply (rd_plist_spec_enc ty closed p0 t _ rest Hty Hspec Hfit Hlen).
Qed.
Local Close Scope Z_scope.

(* ================================================================== PROPERTY records *)
(* the record properties_to_oas writes is a function of what it denotes *)
Definition enc_pval_g (v : pval) : list N :=
  match v with
  | PV_real r => wr_real r
  | PV_uint n => 8 :: enc_uint n
  | PV_int z => 9 :: enc_int z
  | PV_str k s => k :: wr_string s          (* never produced by the writer *)
  | PV_ref k n => k :: enc_uint n
  end.
Definition enc_prop_g (p : prop) : list N :=
  let value_count := N.of_nat (length (p_vals p)) in
  28 :: (6 + (if p_std p then 1 else 0) + (if 14 <? value_count then 240 else 16 * value_count)) ::
  wr_nref (p_name p) ++ (if 14 <? value_count then enc_uint value_count else []) ++ flat_map enc_pval_g (p_vals p).

Lemma value_to_oas_enc pv v :
  fst (fst (value_to_oas pv v)) = enc_pval_g (snd (fst (value_to_oas pv v))).
Proof. destruct v; cbn [value_to_oas fst snd enc_pval_g]; [reflexivity|reflexivity|apply enc_real_view|reflexivity]. Qed.
Lemma values_to_oas_enc vs : forall pv,
  fst (fst (values_to_oas pv vs)) = flat_map enc_pval_g (snd (fst (values_to_oas pv vs))) /\
  length (snd (fst (values_to_oas pv vs))) = length vs.
Proof.
  induction vs as [|v t IH]; intros pv; [split; reflexivity|].
  cbn [values_to_oas]. pose proof (value_to_oas_enc pv v) as E1.
  destruct (value_to_oas pv v) as [[b1 d1] pv1]. destruct (IH pv1) as [E2 L2].
  destruct (values_to_oas pv1 t) as [[b2 d2] pv2]. cbn [fst snd] in *. cbn [flat_map length]. rewrite E1, E2, L2. split; reflexivity.
Qed.
Lemma property_to_oas_enc st p :
  fst (fst (property_to_oas st p)) = enc_prop_g (snd (fst (property_to_oas st p))).
Proof.
  unfold property_to_oas. destruct (intern (ps_names st) (fst p)) as [index nm].
  destruct (values_to_oas_enc (snd p) (ps_vals st)) as [E L].
  destruct (values_to_oas (ps_vals st) (snd p)) as [[vb vd] pv]. cbn [fst snd] in *.
  unfold enc_prop_g. cbn [p_vals p_std p_name wr_nref]. rewrite L, E. reflexivity.
Qed.
Lemma properties_to_oas_enc ps : forall st,
  fst (fst (properties_to_oas st ps)) = map enc_prop_g (snd (fst (properties_to_oas st ps))).
Proof.
  induction ps as [|p t IH]; intros st; [reflexivity|].
  cbn [properties_to_oas]. pose proof (property_to_oas_enc st p) as E1.
  destruct (property_to_oas st p) as [[r1 d1] st1]. specialize (IH st1).
  destruct (properties_to_oas st1 t) as [[r2 d2] st2]. cbn [fst snd map] in *. rewrite E1, IH. reflexivity.
Qed.

(* well-formed numbered properties *)
Definition wf_pval (v : pval) : Prop :=
  match v with
  | PV_real r => wf_real r
  | PV_uint n => wf_u n
  | PV_int z => fits63 z
  | PV_str _ _ => False
  | PV_ref k n => (k = 13 \/ k = 14 \/ k = 15) /\ wf_u n
  end.
Definition wf_nprop (p : prop) : Prop :=
  (exists i, p_name p = NNum i /\ wf_u i) /\ wf_u (N.of_nat (length (p_vals p))) /\ Forall wf_pval (p_vals p).

Lemma enc_pval_g_nonempty v : enc_pval_g v <> [].
Proof. destruct v as [r| | | |]; cbn [enc_pval_g]; try discriminate. destruct r as [[|] ?|[|] ?|[|] ? ?|?|?]; discriminate. Qed.

Lemma rd_pval_enc v rest : wf_pval v -> rd_pval (enc_pval_g v ++ rest) = Some (v, rest).
Proof.
  intros H. unfold rd_pval. destruct v as [r|n|z|k s|k n]; cbn [enc_pval_g wf_pval] in *.
  - destruct r as [s n|s n|s a b|b|b]; cbn [wr_real app wf_real] in *.
    + destruct s; rewrite rd_uint_small by lia; cbn [obnd N.ltb N.compare Pos.compare Pos.compare_cont rd_real_by];
        rewrite rd_uint_enc by exact H; reflexivity.
    + destruct s; rewrite rd_uint_small by lia; cbn [obnd N.ltb N.compare Pos.compare Pos.compare_cont rd_real_by];
        rewrite rd_uint_enc by exact H; reflexivity.
    + destruct H as [Ha Hb]. destruct s; rewrite rd_uint_small by lia;
        cbn [obnd N.ltb N.compare Pos.compare Pos.compare_cont rd_real_by]; rewrite <- app_assoc;
        rewrite rd_uint_enc by exact Ha; cbn [obnd]; rewrite rd_uint_enc by exact Hb; reflexivity.
    + rewrite rd_uint_small by lia. cbn [obnd N.ltb N.compare Pos.compare Pos.compare_cont rd_real_by].
      rewrite <- H. rewrite take_n_app. reflexivity.
    + rewrite rd_uint_small by lia. cbn [obnd N.ltb N.compare Pos.compare Pos.compare_cont rd_real_by].
      rewrite <- H. rewrite take_n_app. reflexivity.
  - cbn [app]. rewrite rd_uint_small by lia. cbn [obnd N.ltb N.compare Pos.compare Pos.compare_cont].
    rewrite rd_uint_enc by exact H. reflexivity.
  - cbn [app]. rewrite rd_uint_small by lia. cbn [obnd N.ltb N.compare Pos.compare Pos.compare_cont].
    rewrite rd_int_enc by exact H. reflexivity.
  - contradiction.
  - destruct H as [Hk Hn]. cbn [app].
    destruct Hk as [-> | [-> | ->]]; rewrite rd_uint_small by lia; cbn [obnd N.ltb N.compare Pos.compare Pos.compare_cont];
      rewrite rd_uint_enc by exact Hn; reflexivity.
Qed.

Definition pmodal (m : modal) (p : prop) : modal :=
  mkM (m_abs m) (m_rep m) (m_g m) (m_t m) (m_p m) (Some (p_name p, p_std p)) (Some (p_vals p)).

Lemma info_prop_bits std c : c <= 14 \/ c = 15 ->
  let info := 6 + (if std : bool then 1 else 0) + 16 * c in
  bit info 0 = std /\ bit info 1 = true /\ bit info 2 = true /\ bit info 3 = false /\ N.shiftr info 4 = c.
Proof.
  intros H. assert (E : c = 0 \/ c = 1 \/ c = 2 \/ c = 3 \/ c = 4 \/ c = 5 \/ c = 6 \/ c = 7 \/ c = 8 \/ c = 9 \/ c = 10 \/
                        c = 11 \/ c = 12 \/ c = 13 \/ c = 14 \/ c = 15) by lia.
  destruct std; repeat (destruct E as [-> | E]; [vm_compute; repeat split; reflexivity|]); subst c; vm_compute; repeat split; reflexivity.
Qed.

Lemma dec_property_enc m p rest : wf_nprop p ->
  match enc_prop_g p with
  | code :: body => code = 28 /\ dec_property 28 m (body ++ rest) = Some (p, pmodal m p, rest)
  | [] => False
  end.
Proof.
  intros ((i & Hn & Hi) & Hc & Hv). unfold enc_prop_g. split; [reflexivity|].
  destruct p as [nm std vals]. cbn [p_name p_std p_vals] in *. subst nm. cbn [wr_nref].
  set (c := N.of_nat (length vals)) in *.
  unfold dec_property. change (28 =? 29) with false. cbv iota.
  assert (Hvals : forall k, rd_count rd_pval c (flat_map enc_pval_g vals ++ k) = Some (vals, k)).
  { intros k. apply rd_count_flat_map; [reflexivity| |].
    - intros a r Ha. apply rd_pval_enc. rewrite Forall_forall in Hv. apply Hv. exact Ha.
    - intros a _. apply enc_pval_g_nonempty. }
  destruct (14 <? c) eqn:E14.
  - apply N.ltb_lt in E14.
    destruct (info_prop_bits std 15 (or_intror eq_refl)) as (B0 & B1 & B2 & B3 & B4).
    cbv zeta in B0, B1, B2, B3, B4. change (16 * 15) with 240 in *.
    cbn [app rd_byte obnd]. rewrite B0, B1, B2, B3, B4. cbn [rd_nref].
    rewrite <- !app_assoc. rewrite rd_uint_enc by exact Hi. cbn [obnd fst snd].
    change (0 <? 15) with true. change (15 =? 15) with true. cbv iota.
    rewrite rd_uint_enc by exact Hc. cbn [obnd]. rewrite Hvals. reflexivity.
  - apply N.ltb_ge in E14.
    destruct (info_prop_bits std c (or_introl E14)) as (B0 & B1 & B2 & B3 & B4).
    cbv zeta in B0, B1, B2, B3, B4.
    cbn [app rd_byte obnd]. rewrite B0, B1, B2, B3, B4. cbn [rd_nref].
    rewrite <- !app_assoc. rewrite rd_uint_enc by exact Hi. cbn [obnd fst snd app].
    replace (c =? 15) with false by (symmetry; apply N.eqb_neq; lia). cbv iota. cbn [obnd].
    rewrite Hvals. reflexivity.
Qed.

(* ================================================================== the decoder state without the modal variables *)
Record core := mkC {
  k_unit : real; k_lprops : list prop; k_cells : list cell; k_target : ptarget;
  k_cn : table; k_cnn : N; k_cnp : list (N * prop);
  k_ts : table; k_tsn : N; k_pn : table; k_pnn : N; k_ps : table; k_psn : N; k_md : N * N * N * N }.
Definition DS (m : modal) (k : core) : dstate :=
  mkD m (k_unit k) (k_lprops k) (k_cells k) (k_target k) (k_cn k) (k_cnn k) (k_cnp k)
      (k_ts k) (k_tsn k) (k_pn k) (k_pnn k) (k_ps k) (k_psn k) (k_md k).

(* a run of records: each is consumed by one iteration of the decoder's loop *)
Inductive steps (ois : bool) : modal -> core -> list (list N) -> modal -> core -> Prop :=
| steps_nil m k : steps ois m k [] m k
| steps_cons m k r m1 k1 rs m2 k2 :
    r <> [] ->
    (forall rest, dec_record ois (DS m k) (r ++ rest) = Some (Cont (DS m1 k1) rest)) ->
    steps ois m1 k1 rs m2 k2 ->
    steps ois m k (r :: rs) m2 k2.

Lemma steps_app ois m k r1 m1 k1 r2 m2 k2 :
  steps ois m k r1 m1 k1 -> steps ois m1 k1 r2 m2 k2 -> steps ois m k (r1 ++ r2) m2 k2.
Proof. induction 1; intros H2; [exact H2|]. cbn [app]. econstructor; eauto. Qed.

Lemma steps_one ois m k r m1 k1 :
  r <> [] -> (forall rest, dec_record ois (DS m k) (r ++ rest) = Some (Cont (DS m1 k1) rest)) ->
  steps ois m k [r] m1 k1.
Proof. intros H1 H2. econstructor; [exact H1|exact H2|constructor]. Qed.

Lemma steps_loop ois m k rs m' k' : steps ois m k rs m' k' -> forall f rest,
  dec_loop (length rs + f) ois (DS m k) (concat rs ++ rest) = dec_loop f ois (DS m' k') rest.
Proof.
  induction 1 as [|m k r m1 k1 rs m2 k2 Hne Hr Hs IH]; intros f rest; [reflexivity|].
  cbn [length concat Nat.add]. rewrite <- app_assoc. rewrite (dec_loop_step _ ois _ _ _ _ (Hr _)). apply IH.
Qed.
Lemma steps_nonempty ois m k rs m' k' : steps ois m k rs m' k' -> Forall (fun r => r <> []) rs.
Proof. induction 1; constructor; assumption. Qed.

(* ---- updates of the core *)
Definition k_set_lprops (k : core) (lp : list prop) : core :=
  mkC (k_unit k) lp (k_cells k) (k_target k) (k_cn k) (k_cnn k) (k_cnp k) (k_ts k) (k_tsn k) (k_pn k) (k_pnn k)
      (k_ps k) (k_psn k) (k_md k).
Definition k_set_cells (k : core) (cs : list cell) (tg : ptarget) : core :=
  mkC (k_unit k) (k_lprops k) cs tg (k_cn k) (k_cnn k) (k_cnp k) (k_ts k) (k_tsn k) (k_pn k) (k_pnn k)
      (k_ps k) (k_psn k) (k_md k).
Definition k_set_cnp (k : core) (cnp : list (N * prop)) : core :=
  mkC (k_unit k) (k_lprops k) (k_cells k) (k_target k) (k_cn k) (k_cnn k) cnp (k_ts k) (k_tsn k) (k_pn k) (k_pnn k)
      (k_ps k) (k_psn k) (k_md k).

(* ---- a PROPERTY record under each of the three targets the writer uses *)
Lemma step_prop_lib ois m k p : wf_nprop p -> k_target k = T_lib ->
  steps ois m k [enc_prop_g p] (pmodal m p) (k_set_lprops k (p :: k_lprops k)).
Proof.
  intros Hp Ht. pose proof (dec_property_enc m p) as H. destruct (enc_prop_g p) as [|code body] eqn:E; [destruct (H [] Hp)|].
  apply steps_one; [discriminate|]. intros rest. destruct (H rest Hp) as [-> Hd].
  unfold dec_record. cbn [app]. rewrite rd_uint_small by lia. cbn [obnd]. cbn [DS d_modal]. rewrite Hd. cbn [obnd].
  unfold add_prop. cbn [DS d_target]. rewrite Ht. destruct k. cbn in *. subst. reflexivity.
Qed.

Definition push_eprop (c : cell) (p : prop) : option cell :=
  match c_elems c with
  | (e, ps) :: es => Some (mkCell (c_name c) (c_props c) ((e, p :: ps) :: es))
  | [] => None
  end.
Lemma step_prop_elem ois m k p c c' cs : wf_nprop p -> k_target k = T_elem -> k_cells k = c :: cs ->
  push_eprop c p = Some c' ->
  steps ois m k [enc_prop_g p] (pmodal m p) (k_set_cells k (c' :: cs) T_elem).
Proof.
  intros Hp Ht Hc Hpush. pose proof (dec_property_enc m p) as H.
  destruct (enc_prop_g p) as [|code body] eqn:E; [destruct (H [] Hp)|].
  apply steps_one; [discriminate|]. intros rest. destruct (H rest Hp) as [-> Hd].
  unfold dec_record. cbn [app]. rewrite rd_uint_small by lia. cbn [obnd]. cbn [DS d_modal]. rewrite Hd. cbn [obnd].
  unfold add_prop. cbn [DS d_target d_cells]. rewrite Ht, Hc. unfold push_eprop in Hpush.
  destruct (c_elems c) as [|[e ps] es]; [discriminate|]. injection Hpush as <-.
  destruct k. cbn in *. subst. reflexivity.
Qed.

Lemma step_prop_cellname ois m k p n : wf_nprop p -> k_target k = T_cellname n ->
  steps ois m k [enc_prop_g p] (pmodal m p) (k_set_cnp k ((n, p) :: k_cnp k)).
Proof.
  intros Hp Ht. pose proof (dec_property_enc m p) as H. destruct (enc_prop_g p) as [|code body] eqn:E; [destruct (H [] Hp)|].
  apply steps_one; [discriminate|]. intros rest. destruct (H rest Hp) as [-> Hd].
  unfold dec_record. cbn [app]. rewrite rd_uint_small by lia. cbn [obnd]. cbn [DS d_modal]. rewrite Hd. cbn [obnd].
  unfold add_prop. cbn [DS d_target]. rewrite Ht. destruct k. cbn in *. subst. reflexivity.
Qed.

Lemma pmodal_abs m p : m_abs (pmodal m p) = m_abs m. Proof. reflexivity. Qed.

(* ---- lists of PROPERTY records *)
Lemma steps_props_lib ois ps : forall m k, Forall wf_nprop ps -> k_target k = T_lib -> m_abs m = true ->
  exists m', steps ois m k (map enc_prop_g ps) m' (k_set_lprops k (rev ps ++ k_lprops k)) /\ m_abs m' = true.
Proof.
  induction ps as [|p t IH]; intros m k Hf Ht Ha.
  - exists m. split; [|exact Ha]. destruct k; constructor.
  - inversion Hf as [|? ? Hp Hr]; subst.
    destruct (IH (pmodal m p) (k_set_lprops k (p :: k_lprops k)) Hr Ht Ha) as (m' & Hs & Ha').
    exists m'. split; [|exact Ha']. cbn [map]. change (enc_prop_g p :: map enc_prop_g t) with ([enc_prop_g p] ++ map enc_prop_g t).
    eapply steps_app; [apply (step_prop_lib ois m k p Hp Ht)|].
    cbn [rev]. rewrite <- app_assoc. cbn [app]. destruct k; exact Hs.
Qed.

Lemma steps_props_cellname ois n ps : forall m k, Forall wf_nprop ps -> k_target k = T_cellname n -> m_abs m = true ->
  exists m', steps ois m k (map enc_prop_g ps) m' (k_set_cnp k (rev (map (fun p => (n, p)) ps) ++ k_cnp k)) /\ m_abs m' = true.
Proof.
  induction ps as [|p t IH]; intros m k Hf Ht Ha.
  - exists m. split; [|exact Ha]. destruct k; constructor.
  - inversion Hf as [|? ? Hp Hr]; subst.
    destruct (IH (pmodal m p) (k_set_cnp k ((n, p) :: k_cnp k)) Hr Ht Ha) as (m' & Hs & Ha').
    exists m'. split; [|exact Ha']. cbn [map]. change (enc_prop_g p :: map enc_prop_g t) with ([enc_prop_g p] ++ map enc_prop_g t).
    eapply steps_app; [apply (step_prop_cellname ois m k p n Hp Ht)|].
    cbn [rev]. rewrite <- app_assoc. cbn [app]. destruct k; exact Hs.
Qed.

(* properties of the last element of the current cell *)
Definition add_eprops (c : cell) (ps : list prop) : cell :=
  match c_elems c with
  | (e, ps0) :: es => mkCell (c_name c) (c_props c) ((e, rev ps ++ ps0) :: es)
  | [] => c
  end.
Lemma steps_props_elem ois ps : forall m k c cs, Forall wf_nprop ps -> k_target k = T_elem -> k_cells k = c :: cs ->
  c_elems c <> [] -> m_abs m = true ->
  exists m', steps ois m k (map enc_prop_g ps) m' (k_set_cells k (add_eprops c ps :: cs) T_elem) /\ m_abs m' = true.
Proof.
  induction ps as [|p t IH]; intros m k c cs Hf Ht Hc Hne Ha.
  - exists m. split; [|exact Ha]. unfold add_eprops. destruct (c_elems c) as [|[e ps0] es] eqn:E; [congruence|].
    cbn [rev app map]. replace (mkCell (c_name c) (c_props c) ((e, ps0) :: es)) with c by (destruct c; cbn in *; subst; reflexivity).
    destruct k; cbn in *; subst; constructor.
  - inversion Hf as [|? ? Hp Hr]; subst.
    destruct (c_elems c) as [|[e ps0] es] eqn:E; [congruence|].
    set (c1 := mkCell (c_name c) (c_props c) ((e, p :: ps0) :: es)).
    destruct (IH (pmodal m p) (k_set_cells k (c1 :: cs) T_elem) c1 cs Hr eq_refl eq_refl ltac:(discriminate) Ha) as (m' & Hs & Ha').
    exists m'. split; [|exact Ha']. cbn [map]. change (enc_prop_g p :: map enc_prop_g t) with ([enc_prop_g p] ++ map enc_prop_g t).
    eapply steps_app; [apply (step_prop_elem ois m k p c c1 cs Hp Ht Hc); unfold push_eprop; rewrite E; reflexivity|].
    unfold add_eprops in *. rewrite E. subst c1. cbn [c_elems c_name c_props] in Hs.
    cbn [rev]. rewrite <- app_assoc. cbn [app]. destruct k; exact Hs.
Qed.

(* ================================================================== element records *)
Definition push_ep (c : cell) (ep : element * list prop) : cell :=
  mkCell (c_name c) (c_props c) ((fst ep, rev (snd ep)) :: c_elems c).

Lemma elem_then_props ois m k c cs rec e pd m1 :
  rec <> [] -> k_cells k = c :: cs ->
  (forall rest, dec_record ois (DS m k) (rec ++ rest) =
                Some (Cont (DS m1 (k_set_cells k (push_elem c e :: cs) T_elem)) rest)) ->
  m_abs m1 = true -> Forall wf_nprop pd ->
  exists m', steps ois m k (rec :: map enc_prop_g pd) m' (k_set_cells k (push_ep c (e, pd) :: cs) T_elem) /\ m_abs m' = true.
Proof.
  intros Hne Hc Hrec Ha Hpd.
  destruct (steps_props_elem ois pd m1 (k_set_cells k (push_elem c e :: cs) T_elem) (push_elem c e) cs Hpd eq_refl eq_refl
              ltac:(discriminate) Ha) as (m' & Hs & Ha').
  exists m'. split; [|exact Ha'].
  econstructor; [exact Hne|exact Hrec|].
  unfold add_eprops, push_elem in Hs. cbn [c_elems c_name c_props] in Hs. rewrite app_nil_r in Hs.
  unfold push_ep. cbn [fst snd]. destruct k; exact Hs.
Qed.

Ltac elem_rec_tac Hd Hc :=
  unfold dec_record; cbn [app]; rewrite rd_uint_small by lia; cbn [obnd]; unfold elem_step; cbn [DS d_modal];
  rewrite Hd; cbn [obnd]; unfold add_elem; cbn [DS d_cells]; rewrite Hc; reflexivity.

Lemma dec_record_polygon ois m k c cs body e m1 rest : k_cells k = c :: cs ->
  dec_polygon m (body ++ rest) = Some (e, m1, rest) ->
  dec_record ois (DS m k) ((21 :: body) ++ rest) = Some (Cont (DS m1 (k_set_cells k (push_elem c e :: cs) T_elem)) rest).
Proof. intros Hc Hd. elem_rec_tac Hd Hc. Qed.
Lemma dec_record_path ois m k c cs body e m1 rest : k_cells k = c :: cs ->
  dec_path m (body ++ rest) = Some (e, m1, rest) ->
  dec_record ois (DS m k) ((22 :: body) ++ rest) = Some (Cont (DS m1 (k_set_cells k (push_elem c e :: cs) T_elem)) rest).
Proof. intros Hc Hd. elem_rec_tac Hd Hc. Qed.
Lemma dec_record_text ois m k c cs body e m1 rest : k_cells k = c :: cs ->
  dec_text m (body ++ rest) = Some (e, m1, rest) ->
  dec_record ois (DS m k) ((19 :: body) ++ rest) = Some (Cont (DS m1 (k_set_cells k (push_elem c e :: cs) T_elem)) rest).
Proof. intros Hc Hd. elem_rec_tac Hd Hc. Qed.
Lemma dec_record_place17 ois m k c cs body e m1 rest : k_cells k = c :: cs ->
  dec_placement 17 m (body ++ rest) = Some (e, m1, rest) ->
  dec_record ois (DS m k) ((17 :: body) ++ rest) = Some (Cont (DS m1 (k_set_cells k (push_elem c e :: cs) T_elem)) rest).
Proof. intros Hc Hd. elem_rec_tac Hd Hc. Qed.
Lemma dec_record_place18 ois m k c cs body e m1 rest : k_cells k = c :: cs ->
  dec_placement 18 m (body ++ rest) = Some (e, m1, rest) ->
  dec_record ois (DS m k) ((18 :: body) ++ rest) = Some (Cont (DS m1 (k_set_cells k (push_elem c e :: cs) T_elem)) rest).
Proof. intros Hc Hd. elem_rec_tac Hd Hc. Qed.

(* positions are written explicitly, and the xy-mode stays absolute *)
Lemma pos_fld_abs mv z rest : fits63 z -> pos_fld true true mv (enc_int z ++ rest) = Some (z, rest).
Proof. intros H. unfold pos_fld. rewrite rd_int_enc by exact H. reflexivity. Qed.
Lemma fld_true {A} (rd : list N -> option (A * list N)) mv bs : fld true rd mv bs = rd bs.
Proof. reflexivity. Qed.

Lemma zc_fits z : zc z -> fits63 z.
Proof. unfold zc, fits63. rewrite two63_val. change (2 ^ 62)%Z with 4611686018427387904%Z. lia. Qed.
Lemma deltas_from_fits t : forall p0, ptc p0 -> Forall ptc t -> Forall fits_pt (deltas_from p0 t).
Proof.
  induction t as [|a t' IH]; intros p0 H0 Hf; [constructor|].
  inversion Hf as [|? ? Ha Ht]; subst. cbn [deltas_from]. constructor; [|apply IH; assumption].
  destruct H0 as [A B], Ha as [C D]. unfold zc in *. unfold fits_pt, fits63. rewrite two63_val. cbn [fst snd].
  change (2 ^ 62)%Z with 4611686018427387904%Z in *. lia.
Qed.

(* ---- POLYGON *)
Definition wpoly_ok (p : wpoly) : Prop :=
  wf_u (py_layer p) /\ wf_u (py_type p) /\ py_pts p <> [] /\ Forall ptc (py_pts p) /\
  N.of_nat (length (py_pts p)) < two64 /\ wrep_ok (py_rep p).

Lemma info_bits_3B (b : bool) :
  let info := 59 + (if b then 4 else 0) in
  bit info 0 = true /\ bit info 1 = true /\ bit info 2 = b /\ bit info 3 = true /\ bit info 4 = true /\
  bit info 5 = true /\ bit info 6 = false /\ bit info 7 = false.
Proof. destruct b; vm_compute; repeat split; reflexivity. Qed.

Lemma rep_bit_if r b : rep_bit r b = if has_rep r then b else 0. Proof. reflexivity. Qed.

Definition poly_ghost (p : wpoly) : element :=
  E_poly (py_layer p) (py_type p) (rel_pts (py_pts p)) (fst (first_pt (py_pts p))) (snd (first_pt (py_pts p)))
         (view_rep (py_rep p)).

Lemma dec_polygon_w m p : wpoly_ok p -> m_abs m = true ->
  exists m1,
    (forall rest,
       dec_polygon m (((59 + rep_bit (py_rep p) 4) :: enc_uint (py_layer p) ++ enc_uint (py_type p) ++
                       enc_point_list true (py_pts p) ++ enc_int (fst (first_pt (py_pts p))) ++
                       enc_int (snd (first_pt (py_pts p))) ++ rep_field (py_rep p)) ++ rest) =
       Some (poly_ghost p, m1, rest)) /\ m_abs m1 = true.
Proof.
  intros (Hl & Hd & Hne & Hpts & Hlen & Hrep) Ha.
  destruct (py_pts p) as [|p0 t] eqn:Ep; [congruence|]. inversion Hpts as [|? ? H0 Ht]; subst.
  eexists. split; [intros rest|]. unfold dec_polygon. cbn [app rd_byte obnd]. rewrite rep_bit_if.
  destruct (info_bits_3B (has_rep (py_rep p))) as (B0 & B1 & B2 & B3 & B4 & B5 & B6 & B7).
  cbv zeta in B0, B1, B2, B3, B4, B5, B6, B7. rewrite B0, B1, B2, B3, B4, B5, B6, B7. cbn [orb].
  rewrite <- !app_assoc. cbn [fld].
  rewrite rd_uint_enc by exact Hl. cbn [obnd fld]. rewrite rd_uint_enc by exact Hd. cbn [obnd fld].
  rewrite rd_plist_enc_point_list; [|apply deltas_from_fits; assumption|cbn [length] in Hlen; unfold pt in *; lia]. cbn [obnd].
  rewrite Ha. unfold first_pt. cbn [hd].
  rewrite pos_fld_abs by (apply zc_fits; apply H0). cbn [obnd].
  rewrite pos_fld_abs by (apply zc_fits; apply H0). cbn [obnd].
  rewrite rep_field_dec by exact Hrep. cbn [obnd].
  unfold poly_ghost. rewrite Ep. unfold first_pt. cbn [hd]. reflexivity.
  cbn. first [exact Ha|reflexivity].
Qed.

(* ---- PATH *)
Definition wend_ok (e : wend) : Prop :=
  match e with WE_ext es ee => fits63 es /\ fits63 ee | _ => True end.
Definition wpel_ok (el : wpel) : Prop :=
  wf_u (pe_layer el) /\ wf_u (pe_type el) /\ wf_u (pe_hw el) /\ wend_ok (pe_end el).
Definition wpath_ok (h : wpath) : Prop :=
  Forall wpel_ok (ph_els h) /\ Forall ptc (ph_pts h) /\ N.of_nat (length (ph_pts h)) < two64 /\ wrep_ok (ph_rep h).

Lemma info_bits_FB (b : bool) :
  let info := 251 + (if b then 4 else 0) in
  bit info 0 = true /\ bit info 1 = true /\ bit info 2 = b /\ bit info 3 = true /\ bit info 4 = true /\
  bit info 5 = true /\ bit info 6 = true /\ bit info 7 = true.
Proof. destruct b; vm_compute; repeat split; reflexivity. Qed.

Lemma ext_half_dec hw e mv rest : fits63 e -> wf_u hw ->
  (fst (ext_half hw e) = 1 \/ fst (ext_half hw e) = 2 \/ fst (ext_half hw e) = 3) /\
  ext_fld (fst (ext_half hw e)) hw mv
          ((if (snd (ext_half hw e) =? 0)%Z then [] else enc_int (snd (ext_half hw e))) ++ rest) = Some (e, rest).
Proof.
  intros He Hw. unfold ext_half.
  destruct (e =? 0)%Z eqn:E0.
  - apply Z.eqb_eq in E0. subst e. cbn [fst snd]. split; [tauto|]. reflexivity.
  - apply Z.eqb_neq in E0. destruct ((0 <? e)%Z && (u64z e =? hw)) eqn:E1.
    + apply andb_true_iff in E1. destruct E1 as [P1 P2]. apply Z.ltb_lt in P1. apply N.eqb_eq in P2.
      cbn [fst snd]. split; [tauto|]. cbn [ext_fld Z.eqb app]. f_equal. f_equal.
      rewrite <- P2. rewrite u64z_nonneg.
      * rewrite Z2N.id by lia. reflexivity.
      * unfold fits63 in He. rewrite two63_val in He. change (2 ^ 64)%Z with 18446744073709551616%Z. lia.
    + cbn [fst snd]. split; [tauto|]. replace (e =? 0)%Z with false by (symmetry; apply Z.eqb_neq; exact E0).
      cbn [ext_fld]. rewrite rd_int_enc by exact He. reflexivity.
Qed.

Lemma ext_scheme_dec hw e mvs mve rest : wend_ok e -> wf_u hw ->
  (let? '(sch, bs) := rd_uint (extension_scheme hw e ++ rest) in
   if 16 <=? sch then None else
   let? '(es, bs) := ext_fld (N.land (N.shiftr sch 2) 3) hw mvs bs in
   let? '(ee, bs) := ext_fld (N.land sch 3) hw mve bs in
   Some (es, ee, bs)) = Some (fst (view_ext hw e), snd (view_ext hw e), rest).
Proof.
  intros He Hw. destruct e as [| |es ee]; cbn [extension_scheme view_ext fst snd app].
  - rewrite rd_uint_small by lia. reflexivity.
  - rewrite rd_uint_small by lia. reflexivity.
  - destruct He as [Hs He].
    destruct (ext_half_dec hw es mvs ((if (snd (ext_half hw ee) =? 0)%Z then [] else enc_int (snd (ext_half hw ee))) ++ rest) Hs Hw)
      as [Cs Ds].
    destruct (ext_half_dec hw ee mve rest He Hw) as [Ce De].
    destruct (ext_half hw es) as [cs vs]. destruct (ext_half hw ee) as [ce ve]. cbn [fst snd] in *.
    destruct (scheme_split cs ce) as (S1 & S2 & S3); [lia|lia|].
    rewrite (N.mul_comm 4 cs). cbn [app].
    rewrite rd_uint_small by lia. cbn [obnd].
    replace (16 <=? cs * 4 + ce) with false by (symmetry; apply N.leb_gt; exact S1).
    rewrite S2, S3. rewrite <- app_assoc. rewrite Ds. cbn [obnd]. rewrite De. reflexivity.
Qed.

Definition path_ghost (h : wpath) (el : wpel) : element :=
  E_path (pe_layer el) (pe_type el) (pe_hw el) (fst (view_ext (pe_hw el) (pe_end el)))
         (snd (view_ext (pe_hw el) (pe_end el))) (rel_pts (ph_pts h))
         (fst (first_pt (ph_pts h))) (snd (first_pt (ph_pts h))) (view_rep (ph_rep h)).

Lemma dec_path_w m h el : wpath_ok h -> wpel_ok el -> ph_pts h <> [] -> m_abs m = true ->
  exists m1,
    (forall rest,
       dec_path m (((251 + rep_bit (ph_rep h) 4) :: enc_uint (pe_layer el) ++ enc_uint (pe_type el) ++ enc_uint (pe_hw el) ++
                    extension_scheme (pe_hw el) (pe_end el) ++ enc_point_list false (ph_pts h) ++
                    enc_int (fst (first_pt (ph_pts h))) ++ enc_int (snd (first_pt (ph_pts h))) ++ rep_field (ph_rep h)) ++ rest) =
       Some (path_ghost h el, m1, rest)) /\ m_abs m1 = true.
Proof.
  intros (_ & Hpts & Hlen & Hrep) (Hl & Hd & Hw & He) Hne Ha.
  destruct (ph_pts h) as [|p0 t] eqn:Ep; [congruence|]. inversion Hpts as [|? ? H0 Ht]; subst.
  eexists. split; [intros rest|]. unfold dec_path. cbn [app rd_byte obnd]. rewrite rep_bit_if.
  destruct (info_bits_FB (has_rep (ph_rep h))) as (B0 & B1 & B2 & B3 & B4 & B5 & B6 & B7).
  cbv zeta in B0, B1, B2, B3, B4, B5, B6, B7. rewrite B0, B1, B2, B3, B4, B5, B6, B7.
  rewrite <- !app_assoc. cbn [fld].
  rewrite rd_uint_enc by exact Hl. cbn [obnd fld]. rewrite rd_uint_enc by exact Hd. cbn [obnd fld].
  rewrite rd_uint_enc by exact Hw. cbn [obnd fld].
  rewrite (ext_scheme_dec (pe_hw el) (pe_end el) _ _ _ He Hw). cbn [obnd fld].
  rewrite rd_plist_enc_point_list; [|apply deltas_from_fits; assumption|cbn [length] in Hlen; unfold pt in *; lia]. cbn [obnd].
  rewrite Ha. unfold first_pt. cbn [hd].
  rewrite pos_fld_abs by (apply zc_fits; apply H0). cbn [obnd].
  rewrite pos_fld_abs by (apply zc_fits; apply H0). cbn [obnd].
  rewrite rep_field_dec by exact Hrep. cbn [obnd].
  unfold path_ghost. rewrite Ep. unfold first_pt. cbn [hd]. reflexivity.
  cbn. first [exact Ha|reflexivity].
Qed.

(* ---- TEXT *)
Definition wlabel_ok (t : wlabel) : Prop :=
  wf_u (lb_layer t) /\ wf_u (lb_type t) /\ fits63 (lb_x t) /\ fits63 (lb_y t) /\ wrep_ok (lb_rep t).

Lemma info_bits_7B (b : bool) :
  let info := 123 + (if b then 4 else 0) in
  bit info 0 = true /\ bit info 1 = true /\ bit info 2 = b /\ bit info 3 = true /\ bit info 4 = true /\
  bit info 5 = true /\ bit info 6 = true /\ bit info 7 = false.
Proof. destruct b; vm_compute; repeat split; reflexivity. Qed.

Lemma dec_text_w m t index : wlabel_ok t -> wf_u index -> m_abs m = true ->
  exists m1,
    (forall rest,
       dec_text m (((123 + rep_bit (lb_rep t) 4) :: enc_uint index ++ enc_uint (lb_layer t) ++ enc_uint (lb_type t) ++
                    enc_int (lb_x t) ++ enc_int (lb_y t) ++ rep_field (lb_rep t)) ++ rest) =
       Some (E_text (NNum index) (lb_layer t) (lb_type t) (lb_x t) (lb_y t) (view_rep (lb_rep t)), m1, rest))
    /\ m_abs m1 = true.
Proof.
  intros (Hl & Hd & Hx & Hy & Hrep) Hi Ha.
  eexists. split; [intros rest|]. unfold dec_text. cbn [app rd_byte obnd]. rewrite rep_bit_if.
  destruct (info_bits_7B (has_rep (lb_rep t))) as (B0 & B1 & B2 & B3 & B4 & B5 & B6 & B7).
  cbv zeta in B0, B1, B2, B3, B4, B5, B6, B7. rewrite B0, B1, B2, B3, B4, B5, B6, B7.
  rewrite <- !app_assoc. cbn [fld rd_nref].
  rewrite rd_uint_enc by exact Hi. cbn [obnd fld].
  rewrite rd_uint_enc by exact Hl. cbn [obnd fld]. rewrite rd_uint_enc by exact Hd. cbn [obnd fld].
  rewrite Ha. rewrite pos_fld_abs by exact Hx. cbn [obnd]. rewrite pos_fld_abs by exact Hy. cbn [obnd].
  rewrite rep_field_dec by exact Hrep. cbn [obnd]. reflexivity.
  cbn. first [exact Ha|reflexivity].
Qed.

(* ---- PLACEMENT *)
Definition wref_ok (r : wref) : Prop :=
  wf_str (rf_name r) /\ fits63 (rf_x r) /\ fits63 (rf_y r) /\ wrep_ok (rf_rep r).

Lemma info_bits_place (byn rp fl b2 b1 : bool) :
  let info := (if byn then 240 else 176) + (if rp then 8 else 0) + (if fl then 1 else 0) +
              (if b2 then 4 else 0) + (if b1 then 2 else 0) in
  bit info 0 = fl /\ bit info 1 = b1 /\ bit info 2 = b2 /\ bit info 3 = rp /\ bit info 4 = true /\
  bit info 5 = true /\ bit info 6 = byn /\ bit info 7 = true /\
  N.land (N.shiftr info 1) 3 = (if b2 then 2 else 0) + (if b1 then 1 else 0).
Proof. destruct byn, rp, fl, b2, b1; vm_compute; repeat split; reflexivity. Qed.

Lemma quarter_bits_lt m : quarter_bits m < 4.
Proof.
  unfold quarter_bits.
  assert (H : forall x, (0 <= x)%Z -> Z.to_N (Z.land x 3) < 4).
  { intros x Hx. change 3%Z with (Z.ones 2). rewrite Z.land_ones by lia.
    pose proof (Z.mod_pos_bound x (2 ^ 2) ltac:(lia)). change (2 ^ 2)%Z with 4%Z in *. lia. }
  destruct (m <? 0)%Z eqn:E.
  - apply Z.ltb_lt in E. apply H. pose proof (Z.rem_bound_pos_neg m 4 ltac:(lia) ltac:(lia)). lia.
  - apply Z.ltb_ge in E. apply H. pose proof (Z.rem_bound_pos m 4 E ltac:(lia)). lia.
Qed.

Definition cell_ref (cells : list (list N)) (name : list N) : nref :=
  match cell_index cells name with Some i => NNum i | None => NName name end.
Definition cell_ref_ok (cells : list (list N)) (name : list N) : Prop :=
  match cell_index cells name with Some i => wf_u i | None => True end.

Lemma rd_cell_ref cells name rest : wf_str name -> cell_ref_ok cells name ->
  rd_nref (match cell_index cells name with Some _ => true | None => false end)
          ((match cell_index cells name with Some i => enc_uint i | None => wr_cstring name end) ++ rest) =
  Some (cell_ref cells name, rest).
Proof.
  intros Hs Hi. unfold cell_ref, cell_ref_ok in *. destruct (cell_index cells name) as [i|]; cbn [rd_nref].
  - rewrite rd_uint_enc by exact Hi. reflexivity.
  - change (wr_cstring name) with (wr_string name). rewrite rd_string_enc by exact Hs. reflexivity.
Qed.

Lemma dec_placement17_w m cells r q : wref_ok r -> cell_ref_ok cells (rf_name r) -> q < 4 -> m_abs m = true ->
  exists m1, (forall rest,
    dec_placement 17 m
      ((((match cell_index cells (rf_name r) with Some _ => 240 | None => 176 end) + rep_bit (rf_rep r) 8 +
         (if rf_flip r then 1 else 0) + 2 * q) ::
        (match cell_index cells (rf_name r) with Some i => enc_uint i | None => wr_cstring (rf_name r) end) ++
        enc_int (rf_x r) ++ enc_int (rf_y r) ++ rep_field (rf_rep r)) ++ rest) =
    Some (E_place (cell_ref cells (rf_name r)) (PT_quarter q) (rf_flip r) (rf_x r) (rf_y r) (view_rep (rf_rep r)), m1, rest))
    /\ m_abs m1 = true.
Proof.
  intros (Hs & Hx & Hy & Hrep) Hi Hq Ha.
  eexists. split; [intros rest|].
  pose proof (rd_cell_ref cells (rf_name r) (enc_int (rf_x r) ++ enc_int (rf_y r) ++ rep_field (rf_rep r) ++ rest) Hs Hi) as Hc.
  unfold dec_placement. cbn [app rd_byte obnd]. rewrite rep_bit_if.
  assert (Hinfo : (match cell_index cells (rf_name r) with Some _ => 240 | None => 176 end) +
                  (if has_rep (rf_rep r) then 8 else 0) + (if rf_flip r then 1 else 0) + 2 * q =
                  (if (match cell_index cells (rf_name r) with Some _ => true | None => false end) then 240 else 176) +
                  (if has_rep (rf_rep r) then 8 else 0) + (if rf_flip r then 1 else 0) +
                  (if N.testbit q 1 then 4 else 0) + (if N.testbit q 0 then 2 else 0)).
  { assert (E : q = 0 \/ q = 1 \/ q = 2 \/ q = 3) by lia.
    destruct (cell_index cells (rf_name r)); destruct (has_rep (rf_rep r)); destruct (rf_flip r);
      destruct E as [E|[E|[E|E]]]; subst q; reflexivity. }
  rewrite Hinfo.
  destruct (info_bits_place (match cell_index cells (rf_name r) with Some _ => true | None => false end)
                            (has_rep (rf_rep r)) (rf_flip r) (N.testbit q 1) (N.testbit q 0))
    as (B0 & B1 & B2 & B3 & B4 & B5 & B6 & B7 & BA).
  cbv zeta in B0, B1, B2, B3, B4, B5, B6, B7, BA. rewrite B0, B3, B4, B5, B6, B7, BA. rewrite aa_bits by exact Hq.
  rewrite <- !app_assoc. cbn [fld]. rewrite Hc. cbn [obnd N.eqb Pos.eqb].
  rewrite Ha. rewrite pos_fld_abs by exact Hx. cbn [obnd]. rewrite pos_fld_abs by exact Hy. cbn [obnd].
  rewrite rep_field_dec by exact Hrep. cbn [obnd]. reflexivity.
  cbn. first [exact Ha|reflexivity].
Qed.

Lemma dec_placement18_w m cells r (hm hr : bool) mb rb :
  wref_ok r -> cell_ref_ok cells (rf_name r) -> m_abs m = true ->
  exists m1, (forall rest,
    dec_placement 18 m
      ((((match cell_index cells (rf_name r) with Some _ => 240 | None => 176 end) + rep_bit (rf_rep r) 8 +
         (if rf_flip r then 1 else 0) + (if hm then 4 else 0) + (if hr then 2 else 0)) ::
        (match cell_index cells (rf_name r) with Some i => enc_uint i | None => wr_cstring (rf_name r) end) ++
        (if hm then enc_real mb else []) ++ (if hr then enc_real rb else []) ++
        enc_int (rf_x r) ++ enc_int (rf_y r) ++ rep_field (rf_rep r)) ++ rest) =
    Some (E_place (cell_ref cells (rf_name r))
                  (PT_general (if hm then Some (real_of_bits mb) else None) (if hr then Some (real_of_bits rb) else None))
                  (rf_flip r) (rf_x r) (rf_y r) (view_rep (rf_rep r)), m1, rest))
    /\ m_abs m1 = true.
Proof.
  intros (Hs & Hx & Hy & Hrep) Hi Ha.
  assert (Hinfo : (match cell_index cells (rf_name r) with Some _ => 240 | None => 176 end) +
                  (if has_rep (rf_rep r) then 8 else 0) + (if rf_flip r then 1 else 0) + (if hm then 4 else 0) +
                  (if hr then 2 else 0) =
                  (if (match cell_index cells (rf_name r) with Some _ => true | None => false end) then 240 else 176) +
                  (if has_rep (rf_rep r) then 8 else 0) + (if rf_flip r then 1 else 0) +
                  (if hm then 4 else 0) + (if hr then 2 else 0)).
  { destruct (cell_index cells (rf_name r)); reflexivity. }
  destruct (info_bits_place (match cell_index cells (rf_name r) with Some _ => true | None => false end)
                            (has_rep (rf_rep r)) (rf_flip r) hm hr)
    as (B0 & B1 & B2 & B3 & B4 & B5 & B6 & B7 & BA).
  cbv zeta in B0, B1, B2, B3, B4, B5, B6, B7, BA.
  destruct hm, hr;
    (eexists; split;
     [intros rest; unfold dec_placement; cbn [app rd_byte obnd]; rewrite rep_bit_if; rewrite Hinfo;
      rewrite B0, B1, B2, B3, B4, B5, B6, B7;
      rewrite <- !app_assoc; cbn [fld];
      rewrite (rd_cell_ref cells (rf_name r) _ Hs Hi); cbn [obnd N.eqb Pos.eqb app];
      rewrite ?rd_real_enc_real; cbn [obnd]; rewrite ?rd_real_enc_real; cbn [obnd];
      rewrite Ha; rewrite pos_fld_abs by exact Hx; cbn [obnd]; rewrite pos_fld_abs by exact Hy; cbn [obnd];
      rewrite rep_field_dec by exact Hrep; cbn [obnd]; reflexivity
     |cbn; first [exact Ha|reflexivity]]).
Qed.

(* ================================================================== the records of one cell *)
Definition wf_gelem (e : element) : Prop :=
  match e with
  | E_text (NNum i) _ _ _ _ _ => wf_u i
  | E_place (NNum i) _ _ _ _ _ => wf_u i
  | _ => True
  end.
Definition wf_gep (ep : element * list prop) : Prop := wf_gelem (fst ep) /\ Forall wf_nprop (snd ep).

Definition push_eps (c : cell) (eps : list (element * list prop)) : cell := fold_left push_ep eps c.
Lemma push_eps_app c a b : push_eps c (a ++ b) = push_eps (push_eps c a) b.
Proof. unfold push_eps. apply fold_left_app. Qed.

(* the shape every element lemma has; no element = no record = nothing changes *)
Definition after_elems (k : core) (c : cell) (cs : list cell) (eps : list (element * list prop)) : core :=
  match eps with [] => k | _ => k_set_cells k (push_eps c eps :: cs) T_elem end.
Definition elem_steps ois (recs : list (list N)) (eps : list (element * list prop)) : Prop :=
  forall m k c cs, m_abs m = true -> k_cells k = c :: cs ->
  exists m', steps ois m k recs m' (after_elems k c cs eps) /\ m_abs m' = true.

Lemma after_elems_cells k c cs eps : k_cells k = c :: cs -> k_cells (after_elems k c cs eps) = push_eps c eps :: cs.
Proof. intros H. destruct eps; [exact H|reflexivity]. Qed.

Lemma elem_steps_nil ois : elem_steps ois [] [].
Proof. intros m k c cs Ha Hc. exists m. split; [constructor|exact Ha]. Qed.

Lemma elem_steps_app ois r1 e1 r2 e2 : elem_steps ois r1 e1 -> elem_steps ois r2 e2 -> elem_steps ois (r1 ++ r2) (e1 ++ e2).
Proof.
  intros H1 H2 m k c cs Ha Hc.
  destruct (H1 m k c cs Ha Hc) as (m1 & S1 & A1).
  destruct (H2 m1 (after_elems k c cs e1) (push_eps c e1) cs A1 (after_elems_cells k c cs e1 Hc)) as (m2 & S2 & A2).
  exists m2. split; [|exact A2]. eapply steps_app; [exact S1|].
  replace (after_elems k c cs (e1 ++ e2)) with (after_elems (after_elems k c cs e1) (push_eps c e1) cs e2); [exact S2|].
  destruct e1 as [|a1 t1]; [reflexivity|]. destruct e2 as [|a2 t2].
  - rewrite app_nil_r. reflexivity.
  - unfold after_elems. cbn [app]. rewrite <- push_eps_app. destruct k; reflexivity.
Qed.

Lemma elem_steps_one ois rec e pd :
  rec <> [] -> Forall wf_nprop pd ->
  (forall m k c cs, m_abs m = true -> k_cells k = c :: cs ->
     exists m1, (forall rest, dec_record ois (DS m k) (rec ++ rest) =
                              Some (Cont (DS m1 (k_set_cells k (push_elem c e :: cs) T_elem)) rest)) /\ m_abs m1 = true) ->
  elem_steps ois (rec :: map enc_prop_g pd) [(e, pd)].
Proof.
  intros Hne Hpd H m k c cs Ha Hc. destruct (H m k c cs Ha Hc) as (m1 & Hrec & A1).
  exact (elem_then_props ois m k c cs rec e pd m1 Hne Hc Hrec A1 Hpd).
Qed.

Lemma steps_polygon ois st p recs ep st' : polygon_to_oas st p = (recs, ep, st') ->
  wpoly_ok p -> wf_gep ep -> elem_steps ois recs [ep].
Proof.
  unfold polygon_to_oas. pose proof (properties_to_oas_enc (py_props p) st) as Hpr.
  destruct (properties_to_oas st (py_props p)) as [[pr pd] st1]. cbn [fst snd] in Hpr. subst pr.
  intros [= <- <- <-] Hok [_ Hpd]. cbn [snd] in Hpd.
  apply elem_steps_one; [discriminate|exact Hpd|].
  intros m k c cs Ha Hc. destruct (dec_polygon_w m p Hok Ha) as (m1 & D & A1).
  exists m1. split; [|exact A1]. intros rest. change OasisRecord_POLYGON with 21.
  apply (dec_record_polygon ois m k c cs _ _ _ rest Hc (D rest)).
Qed.

Lemma steps_path_element ois st h el recs ep st' : path_element_to_oas st h el = (recs, ep, st') ->
  wpath_ok h -> wpel_ok el -> ph_pts h <> [] -> wf_gep ep -> elem_steps ois recs [ep].
Proof.
  unfold path_element_to_oas. pose proof (properties_to_oas_enc (ph_props h) st) as Hpr.
  destruct (properties_to_oas st (ph_props h)) as [[pr pd] st1]. cbn [fst snd] in Hpr. subst pr.
  intros [= <- <- <-] Hok Hel Hne [_ Hpd]. cbn [snd] in Hpd.
  apply elem_steps_one; [discriminate|exact Hpd|].
  intros m k c cs Ha Hc. destruct (dec_path_w m h el Hok Hel Hne Ha) as (m1 & D & A1).
  exists m1. split; [|exact A1]. intros rest. change OasisRecord_PATH with 22.
  apply (dec_record_path ois m k c cs _ _ _ rest Hc (D rest)).
Qed.

Lemma steps_path_elements ois h : wpath_ok h -> ph_pts h <> [] -> forall els st recs eps st',
  path_elements_to_oas st h els = (recs, eps, st') -> Forall wpel_ok els -> Forall wf_gep eps -> elem_steps ois recs eps.
Proof.
  intros Hok Hne. induction els as [|el t IH]; intros st recs eps st' E Hels Hg.
  - injection E as <- <- <-. apply elem_steps_nil.
  - cbn [path_elements_to_oas] in E.
    destruct (path_element_to_oas st h el) as [[r1 d1] st1] eqn:E1.
    destruct (path_elements_to_oas st1 h t) as [[r2 d2] st2] eqn:E2.
    injection E as <- <- <-. inversion Hels as [|? ? He Ht]; subst. inversion Hg as [|? ? Hg1 Hg2]; subst.
    change (d1 :: d2) with ([d1] ++ d2). apply elem_steps_app.
    + exact (steps_path_element ois st h el r1 d1 st1 E1 Hok He Hne Hg1).
    + exact (IH st1 r2 d2 st2 E2 Ht Hg2).
Qed.

Lemma steps_flexpath ois st h recs eps st' : flexpath_to_oas st h = (recs, eps, st') ->
  wpath_ok h -> Forall wf_gep eps -> elem_steps ois recs eps.
Proof.
  unfold flexpath_to_oas. intros E Hok Hg.
  destruct (length (ph_pts h) <? 2)%nat eqn:El.
  - injection E as <- <- <-. apply elem_steps_nil.
  - assert (Hne : ph_pts h <> []) by (intros H0; rewrite H0 in El; discriminate).
    exact (steps_path_elements ois h Hok Hne (ph_els h) st recs eps st' E (proj1 Hok) Hg).
Qed.

Lemma steps_reference ois cells st r recs ep st' : reference_to_oas cells st r = (recs, ep, st') ->
  wref_ok r -> wf_gep ep -> elem_steps ois recs [ep].
Proof.
  unfold reference_to_oas. pose proof (properties_to_oas_enc (rf_props r) st) as Hpr.
  destruct (properties_to_oas st (rf_props r)) as [[pr pd] st1]. cbn [fst snd] in Hpr. subst pr.
  intros E Hok Hg.
  assert (Hi : cell_ref_ok cells (rf_name r) /\ Forall wf_nprop pd).
  { destruct Hg as [G1 G2]. unfold cell_ref_ok.
    destruct (if b64_is_one (rf_mag r) then rf_quarter r else None); injection E as <- <- <-; cbn [fst snd] in *;
      (split; [|exact G2]); destruct (cell_index cells (rf_name r)); cbn [wf_gelem] in G1; auto. }
  destruct Hi as [Hi Hpd].
  destruct (if b64_is_one (rf_mag r) then rf_quarter r else None) as [q|].
  - injection E as <- <- <-.
    apply elem_steps_one; [discriminate|exact Hpd|].
    intros m k c cs Ha Hc.
    destruct (dec_placement17_w m cells r (quarter_bits q) Hok Hi (quarter_bits_lt q) Ha) as (m1 & D & A1).
    exists m1. split; [|exact A1]. intros rest. change OasisRecord_PLACEMENT with 17.
    apply (dec_record_place17 ois m k c cs _ _ _ rest Hc (D rest)).
  - injection E as <- <- <-.
    apply elem_steps_one; [discriminate|exact Hpd|].
    intros m k c cs Ha Hc.
    destruct (dec_placement18_w m cells r (negb (b64_is_one (rf_mag r))) (negb (b64_is_zero (rf_rot r)))
                (rf_mag r) (deg_bits (rf_rot r)) Hok Hi Ha) as (m1 & D & A1).
    exists m1. split; [|exact A1]. intros rest. change OasisRecord_PLACEMENT_TRANSFORM with 18.
    apply (dec_record_place18 ois m k c cs _ _ _ rest Hc (D rest)).
Qed.

Lemma steps_label ois ts st t recs ep ts' st' : label_to_oas ts st t = (recs, ep, ts', st') ->
  wlabel_ok t -> wf_gep ep -> elem_steps ois recs [ep].
Proof.
  unfold label_to_oas. destruct (intern ts (lb_text t)) as [index ts1].
  pose proof (properties_to_oas_enc (lb_props t) st) as Hpr.
  destruct (properties_to_oas st (lb_props t)) as [[pr pd] st1]. cbn [fst snd] in Hpr. subst pr.
  intros [= <- <- <- <-] Hok [Hi Hpd]. cbn [fst snd wf_gelem] in Hi, Hpd.
  apply elem_steps_one; [discriminate|exact Hpd|].
  intros m k c cs Ha Hc. destruct (dec_text_w m t index Hok Hi Ha) as (m1 & D & A1).
  exists m1. split; [|exact A1]. intros rest. change OasisRecord_TEXT with 19.
  apply (dec_record_text ois m k c cs _ _ _ rest Hc (D rest)).
Qed.

Lemma steps_polygons ois : forall l st recs eps st', polygons_to_oas st l = (recs, eps, st') ->
  Forall wpoly_ok l -> Forall wf_gep eps -> elem_steps ois recs eps.
Proof.
  induction l as [|p t IH]; intros st recs eps st' E Hok Hg.
  - injection E as <- <- <-. apply elem_steps_nil.
  - cbn [polygons_to_oas] in E.
    destruct (polygon_to_oas st p) as [[r1 d1] st1] eqn:E1. destruct (polygons_to_oas st1 t) as [[r2 d2] st2] eqn:E2.
    injection E as <- <- <-. inversion Hok as [|? ? Hp Ht]; subst. inversion Hg as [|? ? Hg1 Hg2]; subst.
    change (d1 :: d2) with ([d1] ++ d2). apply elem_steps_app.
    + exact (steps_polygon ois st p r1 d1 st1 E1 Hp Hg1).
    + exact (IH st1 r2 d2 st2 E2 Ht Hg2).
Qed.
Lemma steps_flexpaths ois : forall l st recs eps st', flexpaths_to_oas st l = (recs, eps, st') ->
  Forall wpath_ok l -> Forall wf_gep eps -> elem_steps ois recs eps.
Proof.
  induction l as [|p t IH]; intros st recs eps st' E Hok Hg.
  - injection E as <- <- <-. apply elem_steps_nil.
  - cbn [flexpaths_to_oas] in E.
    destruct (flexpath_to_oas st p) as [[r1 d1] st1] eqn:E1. destruct (flexpaths_to_oas st1 t) as [[r2 d2] st2] eqn:E2.
    injection E as <- <- <-. inversion Hok as [|? ? Hp Ht]; subst. apply Forall_app in Hg. destruct Hg as [Hg1 Hg2].
    apply elem_steps_app.
    + exact (steps_flexpath ois st p r1 d1 st1 E1 Hp Hg1).
    + exact (IH st1 r2 d2 st2 E2 Ht Hg2).
Qed.
Lemma steps_references ois cells : forall l st recs eps st', references_to_oas cells st l = (recs, eps, st') ->
  Forall wref_ok l -> Forall wf_gep eps -> elem_steps ois recs eps.
Proof.
  induction l as [|p t IH]; intros st recs eps st' E Hok Hg.
  - injection E as <- <- <-. apply elem_steps_nil.
  - cbn [references_to_oas] in E.
    destruct (reference_to_oas cells st p) as [[r1 d1] st1] eqn:E1.
    destruct (references_to_oas cells st1 t) as [[r2 d2] st2] eqn:E2.
    injection E as <- <- <-. inversion Hok as [|? ? Hp Ht]; subst. inversion Hg as [|? ? Hg1 Hg2]; subst.
    change (d1 :: d2) with ([d1] ++ d2). apply elem_steps_app.
    + exact (steps_reference ois cells st p r1 d1 st1 E1 Hp Hg1).
    + exact (IH st1 r2 d2 st2 E2 Ht Hg2).
Qed.
Lemma steps_labels ois : forall l ts st recs eps ts' st', labels_to_oas ts st l = (recs, eps, ts', st') ->
  Forall wlabel_ok l -> Forall wf_gep eps -> elem_steps ois recs eps.
Proof.
  induction l as [|p t IH]; intros ts st recs eps ts' st' E Hok Hg.
  - injection E as <- <- <- <-. apply elem_steps_nil.
  - cbn [labels_to_oas] in E.
    destruct (label_to_oas ts st p) as [[[r1 d1] ts1] st1] eqn:E1.
    destruct (labels_to_oas ts1 st1 t) as [[[r2 d2] ts2] st2] eqn:E2.
    injection E as <- <- <- <-. inversion Hok as [|? ? Hp Ht]; subst. inversion Hg as [|? ? Hg1 Hg2]; subst.
    change (d1 :: d2) with ([d1] ++ d2). apply elem_steps_app.
    + exact (steps_label ois ts st p r1 d1 ts1 st1 E1 Hp Hg1).
    + exact (IH ts1 st1 r2 d2 ts2 st2 E2 Ht Hg2).
Qed.

(* ---- a whole cell: CELL record by reference number, then its elements *)
Definition wcell_ok (c : wcell) : Prop :=
  Forall wpoly_ok (cl_polys c) /\ Forall wpath_ok (cl_paths c) /\ Forall wref_ok (cl_refs c) /\ Forall wlabel_ok (cl_labels c).
Definition wf_gcell (c : cell) : Prop :=
  (exists i, c_name c = NNum i /\ wf_u i) /\ c_props c = [] /\ Forall wf_gep (c_elems c).

(* the cell as the decoder holds it: elements and their properties newest first *)
Definition rcell_g (c : cell) : cell :=
  mkCell (c_name c) (c_props c) (rev (map (fun ep => (fst ep, rev (snd ep))) (c_elems c))).
Lemma push_eps_shape c eps :
  push_eps c eps = mkCell (c_name c) (c_props c) (rev (map (fun ep => (fst ep, rev (snd ep))) eps) ++ c_elems c).
Proof.
  revert c. induction eps as [|ep t IH]; intros c; [destruct c; reflexivity|].
  unfold push_eps in *. cbn [fold_left]. rewrite IH. unfold push_ep. cbn [c_name c_props c_elems map rev].
  rewrite <- app_assoc. reflexivity.
Qed.

Lemma steps_cell ois cells ts st c recs gc ts' st' : cell_to_oas cells ts st c = (recs, gc, ts', st') ->
  wcell_ok c -> wf_gcell gc -> forall m k, m_abs m = true ->
  exists m' tg', steps ois m k recs m' (k_set_cells k (rcell_g gc :: k_cells k) tg') /\ m_abs m' = true.
Proof.
  unfold cell_to_oas. intros E (Hp & Hh & Hr & Hl) ((i & Hn & Hi) & _ & Hg) m k Ha.
  destruct (polygons_to_oas st (cl_polys c)) as [[r1 d1] st1] eqn:E1.
  destruct (flexpaths_to_oas st1 (cl_paths c)) as [[r2 d2] st2] eqn:E2.
  destruct (references_to_oas cells st2 (cl_refs c)) as [[r3 d3] st3] eqn:E3.
  destruct (labels_to_oas ts st3 (cl_labels c)) as [[[r4 d4] ts4] st4] eqn:E4.
  injection E as <- <- <- <-. cbn [c_name c_elems] in *. injection Hn as Hn.
  apply Forall_app in Hg. destruct Hg as [G1 Hg]. apply Forall_app in Hg. destruct Hg as [G2 Hg].
  apply Forall_app in Hg. destruct Hg as [G3 G4].
  pose proof (elem_steps_app ois _ _ _ _ (steps_polygons ois _ _ _ _ _ E1 Hp G1)
               (elem_steps_app ois _ _ _ _ (steps_flexpaths ois _ _ _ _ _ E2 Hh G2)
                  (elem_steps_app ois _ _ _ _ (steps_references ois cells _ _ _ _ _ E3 Hr G3)
                     (steps_labels ois _ _ _ _ _ _ _ E4 Hl G4)))) as Hall.
  set (c0 := mkCell (NNum i) [] []).
  destruct (Hall modal0 (k_set_cells k (c0 :: k_cells k) T_cell) c0 (k_cells k) eq_refl eq_refl) as (m' & S & A').
  exists m'. exists (match d1 ++ d2 ++ d3 ++ d4 with [] => T_cell | _ => T_elem end). split; [|exact A'].
  apply (steps_cons ois m k _ modal0 (k_set_cells k (c0 :: k_cells k) T_cell)); [discriminate| |].
  - intros rest. unfold dec_record. change OasisRecord_CELL_REF_NUM with 13. cbn [app]. rewrite rd_uint_small by lia. cbn [obnd].
    rewrite Hn. rewrite rd_uint_enc by exact Hi. cbn [obnd]. unfold modal_at_cell. cbn [DS d_cells].
    destruct k; reflexivity.
  - unfold after_elems in S. unfold rcell_g. cbn [c_name c_props c_elems].
    destruct (d1 ++ d2 ++ d3 ++ d4) as [|e0 et] eqn:Ed.
    + cbn [map rev]. subst c0. rewrite Hn in *. exact S.
    + rewrite push_eps_shape in S. subst c0. cbn [c_name c_props c_elems] in S. rewrite app_nil_r in S.
      rewrite Hn in *. destruct k; exact S.
Qed.

Lemma steps_cells ois cells : forall l pos ts st recs gcs offs ts' st',
  cells_to_oas cells pos ts st l = (recs, gcs, offs, ts', st') ->
  Forall wcell_ok l -> Forall wf_gcell gcs -> forall m k, m_abs m = true ->
  exists m' tg', steps ois m k recs m' (k_set_cells k (rev (map rcell_g gcs) ++ k_cells k) tg') /\ m_abs m' = true.
Proof.
  induction l as [|c t IH]; intros pos ts st recs gcs offs ts' st' E Hok Hg m k Ha.
  - injection E as <- <- <- <- <-. exists m, (k_target k). split; [|exact Ha]. destruct k; constructor.
  - cbn [cells_to_oas] in E.
    destruct (cell_to_oas cells ts st c) as [[[r1 d1] ts1] st1] eqn:E1.
    destruct (cells_to_oas cells (pos + reclen r1) ts1 st1 t) as [[[[r2 d2] o2] ts2] st2] eqn:E2.
    injection E as <- <- <- <- <-. inversion Hok as [|? ? Hc Ht]; subst. inversion Hg as [|? ? Hg1 Hg2]; subst.
    destruct (steps_cell ois cells ts st c r1 d1 ts1 st1 E1 Hc Hg1 m k Ha) as (m1 & tg1 & S1 & A1).
    destruct (IH _ _ _ _ _ _ _ _ E2 Ht Hg2 m1 (k_set_cells k (rcell_g d1 :: k_cells k) tg1) A1) as (m2 & tg2 & S2 & A2).
    exists m2, tg2. split; [|exact A2]. eapply steps_app; [exact S1|].
    cbn [map rev]. rewrite <- app_assoc. cbn [app]. destruct k; exact S2.
Qed.

(* ================================================================== name records *)
Ltac ds_simpl :=
  cbn [DS d_modal d_unit d_lprops d_cells d_target d_cellnames d_cn_next d_cn_props d_textstrings d_ts_next d_propnames
       d_pn_next d_propstrings d_ps_next d_table_mode k_unit k_lprops k_cells k_target k_cn k_cnn k_cnp k_ts k_tsn k_pn
       k_pnn k_ps k_psn k_md obnd].
Definition md0 (md : N * N * N * N) : N := let '(a, _, _, _) := md in a.
Definition md1 (md : N * N * N * N) : N := let '(_, b, _, _) := md in b.
Definition md2 (md : N * N * N * N) : N := let '(_, _, c, _) := md in c.
Definition md3 (md : N * N * N * N) : N := let '(_, _, _, e) := md in e.

Definition k_add_cn (k : core) (s : list N) : core :=
  mkC (k_unit k) (k_lprops k) (k_cells k) (T_cellname (k_cnn k)) ((k_cnn k, s) :: k_cn k) (k_cnn k + 1) (k_cnp k)
      (k_ts k) (k_tsn k) (k_pn k) (k_pnn k) (k_ps k) (k_psn k) (mode_set (k_md k) 0 1).
Definition k_add_ts (k : core) (s : list N) (n : N) : core :=
  mkC (k_unit k) (k_lprops k) (k_cells k) T_other (k_cn k) (k_cnn k) (k_cnp k)
      ((n, s) :: k_ts k) (k_tsn k + 1) (k_pn k) (k_pnn k) (k_ps k) (k_psn k) (mode_set (k_md k) 1 2).
Definition k_add_pn (k : core) (s : list N) (n : N) : core :=
  mkC (k_unit k) (k_lprops k) (k_cells k) T_other (k_cn k) (k_cnn k) (k_cnp k)
      (k_ts k) (k_tsn k) ((n, s) :: k_pn k) (k_pnn k + 1) (k_ps k) (k_psn k) (mode_set (k_md k) 2 2).
Definition k_add_ps (k : core) (s : list N) : core :=
  mkC (k_unit k) (k_lprops k) (k_cells k) T_other (k_cn k) (k_cnn k) (k_cnp k)
      (k_ts k) (k_tsn k) (k_pn k) (k_pnn k) ((k_psn k, s) :: k_ps k) (k_psn k + 1) (mode_set (k_md k) 3 1).

Lemma step_cellname ois m k s : wf_str s -> (md0 (k_md k) = 0 \/ md0 (k_md k) = 1) -> lookup (k_cn k) (k_cnn k) = None ->
  steps ois m k [OasisRecord_CELLNAME_IMPLICIT :: wr_cstring s] m (k_add_cn k s).
Proof.
  intros Hs Hmd Hl. apply steps_one; [discriminate|]. intros rest.
  unfold dec_record. change OasisRecord_CELLNAME_IMPLICIT with 3. cbn [app]. rewrite rd_uint_small by lia. cbn [obnd].
  unfold add_name. change (wr_cstring s) with (wr_string s). rewrite rd_string_enc by exact Hs. cbn [obnd].
  destruct k as [u lp cs tg cn cnn cnp ts tsn pn pnn ps psn [[[a b] c] e]]. cbn [DS d_table_mode mode_get k_md md0] in *.
  cbn [k_cn k_cnn] in Hl.
  replace (negb ((a =? 0) || (a =? 1))) with false by (destruct Hmd as [-> | ->]; reflexivity).
  ds_simpl. rewrite Hl. reflexivity.
Qed.

Lemma step_textstring ois m k s n : wf_str s -> wf_u n -> (md1 (k_md k) = 0 \/ md1 (k_md k) = 2) -> lookup (k_ts k) n = None ->
  steps ois m k [OasisRecord_TEXTSTRING :: wr_cstring s ++ enc_uint n] m (k_add_ts k s n).
Proof.
  intros Hs Hn Hmd Hl. apply steps_one; [discriminate|]. intros rest.
  unfold dec_record. change OasisRecord_TEXTSTRING with 6. cbn [app]. rewrite rd_uint_small by lia. cbn [obnd].
  unfold add_name. change (wr_cstring s) with (wr_string s). rewrite <- app_assoc. rewrite rd_string_enc by exact Hs. cbn [obnd].
  destruct k as [u lp cs tg cn cnn cnp ts tsn pn pnn ps psn [[[a b] c] e]]. cbn [DS d_table_mode mode_get k_md md1] in *.
  cbn [k_ts] in Hl.
  replace (negb ((b =? 0) || (b =? 2))) with false by (destruct Hmd as [-> | ->]; reflexivity).
  rewrite rd_uint_enc by exact Hn. ds_simpl. rewrite Hl. reflexivity.
Qed.

Lemma step_propname ois m k s n : wf_str s -> wf_u n -> (md2 (k_md k) = 0 \/ md2 (k_md k) = 2) -> lookup (k_pn k) n = None ->
  steps ois m k [OasisRecord_PROPNAME :: wr_cstring s ++ enc_uint n] m (k_add_pn k s n).
Proof.
  intros Hs Hn Hmd Hl. apply steps_one; [discriminate|]. intros rest.
  unfold dec_record. change OasisRecord_PROPNAME with 8. cbn [app]. rewrite rd_uint_small by lia. cbn [obnd].
  unfold add_name. change (wr_cstring s) with (wr_string s). rewrite <- app_assoc. rewrite rd_string_enc by exact Hs. cbn [obnd].
  destruct k as [u lp cs tg cn cnn cnp ts tsn pn pnn ps psn [[[a b] c] e]]. cbn [DS d_table_mode mode_get k_md md2] in *.
  cbn [k_pn] in Hl.
  replace (negb ((c =? 0) || (c =? 2))) with false by (destruct Hmd as [-> | ->]; reflexivity).
  rewrite rd_uint_enc by exact Hn. ds_simpl. rewrite Hl. reflexivity.
Qed.

Lemma step_propstring ois m k s : wf_str s -> (md3 (k_md k) = 0 \/ md3 (k_md k) = 1) -> lookup (k_ps k) (k_psn k) = None ->
  steps ois m k [OasisRecord_PROPSTRING_IMPLICIT :: wr_cstring s] m (k_add_ps k s).
Proof.
  intros Hs Hmd Hl. apply steps_one; [discriminate|]. intros rest.
  unfold dec_record. change OasisRecord_PROPSTRING_IMPLICIT with 9. cbn [app]. rewrite rd_uint_small by lia. cbn [obnd].
  unfold add_name. change (wr_cstring s) with (wr_string s). rewrite rd_string_enc by exact Hs. cbn [obnd].
  destruct k as [u lp cs tg cn cnn cnp ts tsn pn pnn ps psn [[[a b] c] e]]. cbn [DS d_table_mode mode_get k_md md3] in *.
  cbn [k_ps k_psn] in Hl.
  replace (negb ((e =? 0) || (e =? 1))) with false by (destruct Hmd as [-> | ->]; reflexivity).
  ds_simpl. rewrite Hl. reflexivity.
Qed.

(* ================================================================== END *)
Lemma enc_uint_len2 v : 128 <= v -> v < 16384 -> length (enc_uint v) = 2%nat.
Proof.
  intros H1 H2. unfold enc_uint. rewrite enc_uint_f_unfold.
  replace (128 <=? v) with true by (symmetry; apply N.leb_le; exact H1).
  rewrite enc_uint_f_unfold.
  replace (128 <=? v / 128) with false; [reflexivity|]. symmetry. apply N.leb_gt.
  apply N.div_lt_upper_bound; lia.
Qed.
Lemma enc_uint_len10 v : wf_u v -> (1 <= length (enc_uint v) <= 10)%nat.
Proof.
  intros H. split; [apply nonempty_length; apply enc_uint_nonempty|].
  apply (enc_uint_conforms_lemma v H).
Qed.

Lemma end_record_ok cn ts pn ps : wf_u cn -> wf_u ts -> wf_u pn -> wf_u ps ->
  match end_record_w cn ts pn ps with
  | code :: tail => code = 2 /\ end_ok false tail = true
  | [] => False
  end.
Proof.
  intros H1 H2 H3 H4. unfold end_record_w. split; [reflexivity|].
  set (offsets := 1 :: enc_uint cn ++ 1 :: enc_uint ts ++ 1 :: enc_uint pn ++ 1 :: enc_uint ps ++ [1; 0; 1; 0]).
  assert (HT : (12 <= length offsets <= 48)%nat).
  { subst offsets. cbn [length]. repeat (rewrite app_length; cbn [length]). pose proof (enc_uint_len10 cn H1). pose proof (enc_uint_len10 ts H2). pose proof (enc_uint_len10 pn H3).
    pose proof (enc_uint_len10 ps H4). lia. }
  set (T := length offsets) in *.
  assert (Hpad : usub 252 (N.of_nat T) = 252 - N.of_nat T) by (apply usub_ge; [lia|rewrite two64_val; lia]).
  rewrite Hpad. set (pad := 252 - N.of_nat T).
  assert (Hp1 : 128 <= pad) by (subst pad; lia). assert (Hp2 : pad < 16384) by (subst pad; lia).
  unfold end_ok. apply andb_true_iff. split.
  - apply Nat.eqb_eq. rewrite !app_length, repeat_length. rewrite (enc_uint_len2 pad Hp1 Hp2). cbn [length].
    fold T. subst pad. lia.
  - assert (Hoff : forall k, rd_count rd_uint 12 (offsets ++ k) =
                             Some ([1; cn; 1; ts; 1; pn; 1; ps; 1; 0; 1; 0], k)).
    { intros k. unfold rd_count.
      replace (N.of_nat (length (offsets ++ k)) <? 12) with false
        by (symmetry; apply N.ltb_ge; rewrite app_length; fold T; lia).
      subst offsets. change (N.to_nat 12) with 12%nat. cbn [rd_n app].
      rewrite rd_uint_small by lia. cbn [obnd]. rewrite <- !app_assoc.
      rewrite rd_uint_enc by exact H1. cbn [obnd app].
      rewrite rd_uint_small by lia. cbn [obnd]. rewrite <- !app_assoc.
      rewrite rd_uint_enc by exact H2. cbn [obnd app].
      rewrite rd_uint_small by lia. cbn [obnd]. rewrite <- !app_assoc.
      rewrite rd_uint_enc by exact H3. cbn [obnd app].
      rewrite rd_uint_small by lia. cbn [obnd]. rewrite <- !app_assoc.
      rewrite rd_uint_enc by exact H4. cbn [obnd app].
      rewrite rd_uint_small by lia. cbn [obnd]. rewrite rd_uint_small by lia. cbn [obnd].
      rewrite rd_uint_small by lia. cbn [obnd]. rewrite rd_uint_small by lia. cbn [obnd]. reflexivity. }
    rewrite Hoff.
    assert (Hstr : enc_uint pad ++ repeat 0 (N.to_nat pad) ++ [0] = wr_string (repeat 0 (N.to_nat pad)) ++ [0]).
    { unfold wr_string. rewrite repeat_length, N2Nat.id. rewrite <- app_assoc. reflexivity. }
    rewrite Hstr. rewrite rd_string_enc.
    + rewrite rd_uint_small by lia. reflexivity.
    + unfold wf_str. rewrite repeat_length, N2Nat.id. rewrite two64_val. lia.
Qed.

(* ================================================================== interning: the hash maps against key lists *)
Definition sInv (t : smap) : Prop := Inv (list N) N hash_str P_INITIAL P_THRESHOLD t.
Definition sstored (t : smap) (k : list N) (v : N) : Prop := stored (list N) N t k v.

(* [keys] = the keys in the order they were interned; the value of a key is its position *)
Definition NR (m : names) (keys : list (list N)) : Prop :=
  nm_fail m = false /\ sInv (nm_tab m) /\ NoDup keys /\
  (forall k v, sstored (nm_tab m) k v <-> nth_error keys (N.to_nat v) = Some k).

Fixpoint enum_from (s : nat) (keys : list (list N)) : list (list N * N) :=
  match keys with [] => [] | k :: t => (k, N.of_nat s) :: enum_from (S s) t end.
Lemma enum_from_in keys : forall s k v,
  In (k, v) (enum_from s keys) <-> exists i, nth_error keys i = Some k /\ v = N.of_nat (s + i).
Proof.
  induction keys as [|a t IH]; intros s k v; cbn [enum_from In].
  - split; [tauto|]. intros (i & H & _). destruct i; discriminate.
  - rewrite IH. split.
    + intros [E|(i & H1 & H2)].
      * injection E as <- <-. exists 0%nat. split; [reflexivity|]. f_equal. lia.
      * exists (S i). split; [exact H1|]. rewrite H2. f_equal. lia.
    + intros ([|i] & H1 & H2).
      * left. cbn in H1. injection H1 as <-. rewrite H2. f_equal. f_equal. lia.
      * right. exists i. split; [exact H1|]. rewrite H2. f_equal. lia.
Qed.
Lemma enum_from_fst keys : forall s, map fst (enum_from s keys) = keys.
Proof. induction keys as [|a t IH]; intros s; [reflexivity|]. cbn [enum_from map fst]. rewrite IH. reflexivity. Qed.
Lemma enum_from_length keys : forall s, length (enum_from s keys) = length keys.
Proof. induction keys as [|a t IH]; intros s; [reflexivity|]. cbn [enum_from length]. rewrite IH. reflexivity. Qed.

Lemma NR_items m keys : NR m keys ->
  NoDup (map fst (nm_items m)) /\ (forall k v, In (k, v) (nm_items m) <-> nth_error keys (N.to_nat v) = Some k) /\
  Permutation (nm_items m) (enum_from 0 keys).
Proof.
  intros (_ & HI & Hnd & Hst). destruct HI as ((Hl & Hd & Hc) & Hcnt & _).
  assert (H1 : NoDup (map fst (nm_items m))) by (apply (items_nodup (list N) N hash_str); assumption).
  assert (H2 : forall k v, In (k, v) (nm_items m) <-> nth_error keys (N.to_nat v) = Some k).
  { intros k v. unfold nm_items. rewrite <- (stored_items (list N) N hash_str) by exact Hl. apply Hst. }
  split; [exact H1|]. split; [exact H2|].
  apply NoDup_Permutation.
  - apply (NoDup_map_inv fst). exact H1.
  - apply (NoDup_map_inv fst). rewrite enum_from_fst. exact Hnd.
  - intros [k v]. rewrite H2, enum_from_in. split.
    + intros H. exists (N.to_nat v). split; [exact H|]. cbn [Nat.add]. rewrite N2Nat.id. reflexivity.
    + intros (i & Hi & ->). cbn [Nat.add]. rewrite Nat2N.id. exact Hi.
Qed.

Lemma NR_count m keys : NR m keys -> Table.count (nm_tab m) = length keys.
Proof.
  intros H. destruct (NR_items m keys H) as (_ & _ & HP). destruct H as (_ & HI & _).
  destruct HI as (_ & Hcnt & _). rewrite Hcnt. rewrite count_some_somes.
  change (somes (list N) N (slots (nm_tab m))) with (nm_items m).
  rewrite (Permutation_length HP). apply enum_from_length.
Qed.

Lemma NR_names0 : NR names0 [].
Proof.
  split; [reflexivity|]. split; [apply inv_table0|]. split; [constructor|].
  intros k v. split.
  - intros (i & Hi & _). cbn in Hi. lia.
  - destruct (N.to_nat v); discriminate.
Qed.

Definition prefix {A} (a b : list A) : Prop := exists c, b = a ++ c.
Lemma prefix_refl {A} (a : list A) : prefix a a. Proof. exists []. rewrite app_nil_r. reflexivity. Qed.
Lemma prefix_trans {A} (a b c : list A) : prefix a b -> prefix b c -> prefix a c.
Proof. intros [x ->] [y ->]. exists (x ++ y). rewrite app_assoc. reflexivity. Qed.
Lemma prefix_nth {A} (a b : list A) i x : prefix a b -> nth_error a i = Some x -> nth_error b i = Some x.
Proof.
  intros [c ->] H. rewrite nth_error_app1; [exact H|]. apply nth_error_Some. congruence.
Qed.
Lemma prefix_length {A} (a b : list A) : prefix a b -> (length a <= length b)%nat.
Proof. intros [c ->]. rewrite app_length. lia. Qed.

Lemma NoDup_snoc {A} (l : list A) x : NoDup l -> ~ In x l -> NoDup (l ++ [x]).
Proof.
  intros H1 H2. apply (Permutation_NoDup (l := x :: l)); [apply Permutation_cons_append|]. constructor; assumption.
Qed.

Lemma intern_spec m keys k : NR m keys ->
  exists keys', NR (snd (intern m k)) keys' /\ prefix keys keys' /\
                nth_error keys' (N.to_nat (fst (intern m k))) = Some k.
Proof.
  intros HNR. pose proof HNR as (Hf & HI & Hnd & Hst).
  unfold intern, s_has, s_get, s_set.
  destruct (thas_ok (list N) N Table.bytes_eqb bytes_eqb_spec hash_str P_INITIAL P_THRESHOLD (nm_tab m) k HI) as (b & Hb & Hbs).
  rewrite Hb. destruct b.
  - destruct (tget_ok (list N) N Table.bytes_eqb bytes_eqb_spec hash_str P_INITIAL P_THRESHOLD (nm_tab m) k HI) as (o & Ho & Hos).
    rewrite Ho. cbn [fst snd]. exists keys. split; [exact HNR|]. split; [apply prefix_refl|].
    destruct (proj1 Hbs eq_refl) as (v & Hv). pose proof (proj2 (Hos v) Hv) as ->. cbn [smap_get_default].
    apply Hst. exact Hv.
  - assert (Hnot : forall v, ~ sstored (nm_tab m) k v).
    { intros v Hv. assert (false = true) by (apply Hbs; exists v; exact Hv). discriminate. }
    pose proof (NR_count m keys HNR) as Hcnt.
    destruct (tset_ok (list N) N Table.bytes_eqb bytes_eqb_spec hash_str P_INITIAL P_GROWTH P_THRESHOLD 62 (nm_tab m) k
                (N.of_nat (Table.count (nm_tab m))) current_constants_ok HI) as (t' & Ht' & HI' & Hst').
    unfold tset, resize_depth. change 64%nat with (S (S 62)). rewrite Ht'. cbn [fst snd].
    exists (keys ++ [k]). split; [|split; [exists [k]; reflexivity|]].
    + split; [exact Hf|]. split; [exact HI'|]. split.
      * apply NoDup_snoc.
        -- exact Hnd.
        -- intros Hin. apply In_nth_error in Hin. destruct Hin as (i & Hi).
           apply (Hnot (N.of_nat i)). apply Hst. rewrite Nat2N.id. exact Hi.
      * intros k' v'. cbn [nm_tab]. unfold sstored. rewrite Hst'. rewrite Hcnt. split.
        -- intros [[-> ->]|[Hne Hs]].
           ++ rewrite Nat2N.id. rewrite nth_error_app2 by lia. rewrite Nat.sub_diag. reflexivity.
           ++ apply (prefix_nth keys); [exists [k]; reflexivity|]. apply Hst. exact Hs.
        -- intros H. destruct (Nat.lt_ge_cases (N.to_nat v') (length keys)) as [Hlt|Hge].
           ++ right. rewrite nth_error_app1 in H by exact Hlt. split.
              ** intros ->. apply (Hnot v'). apply Hst. exact H.
              ** apply Hst. exact H.
           ++ left. rewrite nth_error_app2 in H by exact Hge.
              destruct (N.to_nat v' - length keys)%nat as [|j] eqn:Ej; [|destruct j; discriminate].
              cbn in H. injection H as <-. split; [reflexivity|]. lia.
    + rewrite Hcnt, Nat2N.id. rewrite nth_error_app2 by lia. rewrite Nat.sub_diag. reflexivity.
Qed.

(* ================================================================== what the reference numbers point at *)
(* KF = the property names, VF = the property strings, TF = the text strings, in reference-number order, as they will be
   when the tables are written; a number handed out earlier keeps its meaning because the lists only grow *)
Definition val_res (VF : list (list N)) (nv : pval) (v : value) : Prop :=
  match v with
  | VStr s => exists n, nv = PV_ref (str_code s) n /\ nth_error VF (N.to_nat n) = Some s
  | _ => nv = view_value v
  end.
Definition prop_res (KF VF : list (list N)) (np : prop) (p : entry) : Prop :=
  exists idx, p_name np = NNum idx /\ nth_error KF (N.to_nat idx) = Some (fst p) /\
              p_std np = is_gds_property p /\ Forall2 (val_res VF) (p_vals np) (snd p).

Lemma find_index_spec s : forall pv i,
  i <= find_index s pv i <= i + N.of_nat (length pv) /\
  (find_index s pv i < i + N.of_nat (length pv) -> nth_error pv (N.to_nat (find_index s pv i - i)) = Some s).
Proof.
  induction pv as [|x t IH]; intros i; cbn [find_index length].
  - split; [lia|]. intros H. lia.
  - destruct (Table.bytes_eqb x s) eqn:E.
    + apply bytes_eqb_spec in E. subst x. split; [lia|]. intros _. rewrite N.sub_diag. reflexivity.
    + destruct (IH (i + 1)) as [H1 H2]. split; [lia|]. intros H.
      replace (N.to_nat (find_index s t (i + 1) - i)) with (S (N.to_nat (find_index s t (i + 1) - (i + 1)))) by lia.
      cbn [nth_error]. apply H2. lia.
Qed.

Lemma value_to_oas_res pv v :
  prefix pv (snd (value_to_oas pv v)) /\
  forall VF, prefix (snd (value_to_oas pv v)) VF -> val_res VF (snd (fst (value_to_oas pv v))) v.
Proof.
  destruct v as [n|z|bits|s]; cbn [value_to_oas fst snd val_res view_value];
    try (split; [apply prefix_refl|intros; reflexivity]).
  destruct (find_index_spec s pv 0) as [[_ H1] H2]. rewrite N.add_0_l, N.sub_0_r in *.
  destruct (find_index s pv 0 =? N.of_nat (length pv)) eqn:E.
  - apply N.eqb_eq in E. split; [exists [s]; reflexivity|]. intros VF HP. eexists. split; [reflexivity|].
    apply (prefix_nth _ _ _ _ HP). rewrite E, Nat2N.id. rewrite nth_error_app2 by lia. rewrite Nat.sub_diag. reflexivity.
  - apply N.eqb_neq in E. split; [apply prefix_refl|]. intros VF HP. eexists. split; [reflexivity|].
    apply (prefix_nth _ _ _ _ HP). apply H2. lia.
Qed.

Lemma val_res_mono VF VF' nv v : prefix VF VF' -> val_res VF nv v -> val_res VF' nv v.
Proof.
  intros HP. destruct v; cbn [val_res]; auto. intros (n & E & H). exists n. split; [exact E|]. apply (prefix_nth _ _ _ _ HP H).
Qed.

Lemma values_to_oas_res vs : forall pv,
  prefix pv (snd (values_to_oas pv vs)) /\
  forall VF, prefix (snd (values_to_oas pv vs)) VF -> Forall2 (val_res VF) (snd (fst (values_to_oas pv vs))) vs.
Proof.
  induction vs as [|v t IH]; intros pv; cbn [values_to_oas].
  - split; [apply prefix_refl|]. intros; constructor.
  - destruct (value_to_oas_res pv v) as [P1 R1]. destruct (value_to_oas pv v) as [[b1 d1] pv1]. cbn [fst snd] in *.
    destruct (IH pv1) as [P2 R2]. destruct (values_to_oas pv1 t) as [[b2 d2] pv2]. cbn [fst snd] in *.
    split; [eapply prefix_trans; eassumption|]. intros VF HP. constructor.
    + apply R1. eapply prefix_trans; eassumption.
    + apply R2. exact HP.
Qed.

(* the invariant of OasisState and how a writer function extends it *)
Definition st_ext (st : pstate) (K : list (list N)) (st' : pstate) (K' : list (list N)) : Prop :=
  NR (ps_names st') K' /\ prefix K K' /\ prefix (ps_vals st) (ps_vals st').
Lemma st_ext_refl st K : NR (ps_names st) K -> st_ext st K st K.
Proof. intros H. split; [exact H|]. split; apply prefix_refl. Qed.
Lemma st_ext_trans st K st1 K1 st2 K2 : st_ext st K st1 K1 -> st_ext st1 K1 st2 K2 -> st_ext st K st2 K2.
Proof.
  intros (_ & A1 & B1) (N2 & A2 & B2). split; [exact N2|]. split; eapply prefix_trans; eassumption.
Qed.

Lemma property_to_oas_res st K p : NR (ps_names st) K ->
  exists K', st_ext st K (snd (property_to_oas st p)) K' /\
             forall KF VF, prefix K' KF -> prefix (ps_vals (snd (property_to_oas st p))) VF ->
                           prop_res KF VF (snd (fst (property_to_oas st p))) p.
Proof.
  intros HNR. unfold property_to_oas.
  destruct (intern_spec (ps_names st) K (fst p) HNR) as (K' & HN' & HP & Hidx).
  destruct (intern (ps_names st) (fst p)) as [index nm]. cbn [fst snd] in *.
  destruct (values_to_oas_res (snd p) (ps_vals st)) as [PV RV].
  destruct (values_to_oas (ps_vals st) (snd p)) as [[vb vd] pv]. cbn [fst snd] in *.
  exists K'. split; [split; [exact HN'|split; assumption]|].
  intros KF VF HK HV. exists index. cbn [p_name p_std p_vals ps_vals] in *. split; [reflexivity|].
  split; [apply (prefix_nth _ _ _ _ HK Hidx)|]. split; [reflexivity|]. apply RV. exact HV.
Qed.

Lemma Forall2_imp {A B} (P Q : A -> B -> Prop) l1 l2 :
  (forall a b, P a b -> Q a b) -> Forall2 P l1 l2 -> Forall2 Q l1 l2.
Proof. intros H. induction 1; constructor; auto. Qed.

Lemma prop_res_mono KF VF KF' VF' np p : prefix KF KF' -> prefix VF VF' -> prop_res KF VF np p -> prop_res KF' VF' np p.
Proof.
  intros HK HV (idx & E & H1 & H2 & H3). exists idx. split; [exact E|]. split; [apply (prefix_nth _ _ _ _ HK H1)|].
  split; [exact H2|]. eapply Forall2_imp; [|exact H3]. intros a b. apply val_res_mono. exact HV.
Qed.

Lemma properties_to_oas_res ps : forall st K, NR (ps_names st) K ->
  exists K', st_ext st K (snd (properties_to_oas st ps)) K' /\
             forall KF VF, prefix K' KF -> prefix (ps_vals (snd (properties_to_oas st ps))) VF ->
                           Forall2 (prop_res KF VF) (snd (fst (properties_to_oas st ps))) ps.
Proof.
  induction ps as [|p t IH]; intros st K HNR; cbn [properties_to_oas].
  - exists K. split; [apply st_ext_refl; exact HNR|]. intros; constructor.
  - destruct (property_to_oas_res st K p HNR) as (K1 & E1 & R1).
    destruct (property_to_oas st p) as [[r1 d1] st1]. cbn [fst snd] in *.
    destruct (IH st1 K1 (proj1 E1)) as (K2 & E2 & R2).
    destruct (properties_to_oas st1 t) as [[r2 d2] st2]. cbn [fst snd] in *.
    exists K2. split; [eapply st_ext_trans; eassumption|]. intros KF VF HK HV. constructor.
    + apply R1; [eapply prefix_trans; [apply E2|exact HK]|eapply prefix_trans; [apply E2|exact HV]].
    + apply R2; assumption.
Qed.

(* ---- cell_name_map *)
Lemma cif_some name : forall cells i found r, cell_index_from cells name i found = Some r ->
  found = Some r \/ exists j, nth_error cells j = Some name /\ r = i + N.of_nat j.
Proof.
  induction cells as [|c t IH]; intros i found r H; cbn [cell_index_from] in H; [left; exact H|].
  destruct (IH _ _ _ H) as [E|(j & Hj & ->)].
  - destruct (Table.bytes_eqb c name) eqn:Eb; [|left; exact E].
    apply bytes_eqb_spec in Eb. subst c. injection E as <-. right. exists 0%nat. split; [reflexivity|lia].
  - right. exists (S j). split; [exact Hj|lia].
Qed.
Lemma cif_absent name : forall cells i found, ~ In name cells -> cell_index_from cells name i found = found.
Proof.
  induction cells as [|c t IH]; intros i found H; [reflexivity|]. cbn [cell_index_from].
  destruct (Table.bytes_eqb c name) eqn:Eb.
  - apply bytes_eqb_spec in Eb. subst c. exfalso. apply H. left. reflexivity.
  - apply IH. intros Hin. apply H. right. exact Hin.
Qed.
Lemma cell_index_some cells name i : cell_index cells name = Some i -> nth_error cells (N.to_nat i) = Some name.
Proof.
  intros H. destruct (cif_some name cells 0 None i H) as [E|(j & Hj & ->)]; [discriminate|].
  rewrite N.add_0_l, Nat2N.id. exact Hj.
Qed.
Lemma cell_index_nodup pre n post : NoDup (pre ++ n :: post) ->
  cell_index (pre ++ n :: post) n = Some (N.of_nat (length pre)).
Proof.
  intros Hnd. unfold cell_index.
  assert (G : forall pre i found, ~ In n pre -> ~ In n post ->
              cell_index_from (pre ++ n :: post) n i found = Some (i + N.of_nat (length pre))).
  { clear. induction pre as [|c t IH]; intros i found H1 H2.
    - cbn [app cell_index_from length]. replace (Table.bytes_eqb n n) with true by (symmetry; apply bytes_eqb_spec; reflexivity).
      rewrite cif_absent by exact H2. f_equal. lia.
    - cbn [app cell_index_from length]. rewrite IH; [f_equal; lia| |exact H2]. intros Hin. apply H1. right. exact Hin. }
  rewrite G; [reflexivity| |].
  - intros Hin. apply NoDup_remove_2 in Hnd. apply Hnd. apply in_or_app. left. exact Hin.
  - intros Hin. apply NoDup_remove_2 in Hnd. apply Hnd. apply in_or_app. right. exact Hin.
Qed.

(* ---- elements *)
Definition elem_res (TF CN : list (list N)) (ge ev : element) : Prop :=
  match ge with
  | E_text (NNum i) l t x y r => exists s, nth_error TF (N.to_nat i) = Some s /\ ev = E_text (NName s) l t x y r
  | E_place (NNum i) tr f x y r => exists s, nth_error CN (N.to_nat i) = Some s /\ ev = E_place (NName s) tr f x y r
  | _ => ev = ge
  end.
Definition gep_res (KF VF TF CN : list (list N)) (gep : element * list prop) (vep : element * wprops) : Prop :=
  elem_res TF CN (fst gep) (fst vep) /\ Forall2 (prop_res KF VF) (snd gep) (snd vep).

(* the elements a cell denotes, their properties still as the writer holds them *)
Definition pview_poly (p : wpoly) : element * wprops := (fst (view_poly p), py_props p).
Definition pview_path_element (h : wpath) (el : wpel) : element * wprops := (fst (view_path_element h el), ph_props h).
Definition pview_path (h : wpath) : list (element * wprops) :=
  if (length (ph_pts h) <? 2)%nat then [] else map (pview_path_element h) (ph_els h).
Definition pview_ref (r : wref) : element * wprops := (fst (view_ref r), rf_props r).
Definition pview_label (t : wlabel) : element * wprops := (fst (view_label t), lb_props t).
Definition pview_elems (c : wcell) : list (element * wprops) :=
  map pview_poly (cl_polys c) ++ flat_map pview_path (cl_paths c) ++ map pview_ref (cl_refs c) ++
  map pview_label (cl_labels c).
Definition vp (ep : element * wprops) : element * list prop := (fst ep, view_props (snd ep)).

Lemma polygon_to_oas_res CN st K p : NR (ps_names st) K ->
  exists K', st_ext st K (snd (polygon_to_oas st p)) K' /\
             forall KF VF TF, prefix K' KF -> prefix (ps_vals (snd (polygon_to_oas st p))) VF ->
                              gep_res KF VF TF CN (snd (fst (polygon_to_oas st p))) (pview_poly p).
Proof.
  intros HNR. unfold polygon_to_oas. destruct (properties_to_oas_res (py_props p) st K HNR) as (K' & E & R).
  destruct (properties_to_oas st (py_props p)) as [[pr pd] st1]. cbn [fst snd] in *.
  exists K'. split; [exact E|]. intros KF VF TF HK HV. split; [reflexivity|].
  apply R; assumption.
Qed.

Lemma path_element_to_oas_res CN st K h el : NR (ps_names st) K ->
  exists K', st_ext st K (snd (path_element_to_oas st h el)) K' /\
             forall KF VF TF, prefix K' KF -> prefix (ps_vals (snd (path_element_to_oas st h el))) VF ->
                              gep_res KF VF TF CN (snd (fst (path_element_to_oas st h el))) (pview_path_element h el).
Proof.
  intros HNR. unfold path_element_to_oas. destruct (properties_to_oas_res (ph_props h) st K HNR) as (K' & E & R).
  destruct (properties_to_oas st (ph_props h)) as [[pr pd] st1]. cbn [fst snd] in *.
  exists K'. split; [exact E|]. intros KF VF TF HK HV. split; [reflexivity|].
  apply R; assumption.
Qed.

Lemma gep_res_mono KF VF TF KF' VF' TF' CN g v :
  prefix KF KF' -> prefix VF VF' -> prefix TF TF' -> gep_res KF VF TF CN g v -> gep_res KF' VF' TF' CN g v.
Proof.
  intros HK HV HT [H1 H2]. split.
  - unfold elem_res in *. destruct (fst g) as [| | | | | |[s|i] ? ? ? ? ?|[s|i] ? ? ? ? ?]; auto.
    destruct H1 as (s & Hs & Ev). exists s. split; [apply (prefix_nth _ _ _ _ HT Hs)|exact Ev].
  - eapply Forall2_imp; [|exact H2]. intros a b. apply prop_res_mono; assumption.
Qed.

Lemma path_elements_to_oas_res CN h : forall els st K, NR (ps_names st) K ->
  exists K', st_ext st K (snd (path_elements_to_oas st h els)) K' /\
             forall KF VF TF, prefix K' KF -> prefix (ps_vals (snd (path_elements_to_oas st h els))) VF ->
                              Forall2 (gep_res KF VF TF CN) (snd (fst (path_elements_to_oas st h els)))
                                      (map (pview_path_element h) els).
Proof.
  induction els as [|el t IH]; intros st K HNR; cbn [path_elements_to_oas].
  - exists K. split; [apply st_ext_refl; exact HNR|]. intros; constructor.
  - destruct (path_element_to_oas_res CN st K h el HNR) as (K1 & E1 & R1).
    destruct (path_element_to_oas st h el) as [[r1 d1] st1]. cbn [fst snd] in *.
    destruct (IH st1 K1 (proj1 E1)) as (K2 & E2 & R2).
    destruct (path_elements_to_oas st1 h t) as [[r2 d2] st2]. cbn [fst snd] in *.
    exists K2. split; [eapply st_ext_trans; eassumption|]. intros KF VF TF HK HV. cbn [map]. constructor.
    + apply R1; [eapply prefix_trans; [apply E2|exact HK]|eapply prefix_trans; [apply E2|exact HV]].
    + apply R2; assumption.
Qed.

Lemma flexpath_to_oas_res CN st K h : NR (ps_names st) K ->
  exists K', st_ext st K (snd (flexpath_to_oas st h)) K' /\
             forall KF VF TF, prefix K' KF -> prefix (ps_vals (snd (flexpath_to_oas st h))) VF ->
                              Forall2 (gep_res KF VF TF CN) (snd (fst (flexpath_to_oas st h))) (pview_path h).
Proof.
  intros HNR. unfold flexpath_to_oas, pview_path. destruct (length (ph_pts h) <? 2)%nat.
  - exists K. split; [apply st_ext_refl; exact HNR|]. intros; constructor.
  - apply path_elements_to_oas_res. exact HNR.
Qed.

Lemma reference_to_oas_res cells st K r : NR (ps_names st) K ->
  exists K', st_ext st K (snd (reference_to_oas cells st r)) K' /\
             forall KF VF TF, prefix K' KF -> prefix (ps_vals (snd (reference_to_oas cells st r))) VF ->
                              gep_res KF VF TF cells (snd (fst (reference_to_oas cells st r))) (pview_ref r).
Proof.
  intros HNR. unfold reference_to_oas. destruct (properties_to_oas_res (rf_props r) st K HNR) as (K' & E & R).
  destruct (properties_to_oas st (rf_props r)) as [[pr pd] st1]. cbn [fst snd] in *.
  assert (Hel : forall tr, elem_res [] cells
                  (E_place (match cell_index cells (rf_name r) with Some i => NNum i | None => NName (rf_name r) end)
                           tr (rf_flip r) (rf_x r) (rf_y r) (view_rep (rf_rep r)))
                  (E_place (NName (rf_name r)) tr (rf_flip r) (rf_x r) (rf_y r) (view_rep (rf_rep r)))).
  { intros tr. cbn [elem_res]. destruct (cell_index cells (rf_name r)) as [i|] eqn:Ei; [|reflexivity].
    exists (rf_name r). split; [apply cell_index_some; exact Ei|reflexivity]. }
  assert (Hel' : forall TF tr, elem_res TF cells
                  (E_place (match cell_index cells (rf_name r) with Some i => NNum i | None => NName (rf_name r) end)
                           tr (rf_flip r) (rf_x r) (rf_y r) (view_rep (rf_rep r)))
                  (E_place (NName (rf_name r)) tr (rf_flip r) (rf_x r) (rf_y r) (view_rep (rf_rep r)))).
  { intros TF tr. specialize (Hel tr). cbn [elem_res] in *. destruct (cell_index cells (rf_name r)); exact Hel. }
  unfold pview_ref, view_ref, view_trans.
  destruct (if b64_is_one (rf_mag r) then rf_quarter r else None) as [q|]; cbn [fst snd].
  - exists K'. split; [exact E|]. intros KF VF TF HK HV. split; [apply Hel'|]. apply R; assumption.
  - exists K'. split; [exact E|]. intros KF VF TF HK HV. split.
    + cbn [fst]. destruct (b64_is_one (rf_mag r)), (b64_is_zero (rf_rot r)); cbn [negb]; apply Hel'.
    + apply R; assumption.
Qed.

Lemma label_to_oas_res CN ts T st K t : NR ts T -> NR (ps_names st) K ->
  exists T' K', NR (snd (fst (label_to_oas ts st t))) T' /\ prefix T T' /\
                st_ext st K (snd (label_to_oas ts st t)) K' /\
                forall KF VF TF, prefix K' KF -> prefix (ps_vals (snd (label_to_oas ts st t))) VF -> prefix T' TF ->
                                 gep_res KF VF TF CN (snd (fst (fst (label_to_oas ts st t)))) (pview_label t).
Proof.
  intros HT HNR. unfold label_to_oas.
  destruct (intern_spec ts T (lb_text t) HT) as (T' & HT' & HPT & Hidx).
  destruct (intern ts (lb_text t)) as [index ts1]. cbn [fst snd] in *.
  destruct (properties_to_oas_res (lb_props t) st K HNR) as (K' & E & R).
  destruct (properties_to_oas st (lb_props t)) as [[pr pd] st1]. cbn [fst snd] in *.
  exists T', K'. split; [exact HT'|]. split; [exact HPT|]. split; [exact E|].
  intros KF VF TF HK HV HTF. split.
  - cbn [fst elem_res view_label pview_label]. exists (lb_text t). split; [apply (prefix_nth _ _ _ _ HTF Hidx)|reflexivity].
  - apply R; assumption.
Qed.

Lemma Forall2_app_intro {A B} (P : A -> B -> Prop) a1 b1 a2 b2 :
  Forall2 P a1 b1 -> Forall2 P a2 b2 -> Forall2 P (a1 ++ a2) (b1 ++ b2).
Proof. induction 1; intros H2; [exact H2|]. cbn [app]. constructor; auto. Qed.

Lemma polygons_to_oas_res CN : forall l st K, NR (ps_names st) K ->
  exists K', st_ext st K (snd (polygons_to_oas st l)) K' /\
             forall KF VF TF, prefix K' KF -> prefix (ps_vals (snd (polygons_to_oas st l))) VF ->
                              Forall2 (gep_res KF VF TF CN) (snd (fst (polygons_to_oas st l))) (map pview_poly l).
Proof.
  induction l as [|p t IH]; intros st K HNR; cbn [polygons_to_oas].
  - exists K. split; [apply st_ext_refl; exact HNR|]. intros; constructor.
  - destruct (polygon_to_oas_res CN st K p HNR) as (K1 & E1 & R1).
    destruct (polygon_to_oas st p) as [[r1 d1] st1]. cbn [fst snd] in *.
    destruct (IH st1 K1 (proj1 E1)) as (K2 & E2 & R2).
    destruct (polygons_to_oas st1 t) as [[r2 d2] st2]. cbn [fst snd] in *.
    exists K2. split; [eapply st_ext_trans; eassumption|]. intros KF VF TF HK HV. cbn [map]. constructor.
    + apply R1; [eapply prefix_trans; [apply E2|exact HK]|eapply prefix_trans; [apply E2|exact HV]].
    + apply R2; assumption.
Qed.
Lemma flexpaths_to_oas_res CN : forall l st K, NR (ps_names st) K ->
  exists K', st_ext st K (snd (flexpaths_to_oas st l)) K' /\
             forall KF VF TF, prefix K' KF -> prefix (ps_vals (snd (flexpaths_to_oas st l))) VF ->
                              Forall2 (gep_res KF VF TF CN) (snd (fst (flexpaths_to_oas st l))) (flat_map pview_path l).
Proof.
  induction l as [|p t IH]; intros st K HNR; cbn [flexpaths_to_oas].
  - exists K. split; [apply st_ext_refl; exact HNR|]. intros; constructor.
  - destruct (flexpath_to_oas_res CN st K p HNR) as (K1 & E1 & R1).
    destruct (flexpath_to_oas st p) as [[r1 d1] st1]. cbn [fst snd] in *.
    destruct (IH st1 K1 (proj1 E1)) as (K2 & E2 & R2).
    destruct (flexpaths_to_oas st1 t) as [[r2 d2] st2]. cbn [fst snd] in *.
    exists K2. split; [eapply st_ext_trans; eassumption|]. intros KF VF TF HK HV. cbn [flat_map]. apply Forall2_app_intro.
    + apply R1; [eapply prefix_trans; [apply E2|exact HK]|eapply prefix_trans; [apply E2|exact HV]].
    + apply R2; assumption.
Qed.
Lemma references_to_oas_res cells : forall l st K, NR (ps_names st) K ->
  exists K', st_ext st K (snd (references_to_oas cells st l)) K' /\
             forall KF VF TF, prefix K' KF -> prefix (ps_vals (snd (references_to_oas cells st l))) VF ->
                              Forall2 (gep_res KF VF TF cells) (snd (fst (references_to_oas cells st l))) (map pview_ref l).
Proof.
  induction l as [|p t IH]; intros st K HNR; cbn [references_to_oas].
  - exists K. split; [apply st_ext_refl; exact HNR|]. intros; constructor.
  - destruct (reference_to_oas_res cells st K p HNR) as (K1 & E1 & R1).
    destruct (reference_to_oas cells st p) as [[r1 d1] st1]. cbn [fst snd] in *.
    destruct (IH st1 K1 (proj1 E1)) as (K2 & E2 & R2).
    destruct (references_to_oas cells st1 t) as [[r2 d2] st2]. cbn [fst snd] in *.
    exists K2. split; [eapply st_ext_trans; eassumption|]. intros KF VF TF HK HV. cbn [map]. constructor.
    + apply R1; [eapply prefix_trans; [apply E2|exact HK]|eapply prefix_trans; [apply E2|exact HV]].
    + apply R2; assumption.
Qed.
Lemma labels_to_oas_res CN : forall l ts T st K, NR ts T -> NR (ps_names st) K ->
  exists T' K', NR (snd (fst (labels_to_oas ts st l))) T' /\ prefix T T' /\
                st_ext st K (snd (labels_to_oas ts st l)) K' /\
                forall KF VF TF, prefix K' KF -> prefix (ps_vals (snd (labels_to_oas ts st l))) VF -> prefix T' TF ->
                                 Forall2 (gep_res KF VF TF CN) (snd (fst (fst (labels_to_oas ts st l)))) (map pview_label l).
Proof.
  induction l as [|p t IH]; intros ts T st K HT HNR; cbn [labels_to_oas].
  - exists T, K. split; [exact HT|]. split; [apply prefix_refl|]. split; [apply st_ext_refl; exact HNR|]. intros; constructor.
  - destruct (label_to_oas_res CN ts T st K p HT HNR) as (T1 & K1 & HT1 & PT1 & E1 & R1).
    destruct (label_to_oas ts st p) as [[[r1 d1] ts1] st1]. cbn [fst snd] in *.
    destruct (IH ts1 T1 st1 K1 HT1 (proj1 E1)) as (T2 & K2 & HT2 & PT2 & E2 & R2).
    destruct (labels_to_oas ts1 st1 t) as [[[r2 d2] ts2] st2]. cbn [fst snd] in *.
    exists T2, K2. split; [exact HT2|]. split; [eapply prefix_trans; eassumption|].
    split; [eapply st_ext_trans; eassumption|]. intros KF VF TF HK HV HTF. cbn [map]. constructor.
    + apply R1; [eapply prefix_trans; [apply E2|exact HK]|eapply prefix_trans; [apply E2|exact HV]|
                 eapply prefix_trans; [exact PT2|exact HTF]].
    + apply R2; assumption.
Qed.

(* ---- a cell *)
Definition cell_res (KF VF TF CN : list (list N)) (i : N) (gc : cell) (c : wcell) : Prop :=
  c_name gc = NNum i /\ c_props gc = [] /\
  Forall2 (gep_res KF VF TF CN) (c_elems gc) (pview_elems c).

Lemma cell_to_oas_res cells ts T st K c i : NR ts T -> NR (ps_names st) K -> cell_index cells (cl_name c) = Some i ->
  exists T' K', NR (snd (fst (cell_to_oas cells ts st c))) T' /\ prefix T T' /\
                st_ext st K (snd (cell_to_oas cells ts st c)) K' /\
                forall KF VF TF, prefix K' KF -> prefix (ps_vals (snd (cell_to_oas cells ts st c))) VF -> prefix T' TF ->
                                 cell_res KF VF TF cells i (snd (fst (fst (cell_to_oas cells ts st c)))) c.
Proof.
  intros HT HNR Hi. unfold cell_to_oas. rewrite Hi.
  destruct (polygons_to_oas_res cells (cl_polys c) st K HNR) as (K1 & E1 & R1).
  destruct (polygons_to_oas st (cl_polys c)) as [[r1 d1] st1]. cbn [fst snd] in *.
  destruct (flexpaths_to_oas_res cells (cl_paths c) st1 K1 (proj1 E1)) as (K2 & E2 & R2).
  destruct (flexpaths_to_oas st1 (cl_paths c)) as [[r2 d2] st2]. cbn [fst snd] in *.
  destruct (references_to_oas_res cells (cl_refs c) st2 K2 (proj1 E2)) as (K3 & E3 & R3).
  destruct (references_to_oas cells st2 (cl_refs c)) as [[r3 d3] st3]. cbn [fst snd] in *.
  destruct (labels_to_oas_res cells (cl_labels c) ts T st3 K3 HT (proj1 E3)) as (T4 & K4 & HT4 & PT4 & E4 & R4).
  destruct (labels_to_oas ts st3 (cl_labels c)) as [[[r4 d4] ts4] st4]. cbn [fst snd] in *.
  exists T4, K4. split; [exact HT4|]. split; [exact PT4|].
  split; [eapply st_ext_trans; [eapply st_ext_trans; [eapply st_ext_trans; [exact E1|exact E2]|exact E3]|exact E4]|].
  intros KF VF TF HK HV HTF. split; [reflexivity|]. split; [reflexivity|]. cbn [c_elems]. unfold pview_elems.
  destruct E2 as (_ & P2K & P2V), E3 as (_ & P3K & P3V), E4 as (_ & P4K & P4V).
  repeat apply Forall2_app_intro.
  - apply R1; [eapply prefix_trans; [exact P2K|]; eapply prefix_trans; [exact P3K|]; eapply prefix_trans; [exact P4K|exact HK]
              |eapply prefix_trans; [exact P2V|]; eapply prefix_trans; [exact P3V|]; eapply prefix_trans; [exact P4V|exact HV]].
  - apply R2; [eapply prefix_trans; [exact P3K|]; eapply prefix_trans; [exact P4K|exact HK]
              |eapply prefix_trans; [exact P3V|]; eapply prefix_trans; [exact P4V|exact HV]].
  - apply R3; [eapply prefix_trans; [exact P4K|exact HK]|eapply prefix_trans; [exact P4V|exact HV]].
  - apply R4; assumption.
Qed.

Definition cells_res (KF VF TF CN : list (list N)) (gcs : list cell) (l : list wcell) : Prop :=
  Forall2 (fun gc c => exists i, cell_index CN (cl_name c) = Some i /\ cell_res KF VF TF CN i gc c) gcs l.

Lemma cells_to_oas_res cells : forall l pre pos ts T st K,
  cells = pre ++ map cl_name l -> NoDup cells -> NR ts T -> NR (ps_names st) K ->
  exists T' K', NR (snd (fst (cells_to_oas cells pos ts st l))) T' /\ prefix T T' /\
                st_ext st K (snd (cells_to_oas cells pos ts st l)) K' /\
                forall KF VF TF, prefix K' KF -> prefix (ps_vals (snd (cells_to_oas cells pos ts st l))) VF -> prefix T' TF ->
                                 cells_res KF VF TF cells (snd (fst (fst (fst (cells_to_oas cells pos ts st l))))) l.
Proof.
  induction l as [|c t IH]; intros pre pos ts T st K Hc Hnd HT HNR; cbn [cells_to_oas].
  - exists T, K. split; [exact HT|]. split; [apply prefix_refl|]. split; [apply st_ext_refl; exact HNR|]. intros; constructor.
  - cbn [map] in Hc.
    assert (Hi : cell_index cells (cl_name c) = Some (N.of_nat (length pre))).
    { rewrite Hc. apply cell_index_nodup. rewrite <- Hc. exact Hnd. }
    destruct (cell_to_oas_res cells ts T st K c _ HT HNR Hi) as (T1 & K1 & HT1 & PT1 & E1 & R1).
    destruct (cell_to_oas cells ts st c) as [[[r1 d1] ts1] st1]. cbn [fst snd] in *.
    destruct (IH (pre ++ [cl_name c]) (pos + reclen r1) ts1 T1 st1 K1) as (T2 & K2 & HT2 & PT2 & E2 & R2);
      [rewrite <- app_assoc; exact Hc|exact Hnd|exact HT1|exact (proj1 E1)|].
    destruct (cells_to_oas cells (pos + reclen r1) ts1 st1 t) as [[[[r2 d2] o2] ts2] st2]. cbn [fst snd] in *.
    exists T2, K2. split; [exact HT2|]. split; [eapply prefix_trans; eassumption|].
    split; [eapply st_ext_trans; eassumption|]. intros KF VF TF HK HV HTF. constructor.
    + exists (N.of_nat (length pre)). split; [exact Hi|].
      apply R1; [eapply prefix_trans; [apply E2|exact HK]|eapply prefix_trans; [apply E2|exact HV]|
                 eapply prefix_trans; [exact PT2|exact HTF]].
    + apply R2; assumption.
Qed.

Lemma cellnames_to_oas_res cfg cells offs : forall l st K, NR (ps_names st) K ->
  exists K', st_ext st K (snd (cellnames_to_oas cfg cells offs st l)) K' /\
             forall KF VF, prefix K' KF -> prefix (ps_vals (snd (cellnames_to_oas cfg cells offs st l))) VF ->
                           Forall2 (fun pd c => Forall2 (prop_res KF VF) pd
                                                        (cellname_props cfg c (cell_offset_of cells offs (cl_name c))))
                                   (snd (fst (cellnames_to_oas cfg cells offs st l))) l.
Proof.
  induction l as [|c t IH]; intros st K HNR; cbn [cellnames_to_oas].
  - exists K. split; [apply st_ext_refl; exact HNR|]. intros; constructor.
  - destruct (properties_to_oas_res (cellname_props cfg c (cell_offset_of cells offs (cl_name c))) st K HNR) as (K1 & E1 & R1).
    destruct (properties_to_oas st (cellname_props cfg c (cell_offset_of cells offs (cl_name c)))) as [[pr pd] st1].
    cbn [fst snd] in *.
    destruct (IH st1 K1 (proj1 E1)) as (K2 & E2 & R2).
    destruct (cellnames_to_oas cfg cells offs st1 t) as [[r2 d2] st2]. cbn [fst snd] in *.
    exists K2. split; [eapply st_ext_trans; eassumption|]. intros KF VF HK HV. constructor.
    + apply R1; [eapply prefix_trans; [apply E2|exact HK]|eapply prefix_trans; [apply E2|exact HV]].
    + apply R2; assumption.
Qed.

(* ================================================================== well-formedness of what is written *)
Definition wval_ok (v : value) : Prop :=
  match v with VUInt n => wf_u n | VInt z => fits63 z | VReal _ => True | VStr s => wf_str s end.
Definition wprop_ok (p : entry) : Prop :=
  wf_str (fst p) /\ wf_u (N.of_nat (length (snd p))) /\ Forall wval_ok (snd p).
Definition wprops_ok (ps : wprops) : Prop := Forall wprop_ok ps.
Definition len_ok {A} (l : list A) : Prop := N.of_nat (length l) < two64.

Lemma nth_error_wf {A} (l : list A) (i : N) x : len_ok l -> nth_error l (N.to_nat i) = Some x -> wf_u i.
Proof.
  intros H E. assert (N.to_nat i < length l)%nat by (apply nth_error_Some; congruence). unfold len_ok, wf_u in *. lia.
Qed.

Lemma str_code_cases s : str_code s = 13 \/ str_code s = 14 \/ str_code s = 15.
Proof. unfold str_code. destruct (is_binary s); [tauto|]. destruct (has_space s); tauto. Qed.

Lemma val_res_wf VF nv v : val_res VF nv v -> wval_ok v -> len_ok VF -> wf_pval nv.
Proof.
  intros H Hok HL. destruct v as [n|z|bits|s]; cbn [val_res wval_ok view_value] in *.
  - subst nv. exact Hok.
  - subst nv. exact Hok.
  - subst nv. apply wf_real_of_bits.
  - destruct H as (n & -> & Hn). cbn [wf_pval]. split; [apply str_code_cases|]. apply (nth_error_wf VF n s HL Hn).
Qed.

Lemma Forall2_length_eq {A B} (P : A -> B -> Prop) l1 l2 : Forall2 P l1 l2 -> length l1 = length l2.
Proof. induction 1; cbn [length]; congruence. Qed.

Lemma prop_res_wf KF VF np p : prop_res KF VF np p -> wprop_ok p -> len_ok KF -> len_ok VF -> wf_nprop np.
Proof.
  intros (idx & En & Hk & _ & Hv) (_ & Hc & Hvals) HLK HLV. split; [|split].
  - exists idx. split; [exact En|]. apply (nth_error_wf KF idx _ HLK Hk).
  - rewrite (Forall2_length_eq _ _ _ Hv). exact Hc.
  - clear Hc. revert Hvals. induction Hv as [|nv v nvs vs H1 H2 IH]; intros Hvals; [constructor|].
    inversion Hvals as [|? ? Hv1 Hv2]; subst. constructor; [apply (val_res_wf VF nv v H1 Hv1 HLV)|apply IH; exact Hv2].
Qed.

Lemma props_res_wf KF VF nps ps : Forall2 (prop_res KF VF) nps ps -> wprops_ok ps -> len_ok KF -> len_ok VF -> Forall wf_nprop nps.
Proof.
  intros H Hok HLK HLV. revert Hok. induction H as [|np p nps ps H1 H2 IH]; intros Hok; [constructor|].
  inversion Hok as [|? ? Hp Ht]; subst. constructor; [apply (prop_res_wf KF VF np p H1 Hp HLK HLV)|apply IH; exact Ht].
Qed.

Lemma gep_res_wf KF VF TF CN gep vep :
  gep_res KF VF TF CN gep vep -> wprops_ok (snd vep) -> len_ok KF -> len_ok VF -> len_ok TF -> len_ok CN -> wf_gep gep.
Proof.
  intros [H1 H2] Hok HLK HLV HLT HLC. split; [|apply (props_res_wf KF VF _ _ H2 Hok HLK HLV)].
  unfold elem_res in H1. unfold wf_gelem. destruct (fst gep) as [| | | | | |[s|i] ? ? ? ? ?|[s|i] ? ? ? ? ?]; auto.
  - destruct H1 as (s & Hs & _). apply (nth_error_wf TF i s HLT Hs).
  - destruct H1 as (s & Hs & _). apply (nth_error_wf CN i s HLC Hs).
Qed.

(* ================================================================== resolution at END *)
Definition agrees (tab : table) (keys : list (list N)) : Prop :=
  forall i s, nth_error keys i = Some s -> lookup tab (N.of_nat i) = Some s.

Lemma str_kind_code s : str_code s - 3 = str_kind s.
Proof. unfold str_code, str_kind. destruct (is_binary s); [reflexivity|]. destruct (has_space s); reflexivity. Qed.

Lemma vals_res_resolve PS VF nvs vs : agrees PS VF -> Forall2 (val_res VF) nvs vs ->
  omap (resolve_pval PS) nvs = Some (map view_value vs).
Proof.
  intros Ha H. induction H as [|nv v nvs vs H1 H2 IH]; [reflexivity|].
  cbn [omap map]. rewrite IH.
  assert (E : resolve_pval PS nv = Some (view_value v)).
  { destruct v as [n|z|bits|s]; cbn [val_res view_value] in H1; try (subst nv; reflexivity).
    destruct H1 as (n & -> & Hn). cbn [resolve_pval]. specialize (Ha _ _ Hn). rewrite N2Nat.id in Ha. rewrite Ha.
    rewrite str_kind_code. reflexivity. }
  rewrite E. reflexivity.
Qed.

Lemma prop_res_resolve PN PS KF VF np p : agrees PN KF -> agrees PS VF -> prop_res KF VF np p ->
  resolve_prop PN PS np = Some (view_prop p).
Proof.
  intros HaK HaV (idx & En & Hk & Hs & Hv). unfold resolve_prop. rewrite En. cbn [resolve_nref].
  specialize (HaK _ _ Hk). rewrite N2Nat.id in HaK. rewrite HaK. cbn [obnd].
  rewrite (vals_res_resolve PS VF _ _ HaV Hv). cbn [obnd]. rewrite Hs. reflexivity.
Qed.

Lemma props_res_resolve PN PS KF VF nps ps : agrees PN KF -> agrees PS VF -> Forall2 (prop_res KF VF) nps ps ->
  omap (resolve_prop PN PS) nps = Some (view_props ps).
Proof.
  intros HaK HaV H. induction H as [|np p nps ps H1 H2 IH]; [reflexivity|].
  cbn [omap]. rewrite (prop_res_resolve PN PS KF VF np p HaK HaV H1). cbn [obnd]. rewrite IH. reflexivity.
Qed.

Lemma gep_res_resolve CNt TSt PN PS KF VF TF CN gep vep :
  agrees CNt CN -> agrees TSt TF -> agrees PN KF -> agrees PS VF -> gep_res KF VF TF CN gep vep ->
  resolve_elem CNt TSt (fst gep) = Some (fst vep) /\ omap (resolve_prop PN PS) (snd gep) = Some (view_props (snd vep)).
Proof.
  intros HaC HaT HaK HaV [H1 H2]. split; [|apply (props_res_resolve PN PS KF VF _ _ HaK HaV H2)].
  unfold elem_res in H1. destruct (fst gep) as [| | | | | |[s|i] ? ? ? ? ?|[s|i] ? ? ? ? ?]; try (rewrite H1; reflexivity).
  - destruct H1 as (s & Hs & ->). cbn [resolve_elem resolve_nref]. specialize (HaT _ _ Hs). rewrite N2Nat.id in HaT.
    rewrite HaT. reflexivity.
  - destruct H1 as (s & Hs & ->). cbn [resolve_elem resolve_nref]. specialize (HaC _ _ Hs). rewrite N2Nat.id in HaC.
    rewrite HaC. reflexivity.
Qed.

(* ================================================================== the name-table phases *)
Definition swap_kv (kv : list N * N) : N * list N := (snd kv, fst kv).

(* ---- CELLNAME records with their properties *)
Fixpoint cnp_list (s : nat) (pds : list (list prop)) : list (N * prop) :=
  match pds with [] => [] | pd :: t => map (fun p => (N.of_nat s, p)) pd ++ cnp_list (S s) t end.

Definition k_after_cellnames (k : core) (s : nat) (names : list (list N)) (pds : list (list prop)) : core :=
  mkC (k_unit k) (k_lprops k) (k_cells k)
      (match names with [] => k_target k | _ => T_cellname (N.of_nat (s + length names - 1)) end)
      (rev (map swap_kv (enum_from s names)) ++ k_cn k) (N.of_nat (s + length names))
      (rev (cnp_list s pds) ++ k_cnp k) (k_ts k) (k_tsn k) (k_pn k) (k_pnn k) (k_ps k) (k_psn k)
      (match names with [] => k_md k | _ => mode_set (k_md k) 0 1 end).

Lemma lookup_app_none t1 t2 j : lookup t1 j = None -> lookup (t1 ++ t2) j = lookup t2 j.
Proof.
  induction t1 as [|[a b] t IH]; intros H; [reflexivity|]. cbn [lookup app] in *.
  destruct (a =? j); [discriminate|]. apply IH. exact H.
Qed.
Lemma lookup_enum_none names : forall s j, (forall i, (i < length names)%nat -> j <> N.of_nat (s + i)) ->
  lookup (rev (map swap_kv (enum_from s names))) j = None.
Proof.
  induction names as [|n t IH]; intros s j H; [reflexivity|].
  cbn [enum_from map rev swap_kv fst snd]. 
  assert (G : forall l, lookup l j = None -> lookup (l ++ [(N.of_nat s, n)]) j = None).
  { intros l Hl. rewrite lookup_app_none by exact Hl. cbn [lookup]. 
    replace (N.of_nat s =? j) with false; [reflexivity|]. symmetry. apply N.eqb_neq. intros E.
    apply (H 0%nat); [cbn; lia|]. rewrite <- E. f_equal. lia. }
  apply G. apply IH. intros i Hi. specialize (H (S i)). cbn [length] in H. replace (S s + i)%nat with (s + S i)%nat by lia.
  apply H. lia.
Qed.

Lemma steps_cellnames ois cfg cells offs : forall l st recs pds st',
  cellnames_to_oas cfg cells offs st l = (recs, pds, st') ->
  Forall (fun c => wf_str (cl_name c)) l -> Forall (Forall wf_nprop) pds ->
  forall m k s, m_abs m = true -> (md0 (k_md k) = 0 \/ md0 (k_md k) = 1) -> k_cnn k = N.of_nat s ->
    (forall j, N.of_nat s <= j -> lookup (k_cn k) j = None) ->
    exists m', steps ois m k recs m' (k_after_cellnames k s (map cl_name l) pds) /\ m_abs m' = true.
Proof.
  induction l as [|c t IH]; intros st recs pds st' E Hn Hp m k s Ha Hmd Hcnn Hlk.
  - injection E as <- <- <-. exists m. split; [|exact Ha]. unfold k_after_cellnames. cbn [map enum_from rev app cnp_list length].
    rewrite Nat.add_0_r, <- Hcnn. destruct k; constructor.
  - cbn [cellnames_to_oas] in E.
    pose proof (properties_to_oas_enc (cellname_props cfg c (cell_offset_of cells offs (cl_name c))) st) as Hpr.
    destruct (properties_to_oas st (cellname_props cfg c (cell_offset_of cells offs (cl_name c)))) as [[pr pd] st1].
    cbn [fst snd] in Hpr. subst pr.
    destruct (cellnames_to_oas cfg cells offs st1 t) as [[r2 d2] st2] eqn:E2.
    injection E as <- <- <-. inversion Hn as [|? ? Hc Ht]; subst. inversion Hp as [|? ? Hp1 Hp2]; subst.
    pose proof (step_cellname ois m k (cl_name c) Hc Hmd ltac:(apply Hlk; rewrite Hcnn; lia)) as S1.
    destruct (steps_props_cellname ois (k_cnn k) pd m (k_add_cn k (cl_name c)) Hp1 eq_refl Ha) as (m1 & S2 & A1).
    set (k1 := k_set_cnp (k_add_cn k (cl_name c)) (rev (map (fun p => (k_cnn k, p)) pd) ++ k_cnp (k_add_cn k (cl_name c)))) in *.
    destruct (IH st1 r2 d2 st2 E2 Ht Hp2 m1 k1 (S s) A1) as (m2 & S3 & A2).
    + subst k1. destruct k as [? ? ? ? ? ? ? ? ? ? ? ? ? [[[a b] c0] e]]. cbn. right. reflexivity.
    + subst k1. cbn [k_set_cnp k_add_cn k_cnn]. rewrite Hcnn. lia.
    + intros j Hj. subst k1. cbn [k_set_cnp k_add_cn k_cn lookup]. rewrite Hcnn.
      replace (N.of_nat s =? j) with false by (symmetry; apply N.eqb_neq; lia). apply Hlk. lia.
    + exists m2. split; [|exact A2].
      change ((OasisRecord_CELLNAME_IMPLICIT :: wr_cstring (cl_name c)) :: map enc_prop_g pd ++ r2)
        with ([OasisRecord_CELLNAME_IMPLICIT :: wr_cstring (cl_name c)] ++ map enc_prop_g pd ++ r2).
      eapply steps_app; [exact S1|]. eapply steps_app; [exact S2|].
      replace (k_after_cellnames k s (map cl_name (c :: t)) (pd :: d2)) with (k_after_cellnames k1 (S s) (map cl_name t) d2);
        [exact S3|].
      subst k1. unfold k_after_cellnames. cbn [map enum_from rev cnp_list length k_set_cnp k_add_cn k_unit k_lprops k_cells
        k_target k_cn k_cnn k_cnp k_ts k_tsn k_pn k_pnn k_ps k_psn k_md swap_kv fst snd].
      rewrite Hcnn.
      assert (Emd : mode_set (mode_set (k_md k) 0 1) 0 1 = mode_set (k_md k) 0 1)
        by (destruct (k_md k) as [[[a b] c0] e]; reflexivity).
      f_equal.
      * destruct (map cl_name t) eqn:Et; [cbn [length]; f_equal; f_equal; lia|cbn [length]; f_equal; f_equal; lia].
      * rewrite <- app_assoc. reflexivity.
      * f_equal. lia.
      * rewrite rev_app_distr, <- app_assoc. reflexivity.
      * destruct (map cl_name t); [reflexivity|exact Emd].
Qed.

(* ---- TEXTSTRING and PROPNAME records (explicit reference numbers) *)
Definition k_after_ts (k : core) (items : list (list N * N)) : core :=
  match items with
  | [] => k
  | _ => mkC (k_unit k) (k_lprops k) (k_cells k) T_other (k_cn k) (k_cnn k) (k_cnp k)
             (rev (map swap_kv items) ++ k_ts k) (k_tsn k + N.of_nat (length items)) (k_pn k) (k_pnn k) (k_ps k) (k_psn k)
             (mode_set (k_md k) 1 2)
  end.
Definition k_after_pn (k : core) (items : list (list N * N)) : core :=
  match items with
  | [] => k
  | _ => mkC (k_unit k) (k_lprops k) (k_cells k) T_other (k_cn k) (k_cnn k) (k_cnp k)
             (k_ts k) (k_tsn k) (rev (map swap_kv items) ++ k_pn k) (k_pnn k + N.of_nat (length items)) (k_ps k) (k_psn k)
             (mode_set (k_md k) 2 2)
  end.

Lemma steps_textstrings ois : forall items m k,
  (md1 (k_md k) = 0 \/ md1 (k_md k) = 2) -> NoDup (map snd items) ->
  (forall kv, In kv items -> wf_str (fst kv) /\ wf_u (snd kv) /\ lookup (k_ts k) (snd kv) = None) ->
  steps ois m k (numbered_name_records OasisRecord_TEXTSTRING items) m (k_after_ts k items).
Proof.
  induction items as [|[s n] t IH]; intros m k Hmd Hnd Hit; [constructor|].
  cbn [numbered_name_records map fst snd].
  destruct (Hit (s, n) (or_introl eq_refl)) as (Hs & Hn & Hl). cbn [fst snd] in *.
  change ((OasisRecord_TEXTSTRING :: wr_cstring s ++ enc_uint n) :: map (fun kv => OasisRecord_TEXTSTRING :: wr_cstring (fst kv) ++ enc_uint (snd kv)) t)
    with ([OasisRecord_TEXTSTRING :: wr_cstring s ++ enc_uint n] ++ numbered_name_records OasisRecord_TEXTSTRING t).
  eapply steps_app; [apply (step_textstring ois m k s n Hs Hn Hmd Hl)|].
  inversion Hnd as [|? ? Hnin Hnd']; subst.
  replace (k_after_ts k ((s, n) :: t)) with (k_after_ts (k_add_ts k s n) t).
  - apply IH; [destruct k as [? ? ? ? ? ? ? ? ? ? ? ? ? [[[a b] c0] e]]; cbn; right; reflexivity|exact Hnd'|].
    intros kv Hin. destruct (Hit kv (or_intror Hin)) as (A & B & C). split; [exact A|]. split; [exact B|].
    cbn [k_add_ts k_ts lookup]. replace (n =? snd kv) with false; [exact C|]. symmetry. apply N.eqb_neq. intros ->.
    apply Hnin. apply in_map. exact Hin.
  - unfold k_after_ts. destruct t as [|kv t']; cbn [k_add_ts map rev length k_unit k_lprops k_cells k_target k_cn k_cnn k_cnp
      k_ts k_tsn k_pn k_pnn k_ps k_psn k_md swap_kv fst snd app]; [reflexivity|].
    assert (Emd : mode_set (mode_set (k_md k) 1 2) 1 2 = mode_set (k_md k) 1 2)
      by (destruct (k_md k) as [[[a b] c0] e]; reflexivity).
    rewrite Emd. f_equal; [rewrite <- !app_assoc; reflexivity|lia].
Qed.

Lemma steps_propnames ois : forall items m k,
  (md2 (k_md k) = 0 \/ md2 (k_md k) = 2) -> NoDup (map snd items) ->
  (forall kv, In kv items -> wf_str (fst kv) /\ wf_u (snd kv) /\ lookup (k_pn k) (snd kv) = None) ->
  steps ois m k (numbered_name_records OasisRecord_PROPNAME items) m (k_after_pn k items).
Proof.
  induction items as [|[s n] t IH]; intros m k Hmd Hnd Hit; [constructor|].
  cbn [numbered_name_records map fst snd].
  destruct (Hit (s, n) (or_introl eq_refl)) as (Hs & Hn & Hl). cbn [fst snd] in *.
  change ((OasisRecord_PROPNAME :: wr_cstring s ++ enc_uint n) :: map (fun kv => OasisRecord_PROPNAME :: wr_cstring (fst kv) ++ enc_uint (snd kv)) t)
    with ([OasisRecord_PROPNAME :: wr_cstring s ++ enc_uint n] ++ numbered_name_records OasisRecord_PROPNAME t).
  eapply steps_app; [apply (step_propname ois m k s n Hs Hn Hmd Hl)|].
  inversion Hnd as [|? ? Hnin Hnd']; subst.
  replace (k_after_pn k ((s, n) :: t)) with (k_after_pn (k_add_pn k s n) t).
  - apply IH; [destruct k as [? ? ? ? ? ? ? ? ? ? ? ? ? [[[a b] c0] e]]; cbn; right; reflexivity|exact Hnd'|].
    intros kv Hin. destruct (Hit kv (or_intror Hin)) as (A & B & C). split; [exact A|]. split; [exact B|].
    cbn [k_add_pn k_pn lookup]. replace (n =? snd kv) with false; [exact C|]. symmetry. apply N.eqb_neq. intros ->.
    apply Hnin. apply in_map. exact Hin.
  - unfold k_after_pn. destruct t as [|kv t']; cbn [k_add_pn map rev length k_unit k_lprops k_cells k_target k_cn k_cnn k_cnp
      k_ts k_tsn k_pn k_pnn k_ps k_psn k_md swap_kv fst snd app]; [reflexivity|].
    assert (Emd : mode_set (mode_set (k_md k) 2 2) 2 2 = mode_set (k_md k) 2 2)
      by (destruct (k_md k) as [[[a b] c0] e]; reflexivity).
    rewrite Emd. f_equal; [rewrite <- !app_assoc; reflexivity|lia].
Qed.

(* ---- PROPSTRING records (implicit reference numbers) *)
Definition k_after_ps (k : core) (s : nat) (vals : list (list N)) : core :=
  match vals with
  | [] => k
  | _ => mkC (k_unit k) (k_lprops k) (k_cells k) T_other (k_cn k) (k_cnn k) (k_cnp k) (k_ts k) (k_tsn k) (k_pn k) (k_pnn k)
             (rev (map swap_kv (enum_from s vals)) ++ k_ps k) (N.of_nat (s + length vals)) (mode_set (k_md k) 3 1)
  end.

Lemma steps_propstrings ois : forall vals m k s,
  (md3 (k_md k) = 0 \/ md3 (k_md k) = 1) -> k_psn k = N.of_nat s -> Forall wf_str vals ->
  (forall j, N.of_nat s <= j -> lookup (k_ps k) j = None) ->
  steps ois m k (propstring_records vals) m (k_after_ps k s vals).
Proof.
  induction vals as [|v t IH]; intros m k s Hmd Hpsn Hv Hlk; [constructor|].
  cbn [propstring_records map]. inversion Hv as [|? ? Hv1 Hv2]; subst.
  change ((OasisRecord_PROPSTRING_IMPLICIT :: wr_cstring v) :: map (fun s0 => OasisRecord_PROPSTRING_IMPLICIT :: wr_cstring s0) t)
    with ([OasisRecord_PROPSTRING_IMPLICIT :: wr_cstring v] ++ propstring_records t).
  eapply steps_app; [apply (step_propstring ois m k v Hv1 Hmd); apply Hlk; rewrite Hpsn; lia|].
  replace (k_after_ps k s (v :: t)) with (k_after_ps (k_add_ps k v) (S s) t).
  - apply IH; [destruct k as [? ? ? ? ? ? ? ? ? ? ? ? ? [[[a b] c0] e]]; cbn; right; reflexivity| |exact Hv2|].
    + cbn [k_add_ps k_psn]. rewrite Hpsn. lia.
    + intros j Hj. cbn [k_add_ps k_ps lookup]. rewrite Hpsn.
      replace (N.of_nat s =? j) with false by (symmetry; apply N.eqb_neq; lia). apply Hlk. lia.
  - unfold k_after_ps. destruct t as [|v' t']; cbn [k_add_ps map rev length enum_from k_unit k_lprops k_cells k_target k_cn
      k_cnn k_cnp k_ts k_tsn k_pn k_pnn k_ps k_psn k_md swap_kv fst snd app]; rewrite ?Hpsn.
    + unfold k_add_ps. rewrite Hpsn. cbn [swap_kv fst snd]. f_equal. lia.
    + assert (Emd : mode_set (mode_set (k_md k) 3 1) 3 1 = mode_set (k_md k) 3 1)
        by (destruct (k_md k) as [[[a b] c0] e]; reflexivity).
      rewrite Emd. f_equal; [rewrite <- !app_assoc; reflexivity|lia].
Qed.

(* ================================================================== sizes: everything written is part of the file *)
Lemma reclen_app a b : reclen (a ++ b) = reclen a + reclen b.
Proof. unfold reclen. rewrite concat_app, app_length. lia. Qed.
Lemma reclen_cons r a : reclen (r :: a) = N.of_nat (length r) + reclen a.
Proof. unfold reclen. cbn [concat]. rewrite app_length. lia. Qed.

Lemma names_records_bounds code items :
  N.of_nat (length items) <= reclen (numbered_name_records code items) /\
  forall kv, In kv items -> N.of_nat (length (fst kv)) <= reclen (numbered_name_records code items).
Proof.
  induction items as [|kv t [IH1 IH2]]; [split; [cbn; lia|intros ? []]|].
  cbn [numbered_name_records map]. fold (numbered_name_records code t). rewrite reclen_cons. cbn [length].
  unfold wr_cstring. rewrite !app_length. split; [lia|].
  intros kv' [<-|Hin]; [lia|]. specialize (IH2 kv' Hin). lia.
Qed.
Lemma propstring_records_bounds vals :
  N.of_nat (length vals) <= reclen (propstring_records vals) /\
  forall s, In s vals -> N.of_nat (length s) <= reclen (propstring_records vals).
Proof.
  induction vals as [|v t [IH1 IH2]]; [split; [cbn; lia|intros ? []]|].
  cbn [propstring_records map]. fold (propstring_records t). rewrite reclen_cons. cbn [length].
  unfold wr_cstring. rewrite !app_length. split; [lia|].
  intros s [<-|Hin]; [lia|]. specialize (IH2 s Hin). lia.
Qed.
Lemma cellnames_records_bound cfg cells offs : forall l st,
  N.of_nat (length l) <= reclen (fst (fst (cellnames_to_oas cfg cells offs st l))).
Proof.
  induction l as [|c t IH]; intros st; [cbn; lia|]. cbn [cellnames_to_oas].
  destruct (properties_to_oas st (cellname_props cfg c (cell_offset_of cells offs (cl_name c)))) as [[pr pd] st1].
  specialize (IH st1). destruct (cellnames_to_oas cfg cells offs st1 t) as [[r2 d2] st2]. cbn [fst snd] in *.
  rewrite reclen_cons, reclen_app. cbn [length]. lia.
Qed.
Lemma cells_offsets_bound cells : forall l pos ts st,
  Forall (fun o => o <= pos + reclen (fst (fst (fst (fst (cells_to_oas cells pos ts st l))))))
         (snd (fst (fst (cells_to_oas cells pos ts st l)))).
Proof.
  induction l as [|c t IH]; intros pos ts st; cbn [cells_to_oas]; [constructor|].
  destruct (cell_to_oas cells ts st c) as [[[r1 d1] ts1] st1].
  specialize (IH (pos + reclen r1) ts1 st1).
  destruct (cells_to_oas cells (pos + reclen r1) ts1 st1 t) as [[[[r2 d2] o2] ts2] st2]. cbn [fst snd] in *.
  rewrite reclen_app. constructor; [lia|]. eapply Forall_impl; [|exact IH]. cbv beta. intros a Ha. lia.
Qed.
Lemma cell_offset_of_bound cells offs name B : Forall (fun o => o <= B) offs -> cell_offset_of cells offs name <= B.
Proof.
  intros H. unfold cell_offset_of. destruct (cell_index cells name) as [i|]; [|lia].
  destruct (nth_in_or_default (N.to_nat i) offs 0) as [Hin|E0]; [|rewrite E0; lia].
  rewrite Forall_forall in H. apply H. exact Hin.
Qed.

(* ================================================================== decoder tables against the lists of keys *)
Lemma lookup_in (tab : table) k v : NoDup (map fst tab) -> In (k, v) tab -> lookup tab k = Some v.
Proof.
  induction tab as [|[a b] t IH]; intros Hnd Hin; [destruct Hin|]. cbn [lookup map fst] in *.
  inversion Hnd as [|? ? Hn Hnd']; subst. destruct Hin as [E|Hin].
  - injection E as E1 E2. subst a b. rewrite N.eqb_refl. reflexivity.
  - destruct (a =? k) eqn:Ea; [|apply IH; assumption].
    apply N.eqb_eq in Ea. subst a. exfalso. apply Hn. apply (in_map fst) in Hin. exact Hin.
Qed.

Lemma enum_snd_nodup keys : forall s, NoDup (map snd (enum_from s keys)).
Proof.
  induction keys as [|k t IH]; intros s; [constructor|]. cbn [enum_from map snd]. constructor; [|apply IH].
  intros Hin. apply in_map_iff in Hin. destruct Hin as ([k' v'] & Ev & Hin). cbn [snd] in Ev. subst v'.
  apply enum_from_in in Hin. destruct Hin as (i & _ & Hi). lia.
Qed.

Lemma agrees_items items keys : Permutation items (enum_from 0 keys) -> agrees (rev (map swap_kv items) ++ []) keys.
Proof.
  intros HP i s Hi. rewrite app_nil_r. apply lookup_in.
  - rewrite map_rev, map_map. cbn [swap_kv fst]. apply NoDup_rev. 
    apply (Permutation_NoDup (l := map snd (enum_from 0 keys))); [apply Permutation_map; symmetry; exact HP|apply enum_snd_nodup].
  - rewrite <- in_rev. change (N.of_nat i, s) with (swap_kv (s, N.of_nat i)). apply in_map.
    apply (Permutation_in _ (Permutation_sym HP)). apply enum_from_in. exists i. split; [exact Hi|reflexivity].
Qed.
Lemma agrees_enum keys : agrees (rev (map swap_kv (enum_from 0 keys)) ++ []) keys.
Proof. apply agrees_items. apply Permutation_refl. Qed.

Lemma items_values_nodup items keys : Permutation items (enum_from 0 keys) -> NoDup (map snd items).
Proof.
  intros HP. apply (Permutation_NoDup (l := map snd (enum_from 0 keys))); [apply Permutation_map; symmetry; exact HP|apply enum_snd_nodup].
Qed.

(* ---- the properties given with the CELLNAME records *)
Lemma cnprops_rev (l : list (N * prop)) k : cn_props_of (rev l) k = rev (cn_props_of l k).
Proof.
  unfold cn_props_of. induction l as [|a t IH]; [reflexivity|].
  cbn [rev]. rewrite filter_app, map_app, IH. cbn [filter]. destruct (fst a =? k); cbn [map rev app]; [reflexivity|].
  rewrite app_nil_r. reflexivity.
Qed.
Lemma cnp_filter : forall pds s j,
  cn_props_of (cnp_list s pds) (N.of_nat (s + j)) = match nth_error pds j with Some pd => pd | None => [] end.
Proof.
  unfold cn_props_of. induction pds as [|pd t IH]; intros s j; [destruct j; reflexivity|].
  cbn [cnp_list]. rewrite filter_app, map_app.
  assert (Hblock : forall k, map snd (filter (fun kp : N * prop => fst kp =? k) (map (fun p => (N.of_nat s, p)) pd)) =
                             if N.of_nat s =? k then pd else []).
  { intros k. induction pd as [|p pt IHp]; [destruct (N.of_nat s =? k); reflexivity|].
    cbn [map filter fst]. destruct (N.of_nat s =? k); cbn [map snd]; rewrite IHp; reflexivity. }
  rewrite Hblock. destruct j as [|j'].
  - rewrite Nat.add_0_r, N.eqb_refl. cbn [nth_error].
    (* no later block has the key s *)
    assert (Hnone : forall pds' s', (s < s')%nat ->
              map snd (filter (fun kp : N * prop => fst kp =? N.of_nat s) (cnp_list s' pds')) = []).
    { clear. induction pds' as [|pd' t' IH']; intros s' Hs; [reflexivity|].
      cbn [cnp_list]. rewrite filter_app, map_app, IH' by lia. rewrite app_nil_r.
      induction pd' as [|p pt IHp]; [reflexivity|]. cbn [map filter fst].
      replace (N.of_nat s' =? N.of_nat s) with false by (symmetry; apply N.eqb_neq; lia). exact IHp. }
    rewrite Hnone by lia. rewrite app_nil_r. reflexivity.
  - replace (N.of_nat s =? N.of_nat (s + S j')) with false by (symmetry; apply N.eqb_neq; lia).
    cbn [app nth_error]. replace (s + S j')%nat with (S s + j')%nat by lia. apply IH.
Qed.

(* ---- finalize looks at these fields only *)
Lemma finalize_DS m k :
  finalize (DS m k) =
  (let? lp := omap (resolve_prop (k_pn k) (k_ps k)) (rev (k_lprops k)) in
   let? cs := omap (resolve_cell (DS m k)) (rev (k_cells k)) in
   Some (mkLayout (k_unit k) lp cs)).
Proof. reflexivity. Qed.

Lemma omap_nth {A B} (f : A -> option B) : forall l1 l2, length l1 = length l2 ->
  (forall j a b, nth_error l1 j = Some a -> nth_error l2 j = Some b -> f a = Some b) -> omap f l1 = Some l2.
Proof.
  induction l1 as [|a t IH]; intros [|b t2] Hl H; try discriminate; [reflexivity|].
  cbn [omap]. rewrite (H 0%nat a b eq_refl eq_refl). cbn [obnd].
  rewrite (IH t2); [reflexivity|cbn [length] in Hl; lia|]. intros j a' b' Ha Hb. apply (H (S j)); assumption.
Qed.
Lemma Forall2_nth {A B} (P : A -> B -> Prop) l1 l2 j a b :
  Forall2 P l1 l2 -> nth_error l1 j = Some a -> nth_error l2 j = Some b -> P a b.
Proof.
  intros H. revert j. induction H as [|x y l1 l2 Hxy H IH]; intros j Ha Hb; [destruct j; discriminate|].
  destruct j as [|j]; cbn [nth_error] in *; [congruence|]. apply (IH j); assumption.
Qed.

Lemma vp_pview_elems c :
  map vp (pview_elems c) =
  map view_poly (cl_polys c) ++ flat_map view_path (cl_paths c) ++ map view_ref (cl_refs c) ++ map view_label (cl_labels c).
Proof.
  unfold pview_elems. rewrite !map_app, !map_map.
  assert (E1 : map (fun x => vp (pview_poly x)) (cl_polys c) = map view_poly (cl_polys c)) by reflexivity.
  assert (E3 : map (fun x => vp (pview_ref x)) (cl_refs c) = map view_ref (cl_refs c)) by reflexivity.
  assert (E4 : map (fun x => vp (pview_label x)) (cl_labels c) = map view_label (cl_labels c)) by reflexivity.
  assert (E2 : map vp (flat_map pview_path (cl_paths c)) = flat_map view_path (cl_paths c)).
  { induction (cl_paths c) as [|h t IH]; [reflexivity|]. cbn [flat_map]. rewrite map_app, IH. f_equal.
    unfold pview_path, view_path. destruct (length (ph_pts h) <? 2)%nat; [reflexivity|]. rewrite map_map. reflexivity. }
  rewrite E1, E2, E3, E4. reflexivity.
Qed.

Lemma resolve_rcell_g m k cfg names offs KF VF TF i gc c :
  agrees (k_cn k) names -> agrees (k_ts k) TF -> agrees (k_pn k) KF -> agrees (k_ps k) VF ->
  cell_index names (cl_name c) = Some i -> cell_res KF VF TF names i gc c ->
  omap (resolve_prop (k_pn k) (k_ps k)) (rev (cn_props_of (k_cnp k) i)) =
    Some (view_props (cellname_props cfg c (cell_offset_of names offs (cl_name c)))) ->
  resolve_cell (DS m k) (rcell_g gc) = Some (view_cell cfg names offs c).
Proof.
  intros HaC HaT HaK HaV Hi (Hn & Hp & Hel) Hcn.
  unfold resolve_cell. cbn [DS d_cellnames d_propnames d_propstrings d_cn_props d_textstrings rcell_g c_name c_props c_elems].
  rewrite Hn, Hp. cbn [resolve_nref rev omap obnd].
  pose proof (HaC _ _ (cell_index_some names (cl_name c) i Hi)) as Hl. rewrite N2Nat.id in Hl. rewrite Hl. cbn [obnd].
  rewrite Hcn. cbn [obnd]. rewrite rev_involutive.
  assert (Hes : omap (fun ep : element * list prop =>
                        let? e := resolve_elem (k_cn k) (k_ts k) (fst ep) in
                        let? ps := omap (resolve_prop (k_pn k) (k_ps k)) (rev (snd ep)) in Some (e, ps))
                     (map (fun ep : element * list prop => (fst ep, rev (snd ep))) (c_elems gc)) =
                Some (map vp (pview_elems c))).
  { induction Hel as [|gep vep geps veps H1 H2 IH]; [reflexivity|].
    cbn [map omap fst snd]. rewrite rev_involutive.
    destruct (gep_res_resolve (k_cn k) (k_ts k) (k_pn k) (k_ps k) KF VF TF names gep vep HaC HaT HaK HaV H1) as [E1 E2].
    rewrite E1. cbn [obnd]. rewrite E2. cbn [obnd]. rewrite IH. reflexivity. }
  rewrite Hes. cbn [obnd]. rewrite app_nil_r, vp_pview_elems. reflexivity.
Qed.

(* ================================================================== the statement *)
Definition wpoly_okp (p : wpoly) : Prop := wpoly_ok p /\ wprops_ok (py_props p).
Definition wpath_okp (h : wpath) : Prop := wpath_ok h /\ wprops_ok (ph_props h).
Definition wref_okp (r : wref) : Prop := wref_ok r /\ wprops_ok (rf_props r).
Definition wlabel_okp (t : wlabel) : Prop := wlabel_ok t /\ wprops_ok (lb_props t).
Definition wcell_okp (c : wcell) : Prop :=
  wf_str (cl_name c) /\ Forall wpoly_okp (cl_polys c) /\ Forall wpath_okp (cl_paths c) /\ Forall wref_okp (cl_refs c) /\
  Forall wlabel_okp (cl_labels c) /\ wprops_ok (cl_props c).

(* a well-formed library of the covered subset: cell names are distinct; layers, types, half widths, counts and unsigned
   property values fit a uint64, signed values an int64; coordinates stay below 2^62 in magnitude so that every
   difference the writer forms fits an int64; ExplicitX / ExplicitY coordinates are not negative (known finding: the
   writer casts them to unsigned); every polygon has a vertex; and the file is shorter than 2^64 bytes *)
Definition wlib_ok (l : wlib) : Prop :=
  wprops_ok (li_props l) /\ NoDup (map cl_name (li_cells l)) /\ Forall wcell_okp (li_cells l) /\
  forall cfg, N.of_nat (length (write_oas_model cfg l)) < two64.

Lemma Forall_proj1 {A} (P Q : A -> Prop) l : Forall (fun a => P a /\ Q a) l -> Forall P l.
Proof. intros H. eapply Forall_impl; [|exact H]. cbv beta. intros a Ha. apply Ha. Qed.
Lemma Forall_proj2 {A} (P Q : A -> Prop) l : Forall (fun a => P a /\ Q a) l -> Forall Q l.
Proof. intros H. eapply Forall_impl; [|exact H]. cbv beta. intros a Ha. apply Ha. Qed.

Lemma wcell_okp_ok c : wcell_okp c -> wcell_ok c.
Proof.
  intros (_ & H1 & H2 & H3 & H4 & _). unfold wcell_ok.
  split; [exact (Forall_proj1 _ _ _ H1)|]. split; [exact (Forall_proj1 _ _ _ H2)|].
  split; [exact (Forall_proj1 _ _ _ H3)|exact (Forall_proj1 _ _ _ H4)].
Qed.
Lemma pview_elems_props c : wcell_okp c -> Forall (fun ep => wprops_ok (snd ep)) (pview_elems c).
Proof.
  intros (_ & H1 & H2 & H3 & H4 & _). unfold pview_elems.
  apply Forall_app. split; [|apply Forall_app; split; [|apply Forall_app; split]].
  - apply Forall_forall. intros ep Hin. apply in_map_iff in Hin. destruct Hin as (p & <- & Hp).
    rewrite Forall_forall in H1. apply (H1 p Hp).
  - apply Forall_forall. intros ep Hin. apply in_flat_map in Hin. destruct Hin as (h & Hh & Hin).
    rewrite Forall_forall in H2. unfold pview_path in Hin. destruct (length (ph_pts h) <? 2)%nat; [destruct Hin|].
    apply in_map_iff in Hin. destruct Hin as (el & <- & _). apply (H2 h Hh).
  - apply Forall_forall. intros ep Hin. apply in_map_iff in Hin. destruct Hin as (p & <- & Hp).
    rewrite Forall_forall in H3. apply (H3 p Hp).
  - apply Forall_forall. intros ep Hin. apply in_map_iff in Hin. destruct Hin as (p & <- & Hp).
    rewrite Forall_forall in H4. apply (H4 p Hp).
Qed.

Lemma cellname_props_ok cfg c off : wprops_ok (cl_props c) -> wf_u off -> wprops_ok (cellname_props cfg c off).
Proof.
  intros H Ho. unfold cellname_props. destruct (cfg_cell_offset cfg); [|exact H].
  unfold replace_property. constructor.
  - split; [unfold wf_str; cbn; rewrite two64_val; lia|]. split; [unfold wf_u; cbn; rewrite two64_val; lia|].
    constructor; [exact Ho|constructor].
  - unfold wprops_ok in *. rewrite Forall_forall in *. intros x Hx. apply filter_In in Hx. apply H. apply Hx.
Qed.

(* fields after the table phases *)
Lemma k_after_ts_fields k items :
  let k' := k_after_ts k items in
  k_unit k' = k_unit k /\ k_lprops k' = k_lprops k /\ k_cells k' = k_cells k /\ k_cn k' = k_cn k /\ k_cnp k' = k_cnp k /\
  k_ts k' = rev (map swap_kv items) ++ k_ts k /\ k_pn k' = k_pn k /\ k_ps k' = k_ps k /\ k_psn k' = k_psn k /\
  md2 (k_md k') = md2 (k_md k) /\ md3 (k_md k') = md3 (k_md k).
Proof. destruct items; cbn; destruct (k_md k) as [[[a b] c0] e]; repeat split; reflexivity. Qed.
Lemma k_after_pn_fields k items :
  let k' := k_after_pn k items in
  k_unit k' = k_unit k /\ k_lprops k' = k_lprops k /\ k_cells k' = k_cells k /\ k_cn k' = k_cn k /\ k_cnp k' = k_cnp k /\
  k_ts k' = k_ts k /\ k_pn k' = rev (map swap_kv items) ++ k_pn k /\ k_ps k' = k_ps k /\ k_psn k' = k_psn k /\
  md3 (k_md k') = md3 (k_md k).
Proof. destruct items; cbn; destruct (k_md k) as [[[a b] c0] e]; repeat split; reflexivity. Qed.
Lemma k_after_ps_fields k s vals :
  let k' := k_after_ps k s vals in
  k_unit k' = k_unit k /\ k_lprops k' = k_lprops k /\ k_cells k' = k_cells k /\ k_cn k' = k_cn k /\ k_cnp k' = k_cnp k /\
  k_ts k' = k_ts k /\ k_pn k' = k_pn k /\ k_ps k' = rev (map swap_kv (enum_from s vals)) ++ k_ps k.
Proof. destruct vals; cbn; repeat split; reflexivity. Qed.
Lemma k_after_cellnames_fields k s names pds :
  let k' := k_after_cellnames k s names pds in
  k_unit k' = k_unit k /\ k_lprops k' = k_lprops k /\ k_cells k' = k_cells k /\
  k_cn k' = rev (map swap_kv (enum_from s names)) ++ k_cn k /\ k_cnp k' = rev (cnp_list s pds) ++ k_cnp k /\
  k_ts k' = k_ts k /\ k_pn k' = k_pn k /\ k_ps k' = k_ps k /\ k_psn k' = k_psn k /\
  md1 (k_md k') = md1 (k_md k) /\ md2 (k_md k') = md2 (k_md k) /\ md3 (k_md k') = md3 (k_md k).
Proof. destruct names; cbn; destruct (k_md k) as [[[a b] c0] e]; repeat split; reflexivity. Qed.

Definition k_init (u : real) : core := mkC u [] [] T_lib [] 0 [] [] 0 [] 0 [] 0 (0, 0, 0, 0).

Lemma geps_res_wf KF VF TF CN geps veps :
  Forall2 (gep_res KF VF TF CN) geps veps -> Forall (fun ep => wprops_ok (snd ep)) veps ->
  len_ok KF -> len_ok VF -> len_ok TF -> len_ok CN -> Forall wf_gep geps.
Proof.
  intros H Hok HK HV HT HC. revert Hok. induction H as [|g v gs vs H1 H2 IH]; intros Hok; [constructor|].
  inversion Hok as [|? ? Ho1 Ho2]; subst. constructor; [apply (gep_res_wf KF VF TF CN g v H1 Ho1 HK HV HT HC)|apply IH; exact Ho2].
Qed.

Lemma cells_res_wf KF VF TF CN gcs l :
  cells_res KF VF TF CN gcs l -> Forall wcell_okp l -> len_ok KF -> len_ok VF -> len_ok TF -> len_ok CN ->
  Forall wf_gcell gcs.
Proof.
  intros H Hok HK HV HT HC. revert Hok. induction H as [|gc c gcs cs H1 H2 IH]; intros Hok; [constructor|].
  inversion Hok as [|? ? Ho1 Ho2]; subst. constructor; [|apply IH; exact Ho2].
  destruct H1 as (i & Hi & Hn & Hp & Hel). split; [|split; [exact Hp|]].
  - exists i. split; [exact Hn|]. apply (nth_error_wf CN i _ HC (cell_index_some CN _ i Hi)).
  - apply (geps_res_wf KF VF TF CN _ _ Hel (pview_elems_props c Ho1) HK HV HT HC).
Qed.

Lemma cn_res_wf cfg cells offs KF VF B pds l :
  Forall2 (fun (pd : list prop) (c : wcell) =>
             Forall2 (prop_res KF VF) pd (cellname_props cfg c (cell_offset_of cells offs (cl_name c)))) pds l ->
  Forall wcell_okp l -> Forall (fun o => o <= B) offs -> B < two64 -> len_ok KF -> len_ok VF ->
  Forall (Forall wf_nprop) pds.
Proof.
  intros H Hok Hoffs HB HK HV. revert Hok. induction H as [|pd c pds cs H1 H2 IH]; intros Hok; [constructor|].
  inversion Hok as [|? ? Ho1 Ho2]; subst. constructor; [|apply IH; exact Ho2].
  apply (props_res_wf KF VF _ _ H1); [|exact HK|exact HV].
  apply cellname_props_ok; [apply Ho1|]. pose proof (cell_offset_of_bound cells offs (cl_name c) B Hoffs). unfold wf_u. lia.
Qed.

Lemma NR_items_len m keys : NR m keys -> length (nm_items m) = length keys.
Proof. intros H. destruct (NR_items m keys H) as (_ & _ & HP). rewrite (Permutation_length HP). apply enum_from_length. Qed.

Theorem oas_writer_conforms_lemma : forall cfg l, wlib_ok l -> spec_oas_decode (write_oas_model cfg l) = Some (view_w cfg l).
Proof.
  intros cfg l (Hlp & Hnd & Hcells & Hsize). specialize (Hsize cfg).
  unfold view_w, cell_offsets. unfold write_oas_model in *. unfold write_oas_run in *.
  set (names := map cl_name (li_cells l)) in *.
  set (start := start_header ++ enc_real (li_unit l) ++ [1]) in *.
  (* the three stateful passes *)
  destruct (properties_to_oas_res (li_props l) pstate0 [] NR_names0) as (K1 & X1 & R1).
  pose proof (properties_to_oas_enc (li_props l) pstate0) as Enc1.
  destruct (properties_to_oas pstate0 (li_props l)) as [[r_lp d_lp] st1] eqn:E1. cbn [fst snd] in X1, R1, Enc1.
  set (pos1 := N.of_nat (length start) + reclen r_lp) in *.
  destruct (cells_to_oas_res names (li_cells l) [] pos1 names0 [] st1 K1 eq_refl Hnd NR_names0 (proj1 X1))
    as (T2 & K2 & HT2 & _ & X2 & R2).
  pose proof (cells_offsets_bound names (li_cells l) pos1 names0 st1) as Hoffs.
  destruct (cells_to_oas names pos1 names0 st1 (li_cells l)) as [[[[r_c d_c] offs] ts] st2] eqn:E2.
  cbn [fst snd] in HT2, X2, R2, Hoffs.
  destruct (cellnames_to_oas_res cfg names offs (li_cells l) st2 K2 (proj1 X2)) as (K3 & X3 & R3).
  pose proof (cellnames_records_bound cfg names offs (li_cells l) st2) as Hcnb.
  destruct (cellnames_to_oas cfg names offs st2 (li_cells l)) as [[r_cn d_cn] st3] eqn:E3.
  cbn [fst snd] in X3, R3, Hcnb.
  cbn [run_failed run_start run_records run_end run_offsets] in *.
  (* no hash-map failure *)
  destruct X3 as (NR3 & PK3 & PV3). destruct X2 as (NR2 & PK2 & PV2). destruct X1 as (NR1 & PK1 & PV1).
  assert (Hnf : nm_fail ts || nm_fail (ps_names st3) = false).
  { destruct HT2 as (F1 & _). destruct NR3 as (F2 & _). rewrite F1, F2. reflexivity. }
  rewrite Hnf in *.
  set (r_ts := numbered_name_records OasisRecord_TEXTSTRING (nm_items ts)) in *.
  set (r_pn := numbered_name_records OasisRecord_PROPNAME (nm_items (ps_names st3))) in *.
  set (r_ps := propstring_records (ps_vals st3)) in *.
  set (VF := ps_vals st3) in *.
  (* sizes *)
  assert (Hfile : N.of_nat (length start) + reclen r_lp + reclen r_c + reclen r_cn + reclen r_ts + reclen r_pn + reclen r_ps < two64).
  { rewrite !app_length in Hsize. rewrite !concat_app, !app_length in Hsize. unfold reclen. lia. }
  destruct (names_records_bounds OasisRecord_TEXTSTRING (nm_items ts)) as [Bts1 Bts2]. fold r_ts in Bts1, Bts2.
  destruct (names_records_bounds OasisRecord_PROPNAME (nm_items (ps_names st3))) as [Bpn1 Bpn2]. fold r_pn in Bpn1, Bpn2.
  destruct (propstring_records_bounds VF) as [Bps1 Bps2]. fold r_ps in Bps1, Bps2.
  assert (LK : len_ok K3) by (unfold len_ok; rewrite <- (NR_items_len _ _ NR3); lia).
  assert (LT : len_ok T2) by (unfold len_ok; rewrite <- (NR_items_len _ _ HT2); lia).
  assert (LV : len_ok VF) by (unfold len_ok; lia).
  assert (LC : len_ok names) by (unfold len_ok, names; rewrite map_length; lia).
  (* what is written is well formed *)
  assert (PK13 : prefix K1 K3) by (eapply prefix_trans; eassumption).
  assert (PV13 : prefix (ps_vals st1) VF) by (eapply prefix_trans; eassumption).
  pose proof (props_res_wf K3 VF d_lp (li_props l) (R1 K3 VF PK13 PV13) Hlp LK LV) as Wlp.
  pose proof (cells_res_wf K3 VF T2 names d_c (li_cells l) (R2 K3 VF T2 PK3 PV3 (prefix_refl _)) Hcells LK LV LT LC) as Wc.
  pose proof (cn_res_wf cfg names offs K3 VF (pos1 + reclen r_c) d_cn (li_cells l) (R3 K3 VF (prefix_refl _) (prefix_refl _))
                Hcells Hoffs ltac:(unfold pos1; lia) LK LV) as Wcn.
  (* the record loop *)
  set (u := real_of_bits (li_unit l)).
  destruct (steps_props_lib false d_lp modal0 (k_init u) Wlp eq_refl eq_refl) as (m1 & SA & A1).
  set (kA := k_set_lprops (k_init u) (rev d_lp ++ k_lprops (k_init u))) in *.
  destruct (steps_cells false names (li_cells l) pos1 names0 st1 r_c d_c offs ts st2 E2
              (Forall_impl _ wcell_okp_ok Hcells) Wc m1 kA A1) as (m2 & tg2 & SB & A2).
  set (kB := k_set_cells kA (rev (map rcell_g d_c) ++ k_cells kA) tg2) in *.
  destruct (steps_cellnames false cfg names offs (li_cells l) st2 r_cn d_cn st3 E3
              (Forall_impl _ (fun c (H : wcell_okp c) => proj1 H) Hcells) Wcn m2 kB 0%nat A2
              (or_introl eq_refl) eq_refl (fun j _ => eq_refl)) as (m3 & SC & A3).
  fold names in SC. set (kC := k_after_cellnames kB 0 names d_cn) in *.
  destruct (k_after_cellnames_fields kB 0 names d_cn) as (FC1 & FC2 & FC3 & FC4 & FC5 & FC6 & FC7 & FC8 & FC9 & FC10 & FC11 & FC12).
  fold kC in FC1, FC2, FC3, FC4, FC5, FC6, FC7, FC8, FC9, FC10, FC11, FC12.
  (* TEXTSTRING *)
  destruct (NR_items ts T2 HT2) as (NDts & INts & PMts).
  assert (SD : steps false m3 kC r_ts m3 (k_after_ts kC (nm_items ts))).
  { apply steps_textstrings; [left; rewrite FC10; reflexivity|apply (items_values_nodup _ _ PMts)|].
    intros kv Hin. split; [|split].
    - unfold wf_str. specialize (Bts2 kv Hin). lia.
    - destruct kv as [s v]. apply INts in Hin. apply (nth_error_wf T2 v s LT Hin).
    - rewrite FC6. reflexivity. }
  set (kD := k_after_ts kC (nm_items ts)) in *.
  destruct (k_after_ts_fields kC (nm_items ts)) as (FD1 & FD2 & FD3 & FD4 & FD5 & FD6 & FD7 & FD8 & FD9 & FD10 & FD11).
  fold kD in FD1, FD2, FD3, FD4, FD5, FD6, FD7, FD8, FD9, FD10, FD11.
  (* PROPNAME *)
  destruct (NR_items (ps_names st3) K3 NR3) as (NDpn & INpn & PMpn).
  assert (SE : steps false m3 kD r_pn m3 (k_after_pn kD (nm_items (ps_names st3)))).
  { apply steps_propnames; [left; rewrite FD10, FC11; reflexivity|apply (items_values_nodup _ _ PMpn)|].
    intros kv Hin. split; [|split].
    - unfold wf_str. specialize (Bpn2 kv Hin). lia.
    - destruct kv as [s v]. apply INpn in Hin. apply (nth_error_wf K3 v s LK Hin).
    - rewrite FD7, FC7. reflexivity. }
  set (kE := k_after_pn kD (nm_items (ps_names st3))) in *.
  destruct (k_after_pn_fields kD (nm_items (ps_names st3))) as (FE1 & FE2 & FE3 & FE4 & FE5 & FE6 & FE7 & FE8 & FE9 & FE10).
  fold kE in FE1, FE2, FE3, FE4, FE5, FE6, FE7, FE8, FE9, FE10.
  (* PROPSTRING *)
  assert (SF : steps false m3 kE r_ps m3 (k_after_ps kE 0 VF)).
  { apply steps_propstrings; [left; rewrite FE10, FD11, FC12; reflexivity|rewrite FE9, FD9, FC9; reflexivity| |].
    - apply Forall_forall. intros s Hin. unfold wf_str. specialize (Bps2 s Hin). lia.
    - intros j _. rewrite FE8, FD8, FC8. reflexivity. }
  set (kF := k_after_ps kE 0 VF) in *.
  destruct (k_after_ps_fields kE 0 VF) as (FF1 & FF2 & FF3 & FF4 & FF5 & FF6 & FF7 & FF8).
  fold kF in FF1, FF2, FF3, FF4, FF5, FF6, FF7, FF8.
  assert (Sall : steps false modal0 (k_init u) (r_lp ++ r_c ++ r_cn ++ r_ts ++ r_pn ++ r_ps) m3 kF).
  { rewrite Enc1. eapply steps_app; [exact SA|]. eapply steps_app; [exact SB|]. eapply steps_app; [exact SC|].
    eapply steps_app; [exact SD|]. eapply steps_app; [exact SE|exact SF]. }
  set (R := r_lp ++ r_c ++ r_cn ++ r_ts ++ r_pn ++ r_ps) in *.
  (* END *)
  pose proof (end_record_ok
                (match li_cells l with [] => 0 | _ :: _ => pos1 + reclen r_c end)
                (if 0 <? nm_count ts then pos1 + reclen r_c + reclen r_cn else 0)
                (if 0 <? nm_count (ps_names st3) then pos1 + reclen r_c + reclen r_cn + reclen r_ts else 0)
                (match VF with [] => 0 | _ :: _ => pos1 + reclen r_c + reclen r_cn + reclen r_ts + reclen r_pn end)) as Hend.
  match type of Hend with ?A -> ?B -> ?C -> ?D -> _ =>
    assert (W1 : A) by (unfold wf_u, pos1; destruct (li_cells l); lia);
    assert (W2 : B) by (unfold wf_u, pos1; destruct (0 <? nm_count ts); lia);
    assert (W3 : C) by (unfold wf_u, pos1; destruct (0 <? nm_count (ps_names st3)); lia);
    assert (W4 : D) by (unfold wf_u, pos1; destruct VF; lia)
  end.
  specialize (Hend W1 W2 W3 W4).
  destruct (end_record_w _ _ _ _) as [|code tail]; [contradiction|]. destruct Hend as [-> Hend].
  (* the tables at END *)
  assert (Epn : k_pn kF = rev (map swap_kv (nm_items (ps_names st3))) ++ []) by (rewrite FF7, FE7, FD7, FC7; reflexivity).
  assert (Eps : k_ps kF = rev (map swap_kv (enum_from 0 VF)) ++ []) by (rewrite FF8, FE8, FD8, FC8; reflexivity).
  assert (Ets : k_ts kF = rev (map swap_kv (nm_items ts)) ++ []) by (rewrite FF6, FE6, FD6, FC6; reflexivity).
  assert (Ecn : k_cn kF = rev (map swap_kv (enum_from 0 names)) ++ []) by (rewrite FF4, FE4, FD4, FC4; reflexivity).
  assert (Ecnp : k_cnp kF = rev (cnp_list 0 d_cn) ++ []) by (rewrite FF5, FE5, FD5, FC5; reflexivity).
  assert (Elp : k_lprops kF = rev d_lp ++ []) by (rewrite FF2, FE2, FD2, FC2; reflexivity).
  assert (Ecs : k_cells kF = rev (map rcell_g d_c) ++ []) by (rewrite FF3, FE3, FD3, FC3; reflexivity).
  assert (Eu : k_unit kF = u) by (rewrite FF1, FE1, FD1, FC1; reflexivity).
  assert (AgK : agrees (k_pn kF) K3) by (rewrite Epn; apply agrees_items; exact PMpn).
  assert (AgV : agrees (k_ps kF) VF) by (rewrite Eps; apply agrees_enum).
  assert (AgT : agrees (k_ts kF) T2) by (rewrite Ets; apply agrees_items; exact PMts).
  assert (AgC : agrees (k_cn kF) names) by (rewrite Ecn; apply agrees_enum).
  assert (Hfin : finalize (DS m3 kF) =
                 Some (mkLayout u (view_props (li_props l)) (map (view_cell cfg names offs) (li_cells l)))).
  { rewrite finalize_DS. rewrite Elp, app_nil_r, rev_involutive.
    rewrite (props_res_resolve (k_pn kF) (k_ps kF) K3 VF d_lp (li_props l) AgK AgV (R1 K3 VF PK13 PV13)). cbn [obnd].
    rewrite Ecs, app_nil_r, rev_involutive.
    pose proof (R2 K3 VF T2 PK3 PV3 (prefix_refl _)) as RC. pose proof (R3 K3 VF (prefix_refl _) (prefix_refl _)) as RN.
    rewrite (omap_nth (resolve_cell (DS m3 kF)) (map rcell_g d_c) (map (view_cell cfg names offs) (li_cells l))).
    - cbn [obnd]. rewrite Eu. reflexivity.
    - rewrite !map_length. apply (Forall2_length_eq _ _ _ RC).
    - intros j a b Ha Hb. rewrite nth_error_map in Ha, Hb.
      destruct (nth_error d_c j) as [gc|] eqn:Egc; [|discriminate]. destruct (nth_error (li_cells l) j) as [c|] eqn:Ec; [|discriminate].
      cbn [option_map] in Ha, Hb. injection Ha as <-. injection Hb as <-.
      destruct (Forall2_nth _ _ _ j gc c RC Egc Ec) as (i & Hi & Hres).
      assert (Hij : i = N.of_nat j).
      { pose proof (cell_index_some names (cl_name c) i Hi) as H1.
        assert (H2 : nth_error names j = Some (cl_name c)) by (unfold names; rewrite nth_error_map, Ec; reflexivity).
        assert (N.to_nat i = j); [|lia].
        apply (proj1 (NoDup_nth_error names) Hnd); [apply nth_error_Some; congruence|congruence]. }
      destruct (nth_error d_cn j) as [pd|] eqn:Epd.
      + apply (resolve_rcell_g m3 kF cfg names offs K3 VF T2 i gc c AgC AgT AgK AgV Hi Hres).
        rewrite Ecnp, app_nil_r, cnprops_rev, rev_involutive. rewrite Hij.
        change (N.of_nat j) with (N.of_nat (0 + j)). rewrite cnp_filter, Epd.
        apply (props_res_resolve (k_pn kF) (k_ps kF) K3 VF _ _ AgK AgV). apply (Forall2_nth _ _ _ j pd c RN Epd Ec).
      + exfalso. apply nth_error_None in Epd. rewrite (Forall2_length_eq _ _ _ RN) in Epd.
        assert (j < length (li_cells l))%nat by (apply nth_error_Some; congruence). lia. }
  (* the header *)
  unfold spec_oas_decode. unfold start, start_header. rewrite <- !app_assoc. rewrite strip_prefix_app. cbn [obnd].
  change OasisRecord_START with 1. cbn [app].
  rewrite rd_uint_small by lia. cbn [obnd N.eqb Pos.eqb negb].
  match goal with |- context [rd_string (3 :: 49 :: 46 :: 48 :: ?X)] =>
    change (3 :: 49 :: 46 :: 48 :: X) with (wr_string version_1_0 ++ X) end.
  rewrite rd_string_enc by (unfold wf_str, two64; cbn; lia). cbn [obnd].
  change (strip_prefix version_1_0 version_1_0) with (Some (@nil N)). cbn [obnd].
  change (length version_1_0 =? 3)%nat with true. cbn [negb].
  rewrite rd_real_enc_real. cbn [obnd app].
  rewrite rd_uint_small by lia. cbn [obnd N.ltb N.compare Pos.compare Pos.compare_cont N.eqb].
  change (d_init (real_of_bits (li_unit l))) with (DS modal0 (k_init u)).
  apply (dec_loop_mono (length R + 1)).
  - rewrite (steps_loop false _ _ _ _ _ Sall 1%nat (2 :: tail)). cbn [dec_loop].
    unfold dec_record. rewrite rd_uint_small by lia. cbn [obnd]. rewrite Hend. rewrite Hfin. reflexivity.
  - rewrite app_length. pose proof (concat_length_ge R (steps_nonempty _ _ _ _ _ _ Sall)). cbn [length]. lia.
Qed.

Check oas_writer_conforms_lemma.
Print Assumptions oas_writer_conforms_lemma.

(* ================================================================== non-vacuity *)
Definition sample_wlib : wlib :=
  mkWLib 4652007308841189376 (* 1000.0 = 1e-6 / 1e-9 *)
    [([80; 49], [VUInt 7; VStr [97; 32; 98]; VInt (-5)%Z; VReal 4602678819172646912 (* 0.5 *)])]
    [ mkWCell [84; 79; 80]
        [ mkWPoly 1 2 [(0, 0); (10, 0); (10, 5); (0, 5)]%Z (WRect 3 2 20 (-30)) [([80; 50], [VStr [120; 121]])];
          mkWPoly 3 0 [(0, 0); (7, 3); (-2, 9)]%Z (WExplX [30; 10; 20]%Z) [] ]
        [ mkWPath [mkWPel 4 0 5 (WE_ext 5 (-2)); mkWPel 5 1 0 WE_half] [(0, 0); (10, 0); (10, 10)]%Z (WExpl [(5, 5); (9, -1)]%Z)
                  [([80; 49], [VStr [97; 32; 98]])] ]
        [ mkWRef [65] 100%Z (-200)%Z 4607182418800017408 0 (Some 0%Z) false WNone [];
          mkWRef [65] 1%Z 2%Z 4611686018427387904 (* 2.0 *) 4609753056924675352 (* pi/2 *) (Some 1%Z) true (WReg 2 3 (7, 1) (-1, 8))%Z [];
          mkWRef [90; 90] 0%Z 0%Z 4607182418800017408 4613937818241073152 (* 3.0 *) None false WNone [] ]
        [ mkWLabel [104; 105] 6 7 (-3)%Z 4%Z (WExplY [4; 9]%Z) [([80; 50], [VUInt 1])];
          mkWLabel [104; 105] 6 8 0%Z 0%Z WNone [] ]
        [([80; 51], [])];
      mkWCell [65] [] [] [] [] [] ].

Example sample_wlib_ok : wlib_ok sample_wlib.
Proof.
  split; [|split; [|split]].
  - repeat constructor; unfold wf_str, wf_u, fits63; cbn; rewrite ?two64_val, ?two63_val; lia.
  - cbn. repeat constructor; cbn; intuition discriminate.
  - assert (Hz : forall a b : Z, (- 2 ^ 62 < a < 2 ^ 62)%Z -> (- 2 ^ 62 < b < 2 ^ 62)%Z -> ptc (a, b)) by (intros; split; assumption).
    repeat (first [apply Forall_nil | apply Forall_cons | split]);
      try exact I; try (apply Hz; lia); try discriminate;
      unfold wf_str, wf_u, fits63, wf_pt, wpath_ok, wpel_ok, wend_ok; cbn [fst snd length];
      rewrite ?two64_val, ?two63_val; try lia.
    all: try (repeat (first [apply Forall_nil | apply Forall_cons | split]); try exact I; try (apply Hz; lia);
              unfold wf_str, wf_u, fits63, wend_ok; cbn [fst snd length pe_layer pe_type pe_hw pe_end];
              rewrite ?two64_val, ?two63_val; lia).
  - intros [[|]]; vm_compute; reflexivity.
Qed.

(* the statement evaluated on the sample, with and without S_CELL_OFFSET *)
Example sample_wlib_conforms :
  spec_oas_decode (write_oas_model (mkWCfg true) sample_wlib) = Some (view_w (mkWCfg true) sample_wlib) /\
  spec_oas_decode (write_oas_model (mkWCfg false) sample_wlib) = Some (view_w (mkWCfg false) sample_wlib) /\
  length (write_oas_model (mkWCfg true) sample_wlib) = 506%nat.
Proof. split; [vm_compute; reflexivity|split; vm_compute; reflexivity]. Qed.

(* tie (generated): the record codes the model writes through Generated.v are the ones the decoder of OasisSpec.v and
   the proofs above use *)
Theorem c04w_source_constants :
  (OasisRecord_START, OasisRecord_END, OasisRecord_CELLNAME_IMPLICIT, OasisRecord_TEXTSTRING, OasisRecord_PROPNAME,
   OasisRecord_PROPSTRING_IMPLICIT, OasisRecord_CELL_REF_NUM, OasisRecord_PLACEMENT, OasisRecord_PLACEMENT_TRANSFORM,
   OasisRecord_TEXT, OasisRecord_POLYGON, OasisRecord_PATH, OasisRecord_PROPERTY) =
  (1, 2, 3, 6, 8, 9, 13, 17, 18, 19, 21, 22, 28)
  /\ (GDSTK_INITIAL_MAP_CAPACITY, GDSTK_MAP_GROWTH_FACTOR, GDSTK_MAP_CAPACITY_THRESHOLD) = (8, 2, 5).
Proof. split; reflexivity. Qed.
Print Assumptions sample_wlib_ok.

(* ================================================================== S_CELL_OFFSET points at the CELL record *)
Lemma cells_offsets_point cells : forall l pos ts st j off,
  nth_error (snd (fst (fst (cells_to_oas cells pos ts st l)))) j = Some off ->
  exists pre post, concat (fst (fst (fst (fst (cells_to_oas cells pos ts st l))))) = pre ++ OasisRecord_CELL_REF_NUM :: post /\
                   off = pos + N.of_nat (length pre).
Proof.
  induction l as [|c t IH]; intros pos ts st j off; cbn [cells_to_oas]; [destruct j; discriminate|].
  assert (Hhead : exists tl1, fst (fst (fst (cell_to_oas cells ts st c))) = (OasisRecord_CELL_REF_NUM :: tl1)
                                :: tl (fst (fst (fst (cell_to_oas cells ts st c))))).
  { unfold cell_to_oas. destruct (polygons_to_oas st (cl_polys c)) as [[r1 d1] st1].
    destruct (flexpaths_to_oas st1 (cl_paths c)) as [[r2 d2] st2].
    destruct (references_to_oas cells st2 (cl_refs c)) as [[r3 d3] st3].
    destruct (labels_to_oas ts st3 (cl_labels c)) as [[[r4 d4] ts4] st4]. cbn [fst snd tl]. eexists. reflexivity. }
  destruct (cell_to_oas cells ts st c) as [[[r1 d1] ts1] st1]. cbn [fst snd] in Hhead.
  specialize (IH (pos + reclen r1) ts1 st1).
  destruct (cells_to_oas cells (pos + reclen r1) ts1 st1 t) as [[[[r2 d2] o2] ts2] st2]. cbn [fst snd] in *.
  destruct j as [|j']; cbn [nth_error]; intros H.
  - injection H as <-. destruct Hhead as (tl1 & ->). exists [], (tl1 ++ concat (tl r1) ++ concat r2).
    split; [cbn [concat app]; rewrite concat_app; cbn [concat app]; rewrite <- ?app_assoc; reflexivity|cbn; lia].
  - destruct (IH j' off H) as (pre & post & E & ->). exists (concat r1 ++ pre), post.
    split; [rewrite concat_app, E, <- app_assoc; reflexivity|]. rewrite app_length. unfold reclen. lia.
Qed.

(* the bytes of a run (= write_oas_model when no hash-map operation failed, which oas_writer_conforms_lemma implies for
   well-formed libraries): every recorded cell offset is the position of a CELL record *)
Theorem cell_offsets_point_at_cells_lemma : forall cfg l j off,
  nth_error (cell_offsets cfg l) j = Some off ->
  exists pre post,
    run_start (write_oas_run cfg l) ++ concat (run_records (write_oas_run cfg l)) ++ run_end (write_oas_run cfg l) =
    pre ++ OasisRecord_CELL_REF_NUM :: post /\ off = N.of_nat (length pre).
Proof.
  intros cfg l j off. unfold cell_offsets, write_oas_run.
  destruct (properties_to_oas pstate0 (li_props l)) as [[r_lp d_lp] st1].
  set (start := start_header ++ enc_real (li_unit l) ++ [1]).
  pose proof (cells_offsets_point (map cl_name (li_cells l)) (li_cells l) (N.of_nat (length start) + reclen r_lp) names0 st1 j off) as H.
  destruct (cells_to_oas (map cl_name (li_cells l)) (N.of_nat (length start) + reclen r_lp) names0 st1 (li_cells l))
    as [[[[r_c d_c] offs] ts] st2]. cbn [fst snd] in H.
  destruct (cellnames_to_oas cfg (map cl_name (li_cells l)) offs st2 (li_cells l)) as [[r_cn d_cn] st3].
  cbn [run_offsets run_start run_records run_end]. intros Hj. destruct (H Hj) as (pre & post & E & ->).
  exists (start ++ concat r_lp ++ pre). eexists. split.
  - rewrite !concat_app, E, <- !app_assoc. cbn [app]. reflexivity.
  - rewrite !app_length. unfold reclen. lia.
Qed.
Print Assumptions cell_offsets_point_at_cells_lemma.

(* ================================================================== what the repetition field denotes *)
Lemma iota_one : iota 1 = [0%Z]. Proof. reflexivity. Qed.

Lemma lattice_rows1 n v1 v2 : lattice n 1 v1 v2 = map (fun i => ((i * fst v1)%Z, (i * snd v1)%Z)) (iota (N.to_nat n)).
Proof.
  unfold lattice. change (N.to_nat 1) with 1%nat. rewrite iota_one.
  induction (iota (N.to_nat n)) as [|i t IH]; [reflexivity|]. cbn [flat_map map app] in *. rewrite IH. f_equal. f_equal; lia.
Qed.
Lemma lattice_cols1 m v1 v2 : lattice 1 m v1 v2 = map (fun j => ((j * fst v2)%Z, (j * snd v2)%Z)) (iota (N.to_nat m)).
Proof.
  unfold lattice. change (N.to_nat 1) with 1%nat. rewrite iota_one. cbn [flat_map]. rewrite app_nil_r.
  apply map_ext. intros j. f_equal; lia.
Qed.

Lemma prefix_sums_ptdiffs l : forall p, prefix_sums_pt p (ptdiffs p l) = l.
Proof.
  induction l as [|q t IH]; intros p; [reflexivity|]. cbn [ptdiffs prefix_sums_pt]. unfold padd. cbn [fst snd].
  replace ((fst p + (fst q - fst p))%Z, (snd p + (snd q - snd p))%Z) with q by (destruct q; cbn [fst snd]; f_equal; lia).
  rewrite IH. reflexivity.
Qed.
Lemma prefix_sums_zdiffs l : forall p, (0 <= p)%Z -> sorted_z (p :: l) ->
  map Z.of_N (prefix_sums_N (Z.to_N p) (map Z.to_N (zdiffs p l))) = l.
Proof.
  induction l as [|c t IH]; intros p Hp Hs; [reflexivity|]. cbn [sorted_z] in Hs. destruct Hs as [H1 H2].
  cbn [zdiffs map prefix_sums_N]. replace (Z.to_N p + Z.to_N (c - p)) with (Z.to_N c) by lia.
  rewrite (IH c ltac:(lia) H2). rewrite Z2N.id by lia. reflexivity.
Qed.

(* the offsets of an ExplicitX / ExplicitY repetition come back in ascending order *)
Definition wrep_offsets_sorted (r : wrep) : list pt :=
  match r with
  | WExplX cs => (0, 0)%Z :: map (fun c => (c, 0%Z)) (sort_z cs)
  | WExplY cs => (0, 0)%Z :: map (fun c => (0%Z, c)) (sort_z cs)
  | _ => wrep_offsets r
  end.

Theorem view_rep_offsets_lemma r : wrep_ok r -> has_rep r = true ->
  rep_offsets (view_rep_body r) = wrep_offsets_sorted r.
Proof.
  intros Hok Hh. unfold has_rep in Hh.
  destruct r as [|c rw sx sy|c rw v1 v2|offs|cs|cs]; cbn [rep_count wrep_ok wrep_offsets_sorted wrep_offsets view_rep_body] in *.
  - discriminate.
  - destruct Hok as (Hc & Hr & Hx & Hy). pose proof (has_rep_rect c rw Hc Hr Hh) as Hone.
    destruct (1 <? c) eqn:Ec; cbn [andb].
    + apply N.ltb_lt in Ec. destruct (1 <? rw) eqn:Er.
      * apply N.ltb_lt in Er. destruct (0 <=? sx)%Z eqn:Ex; cbn [andb]; [destruct (0 <=? sy)%Z eqn:Ey|]; cbn [rep_offsets].
        -- apply Z.leb_le in Ex, Ey. rewrite !Z2N.id by lia. replace (c - 2 + 2) with c by lia. replace (rw - 2 + 2) with rw by lia.
           reflexivity.
        -- replace (c - 2 + 2) with c by lia. replace (rw - 2 + 2) with rw by lia. reflexivity.
        -- replace (c - 2 + 2) with c by lia. replace (rw - 2 + 2) with rw by lia. reflexivity.
      * assert (rw = 1).
        { apply N.ltb_ge in Er. apply N.ltb_lt in Hh. assert (E : rw = 0 \/ rw = 1) by lia. destruct E as [-> | ->]; [|reflexivity].
          rewrite N.mul_0_r in Hh. rewrite N.mod_0_l in Hh by (rewrite two64_val; lia). lia. }
        subst rw. rewrite lattice_rows1. cbn [fst snd].
        destruct (0 <=? sx)%Z eqn:Ex; cbn [rep_offsets]; replace (c - 2 + 2) with c by lia; rewrite lattice_rows1; cbn [fst snd].
        -- apply Z.leb_le in Ex. rewrite Z2N.id by lia. reflexivity.
        -- reflexivity.
    + destruct (Hone eq_refl) as [-> Hrw]. rewrite lattice_cols1. cbn [fst snd].
      destruct (0 <=? sy)%Z eqn:Ey; cbn [rep_offsets]; replace (rw - 2 + 2) with rw by lia.
      * apply Z.leb_le in Ey. rewrite lattice_cols1. cbn [fst snd]. rewrite Z2N.id by lia. reflexivity.
      * rewrite lattice_rows1. cbn [fst snd]. reflexivity.
  - destruct Hok as (Hc & Hr & H1 & H2). pose proof (has_rep_rect c rw Hc Hr Hh) as Hone.
    destruct (1 <? c) eqn:Ec; cbn [andb].
    + apply N.ltb_lt in Ec. destruct (1 <? rw) eqn:Er; cbn [rep_offsets].
      * apply N.ltb_lt in Er. replace (c - 2 + 2) with c by lia. replace (rw - 2 + 2) with rw by lia. reflexivity.
      * assert (rw = 1).
        { apply N.ltb_ge in Er. apply N.ltb_lt in Hh. assert (E : rw = 0 \/ rw = 1) by lia. destruct E as [-> | ->]; [|reflexivity].
          rewrite N.mul_0_r in Hh. rewrite N.mod_0_l in Hh by (rewrite two64_val; lia). lia. }
        subst rw. replace (c - 2 + 2) with c by lia. rewrite !lattice_rows1. reflexivity.
    + destruct (Hone eq_refl) as [-> Hrw]. cbn [rep_offsets]. replace (rw - 2 + 2) with rw by lia.
      rewrite lattice_rows1, lattice_cols1. reflexivity.
  - cbn [rep_offsets grid_of]. rewrite prefix_sums_ptdiffs. f_equal. rewrite <- (map_id offs) at 2. apply map_ext.
    intros [a b]. cbn [fst snd]. f_equal; lia.
  - destruct Hok as (_ & Hf). cbn [rep_offsets grid_of]. f_equal.
    pose proof (sort_z_sorted cs) as Hs. pose proof (sort_z_Forall _ cs Hf) as Hsf.
    rewrite <- (prefix_sums_zdiffs (sort_z cs) 0 ltac:(lia)) at 2.
    + rewrite !map_map. apply map_ext. intros x. f_equal. lia.
    + destruct (sort_z cs) as [|c0 t]; [cbn; auto|]. cbn [sorted_z]. split; [|exact Hs]. inversion Hsf; subst. lia.
  - destruct Hok as (_ & Hf). cbn [rep_offsets grid_of]. f_equal.
    pose proof (sort_z_sorted cs) as Hs. pose proof (sort_z_Forall _ cs Hf) as Hsf.
    rewrite <- (prefix_sums_zdiffs (sort_z cs) 0 ltac:(lia)) at 2.
    + rewrite !map_map. apply map_ext. intros x. f_equal. lia.
    + destruct (sort_z cs) as [|c0 t]; [cbn; auto|]. cbn [sorted_z]. split; [|exact Hs]. inversion Hsf; subst. lia.
Qed.
Print Assumptions view_rep_offsets_lemma.
