Require Import Base GdsFrame.
Require Import Extraction ExtrOcamlBasic.
Extraction Blacklist List String Int.
Extraction "../ocaml/extracted/c18.ml" status_until gds_units_model gds_timestamp_model next_record
  RT_ENDLIB RT_UNITS RT_BGNLIB Z.of_N.
