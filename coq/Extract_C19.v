Require Import Base OasisInt.
Require Import Extraction ExtrOcamlBasic.
Extraction Blacklist List String Int.
Extraction "../ocaml/extracted/c19.ml" enc_uint dec_uint enc_int_internal dec_int_internal enc_int dec_int
  enc_2delta dec_2delta enc_3delta dec_3delta enc_gdelta dec_gdelta spec_uint_value N.ltb N.leb two64.
